import ESV.SsbScript.TextInv
import ESV.SsbScript.TextAst
/-
C09 on the path of the SsbScript decompiler (which also writes the fallback text of the ExplorerScript decompiler),
for ALL routine sets and prefixes: the source-map entries recorded by `SsbScriptSsbDecompiler.convert(prefix)` are keyed
by the offsets of the printed input ops, one entry per op and in order, and each entry names the line and column of the
emitted text at which the statement `Name(…);` printed for that op begins.

`decompileText` (ESV/SsbScript/Text.lean) is the character-level model (text + recorded `add_opcode` calls + position
marks), tied to the Python code by the exact comparison of channel `ssbstext` in ./check C09.  The model is a fold of the
writer calls of ESV/Writer/Model.lean; the step for `_read_op` is `C09.writer_entry_pos` (ESV/SsbScript/TextInv.lean).
-/
namespace ESV.C09
open ESV ESV.Writer ESV.SsbScript ESV.SsbScript.Text

/-- no opcode name contains a newline (names come from the opcode table of the game) -/
def namesNoNewline (x : RoutineSet) : Bool := x.flat.all fun o => !o.name.toList.contains '\n'

theorem printedOps_sub (x : RoutineSet) : ∀ o ∈ printedOps x, o ∈ x.flat := by
  intro o ho
  simp only [printedOps, RoutineSet.flat, List.mem_flatten] at ho ⊢
  obtain ⟨l, hl, hol⟩ := ho
  exact ⟨l, List.mem_of_mem_take hl, hol⟩

/-- with at least as many routine infos as routines (every reader delivers equally many) all ops are printed -/
theorem printedOps_all (x : RoutineSet) (h : x.ops.length ≤ x.infos.length) : printedOps x = x.flat := by
  simp [printedOps, RoutineSet.flat, List.take_of_length_le h]

/-- **One entry per printed op.** The offsets of the recorded entries are exactly the offsets of the ops the routine loop
prints, in order: every op printed as its own statement has an entry, every entry is keyed by an input op, and an offset
is recorded twice only if two input ops carry it. -/
theorem ssbs_entry_per_op {pre : Str} {x : RoutineSet} {text : Str} {entries : List (Int × Nat × Nat)} {marks : List Mark}
    (h : decompileText pre x = .ok (text, entries, marks)) :
    entries.map (·.1) = (printedOps x).map (·.offset) := by
  obtain ⟨w, _, rfl, g⟩ := decompileText_good h
  have := All2.map_eq (fun e : Int × Nat × Nat => e.1) (fun k : Int × String => k.1) (fun a b hab => hab.1) g.ents
  simpa [List.map_map, Function.comp_def, opKey] using this

/-- the same for the sets every reader delivers (`len(routine_infos) == len(routine_ops)`): all offsets of the set -/
theorem ssbs_entry_per_op_all {pre : Str} {x : RoutineSet} {text : Str} {entries : List (Int × Nat × Nat)} {marks : List Mark}
    (h : decompileText pre x = .ok (text, entries, marks)) (hlen : x.ops.length ≤ x.infos.length) :
    entries.map (·.1) = x.offsets := by
  rw [ssbs_entry_per_op h, printedOps_all x hlen]; rfl

/-- **The entry of the k-th printed op points at its statement** (hypothesis on that op only): the entry is keyed by the
op's offset, its column is 4, and — if the opcode name contains no newline — line `line` of `text.split("\n")` exists, has
blanks in front of column 4 and continues with the opcode name and `(`. -/
theorem ssbs_entry_points_at_statement_at {pre : Str} {x : RoutineSet} {text : Str} {entries : List (Int × Nat × Nat)}
    {marks : List Mark} (h : decompileText pre x = .ok (text, entries, marks))
    (k : Nat) (off : Int) (line col : Nat) (he : entries[k]? = some (off, line, col)) :
    ∃ o, (printedOps x)[k]? = some o ∧ off = o.offset ∧ col = 4 ∧
      ('\n' ∉ o.name.toList → ∃ l, (Lit.splitOn '\n' text)[line]? = some l ∧
        l.take col = List.replicate col ' ' ∧ (o.name.toList ++ ['(']) <+: l.drop col) := by
  obtain ⟨w, rfl, rfl, g⟩ := decompileText_good h
  obtain ⟨kk, hk, h1, h2, h3⟩ := g.ents.get k _ he
  rw [List.getElem?_map] at hk
  cases ho : (printedOps x)[k]? with
  | none => rw [ho] at hk; cases hk
  | some o =>
    rw [ho] at hk
    simp only [Option.map_some, Option.some.injEq] at hk
    subst hk
    simp only [opKey] at h1 h2 h3
    refine ⟨o, rfl, h1, h2, ?_⟩
    intro hn
    have hs : '\n' ∉ stmtHead o.name := by
      simp only [stmtHead, spaces, List.mem_append, List.mem_replicate, List.mem_singleton, not_or]
      exact ⟨by decide, hn, by decide⟩
    obtain ⟨l, hl, c, rfl⟩ := h3.line hs
    refine ⟨_, hl, ?_, ?_⟩
    · subst h2; simp [stmtHead, spaces]
    · subst h2
      refine ⟨c, ?_⟩
      simp [stmtHead, spaces]

/-- **Every entry points at the statement of its op.** For a set whose opcode names contain no newline: the k-th entry
`(off, line, col)` belongs to the k-th printed op `o`; `off` is its offset, `col = 4`, line `line` of the emitted text
(split at newlines, 0-based) exists, is blank up to column `col` and from column `col` on starts with `o.name` and `(`. -/
theorem ssbs_entry_points_at_statement {pre : Str} {x : RoutineSet} {text : Str} {entries : List (Int × Nat × Nat)}
    {marks : List Mark} (h : decompileText pre x = .ok (text, entries, marks)) (hn : namesNoNewline x = true)
    (k : Nat) (off : Int) (line col : Nat) (he : entries[k]? = some (off, line, col)) :
    ∃ o l, (printedOps x)[k]? = some o ∧ o ∈ x.flat ∧ off = o.offset ∧ col = 4 ∧
      (Lit.splitOn '\n' text)[line]? = some l ∧
      l.take col = List.replicate col ' ' ∧ (o.name.toList ++ ['(']) <+: l.drop col := by
  obtain ⟨o, ho, h1, h2, h3⟩ := ssbs_entry_points_at_statement_at h k off line col he
  have hm : o ∈ x.flat := printedOps_sub x o (List.mem_of_getElem? ho)
  have hno : '\n' ∉ o.name.toList := by
    have := List.all_eq_true.1 hn o hm
    simpa using this
  obtain ⟨l, hl, h4, h5⟩ := h3 hno
  exact ⟨o, l, ho, hm, h1, h2, hl, h4, h5⟩

/-- **Entries lie on strictly increasing lines** (recording order = text order; a multi-line parameter moves the next
statement further down, never onto the same line). -/
theorem ssbs_line_of_next {pre : Str} {x : RoutineSet} {text : Str} {entries : List (Int × Nat × Nat)} {marks : List Mark}
    (h : decompileText pre x = .ok (text, entries, marks)) :
    entries.Pairwise (fun a b => a.2.1 < b.2.1) := by
  obtain ⟨w, _, rfl, g⟩ := decompileText_good h
  exact g.incr

/-- every recorded line is a line of the text -/
theorem ssbs_entry_line_in_text {pre : Str} {x : RoutineSet} {text : Str} {entries : List (Int × Nat × Nat)} {marks : List Mark}
    (h : decompileText pre x = .ok (text, entries, marks)) :
    ∀ e ∈ entries, e.2.1 < (Lit.splitOn '\n' text).length := by
  obtain ⟨w, rfl, rfl, g⟩ := decompileText_good h
  intro e he
  have := g.below e he
  have hi := g.inv
  unfold C09.Inv at hi
  rw [length_splitOn]
  simp only [countNl] at hi
  omega

/-- **The emitted text is the prefix followed by the printed statement AST** of the AST-level model of this decompiler
(`ESV.SsbScript.decompile`, the model the round-trip theorem of C07 is about): per routine `⏎header {`, every statement on
its own line behind four blanks (or `alias previous;`), `⏎}⏎`. -/
theorem ssbs_text_prints_ast {pre : Str} {x : RoutineSet} {text : Str} {entries : List (Int × Nat × Nat)} {marks : List Mark}
    (h : decompileText pre x = .ok (text, entries, marks)) :
    ∃ ast, decompile x = .ok ast ∧ text = pre ++ printAst ast := by
  have hv := decompileText_vs_decompile pre x
  cases hd : decompile x with
  | error e => rw [hd] at hv; simp only at hv; rw [hv] at h; cases h
  | ok ast =>
    rw [hd] at hv
    obtain ⟨en, mk, h2⟩ := hv
    rw [h2] at h
    cases h
    exact ⟨ast, rfl, rfl⟩

/-- both models raise on the same inputs, with the same exception class, whatever the prefix -/
theorem ssbs_text_error_iff (pre : Str) (x : RoutineSet) (e : Err) :
    decompileText pre x = .error e ↔ decompile x = .error e := by
  have hv := decompileText_vs_decompile pre x
  cases hd : decompile x with
  | error e' => rw [hd] at hv; simp only at hv; rw [hv]; simp
  | ok ast =>
    rw [hd] at hv
    obtain ⟨en, mk, h2⟩ := hv
    rw [h2]; simp

/-! ### non-vacuity: a multi-line string before another op (line arithmetic), a negative offset, a label and a jump across
routines, a position mark; without and with a prefix; an error case -/

def exText : RoutineSet :=
  { infos := [⟨.generic, 0, none⟩, ⟨.coroutine, 0, none⟩],
    coros := [none, some "C"],
    ops := [[⟨-2, "Talk", [.constString "x\ny"]⟩, ⟨0, "Jump", [.int 7]⟩],
            [⟨7, "Move", [.posMark "m" 2 0 3 (-1)]⟩]] }

example : namesNoNewline exText = true := by decide +kernel

example : decompileText [] exText = .ok
    ("\ndef 0 {\n    Talk('''\n        x\n        y\n    ''');\n    Jump(@label_0);\n}\n\ncoro C {\n    @label_0;\n    Move(Position<'m', 3.5, -1>);\n}\n".toList,
     [(-2, 2, 4), (0, 6, 4), (7, 11, 4)],
     [⟨11, 4, 11, 26, ['m'], 2, 0, 3, -1⟩]) := by decide +kernel

/-- with a prefix of one line every entry moves down by one line -/
example : (decompileText "// a\n".toList exText).map (fun r => (r.2.1, r.2.2)) =
    .ok ([(-2, 3, 4), (0, 7, 4), (7, 12, 4)], [⟨12, 4, 12, 26, ['m'], 2, 0, 3, -1⟩]) := by decide +kernel

/-- a coroutine without a name: `ValueError` -/
example : decompileText [] ⟨[⟨.coroutine, 0, none⟩], [[]], [none]⟩ = .error .valueError := by decide +kernel

end ESV.C09
