import ESV.Cache.ThreadLemmas
import ESV.Cache.ThreadSeq
import ESV.Cache.Shared
import ESV.Gen.Shared
/-
C12 — Concurrent compilation and decompilation give the sequential results.
K3: the memo table of graph_utils.py shared by any number of threads (model: ESV/Cache/Threads.lean), every interleaving
of the atomic sections `lock; lookup; unlock` · `compute` · `lock; store; unlock` · `lock; clear; unlock`.
Statements and final theorems only; the invariant is in ESV/Cache/ThreadLemmas.lean.

What the theorems say about the code: the lock discipline of graph_utils.py is sufficient — the unlocked compute and the
store "after the cache may have been cleared in the meantime" are harmless — PROVIDED each thread follows the clear
protocol on its own graphs (`Disciplined`) and graphs are private to their thread.  Ids may be recycled between threads.
What they do not say: the pinned decompiler is not `Disciplined` (see ESV/Props/C11.lean), so the sequential defect
(a stale entry under a recycled id) also exists between threads, where it becomes schedule dependent:
`interleave_stale_counterexample`.
-/
namespace ESV.C12
open ESV ESV.Cache

section
variable {K A C R : Type} [DecidableEq K] [DecidableEq A]

/-- From any state in which all threads are between calls (any memo table, stale entries of dead graphs included; any
set of live graphs, each owned by one thread), if every thread's program is `Disciplined`, then under EVERY schedule
every query returns what `_impl` computes on the thread's own graph as it is at that moment, and no section raises
KeyError. -/
theorem interleave_safe (rc : C → K → A → R) (s : MSt K A C R) (hidle : ∀ t, (s.th t).phase = .idle)
    (hd : ∀ t, Disciplined (s.th t).prog) (sched : List Tid) : ∀ ev ∈ runT rc s sched, ev.Safe rc :=
  safe_gen rc sched s _ (tinv_start rc s hidle hd)

/-- the same for threads started in a process with no live graph -/
theorem interleave_safe_start (rc : C → K → A → R) (progs : Tid → List (MOp K A C)) (m : Memo K R)
    (hd : ∀ t, Disciplined (progs t)) (sched : List Tid) : ∀ ev ∈ runT rc (startT progs m) sched, ev.Safe rc :=
  interleave_safe rc (startT progs m) (fun _ => rfl) hd sched

/-- no schedule makes the store section fail: `cache[id(g)]` exists from the thread's own lookup on, and no section of any
thread removes an outer entry (`clear` replaces the table) -/
theorem interleave_no_keyerror (rc : C → K → A → R) (progs : Tid → List (MOp K A C)) (m : Memo K R)
    (hd : ∀ t, Disciplined (progs t)) (sched : List Tid) (t : Tid) (g : Gid) (k : K) :
    Ev.keyError t g k ∉ runT rc (startT progs m) sched := by
  intro h
  exact interleave_safe_start rc progs m hd sched _ h

/-- The literal property on the machine: under every schedule in which no step is ill-formed (no thread touches a graph it
does not own, no `alloc` gets a live id — guaranteed by CPython for real runs), the values a thread's queries return, followed
by the values it would still return running alone from where it stands, are exactly the values of its program run ALONE on
the machine without a memo table.  Programs of whole operations, each `Disciplined`. -/
theorem interleave_sequential (rc : C → K → A → R) (progs : Tid → List (MOp K A C)) (m : Memo K R)
    (hd : ∀ t, Disciplined (progs t)) (hh : ∀ t, (progs t).all MOp.isHigh = true) (sched : List Tid)
    (hwf : ∀ t0, Ev.illFormed t0 ∉ runT rc (startT progs m) sched) (t : Tid) :
    valuesOf t (runT rc (startT progs m) sched) ++ todo rc (finalT rc (startT progs m) sched) t =
      idealVals rc (fun _ => none) (progs t) := by
  rw [← todo_start rc progs m t]
  exact seq_gen rc sched (startT progs m) _ (tinv_start rc _ (fun _ => rfl) hd) (fun t' => hh t') hwf t

/-- … and for a thread that has finished: its results are exactly its results when run alone -/
theorem interleave_sequential_finished (rc : C → K → A → R) (progs : Tid → List (MOp K A C)) (m : Memo K R)
    (hd : ∀ t, Disciplined (progs t)) (hh : ∀ t, (progs t).all MOp.isHigh = true) (sched : List Tid)
    (hwf : ∀ t0, Ev.illFormed t0 ∉ runT rc (startT progs m) sched) (t : Tid)
    (h1 : ((finalT rc (startT progs m) sched).th t).phase = .idle) (h2 : ((finalT rc (startT progs m) sched).th t).prog = []) :
    valuesOf t (runT rc (startT progs m) sched) = idealVals rc (fun _ => none) (progs t) := by
  have := interleave_sequential rc progs m hd hh sched hwf t
  rw [todo_finished rc _ t h1 h2, List.append_nil] at this
  exact this

end

/-- Table lemma: the writes to process-wide state found in the current /repo source (regenerated list) are exactly the ones
the thread model is built over (ESV/Cache/Shared.lean): the memo table and its lock (modelled), the parsers' shared caches (not
modelled, exploration only), and import-time constants. -/
theorem shared_inventory_pinned : Gen.sharedWrites = Cache.modelledSharedKeys := by decide +kernel

/-! ### witnesses (`rc c k a = c`) -/

def rcW : Nat → Nat → Nat → Nat := fun c _ _ => c

/-- thread 1 = call A of C11 (aborted after its query: no final clear), thread 2 = call B (queries before clearing), both
get graph id 7 -/
def progsW : Tid → List (MOp Nat Nat Nat)
  | 1 => [.alloc 7 1, .clear 7, .query 7 0 0, .drop 7]
  | 2 => [.alloc 7 2, .query 7 0 0, .clear 7, .drop 7]
  | _ => []

/-- thread 1 first, then thread 2: thread 2's query is answered from the dead graph's entry (1, its own graph gives 2);
thread 2 first: it gets 2.  The result of thread 2's call depends on the schedule. -/
theorem interleave_stale_counterexample :
    valuesOf 2 (runT rcW (startT progsW (fun _ => none)) [1, 1, 1, 1, 1, 1, 2, 2, 2, 2]) = [1] ∧
    valuesOf 2 (runT rcW (startT progsW (fun _ => none)) [2, 2, 2, 2, 2, 2, 1, 1, 1, 1, 1, 1]) = [2] ∧
    ¬ Disciplined (progsW 2) := by
  decide

/-- non-vacuity of `interleave_safe`: two disciplined threads; thread 2 takes over id 7 after thread 1 dropped it while
thread 1 is inside a query on another graph; sections of the two queries interleave (lookup 1, lookup 2, compute 2,
compute 1, store 1, store 2), a second query of thread 1 is a hit -/
def progsOk : Tid → List (MOp Nat Nat Nat)
  | 1 => [.alloc 7 1, .clear 7, .query 7 0 0, .drop 7, .alloc 8 3, .clear 8, .query 8 0 0, .query 8 0 0, .clear 8, .drop 8]
  | 2 => [.alloc 7 2, .clear 7, .query 7 0 0, .clear 7, .drop 7]
  | _ => []

example : (∀ t, Disciplined (progsOk t)) := by
  intro t
  match t with
  | 0 => decide
  | 1 => decide
  | 2 => decide
  | n + 3 => exact (by decide : Disciplined ([] : List (MOp Nat Nat Nat)))

example :
    runT rcW (startT progsOk (fun _ => none)) [1, 1, 1, 1, 1, 1, 1, 1, 2, 2, 1, 2, 2, 1, 1, 2, 1] =
      [.ok 1, .ok 1, .missed 1, .computedEv 1, .val 1 7 0 0 1 1 false, .ok 1, .ok 1, .ok 1,
       .ok 2, .ok 2, .missed 1, .missed 2, .computedEv 2, .computedEv 1, .val 1 8 0 0 3 3 false,
       .val 2 7 0 0 2 2 false, .val 1 8 0 0 3 3 true] := by
  decide

/-- an `alloc` of an id another thread still holds is flagged (CPython never does that: live objects have distinct ids) -/
example : runT rcW (startT progsOk (fun _ => none)) [1, 2] = [.ok 1, .illFormed 2] := by decide

end ESV.C12
