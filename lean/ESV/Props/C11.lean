import ESV.Cache.Lemmas
import ESV.Cache.Objects
import ESV.Cache.Shared
import ESV.Gen.Shared
/-
C11 — Results depend only on the input, not on what was processed before.
K3: theorems about the memo-table protocol of graph_utils.py (model: ESV/Cache/Model.lean) under ALL histories, and two
small object models (parameter `indent`, compiler object).  Statements and final theorems only; lemmas are in
ESV/Cache/Lemmas.lean.

Reading guide.  A history is the sequence of graph/memo operations a process performs, over any number of convert() calls.
* `cache_fresh`            the protocol's own contract: with a clear after every (re)allocation and mutation, every query
                           returns what `_impl` computes on the graph as it is now — from ANY earlier state of the table.
* `call_independent_of_memo`   what C11 needs from a call: if every query of the call comes after a clear of the same id
                           within the call, the call's results are the same for every content of the table at its start
                           (in particular the same as in a fresh process).
* `tidy_prefix_then_fresh` what the pinned code actually provides: if the calls before left every table they touched empty
                           (true when convert() returns from the structured path: remove_label_markers clears every graph
                           and nothing queries afterwards), the next call behaves as in a fresh process.
* `cache_stale_counterexample`, `call_depends_on_memo_counterexample`
                           neither guard can be dropped: an id reused after an aborted call returns the dead graph's value.
                           The pinned code is NOT Isolated (build_and_group_switch_cases queries before any clear when the
                           routine has no Branch op) and NOT Tidy after a convert() that falls back to SsbScript or raises
                           between a query and the next clear; harness/props/c11.py replays the witness on the real code.
-/
namespace ESV.C11
open ESV ESV.Cache

section memo
variable {K A C R : Type} [DecidableEq K] [DecidableEq A]

/-- `Disciplined h → every query in h returns recompute(current content)`, whatever the memo table held before
(`s` is arbitrary: stale entries of dead graphs under recycled ids included): position by position, every value the
machine returns (from a whole query, a lookup section that hits, or a store section) is the value the machine without
a memo table computes there, and no section raises KeyError. -/
theorem cache_fresh (rc : C → K → A → R) (s : St K C R) (h : List (MOp K A C)) (hd : Disciplined h) :
    AgreeAll (run rc s h) (ideal rc s.live h) := by
  apply fresh_gen rc h s (fun _ => none) _ hd
  exact ⟨(by intro g f c k r hdg; cases hdg), (by intro g f hdg; cases hdg)⟩

/-- (so that `cache_fresh` is not vacuous for whole queries) a query on a live graph always returns a value -/
theorem query_always_answers (rc : C → K → A → R) (s : St K C R) (g : Gid) (k : K) (a : A) (c : C)
    (hl : s.live g = some c) : ∃ r hit, (step rc s (.query g k a)).2 = .val r hit :=
  query_answers rc s g k a c hl

/-- A call all of whose queries come after a `clear` of the same id gives the same outputs (values and hit/miss) from
any two states of the memo table. -/
theorem call_independent_of_memo (rc : C → K → A → R) (l : Gid → Option C) (m m' : Memo K R) (call : List (MOp K A C))
    (hi : Isolated call) : run rc ⟨l, m⟩ call = run rc ⟨l, m'⟩ call := by
  apply sim_gen rc call l m m' (fun _ => false) (fun _ => false) _ hi
  exact ⟨(by intro g he; cases he), (by intro g hx; cases hx)⟩

/-- If the history before a call is `Tidy`, the call's outputs in the long-lived process equal its outputs in a process
whose memo table is empty (a fresh process that holds the same live graphs).  (`Guarded`: store sections follow their
lookup sections; automatic for histories of whole queries, see `tidy_prefix_then_fresh_queries`.) -/
theorem tidy_prefix_then_fresh (rc : C → K → A → R) (pre call : List (MOp K A C)) (ht : Tidy pre) (hg : Guarded call) :
    run rc (final rc fresh pre) call = run rc ⟨(final rc (fresh : St K C R) pre).live, fun _ => none⟩ call := by
  have hlook : ∀ g k, (final rc (fresh : St K C R) pre).memo.look g k = none := by
    intro g k
    apply dirty_gen rc pre fresh [] _ g _ k
    · intro g' _ k'; rfl
    · unfold Tidy at ht; rw [ht]; exact List.not_mem_nil
  exact sim_gen rc call (final rc (fresh : St K C R) pre).live (final rc (fresh : St K C R) pre).memo (fun _ => none)
    (fun _ => true) (fun _ => false) ⟨(by intro g _ k; rw [hlook g k]; rfl), (by intro g hx; cases hx)⟩ hg

theorem tidy_prefix_then_fresh_queries (rc : C → K → A → R) (pre call : List (MOp K A C)) (ht : Tidy pre)
    (hh : call.all MOp.isHigh = true) :
    run rc (final rc fresh pre) call = run rc ⟨(final rc (fresh : St K C R) pre).live, fun _ => none⟩ call :=
  tidy_prefix_then_fresh rc pre call ht (guarded_of_high call _ hh)

/-- the whole history `pre ++ call` from a fresh process: the outputs of `call` are those of `call` run from an empty table -/
theorem outputs_of_call_after_tidy_prefix (rc : C → K → A → R) (pre call : List (MOp K A C)) (ht : Tidy pre)
    (hg : Guarded call) :
    run rc (fresh : St K C R) (pre ++ call) =
      run rc fresh pre ++ run rc ⟨(final rc (fresh : St K C R) pre).live, fun _ => none⟩ call := by
  rw [run_append, tidy_prefix_then_fresh rc pre call ht hg]

/-- a sequential whole query never raises KeyError: `lookup` has created the table and nothing removes it -/
theorem sequential_no_keyerror (rc : C → K → A → R) (s : St K C R) (g : Gid) (k : K) (a : A) :
    (step rc s (.query g k a)).2 ≠ .keyError := by
  cases hl : s.live g with
  | none => simp [step, hl]
  | some c =>
    obtain ⟨r, hit, h⟩ := query_answers rc s g k a c hl
    rw [h]; simp

end memo

/-! ### witnesses (contents, keys, arguments, results are numbers; `rc c k a = c`: the result names the graph it was computed on) -/

def rcW : Nat → Nat → Nat → Nat := fun c _ _ => c

/-- call A: graph 7 (content 1) is cleared and queried, then the call is abandoned (exception / SsbScript fallback) and the
graph dies.  Call B: a new graph (content 2) gets the recycled id 7 and is queried before any clear. -/
def callA : List (MOp Nat Nat Nat) := [.alloc 7 1, .clear 7, .query 7 0 0, .drop 7]
def callB : List (MOp Nat Nat Nat) := [.alloc 7 2, .query 7 0 0, .clear 7, .drop 7]

/-- id reuse without a clear returns the dead graph's value: the last query answers 1, recomputation gives 2 -/
theorem cache_stale_counterexample :
    run rcW fresh (callA ++ callB) = [.ok, .ok, .val 1 false, .ok, .ok, .val 1 true, .ok, .ok] ∧
    ideal rcW (fun _ => none) (callA ++ callB) = [none, none, some 1, none, none, some 2, none, none] ∧
    (run rcW fresh (callA ++ callB)).map Out.value ≠ ideal rcW (fun _ => none) (callA ++ callB) ∧
    ¬ Disciplined (callA ++ callB) := by
  decide

/-- the same call B gives different results after call A and in a fresh process: B is not `Isolated`, A is not `Tidy` -/
theorem call_depends_on_memo_counterexample :
    run rcW (final rcW fresh callA) callB ≠ run rcW fresh callB ∧ ¬ Isolated callB ∧ ¬ Tidy callA := by
  decide

/-- non-vacuity: the shape of a convert() that returns normally — build_branches (clear, query), in-place rewriting,
build_loops (clear, query, query again: a hit), remove_label_markers (clear) — is Disciplined, Isolated and Tidy, and has a hit -/
def callOk : List (MOp Nat Nat Nat) :=
  [.alloc 3 1, .clear 3, .query 3 0 0, .mutate 3 2, .clear 3, .query 3 0 1, .query 3 0 1, .clear 3, .drop 3]

example : Disciplined callOk ∧ Isolated callOk ∧ Tidy callOk ∧
    run rcW fresh callOk = [.ok, .ok, .val 1 false, .ok, .ok, .val 2 false, .val 2 true, .ok, .ok] := by decide

/-- the key omits the arguments: the same key with another argument between two clears is answered from the table -/
example : run (fun _ _ a => a) (fresh : St Nat Nat Nat) [.alloc 3 1, .clear 3, .query 3 0 5, .query 3 0 6] =
      [.ok, .ok, .val 5 false, .val 5 true] ∧
    ¬ Disciplined ([.alloc 3 1, .clear 3, .query 3 0 5, .query 3 0 6] : List (MOp Nat Nat Nat)) := by decide

/-- a query whose `_impl` run issues a nested query (the recursion of graph_utils.py), written with the section operations:
lookup(outer) · lookup(inner) · store(inner) · store(outer), then a lookup that hits.  Disciplined; every value agrees. -/
def callNested : List (MOp Nat Nat Nat) :=
  [.alloc 3 1, .clear 3, .lookup 3 0 0, .lookup 3 1 0, .store 3 1 0, .store 3 0 0, .lookup 3 0 0, .clear 3, .drop 3]

example : Disciplined callNested ∧ Isolated callNested ∧ Guarded callNested ∧ Tidy callNested ∧
    run rcW fresh callNested = [.ok, .ok, .miss, .miss, .val 1 false, .val 1 false, .val 1 true, .ok, .ok] := by decide

/-- the nested query has the key of the outer one but another argument (the key omits `vs_to_not_visit`): not Disciplined -/
example : ¬ Disciplined ([.alloc 3 1, .clear 3, .lookup 3 0 5, .lookup 3 0 6, .store 3 0 6, .store 3 0 5] : List (MOp Nat Nat Nat)) := by
  decide

/-- a store section without its lookup section in a fresh process raises KeyError (`Guarded` excludes it) -/
example : run rcW fresh ([.alloc 3 1, .store 3 0 0] : List (MOp Nat Nat Nat)) = [.ok, .keyError] ∧
    ¬ Guarded ([.alloc 3 1, .store 3 0 0] : List (MOp Nat Nat Nat)) := by decide

/-- Table lemma: the process-wide state the current /repo source can write (regenerated AST inventory: mutable default arguments,
module/class-level objects mutated by functions and how, `global`s, interpreter settings, the parsers' shared caches) is exactly
the list the history model accounts for (ESV/Cache/Shared.lean): the memo table (covered by the theorems above), the parsers'
caches (exploration only), definition-time constants. -/
theorem history_state_inventory_pinned : Gen.sharedWrites = Cache.modelledSharedKeys := by decide +kernel

/-! ### decompilation does not alter the meaning of the caller's ops -/

theorem setIndent_meaning (i : Int) (p : PyParam) : (p.setIndent i).meaning = p.meaning := by
  cases p <;> rfl

theorem setIndent_pyEq (i : Int) (p : PyParam) : (p.setIndent i).pyEq p = true := by
  cases p <;> simp [PyParam.setIndent, PyParam.pyEq]

theorem pyEq_refl (p : PyParam) : p.pyEq p = true := by
  cases p <;> simp [PyParam.pyEq]

theorem printParams_meaning (sel : Nat → Option Int) (ps : List PyParam) :
    ∀ n, (printParams sel n ps).map PyParam.meaning = ps.map PyParam.meaning := by
  induction ps with
  | nil => intro n; rfl
  | cons p ps ih =>
    intro n
    simp only [printParams, List.map_cons, ih]
    cases sel n <;> simp [setIndent_meaning]

theorem printParams_length (sel : Nat → Option Int) (ps : List PyParam) : ∀ n, (printParams sel n ps).length = ps.length := by
  induction ps with
  | nil => intro n; rfl
  | cons p ps ih => intro n; simp [printParams, ih]

theorem printParams_pyEq (sel : Nat → Option Int) (ps : List PyParam) :
    ∀ n, ((printParams sel n ps).zip ps).all (fun pq => pq.1.pyEq pq.2) = true := by
  induction ps with
  | nil => intro n; rfl
  | cons p ps ih =>
    intro n
    simp only [printParams, List.zip_cons_cons, List.all_cons, ih, Bool.and_true]
    cases sel n with
    | none => exact pyEq_refl p
    | some i => exact setIndent_pyEq i p

/-- Printing an op writes nothing but `indent`: the op means the same, compares equal (`__eq__`) to what it was,
and differs from it at most in `indent` attributes. -/
theorem print_indent_only (sel : Nat → Option Int) (o : PyOp) :
    (o.print sel).meaning = o.meaning ∧ (o.print sel).pyEq o = true ∧
      (o.print sel).offset = o.offset ∧ (o.print sel).name = o.name ∧
      (o.print sel).params.map (PyParam.setIndent 0) = o.params.map (PyParam.setIndent 0) := by
  refine ⟨?_, ?_, rfl, rfl, ?_⟩
  · simp [PyOp.print, PyOp.meaning, printParams_meaning]
  · simp [PyOp.print, PyOp.pyEq, printParams_length, printParams_pyEq]
  · simp only [PyOp.print]
    generalize 0 = n
    induction o.params generalizing n with
    | nil => rfl
    | cons p ps ih =>
      simp only [printParams, List.map_cons, ih]
      cases sel n <;> cases p <;> rfl

/-- non-vacuity: printing does change the object (so "nothing but indent" is not "nothing") -/
example : (PyOp.print (fun _ => some 3) ⟨1, "message_Talk", [.constString "a" 0, .int 5]⟩) ≠ ⟨1, "message_Talk", [.constString "a" 0, .int 5]⟩ := by
  decide

/-! ### the compiler object -/
section comp
variable {Src Ctor Res Imp Mac Ord Err : Type}

theorem compileBody_reset (st : Stages Src Ctor Res Imp Mac Ord Err) (o o' : Comp Ctor Res Imp Mac Ord) (src : Src)
    (hc : o.ctor = o'.ctor) : compileBody st o src = compileBody st o' src := by
  unfold compileBody
  simp only [hc]

/-- compile() on an object in ANY state gives the same object state afterwards — every result attribute (the four
result tables, imports, macros, macro_resolution_order), the untouched constructor state — and the same exception as
on any other object with the same constructor state, in particular a freshly constructed one. -/
theorem compile_reset (st : Stages Src Ctor Res Imp Mac Ord Err) (o o' : Comp Ctor Res Imp Mac Ord) (src : Src)
    (hc : o.ctor = o'.ctor) : compile st o src = compile st o' src := by
  unfold compile
  rw [compileBody_reset st o o' src hc]

theorem compileBody_ctor (st : Stages Src Ctor Res Imp Mac Ord Err) (o : Comp Ctor Res Imp Mac Ord) (src : Src) :
    (compileBody st o src).1.ctor = o.ctor := by
  unfold compileBody
  simp only
  split
  · split <;> simp
  · split
    · simp
    · split
      · simp
      · split
        · simp
        · split
          · simp
          · split
            · simp
            · split <;> simp

/-- compile() never changes the constructor state -/
theorem compile_ctor (st : Stages Src Ctor Res Imp Mac Ord Err) (o : Comp Ctor Res Imp Mac Ord) (src : Src) :
    (compile st o src).1.ctor = o.ctor := by
  have h := compileBody_ctor st o src
  unfold compile
  cases hb : compileBody st o src with
  | mk a ea =>
    rw [hb] at h
    cases ea <;> exact h

/-- after any sequence of earlier compile() calls on the object: the same as on a freshly constructed object -/
theorem compile_reset_after_history (st : Stages Src Ctor Res Imp Mac Ord Err) (c : Ctor) (before : List Src) (src : Src) :
    compile st (compileMany st (Comp.init st c) before) src = compile st (Comp.init st c) src := by
  have hc : ∀ (l : List Src) (o : Comp Ctor Res Imp Mac Ord), (compileMany st o l).ctor = o.ctor := by
    intro l
    induction l with
    | nil => intro o; rfl
    | cons s ss ih => intro o; simp only [compileMany]; rw [ih, compile_ctor]
  exact compile_reset st _ _ src (hc before _)

/-- pinned witness (the model instance used before /repo 9934639 to show that macro_resolution_order was NOT reset): a source
marked `is-ssb-script` after a file with macros now leaves the empty order, as on a fresh object -/
def stW : Stages Bool Unit Nat Unit Unit Nat Unit where
  emptyImp := ()
  emptyMac := ()
  emptyOrd := 0
  isSsbScript := id
  ssbCompile := fun _ => .ok 0
  parseImports := fun _ => .ok ()
  loadImported := fun _ _ _ => ((), none)
  resolveOrder := fun _ _ => .ok 1
  ownMacros := fun _ _ _ _ => .ok ()
  macrosOnly := fun _ => false
  macrosOnlyCheck := fun _ => none
  routines := fun _ _ _ => .ok 7
  convertErr := id

theorem compile_order_reset_pinned :
    (compileMany stW (Comp.init stW ()) [false]).order = 1 ∧
    (compile stW (compileMany stW (Comp.init stW ()) [false]) true).1.order = 0 ∧
    (compile stW (Comp.init stW ()) true).1.order = 0 := by
  decide

end comp
end ESV.C11
