import ESV.Lit.Model
namespace ESV.C04
end ESV.C04
