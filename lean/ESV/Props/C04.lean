import ESV.Lit.Multi
import ESV.Lit.Fixed
/-
C04 — Every parameter value survives being printed and parsed again; literal spellings mean what the spec says.
Property statements only.  Model: ESV/Lit/Model.lean; lemmas: ESV/Lit/{Lemmas,Multi,Num,Fixed}.lean.

The pinned code does NOT satisfy the unguarded statement for strings.  The full statement is

    ∀ s indent single rest,  readString (reprString s indent single ++ rest) = some s

and it is false (see the `_counterexample` theorems, each replayed on the real code by harness/props/c04.py).
What is proved is the statement under the decidable guard `Guard s indent single`, which is
  * `GuardS q s`       for the single-line form (values without `\n`) and for the single-line fall-back form
                       (values containing `\n` and both triple-quote sequences),
  * `GuardM indent s`  for the triple-quoted form.
Both guards are exact on everything the harness has tried: outside the guard the real round trip fails.
-/
namespace ESV.C04
open ESV ESV.Lit

/-! ## strings: print, then lex, then read -/

/-- Single-line form (no `\n` in the value): the reader gives the value back. -/
theorem read_repr_single (s : Str) (indent : Nat) (single : Bool) (hnl : NL ∉ s)
    (hg : GuardS (quoteOf single) s = true) : readSingle (reprString s indent single) = s := by
  simp only [GuardS, Bool.and_eq_true] at hg
  rw [reprString_single s indent single hnl]
  exact readSingle_enc _ (quoteOf_quote single) false s hg.1.2 hg.2

/-- … and the printed text is consumed as exactly one STRING_LITERAL token, whatever follows; no
MULTILINE_STRING_LITERAL competes unless the very next character is the same quote. -/
theorem tok_single_exact (s : Str) (indent : Nat) (single : Bool) (rest : Str) (hnl : NL ∉ s)
    (hg : GuardS (quoteOf single) s = true) :
    tokSingle (reprString s indent single ++ rest) = some (reprString s indent single).length ∧
    (rest.head? ≠ some (quoteOf single) →
      lexString (reprString s indent single ++ rest) = some (.single, (reprString s indent single).length)) := by
  simp only [GuardS, Bool.and_eq_true] at hg
  rw [reprString_single s indent single hnl]
  have h1 := tokSingle_enc _ (quoteOf_quote single) false s rest hg.1.1 (Or.inr hnl)
  exact ⟨h1, fun hr => lexString_of_single _ _ h1 (tokMulti_enc_none _ (quoteOf_quote single) false s rest hr)⟩

/-- Fall-back form (value has `\n` and both `'''` and `"""`): printed on one line with `\n` escaped; read back. -/
theorem read_repr_fallback (s : Str) (indent : Nat) (single : Bool) (hnl : NL ∈ s)
    (h1 : hasSub (tripleOf (quoteOf single)) s = true) (h2 : hasSub (tripleOf (otherQuote (quoteOf single))) s = true)
    (hg : GuardS (quoteOf single) s = true) : readSingle (reprString s indent single) = s := by
  simp only [GuardS, Bool.and_eq_true] at hg
  rw [reprString_fallback s indent single hnl h1 h2]
  exact readSingle_enc _ (quoteOf_quote single) true s hg.1.2 hg.2

theorem tok_fallback_exact (s : Str) (indent : Nat) (single : Bool) (rest : Str) (hnl : NL ∈ s)
    (h1 : hasSub (tripleOf (quoteOf single)) s = true) (h2 : hasSub (tripleOf (otherQuote (quoteOf single))) s = true)
    (hg : GuardS (quoteOf single) s = true) :
    tokSingle (reprString s indent single ++ rest) = some (reprString s indent single).length ∧
    (rest.head? ≠ some (quoteOf single) →
      lexString (reprString s indent single ++ rest) = some (.single, (reprString s indent single).length)) := by
  simp only [GuardS, Bool.and_eq_true] at hg
  rw [reprString_fallback s indent single hnl h1 h2]
  have h := tokSingle_enc _ (quoteOf_quote single) true s rest hg.1.1 (Or.inl rfl)
  exact ⟨h, fun hr => lexString_of_single _ _ h (tokMulti_enc_none _ (quoteOf_quote single) true s rest hr)⟩

/-- Triple-quoted form, every indent, both quote preferences: the reader gives the value back. -/
theorem read_repr_multi (s : Str) (indent : Nat) (single : Bool) (hnl : NL ∈ s)
    (hboth : ¬ (hasSub (tripleOf (quoteOf single)) s = true ∧ hasSub (tripleOf (otherQuote (quoteOf single))) s = true))
    (hg : GuardM indent s = true) : readMulti (reprString s indent single) = s := by
  obtain ⟨d, _, _, he⟩ := reprString_multi s indent single hnl hboth
  rw [he]
  exact readMulti_reprMultiline d s indent hg

/-- … and the printed text is exactly one MULTILINE_STRING_LITERAL token (no condition on the content: the
delimiter is chosen so that it does not occur in the value), which the lexer prefers to the empty STRING_LITERAL. -/
theorem tok_multi_exact (s : Str) (indent : Nat) (single : Bool) (rest : Str) (hnl : NL ∈ s)
    (hboth : ¬ (hasSub (tripleOf (quoteOf single)) s = true ∧ hasSub (tripleOf (otherQuote (quoteOf single))) s = true)) :
    tokMulti (reprString s indent single ++ rest) = some (reprString s indent single).length ∧
    lexString (reprString s indent single ++ rest) = some (.multi, (reprString s indent single).length) := by
  obtain ⟨d, hd, hfree, he⟩ := reprString_multi s indent single hnl hboth
  rw [he]
  have h1 := tokMulti_reprMultiline d hd s indent rest hfree
  refine ⟨h1, ?_⟩
  have h2 : tokSingle (reprMultiline s indent (tripleOf d) ++ rest) = some 2 := by
    rw [reprMultiline_eq]
    simp only [tripleOf, List.cons_append, List.nil_append]
    exact tokSingle_triple d hd _
  apply lexString_of_multi _ 2 _ h2 h1
  rw [reprMultiline_eq]
  simp [tripleOf]

/-- All forms together: the text printed for a string, followed by anything that does not start with the same
quote, lexes as one string token whose value is the original string. -/
theorem read_repr_string (s : Str) (indent : Nat) (single : Bool) (rest : Str)
    (hg : Guard s indent single = true) (hr : rest.head? ≠ some (quoteOf single)) :
    readString (reprString s indent single ++ rest) = some s := by
  unfold Guard at hg
  by_cases hnl : NL ∈ s
  · have hc : s.contains NL = true := by simpa using hnl
    simp only [hc, Bool.not_true, Bool.false_eq_true, ↓reduceIte] at hg
    by_cases hboth : hasSub (tripleOf (quoteOf single)) s = true ∧ hasSub (tripleOf (otherQuote (quoteOf single))) s = true
    · simp only [hboth.1, hboth.2, Bool.and_self, ↓reduceIte] at hg
      have ht := (tok_fallback_exact s indent single rest hnl hboth.1 hboth.2 hg).2 hr
      unfold readString
      rw [ht]
      simp only [List.take_left']
      rw [read_repr_fallback s indent single hnl hboth.1 hboth.2 hg]
    · have : (hasSub (tripleOf (quoteOf single)) s && hasSub (tripleOf (otherQuote (quoteOf single))) s) = false := by
        simpa using hboth
      simp only [this, Bool.false_eq_true, ↓reduceIte] at hg
      have ht := (tok_multi_exact s indent single rest hnl hboth).2
      unfold readString
      rw [ht]
      simp only [List.take_left']
      rw [read_repr_multi s indent single hnl hboth hg]
  · have hc : s.contains NL = false := by simpa using hnl
    simp only [hc, Bool.not_false, ↓reduceIte] at hg
    have ht := (tok_single_exact s indent single rest hnl hg).2 hr
    unfold readString
    rw [ht]
    simp only [List.take_left']
    rw [read_repr_single s indent single hnl hg]

/-- `str(SsbOpParamConstString(s))` with `.indent = indent`, in any printing context whose following text does not
start with `'` (operation arguments: `,` or `)`; `menu(…)`: `)`; message-switch text: a line break). -/
theorem const_string_roundtrip (s : Str) (indent : Nat) (rest : Str) (hg : Guard s indent true = true)
    (hr : rest.head? ≠ some SQ) : readString (constStr s indent ++ rest) = some s :=
  read_repr_string s indent true rest hg hr

/-- Language strings: the text printed for entry `(k, v)` of `str(SsbOpParamLanguageString)` sits between
`<blanks>k=` and `,\n`; it is printed at `indent + 1` with double quotes preferred and reads back as `v`.
Entries appear in dict order. -/
theorem langstring_roundtrip (pre post : List (Str × Str)) (k v : Str) (indent : Nat) :
    ∃ A B, langStr (pre ++ (k, v) :: post) indent = A ++ (k ++ ['='] ++ reprString v (indent + 1) false ++ (',' :: NL :: B)) ∧
      (Guard v (indent + 1) false = true → readString (reprString v (indent + 1) false ++ (',' :: NL :: B)) = some v) := by
  refine ⟨['{', NL] ++ pre.flatMap (fun kv => spaces ((indent + 1) * spi) ++ kv.1 ++ ['='] ++ reprString kv.2 (indent + 1) false ++ [',', NL])
      ++ spaces ((indent + 1) * spi),
    post.flatMap (fun kv => spaces ((indent + 1) * spi) ++ kv.1 ++ ['='] ++ reprString kv.2 (indent + 1) false ++ [',', NL])
      ++ spaces (indent * spi) ++ ['}'], ?_, ?_⟩
  · simp [langStr, List.flatMap_append, List.append_assoc]
  · intro hg
    exact read_repr_string v (indent + 1) false _ hg (by simp [quoteOf, DQ])

/-! ### the excluded classes really fail (same witnesses are replayed on the real code by the harness) -/

/-- what the unguarded property would say for one value and context -/
def Roundtrips (s : Str) (indent : Nat) (single : Bool) (rest : Str) : Prop :=
  readString (reprString s indent single ++ rest) = some s

instance (s : Str) (indent : Nat) (single : Bool) (rest : Str) : Decidable (Roundtrips s indent single rest) := by
  unfold Roundtrips; infer_instance

/-- `a\` : the final backslash takes the closing quote with it -/
theorem trailing_backslash_counterexample :
    ¬ Roundtrips ['a', BS] 1 true [')', ';'] ∧ Guard ['a', BS] 1 true = false := by decide +kernel
/-- `a\'b` printed `'a\\'b'`: the token ends after `a\\` -/
theorem backslash_before_delimiting_quote_counterexample :
    ¬ Roundtrips ['a', BS, SQ, 'b'] 1 true [')', ';'] ∧ Guard ['a', BS, SQ, 'b'] 1 true = false ∧
    lexString (reprString ['a', BS, SQ, 'b'] 1 true ++ [')', ';']) = some (.single, 5) := by decide +kernel
/-- `a\"b` printed `'a\"b'` reads back `a"b` -/
theorem backslash_before_other_quote_counterexample :
    readString (reprString ['a', BS, DQ, 'b'] 1 true ++ [')', ';']) = some ['a', DQ, 'b'] ∧
    Guard ['a', BS, DQ, 'b'] 1 true = false := by decide +kernel
/-- `x\ny` (backslash, letter n) reads back with a newline -/
theorem backslash_n_counterexample :
    readString (reprString ['x', BS, 'n', 'y'] 1 true ++ [')', ';']) = some ['x', NL, 'y'] ∧
    Guard ['x', BS, 'n', 'y'] 1 true = false := by decide +kernel
/-- raw `\r` and `\f` are excluded by the STRING_LITERAL rule -/
theorem cr_ff_counterexample :
    readString (reprString ['a', CR, 'b'] 1 true ++ [')', ';']) = none ∧ Guard ['a', CR, 'b'] 1 true = false ∧
    readString (reprString ['a', FF, 'b'] 1 true ++ [')', ';']) = none ∧ Guard ['a', FF, 'b'] 1 true = false := by
  decide +kernel
/-- … but a backslash in front of anything else, even `\r`, is harmless: the guard is not "no backslash" -/
theorem backslash_elsewhere_ok :
    Roundtrips ['a', BS, 'b'] 1 true [')', ';'] ∧ Guard ['a', BS, 'b'] 1 true = true ∧
    Roundtrips ['a', BS, CR, 'b'] 1 true [')', ';'] ∧ Guard ['a', BS, CR, 'b'] 1 true = true ∧
    Roundtrips ['a', BS, BS, SQ] 1 true [')', ';'] ∧ Guard ['a', BS, BS, SQ] 1 true = true := by decide +kernel

/-- both triple quotes: the fall-back form is fine on its own … -/
def bothTriples : Str := [SQ, SQ, SQ, NL, DQ, DQ, DQ]
theorem both_triple_quotes_ok : Roundtrips bothTriples 1 true [')', ';'] ∧ Guard bothTriples 1 true = true := by
  decide +kernel
/-- … and fails exactly like the single-line form -/
theorem both_triple_quotes_counterexample :
    ¬ Roundtrips (bothTriples ++ [BS]) 1 true [')', ';'] ∧ Guard (bothTriples ++ [BS]) 1 true = false ∧
    ¬ Roundtrips (bothTriples ++ [BS, 'n']) 1 true [')', ';'] ∧ Guard (bothTriples ++ [BS, 'n']) 1 true = false ∧
    ¬ Roundtrips (bothTriples ++ [CR]) 1 true [')', ';'] ∧ Guard (bothTriples ++ [CR]) 1 true = false := by
  decide +kernel

/-- every line starts with a blank: the common blanks are dedented away -/
theorem all_lines_indented_counterexample :
    readString (reprString [SP, 'a', NL, SP, 'b'] 1 true ++ [')', ';']) = some ['a', NL, 'b'] ∧
    Guard [SP, 'a', NL, SP, 'b'] 1 true = false := by decide +kernel
/-- other `splitlines` boundaries inside a multi-line value: `\r`, `\v`, `\f`, U+0085, U+2028 -/
theorem other_linebreak_counterexample :
    ¬ Roundtrips ['a', CR, 'b', NL, 'c'] 1 true [')', ';'] ∧ Guard ['a', CR, 'b', NL, 'c'] 1 true = false ∧
    ¬ Roundtrips ['a', Char.ofNat 0x0b, 'b', NL, 'c'] 1 true [')', ';'] ∧ Guard ['a', Char.ofNat 0x0b, 'b', NL, 'c'] 1 true = false ∧
    ¬ Roundtrips ['a', Char.ofNat 0x85, 'b', NL, 'c'] 1 true [')', ';'] ∧ Guard ['a', Char.ofNat 0x85, 'b', NL, 'c'] 1 true = false ∧
    ¬ Roundtrips ['a', Char.ofNat 0x2028, 'b', NL, 'c'] 1 true [')', ';'] ∧ Guard ['a', Char.ofNat 0x2028, 'b', NL, 'c'] 1 true = false := by
  decide +kernel
/-- value ending in a newline: fine at indent ≥ 1, loses its last line at indent 0 (printing contexts that never set
`.indent`: `switch ( Op('''…''') )` headers, `menu2(…)`) -/
theorem trailing_blank_line_indent0_counterexample :
    readString (reprString ['a', NL] 0 true ++ [',', ' ', '1', ')']) = some ['a'] ∧ Guard ['a', NL] 0 true = false ∧
    Roundtrips ['a', NL] 1 true [',', ' ', '1', ')'] ∧ Guard ['a', NL] 1 true = true := by decide +kernel

/-! ### printing contexts: which indent, hence which guard, a context prescribes -/

/-- the guard depends on the indent only through `indent = 0` -/
theorem guard_indent_pos (s : Str) (i j : Nat) (single : Bool) (hi : i ≠ 0) (hj : j ≠ 0) :
    Guard s i single = Guard s j single := by
  simp [Guard, GuardM, hi, hj]

/-- every printing context prints at an indent ≥ 1, at every nesting depth (the switch header too, since the repair) -/
theorem ctxIndent_pos (c : PrintCtx) (d : Nat) : ctxIndent c d ≠ 0 := by
  cases c <;> simp [ctxIndent]

/-- A constant string inside the guard for indent 1 (no clause about its last line) survives in every printing context
(operation argument, `menu(…)` case header, message-switch text, switch header, SsbScript argument), at every nesting
depth. -/
theorem const_string_roundtrip_ctx (c : PrintCtx) (d : Nat) (s rest : Str)
    (hg : Guard s 1 true = true) (hr : rest.head? ≠ some SQ) :
    readString (constStr s (ctxIndent c d) ++ rest) = some s :=
  const_string_roundtrip s _ rest
    (by rw [guard_indent_pos s _ 1 true (ctxIndent_pos c d) (by decide)]; exact hg) hr

/-- The values of a language string are printed one level deeper than the parameter: inside the guard for indent 1
they survive in EVERY printing context, the switch header included. -/
theorem langstring_value_roundtrip_ctx (c : PrintCtx) (d : Nat) (v rest : Str)
    (hg : Guard v 1 false = true) (hr : rest.head? ≠ some DQ) :
    readString (reprString v (ctxIndent c d + 1) false ++ rest) = some v :=
  read_repr_string v _ false rest
    (by rw [guard_indent_pos v _ 1 false (by omega) (by decide)]; exact hg) (by simpa [quoteOf] using hr)

/-- indent 0 (no printing context prescribes it any more; before the repair the switch header did) is where a value with
a blank last line is lost; at the indent every context prescribes it survives -/
theorem switch_header_counterexample :
    ctxIndent .switchHeader 3 = 4 ∧ ¬ Roundtrips ['x', NL, ' '] 0 true [',', ' ', '1', ')'] ∧
    Roundtrips ['x', NL, ' '] (ctxIndent .switchHeader 3) true [',', ' ', '1', ')'] ∧
    Roundtrips ['x', NL, ' '] (ctxIndent .menuHeader 3) true [')', ':'] ∧
    Roundtrips ['x', NL, ' '] (ctxIndent .msgText 0) true [NL] ∧ Roundtrips ['x', NL, ' '] (ctxIndent .opArg 4) true [')', ';'] ∧
    Roundtrips ['x', NL, ' '] (ctxIndent .ssbsArg 2) true [',', ' '] := by decide +kernel

/-- the guards are met by ordinary text: quotes of both kinds, blanks at either end of a line, empty lines, one
triple-quote sequence, non-ASCII (non-vacuity of the hypotheses) -/
example : Guard "it's \"fine\" ".toList 3 true = true := by decide +kernel
example : Guard "Hello\n  world \n\n''' ünï\n".toList 2 false = true := by decide +kernel
example : Roundtrips "Hello\n  world \n\n''' ünï\n".toList 2 false [',', NL] := by decide +kernel

/-! ## spec side: the dedent rules of docs/language_spec.rst -/

/-- the three spellings of the spec's example denote the same string -/
theorem spec_example_single :
    readString "\"First Line\\nSecond Line\\n  Some indentation in the third line\\nFourth Line\"".toList =
      some "First Line\nSecond Line\n  Some indentation in the third line\nFourth Line".toList := by decide +kernel
theorem spec_example_multi_a :
    readString "'''First Line\n      Second Line\n        Some indentation in the third line\n      Fourth Line\n                  '''".toList =
      some "First Line\nSecond Line\n  Some indentation in the third line\nFourth Line".toList := by decide +kernel
theorem spec_example_multi_b :
    readString "\"\"\"\n      First Line\n      Second Line\n        Some indentation in the third line\n      Fourth Line\"\"\"".toList =
      some "First Line\nSecond Line\n  Some indentation in the third line\nFourth Line".toList := by decide +kernel

/-- rule by rule, on text lines without other line boundaries (`first`, `mid`, `last` as the reader splits them):
the first line keeps its indentation; a blank-only last line is dropped; the others (and a last line with content)
lose the least indentation among them; an empty first line disappears. -/
theorem dedent_rules (first last : Str) (mid : List Str) :
    readMultiLines (first :: (mid ++ [last])) =
      let lines := if lstripC SP last ≠ [] then mid ++ [last] else mid
      let m := minD (lines.map leadSpaces)
      first ++ (if first ≠ [] ∧ lines.length > 0 then [NL] else []) ++ joinWith [NL] (lines.map (·.drop m)) := by
  unfold readMultiLines
  rw [firstMidLast_snoc]
  simp [dedentJoin]

/-- `\n` in a multi-line literal is kept as is -/
theorem multi_keeps_backslash_n : readString "'''X\\nY'''".toList = some "X\\nY".toList := by decide +kernel

/-- where the code departs from the spec text (known findings): a tab is not indentation; a closing delimiter at
column 0 right after a blank-only line drops that line too -/
theorem spec_departures :
    readString "\"\"\"\n\tfoo\n\tbar\n\t\"\"\"".toList = some "\tfoo\n\tbar\n\t".toList ∧
    readString "\"\"\"x\n \n\"\"\"".toList = some "x".toList := by decide +kernel

/-! ## integers -/

/-- what `str(int)` prints is an INTEGER token and reads back as the same integer -/
theorem int_roundtrip (i : Int) : isIntegerTok (showInt i) = true ∧ expsInt (showInt i) = some i :=
  ⟨isIntegerTok_showInt i, expsInt_showInt i⟩

/-- hexadecimal, octal and binary spellings, either letter case for prefix and digits, with or without sign -/
theorem int_bases (x : Char) (b : Nat) (hx : basePrefix x b) (up neg : Bool) (n : Nat) :
    isIntegerTok ((if neg then ['-'] else []) ++ '0' :: x :: showBase b up n) = true ∧
    expsInt ((if neg then ['-'] else []) ++ '0' :: x :: showBase b up n) = some (if neg then -(n : Int) else (n : Int)) := by
  obtain ⟨h1, h2⟩ := expsNat_base x b hx up n
  cases neg with
  | true => simp [isIntegerTok, expsInt, h1, h2]
  | false => simp [isIntegerTok, expsInt, h1, h2]

/-- `0`, `000`, `-0`, `-00` are all zero -/
theorem int_zeros (k : Nat) (neg : Bool) :
    isIntegerTok ((if neg then ['-'] else []) ++ List.replicate (k + 1) '0') = true ∧
    expsInt ((if neg then ['-'] else []) ++ List.replicate (k + 1) '0') = some 0 :=
  ⟨(expsInt_zeros k neg).2, (expsInt_zeros k neg).1⟩

example : expsInt "0x1F".toList = some 31 ∧ expsInt "-0o17".toList = some (-15) ∧ expsInt "0B101".toList = some 5 ∧
    expsInt "-12".toList = some (-12) ∧ expsInt "00".toList = some 0 ∧ expsInt "012".toList = none := by decide +kernel

/-! ## fixed-point numbers -/

/-- every value the constructor accepts with a non-empty fraction prints as a DECIMAL token and reads back equal -/
theorem fixed_roundtrip (w : Option Int) (f : Str) (hf : f.all isDigit = true) (hne : f ≠ []) :
    ∃ v, fixedMk w f = .ok v ∧ isDecimalTok v = true ∧ fixedFromStr v = .ok v := by
  refine ⟨_, fixedMk_ok w f hf, ?_, ?_⟩
  · cases w with
    | none =>
      have he : f.isEmpty = false := by cases f with
        | nil => exact absurd rfl hne
        | cons _ _ => rfl
      simp [isDecimalTok, stripMinus, splitFirst, hf, he]
      decide
    | some i => exact isDecimalTok_showInt_frac i f hf hne
  · cases w with
    | none =>
      have := fixedFromStr_spelling true 1 0 f hf
      simpa [wholeSpelling, wholeNormal] using this
    | some i =>
      cases i with
      | ofNat n =>
        cases n with
        | zero =>
          have := fixedFromStr_spelling false 1 0 f hf
          simpa [wholeSpelling, wholeNormal, showInt, showNat_zero] using this
        | succ n =>
          have := fixedFromStr_spelling false 0 (n + 1) f hf
          have h1 : wholeSpelling false 0 (n + 1) = showNat (n + 1) := by simp [wholeSpelling]
          have h2 : wholeNormal false (n + 1) = showNat (n + 1) := by
            unfold wholeNormal
            rw [if_neg (Nat.succ_ne_zero n)]
            rfl
          rw [h1, h2] at this
          exact this
      | negSucc n =>
        have := fixedFromStr_spelling true 0 (n + 1) f hf
        have h1 : wholeSpelling true 0 (n + 1) = '-' :: showNat (n + 1) := by simp [wholeSpelling]
        have h2 : wholeNormal true (n + 1) = '-' :: showNat (n + 1) := by
          unfold wholeNormal
          rw [if_neg (Nat.succ_ne_zero n)]
          rfl
        rw [h1, h2] at this
        exact this

/-- normal form of any decimal spelling `[-] 0…0 digits . fraction`: leading zeros of the whole part go, an absent
whole part is `0`, a negative zero stays `-0`, the fraction digits are kept verbatim (trailing zeros included) -/
theorem fixed_normal_form (neg : Bool) (k n : Nat) (frac : Str) (hf : frac.all isDigit = true) :
    fixedFromStr (wholeSpelling neg k n ++ '.' :: frac) = .ok (wholeNormal neg n ++ '.' :: frac) :=
  fixedFromStr_spelling neg k n frac hf

/-- a constructor value with an empty fraction prints `5.`, which is neither a DECIMAL nor an INTEGER token -/
theorem fixed_empty_fraction_counterexample :
    fixedMk (some 5) [] = .ok ['5', '.'] ∧ isDecimalTok ['5', '.'] = false ∧ isIntegerTok ['5', '.'] = false := by
  refine ⟨?_, by decide +kernel, by decide +kernel⟩
  simp [fixedMk, showInt, showNat, digitChar]

/-! ## position marks -/

/-- each coordinate: printed `rel` or `rel.5`, read back as `(rel, 0)` or `(rel, 2)` -/
theorem posarg_roundtrip (rel off : Int) :
    parsePosArg (posFinal rel off) = .ok (rel, if off > 1 then 2 else 0) :=
  parsePosArg_posFinal rel off

/-- so a coordinate is reproduced exactly iff its offset is 0 or 2; the reader's other value 4 comes back as 2 -/
theorem posarg_exact_iff (rel off : Int) : parsePosArg (posFinal rel off) = .ok (rel, off) ↔ off = 0 ∨ off = 2 := by
  rw [posarg_roundtrip]
  constructor
  · intro h
    have h2 : (if off > 1 then (2 : Int) else 0) = off := by
      injection h with h; exact (Prod.mk.inj h).2
    split at h2 <;> omega
  · rintro (rfl | rfl) <;> rfl

theorem enc_quote_free (q : Char) (s : Str) (h : q ∉ s) : enc (some q) false s = s := by
  induction s with
  | nil => rfl
  | cons c cs ih =>
    have hc : ¬ q = c := fun hh => h (hh ▸ List.mem_cons_self)
    rw [enc_cons, ih (fun hh => h (List.mem_cons_of_mem _ hh))]
    simp [encChar, hc]

/-- the whole position mark: the printed text, its name token, its two coordinates.  The name is printed between
single quotes WITHOUT escaping, so it must not contain `'` or `\n` and must satisfy `GuardS`. -/
theorem posmark_roundtrip (p : PosMark) :
    posMarkStr p = posPrefix ++ ([SQ] ++ p.name ++ [SQ]) ++ [',', SP] ++ posFinal p.xRel p.xOff ++ [',', SP] ++
        posFinal p.yRel p.yOff ++ ['>'] ∧
    (SQ ∉ p.name → NL ∉ p.name → GuardS SQ p.name = true →
      readSingle ([SQ] ++ p.name ++ [SQ]) = p.name ∧
      ∀ rest, tokSingle ([SQ] ++ p.name ++ [SQ] ++ rest) = some (p.name.length + 2)) ∧
    parsePosArg (posFinal p.xRel p.xOff) = .ok (p.xRel, if p.xOff > 1 then 2 else 0) ∧
    parsePosArg (posFinal p.yRel p.yOff) = .ok (p.yRel, if p.yOff > 1 then 2 else 0) := by
  refine ⟨by simp [posMarkStr], ?_, posarg_roundtrip _ _, posarg_roundtrip _ _⟩
  intro hq hnl hg
  simp only [GuardS, Bool.and_eq_true] at hg
  have he := enc_quote_free SQ p.name hq
  refine ⟨?_, fun rest => ?_⟩
  · have := readSingle_enc SQ (Or.inl rfl) false p.name hg.1.2 hg.2
    rwa [he] at this
  · have := tokSingle_enc SQ (Or.inl rfl) false p.name rest hg.1.1 (Or.inr hnl)
    rw [he] at this
    rw [this]
    simp

theorem posmark_name_counterexample :
    tokSingle ("'it's', 1, 2>".toList) = some 4 ∧ readSingle ("'it'".toList) = "it".toList := by decide +kernel

deriving instance DecidableEq for Except

/-- `1.05` is taken for `1.5`: `int("05") == 5` (known finding `posarg_fraction_leading_zero`) -/
theorem posarg_leading_zero_fraction : parsePosArg "1.05".toList = .ok (1, 2) ∧ parsePosArg "1.50".toList = .ok (1, 2) ∧
    parsePosArg "1.25".toList = .error .compilerError ∧ parsePosArg "-.5".toList = .error .valueError := by decide +kernel

/-! ## dungeon mode constants -/

/-- the numbers 0..3 are printed as four configured names; with pairwise distinct names the number is determined by
the name, so "comes back as the constant that stands for it" loses nothing -/
theorem dmode_roundtrip (c : DMode) (hd : [c.close, c.open, c.request, c.openRequest].Nodup) (i j : Int)
    (hi : 0 ≤ i ∧ i ≤ 3) (hj : 0 ≤ j ∧ j ≤ 3) (h : dmodeConst c i = dmodeConst c j) : i = j := by
  simp only [List.nodup_cons, List.mem_cons, List.not_mem_nil, or_false, not_or, List.nodup_nil, and_true] at hd
  obtain ⟨⟨h1, h2, h3⟩, ⟨h4, h5⟩, h6, _⟩ := hd
  have ci : i = 0 ∨ i = 1 ∨ i = 2 ∨ i = 3 := by omega
  have cj : j = 0 ∨ j = 1 ∨ j = 2 ∨ j = 3 := by omega
  rcases ci with rfl | rfl | rfl | rfl <;> rcases cj with rfl | rfl | rfl | rfl <;> simp [dmodeConst] at h ⊢ <;>
    first
    | exact absurd h h1
    | exact absurd h h2
    | exact absurd h h3
    | exact absurd h h4
    | exact absurd h h5
    | exact absurd h h6
    | exact absurd h.symm h1
    | exact absurd h.symm h2
    | exact absurd h.symm h3
    | exact absurd h.symm h4
    | exact absurd h.symm h5
    | exact absurd h.symm h6

theorem dmode_values (c : DMode) : dmodeConst c 0 = c.close ∧ dmodeConst c 1 = c.open ∧ dmodeConst c 2 = c.request ∧
    dmodeConst c 3 = c.openRequest := by
  simp [dmodeConst]

/-- a number that is not one of the four modes is printed as itself and reads back equal (before the repair c6ac2ad
every such number was printed as the `closed` constant) -/
theorem dmode_other (c : DMode) (i : Int) (h : i < 0 ∨ 3 < i) :
    dmodeConst c i = ESV.showInt i ∧ ESV.readInt (dmodeConst c i) = some i := by
  have e : dmodeConst c i = ESV.showInt i := by
    unfold dmodeConst
    have h0 : i ≠ 0 := by omega
    have h1 : i ≠ 1 := by omega
    have h2 : i ≠ 2 := by omega
    have h3 : i ≠ 3 := by omega
    simp [h0, h1, h2, h3]
  exact ⟨e, by rw [e]; exact ESV.readInt_showInt i⟩

end ESV.C04
