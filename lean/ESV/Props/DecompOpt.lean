import ESV.Decomp.SemE
import ESV.Decomp.GraphFinal
import ESV.Decomp.GraphOkEdge
/-
`optimize_paths`, the first rewriting phase of the decompiler, and the bridge from the base-graph theorem to the
edge-based reading of graphs the rewriting phases are stated over.  Statements only.
-/
namespace ESV.DecompFront
open ESV.Beh ESV.Decomp

/-- every base graph has the structure `optimize_paths` relies on -/
theorem baseGraph_ok (labels : List Lbl) (opt : Bool) (rid : Nat) (items : List Item) (g : Graph)
    (hg : baseGraph labels opt rid items = .ok g) : graphOk g = true :=
  baseGraph_graphOk labels opt rid items g hg

/-- on a base graph the positional reading ("the vertex before is a context op") and the edge-based reading
("an in-edge comes from a context op") of the graph give the same behaviour -/
theorem edge_reading_agrees (labels : List Lbl) (opt : Bool) (rid : Nat) (items : List Item) (g : Graph)
    (hg : baseGraph labels opt rid items = .ok g) (hguard : ctxGuard items = true) :
    Equivalent g.lts g.ltsE (0 : Nat) (0 : Nat) :=
  baseGraph_edge_reading labels opt rid items g hg hguard

end ESV.DecompFront
