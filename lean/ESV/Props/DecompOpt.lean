import ESV.Decomp.SemE
import ESV.Decomp.GraphFinal
import ESV.Decomp.GraphOkEdge
import ESV.Decomp.OptFinal
import ESV.Decomp.OptCounter
import ESV.Props.DecompFront
/-
`optimize_paths`, the first rewriting phase of the decompiler, and the bridge from the base-graph theorem to the
edge-based reading of graphs the rewriting phases are stated over.  Statements only.
-/
namespace ESV.DecompFront
open ESV.Beh ESV.Decomp

/-- every base graph has the structure `optimize_paths` relies on -/
theorem baseGraph_ok (labels : List Lbl) (opt : Bool) (rid : Nat) (items : List Item) (g : Graph)
    (hg : baseGraph labels opt rid items = .ok g) : graphOk g = true :=
  baseGraph_graphOk labels opt rid items g hg

/-- on a base graph the positional reading ("the vertex before is a context op") and the edge-based reading
("an in-edge comes from a context op") of the graph give the same behaviour -/
theorem edge_reading_agrees (labels : List Lbl) (opt : Bool) (rid : Nat) (items : List Item) (g : Graph)
    (hg : baseGraph labels opt rid items = .ok g) (hguard : ctxGuard items = true) :
    Equivalent g.lts g.ltsE (0 : Nat) (0 : Nat) :=
  baseGraph_edge_reading labels opt rid items g hg hguard

/-- **`optimize_paths` preserves behaviour**: removing a label that is only followed by a Jump to another label,
together with that Jump, and redirecting its in-edges, does not change what the routine does - for every graph
with the structure of a base graph and without a cycle of labels and Jumps only (`noSilentCycle`: the quantifier of
C02/C06 excludes cycles of Jump ops; shown necessary by ESV.Decomp.optimize_silent_cycle_counterexample, where the
phase turns a divergence into running off the end). -/
theorem optimizePaths_preserves (labels : List Lbl) (g g' : Graph) (hok : graphOk g = true)
    (hns : noSilentCycle g = true) (h : optimizePaths labels g = .ok g') :
    Equivalent g.ltsE g'.ltsE (0 : Nat) (0 : Nat) :=
  ESV.Decomp.Opt.optimizePaths_preserves' labels g g' hok hns h

/-- **The modelled front of the decompiler, end to end** (one routine in isolation): the graph that leaves
`optimize_paths` behaves like the routine's item list the resolver produced - for every routine that satisfies
the guards, whenever both phases answer. -/
theorem front_phases_preserve (labels : List Lbl) (opt : Bool) (rid : Nat) (items : List Item) (g g' : Graph)
    (hg : baseGraph labels opt rid items = .ok g) (hguard : ctxGuard items = true)
    (hnames : namesGuard items = true) (hns : noSilentCycle g = true)
    (ho : optimizePaths labels g = .ok g') :
    Equivalent (RMachine.lts ⟨labels, rid, items⟩) g'.ltsE (0 : Nat) (0 : Nat) :=
  Equivalent.trans (Equivalent.trans (baseGraph_preserves labels opt rid items g hg hguard hnames)
    (edge_reading_agrees labels opt rid items g hg hguard))
    (optimizePaths_preserves labels g g' (baseGraph_ok labels opt rid items g hg) hns ho)

end ESV.DecompFront
