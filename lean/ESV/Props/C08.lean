import ESV.SmBuilder.Model
/-
C08 — compile-time source map.  Protocol theorems (K3) about `SourceMapBuilder` for ALL command sequences, and the
counting lemma behind the macro return addresses for ALL blueprints built by handlers and macro calls.
Which source node an op belongs to is decided by the (unmodelled) compile handlers and is validated per input by the
harness (harness/props/c08.py); the recorded real call sequence of every run is replayed through `runFrom` and the
recorded blueprints of every macro expansion through `build`, and the decidable disciplines below are evaluated
on them, so that the theorems apply to the real run.
-/
namespace ESV.C08
open ESV ESV.SM ESV.SmBuilder

/-! ### basic facts about `runFrom` -/

theorem runFrom_append (b : B) (xs ys : List Cmd) :
    runFrom b (xs ++ ys) = (match runFrom b xs with | .ok b' => runFrom b' ys | .error e => .error e) := by
  induction xs generalizing b with
  | nil => simp [runFrom]
  | cons x xs ih =>
    simp only [List.cons_append, runFrom]
    cases step b x with
    | error e => rfl
    | ok b' => exact ih b'

theorem has_set {β : Type} (d : Dict Int β) (k k2 : Int) (v : β) :
    Dict.has (Dict.set d k v) k2 = (decide (k = k2) || Dict.has d k2) := by
  unfold Dict.has
  by_cases h : k = k2
  · subst h; simp [Dict.get?_set_self]
  · simp [Dict.get?_set_other d k k2 v h, h]

/-- what one step does to the direct table -/
theorem step_mappings (b b' : B) (c : Cmd) (h : step b c = .ok b') :
    b'.tables.mappings = (match c with
      | .addOpcode k l col => Dict.set b.tables.mappings k ⟨l, col⟩
      | _ => b.tables.mappings) := by
  cases c <;> simp only [step] at h
  case addOpcode k l col => injection h with h; subst h; rfl
  case addPosMark p => injection h with h; subst h; rfl
  case push r pm => injection h with h; subst h; rfl
  case pop =>
    cases hs : b.stack with
    | nil => simp [hs] at h
    | cons t r => simp [hs] at h; subst h; rfl
  case calledIn f l col => injection h with h; subst h; rfl
  case addMacroOpcode k f n l col =>
    cases hs : b.stack with
    | nil => simp [hs] at h
    | cons t r => simp [hs] at h; subst h; rfl
  case addMacroPosMark f n p => injection h with h; subst h; rfl

/-- what one step does to the macro table -/
theorem step_macros (b b' : B) (c : Cmd) (h : step b c = .ok b') :
    b'.tables.macros = (match c, b.stack with
      | .addMacroOpcode k f n l col, top :: _ => Dict.set b.tables.macros k (entryOf b top f n l col)
      | _, _ => b.tables.macros) := by
  cases c <;> simp only [step] at h
  case addOpcode k l col => injection h with h; subst h; rfl
  case addPosMark p => injection h with h; subst h; rfl
  case push r pm => injection h with h; subst h; rfl
  case pop =>
    cases hs : b.stack with
    | nil => simp [hs] at h
    | cons t r => simp [hs] at h; subst h; rfl
  case calledIn f l col => injection h with h; subst h; rfl
  case addMacroOpcode k f n l col =>
    cases hs : b.stack with
    | nil => simp [hs] at h
    | cons t r => simp [hs] at h; subst h; rfl
  case addMacroPosMark f n p => injection h with h; subst h; rfl

/-- commands that do not name offset `k` in `add_opcode` leave its direct entry alone -/
theorem mappings_untouched (k : Int) (cs : List Cmd) (b b' : B) (h : runFrom b cs = .ok b')
    (hk : k ∉ directOffs cs) : Dict.get? b'.tables.mappings k = Dict.get? b.tables.mappings k := by
  induction cs generalizing b with
  | nil => simp [runFrom] at h; subst h; rfl
  | cons c cs ih =>
    simp only [runFrom] at h
    cases hs : step b c with
    | error e => simp [hs] at h
    | ok b1 =>
      simp only [hs] at h
      have hm := step_mappings b b1 c hs
      cases c
      case addOpcode k' l col =>
        simp only [directOffs, List.mem_cons, not_or] at hk
        rw [ih b1 h hk.2, hm]
        exact Dict.get?_set_other _ _ _ _ (fun e => hk.1 e.symm)
      all_goals (simp only [directOffs] at hk; rw [ih b1 h hk, hm])

theorem macros_untouched (k : Int) (cs : List Cmd) (b b' : B) (h : runFrom b cs = .ok b')
    (hk : k ∉ macroOffs cs) : Dict.get? b'.tables.macros k = Dict.get? b.tables.macros k := by
  induction cs generalizing b with
  | nil => simp [runFrom] at h; subst h; rfl
  | cons c cs ih =>
    simp only [runFrom] at h
    cases hs : step b c with
    | error e => simp [hs] at h
    | ok b1 =>
      simp only [hs] at h
      have hm := step_macros b b1 c hs
      cases c
      case addMacroOpcode k' f n l col =>
        simp only [macroOffs, List.mem_cons, not_or] at hk
        rw [ih b1 h hk.2, hm]
        cases hst : b.stack with
        | nil => rfl
        | cons t r => exact Dict.get?_set_other _ _ _ _ (fun e => hk.1 e.symm)
      all_goals (simp only [macroOffs] at hk; rw [ih b1 h hk, hm])

/-! ### entry_is_last_add -/

/-- **Direct entries.** After any command sequence, the entry under offset `k` is the argument of the last
`add_opcode k`. -/
theorem entry_is_last_add (b b' : B) (pre post : List Cmd) (k l c : Int)
    (h : runFrom b (pre ++ .addOpcode k l c :: post) = .ok b') (hpost : k ∉ directOffs post) :
    Dict.get? b'.tables.mappings k = some ⟨l, c⟩ := by
  rw [runFrom_append] at h
  cases h1 : runFrom b pre with
  | error e => simp [h1] at h
  | ok b1 =>
    simp only [h1, runFrom, step] at h
    rw [mappings_untouched k post _ b' h hpost]
    simp [setMappings, Dict.get?_set_self]

/-- **Macro entries** (`entry_is_last_add` for the macro table together with `macro_entry_uses_stack_top`):
the entry under `k` was written by the last `add_macro_opcode k`; its return address and parameter mapping are the
top of the context stack at that moment, its call position is the pending `next_macro_opcode_called_in` of that
moment, file / macro / line / column are the arguments. -/
theorem macro_entry_uses_stack_top (b b1 b' : B) (pre post : List Cmd) (k : Int) (f : Option String) (n : String)
    (l c : Int) (top : Ctx) (rest : List Ctx)
    (hpre : runFrom b pre = .ok b1) (hst : b1.stack = top :: rest)
    (h : runFrom b (pre ++ .addMacroOpcode k f n l c :: post) = .ok b') (hpost : k ∉ macroOffs post) :
    Dict.get? b'.tables.macros k = some ⟨f, n, l, c, b1.next, some top.1, top.2⟩ := by
  rw [runFrom_append, hpre] at h
  simp only [runFrom, step, hst] at h
  rw [macros_untouched k post _ b' h hpost]
  simp [setMacros, Dict.get?_set_self, entryOf]

/-! ### which offsets have entries; disjointness -/

theorem has_mappings_iff (cs : List Cmd) (b b' : B) (h : runFrom b cs = .ok b') (k : Int) :
    Dict.has b'.tables.mappings k = (Dict.has b.tables.mappings k || (directOffs cs).contains k) := by
  induction cs generalizing b with
  | nil => simp [runFrom] at h; subst h; simp [directOffs]
  | cons c cs ih =>
    simp only [runFrom] at h
    cases hs : step b c with
    | error e => simp [hs] at h
    | ok b1 =>
      simp only [hs] at h
      have hm := step_mappings b b1 c hs
      rw [ih b1 h]
      cases c
      case addOpcode k' l col =>
        simp only [directOffs, List.contains_cons]
        rw [hm, has_set]
        by_cases e : k' = k
        · subst e; simp
        · have hb : (k == k') = false := by simpa using (fun x => e x.symm : ¬ (k = k'))
          simp [e, hb]
      all_goals (simp only [directOffs]; rw [hm])

theorem has_macros_iff (cs : List Cmd) (b b' : B) (h : runFrom b cs = .ok b') (k : Int) :
    Dict.has b'.tables.macros k = (Dict.has b.tables.macros k || (macroOffs cs).contains k) := by
  induction cs generalizing b with
  | nil => simp [runFrom] at h; subst h; simp [macroOffs]
  | cons c cs ih =>
    simp only [runFrom] at h
    cases hs : step b c with
    | error e => simp [hs] at h
    | ok b1 =>
      simp only [hs] at h
      have hm := step_macros b b1 c hs
      rw [ih b1 h]
      cases c
      case addMacroOpcode k' f n l col =>
        simp only [macroOffs, List.contains_cons]
        cases hst : b.stack with
        | nil => simp [step, hst] at hs
        | cons t r =>
          rw [hst] at hm
          rw [hm, has_set]
          by_cases e : k' = k
          · subst e; simp
          · have hb : (k == k') = false := by simpa using (fun x => e x.symm : ¬ (k = k'))
            simp [e, hb]
      all_goals (simp only [macroOffs]; rw [hm])

/-- **Disjointness.** If the offsets given to `add_opcode` and those given to `add_macro_opcode` are disjoint
(decidable discipline `disjointOffs`, evaluated on every recorded run), no offset has an entry in both tables. -/
theorem direct_and_macro_disjoint_if (cs : List Cmd) (b' : B) (h : run cs = .ok b') (hd : disjointOffs cs = true)
    (k : Int) : ¬ (Dict.has b'.tables.mappings k = true ∧ Dict.has b'.tables.macros k = true) := by
  intro ⟨h1, h2⟩
  unfold run at h
  rw [has_mappings_iff cs init b' h k] at h1
  rw [has_macros_iff cs init b' h k] at h2
  have i1 : Dict.has init.tables.mappings k = false := rfl
  have i2 : Dict.has init.tables.macros k = false := rfl
  rw [i1] at h1
  rw [i2] at h2
  simp only [Bool.false_or, List.contains_eq_mem, decide_eq_true_eq] at h1 h2
  unfold disjointOffs at hd
  rw [List.all_eq_true] at hd
  have := hd k h1
  simp [h2] at this

/-! ### called_in_once -/

/-- the pending call position as a function of the commands alone -/
def pending : Option CalledIn → List Cmd → Option CalledIn
  | p, [] => p
  | _, .calledIn f l c :: r => pending (some (f, l, c)) r
  | _, .addMacroOpcode _ _ _ _ _ :: r => pending none r
  | p, _ :: r => pending p r

theorem next_eq_pending (cs : List Cmd) (b b' : B) (h : runFrom b cs = .ok b') : b'.next = pending b.next cs := by
  induction cs generalizing b with
  | nil => simp [runFrom] at h; subst h; rfl
  | cons c cs ih =>
    simp only [runFrom] at h
    cases hs : step b c with
    | error e => simp [hs] at h
    | ok b1 =>
      simp only [hs] at h
      rw [ih b1 h]
      cases c <;> simp only [step] at hs
      case addOpcode k l col => injection hs with hs; subst hs; rfl
      case addPosMark p => injection hs with hs; subst hs; rfl
      case push r pm => injection hs with hs; subst hs; rfl
      case pop =>
        cases hst : b.stack with
        | nil => simp [hst] at hs
        | cons t r => simp [hst] at hs; subst hs; rfl
      case calledIn f l col => injection hs with hs; subst hs; rfl
      case addMacroOpcode k f n l col =>
        cases hst : b.stack with
        | nil => simp [hst] at hs
        | cons t r => simp [hst] at hs; subst hs; rfl
      case addMacroPosMark f n p => injection hs with hs; subst hs; rfl

/-- no `next_macro_opcode_called_in` and no `add_macro_opcode` -/
def quiet : List Cmd → Bool
  | [] => true
  | .calledIn _ _ _ :: _ => false
  | .addMacroOpcode _ _ _ _ _ :: _ => false
  | _ :: r => quiet r

def noCalledIn : List Cmd → Bool
  | [] => true
  | .calledIn _ _ _ :: _ => false
  | _ :: r => noCalledIn r

theorem pending_quiet (p : Option CalledIn) (cs : List Cmd) (h : quiet cs = true) : pending p cs = p := by
  induction cs with
  | nil => rfl
  | cons c cs ih => cases c <;> simp_all [quiet, pending]

theorem pending_after_add (cs : List Cmd) (h : noCalledIn cs = true) :
    pending none cs = none := by
  induction cs with
  | nil => rfl
  | cons c cs ih => cases c <;> simp_all [noCalledIn, pending]

/-- **A call position is used once.** (1) A `next_macro_opcode_called_in(x)` followed by commands other than
`next_macro_opcode_called_in` / `add_macro_opcode` is still pending, so the next `add_macro_opcode` records `x`
(by `macro_entry_uses_stack_top`, whose call position is the pending one); (2) after an `add_macro_opcode`, as long as
no new `next_macro_opcode_called_in` arrives, nothing is pending: every further `add_macro_opcode` records `null`. -/
theorem called_in_once (b : B) (pre mid : List Cmd) (f : Option String) (l c : Int) :
    (∀ b2, runFrom b (pre ++ .calledIn f l c :: mid) = .ok b2 → quiet mid = true → b2.next = some (f, l, c)) ∧
    (∀ b2 k g n l' c', runFrom b (pre ++ .addMacroOpcode k g n l' c' :: mid) = .ok b2 → noCalledIn mid = true →
        b2.next = none) := by
  constructor
  · intro b2 h hq
    rw [runFrom_append] at h
    cases h1 : runFrom b pre with
    | error e => simp [h1] at h
    | ok b1 =>
      simp only [h1, runFrom, step] at h
      rw [next_eq_pending mid _ b2 h]
      exact pending_quiet _ mid hq
  · intro b2 k g n l' c' h hq
    rw [runFrom_append] at h
    cases h1 : runFrom b pre with
    | error e => simp [h1] at h
    | ok b1 =>
      simp only [h1, runFrom] at h
      cases hs : step b1 (.addMacroOpcode k g n l' c') with
      | error e => simp [hs] at h
      | ok b3 =>
        simp only [hs] at h
        rw [next_eq_pending mid _ b2 h]
        have : b3.next = none := by
          simp only [step] at hs
          cases hst : b1.stack with
          | nil => simp [hst] at hs
          | cons t r => simp [hst] at hs; subst hs; rfl
        rw [this]
        exact pending_after_add mid hq

/-! ### push_pop_balanced -/

/-- **The run raises nothing iff every pop and every add_macro_opcode happens inside a context.** -/
theorem run_ok_iff_depthOk (cs : List Cmd) (b : B) :
    (∃ b', runFrom b cs = .ok b') ↔ depthOk b.stack.length cs = true := by
  induction cs generalizing b with
  | nil => simp [runFrom, depthOk]
  | cons c cs ih =>
    simp only [runFrom]
    cases c
    case addOpcode k l col => simp only [step, depthOk]; exact ih _
    case addPosMark p => simp only [step, depthOk]; exact ih _
    case push r pm =>
      simp only [step, depthOk]
      have := ih { b with stack := (r, pm) :: b.stack }
      simpa using this
    case pop =>
      cases hst : b.stack with
      | nil => simp [step, hst, depthOk]
      | cons t r =>
        simp only [step, hst, depthOk, List.length_cons]
        have := ih { b with stack := r }
        simpa using this
    case calledIn f l col => simp only [step, depthOk]; exact ih _
    case addMacroOpcode k f n l col =>
      cases hst : b.stack with
      | nil => simp [step, hst, depthOk]
      | cons t r =>
        have hs : ∃ b1, step b (.addMacroOpcode k f n l col) = .ok b1 ∧ b1.stack = b.stack := by
          simp [step, hst, setMacros]
        obtain ⟨b1, hs1, hs2⟩ := hs
        rw [hs1]
        simp only [depthOk, List.length_cons]
        have := ih b1
        rw [hs2, hst] at this
        simpa using this
    case addMacroPosMark f n p => simp only [step, depthOk]; exact ih _

/-- **push_pop_balanced.** A bracketed sequence (decidable) leaves the context stack as it found it. -/
theorem push_pop_balanced (cs : List Cmd) (b b' : B) (extra : List Ctx)  (base : List Ctx)
    (hb : b.stack = extra ++ base) (hbr : bracketed extra.length cs = true) (h : runFrom b cs = .ok b') :
    b'.stack = base := by
  induction cs generalizing b extra with
  | nil =>
    simp [runFrom] at h; subst h
    simp only [bracketed, beq_iff_eq, List.length_eq_zero_iff] at hbr
    subst hbr; simpa using hb
  | cons c cs ih =>
    simp only [runFrom] at h
    cases hs : step b c with
    | error e => simp [hs] at h
    | ok b1 =>
      simp only [hs] at h
      cases c <;> simp only [step] at hs
      case addOpcode k l col => injection hs with hs; subst hs; refine ih _ extra ?_ hbr h; exact hb
      case addPosMark p => injection hs with hs; subst hs; refine ih _ extra ?_ hbr h; exact hb
      case push r pm =>
        injection hs with hs; subst hs
        refine ih _ ((r, pm) :: extra) ?_ (by simpa [bracketed] using hbr) h
        simp [hb]
      case pop =>
        simp only [bracketed, Bool.and_eq_true, decide_eq_true_eq] at hbr
        cases extra with
        | nil => simp at hbr
        | cons t ex =>
          simp only [List.cons_append] at hb
          simp [hb] at hs; subst hs
          refine ih _ ex ?_ (by simpa using hbr.2) h
          rfl
      case calledIn f l col => injection hs with hs; subst hs; refine ih _ extra ?_ hbr h; exact hb
      case addMacroOpcode k f n l col =>
        cases hst : b.stack with
        | nil => simp [hst] at hs
        | cons t r =>
          simp [hst] at hs; subst hs
          refine ih _ extra ?_ hbr h
          simp [setMacros, hst, ← hb]
      case addMacroPosMark f n p => injection hs with hs; subst hs; refine ih _ extra ?_ hbr h; exact hb

/-! ### ret_addr_bounds: the counting lemma -/

/-- blueprint lists as the compiler makes them: ops and labels emitted by handlers, concatenation, and the output of
`build` of another macro (start label carrying its `len_real_ops_in_blueprints`, its items, end label) -/
inductive Blueprint : List Bp → Prop where
  | nil : Blueprint []
  | op (i : OpInfo) : Blueprint [.op i]
  | lbl : Blueprint [.lbl]
  | app {a b : List Bp} : Blueprint a → Blueprint b → Blueprint (a ++ b)
  | call (pm : ParamMap) {bp : List Bp} : Blueprint bp → Blueprint (buildOut pm bp)

theorem nReal_append (a b : List Bp) : nReal (a ++ b) = nReal a + nReal b := by
  induction a with
  | nil => simp [nReal]
  | cons x xs ih => cases x <;> simp [nReal, ih] <;> omega

theorem nReal_buildOut (pm : ParamMap) (bp : List Bp) : nReal (buildOut pm bp) = nReal bp := by
  simp [buildOut, nReal, nReal_append]

theorem wfGo_append (a b : List Bp) (c : Nat) (stk : List Nat) :
    wfGo c stk (a ++ b) = (match wfGo c stk a with | some (c', stk') => wfGo c' stk' b | none => none) := by
  induction a generalizing c stk with
  | nil => simp [wfGo]
  | cons x xs ih =>
    cases x
    case op i => simp only [List.cons_append, wfGo]; exact ih _ _
    case lbl => simp only [List.cons_append, wfGo]; exact ih _ _
    case mstart len pm => simp only [List.cons_append, wfGo]; exact ih _ _
    case mend =>
      simp only [List.cons_append, wfGo]
      cases stk with
      | nil => rfl
      | cons t r =>
        simp only
        split
        · exact ih _ _
        · rfl

theorem nReal_map_copy (ours : ParamMap) (bp : List Bp) : nReal (bp.map (copyItem ours)) = nReal bp := by
  induction bp with
  | nil => rfl
  | cons x xs ih => cases x <;> simp [copyItem, nReal, ih]

/-- substituting parameter mappings in nested start labels keeps a blueprint a blueprint -/
theorem blueprint_map_copy (ours : ParamMap) {bp : List Bp} (h : Blueprint bp) : Blueprint (bp.map (copyItem ours)) := by
  induction h with
  | nil => exact .nil
  | op i => exact .op i
  | lbl => exact .lbl
  | app _ _ iha ihb => rw [List.map_append]; exact .app iha ihb
  | @call pm bp _ ih =>
    have : (buildOut pm bp).map (copyItem ours) = buildOut (replaceParams pm ours) (bp.map (copyItem ours)) := by
      simp [buildOut, copyItem, nReal_map_copy]
    rw [this]
    exact .call _ ih

/-- **what `build` returns is a blueprint again** (start label with `n + 1`, the copied items with substituted
mappings, end label), with the same number of real items: the class `Blueprint` is closed under macro expansion. -/
theorem buildItems_blueprint (m : MacroIn) {bp : List Bp} (h : Blueprint bp) :
    Blueprint (buildItems m bp) ∧ nReal (buildItems m bp) = nReal bp := by
  refine ⟨.call _ (blueprint_map_copy m.params h), ?_⟩
  unfold buildItems
  rw [nReal_buildOut, nReal_map_copy]

/-- every blueprint is a segment: it hands out exactly `nReal` offsets, every nested return address is the number the
counter hands out next when its expansion ends, and the stack is left as found -/
theorem blueprint_seg {bp : List Bp} (h : Blueprint bp) : ∀ c stk, wfGo c stk bp = some (c + nReal bp, stk) := by
  induction h with
  | nil => intro c stk; simp [wfGo, nReal]
  | op i => intro c stk; simp [wfGo, nReal]
  | lbl => intro c stk; simp [wfGo, nReal]
  | app _ _ iha ihb =>
    intro c stk
    rw [wfGo_append, iha c stk]
    simp only
    rw [ihb, nReal_append, Nat.add_assoc]
  | @call pm bp _ ih =>
    intro c stk
    show wfGo c stk (.mstart (nReal bp + 1) pm :: (bp ++ [.mend])) = _
    simp only [wfGo]
    rw [wfGo_append, ih]
    simp only [wfGo]
    rw [nReal_buildOut]
    simp [Nat.add_assoc]

theorem events_append (a b : List Bp) (c c' : Nat) (stk stk' : List Nat) (h : wfGo c stk a = some (c', stk')) :
    events c stk (a ++ b) = events c stk a ++ events c' stk' b := by
  induction a generalizing c stk with
  | nil => simp [wfGo] at h; obtain ⟨h1, h2⟩ := h; subst h1; subst h2; simp [events]
  | cons x xs ih =>
    cases x
    case op i => simp only [List.cons_append, events, wfGo] at *; rw [ih _ _ h]
    case lbl => simp only [List.cons_append, events, wfGo] at *; exact ih _ _ h
    case mstart len pm => simp only [List.cons_append, events, wfGo] at *; exact ih _ _ h
    case mend =>
      simp only [List.cons_append, events, wfGo] at *
      cases stk with
      | nil => simp at h
      | cons t r =>
        simp only at h
        split at h
        · exact ih _ _ h
        · simp at h

theorem events_bounds {bp : List Bp} (h : Blueprint bp) :
    ∀ c stk, stk ≠ [] → (∀ r ∈ stk, c + nReal bp < r) →
      ∀ e ∈ events c stk bp, c < e.1 ∧ e.1 ≤ c + nReal bp ∧ e.1 < e.2 := by
  induction h with
  | nil => intro c stk _ _ e he; simp [events] at he
  | op i =>
    intro c stk hne hr e he
    simp only [events, List.mem_singleton] at he
    subst he
    cases stk with
    | nil => exact absurd rfl hne
    | cons t r =>
      have := hr t (List.mem_cons_self)
      simp only [nReal] at this ⊢
      simp only [List.headD_cons]
      omega
  | lbl => intro c stk _ _ e he; simp [events] at he
  | app ha hb iha ihb =>
    intro c stk hne hr e he
    rename_i a b
    rw [events_append a b c _ stk _ (blueprint_seg ha c stk)] at he
    rw [nReal_append] at hr ⊢
    rcases List.mem_append.mp he with he | he
    · have := iha c stk hne (fun r hm => by have := hr r hm; omega) e he
      omega
    · have := ihb (c + nReal a) stk hne (fun r hm => by have := hr r hm; omega) e he
      omega
  | call pm hbp ih =>
    intro c stk hne hr e he
    rename_i bp
    rw [nReal_buildOut] at hr ⊢
    change e ∈ events c stk (.mstart (nReal bp + 1) pm :: (bp ++ [.mend])) at he
    simp only [events] at he
    rw [events_append bp [.mend] c _ _ _ (blueprint_seg hbp c _)] at he
    simp only [events, List.append_nil] at he
    apply ih c ((c + (nReal bp + 1)) :: stk) (by simp) _ e he
    intro r hm
    rcases List.mem_cons.mp hm with hm | hm
    · omega
    · exact hr r hm

/-- **ret_addr_bounds.** Let a macro whose blueprint list `bp` was built by handlers and macro calls be expanded when
the counter stands at `c`, pushing `c + n + 1` with `n` the number of non-label items. Then
(1) every offset handed out during the expansion lies in `(c, c + n]` and is smaller than the return address on top of
    the stack at that moment (the pushed one for the macro's own ops, the nested one inside a nested expansion);
(2) every nested return address equals the number the counter hands out next when its expansion ends, the outer one
    equals `counter + 1` at the end of the expansion: the next offset handed out after an expansion is >= its return
    address, with equality when it comes from the counter's next tick;
(3) the stack is left as found. -/
theorem ret_addr_bounds {bp : List Bp} (h : Blueprint bp) (c : Nat) :
    (∀ e ∈ events c [c + (nReal bp + 1)] bp, c < e.1 ∧ e.1 ≤ c + nReal bp ∧ e.1 < e.2) ∧
    wfGo c [c + (nReal bp + 1)] bp = some (c + nReal bp, [c + (nReal bp + 1)]) ∧
    wfBlueprint c bp = true := by
  refine ⟨?_, blueprint_seg h c _, ?_⟩
  · apply events_bounds h c _ (by simp)
    intro r hm
    simp only [List.mem_singleton] at hm
    omega
  · simp [wfBlueprint, blueprint_seg h c _]

/-- the same bounds for any list that passes the decidable check (what the harness evaluates on recorded blueprints):
a successful `wfGo` bounds every return address still on the stack from below by the counter -/
theorem wfGo_stack_bound (bp : List Bp) : ∀ c stk c' stk', wfGo c stk bp = some (c', stk') →
    (∀ r ∈ stk', c' < r) → c ≤ c' ∧ ∀ r ∈ stk, c < r := by
  induction bp with
  | nil => intro c stk c' stk' h hr; simp [wfGo] at h; obtain ⟨h1, h2⟩ := h; subst h1; subst h2; exact ⟨Nat.le_refl _, hr⟩
  | cons x xs ih =>
    intro c stk c' stk' h hr
    cases x
    case op i =>
      simp only [wfGo] at h
      have := ih _ _ _ _ h hr
      exact ⟨by omega, fun r hm => by have := this.2 r hm; omega⟩
    case lbl => simp only [wfGo] at h; exact ih _ _ _ _ h hr
    case mstart len pm =>
      simp only [wfGo] at h
      have := ih _ _ _ _ h hr
      exact ⟨this.1, fun r hm => this.2 r (List.mem_cons_of_mem _ hm)⟩
    case mend =>
      simp only [wfGo] at h
      cases stk with
      | nil => simp at h
      | cons t r =>
        simp only at h
        split at h
        · rename_i ht
          have := ih _ _ _ _ h hr
          refine ⟨this.1, fun r' hm => ?_⟩
          rcases List.mem_cons.mp hm with hm | hm
          · omega
          · exact this.2 r' hm
        · simp at h

/-! ### the builder calls of `build` follow the counting machine -/

/-- offsets and stack tops seen by the `add_macro_opcode` calls of a command list (stack of return addresses only) -/
def traceCmds : List Int → List Cmd → List (Int × Int)
  | _, [] => []
  | stk, .push r _ :: cs => traceCmds (r :: stk) cs
  | stk, .pop :: cs => traceCmds stk.tail cs
  | stk, .addMacroOpcode k _ _ _ _ :: cs => (k, stk.headD 0) :: traceCmds stk cs
  | stk, _ :: cs => traceCmds stk cs

theorem buildOp_trace (m : MacroIn) (k : Int) (i : OpInfo) (pre : List Cmd) (h : buildOp m k i = .ok pre)
    (stk : List Int) (rest : List Cmd) :
    traceCmds stk (pre ++ rest) = (k, stk.headD 0) :: traceCmds stk rest := by
  unfold buildOp at h
  cases hr : i.relay with
  | some e =>
    simp only [hr] at h
    injection h with h; subst h
    cases e.calledIn with
    | none => simp [traceCmds]
    | some ci => obtain ⟨cf, l, c⟩ := ci; simp [traceCmds]
  | none =>
    simp only [hr] at h
    cases hd : i.direct with
    | some d => simp only [hd] at h; injection h with h; subst h; simp [traceCmds]
    | none => simp [hd] at h

/-- **`build` follows the counting machine**: the loop hands out exactly `nReal bp` offsets, and the offsets given to
`add_macro_opcode` with the return address on top of the stack at that moment are the events of the machine of
`ret_addr_bounds`. -/
theorem buildLoop_trace (m : MacroIn) (bp : List Bp) : ∀ (c : Nat) (stk : List Nat) (cs : List Cmd) (c' : Nat),
    buildLoop m c bp = .ok (cs, c') →
    c' = c + nReal bp ∧
    traceCmds (stk.map Int.ofNat) cs = (events c stk bp).map (fun e => (Int.ofNat e.1, Int.ofNat e.2)) := by
  induction bp with
  | nil => intro c stk cs c' h; simp [buildLoop] at h; obtain ⟨h1, h2⟩ := h; subst h1; subst h2; simp [nReal, traceCmds, events]
  | cons x xs ih =>
    intro c stk cs c' h
    cases x
    case lbl =>
      simp only [buildLoop] at h
      simpa [nReal, events] using ih c stk cs c' h
    case mstart len pm =>
      simp only [buildLoop] at h
      cases hl : buildLoop m c xs with
      | error e => simp [hl] at h
      | ok res =>
        obtain ⟨cs1, c1⟩ := res
        simp only [hl] at h
        injection h with h
        injection h with h1 h2
        subst h1; subst h2
        have := ih c ((c + len) :: stk) cs1 c1 hl
        simp only [nReal, traceCmds, events]
        exact ⟨this.1, by simpa using this.2⟩
    case mend =>
      simp only [buildLoop] at h
      cases hl : buildLoop m c xs with
      | error e => simp [hl] at h
      | ok res =>
        obtain ⟨cs1, c1⟩ := res
        simp only [hl] at h
        injection h with h
        injection h with h1 h2
        subst h1; subst h2
        have := ih c stk.tail cs1 c1 hl
        simp only [nReal, traceCmds, events]
        refine ⟨this.1, ?_⟩
        rw [← this.2]
        cases stk <;> rfl
    case op i =>
      rw [buildLoop] at h
      split at h
      · simp at h
      · rename_i pre ho
        split at h
        · rename_i cs1 c1 hl
          injection h with h
          injection h with h1 h2
          subst h1; subst h2
          have := ih (c + 1) stk cs1 c1 hl
          simp only [nReal, events, List.map_cons]
          refine ⟨by omega, ?_⟩
          rw [buildOp_trace m _ i pre ho, this.2]
          cases stk <;> rfl
        · simp at h

/-! ### non-vacuity -/

/-- a blueprint with a nested expansion: `[op, <start 3> op, lbl, op <end>, op]` -/
example : Blueprint ([.op ⟨none, some ⟨1, 0⟩⟩] ++ (buildOut [] ([.op ⟨none, some ⟨2, 0⟩⟩] ++ ([.lbl] ++ [.op ⟨none, some ⟨3, 0⟩⟩]))
    ++ [.op ⟨none, some ⟨4, 0⟩⟩])) :=
  .app (.op _) (.app (.call [] (.app (.op _) (.app .lbl (.op _)))) (.op _))

example : events 10 [15] [.op ⟨none, none⟩, .mstart 3 [], .op ⟨none, none⟩, .lbl, .op ⟨none, none⟩, .mend, .op ⟨none, none⟩]
    = [(11, 15), (12, 14), (13, 14), (14, 15)] := by decide

/-- counting labels too (a mutation of `len_real_ops_in_blueprints`) breaks the discipline -/
example : wfGo 10 [16] [.op ⟨none, none⟩, .mstart 4 [], .op ⟨none, none⟩, .lbl, .op ⟨none, none⟩, .mend, .op ⟨none, none⟩] = none := by
  decide

example : (run [.calledIn none 3 4, .push 9 [("$a", .str "1")], .addMacroOpcode 7 none "m" 1 2, .addMacroOpcode 8 none "m" 2 2,
    .pop, .addOpcode 9 4 0]).toOption.map (fun b => (b.tables.macros.map fun kv => (kv.1, kv.2.calledIn, kv.2.returnAddr), b.tables.mappings, b.next, b.stack.length))
    = some ([(7, some (none, 3, 4), some 9), (8, none, some 9)], [(9, ⟨4, 0⟩)], none, 0) := by rfl

/-- `add_macro_opcode` outside every context raises ValueError -/
example : run [.addMacroOpcode 1 none "m" 0 0] = .error .valueError := by rfl

end ESV.C08
