import ESV.Comp.BackSemStrip6
/-
C01, back end — the compiler's back end (strip_last_label → LabelFinalizer → OpsLabelJumpToRemover, modelled statement
by statement in ESV/Comp/Backend.lean and tied to /repo by the C03 correspondence check) preserves the behaviour of
labelled code: for ALL well-formed labelled code `rs` (`WFL`, decidable, ESV/Comp/LabSem.lean) on which the back end
succeeds, every routine of the labelled code (semantics `labLTS`, ESV/Comp/LabSem.lean) and of the compiled op lists run
on the SSB machine of C01 (ESV/Beh/Machine.lean) are behaviourally equal.

Final statements only; the proofs are in ESV/Comp/BackSem*.lean.
-/
namespace ESV.C01Backend
open ESV ESV.Beh ESV.Comp

/-- strip_last_label does nothing to a routine that does not end with a label -/
theorem stripRoutine_noTrail (all : List Nat) (its : List LItem) (h : noTrail its = true) : stripRoutine all its = .ok its := by
  unfold stripRoutine
  cases its with
  | nil => rfl
  | cons a r =>
    simp only [List.isEmpty_cons, Bool.false_eq_true, if_false, stripLoop]
    obtain ⟨x, hx, hl⟩ := noTrail_last (a :: r) h (by simp)
    rw [hx]
    cases x with
    | label id nm => simp [isLabel] at hl
    | op o => rfl
    | ljump root l => rfl

theorem stripLastLabel_noTrail (rs : List (List LItem)) (h : rs.all noTrail = true) : stripLastLabel rs = .ok rs := by
  unfold stripLastLabel
  generalize rs.flatMap jumpLabels = all
  induction rs with
  | nil => rfl
  | cons a r ih =>
    simp only [List.all_cons, Bool.and_eq_true] at h
    simp [mapE, stripRoutine_noTrail all a h.1, ih h.2]

theorem finHyp_of_wfl (rs : List (List LItem)) (h : WFL rs) (ht : rs.all noTrail = true) : FinHyp rs :=
  ⟨h.1, h.2.1, h.2.2.1, h.2.2.2.1, h.2.2.2.2.1, ht⟩

/-- **LabelFinalizer and OpsLabelJumpToRemover preserve behaviour**: for all labelled code without trailing labels whose
labels are unique, offsets distinct, … (`FinHyp`). -/
theorem finalize_remover_preserves (s : List (List LItem)) (H : FinHyp s) (ops : List (List Comp.Op))
    (hrem : remover (finalize s ⟨[], []⟩).2.offsets (finalize s ⟨[], []⟩).1 = .ok ops) (r : Nat) (hr : r < s.length) :
    Equivalent (labLTS s) (Machine.lts ⟨flatten (conv ops)⟩) (labEntry s r) (Machine.entry ⟨flatten (conv ops)⟩ r) :=
  ESV.Comp.finalize_remover_preserves s H ops hrem r hr

/-- the back end on well-formed labelled code in which no routine ends with a label -/
theorem backend_preserves_noTrail (rs : List (List LItem)) (ops : List (List Comp.Op)) (hw : WFL rs)
    (ht : rs.all noTrail = true) (hb : backend rs = .ok ops) (r : Nat) (hr : r < rs.length) :
    Equivalent (labLTS rs) (Machine.lts ⟨flatten (conv ops)⟩) (labEntry rs r) (Machine.entry ⟨flatten (conv ops)⟩ r) := by
  unfold backend at hb
  rw [stripLastLabel_noTrail rs ht] at hb
  exact ESV.Comp.finalize_remover_preserves rs (finHyp_of_wfl rs hw ht) ops hb r hr

/-- strip_last_label alone: behaviour preserved and the result fit for the later passes, provided every jump target of
the result is defined (which the success of the later passes implies, `defined_of_remover`) -/
theorem strip_preserves (rs s : List (List LItem)) (hw : WFL rs) (hs : stripLastLabel rs = .ok s)
    (hd : jumpTargetsDefined s) :
    FinHyp s ∧ s.length = rs.length ∧
    ∀ r, Equivalent (labLTS rs) (labLTS s) (labEntry rs r) (labEntry s r) :=
  ESV.Comp.strip_preserves rs s hw hs hd

/-- **The back end of the ExplorerScript compiler preserves behaviour**, for ALL labelled code: if `rs` is well formed
(`WFL`, decidable) and `OpsLabelJumpToRemover(LabelFinalizer(strip_last_label(rs)))` succeeds with the op lists `ops`,
then every routine of `rs` (labelled-code semantics) and of `ops` (the SSB machine) behave the same: for every outcome
of every test the same sequence of operations and tests, the same final event, or both run forever. -/
theorem backend_preserves (rs : List (List LItem)) (ops : List (List Comp.Op)) (hw : WFL rs) (hb : backend rs = .ok ops)
    (r : Nat) (hr : r < rs.length) :
    Equivalent (labLTS rs) (Machine.lts ⟨flatten (conv ops)⟩) (labEntry rs r) (Machine.entry ⟨flatten (conv ops)⟩ r) :=
  ESV.Comp.backend_correct rs ops hw hb r hr

end ESV.C01Backend
