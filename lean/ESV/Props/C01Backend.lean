import ESV.Comp.BackSemStrip6
/-
C01, back end — the compiler's back end (strip_last_label → LabelFinalizer → OpsLabelJumpToRemover, modelled statement
by statement in ESV/Comp/Backend.lean and tied to /repo by the C03 correspondence check) preserves the behaviour of
labelled code: for ALL well-formed labelled code `rs` (`WFL`, decidable, ESV/Comp/LabSem.lean) on which the back end
succeeds, every routine of the labelled code (semantics `labLTS`, ESV/Comp/LabSem.lean) and of the compiled op lists run
on the SSB machine of C01 (ESV/Beh/Machine.lean) are behaviourally equal.

Final statements only; the proofs are in ESV/Comp/BackSem*.lean.
-/
namespace ESV.C01Backend
open ESV ESV.Beh ESV.Comp

/-- strip_last_label does nothing to a routine that does not end with a label -/
theorem stripRoutine_noTrail (all : List Nat) (its : List LItem) (h : noTrail its = true) : stripRoutine all its = .ok its := by
  unfold stripRoutine
  cases its with
  | nil => rfl
  | cons a r =>
    simp only [List.isEmpty_cons, Bool.false_eq_true, if_false, stripLoop]
    obtain ⟨x, hx, hl⟩ := noTrail_last (a :: r) h (by simp)
    rw [hx]
    cases x with
    | label id nm => simp [isLabel] at hl
    | op o => rfl
    | ljump root l => rfl

theorem stripLastLabel_noTrail (rs : List (List LItem)) (h : rs.all noTrail = true) : stripLastLabel rs = .ok rs := by
  unfold stripLastLabel
  generalize rs.flatMap jumpLabels = all
  induction rs with
  | nil => rfl
  | cons a r ih =>
    simp only [List.all_cons, Bool.and_eq_true] at h
    simp [mapE, stripRoutine_noTrail all a h.1, ih h.2]

theorem finHyp_of_wfl (rs : List (List LItem)) (h : WFL rs) (ht : rs.all noTrail = true) : FinHyp rs :=
  ⟨h.1, h.2.1, h.2.2.1, h.2.2.2.1, h.2.2.2.2.1, ht⟩

/-- **LabelFinalizer and OpsLabelJumpToRemover preserve behaviour**: for all labelled code without trailing labels whose
labels are unique, offsets distinct, … (`FinHyp`). -/
theorem finalize_remover_preserves (s : List (List LItem)) (H : FinHyp s) (ops : List (List Comp.Op))
    (hrem : remover (finalize s ⟨[], []⟩).2.offsets (finalize s ⟨[], []⟩).1 = .ok ops) (r : Nat) (hr : r < s.length) :
    Equivalent (labLTS s) (Machine.lts ⟨flatten (conv ops)⟩) (labEntry s r) (Machine.entry ⟨flatten (conv ops)⟩ r) :=
  ESV.Comp.finalize_remover_preserves s H ops hrem r hr

/-- the back end on well-formed labelled code in which no routine ends with a label -/
theorem backend_preserves_noTrail (rs : List (List LItem)) (ops : List (List Comp.Op)) (hw : WFL rs)
    (ht : rs.all noTrail = true) (hb : backend rs = .ok ops) (r : Nat) (hr : r < rs.length) :
    Equivalent (labLTS rs) (Machine.lts ⟨flatten (conv ops)⟩) (labEntry rs r) (Machine.entry ⟨flatten (conv ops)⟩ r) := by
  unfold backend at hb
  rw [stripLastLabel_noTrail rs ht] at hb
  exact ESV.Comp.finalize_remover_preserves rs (finHyp_of_wfl rs hw ht) ops hb r hr

/-- strip_last_label alone: behaviour preserved and the result fit for the later passes, provided every jump target of
the result is defined (which the success of the later passes implies, `defined_of_remover`) -/
theorem strip_preserves (rs s : List (List LItem)) (hw : WFL rs) (hs : stripLastLabel rs = .ok s)
    (hd : jumpTargetsDefined s) :
    FinHyp s ∧ s.length = rs.length ∧
    ∀ r, Equivalent (labLTS rs) (labLTS s) (labEntry rs r) (labEntry s r) :=
  ESV.Comp.strip_preserves rs s hw hs hd

/-- **The back end of the ExplorerScript compiler preserves behaviour**, for ALL labelled code: if `rs` is well formed
(`WFL`, decidable) and `OpsLabelJumpToRemover(LabelFinalizer(strip_last_label(rs)))` succeeds with the op lists `ops`,
then every routine of `rs` (labelled-code semantics) and of `ops` (the SSB machine) behave the same: for every outcome
of every test the same sequence of operations and tests, the same final event, or both run forever. -/
theorem backend_preserves (rs : List (List LItem)) (ops : List (List Comp.Op)) (hw : WFL rs) (hb : backend rs = .ok ops)
    (r : Nat) (hr : r < rs.length) :
    Equivalent (labLTS rs) (Machine.lts ⟨flatten (conv ops)⟩) (labEntry rs r) (Machine.entry ⟨flatten (conv ops)⟩ r) :=
  ESV.Comp.backend_correct rs ops hw hb r hr

/-! ### non-vacuity: labels, a `Jump` that `LabelFinalizer` drops, a trailing label whose `Jump` becomes the dummy end, a
branch, a named label, a backwards `Jump`, two routines -/

def o (n : Nat) (s : String) : Comp.Op := ⟨n, s, []⟩

def exCode : List (List LItem) :=
  [[.op (o 1 "a"), .ljump ⟨2, "Branch", [.int 7]⟩ (some 1), .ljump (o 3 "Jump") (some 2), .label 2 false,
    .op (o 4 "b"), .ljump (o 5 "Jump") (some 3), .label 1 false, .op (o 6 "c"), .label 3 false],
   [.label 4 true, .op (o 7 "d"), .ljump (o 8 "Jump") (some 4)]]

example : WFL exCode := by decide
example : backend exCode = .ok
    [[o 1 "a", ⟨2, "Branch", [.int 7, .int 6]⟩, o 4 "b", o 5 "Return", o 6 "c"], [o 7 "d", ⟨8, "Jump", [.int 7]⟩]] := by
  decide

/-! ### every conjunct of `WFL` is needed

Each witness satisfies all conjuncts of `WFL` but one, the back end succeeds on it, and the labelled code and the
compiled ops behave differently (oracle: every test taken). -/

def allTaken : Nat → Bool := fun _ => true

/-- `with (actor 1) { jump @l; } §l;` at the end of a routine: strip_last_label turns the `Jump` into the dummy end op,
which — directly after a context op — does not stop the routine (real compiler: same ops, see design_notes) -/
def cxCtxJump : List (List LItem) := [[.op ⟨1, "lives", [.int 1]⟩, .ljump (o 2 "Jump") (some 1), .label 1 false]]

theorem ctx_jump_counterexample :
    DistinctOffsets cxCtxJump ∧ (labelIds cxCtxJump.flatten).Nodup ∧ cxCtxJump.flatten.all rawOK = true ∧
    cxCtxJump.flatten.all rootOK = true ∧ cxCtxJump.all condOK = true ∧ cxCtxJump.all ctxOK = false ∧
    backend cxCtxJump = .ok [[⟨1, "lives", [.int 1]⟩, o 2 "Return"]] ∧
    ¬ Equivalent (labLTS cxCtxJump) (Machine.lts ⟨flatten (conv [[⟨1, "lives", [.int 1]⟩, o 2 "Return"]])⟩)
      (labEntry cxCtxJump 0) (Machine.entry ⟨flatten (conv [[⟨1, "lives", [.int 1]⟩, o 2 "Return"]])⟩ 0) := by
  refine ⟨by decide, by decide, by decide, by decide, by decide, by decide, by decide, fun h => ?_⟩
  exact not_sim_of_halted' _ _ _ _ allTaken 10 10 0 (by decide +kernel) (by decide +kernel) h.1

/-- a label directly after a context op: the op after it is "directly after the context op" for the machine only -/
def cxCtxLabel : List (List LItem) := [[.op ⟨1, "lives", [.int 1]⟩, .label 1 false, .op (o 2 "Return")]]

theorem ctx_label_counterexample :
    DistinctOffsets cxCtxLabel ∧ (labelIds cxCtxLabel.flatten).Nodup ∧ cxCtxLabel.flatten.all rawOK = true ∧
    cxCtxLabel.flatten.all rootOK = true ∧ cxCtxLabel.all condOK = true ∧ cxCtxLabel.all ctxOK = false ∧
    backend cxCtxLabel = .ok [[⟨1, "lives", [.int 1]⟩, o 2 "Return"]] ∧
    ¬ Equivalent (labLTS cxCtxLabel) (Machine.lts ⟨flatten (conv [[⟨1, "lives", [.int 1]⟩, o 2 "Return"]])⟩)
      (labEntry cxCtxLabel 0) (Machine.entry ⟨flatten (conv [[⟨1, "lives", [.int 1]⟩, o 2 "Return"]])⟩ 0) := by
  refine ⟨by decide, by decide, by decide, by decide, by decide, by decide, by decide, fun h => ?_⟩
  exact not_sim_of_halted' _ _ _ _ allTaken 10 10 0 (by decide +kernel) (by decide +kernel) h.1

/-- a label id defined twice: the `Jump` goes to the first definition, `LabelFinalizer` drops it because of the second -/
def cxDupLabel : List (List LItem) :=
  [[.label 1 false, .op (o 1 "a"), .ljump (o 2 "Jump") (some 1), .label 1 false, .op (o 3 "Return")]]

theorem duplicate_label_counterexample :
    DistinctOffsets cxDupLabel ∧ ¬ (labelIds cxDupLabel.flatten).Nodup ∧ cxDupLabel.flatten.all rawOK = true ∧
    cxDupLabel.flatten.all rootOK = true ∧ cxDupLabel.all condOK = true ∧ cxDupLabel.all ctxOK = true ∧
    backend cxDupLabel = .ok [[o 1 "a", o 3 "Return"]] ∧
    ¬ Equivalent (labLTS cxDupLabel) (Machine.lts ⟨flatten (conv [[o 1 "a", o 3 "Return"]])⟩)
      (labEntry cxDupLabel 0) (Machine.entry ⟨flatten (conv [[o 1 "a", o 3 "Return"]])⟩ 0) := by
  refine ⟨by decide, by decide, by decide, by decide, by decide, by decide, by decide, fun h => ?_⟩
  exact not_sim_of_halted' _ _ _ _ allTaken 10 10 0 (by decide +kernel) (by decide +kernel) h.1

/-- a branch to a trailing label: strip_last_label turns the branch itself into the dummy end op (the front end avoids
this by appending a dummy end op, `_trailing_labels_need_an_op`) -/
def cxCondTrailing : List (List LItem) := [[.ljump (o 1 "Branch") (some 1), .op (o 2 "a"), .label 1 false]]

theorem cond_trailing_counterexample :
    DistinctOffsets cxCondTrailing ∧ (labelIds cxCondTrailing.flatten).Nodup ∧ cxCondTrailing.flatten.all rawOK = true ∧
    cxCondTrailing.flatten.all rootOK = true ∧ cxCondTrailing.all condOK = false ∧ cxCondTrailing.all ctxOK = true ∧
    backend cxCondTrailing = .ok [[o 1 "Return", o 2 "a"]] ∧
    ¬ Equivalent (labLTS cxCondTrailing) (Machine.lts ⟨flatten (conv [[o 1 "Return", o 2 "a"]])⟩)
      (labEntry cxCondTrailing 0) (Machine.entry ⟨flatten (conv [[o 1 "Return", o 2 "a"]])⟩ 0) := by
  refine ⟨by decide, by decide, by decide, by decide, by decide, by decide, by decide, fun h => ?_⟩
  exact not_sim_of_halted' _ _ _ _ allTaken 10 10 0 (by decide +kernel) (by decide +kernel) h.1

/-- two ops with the same offset: the machine resolves the branch target to the first of them -/
def cxDupOffset : List (List LItem) :=
  [[.op (o 5 "a"), .ljump (o 2 "Branch") (some 1), .op (o 3 "Return"), .label 1 false, .op (o 5 "b"), .op (o 6 "Return")]]

theorem duplicate_offset_counterexample :
    ¬ DistinctOffsets cxDupOffset ∧ (labelIds cxDupOffset.flatten).Nodup ∧ cxDupOffset.flatten.all rawOK = true ∧
    cxDupOffset.flatten.all rootOK = true ∧ cxDupOffset.all condOK = true ∧ cxDupOffset.all ctxOK = true ∧
    backend cxDupOffset = .ok [[o 5 "a", ⟨2, "Branch", [.int 5]⟩, o 3 "Return", o 5 "b", o 6 "Return"]] ∧
    ¬ Equivalent (labLTS cxDupOffset)
      (Machine.lts ⟨flatten (conv [[o 5 "a", ⟨2, "Branch", [.int 5]⟩, o 3 "Return", o 5 "b", o 6 "Return"]])⟩)
      (labEntry cxDupOffset 0)
      (Machine.entry ⟨flatten (conv [[o 5 "a", ⟨2, "Branch", [.int 5]⟩, o 3 "Return", o 5 "b", o 6 "Return"]])⟩ 0) := by
  refine ⟨by decide, by decide, by decide, by decide, by decide, by decide, by decide, fun h => ?_⟩
  exact not_sim_of_halted' _ _ _ _ allTaken 6 10 0 (by decide +kernel) (by decide +kernel) h.2

/-- a plain op named like a jump-carrying op, a label jump whose root is not one: labelled code gives them no meaning
(`!INVALID`), the machine does (it reads the last parameter as a target / emits the op) -/
def cxRaw : List (List LItem) := [[.op ⟨1, "Jump", [.int 2]⟩, .op (o 2 "Return")]]
def cxRoot : List (List LItem) := [[.ljump (o 1 "foo") (some 1), .label 1 false, .op (o 2 "Return")]]

theorem raw_jump_counterexample :
    cxRaw.flatten.all rawOK = false ∧ backend cxRaw = .ok [[⟨1, "Jump", [.int 2]⟩, o 2 "Return"]] ∧
    ¬ Equivalent (labLTS cxRaw) (Machine.lts ⟨flatten (conv [[⟨1, "Jump", [.int 2]⟩, o 2 "Return"]])⟩)
      (labEntry cxRaw 0) (Machine.entry ⟨flatten (conv [[⟨1, "Jump", [.int 2]⟩, o 2 "Return"]])⟩ 0) := by
  refine ⟨by decide, by decide, fun h => ?_⟩
  exact not_sim_of_halted' _ _ _ _ allTaken 10 10 0 (by decide +kernel) (by decide +kernel) h.1

theorem jump_root_counterexample :
    cxRoot.flatten.all rootOK = false ∧ backend cxRoot = .ok [[⟨1, "foo", [.int 2]⟩, o 2 "Return"]] ∧
    ¬ Equivalent (labLTS cxRoot) (Machine.lts ⟨flatten (conv [[⟨1, "foo", [.int 2]⟩, o 2 "Return"]])⟩)
      (labEntry cxRoot 0) (Machine.entry ⟨flatten (conv [[⟨1, "foo", [.int 2]⟩, o 2 "Return"]])⟩ 0) := by
  refine ⟨by decide, by decide, fun h => ?_⟩
  exact not_sim_of_halted' _ _ _ _ allTaken 10 10 0 (by decide +kernel) (by decide +kernel) h.1

end ESV.C01Backend
