import ESV.Cli.Lemmas
import ESV.Cli.Accept
import ESV.Cli.Pinned
/-
C15 — The compile CLI prints what the decompile CLI (and the docs) expect.  Property statements only; the model of the
CURRENT code (after the `fix:` commits e79af4f, c9fbb9f, 463a62a, 61b451d) is ESV/Cli/Model.lean (cli/compile.py
build_ops/build_routines_json with the position table, cli/decompile.py read_ops/read_routines/parse_pos_mark_arg/
check_settings, docs/cli_api_usage.rst as `DocShape`), lemmas in ESV/Cli/Lemmas.lean and ESV/Cli/Accept.lean.
ESV/Cli/Pinned.lean holds the OLD behaviour (`…Pinned`), only as the subject of the `_counterexample` theorems.

Vocabulary.  `jumpOf o` is the jump parameter of an op (index from OPS_WITH_JUMP_TO_MEM_OFFSET, regenerated table);
`posOf offs t` the 1-based position, counted across all routines, of the op with offset `t`;
`Closed c`: every jump parameter is an offset of the set; `Positional c`: every jump parameter equals the position of
the op it denotes (what the documentation and the decompile command expect); `remap c`: jump parameters replaced by
positions (the position table of build_routines_json); `renum c`: the same routines/ops with the offsets replaced by the
positions (the running counter of read_ops); `canon c = renum (remap c)` = what the decompile command works on.
-/
namespace ESV.C15
open ESV ESV.Cli ESV.Lit

/-- `c'` is `c` renumbered: the same routine table (as far as the JSON keeps it), the same routine lengths, and position
by position the same opcode and the same parameters, except that the jump parameter of an op may be another number —
it denotes the op at the same position; every coroutine keeps its name. -/
structure Renumbering (c c' : RoutineSet) : Prop where
  infos : c'.infos = c.infos.map normInfo
  shape : c'.ops.map List.length = c.ops.map List.length
  coros : ∀ (k : Nat) (i : RoutineInfo), c.infos[k]? = some i → i.kind = .coroutine → c'.coros[k]? = c.coros[k]?
  ops : ∀ (k : Nat) (o : Op), c.flat[k]? = some o → ∃ o', c'.flat[k]? = some o' ∧ o'.name = o.name ∧
      blank o' = (blank o).map normParam ∧ (jumpOf o').isSome = (jumpOf o).isSome ∧
      (jumpOf o').bind (posOf c'.offsets) = (jumpOf o).bind (posOf c.offsets)

/-! ## the documented structure -/

/-- hypotheses under which what the compile command prints has the documented structure -/
def DocOk : List RoutineInfo → List (Option String) → List (List Op) → Prop
  | i :: is, n :: ns, o :: os =>
    i.kind ≠ .invalid ∧ (i.kind = .coroutine → n.isSome) ∧
    (∀ x ∈ o, ∀ p ∈ x.params, ∀ v, p = .fixed v → isNumberLit v.toList = true) ∧
    DocOk is ns os
  | _, _, _ => True

theorem isCoordLit_posFinal (rel off : Int) : isCoordLit (posFinal rel off) = true := by
  have hd : ∀ n : Nat, isCanonNat (showNat n) = true := by
    intro n
    rcases Nat.eq_zero_or_pos n with rfl | hn
    · simp [isCanonNat, showNat_zero]
    · have hdig : isDigits (showNat n) = true := by
        simp only [isDigits, Bool.and_eq_true, Bool.not_eq_true', List.all_eq_true]
        refine ⟨?_, showNat_all_digits n⟩
        cases h : showNat n with
        | nil => exact absurd h (showNat_ne_nil n)
        | cons _ _ => rfl
      simp only [isCanonNat, hdig, Bool.true_and, Bool.or_eq_true, decide_eq_true_eq]
      right
      cases h : showNat n with
      | nil => exact absurd h (showNat_ne_nil n)
      | cons c rest => simpa using showNat_head_nonzero n hn c rest h
  have hs : ∀ i : Int, ∃ n : Nat, stripMinus (showInt i) = showNat n ∧ ∀ l, stripMinus (showInt i ++ l) = showNat n ++ l := by
    intro i
    cases i with
    | ofNat n =>
      refine ⟨n, ?_, fun l => ?_⟩
      · have := stripMinus_showNat n []
        simpa [showInt] using this
      · simpa [showInt] using stripMinus_showNat n l
    | negSucc n => exact ⟨n + 1, by simp [showInt, stripMinus], fun l => by simp [showInt, stripMinus]⟩
  obtain ⟨n, h1, h2⟩ := hs rel
  have hdot : '.' ∉ showNat n := showNat_not_mem n '.' (by decide)
  unfold posFinal isCoordLit
  by_cases h : off > 1
  · simp only [h, ↓reduceIte, h2]
    rw [splitOn_at '.' (showNat n) ['5'] hdot (by decide)]
    simp [hd n]
  · simp only [h, ↓reduceIte, List.append_nil, h1]
    rw [splitOn_none '.' (showNat n) hdot]
    simp [hd n]

theorem paramShape_paramJ (ints : Bool) (p : Param) (h : ∀ v, p = .fixed v → isNumberLit v.toList = true) :
    paramShapeG ints (paramJ p) = true := by
  cases p with
  | int i => rfl
  | fixed v => simp [paramJ, paramShapeG, look, Dict.get?, h v rfl]
  | const n => simp [paramJ, paramShapeG, look, Dict.get?]
  | constString s => simp [paramJ, paramShapeG, look, Dict.get?]
  | langString kv =>
    simp only [paramJ, paramShapeG, look, Dict.get?]
    simp only [↓reduceIte, String.reduceEq]
    induction kv with
    | nil => rfl
    | cons x xs ih => simp [langShape, isStr, ih]
  | posMark n xo yo xr yr =>
    simp [paramJ, paramShapeG, look, Dict.get?, sOf, coordShapeG, isCoordLit_posFinal]

theorem opsShape_opsJ (ints : Bool) (ops : List Op) (h : ∀ x ∈ ops, ∀ p ∈ x.params, ∀ v, p = .fixed v → isNumberLit v.toList = true) :
    opsShapeG ints (ops.map opJ) = true := by
  induction ops with
  | nil => rfl
  | cons o os ih =>
    have hp : paramsShapeG ints (o.params.map paramJ) = true := by
      have := h o (by simp)
      generalize o.params = ps at this
      induction ps with
      | nil => rfl
      | cons p ps ihp =>
        simp only [List.map_cons, paramsShapeG, Bool.and_eq_true]
        exact ⟨paramShape_paramJ ints p (this p (by simp)), ihp (fun q hq => this q (by simp [hq]))⟩
    simp only [List.map_cons, opsShapeG, Bool.and_eq_true]
    refine ⟨?_, ih (fun x hx => h x (by simp [hx]))⟩
    simp [opJ, opShapeG, look, Dict.get?, hp]

theorem routinesShape_routinesJ (ints : Bool) (is : List RoutineInfo) (ns : List (Option String)) (os : List (List Op))
    (h : DocOk is ns os) (js : List J) (hj : routinesJ is ns os = .ok js) : routinesShapeG ints js = true := by
  induction is generalizing ns os js with
  | nil => cases ns <;> cases os <;> simp [routinesJ] at hj <;> subst hj <;> rfl
  | cons i is ih =>
    cases ns with
    | nil => cases os <;> simp [routinesJ] at hj <;> subst hj <;> rfl
    | cons nm ns =>
      cases os with
      | nil => simp [routinesJ] at hj; subst hj; rfl
      | cons o os =>
        obtain ⟨h1, h2, h4, h5⟩ := h
        simp only [routinesJ, consR] at hj
        cases hr : routineJ i nm o with
        | error e => simp [hr] at hj
        | ok j =>
          cases hrs : routinesJ is ns os with
          | error e => simp [hr, hrs] at hj
          | ok js' =>
            simp [hr, hrs] at hj
            subst hj
            simp only [routinesShapeG, Bool.and_eq_true]
            refine ⟨?_, ih ns os h5 js' hrs⟩
            have ho := opsShape_opsJ ints o h4
            obtain ⟨k, l, n⟩ := i
            have ht : targetShape (targetJ ⟨k, l, n⟩) = true := by
              unfold targetJ; cases n <;> rfl
            cases k with
            | invalid => exact absurd rfl h1
            | coroutine =>
              cases nm with
              | none => simp at h2
              | some x =>
                simp [routineJ] at hr; subst hr
                simp [routineShapeG, look, Dict.get?, opsJ, ho, nameJ]
            | generic =>
              simp [routineJ] at hr; subst hr
              simp [routineShapeG, look, Dict.get?, opsJ, ho]
            | actor =>
              simp [routineJ] at hr; subst hr
              simp [routineShapeG, look, Dict.get?, opsJ, ho, ht]
            | object =>
              simp [routineJ] at hr; subst hr
              simp [routineShapeG, look, Dict.get?, opsJ, ho, ht]
            | performer =>
              simp [routineJ] at hr; subst hr
              simp [routineShapeG, look, Dict.get?, opsJ, ho, ht]

theorem remapOp_params_mem (offs : List Int) (o : Op) (p : Param) (h : p ∈ (remapOp offs o).params) :
    p ∈ o.params ∨ ∃ q, p = .int q := by
  unfold remapOp at h
  split at h
  · exact Or.inl h
  · split at h
    · split at h
      · simp only at h
        rcases List.mem_or_eq_of_mem_set h with h | rfl
        · exact Or.inl h
        · exact Or.inr ⟨_, rfl⟩
      · exact Or.inl h
    · exact Or.inl h

theorem docOk_remap (offs : List Int) (is : List RoutineInfo) (ns : List (Option String)) (os : List (List Op))
    (h : DocOk is ns os) : DocOk is ns (os.map fun r => r.map (remapOp offs)) := by
  induction is generalizing ns os with
  | nil => cases ns <;> cases os <;> simp [DocOk]
  | cons i is ih =>
    cases ns with
    | nil => cases os <;> simp [DocOk]
    | cons nm ns =>
      cases os with
      | nil => simp [DocOk]
      | cons o os =>
        obtain ⟨h1, h2, h4, h5⟩ := h
        refine ⟨h1, h2, ?_, ih ns os h5⟩
        intro x hx p hp v hv
        simp only [List.mem_map] at hx
        obtain ⟨y, hy, rfl⟩ := hx
        rcases remapOp_params_mem offs y p hp with hm | ⟨q, hq⟩
        · exact h4 y hy p hm v hv
        · subst hq; cases hv

/-- **The JSON printed by the compile command has the documented structure** (with all position coordinates written as
strings) — for every routine set whose routines have a known type, whose coroutines have their name and whose
fixed-point values are decimal numbers (and documented settings). -/
theorem cli_docshape (s : J) (c : RoutineSet) (hs : settingsShape s = true) (h : DocOk c.infos c.coros c.ops)
    (j : J) (hj : buildJson s c = .ok j) : DocShape j = true ∧ DocShapeStr j = true := by
  unfold buildJson buildJsonRaw at hj
  have h' : DocOk (remap c).infos (remap c).coros (remap c).ops := docOk_remap c.offsets _ _ _ h
  cases hr : routinesJ (remap c).infos (remap c).coros (remap c).ops with
  | error e => simp [hr] at hj
  | ok js =>
    simp [hr] at hj
    subst hj
    simp [DocShape, DocShapeStr, DocShapeG, look, Dict.get?, hs, routinesShape_routinesJ _ _ _ _ h' js hr]

/-- REPAIRED (c9fbb9f).  `def 0 for actor(-1) {}` is accepted by the compiler; the pinned compile command printed
`"target_id": null` for it, which is neither of the documented forms; the current one prints the id. -/
theorem cli_target_null_counterexample :
    (∃ j, buildJsonPinned (.obj []) ⟨[⟨.actor, -1, none⟩], [[]], [none]⟩ = .ok j ∧
      j = .obj [("settings", .obj []), ("routines", .arr [.obj [("type", .str "ACTOR"), ("target_id", .null), ("ops", .arr [])]])] ∧
      routineShapeG true (.obj [("type", .str "ACTOR"), ("target_id", .null), ("ops", .arr [])]) = false) ∧
    (∃ j, buildJson (.obj []) ⟨[⟨.actor, -1, none⟩], [[]], [none]⟩ = .ok j ∧
      j = .obj [("settings", .obj []), ("routines", .arr [.obj [("type", .str "ACTOR"), ("target_id", .int (-1)), ("ops", .arr [])]])]) :=
  ⟨⟨_, rfl, rfl, by decide⟩, ⟨_, rfl, rfl⟩⟩

/-! ## settings -/

/-- **`check_settings` lets a document through only if the settings block is complete**: an object `settings` with
`performance_progress_list_var_name` and an object `dungeon_mode_constants` having all of `open`, `closed`, `request`,
`open_request` (what the decompile command reads afterwards; `checkSettings_of_shape` is the converse for documented settings). -/
theorem cli_settings_complete (kv : List (String × J)) (h : checkSettings kv = .ok ()) :
    ∃ st dm, look kv "settings" = some (.obj st) ∧ (look st "performance_progress_list_var_name").isSome = true ∧
      look st "dungeon_mode_constants" = some (.obj dm) ∧ (look dm "open").isSome = true ∧ (look dm "closed").isSome = true ∧
      (look dm "request").isSome = true ∧ (look dm "open_request").isSome = true := by
  unfold checkSettings at h
  split at h
  · cases h
  · rename_i st hst
    split at h
    · cases h
    · rename_i hp
      split at h
      · cases h
      · rename_i dm hdm
        split at h
        · rename_i hall
          simp only [Bool.and_eq_true] at hall
          exact ⟨st, dm, hst, by rw [hp]; rfl, hdm, hall.1.1.1, hall.1.1.2, hall.1.2, hall.2⟩
        · cases h
      · cases h
  · cases h

/-- each of the seven parts is needed: without `open_request` the document is refused (exit 1) -/
example : checkSettings [("settings", .obj [("performance_progress_list_var_name", .str "$P"),
    ("dungeon_mode_constants", .obj [("open", .str "O"), ("closed", .str "C"), ("request", .str "R")])])] = .error .systemExit := by
  decide +kernel

/-! ## acceptance of documented documents -/

/-- **The decompile command's reader accepts every documented routine type and argument type**: check_settings and
read_routines raise nothing on any document with the documented structure — all five routine types, integer or string
targets, all six argument types, position coordinates as integers or whole/half-tile strings, any number of routines, ops
and arguments, additional members anywhere.  (The decompiler proper runs after this and is not modelled.) -/
theorem cli_accepts_documented (doc : J) (h : DocShape doc = true) : ∃ rs, readRaw doc = .ok rs :=
  readRaw_total true doc h

/-- the string-coordinate structure is within the documented structure -/
theorem docShapeStr_documented (doc : J) (h : DocShapeStr doc = true) : DocShape doc = true := by
  have hc : ∀ x, coordShapeG false x = true → coordShapeG true x = true := by
    intro x hx; cases x <;> simp_all [coordShapeG]
  have hm : ∀ (m : List (String × J)) (k : String),
      (match look m k with | some x => coordShapeG false x | none => false) = true →
      (match look m k with | some x => coordShapeG true x | none => false) = true := by
    intro m k h
    cases e : look m k with
    | none => simp [e] at h
    | some x => simp only [e] at h ⊢; exact hc x h
  have hp : ∀ p, paramShapeG false p = true → paramShapeG true p = true := by
    intro p hp
    cases p with
    | obj kv =>
      simp only [paramShapeG] at hp ⊢
      split at hp
      · exact hp
      · rfl
      · rfl
      · exact hp
      · rename_i m _ _
        simp only [Bool.and_eq_true] at hp ⊢
        exact ⟨⟨hp.1.1, hm m "x" hp.1.2⟩, hm m "y" hp.2⟩
      · cases hp
    | int i => rfl
    | _ => simp [paramShapeG] at hp
  have hps : ∀ l, paramsShapeG false l = true → paramsShapeG true l = true := by
    intro l; induction l with
    | nil => intro _; rfl
    | cons p ps ih => intro h; simp only [paramsShapeG, Bool.and_eq_true] at h ⊢; exact ⟨hp p h.1, ih h.2⟩
  have ho : ∀ o, opShapeG false o = true → opShapeG true o = true := by
    intro o ho
    cases o with
    | obj kv =>
      simp only [opShapeG, Bool.and_eq_true] at ho ⊢
      refine ⟨ho.1, ?_⟩
      have := ho.2
      split at this <;> simp_all
    | _ => simp [opShapeG] at ho
  have hos : ∀ l, opsShapeG false l = true → opsShapeG true l = true := by
    intro l; induction l with
    | nil => intro _; rfl
    | cons p ps ih => intro h; simp only [opsShapeG, Bool.and_eq_true] at h ⊢; exact ⟨ho p h.1, ih h.2⟩
  have hr : ∀ r, routineShapeG false r = true → routineShapeG true r = true := by
    intro r hr
    cases r with
    | obj kv =>
      simp only [routineShapeG, Bool.and_eq_true] at hr ⊢
      refine ⟨?_, hr.2⟩
      have := hr.1
      split at this <;> simp_all
    | _ => simp [routineShapeG] at hr
  have hrs : ∀ l, routinesShapeG false l = true → routinesShapeG true l = true := by
    intro l; induction l with
    | nil => intro _; rfl
    | cons p ps ih => intro h; simp only [routinesShapeG, Bool.and_eq_true] at h ⊢; exact ⟨hr p h.1, ih h.2⟩
  cases doc with
  | obj kv =>
    simp only [DocShapeStr, DocShape, DocShapeG, Bool.and_eq_true] at h ⊢
    refine ⟨h.1, ?_⟩
    have := h.2
    split at this <;> simp_all
  | _ => simp [DocShapeStr, DocShapeG] at h

/-! ## reading back -/

/-- **What the decompile command reads from what the compile command prints** (all routine sets, whatever their
offsets): the canonical form — the same routines, ops and parameters, every jump parameter replaced by the 1-based
position of the op it denotes, every op numbered by its 1-based position across all routines, coroutines named. -/
theorem cli_roundtrip (s : J) (c : RoutineSet) (hs : settingsShape s = true) (h : Wf c) :
    ∃ j, buildJson s c = .ok j ∧ readJson j = .ok (canon c) :=
  readJson_buildJson s c hs h

theorem renum_infos_shape (c : RoutineSet) :
    (renum c).infos = c.infos.map normInfo ∧ (renum c).ops.map List.length = c.ops.map List.length :=
  ⟨rfl, renumRoutines_lengths 0 c.ops⟩

theorem corosRead_getElem? (is : List RoutineInfo) (ns : List (Option String)) (k : Nat) (i : RoutineInfo)
    (hi : is[k]? = some i) (hc : i.kind = .coroutine) : (corosRead is ns)[k]? = ns[k]? := by
  induction is generalizing ns k with
  | nil => simp at hi
  | cons x xs ih =>
    cases ns with
    | nil => simp [corosRead]
    | cons n ns =>
      cases k with
      | zero => simp at hi; subst hi; simp [corosRead, hc]
      | succ k => simp at hi; simp [corosRead, ih ns k hi]

theorem renum_coros (c : RoutineSet) (k : Nat) (i : RoutineInfo) (hi : c.infos[k]? = some i) (hc : i.kind = .coroutine) :
    (renum c).coros[k]? = c.coros[k]? := corosRead_getElem? c.infos c.coros k i hi hc

/-- **Each jump parameter the compile command prints equals the 1-based position of its target op counted across all
routines** (closed sets): the k-th op as printed carries the position of the op its original parameter denotes. -/
theorem cli_build_positional (c : RoutineSet) (hc : Closed c) (k : Nat) (o : Op) (t : Int)
    (hk : c.flat[k]? = some o) (hj : jumpOf o = some t) :
    ∃ o' p, (remap c).flat[k]? = some o' ∧ o'.name = o.name ∧ posOf c.offsets t = some p ∧ jumpOf o' = some p := by
  obtain ⟨p, hp⟩ := posOf_of_mem _ _ (hc o (List.mem_of_getElem? hk) t hj)
  refine ⟨remapOp c.offsets o, p, ?_, remapOp_name _ o, hp, ?_⟩
  · rw [remap_flat, List.getElem?_map, hk]; rfl
  · rw [jumpOf_remapOp, hj]; simp [hp]

/-- **The round trip is exact** (every closed well-formed routine set): the decompile command accepts what the compile
command prints and works on a renumbering of the compiler's set — same routine table, same ops and parameters, every jump
parameter denoting the op at the position of the original target, every coroutine named — whose jump parameters are
positions. -/
theorem cli_positional (s : J) (c : RoutineSet) (hs : settingsShape s = true) (h : Wf c) (hc : Closed c) :
    ∃ j, buildJson s c = .ok j ∧ readJson j = .ok (canon c) ∧ Renumbering c (canon c) ∧ Positional (canon c) := by
  obtain ⟨j, h1, h2⟩ := readJson_buildJson s c hs h
  have hflat : (canon c).flat = renumOps 0 (c.flat.map (remapOp c.offsets)) := by
    unfold canon; rw [renum_flat, remap_flat]
  have hoffs : (canon c).offsets = (List.range' 1 c.flat.length).map fun k : Nat => (k : Int) := by
    unfold canon; rw [renum_offsets, remap_flat]; simp
  refine ⟨j, h1, h2, ⟨rfl, ?_, ?_, ?_⟩, ?_⟩
  · unfold canon
    rw [(renum_infos_shape (remap c)).2]
    simp [remap]
  · intro k i hi hk
    exact renum_coros (remap c) k i hi hk
  · intro k o hk
    refine ⟨⟨((0 + k + 1 : Nat) : Int), (remapOp c.offsets o).name, (remapOp c.offsets o).params.map normParam⟩,
      ?_, remapOp_name _ o, ?_, ?_, ?_⟩
    · rw [hflat, renumOps_getElem?, List.getElem?_map, hk]; rfl
    · rw [blank_norm, blank_remapOp]
    · rw [jumpOf_norm, jumpOf_remapOp]; simp
    · rw [jumpOf_norm, jumpOf_remapOp, hoffs]
      cases hj : jumpOf o with
      | none => rfl
      | some t =>
        obtain ⟨p, hp⟩ := posOf_of_mem _ _ (hc o (List.mem_of_getElem? hk) t hj)
        have hb := posOf_bound _ _ _ hp
        rw [offsets_length] at hb
        simp only [Option.map_some, hp, Option.getD_some, Option.bind_some]
        exact posOf_seq_self _ p hb.1 hb.2
  · intro o' hm t' hj'
    rw [hflat] at hm
    obtain ⟨k, hk⟩ := List.getElem?_of_mem hm
    rw [renumOps_getElem?, List.getElem?_map] at hk
    cases ho : c.flat[k]? with
    | none => simp [ho] at hk
    | some o =>
      simp only [ho, Option.map_some, Option.some.injEq] at hk
      subst hk
      rw [jumpOf_norm, jumpOf_remapOp] at hj'
      cases hj : jumpOf o with
      | none => simp [hj] at hj'
      | some t =>
        obtain ⟨p, hp⟩ := posOf_of_mem _ _ (hc o (List.mem_of_getElem? ho) t hj)
        have hb := posOf_bound _ _ _ hp
        rw [offsets_length] at hb
        simp only [hj, Option.map_some, hp, Option.getD_some, Option.some.injEq] at hj'
        subst hj'
        rw [hoffs]
        exact posOf_seq_self _ p hb.1 hb.2

/-- `cli_build_positional` / `cli_positional` make no assumption on where the offsets start: the SsbScript compiler numbers
ops from 0 (ExplorerScript from 1).  Its output for the SsbScript source
`def 0 { §top; WaitFrames(1); BranchBit($FLAG, 3, @done); Jump(@top); §done; Return(); } def 1 for_actor(3) { Call(@top); Hold(); }`:
the jump and the call to the very first op (offset 0) are printed as position 1. -/
def ssbsSet : RoutineSet :=
  ⟨[⟨.generic, 0, none⟩, ⟨.actor, 3, none⟩],
   [[⟨0, "WaitFrames", [.int 1]⟩, ⟨1, "BranchBit", [.const "$FLAG", .int 3, .int 3]⟩, ⟨2, "Jump", [.int 0]⟩, ⟨3, "Return", []⟩],
    [⟨4, "Call", [.int 0]⟩, ⟨5, "Hold", []⟩]],
   [none, none]⟩

theorem cli_offsets_from_zero_example :
    closedB ssbsSet = true ∧ posOf ssbsSet.offsets 0 = some 1 ∧
    (remap ssbsSet).ops =
      [[⟨0, "WaitFrames", [.int 1]⟩, ⟨1, "BranchBit", [.const "$FLAG", .int 3, .int 4]⟩, ⟨2, "Jump", [.int 1]⟩, ⟨3, "Return", []⟩],
       [⟨4, "Call", [.int 1]⟩, ⟨5, "Hold", []⟩]] := by
  decide +kernel

/-- the position table changes nothing where the jump parameters already are positions -/
theorem cli_conservative (s : J) (c : RoutineSet) (hp : Positional c) : buildJson s c = buildJsonRaw s c := by
  have : remap c = c := by
    obtain ⟨is, os, ns⟩ := c
    unfold remap
    simp only [RoutineSet.mk.injEq, true_and, and_true]
    have mid : ∀ {α : Type} (f : α → α) (l : List α), (∀ x ∈ l, f x = x) → l.map f = l := by
      intro α f l hl
      induction l with
      | nil => rfl
      | cons x xs ih => simp [hl x (by simp), ih (fun y hy => hl y (by simp [hy]))]
    apply mid
    intro r hr
    apply mid
    intro o ho
    exact remapOp_id _ o (hp o (by simp only [RoutineSet.flat, List.mem_flatten]; exact ⟨r, hr, ho⟩))
  unfold buildJson
  rw [this]

/-- every COROUTINE routine finds its name in the decompiler's table (no "Unknown coroutine") -/
theorem cli_coroutines_named (c : RoutineSet) (h : Wf c) : headersOk (canon c) = true := by
  have key : ∀ (is : List RoutineInfo) (ns : List (Option String)) (os : List (List Op)), AllOk is ns os →
      ((is.map normInfo).zip (corosRead is ns)).all (fun p => p.1.kind != .coroutine || p.2.isSome) = true := by
    intro is
    induction is with
    | nil => intro ns os _; rfl
    | cons i is ih =>
      intro ns os h
      cases ns with
      | nil => cases os <;> simp [AllOk] at h
      | cons nm ns =>
        cases os with
        | nil => simp [AllOk] at h
        | cons o os =>
          obtain ⟨h1, _, h3⟩ := h
          have hk : (normInfo i).kind = i.kind := by
            obtain ⟨k, l, nn⟩ := i
            cases k <;> simp [normInfo] <;> split <;> rfl
          simp only [List.map_cons, corosRead, List.zip_cons_cons, List.all_cons, Bool.and_eq_true]
          refine ⟨?_, ih ns os h3⟩
          rw [hk]
          by_cases hc : i.kind = .coroutine
          · have := h1.2 hc
            simp [hc, this]
          · simp [hc]
  exact key (remap c).infos (remap c).coros (remap c).ops (remap_wf c h)

/-! ## why the position table is needed: printing the offsets as they are -/

/-- If the ops are printed as they are (`buildJsonRaw`, the pinned behaviour as far as jumps are concerned) and the jump
parameters are positions, the set read back is a renumbering … -/
theorem cli_raw_positional (s : J) (c : RoutineSet) (hs : settingsShape s = true) (h : Wf c) (hp : Positional c) :
    ∃ j, buildJsonRaw s c = .ok j ∧ readJson j = .ok (renum c) ∧ Renumbering c (renum c) := by
  obtain ⟨j, h1, h2⟩ := readJson_buildJsonRaw s c hs h
  refine ⟨j, h1, h2, (renum_infos_shape c).1, (renum_infos_shape c).2, renum_coros c, ?_⟩
  intro k o hk
  refine ⟨⟨((0 + k + 1 : Nat) : Int), o.name, o.params.map normParam⟩, ?_, rfl, blank_norm _ o, ?_, ?_⟩
  · rw [renum_flat, renumOps_getElem?, hk]; rfl
  · rw [jumpOf_norm]
  · rw [jumpOf_norm, renum_offsets]
    cases hj : jumpOf o with
    | none => rfl
    | some t =>
      have hm : o ∈ c.flat := List.mem_of_getElem? hk
      have ht := hp o hm t hj
      have hb := posOf_bound _ _ _ ht
      rw [offsets_length] at hb
      simp only [Option.bind_some, ht]
      exact posOf_seq_self _ t hb.1 hb.2

/-- … and only then: if the set read back is a renumbering of a closed set, its jump parameters were positions. -/
theorem cli_raw_positional_only (c : RoutineSet) (hc : Closed c) (hr : Renumbering c (renum c)) : Positional c := by
  intro o hm t hj
  obtain ⟨k, hk⟩ := List.getElem?_of_mem hm
  obtain ⟨o', h1, _, _, _, h5⟩ := hr.ops k o hk
  rw [renum_flat, renumOps_getElem?, hk] at h1
  simp only [Option.map_some, Option.some.injEq] at h1
  subst h1
  rw [jumpOf_norm, renum_offsets, hj] at h5
  simp only [Option.bind_some] at h5
  obtain ⟨p, hp⟩ := posOf_of_mem _ _ (hc o hm t hj)
  rw [hp] at h5
  rw [hp, posOf_seq_some _ t p h5]

theorem positional_closed (c : RoutineSet) (h : Positional c) : Closed c :=
  fun o hm t hj => mem_of_posOf _ _ _ (h o hm t hj)

/-- **exactly**: without the position table the round trip of a closed set is a renumbering iff the jump parameters
already are positions — the compiler's offsets are not (gaps after dropped jumps, out-of-order ops: witnesses below) -/
theorem cli_raw_positional_iff (s : J) (c : RoutineSet) (hs : settingsShape s = true) (h : Wf c) (hc : Closed c) :
    Renumbering c (renum c) ↔ Positional c :=
  ⟨cli_raw_positional_only c hc, fun hp => (cli_raw_positional s c hs h hp).choose_spec.2.2⟩

/-! ## the repaired defects: witnesses against the OLD behaviour (`…Pinned`, ESV/Cli/Pinned.lean) -/

/-- the real compiler's output for `def 0 { if ($X == 1) { a(); } b(); }`: the redundant jump over the (absent) else
part had offset 4 and was dropped -/
def gapSet : RoutineSet :=
  ⟨[⟨.generic, 0, none⟩],
   [[⟨1, "Branch", [.const "$X", .int 1, .int 3]⟩, ⟨2, "Jump", [.int 5]⟩, ⟨3, "a", []⟩, ⟨5, "b", []⟩]],
   [none]⟩

def okSettings : J :=
  .obj [("performance_progress_list_var_name", .str "$PERFORMANCE_PROGRESS_LIST"),
        ("dungeon_mode_constants", .obj [("open", .str "DMODE_OPEN"), ("closed", .str "DMODE_CLOSE"),
          ("request", .str "DMODE_REQUEST"), ("open_request", .str "DMODE_OPEN_AND_REQUEST")])]

theorem gapSet_closed : Closed gapSet := by
  intro o ho t ht
  have : closedB gapSet = true := by decide +kernel
  simp only [closedB, List.all_eq_true] at this
  have := this o ho
  rw [ht] at this
  simpa using this

theorem gapSet_wf : Wf gapSet := by
  simp only [Wf, gapSet, AllOk, RoutineOk, OpOk, ParamOk]
  refine ⟨⟨by decide, by decide⟩, ?_, trivial⟩
  intro x hx p hp
  simp only [List.mem_cons, List.not_mem_nil, or_false] at hx
  rcases hx with rfl | rfl | rfl | rfl <;> simp at hp <;> rcases hp with rfl | rfl | rfl <;> trivial

/-- REPAIRED (e79af4f).  The pinned compile command printed the internal offset 5 for the jump to `b()`, which is the 4th
op; the decompile command numbers the ops 1..4, so the jump it read denoted no op at all ("A jump operation went past
EOF"), although the set is closed and well-formed.  The current command prints 4. -/
theorem cli_gap_counterexample :
    Closed gapSet ∧ Wf gapSet ∧ ¬ Positional gapSet ∧
    (buildJsonPinned okSettings gapSet).bind readJsonPinned =
      .ok ⟨[⟨.generic, -1, none⟩],
        [[⟨1, "Branch", [.const "$X", .int 1, .int 3]⟩, ⟨2, "Jump", [.int 5]⟩, ⟨3, "a", []⟩, ⟨4, "b", []⟩]], [none]⟩ ∧
    posOf gapSet.offsets 5 = some 4 ∧ posOf [1, 2, 3, 4] 5 = none ∧
    ¬ Renumbering gapSet (renum gapSet) ∧
    (buildJson okSettings gapSet).bind readJson =
      .ok ⟨[⟨.generic, -1, none⟩],
        [[⟨1, "Branch", [.const "$X", .int 1, .int 3]⟩, ⟨2, "Jump", [.int 4]⟩, ⟨3, "a", []⟩, ⟨4, "b", []⟩]], [none]⟩ := by
  have hnp : ¬ Positional gapSet := by
    intro h
    have := h ⟨2, "Jump", [.int 5]⟩ (by decide +kernel) 5 (by decide +kernel)
    revert this
    decide +kernel
  exact ⟨gapSet_closed, gapSet_wf, hnp, by decide +kernel, by decide +kernel, by decide +kernel,
    fun h => hnp (cli_raw_positional_only gapSet gapSet_closed h), by decide +kernel⟩

/-- a second shape of the same defect: the jump landed on a *different* op (accepted by the decompile command, wrong
program).  Real compiler output for `def 0 { jump @l; @l; jump @m; a(); @m; b(); c(); }`. -/
def gapSet2 : RoutineSet :=
  ⟨[⟨.generic, 0, none⟩], [[⟨2, "Jump", [.int 4]⟩, ⟨3, "a", []⟩, ⟨4, "b", []⟩, ⟨5, "c", []⟩]], [none]⟩

theorem cli_gap_wrong_op_counterexample :
    -- pinned: `Jump [4]` is printed and read; in the compiler's output the jump goes to the 3rd op, `b` …
    (buildJsonPinned okSettings gapSet2).bind readJsonPinned =
      .ok ⟨[⟨.generic, -1, none⟩], [[⟨1, "Jump", [.int 4]⟩, ⟨2, "a", []⟩, ⟨3, "b", []⟩, ⟨4, "c", []⟩]], [none]⟩ ∧
    posOf gapSet2.offsets 4 = some 3 ∧ gapSet2.flat[2]? = some ⟨4, "b", []⟩ ∧
    -- … in what the decompile command read it went to the 4th op, `c`
    posOf [1, 2, 3, 4] 4 = some 4 ∧
    -- repaired: `Jump [3]`
    (buildJson okSettings gapSet2).bind readJson =
      .ok ⟨[⟨.generic, -1, none⟩], [[⟨1, "Jump", [.int 3]⟩, ⟨2, "a", []⟩, ⟨3, "b", []⟩, ⟨4, "c", []⟩]], [none]⟩ := by
  decide +kernel

/-- a third shape: no op was dropped, but the jump over the default part of a switch is numbered after the bodies and
stands before them (offsets 1, 2, 5, 3, 4, 6).  Real compiler output for
`def 0 { switch ($X) { case 1: a(); default: b(); } c(); }`. -/
def oooSet : RoutineSet :=
  ⟨[⟨.generic, 0, none⟩],
   [[⟨1, "Switch", [.const "$X"]⟩, ⟨2, "Case", [.int 1, .int 3]⟩, ⟨5, "Jump", [.int 4]⟩, ⟨3, "a", []⟩, ⟨4, "b", []⟩,
     ⟨6, "c", []⟩]], [none]⟩

theorem cli_out_of_order_counterexample :
    closedB oooSet = true ∧ positionalB oooSet = false ∧
    (buildJsonPinned okSettings oooSet).bind readJsonPinned =
      .ok ⟨[⟨.generic, -1, none⟩],
        [[⟨1, "Switch", [.const "$X"]⟩, ⟨2, "Case", [.int 1, .int 3]⟩, ⟨3, "Jump", [.int 4]⟩, ⟨4, "a", []⟩, ⟨5, "b", []⟩,
          ⟨6, "c", []⟩]], [none]⟩ ∧
    -- compiled: the jump (taken when no case matches) goes to the 5th op, `b`; read back by the pinned pair: the 4th, `a`
    posOf oooSet.offsets 4 = some 5 ∧ oooSet.flat[4]? = some ⟨4, "b", []⟩ ∧ posOf [1, 2, 3, 4, 5, 6] 4 = some 4 ∧
    -- repaired: Case → 4 (`a`), Jump → 5 (`b`)
    (buildJson okSettings oooSet).bind readJson =
      .ok ⟨[⟨.generic, -1, none⟩],
        [[⟨1, "Switch", [.const "$X"]⟩, ⟨2, "Case", [.int 1, .int 4]⟩, ⟨3, "Jump", [.int 5]⟩, ⟨4, "a", []⟩, ⟨5, "b", []⟩,
          ⟨6, "c", []⟩]], [none]⟩ := by
  decide +kernel

/-- the real compiler's output for `coro FOO { a(); }` -/
def coroSet : RoutineSet := ⟨[⟨.coroutine, 0, none⟩], [[⟨1, "a", []⟩]], [some "FOO"]⟩

/-- REPAIRED (463a62a).  The pinned decompile command registered every coroutine under id −1 (`SsbCoroutine(-1, name)`):
routine 0 had no name in the decompiler's id → name table, so every documented COROUTINE routine was refused ("Unknown
coroutine").  The current command registers it under the routine index (general statement: `cli_coroutines_named`). -/
theorem cli_coroutine_counterexample :
    (buildJsonPinned okSettings coroSet).bind readJsonPinned = .ok ⟨[⟨.coroutine, -1, none⟩], [[⟨1, "a", []⟩]], [none]⟩ ∧
    ((buildJsonPinned okSettings coroSet).bind readJsonPinned).map headersOk = .ok false ∧
    (buildJsonPinned okSettings coroSet).map DocShape = .ok true ∧
    (buildJson okSettings coroSet).bind readJson = .ok ⟨[⟨.coroutine, -1, none⟩], [[⟨1, "a", []⟩]], [some "FOO"]⟩ ∧
    ((buildJson okSettings coroSet).bind readJson).map headersOk = .ok true := by
  decide +kernel

/-- REPAIRED (61b451d).  The documentation's own example of a position mark, `{"name": "Name of the mark", "x": 10,
"y": 20}`, has the documented structure and was refused by the pinned decompile command (`'int' object has no attribute
'split'`); the current one reads it (general statement: `cli_accepts_documented`). -/
theorem cli_posmark_int_counterexample :
    let doc : J := .obj [("settings", okSettings), ("routines", .arr [.obj [("type", .str "GENERIC"), ("ops", .arr [
      .obj [("opcode", .str "a"), ("params", .arr [.obj [("type", .str "POSITION_MARK"),
        ("value", .obj [("name", .str "Name of the mark"), ("x", .int 10), ("y", .int 20)])]])]])]])]
    DocShape doc = true ∧ readJsonPinned doc = .error .attributeError ∧
    readJson doc = .ok ⟨[⟨.generic, -1, none⟩], [[⟨1, "a", [.posMark "Name of the mark" 0 0 10 20]⟩]], [none]⟩ := by
  decide +kernel

/-! ## non-vacuity -/

/-- four routines of four kinds, all six parameter classes, jumps across routines, positional -/
def exSet : RoutineSet :=
  { infos := [⟨.generic, 0, none⟩, ⟨.actor, 5, none⟩, ⟨.object, -1, some "OBJ_X"⟩, ⟨.coroutine, 0, none⟩],
    coros := [none, none, none, some "CORO_A"],
    ops := [[⟨1, "Jump", [.int 3]⟩,
             ⟨2, "foo", [.int 1, .const "C", .constString "hi", .fixed "1.25", .langString [("english", "x"), ("german", "y")],
                          .posMark "m" 0 2 7 9]⟩],
            [],
            [⟨3, "Branch", [.int 1, .int 2, .int 1]⟩, ⟨7, "Return", []⟩],
            [⟨5, "Call", [.int 5]⟩, ⟨9, "lives", [.int 3]⟩]] }

example : settingsShape okSettings = true := by decide +kernel
example : positionalB exSet = true ∧ closedB exSet = true := by decide +kernel
example : (buildJson okSettings exSet).map DocShape = .ok true := by decide +kernel
example : (buildJson okSettings exSet).map DocShapeStr = .ok true := by decide +kernel
example : (buildJson okSettings exSet).bind readJson = .ok (renum exSet) := by decide +kernel
example : canon exSet = renum exSet ∧ (renum exSet).coros = [none, none, none, some "CORO_A"] := by decide +kernel
example : (renum exSet).ops =
    [[⟨1, "Jump", [.int 3]⟩,
      ⟨2, "foo", [.int 1, .const "C", .constString "hi", .fixed "1.25", .langString [("english", "x"), ("german", "y")],
                   .posMark "m" 0 2 7 9]⟩],
     [],
     [⟨3, "Branch", [.int 1, .int 2, .int 1]⟩, ⟨4, "Return", []⟩],
     [⟨5, "Call", [.int 5]⟩, ⟨6, "lives", [.int 3]⟩]] := by decide +kernel
/-- the same flow with the compiler's gappy offsets: not positional; the compile command prints the positional form -/
def exGappy : RoutineSet :=
  { exSet with ops := [[⟨10, "Jump", [.int 30]⟩,
                        ⟨12, "foo", [.int 1, .const "C", .constString "hi", .fixed "1.25",
                                     .langString [("english", "x"), ("german", "y")], .posMark "m" 0 2 7 9]⟩],
                       [], [⟨30, "Branch", [.int 1, .int 2, .int 10]⟩, ⟨33, "Return", []⟩],
                       [⟨40, "Call", [.int 40]⟩, ⟨41, "lives", [.int 3]⟩]] }
example : positionalB exGappy = false ∧ closedB exGappy = true := by decide +kernel
example : (buildJson okSettings exGappy).bind readJson = .ok (renum exSet) := by decide +kernel

end ESV.C15
