/-
Model of `MacroResolutionOrderVisitor` (explorerscript/ssb_converting/compiler/compiler_visitor/macro_resolution_order.py,
as repaired by /repo commit 0989cb8 "macros are resolved in a topological order of their calls") and of the use
`MacroVisitor.visitStart` makes of its result (macro_visitor.py), on an abstract input:

  * `imported` — the keys of `in_macros` (macros of the imported files) in dict order,
  * `defs`     — the macro definitions of the file in definition order, each with the names of the macros its body
                 calls, in call order (parse-tree order of the `macro_call` nodes).

What igraph does is modelled as far as the visitor uses it (compared with the real code on every run by the
correspondence channel of harness/props/c05.py):

  * a vertex per distinct name in creation order = order of first mention (vertex id = position in `vs`), an edge
    callee → caller per distinct pair (`are_adjacent` prevents multi-edges);
  * `v.in_edges()` = the edges whose target is `v`;
  * `get_all_simple_paths(a, b)` is non-empty iff `a ≠ b` and `b` is reachable from `a`.

The ordering loop of `visitStart`, statement by statement:

    names = [v["name"] for v in g.vs]                                   `g.vs`
    callees = {v: {source names of v.in_edges()}}                       `g.preds v` (as a set: only membership is used)
    resolution_order = []                                               `out`
    while len(names) > 0:                                               `orderLoop`
        next_name = next(n for n in names if callees[n].issubset(resolution_order))      `names.find? …`, `none` = StopIteration
        resolution_order.append(next_name)                              `out ++ [n]`
        names.remove(next_name)                                         `names.erase n`

The algorithm of the pinned tree (one BFS per root, remove-then-append merge) is kept in ESV/Macro/Pinned.lean.

Core Lean only; names are an arbitrary type with decidable equality (`String` in the driver, `Nat` in the kernel-evaluated
witnesses).
-/
namespace ESV.Macro

/-- (named, so that it cannot clash with the instances other modules derive) -/
instance decEqExcept {ε β : Type} [DecidableEq ε] [DecidableEq β] : DecidableEq (Except ε β)
  | .ok a, .ok b => if h : a = b then isTrue (by rw [h]) else isFalse (fun e => h (by cases e; rfl))
  | .error a, .error b => if h : a = b then isTrue (by rw [h]) else isFalse (fun e => h (by cases e; rfl))
  | .ok _, .error _ => isFalse (fun e => by cases e)
  | .error _, .ok _ => isFalse (fun e => by cases e)

variable {α : Type} [DecidableEq α]

/-- abstract input of the visitor -/
structure Input (α : Type) where
  imported : List α
  defs : List (α × List α)

/-- the dependency graph: `vs` in creation order; `es` = (source, target) = (callee, caller) in creation order -/
structure Graph (α : Type) where
  vs : List α
  es : List (α × α)

namespace Graph

/-- `_create_vertex` -/
def createVertex (g : Graph α) (n : α) : Graph α :=
  if n ∈ g.vs then g else { g with vs := g.vs ++ [n] }

/-- `visitMacro_call` with `_active_macro_name = active` -/
def addCall (active : α) (g : Graph α) (callee : α) : Graph α :=
  let g1 := g.createVertex callee
  if (callee, active) ∈ g1.es then g1 else { g1 with es := g1.es ++ [(callee, active)] }

/-- `visitMacrodef` -/
def addDef (g : Graph α) (d : α × List α) : Graph α :=
  d.2.foldl (addCall d.1) (g.createVertex d.1)

/-- successors of `v` (targets of its out-edges) in vertex-id order -/
def nbrs (g : Graph α) (v : α) : List α := g.vs.filter (fun w => (v, w) ∈ g.es)

/-- least set containing `S` closed under successors (`fuel` rounds at most; `vs.length` rounds suffice) -/
def sat (g : Graph α) : Nat → List α → List α
  | 0, S => S
  | f + 1, S =>
    let new := g.vs.filter (fun w => w ∉ S ∧ ∃ v ∈ S, (v, w) ∈ g.es)
    if new = [] then S else g.sat f (S ++ new)

/-- `b` is reachable from `a` by a possibly empty path -/
def reach (g : Graph α) (a b : α) : Bool := b ∈ g.sat g.vs.length [a]

/-- `_has_path`: `len(get_all_simple_paths(a, b)) > 0` -/
def hasPath (g : Graph α) (a b : α) : Bool := a ≠ b && g.reach a b

/-- `_check_cycles`: the first vertex (in id order) for which the check raises -/
def checkCycles (g : Graph α) : Option α :=
  g.vs.find? (fun v => (g.nbrs v).any (fun t => g.hasPath t v) || (g.nbrs v).any (fun t => t = v))

/-- `callees[v]`: the sources of the in-edges of `v` = the macros `v` calls -/
def preds (g : Graph α) (v : α) : List α := g.vs.filter (fun u => (u, v) ∈ g.es)

/-- the `while len(names) > 0` loop; `none` = `StopIteration` out of `next(…)`.  Every round removes one name, so
`names.length` rounds of fuel suffice (`orderLoop` is started with exactly that; the second clause is never reached) -/
def orderLoop (g : Graph α) : Nat → List α → List α → Option (List α)
  | _, out, [] => some out
  | 0, _, _ :: _ => none
  | f + 1, out, names =>
    match names.find? (fun n => (g.preds n).all (fun u => u ∈ out)) with
    | none => none
    | some n => g.orderLoop f (out ++ [n]) (names.erase n)

/-- the part of `visitStart` after `_check_cycles()` -/
def resolutionOrder (g : Graph α) : Option (List α) := g.orderLoop g.vs.length [] g.vs

end Graph

/-- `__init__` + `visitChildren` -/
def build (inp : Input α) : Graph α :=
  inp.defs.foldl Graph.addDef (inp.imported.foldl Graph.createVertex ⟨[], []⟩)

inductive VisitErr (α : Type) where
  | cycle (v : α)       -- SsbCompilerError "Dependency cycle detected … (for macro 'v')"
  | stopIteration       -- `next(…)` found no macro whose callees are all resolved (never happens: `visit_never_stops`)
  deriving DecidableEq, Repr

/-- `MacroResolutionOrderVisitor.visitStart` -/
def visitStart (inp : Input α) : Except (VisitErr α) (List α) :=
  let g := build inp
  match g.checkCycles with
  | some v => .error (.cycle v)
  | none =>
    match g.resolutionOrder with
    | some l => .ok l
    | none => .error .stopIteration

/-! ### `MacroVisitor.visitStart` -/

inductive CompileErr (α : Type) where
  | cycle (v : α)          -- SsbCompilerError from `_check_cycles`
  | stopIteration          -- see `VisitErr`
  | valueError (n : α)     -- `list.index`: a defined macro is not in the resolution order
  | notFound (n : α)       -- SsbCompilerError "Macro n not found." from MacroCallCompileHandler.collect
  deriving DecidableEq, Repr

/-- `sorted(handlers, key=order.index(name))`: stable; the keys of different names differ because `order` has no
duplicates, so the result is: for every name of `order` in turn, the definitions with that name in definition order -/
def sortDefs (order : List α) (defs : List (α × List α)) : Except (CompileErr α) (List (α × List α)) :=
  match defs.find? (fun d => d.1 ∉ order) with
  | some d => .error (.valueError d.1)
  | none => .ok (order.flatMap (fun n => defs.filter (fun d => d.1 = n)))

/-- compile the macros in the given order: every callee must already be known (`compiler_ctx.macros`) -/
def compileLoop : List α → List (α × List α) → Except (CompileErr α) (List α)
  | known, [] => .ok known
  | known, d :: rest =>
    match d.2.find? (fun c => c ∉ known) with
    | some c => .error (.notFound c)
    | none => compileLoop (known ++ [d.1]) rest

/-- the definition at which `compileLoop` fails and ALL its callees that are unknown at that moment (the handlers of a
body are collected block-wise, so the real error may name any of them; `compileLoop` names the first in call order) -/
def firstFailure : List α → List (α × List α) → Option (α × List α)
  | _, [] => none
  | known, d :: rest =>
    match d.2.filter (fun c => c ∉ known) with
    | [] => firstFailure (known ++ [d.1]) rest
    | cs => some (d.1, cs)

/-- sort + compile with a given resolution order -/
def compileWith (inp : Input α) (order : List α) : Except (CompileErr α) (List α) :=
  match sortDefs order inp.defs with
  | .error e => .error e
  | .ok sorted => compileLoop inp.imported sorted

/-- what `ExplorerScriptSsbCompiler.compile` does with the macros of one file, as far as ordering is concerned;
`ok l` = the names in `compiler_ctx.macros` afterwards -/
def compileMacros (inp : Input α) : Except (CompileErr α) (List α) :=
  match visitStart inp with
  | .error (.cycle v) => .error (.cycle v)
  | .error .stopIteration => .error .stopIteration
  | .ok order => compileWith inp order

end ESV.Macro
