/-
Model of `MacroResolutionOrderVisitor` (explorerscript/ssb_converting/compiler/compiler_visitor/macro_resolution_order.py)
and of the use `MacroVisitor.visitStart` makes of its result (macro_visitor.py), on an abstract input:

  * `imported` — the keys of `in_macros` (macros of the imported files) in dict order,
  * `defs`     — the macro definitions of the file in definition order, each with the names of the macros its body
                 calls, in call order (parse-tree order of the `macro_call` nodes).

What igraph does is modelled as far as the visitor uses it (checked against the real igraph on every run by the
correspondence channel of harness/props/c05.py):

  * a vertex per distinct name in creation order (vertex id = position in `vs`), an edge callee → caller per distinct
    pair in creation order (`are_adjacent` prevents multi-edges);
  * `bfsiter(v)`: mode OUT, a vertex is marked when it is put into the queue, the out-neighbours of a vertex are
    visited in the order of their *vertex ids* (igraph's adjacency index is sorted by (from, to); measured against
    igraph 0.11.6 on 12 000 random graphs — NOT edge-creation order);
  * `get_all_simple_paths(a, b)` is non-empty iff `a ≠ b` and `b` is reachable from `a`.

Core Lean only; names are an arbitrary type with decidable equality (`String` in the driver, `Nat` in the kernel-evaluated
witnesses).
-/
namespace ESV.Macro

/-- (named, so that it cannot clash with the instances other modules derive) -/
instance decEqExcept {ε β : Type} [DecidableEq ε] [DecidableEq β] : DecidableEq (Except ε β)
  | .ok a, .ok b => if h : a = b then isTrue (by rw [h]) else isFalse (fun e => h (by cases e; rfl))
  | .error a, .error b => if h : a = b then isTrue (by rw [h]) else isFalse (fun e => h (by cases e; rfl))
  | .ok _, .error _ => isFalse (fun e => by cases e)
  | .error _, .ok _ => isFalse (fun e => by cases e)

variable {α : Type} [DecidableEq α]

/-- abstract input of the visitor -/
structure Input (α : Type) where
  imported : List α
  defs : List (α × List α)

/-- the dependency graph: `vs` in creation order; `es` = (source, target) = (callee, caller) in creation order -/
structure Graph (α : Type) where
  vs : List α
  es : List (α × α)

namespace Graph

/-- `_create_vertex` -/
def createVertex (g : Graph α) (n : α) : Graph α :=
  if n ∈ g.vs then g else { g with vs := g.vs ++ [n] }

/-- `visitMacro_call` with `_active_macro_name = active` -/
def addCall (active : α) (g : Graph α) (callee : α) : Graph α :=
  let g1 := g.createVertex callee
  if (callee, active) ∈ g1.es then g1 else { g1 with es := g1.es ++ [(callee, active)] }

/-- `visitMacrodef` -/
def addDef (g : Graph α) (d : α × List α) : Graph α :=
  d.2.foldl (addCall d.1) (g.createVertex d.1)

/-- successors of `v` (targets of its out-edges) in vertex-id order -/
def nbrs (g : Graph α) (v : α) : List α := g.vs.filter (fun w => (v, w) ∈ g.es)

/-- least set containing `S` closed under successors (`fuel` rounds at most; `vs.length` rounds suffice) -/
def sat (g : Graph α) : Nat → List α → List α
  | 0, S => S
  | f + 1, S =>
    let new := g.vs.filter (fun w => w ∉ S ∧ ∃ v ∈ S, (v, w) ∈ g.es)
    if new = [] then S else g.sat f (S ++ new)

/-- `b` is reachable from `a` by a possibly empty path -/
def reach (g : Graph α) (a b : α) : Bool := b ∈ g.sat g.vs.length [a]

/-- `_has_path`: `len(get_all_simple_paths(a, b)) > 0` -/
def hasPath (g : Graph α) (a b : α) : Bool := a ≠ b && g.reach a b

/-- `_check_cycles`: the first vertex (in id order) for which the check raises -/
def checkCycles (g : Graph α) : Option α :=
  g.vs.find? (fun v => (g.nbrs v).any (fun t => g.hasPath t v) || (g.nbrs v).any (fun t => t = v))

/-- `[v for v in vs if len(v.in_edges()) == 0]` -/
def roots (g : Graph α) : List α := g.vs.filter (fun v => g.es.all (fun e => e.2 ≠ v))

/-- `bfsiter`: `done` = vertices already yielded, `queue` = marked and waiting -/
def bfsLoop (g : Graph α) : Nat → List α → List α → List α
  | 0, done, queue => done ++ queue
  | _ + 1, done, [] => done
  | f + 1, done, v :: q =>
    let new := (g.nbrs v).filter (fun w => w ∉ done ++ v :: q)
    g.bfsLoop f (done ++ [v]) (q ++ new)

def bfs (g : Graph α) (r : α) : List α := g.bfsLoop g.vs.length [] [r]

/-- the inner `for sv in bfsiter(root)`: `if sv in order: order.remove(sv)` -/
def eraseAll (order loc : List α) : List α :=
  loc.foldl (fun o sv => if sv ∈ o then o.erase sv else o) order

/-- one iteration of `for v in roots` -/
def mergeRoot (g : Graph α) (order : List α) (r : α) : List α :=
  let loc := g.bfs r
  eraseAll order loc ++ loc

def resolutionOrder (g : Graph α) : List α := g.roots.foldl g.mergeRoot []

end Graph

/-- `__init__` + `visitChildren` -/
def build (inp : Input α) : Graph α :=
  inp.defs.foldl Graph.addDef (inp.imported.foldl Graph.createVertex ⟨[], []⟩)

/-- `MacroResolutionOrderVisitor.visitStart`: `error v` = SsbCompilerError "Dependency cycle detected … (for macro 'v')" -/
def visitStart (inp : Input α) : Except α (List α) :=
  let g := build inp
  match g.checkCycles with
  | some v => .error v
  | none => .ok g.resolutionOrder

/-! ### `MacroVisitor.visitStart` -/

inductive CompileErr (α : Type) where
  | cycle (v : α)          -- SsbCompilerError from `_check_cycles`
  | valueError (n : α)     -- `list.index`: a defined macro is not in the resolution order
  | notFound (n : α)       -- SsbCompilerError "Macro n not found." from MacroCallCompileHandler.collect
  deriving DecidableEq, Repr

/-- `sorted(handlers, key=order.index(name))`: stable; the keys of different names differ because `order` has no
duplicates, so the result is: for every name of `order` in turn, the definitions with that name in definition order -/
def sortDefs (order : List α) (defs : List (α × List α)) : Except (CompileErr α) (List (α × List α)) :=
  match defs.find? (fun d => d.1 ∉ order) with
  | some d => .error (.valueError d.1)
  | none => .ok (order.flatMap (fun n => defs.filter (fun d => d.1 = n)))

/-- compile the macros in the given order: every callee must already be known (`compiler_ctx.macros`) -/
def compileLoop : List α → List (α × List α) → Except (CompileErr α) (List α)
  | known, [] => .ok known
  | known, d :: rest =>
    match d.2.find? (fun c => c ∉ known) with
    | some c => .error (.notFound c)
    | none => compileLoop (known ++ [d.1]) rest

/-- the definition at which `compileLoop` fails and ALL its callees that are unknown at that moment (the handlers of a
body are collected block-wise, so the real error may name any of them; `compileLoop` names the first in call order) -/
def firstFailure : List α → List (α × List α) → Option (α × List α)
  | _, [] => none
  | known, d :: rest =>
    match d.2.filter (fun c => c ∉ known) with
    | [] => firstFailure (known ++ [d.1]) rest
    | cs => some (d.1, cs)

/-- what `ExplorerScriptSsbCompiler.compile` does with the macros of one file, as far as ordering is concerned;
`ok l` = the names in `compiler_ctx.macros` afterwards -/
def compileMacros (inp : Input α) : Except (CompileErr α) (List α) :=
  match visitStart inp with
  | .error v => .error (.cycle v)
  | .ok order =>
    match sortDefs order inp.defs with
    | .error e => .error e
    | .ok sorted => compileLoop inp.imported sorted

/-! ### decidable guard of `order_topological_partial` -/

/-- BFS layers: `layers g f seen cur` = the successive frontiers -/
def Graph.layers (g : Graph α) : Nat → List α → List α → List (List α)
  | 0, _, _ => []
  | f + 1, seen, cur =>
    if cur = [] then [] else
      let nxt := g.vs.filter (fun w => w ∉ seen ∧ ∃ v ∈ cur, (v, w) ∈ g.es)
      cur :: g.layers f (seen ++ nxt) nxt

/-- number of the layer (distance from the root) of `x`; `0` for vertices that are not reached -/
def levelIn : List (List α) → α → Nat
  | [], _ => 0
  | l :: rest, x => if x ∈ l then 0 else levelIn rest x + 1

def Graph.level (g : Graph α) (r : α) : α → Nat := levelIn (g.layers (g.vs.length + 1) [r] [r])

/-- every edge leaving a vertex that the search from root `r` reaches goes up exactly one level of `r`:
all call chains between a macro and a leaf macro `r` have the same length -/
def Graph.gradedFrom (g : Graph α) (r : α) : Bool :=
  g.es.all (fun e => e.1 ∈ g.bfs r → g.level r e.2 = g.level r e.1 + 1)

def Graph.graded (g : Graph α) : Bool := g.roots.all g.gradedFrom

def guard (inp : Input α) : Bool := (build inp).graded

/-! ### a correct ordering (backs the proposed repair) -/

/-- callees of `v` in the graph = sources of its in-edges -/
def Graph.preds (g : Graph α) (v : α) : List α := g.vs.filter (fun u => (u, v) ∈ g.es)

/-- repeatedly emit the first vertex all of whose predecessors have been emitted (stable Kahn) -/
def Graph.topoLoop (g : Graph α) : Nat → List α → List α → Option (List α)
  | _, out, [] => some out
  | 0, _, _ :: _ => none
  | f + 1, out, rem =>
    match rem.find? (fun v => (g.preds v).all (fun u => u ∈ out)) with
    | none => none
    | some v => g.topoLoop f (out ++ [v]) (rem.erase v)

def Graph.topoOrder (g : Graph α) : Option (List α) := g.topoLoop g.vs.length [] g.vs

def topoOrder (inp : Input α) : Option (List α) := (build inp).topoOrder

end ESV.Macro
