import ESV.Macro.Order
/-
`MacroResolutionOrderVisitor.visitStart` AS IT WAS on the pinned tree (commit c8fefe7), before the `fix:` commit
  0989cb8  macros are resolved in a topological order of their calls
Definitions only (suffix `Pinned`): the OLD ordering (one `bfsiter` per root, remove-then-append merge), against which the
`_counterexample` theorems of ESV/Props/C05.lean witness the repaired defect.  The model of the current code is
ESV/Macro/Order.lean.

igraph as the old code used it: `bfsiter(v)` = mode OUT, a vertex is marked when it is put into the queue, the out-neighbours
of a vertex are visited in the order of their *vertex ids* (measured against igraph 0.11.6 on 12 000 random graphs; NOT
edge-creation order).  While the old code was in /repo this model was compared with it on every run (94 000 files in the
thorough tier, no difference).
-/
namespace ESV.Macro

variable {α : Type} [DecidableEq α]

namespace Graph

/-- `[v for v in vs if len(v.in_edges()) == 0]` -/
def rootsPinned (g : Graph α) : List α := g.vs.filter (fun v => g.es.all (fun e => e.2 ≠ v))

/-- `bfsiter`: `done` = vertices already yielded, `queue` = marked and waiting -/
def bfsLoopPinned (g : Graph α) : Nat → List α → List α → List α
  | 0, done, queue => done ++ queue
  | _ + 1, done, [] => done
  | f + 1, done, v :: q =>
    let new := (g.nbrs v).filter (fun w => w ∉ done ++ v :: q)
    g.bfsLoopPinned f (done ++ [v]) (q ++ new)

def bfsPinned (g : Graph α) (r : α) : List α := g.bfsLoopPinned g.vs.length [] [r]

/-- the inner `for sv in bfsiter(root)`: `if sv in order: order.remove(sv)` -/
def eraseAllPinned (order loc : List α) : List α :=
  loc.foldl (fun o sv => if sv ∈ o then o.erase sv else o) order

/-- one iteration of `for v in roots` -/
def mergeRootPinned (g : Graph α) (order : List α) (r : α) : List α :=
  let loc := g.bfsPinned r
  eraseAllPinned order loc ++ loc

def resolutionOrderPinned (g : Graph α) : List α := g.rootsPinned.foldl g.mergeRootPinned []

end Graph

/-- the old `visitStart`: `error v` = SsbCompilerError "Dependency cycle detected …" -/
def visitStartPinned (inp : Input α) : Except α (List α) :=
  let g := build inp
  match g.checkCycles with
  | some v => .error v
  | none => .ok g.resolutionOrderPinned

/-- the old compiler on the macros of one file, as far as ordering is concerned -/
def compileMacrosPinned (inp : Input α) : Except (CompileErr α) (List α) :=
  match visitStartPinned inp with
  | .error v => .error (.cycle v)
  | .ok order => compileWith inp order

end ESV.Macro
