import ESV.Macro.OrderLemmas
/-
Theorems about `visitStart` / `compileMacros` (the repaired ordering loop) on the abstract input (ESV/Macro/Order.lean).
-/
namespace ESV.Macro

set_option linter.unusedSectionVars false
open scoped List

variable {α : Type} [DecidableEq α]

/-- `l` lists every callee before each of its callers -/
def Topological (inp : Input α) (l : List α) : Prop := ∀ callee caller, Calls inp callee caller → [callee, caller] <+ l

/-- the names the visitor knows: imported macros, defined macros, called macros -/
def Mentioned (inp : Input α) (x : α) : Prop := x ∈ inp.imported ∨ ∃ d ∈ inp.defs, x = d.1 ∨ x ∈ d.2

/-! ### the ordering loop -/

namespace Graph

theorem mem_preds {g : Graph α} (wf : g.WF) {u v : α} : u ∈ g.preds v ↔ g.E u v := by
  simp only [preds, List.mem_filter, decide_eq_true_eq, E]
  exact ⟨fun h => h.2, fun h => ⟨wf.src _ _ h, h⟩⟩

theorem orderLoop_sound {g : Graph α} (wf : g.WF) : ∀ (f : Nat) (out rem l : List α), (out ++ rem).Nodup →
    (∀ v ∈ out, ∀ u, g.E u v → [u, v] <+ out) → g.orderLoop f out rem = some l →
    l ~ out ++ rem ∧ ∀ v ∈ l, ∀ u, g.E u v → [u, v] <+ l := by
  intro f
  induction f with
  | zero =>
    intro out rem l hnd hinv h
    cases rem with
    | nil =>
      simp only [orderLoop, Option.some.injEq] at h
      subst h
      exact ⟨by simp, hinv⟩
    | cons x xs => simp [orderLoop] at h
  | succ f ih =>
    intro out rem l hnd hinv h
    cases rem with
    | nil =>
      simp only [orderLoop, Option.some.injEq] at h
      subst h
      exact ⟨by simp, hinv⟩
    | cons x xs =>
      simp only [orderLoop] at h
      split at h
      · cases h
      · rename_i v hf
        have hv : v ∈ x :: xs := List.mem_of_find?_eq_some hf
        have hready := List.find?_some hf
        simp only [List.all_eq_true, decide_eq_true_eq] at hready
        have hperm : (out ++ [v]) ++ (x :: xs).erase v ~ out ++ x :: xs := by
          have := (List.perm_cons_erase hv).symm
          simpa using List.Perm.append_left out this
        have hvout : v ∉ out := by
          intro hvo
          have := List.nodup_append.mp hnd
          exact this.2.2 v hvo v hv rfl
        obtain ⟨h1, h2⟩ := ih (out ++ [v]) ((x :: xs).erase v) l (hperm.symm.nodup hnd) (by
          intro w hw u huw
          cases List.mem_append.mp hw with
          | inl hwo => exact (hinv w hwo u huw).trans (List.sublist_append_left _ _)
          | inr hwv =>
            have : w = v := by simpa using hwv
            subst this
            have huo : u ∈ out := hready u ((mem_preds wf).mpr huw)
            exact List.Sublist.append (List.singleton_sublist.mpr huo) (List.Sublist.refl [w])) h
        exact ⟨h1.trans hperm, h2⟩

theorem orderLoop_complete {g : Graph α} (wf : g.WF) (ac : g.Acyclic) : ∀ (f : Nat) (out rem : List α), rem ⊆ g.vs →
    rem.length ≤ f → (∀ x ∈ g.vs, x ∈ out ∨ x ∈ rem) → ∃ l, g.orderLoop f out rem = some l := by
  intro f
  induction f with
  | zero =>
    intro out rem _ hlen _
    have : rem = [] := List.eq_nil_of_length_eq_zero (by omega)
    subst this
    exact ⟨out, by simp [orderLoop]⟩
  | succ f ih =>
    intro out rem hsub hlen hcov
    cases rem with
    | nil => exact ⟨out, by simp [orderLoop]⟩
    | cons x xs =>
      simp only [orderLoop]
      obtain ⟨m, hm, hmin⟩ := exists_minimal ac (x :: xs) hsub (by simp)
      have hex : ((x :: xs).find? (fun v => (g.preds v).all (fun u => u ∈ out))).isSome := by
        rw [List.find?_isSome]
        refine ⟨m, hm, ?_⟩
        simp only [List.all_eq_true, decide_eq_true_eq]
        intro u hu
        have hum := (mem_preds wf).mp hu
        cases hcov u (wf.src _ _ hum) with
        | inl h => exact h
        | inr h => exact absurd h (hmin u hum)
      cases hf : (x :: xs).find? (fun v => (g.preds v).all (fun u => u ∈ out)) with
      | none => rw [hf] at hex; cases hex
      | some v =>
        simp only []
        have hv : v ∈ x :: xs := List.mem_of_find?_eq_some hf
        apply ih
        · exact fun y hy => hsub (List.mem_of_mem_erase hy)
        · rw [List.length_erase_of_mem hv]
          simp only [List.length_cons] at hlen ⊢
          omega
        · intro y hy
          cases hcov y hy with
          | inl h => exact .inl (List.mem_append_left _ h)
          | inr h =>
            by_cases hyv : y = v
            · exact .inl (by simp [hyv])
            · exact .inr ((List.mem_erase_of_ne hyv).mpr h)

end Graph

theorem visitStart_eq (inp : Input α) :
    visitStart inp = match (build inp).checkCycles with
      | some v => .error (.cycle v)
      | none => match (build inp).resolutionOrder with
        | some l => .ok l
        | none => .error .stopIteration := rfl

/-- the cycle check rejects exactly the inputs whose macros call each other in a circle -/
theorem cycle_detected_iff (inp : Input α) : (∃ v, visitStart inp = .error (.cycle v)) ↔ ¬ Acyclic inp := by
  have wf := (build_spec inp).1
  rw [← build_acyclic_iff, ← Graph.checkCycles_none_iff wf, visitStart_eq]
  cases h : (build inp).checkCycles with
  | none =>
    cases (build inp).resolutionOrder <;> simp
  | some v => simp

/-- for an acyclic input the loop finds a next macro in every round -/
theorem resolutionOrder_complete (inp : Input α) (ac : Acyclic inp) : ∃ l, (build inp).resolutionOrder = some l := by
  obtain ⟨wf, _, _⟩ := build_spec inp
  exact Graph.orderLoop_complete wf ((build_acyclic_iff inp).mpr ac) _ [] _ (fun _ h => h) (Nat.le_refl _) (fun x hx => .inr hx)

/-- `next(…)` never raises `StopIteration`: after `_check_cycles()` some macro always has all its callees resolved -/
theorem visit_never_stops (inp : Input α) : visitStart inp ≠ .error .stopIteration := by
  have wf := (build_spec inp).1
  rw [visitStart_eq]
  cases h : (build inp).checkCycles with
  | some v => simp
  | none =>
    have ac : Acyclic inp := (build_acyclic_iff inp).mp ((Graph.checkCycles_none_iff wf).mp h)
    obtain ⟨l, hl⟩ := resolutionOrder_complete inp ac
    simp [hl]

/-- every acyclic input gets a resolution order, and only acyclic inputs do -/
theorem visitStart_ok_iff (inp : Input α) : (∃ l, visitStart inp = .ok l) ↔ Acyclic inp := by
  have wf := (build_spec inp).1
  constructor
  · rintro ⟨l, hl⟩
    rw [visitStart_eq] at hl
    cases h : (build inp).checkCycles with
    | some v => rw [h] at hl; cases hl
    | none => exact (build_acyclic_iff inp).mp ((Graph.checkCycles_none_iff wf).mp h)
  · intro ac
    have h := (Graph.checkCycles_none_iff wf).mpr ((build_acyclic_iff inp).mpr ac)
    obtain ⟨l, hl⟩ := resolutionOrder_complete inp ac
    exact ⟨l, by rw [visitStart_eq, h, hl]⟩

/-- the resolution order has no duplicates, consists exactly of the mentioned names and lists every callee before its callers -/
theorem order_spec {inp : Input α} {l : List α} (h : visitStart inp = .ok l) :
    l.Nodup ∧ (∀ x, x ∈ l ↔ Mentioned inp x) ∧ Topological inp l := by
  obtain ⟨wf, hvs, he⟩ := build_spec inp
  have hl : (build inp).resolutionOrder = some l := by
    rw [visitStart_eq] at h
    cases hc : (build inp).checkCycles with
    | some v => rw [hc] at h; cases h
    | none =>
      rw [hc] at h
      cases hr : (build inp).resolutionOrder with
      | none => rw [hr] at h; cases h
      | some l' => rw [hr] at h; injection h with h; rw [h]
  obtain ⟨h1, h2⟩ := Graph.orderLoop_sound wf _ [] _ l (by simpa using wf.nodup) (by simp) hl
  simp only [List.nil_append] at h1
  refine ⟨h1.symm.nodup wf.nodup, fun x => by rw [h1.mem_iff, hvs x]; rfl, ?_⟩
  intro a b hab
  have hE := (he a b).mpr hab
  exact h2 b (h1.mem_iff.mpr (wf.tgt _ _ hE)) a hE

/-- every macro defined in the file occurs in the resolution order exactly once (so `list.index` never raises) -/
theorem order_total {inp : Input α} {l : List α} (h : visitStart inp = .ok l) : ∀ d ∈ inp.defs, l.count d.1 = 1 := by
  intro d hd
  obtain ⟨hnd, hmem, _⟩ := order_spec h
  have : d.1 ∈ l := (hmem d.1).mpr (.inr ⟨d, hd, .inl rfl⟩)
  rw [hnd.count]
  simp [this]

/-! ### compiling in a topological order succeeds -/

theorem compileLoop_ok_of_known : ∀ (A : List (α × List α)) (known : List α), (∀ d ∈ A, ∀ c ∈ d.2, c ∈ known) →
    compileLoop known A = .ok (known ++ A.map (·.1)) := by
  intro A
  induction A with
  | nil => intro known _; simp [compileLoop]
  | cons d A ih =>
    intro known h
    have hd : d.2.find? (fun c => c ∉ known) = none := by
      rw [List.find?_eq_none]
      intro c hc
      simpa using h d (by simp) c hc
    simp only [compileLoop, hd]
    rw [ih]
    · simp
    · intro d' hd' c hc
      exact List.mem_append_left _ (h d' (List.mem_cons_of_mem _ hd') c hc)

theorem compileLoop_append : ∀ (A B : List (α × List α)) (known k1 : List α), compileLoop known A = .ok k1 →
    compileLoop known (A ++ B) = compileLoop k1 B := by
  intro A
  induction A with
  | nil =>
    intro B known k1 h
    simp only [compileLoop] at h
    injection h with h
    simp [h]
  | cons d A ih =>
    intro B known k1 h
    simp only [List.cons_append, compileLoop] at h ⊢
    split at h
    · cases h
    · exact ih B _ k1 h

theorem mem_prefix_of_pair_sublist {pre post : List α} {c n : α} (hnd : (pre ++ n :: post).Nodup)
    (h : [c, n] <+ pre ++ n :: post) : c ∈ pre := by
  have hn : n ∉ post := by
    have := (List.nodup_append.mp hnd).2.1
    exact (List.nodup_cons.mp this).1
  obtain ⟨l1, l2, heq, h1, h2⟩ := List.sublist_append_iff.mp h
  cases l1 with
  | nil =>
    simp only [List.nil_append] at heq
    subst heq
    exfalso
    cases h2 with
    | cons _ h' => exact hn (h'.subset (by simp))
    | cons_cons _ h' => exact hn (h'.subset (by simp))
  | cons x l1 =>
    simp only [List.cons_append, List.cons.injEq] at heq
    exact h1.subset (heq.1 ▸ List.mem_cons_self)

theorem compile_suffix (inp : Input α) (l : List α) (hnd : l.Nodup)
    (hclosed : ∀ d ∈ inp.defs, ∀ c ∈ d.2, c ∈ inp.imported ∨ ∃ d' ∈ inp.defs, d'.1 = c)
    (htopo : Topological inp l) :
    ∀ (post pre known : List α), l = pre ++ post → (∀ x ∈ inp.imported, x ∈ known) →
      (∀ n ∈ pre, (∃ d ∈ inp.defs, d.1 = n) → n ∈ known) →
      ∃ k, compileLoop known (post.flatMap (fun n => inp.defs.filter (fun d => d.1 = n))) = .ok k := by
  intro post
  induction post with
  | nil => intro pre known _ _ _; exact ⟨known, by simp [compileLoop]⟩
  | cons n post ih =>
    intro pre known hl himp hpre
    simp only [List.flatMap_cons]
    have hA : ∀ d ∈ inp.defs.filter (fun d => d.1 = n), ∀ c ∈ d.2, c ∈ known := by
      intro d hd c hc
      simp only [List.mem_filter, decide_eq_true_eq] at hd
      have hcalls : Calls inp c n := ⟨d, hd.1, hd.2, hc⟩
      have hcp : c ∈ pre := mem_prefix_of_pair_sublist (hl ▸ hnd) (hl ▸ htopo c n hcalls)
      cases hclosed d hd.1 c hc with
      | inl h => exact himp c h
      | inr h => exact hpre c hcp h
    have h1 := compileLoop_ok_of_known _ known hA
    rw [compileLoop_append _ _ _ _ h1]
    apply ih (pre ++ [n])
    · simp [hl]
    · exact fun x hx => List.mem_append_left _ (himp x hx)
    · intro m hm hdef
      cases List.mem_append.mp hm with
      | inl h => exact List.mem_append_left _ (hpre m h hdef)
      | inr h =>
        have hmn : m = n := by simpa using h
        obtain ⟨d, hd, hdn⟩ := hdef
        apply List.mem_append_right
        simp only [List.mem_map, List.mem_filter, decide_eq_true_eq]
        exact ⟨d, ⟨hd, hmn ▸ hdn⟩, hdn⟩

/-- compiling in a duplicate-free order that contains every defined macro and lists callees first succeeds, provided
every called macro is defined or imported -/
theorem compiles_of_topological (inp : Input α) {l : List α} (hnd : l.Nodup)
    (hall : ∀ d ∈ inp.defs, d.1 ∈ l)
    (hclosed : ∀ d ∈ inp.defs, ∀ c ∈ d.2, c ∈ inp.imported ∨ ∃ d' ∈ inp.defs, d'.1 = c)
    (htopo : Topological inp l) : ∃ known, compileWith inp l = .ok known := by
  have hs : sortDefs l inp.defs = .ok (l.flatMap (fun n => inp.defs.filter (fun d => d.1 = n))) := by
    have : inp.defs.find? (fun d => d.1 ∉ l) = none := by
      rw [List.find?_eq_none]
      intro d hd
      simpa using hall d hd
    unfold sortDefs
    rw [this]
  obtain ⟨k, hk⟩ := compile_suffix inp l hnd hclosed htopo l [] inp.imported (by simp) (fun _ hx => hx) (by simp)
  exact ⟨k, by simp only [compileWith, hs, hk]⟩

/-- every acyclic, closed set of macro definitions compiles (as far as ordering is concerned), in any definition order -/
theorem all_acyclic_compile (inp : Input α) (ac : Acyclic inp)
    (hclosed : ∀ d ∈ inp.defs, ∀ c ∈ d.2, c ∈ inp.imported ∨ ∃ d' ∈ inp.defs, d'.1 = c) :
    ∃ known, compileMacros inp = .ok known := by
  obtain ⟨l, h⟩ := (visitStart_ok_iff inp).mpr ac
  obtain ⟨hnd, hmem, htopo⟩ := order_spec h
  obtain ⟨k, hk⟩ := compiles_of_topological inp hnd (fun d hd => (hmem d.1).mpr (.inr ⟨d, hd, .inl rfl⟩)) hclosed htopo
  exact ⟨k, by simp only [compileMacros, h, hk]⟩

end ESV.Macro
