/-
Model of `ExplorerScriptSsbCompiler._resolve_imported_file` (explorerscript/ssb_converting/ssb_compiler.py) over an
abstract file system.

  * strings are `List Char`; a `PurePosixPath` is (absolute?, components) where parsing drops empty and `.` components
    and keeps `..`; `a.joinpath(b)` is `b` when `b` is absolute, else the concatenation;
  * `os.path.realpath` of a path in a tree without symbolic links: make it absolute with the working directory, then
    remove `..` lexically (the parent of the root is the root).  The harness creates its trees without links below a
    real path, so this is what the real function computes there (compared on every run);
  * the existence test (`os.path.isfile` since repair 804e3de of /repo, `os.path.exists` before) is a predicate `fs` on normalised
    absolute component lists; the harness feeds it the regular files of the real temporary tree.

Core Lean only.
-/
namespace ESV.Macro.Imp

abbrev Str := List Char
abbrev Comps := List Str

/-- Python `s.split('/')` -/
def splitSlash : Str → List Str
  | [] => [[]]
  | c :: rest =>
    match splitSlash rest with
    | [] => [[c]]   -- unreachable: the result is never empty
    | p :: ps => if c = '/' then [] :: p :: ps else (c :: p) :: ps

structure PPath where
  abs : Bool
  parts : Comps
  deriving DecidableEq, Repr

def dot : Str := ['.']
def dotdot : Str := ['.', '.']

/-- `PurePosixPath(s)` -/
def parse (s : Str) : PPath :=
  ⟨s.head? = some '/', (splitSlash s).filter (fun p => p ≠ [] ∧ p ≠ dot)⟩

/-- `a.joinpath(b)`: an absolute right operand replaces the left one -/
def PPath.join (a b : PPath) : PPath := if b.abs then b else ⟨a.abs, a.parts ++ b.parts⟩

/-- lexical removal of `..` from the components of an absolute path -/
def normalize (parts : Comps) : Comps :=
  parts.foldl (fun st p => if p = dotdot then st.dropLast else st ++ [p]) []

/-- `os.path.realpath(str(p))` with working directory `cwd` (normalised components), no symbolic links -/
def realpath (cwd : Comps) (p : PPath) : Comps := normalize (if p.abs then p.parts else cwd ++ p.parts)

inductive Err where
  | notFound   -- SsbCompilerError "The file to import ('…') was not found."
  | invalid    -- SsbCompilerError "Invalid import: … must not contain relative paths."
  deriving DecidableEq, Repr

/-- is the import written relative to the importing file or absolute? (`startswith('.') or startswith('/')`) -/
def isRelOrAbs (imp : Str) : Bool := imp.head? = some '.' || imp.head? = some '/'

def hasDotComponent (imp : Str) : Bool := dot ∈ splitSlash imp || dotdot ∈ splitSlash imp

/-- candidate of a relative or absolute import -/
def direct (cwd : Comps) (dir imp : Str) : Comps := realpath cwd ((parse dir).join (parse imp))

/-- candidate of a lookup-path import for the lookup path `lp`:
`realpath(PurePath(dir_name).joinpath(PurePosixPath(lp).joinpath(import_file)))` -/
def candidate (cwd : Comps) (dir imp lp : Str) : Comps :=
  realpath cwd ((parse dir).join ((parse lp).join (parse imp)))

/-- one iteration of the loop of `_resolve_imported_file` -/
def resolveOne (fs : Comps → Bool) (cwd : Comps) (dir : Str) (lookups : List Str) (imp : Str) : Except Err Comps :=
  if isRelOrAbs imp then
    let p := direct cwd dir imp
    if fs p then .ok p else .error .notFound
  else if hasDotComponent imp then .error .invalid
  else
    match (lookups.map (candidate cwd dir imp)).find? fs with
    | some p => .ok p
    | none => .error .notFound

/-- the whole function: the first import that fails raises; `error (i, e)` = import number `i` failed with `e` -/
def resolveAll (fs : Comps → Bool) (cwd : Comps) (dir : Str) (lookups : List Str) : List Str → Nat → Except (Nat × Err) (List Comps)
  | [], _ => .ok []
  | imp :: rest, i =>
    match resolveOne fs cwd dir lookups imp with
    | .error e => .error (i, e)
    | .ok p =>
      match resolveAll fs cwd dir lookups rest (i + 1) with
      | .error e => .error e
      | .ok ps => .ok (p :: ps)

/-! ### theorems -/

/-- an import starting with `/` resolves to its own normalised path, whatever the importing file, the working directory
and the lookup paths are; it fails exactly when that path does not exist -/
theorem resolve_absolute (fs : Comps → Bool) (cwd : Comps) (dir : Str) (lookups : List Str) (imp : Str)
    (h : imp.head? = some '/') :
    resolveOne fs cwd dir lookups imp =
      if fs (normalize (parse imp).parts) then .ok (normalize (parse imp).parts) else .error .notFound := by
  have habs : (parse imp).abs = true := by simp [parse, h]
  have hd : direct cwd dir imp = normalize (parse imp).parts := by
    simp [direct, realpath, PPath.join, habs]
  simp [resolveOne, isRelOrAbs, h, hd]

/-- an import starting with `.` resolves relative to the directory of the importing file (`dir`, absolute): the result
is the normalised concatenation, independent of the lookup paths; it fails exactly when that path does not exist -/
theorem resolve_relative (fs : Comps → Bool) (cwd : Comps) (dir : Str) (lookups : List Str) (imp : Str)
    (h : imp.head? = some '.') (hdir : dir.head? = some '/') :
    resolveOne fs cwd dir lookups imp =
      if fs (normalize ((parse dir).parts ++ (parse imp).parts))
      then .ok (normalize ((parse dir).parts ++ (parse imp).parts)) else .error .notFound := by
  have hrel : (parse imp).abs = false := by simp [parse, h]
  have hdabs : (parse dir).abs = true := by simp [parse, hdir]
  have hd : direct cwd dir imp = normalize ((parse dir).parts ++ (parse imp).parts) := by
    simp [direct, realpath, PPath.join, hrel, hdabs]
  simp [resolveOne, isRelOrAbs, h, hd]

/-- any other import containing a `.` or `..` component is rejected, whatever the file system contains -/
theorem resolve_rejects_dot_components (fs : Comps → Bool) (cwd : Comps) (dir : Str) (lookups : List Str) (imp : Str)
    (h : isRelOrAbs imp = false) (hdot : dot ∈ splitSlash imp ∨ dotdot ∈ splitSlash imp) :
    resolveOne fs cwd dir lookups imp = .error .invalid := by
  have : hasDotComponent imp = true := by
    cases hdot with
    | inl h1 => simp [hasDotComponent, h1]
    | inr h2 => simp [hasDotComponent, h2]
  simp [resolveOne, h, this]

theorem find?_map_eq_some_iff {β γ : Type} (f : β → γ) (p : γ → Bool) (l : List β) (c : γ) :
    (l.map f).find? p = some c ↔
      ∃ i, ∃ h : i < l.length, f l[i] = c ∧ p c = true ∧ ∀ j, ∀ hj : j < l.length, j < i → p (f l[j]) = false := by
  induction l with
  | nil => simp
  | cons x xs ih =>
    simp only [List.map_cons, List.find?_cons]
    cases hp : p (f x) with
    | true =>
      constructor
      · intro h
        have hc : f x = c := by simpa using h
        exact ⟨0, by simp, by simpa using hc, by rw [← hc]; exact hp, by intro j _ hj; omega⟩
      · rintro ⟨i, hi, hfc, hpc, hall⟩
        cases i with
        | zero => simpa using hfc
        | succ k =>
          have := hall 0 (by simp) (by omega)
          simp [hp] at this
    | false =>
      simp only []
      rw [ih]
      constructor
      · rintro ⟨i, hi, hfc, hpc, hall⟩
        refine ⟨i + 1, by simpa using hi, by simpa using hfc, hpc, ?_⟩
        intro j hj hji
        cases j with
        | zero => simpa using hp
        | succ k =>
          have := hall k (by simpa using hj) (by omega)
          simpa using this
      · rintro ⟨i, hi, hfc, hpc, hall⟩
        cases i with
        | zero =>
          have hfx : f x = c := by simpa using hfc
          rw [hfx] at hp
          rw [hp] at hpc
          cases hpc
        | succ k =>
          refine ⟨k, by simpa using hi, by simpa using hfc, hpc, ?_⟩
          intro j hj hjk
          have := hall (j + 1) (by simpa using hj) (by omega)
          simpa using this

/-- an import through the lookup paths resolves to the candidate of the FIRST lookup path (in list order) whose
candidate exists -/
theorem resolve_lookup_first_match (fs : Comps → Bool) (cwd : Comps) (dir : Str) (lookups : List Str) (imp : Str)
    (h : isRelOrAbs imp = false) (hdot : hasDotComponent imp = false) (p : Comps) :
    resolveOne fs cwd dir lookups imp = .ok p ↔
      ∃ i, ∃ hi : i < lookups.length, candidate cwd dir imp lookups[i] = p ∧ fs p = true ∧
        ∀ j, ∀ hj : j < lookups.length, j < i → fs (candidate cwd dir imp lookups[j]) = false := by
  rw [← find?_map_eq_some_iff]
  simp only [resolveOne, h, hdot]
  cases hf : (lookups.map (candidate cwd dir imp)).find? fs with
  | none => simp
  | some q => simp

/-- … and fails with "not found" exactly when no lookup path has an existing candidate (in particular when the list of
lookup paths is empty) -/
theorem resolve_lookup_none (fs : Comps → Bool) (cwd : Comps) (dir : Str) (lookups : List Str) (imp : Str)
    (h : isRelOrAbs imp = false) (hdot : hasDotComponent imp = false) :
    resolveOne fs cwd dir lookups imp = .error .notFound ↔ ∀ lp ∈ lookups, fs (candidate cwd dir imp lp) = false := by
  simp only [resolveOne, h, hdot]
  cases hf : (lookups.map (candidate cwd dir imp)).find? fs with
  | none =>
    simp only [List.find?_eq_none, List.mem_map] at hf
    constructor
    · intro _ lp hlp
      have := hf (candidate cwd dir imp lp) ⟨lp, hlp, rfl⟩
      simpa using this
    · intro _; rfl
  | some q =>
    have hq := List.find?_some hf
    have hm := List.mem_of_find?_eq_some hf
    simp only [List.mem_map] at hm
    obtain ⟨lp, hlp, rfl⟩ := hm
    constructor
    · intro h; cases h
    · intro hall
      have := hall lp hlp
      rw [this] at hq
      cases hq

/-- the candidate of an absolute lookup path does not depend on the importing file -/
theorem candidate_absolute_lookup (cwd : Comps) (dir dir' imp lp : Str) (h : lp.head? = some '/')
    (himp : imp.head? ≠ some '/') :
    candidate cwd dir imp lp = candidate cwd dir' imp lp := by
  have hl : (parse lp).abs = true := by simp [parse, h]
  have hi : (parse imp).abs = false := by simp [parse, himp]
  simp [candidate, realpath, PPath.join, hl, hi]

end ESV.Macro.Imp
