import ESV.Macro.Order
/-
Lemmas about the model of MacroResolutionOrderVisitor (ESV/Macro/Order.lean): reachability, the cycle check, existence of
minimal elements in finite acyclic graphs, the graph built from an input.  Core Lean only.
-/
namespace ESV.Macro

set_option linter.unusedSectionVars false

open scoped List

variable {α : Type} [DecidableEq α]

/-! ## paths -/

/-- non-empty paths of a relation -/
inductive Path (E : α → α → Prop) : α → α → Prop
  | single {a b : α} : E a b → Path E a b
  | cons {a b c : α} : E a b → Path E b c → Path E a c

theorem Path.trans {E : α → α → Prop} {a b c : α} (p : Path E a b) (q : Path E b c) : Path E a c := by
  induction p with
  | single h => exact .cons h q
  | cons h _ ih => exact .cons h (ih q)

theorem Path.snoc {E : α → α → Prop} {a b c : α} (p : Path E a b) (h : E b c) : Path E a c :=
  p.trans (.single h)

theorem Path.mono {E E' : α → α → Prop} (hE : ∀ a b, E a b → E' a b) {a b : α} (p : Path E a b) : Path E' a b := by
  induction p with
  | single h => exact .single (hE _ _ h)
  | cons h _ ih => exact .cons (hE _ _ h) ih

namespace Graph

/-- the edge relation: `E a b` = there is an edge from `a` (callee) to `b` (caller) -/
def E (g : Graph α) (a b : α) : Prop := (a, b) ∈ g.es

structure WF (g : Graph α) : Prop where
  nodup : g.vs.Nodup
  src : ∀ a b, (a, b) ∈ g.es → a ∈ g.vs
  tgt : ∀ a b, (a, b) ∈ g.es → b ∈ g.vs

def Acyclic (g : Graph α) : Prop := ∀ a, ¬ Path g.E a a

theorem Path_src {g : Graph α} (wf : g.WF) {a b : α} (p : Path g.E a b) : a ∈ g.vs := by
  cases p with
  | single h => exact wf.src _ _ h
  | cons h _ => exact wf.src _ _ h

theorem Path_tgt {g : Graph α} (wf : g.WF) {a b : α} (p : Path g.E a b) : b ∈ g.vs := by
  induction p with
  | single h => exact wf.tgt _ _ h
  | cons _ _ ih => exact ih

theorem mem_nbrs {g : Graph α} (wf : g.WF) {v w : α} : w ∈ g.nbrs v ↔ g.E v w := by
  simp only [nbrs, List.mem_filter, decide_eq_true_eq, E]
  exact ⟨fun h => h.2, fun h => ⟨wf.tgt _ _ h, h⟩⟩

end Graph

/-! ## counting -/

theorem subset_of_length_le {S vs : List α} (hS : S.Nodup) (hsub : S ⊆ vs) (hlen : vs.length ≤ S.length) : vs ⊆ S := by
  intro x hx
  apply Classical.byContradiction
  intro hxS
  have hnd : (x :: S).Nodup := List.nodup_cons.mpr ⟨hxS, hS⟩
  have hss : (x :: S) ⊆ vs := by
    intro y hy
    cases List.mem_cons.mp hy with
    | inl h => exact h ▸ hx
    | inr h => exact hsub h
  have := List.Nodup.length_le_of_subset hnd hss
  simp at this
  omega

/-! ## `sat`, `reach`, `hasPath` -/

namespace Graph

theorem subset_sat (g : Graph α) : ∀ (f : Nat) (S : List α), S ⊆ g.sat f S := by
  intro f
  induction f with
  | zero => intro S; simp [sat]
  | succ f ih =>
    intro S
    simp only [sat]
    split
    · exact List.Subset.refl _
    · exact fun x hx => ih _ (List.mem_append_left _ hx)

theorem sat_sound (g : Graph α) : ∀ (f : Nat) (S : List α) (x : α), x ∈ g.sat f S → x ∈ S ∨ ∃ s ∈ S, Path g.E s x := by
  intro f
  induction f with
  | zero => intro S x hx; exact .inl (by simpa [sat] using hx)
  | succ f ih =>
    intro S x hx
    simp only [sat] at hx
    split at hx
    · exact .inl hx
    · have hnew : ∀ w ∈ g.vs.filter (fun w => w ∉ S ∧ ∃ v ∈ S, (v, w) ∈ g.es), ∃ v ∈ S, g.E v w := by
        intro w hw
        simp only [List.mem_filter, decide_eq_true_eq] at hw
        exact hw.2.2
      cases ih _ x hx with
      | inl h =>
        cases List.mem_append.mp h with
        | inl h1 => exact .inl h1
        | inr h2 =>
          obtain ⟨v, hv, hvw⟩ := hnew x h2
          exact .inr ⟨v, hv, .single hvw⟩
      | inr h =>
        obtain ⟨s, hs, p⟩ := h
        cases List.mem_append.mp hs with
        | inl h1 => exact .inr ⟨s, h1, p⟩
        | inr h2 =>
          obtain ⟨v, hv, hvs⟩ := hnew s h2
          exact .inr ⟨v, hv, .cons hvs p⟩

theorem sat_closed {g : Graph α} (wf : g.WF) : ∀ (f : Nat) (S : List α), S.Nodup → S ⊆ g.vs → g.vs.length ≤ S.length + f →
    ∀ v ∈ g.sat f S, ∀ w, g.E v w → w ∈ g.sat f S := by
  intro f
  induction f with
  | zero =>
    intro S hS hsub hlen v _ w hvw
    simp only [sat]
    exact subset_of_length_le hS hsub (by omega) (wf.tgt _ _ hvw)
  | succ f ih =>
    intro S hS hsub hlen v hv w hvw
    simp only [sat] at hv ⊢
    split
    · rename_i hnew
      rw [if_pos hnew] at hv
      apply Classical.byContradiction
      intro hw
      have : w ∈ g.vs.filter (fun w => w ∉ S ∧ ∃ v ∈ S, (v, w) ∈ g.es) := by
        simp only [List.mem_filter, decide_eq_true_eq]
        exact ⟨wf.tgt _ _ hvw, hw, v, hv, hvw⟩
      rw [hnew] at this
      cases this
    · rename_i hnew
      rw [if_neg hnew] at hv
      have hnd : (S ++ g.vs.filter (fun w => w ∉ S ∧ ∃ v ∈ S, (v, w) ∈ g.es)).Nodup := by
        rw [List.nodup_append]
        refine ⟨hS, wf.nodup.sublist List.filter_sublist, ?_⟩
        intro a ha b hb hab
        simp only [List.mem_filter, decide_eq_true_eq] at hb
        exact hb.2.1 (hab ▸ ha)
      have hss : (S ++ g.vs.filter (fun w => w ∉ S ∧ ∃ v ∈ S, (v, w) ∈ g.es)) ⊆ g.vs := by
        intro x hx
        cases List.mem_append.mp hx with
        | inl h => exact hsub h
        | inr h => exact (List.mem_filter.mp h).1
      have hpos : 0 < (g.vs.filter (fun w => w ∉ S ∧ ∃ v ∈ S, (v, w) ∈ g.es)).length :=
        List.length_pos_iff.mpr hnew
      exact ih _ hnd hss (by simp only [List.length_append]; omega) v hv w hvw

theorem reach_iff {g : Graph α} (wf : g.WF) {a b : α} (ha : a ∈ g.vs) : g.reach a b = true ↔ a = b ∨ Path g.E a b := by
  simp only [reach, decide_eq_true_eq]
  constructor
  · intro h
    cases g.sat_sound _ _ _ h with
    | inl h1 => exact .inl (by have := List.mem_singleton.mp h1; exact this.symm)
    | inr h2 =>
      obtain ⟨s, hs, p⟩ := h2
      have : s = a := by simpa using hs
      exact .inr (this ▸ p)
  · intro h
    have hclosed := sat_closed wf g.vs.length [a] (by simp) (by simpa using ha) (by simp)
    have ha' : a ∈ g.sat g.vs.length [a] := g.subset_sat _ _ (by simp)
    cases h with
    | inl h => exact h ▸ ha'
    | inr p =>
      have : ∀ x y, Path g.E x y → x ∈ g.sat g.vs.length [a] → y ∈ g.sat g.vs.length [a] := by
        intro x y p
        induction p with
        | single h => exact fun hx => hclosed _ hx _ h
        | cons h _ ih => exact fun hx => ih (hclosed _ hx _ h)
      exact this _ _ p ha'

/-! ## the cycle check -/

theorem checkCycles_none_iff {g : Graph α} (wf : g.WF) : g.checkCycles = none ↔ g.Acyclic := by
  simp only [checkCycles, List.find?_eq_none, Acyclic]
  constructor
  · intro h a p
    have ha : a ∈ g.vs := Path_src wf p
    apply h a ha
    cases p with
    | single hab =>
      simp only [Bool.or_eq_true, List.any_eq_true, decide_eq_true_eq]
      exact .inr ⟨a, (mem_nbrs wf).mpr hab, rfl⟩
    | cons hab q =>
      rename_i b
      simp only [Bool.or_eq_true, List.any_eq_true, decide_eq_true_eq]
      by_cases hba : b = a
      · exact .inr ⟨b, (mem_nbrs wf).mpr hab, hba⟩
      · refine .inl ⟨b, (mem_nbrs wf).mpr hab, ?_⟩
        simp only [hasPath, Bool.and_eq_true, decide_eq_true_eq]
        exact ⟨hba, (reach_iff wf (wf.tgt _ _ hab)).mpr (.inr q)⟩
  · intro h v hv hp
    simp only [Bool.or_eq_true, List.any_eq_true, decide_eq_true_eq] at hp
    cases hp with
    | inl h1 =>
      obtain ⟨t, ht, hpath⟩ := h1
      simp only [hasPath, Bool.and_eq_true, decide_eq_true_eq] at hpath
      have hvt := (mem_nbrs wf).mp ht
      cases (reach_iff wf (wf.tgt _ _ hvt)).mp hpath.2 with
      | inl h2 => exact hpath.1 h2
      | inr p => exact h v (.cons hvt p)
    | inr h2 =>
      obtain ⟨t, ht, htv⟩ := h2
      have hvt := (mem_nbrs wf).mp ht
      exact h v (.single (htv ▸ hvt))

end Graph

/-! ## finite acyclic graphs have minimal elements -/

inductive Walk (E : α → α → Prop) : List α → Prop
  | one (a : α) : Walk E [a]
  | cons {a b : α} {l : List α} : E a b → Walk E (b :: l) → Walk E (a :: b :: l)

theorem Walk.pairwise {E : α → α → Prop} {l : List α} (w : Walk E l) : l.Pairwise (Path E) := by
  induction w with
  | one a => simp
  | cons h _ ih =>
    rename_i a b l
    rw [List.pairwise_cons] at ih ⊢
    refine ⟨?_, List.pairwise_cons.mpr ih⟩
    intro x hx
    cases List.mem_cons.mp hx with
    | inl hxb => exact hxb ▸ .single h
    | inr hxl => exact .cons h (ih.1 x hxl)

theorem exists_refl_of_pairwise_of_not_nodup {R : α → α → Prop} : ∀ {l : List α}, l.Pairwise R → ¬ l.Nodup → ∃ a, R a a := by
  intro l
  induction l with
  | nil => intro _ h; exact absurd List.nodup_nil h
  | cons x t ih =>
    intro hp hn
    rw [List.pairwise_cons] at hp
    by_cases hx : x ∈ t
    · exact ⟨x, hp.1 x hx⟩
    · exact ih hp.2 (fun hnd => hn (List.nodup_cons.mpr ⟨hx, hnd⟩))

namespace Graph

/-- every non-empty set of vertices of an acyclic graph has an element none of whose predecessors is in the set -/
theorem exists_minimal {g : Graph α} (ac : g.Acyclic) (R : List α) (hR : R ⊆ g.vs) (hne : R ≠ []) :
    ∃ v ∈ R, ∀ u, g.E u v → u ∉ R := by
  apply Classical.byContradiction
  intro hno
  have hstep : ∀ v ∈ R, ∃ u, g.E u v ∧ u ∈ R := by
    intro v hv
    apply Classical.byContradiction
    intro h
    apply hno
    refine ⟨v, hv, fun u huv hu => h ⟨u, huv, hu⟩⟩
  have hwalk : ∀ k : Nat, ∃ l : List α, l.length = k + 1 ∧ Walk g.E l ∧ ∀ x ∈ l, x ∈ R := by
    intro k
    induction k with
    | zero =>
      cases R with
      | nil => exact absurd rfl hne
      | cons r _ => exact ⟨[r], rfl, .one r, by simp⟩
    | succ k ih =>
      obtain ⟨l, hlen, hw, hall⟩ := ih
      cases l with
      | nil => simp at hlen
      | cons a t =>
        obtain ⟨u, hua, hu⟩ := hstep a (hall a (by simp))
        refine ⟨u :: a :: t, by simp at hlen ⊢; omega, .cons hua hw, ?_⟩
        intro x hx
        cases List.mem_cons.mp hx with
        | inl h => exact h ▸ hu
        | inr h => exact hall x h
  obtain ⟨l, hlen, hw, hall⟩ := hwalk g.vs.length
  have hnn : ¬ l.Nodup := by
    intro hnd
    have := List.Nodup.length_le_of_subset hnd (fun x hx => hR (hall x hx))
    omega
  obtain ⟨a, ha⟩ := exists_refl_of_pairwise_of_not_nodup hw.pairwise hnn
  exact ac a ha

/-! ## the graph built from an input -/

theorem mem_createVertex_vs (g : Graph α) (n x : α) : x ∈ (g.createVertex n).vs ↔ x ∈ g.vs ∨ x = n := by
  simp only [createVertex]
  split
  · rename_i h
    constructor
    · exact .inl
    · rintro (h1 | h1)
      · exact h1
      · exact h1 ▸ h
  · simp

theorem createVertex_es (g : Graph α) (n : α) : (g.createVertex n).es = g.es := by
  simp only [createVertex]
  split <;> rfl

theorem createVertex_wf {g : Graph α} (wf : g.WF) (n : α) : (g.createVertex n).WF := by
  refine ⟨?_, ?_, ?_⟩
  · simp only [createVertex]
    split
    · exact wf.nodup
    · rename_i h
      rw [List.nodup_append]
      refine ⟨wf.nodup, by simp, ?_⟩
      intro a ha b hb hab
      have : b = n := by simpa using hb
      exact h (this ▸ hab ▸ ha)
  · intro a b h
    rw [createVertex_es] at h
    exact (mem_createVertex_vs g n a).mpr (.inl (wf.src _ _ h))
  · intro a b h
    rw [createVertex_es] at h
    exact (mem_createVertex_vs g n b).mpr (.inl (wf.tgt _ _ h))

theorem mem_addCall_vs (active : α) (g : Graph α) (c x : α) : x ∈ (addCall active g c).vs ↔ x ∈ g.vs ∨ x = c := by
  simp only [addCall]
  split <;> exact mem_createVertex_vs g c x

theorem mem_addCall_es (active : α) (g : Graph α) (c : α) (e : α × α) :
    e ∈ (addCall active g c).es ↔ e ∈ g.es ∨ e = (c, active) := by
  simp only [addCall]
  split
  · rename_i h
    rw [createVertex_es] at h ⊢
    constructor
    · exact .inl
    · rintro (h1 | h1)
      · exact h1
      · exact h1 ▸ h
  · simp [createVertex_es]

theorem addCall_wf {active : α} {g : Graph α} (wf : g.WF) (hact : active ∈ g.vs) (c : α) : (addCall active g c).WF := by
  have wf1 := createVertex_wf wf c
  have hc : c ∈ (g.createVertex c).vs := (mem_createVertex_vs g c c).mpr (.inr rfl)
  have ha : active ∈ (g.createVertex c).vs := (mem_createVertex_vs g c active).mpr (.inl hact)
  simp only [addCall]
  split
  · exact wf1
  · refine ⟨wf1.nodup, ?_, ?_⟩
    · intro a b h
      simp only [List.mem_append, List.mem_singleton, Prod.mk.injEq] at h
      cases h with
      | inl h => exact wf1.src _ _ h
      | inr h => exact h.1 ▸ hc
    · intro a b h
      simp only [List.mem_append, List.mem_singleton, Prod.mk.injEq] at h
      cases h with
      | inl h => exact wf1.tgt _ _ h
      | inr h => exact h.2 ▸ ha

theorem foldl_addCall_spec (active : α) : ∀ (cs : List α) (g : Graph α), g.WF → active ∈ g.vs →
    (cs.foldl (addCall active) g).WF ∧ (∀ x, x ∈ (cs.foldl (addCall active) g).vs ↔ x ∈ g.vs ∨ x ∈ cs) ∧
      ∀ e, e ∈ (cs.foldl (addCall active) g).es ↔ e ∈ g.es ∨ ∃ c ∈ cs, e = (c, active) := by
  intro cs
  induction cs with
  | nil => intro g wf _; simp [wf]
  | cons c cs ih =>
    intro g wf hact
    simp only [List.foldl_cons]
    have wf1 := addCall_wf wf hact c
    have hact1 : active ∈ (addCall active g c).vs := (mem_addCall_vs active g c active).mpr (.inl hact)
    obtain ⟨h1, h2, h3⟩ := ih _ wf1 hact1
    refine ⟨h1, fun x => ?_, fun e => ?_⟩
    · rw [h2 x, mem_addCall_vs]
      simp only [List.mem_cons]
      constructor
      · rintro ((h | h) | h)
        · exact .inl h
        · exact .inr (.inl h)
        · exact .inr (.inr h)
      · rintro (h | h | h)
        · exact .inl (.inl h)
        · exact .inl (.inr h)
        · exact .inr h
    · rw [h3 e, mem_addCall_es]
      simp only [List.mem_cons, exists_eq_or_imp]
      constructor
      · rintro ((h | h) | h)
        · exact .inl h
        · exact .inr (.inl h)
        · exact .inr (.inr h)
      · rintro (h | h | h)
        · exact .inl (.inl h)
        · exact .inl (.inr h)
        · exact .inr h

theorem addDef_spec {g : Graph α} (wf : g.WF) (d : α × List α) :
    (g.addDef d).WF ∧ (∀ x, x ∈ (g.addDef d).vs ↔ x ∈ g.vs ∨ x = d.1 ∨ x ∈ d.2) ∧
      ∀ e, e ∈ (g.addDef d).es ↔ e ∈ g.es ∨ ∃ c ∈ d.2, e = (c, d.1) := by
  have wf1 := createVertex_wf wf d.1
  have hd : d.1 ∈ (g.createVertex d.1).vs := (mem_createVertex_vs g d.1 d.1).mpr (.inr rfl)
  obtain ⟨h1, h2, h3⟩ := foldl_addCall_spec d.1 d.2 _ wf1 hd
  refine ⟨h1, fun x => ?_, fun e => ?_⟩
  · show x ∈ (d.2.foldl (addCall d.1) (g.createVertex d.1)).vs ↔ _
    rw [h2 x, mem_createVertex_vs]
    constructor
    · rintro ((h | h) | h)
      · exact .inl h
      · exact .inr (.inl h)
      · exact .inr (.inr h)
    · rintro (h | h | h)
      · exact .inl (.inl h)
      · exact .inl (.inr h)
      · exact .inr h
  · show e ∈ (d.2.foldl (addCall d.1) (g.createVertex d.1)).es ↔ _
    rw [h3 e, createVertex_es]

theorem foldl_addDef_spec : ∀ (defs : List (α × List α)) (g : Graph α), g.WF →
    (defs.foldl addDef g).WF ∧ (∀ x, x ∈ (defs.foldl addDef g).vs ↔ x ∈ g.vs ∨ ∃ d ∈ defs, x = d.1 ∨ x ∈ d.2) ∧
      ∀ e, e ∈ (defs.foldl addDef g).es ↔ e ∈ g.es ∨ ∃ d ∈ defs, ∃ c ∈ d.2, e = (c, d.1) := by
  intro defs
  induction defs with
  | nil => intro g wf; simp [wf]
  | cons d defs ih =>
    intro g wf
    simp only [List.foldl_cons]
    obtain ⟨w1, v1, e1⟩ := addDef_spec wf d
    obtain ⟨h1, h2, h3⟩ := ih _ w1
    refine ⟨h1, fun x => ?_, fun e => ?_⟩
    · rw [h2 x, v1 x]
      simp only [List.mem_cons, exists_eq_or_imp]
      constructor
      · rintro ((h | h) | h)
        · exact .inl h
        · exact .inr (.inl h)
        · exact .inr (.inr h)
      · rintro (h | h | h)
        · exact .inl (.inl h)
        · exact .inl (.inr h)
        · exact .inr h
    · rw [h3 e, e1 e]
      simp only [List.mem_cons, exists_eq_or_imp]
      constructor
      · rintro ((h | h) | h)
        · exact .inl h
        · exact .inr (.inl h)
        · exact .inr (.inr h)
      · rintro (h | h | h)
        · exact .inl (.inl h)
        · exact .inl (.inr h)
        · exact .inr h

theorem foldl_createVertex_spec : ∀ (ns : List α) (g : Graph α), g.WF →
    (ns.foldl createVertex g).WF ∧ (∀ x, x ∈ (ns.foldl createVertex g).vs ↔ x ∈ g.vs ∨ x ∈ ns) ∧
      (ns.foldl createVertex g).es = g.es := by
  intro ns
  induction ns with
  | nil => intro g wf; simp [wf]
  | cons n ns ih =>
    intro g wf
    simp only [List.foldl_cons]
    obtain ⟨h1, h2, h3⟩ := ih _ (createVertex_wf wf n)
    refine ⟨h1, fun x => ?_, by rw [h3, createVertex_es]⟩
    rw [h2 x, mem_createVertex_vs]
    simp only [List.mem_cons]
    constructor
    · rintro ((h | h) | h)
      · exact .inl h
      · exact .inr (.inl h)
      · exact .inr (.inr h)
    · rintro (h | h | h)
      · exact .inl (.inl h)
      · exact .inl (.inr h)
      · exact .inr h

end Graph

/-- callee `a` is called in the body of the macro definition named `b` -/
def Calls (inp : Input α) (a b : α) : Prop := ∃ d ∈ inp.defs, d.1 = b ∧ a ∈ d.2

/-- the macro definitions of the file do not call each other in a circle -/
def Acyclic (inp : Input α) : Prop := ∀ a, ¬ Path (Calls inp) a a

theorem build_spec (inp : Input α) :
    (build inp).WF ∧ (∀ x, x ∈ (build inp).vs ↔ x ∈ inp.imported ∨ ∃ d ∈ inp.defs, x = d.1 ∨ x ∈ d.2) ∧
      ∀ a b, (build inp).E a b ↔ Calls inp a b := by
  have wf0 : (⟨[], []⟩ : Graph α).WF := ⟨by simp, by simp, by simp⟩
  obtain ⟨w1, v1, e1⟩ := Graph.foldl_createVertex_spec inp.imported _ wf0
  obtain ⟨w2, v2, e2⟩ := Graph.foldl_addDef_spec inp.defs _ w1
  refine ⟨w2, fun x => ?_, fun a b => ?_⟩
  · show x ∈ (inp.defs.foldl Graph.addDef (inp.imported.foldl Graph.createVertex ⟨[], []⟩)).vs ↔ _
    rw [v2 x, v1 x]
    simp
  · show (a, b) ∈ (inp.defs.foldl Graph.addDef (inp.imported.foldl Graph.createVertex ⟨[], []⟩)).es ↔ _
    rw [e2 (a, b), e1]
    simp only [List.not_mem_nil, false_or, Prod.mk.injEq, Calls]
    constructor
    · rintro ⟨d, hd, c, hc, h1, h2⟩
      exact ⟨d, hd, h2.symm, h1 ▸ hc⟩
    · rintro ⟨d, hd, h1, h2⟩
      exact ⟨d, hd, a, h2, rfl, h1.symm⟩

theorem build_acyclic_iff (inp : Input α) : (build inp).Acyclic ↔ Acyclic inp := by
  have he := (build_spec inp).2.2
  constructor
  · intro h a p
    exact h a (p.mono (fun x y hxy => (he x y).mpr hxy))
  · intro h a p
    exact h a (p.mono (fun x y hxy => (he x y).mp hxy))

end ESV.Macro
