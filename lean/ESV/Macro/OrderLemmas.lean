import ESV.Macro.Order
/-
Lemmas about the model of MacroResolutionOrderVisitor (ESV/Macro/Order.lean): reachability, the cycle check, existence of
minimal elements in finite acyclic graphs, breadth-first search, the remove-then-append merge.  Core Lean only.
-/
namespace ESV.Macro

set_option linter.unusedSectionVars false

open scoped List

variable {α : Type} [DecidableEq α]

/-! ## paths -/

/-- non-empty paths of a relation -/
inductive Path (E : α → α → Prop) : α → α → Prop
  | single {a b : α} : E a b → Path E a b
  | cons {a b c : α} : E a b → Path E b c → Path E a c

theorem Path.trans {E : α → α → Prop} {a b c : α} (p : Path E a b) (q : Path E b c) : Path E a c := by
  induction p with
  | single h => exact .cons h q
  | cons h _ ih => exact .cons h (ih q)

theorem Path.snoc {E : α → α → Prop} {a b c : α} (p : Path E a b) (h : E b c) : Path E a c :=
  p.trans (.single h)

theorem Path.mono {E E' : α → α → Prop} (hE : ∀ a b, E a b → E' a b) {a b : α} (p : Path E a b) : Path E' a b := by
  induction p with
  | single h => exact .single (hE _ _ h)
  | cons h _ ih => exact .cons (hE _ _ h) ih

namespace Graph

/-- the edge relation: `E a b` = there is an edge from `a` (callee) to `b` (caller) -/
def E (g : Graph α) (a b : α) : Prop := (a, b) ∈ g.es

structure WF (g : Graph α) : Prop where
  nodup : g.vs.Nodup
  src : ∀ a b, (a, b) ∈ g.es → a ∈ g.vs
  tgt : ∀ a b, (a, b) ∈ g.es → b ∈ g.vs

def Acyclic (g : Graph α) : Prop := ∀ a, ¬ Path g.E a a

theorem Path_src {g : Graph α} (wf : g.WF) {a b : α} (p : Path g.E a b) : a ∈ g.vs := by
  cases p with
  | single h => exact wf.src _ _ h
  | cons h _ => exact wf.src _ _ h

theorem Path_tgt {g : Graph α} (wf : g.WF) {a b : α} (p : Path g.E a b) : b ∈ g.vs := by
  induction p with
  | single h => exact wf.tgt _ _ h
  | cons _ _ ih => exact ih

theorem mem_nbrs {g : Graph α} (wf : g.WF) {v w : α} : w ∈ g.nbrs v ↔ g.E v w := by
  simp only [nbrs, List.mem_filter, decide_eq_true_eq, E]
  exact ⟨fun h => h.2, fun h => ⟨wf.tgt _ _ h, h⟩⟩

end Graph

/-! ## counting -/

theorem subset_of_length_le {S vs : List α} (hS : S.Nodup) (hsub : S ⊆ vs) (hlen : vs.length ≤ S.length) : vs ⊆ S := by
  intro x hx
  apply Classical.byContradiction
  intro hxS
  have hnd : (x :: S).Nodup := List.nodup_cons.mpr ⟨hxS, hS⟩
  have hss : (x :: S) ⊆ vs := by
    intro y hy
    cases List.mem_cons.mp hy with
    | inl h => exact h ▸ hx
    | inr h => exact hsub h
  have := List.Nodup.length_le_of_subset hnd hss
  simp at this
  omega

/-! ## `sat`, `reach`, `hasPath` -/

namespace Graph

theorem subset_sat (g : Graph α) : ∀ (f : Nat) (S : List α), S ⊆ g.sat f S := by
  intro f
  induction f with
  | zero => intro S; simp [sat]
  | succ f ih =>
    intro S
    simp only [sat]
    split
    · exact List.Subset.refl _
    · exact fun x hx => ih _ (List.mem_append_left _ hx)

theorem sat_sound (g : Graph α) : ∀ (f : Nat) (S : List α) (x : α), x ∈ g.sat f S → x ∈ S ∨ ∃ s ∈ S, Path g.E s x := by
  intro f
  induction f with
  | zero => intro S x hx; exact .inl (by simpa [sat] using hx)
  | succ f ih =>
    intro S x hx
    simp only [sat] at hx
    split at hx
    · exact .inl hx
    · have hnew : ∀ w ∈ g.vs.filter (fun w => w ∉ S ∧ ∃ v ∈ S, (v, w) ∈ g.es), ∃ v ∈ S, g.E v w := by
        intro w hw
        simp only [List.mem_filter, decide_eq_true_eq] at hw
        exact hw.2.2
      cases ih _ x hx with
      | inl h =>
        cases List.mem_append.mp h with
        | inl h1 => exact .inl h1
        | inr h2 =>
          obtain ⟨v, hv, hvw⟩ := hnew x h2
          exact .inr ⟨v, hv, .single hvw⟩
      | inr h =>
        obtain ⟨s, hs, p⟩ := h
        cases List.mem_append.mp hs with
        | inl h1 => exact .inr ⟨s, h1, p⟩
        | inr h2 =>
          obtain ⟨v, hv, hvs⟩ := hnew s h2
          exact .inr ⟨v, hv, .cons hvs p⟩

theorem sat_closed {g : Graph α} (wf : g.WF) : ∀ (f : Nat) (S : List α), S.Nodup → S ⊆ g.vs → g.vs.length ≤ S.length + f →
    ∀ v ∈ g.sat f S, ∀ w, g.E v w → w ∈ g.sat f S := by
  intro f
  induction f with
  | zero =>
    intro S hS hsub hlen v _ w hvw
    simp only [sat]
    exact subset_of_length_le hS hsub (by omega) (wf.tgt _ _ hvw)
  | succ f ih =>
    intro S hS hsub hlen v hv w hvw
    simp only [sat] at hv ⊢
    split
    · rename_i hnew
      rw [if_pos hnew] at hv
      apply Classical.byContradiction
      intro hw
      have : w ∈ g.vs.filter (fun w => w ∉ S ∧ ∃ v ∈ S, (v, w) ∈ g.es) := by
        simp only [List.mem_filter, decide_eq_true_eq]
        exact ⟨wf.tgt _ _ hvw, hw, v, hv, hvw⟩
      rw [hnew] at this
      cases this
    · rename_i hnew
      rw [if_neg hnew] at hv
      have hnd : (S ++ g.vs.filter (fun w => w ∉ S ∧ ∃ v ∈ S, (v, w) ∈ g.es)).Nodup := by
        rw [List.nodup_append]
        refine ⟨hS, wf.nodup.sublist List.filter_sublist, ?_⟩
        intro a ha b hb hab
        simp only [List.mem_filter, decide_eq_true_eq] at hb
        exact hb.2.1 (hab ▸ ha)
      have hss : (S ++ g.vs.filter (fun w => w ∉ S ∧ ∃ v ∈ S, (v, w) ∈ g.es)) ⊆ g.vs := by
        intro x hx
        cases List.mem_append.mp hx with
        | inl h => exact hsub h
        | inr h => exact (List.mem_filter.mp h).1
      have hpos : 0 < (g.vs.filter (fun w => w ∉ S ∧ ∃ v ∈ S, (v, w) ∈ g.es)).length :=
        List.length_pos_iff.mpr hnew
      exact ih _ hnd hss (by simp only [List.length_append]; omega) v hv w hvw

theorem reach_iff {g : Graph α} (wf : g.WF) {a b : α} (ha : a ∈ g.vs) : g.reach a b = true ↔ a = b ∨ Path g.E a b := by
  simp only [reach, decide_eq_true_eq]
  constructor
  · intro h
    cases g.sat_sound _ _ _ h with
    | inl h1 => exact .inl (by have := List.mem_singleton.mp h1; exact this.symm)
    | inr h2 =>
      obtain ⟨s, hs, p⟩ := h2
      have : s = a := by simpa using hs
      exact .inr (this ▸ p)
  · intro h
    have hclosed := sat_closed wf g.vs.length [a] (by simp) (by simpa using ha) (by simp)
    have ha' : a ∈ g.sat g.vs.length [a] := g.subset_sat _ _ (by simp)
    cases h with
    | inl h => exact h ▸ ha'
    | inr p =>
      have : ∀ x y, Path g.E x y → x ∈ g.sat g.vs.length [a] → y ∈ g.sat g.vs.length [a] := by
        intro x y p
        induction p with
        | single h => exact fun hx => hclosed _ hx _ h
        | cons h _ ih => exact fun hx => ih (hclosed _ hx _ h)
      exact this _ _ p ha'

/-! ## the cycle check -/

theorem checkCycles_none_iff {g : Graph α} (wf : g.WF) : g.checkCycles = none ↔ g.Acyclic := by
  simp only [checkCycles, List.find?_eq_none, Acyclic]
  constructor
  · intro h a p
    have ha : a ∈ g.vs := Path_src wf p
    apply h a ha
    cases p with
    | single hab =>
      simp only [Bool.or_eq_true, List.any_eq_true, decide_eq_true_eq]
      exact .inr ⟨a, (mem_nbrs wf).mpr hab, rfl⟩
    | cons hab q =>
      rename_i b
      simp only [Bool.or_eq_true, List.any_eq_true, decide_eq_true_eq]
      by_cases hba : b = a
      · exact .inr ⟨b, (mem_nbrs wf).mpr hab, hba⟩
      · refine .inl ⟨b, (mem_nbrs wf).mpr hab, ?_⟩
        simp only [hasPath, Bool.and_eq_true, decide_eq_true_eq]
        exact ⟨hba, (reach_iff wf (wf.tgt _ _ hab)).mpr (.inr q)⟩
  · intro h v hv hp
    simp only [Bool.or_eq_true, List.any_eq_true, decide_eq_true_eq] at hp
    cases hp with
    | inl h1 =>
      obtain ⟨t, ht, hpath⟩ := h1
      simp only [hasPath, Bool.and_eq_true, decide_eq_true_eq] at hpath
      have hvt := (mem_nbrs wf).mp ht
      cases (reach_iff wf (wf.tgt _ _ hvt)).mp hpath.2 with
      | inl h2 => exact hpath.1 h2
      | inr p => exact h v (.cons hvt p)
    | inr h2 =>
      obtain ⟨t, ht, htv⟩ := h2
      have hvt := (mem_nbrs wf).mp ht
      exact h v (.single (htv ▸ hvt))

end Graph

/-! ## finite acyclic graphs have minimal elements -/

inductive Walk (E : α → α → Prop) : List α → Prop
  | one (a : α) : Walk E [a]
  | cons {a b : α} {l : List α} : E a b → Walk E (b :: l) → Walk E (a :: b :: l)

theorem Walk.pairwise {E : α → α → Prop} {l : List α} (w : Walk E l) : l.Pairwise (Path E) := by
  induction w with
  | one a => simp
  | cons h _ ih =>
    rename_i a b l
    rw [List.pairwise_cons] at ih ⊢
    refine ⟨?_, List.pairwise_cons.mpr ih⟩
    intro x hx
    cases List.mem_cons.mp hx with
    | inl hxb => exact hxb ▸ .single h
    | inr hxl => exact .cons h (ih.1 x hxl)

theorem exists_refl_of_pairwise_of_not_nodup {R : α → α → Prop} : ∀ {l : List α}, l.Pairwise R → ¬ l.Nodup → ∃ a, R a a := by
  intro l
  induction l with
  | nil => intro _ h; exact absurd List.nodup_nil h
  | cons x t ih =>
    intro hp hn
    rw [List.pairwise_cons] at hp
    by_cases hx : x ∈ t
    · exact ⟨x, hp.1 x hx⟩
    · exact ih hp.2 (fun hnd => hn (List.nodup_cons.mpr ⟨hx, hnd⟩))

namespace Graph

/-- every non-empty set of vertices of an acyclic graph has an element none of whose predecessors is in the set -/
theorem exists_minimal {g : Graph α} (ac : g.Acyclic) (R : List α) (hR : R ⊆ g.vs) (hne : R ≠ []) :
    ∃ v ∈ R, ∀ u, g.E u v → u ∉ R := by
  apply Classical.byContradiction
  intro hno
  have hstep : ∀ v ∈ R, ∃ u, g.E u v ∧ u ∈ R := by
    intro v hv
    apply Classical.byContradiction
    intro h
    apply hno
    refine ⟨v, hv, fun u huv hu => h ⟨u, huv, hu⟩⟩
  have hwalk : ∀ k : Nat, ∃ l : List α, l.length = k + 1 ∧ Walk g.E l ∧ ∀ x ∈ l, x ∈ R := by
    intro k
    induction k with
    | zero =>
      cases R with
      | nil => exact absurd rfl hne
      | cons r _ => exact ⟨[r], rfl, .one r, by simp⟩
    | succ k ih =>
      obtain ⟨l, hlen, hw, hall⟩ := ih
      cases l with
      | nil => simp at hlen
      | cons a t =>
        obtain ⟨u, hua, hu⟩ := hstep a (hall a (by simp))
        refine ⟨u :: a :: t, by simp at hlen ⊢; omega, .cons hua hw, ?_⟩
        intro x hx
        cases List.mem_cons.mp hx with
        | inl h => exact h ▸ hu
        | inr h => exact hall x h
  obtain ⟨l, hlen, hw, hall⟩ := hwalk g.vs.length
  have hnn : ¬ l.Nodup := by
    intro hnd
    have := List.Nodup.length_le_of_subset hnd (fun x hx => hR (hall x hx))
    omega
  obtain ⟨a, ha⟩ := exists_refl_of_pairwise_of_not_nodup hw.pairwise hnn
  exact ac a ha

theorem mem_roots {g : Graph α} {r : α} : r ∈ g.roots ↔ r ∈ g.vs ∧ ∀ u, ¬ g.E u r := by
  simp only [roots, List.mem_filter, List.all_eq_true, decide_eq_true_eq, E]
  constructor
  · rintro ⟨h1, h2⟩
    exact ⟨h1, fun u hu => h2 (u, r) hu rfl⟩
  · rintro ⟨h1, h2⟩
    refine ⟨h1, ?_⟩
    rintro ⟨a, b⟩ he hb
    simp only at hb
    exact h2 a (hb ▸ he)

/-- in an acyclic graph every vertex is a root or reachable from a root -/
theorem exists_root_reach {g : Graph α} (wf : g.WF) (ac : g.Acyclic) : ∀ v ∈ g.vs, ∃ r ∈ g.roots, r = v ∨ Path g.E r v := by
  intro v hv
  apply Classical.byContradiction
  intro hbad
  -- the vertices that are not reached from any root
  let bad := g.vs.filter (fun x => !(g.roots.any (fun r => g.reach r x)))
  have hmem : ∀ x, x ∈ bad ↔ x ∈ g.vs ∧ ∀ r ∈ g.roots, ¬ (r = x ∨ Path g.E r x) := by
    intro x
    simp only [bad, List.mem_filter, Bool.not_eq_true', List.any_eq_false]
    constructor
    · rintro ⟨h1, h2⟩
      refine ⟨h1, fun r hr hrx => ?_⟩
      have := h2 r hr
      rw [(reach_iff wf (mem_roots.mp hr).1).mpr hrx] at this
      exact this rfl
    · rintro ⟨h1, h2⟩
      refine ⟨h1, fun r hr => ?_⟩
      intro h
      exact h2 r hr ((reach_iff wf (mem_roots.mp hr).1).mp h)
  have hvbad : v ∈ bad := (hmem v).mpr ⟨hv, fun r hr h => hbad ⟨r, hr, h⟩⟩
  obtain ⟨m, hm, hmin⟩ := exists_minimal ac bad (fun x hx => ((hmem x).mp hx).1) (List.ne_nil_of_mem hvbad)
  have hm' := (hmem m).mp hm
  by_cases hroot : ∀ u, ¬ g.E u m
  · exact hm'.2 m (mem_roots.mpr ⟨hm'.1, hroot⟩) (.inl rfl)
  · have ⟨u, hum⟩ : ∃ u, g.E u m := by
      apply Classical.byContradiction
      intro h
      exact hroot (fun u hu => h ⟨u, hu⟩)
    have hu : u ∉ bad := hmin u hum
    have : ¬ ∀ r ∈ g.roots, ¬ (r = u ∨ Path g.E r u) := fun h => hu ((hmem u).mpr ⟨wf.src _ _ hum, h⟩)
    apply this
    intro r hr hru
    apply hm'.2 r hr
    cases hru with
    | inl h => exact .inr (h ▸ .single hum)
    | inr p => exact .inr (p.snoc hum)

/-! ## breadth-first search -/

theorem subset_bfsLoop (g : Graph α) : ∀ (f : Nat) (done queue : List α), done ++ queue ⊆ g.bfsLoop f done queue := by
  intro f
  induction f with
  | zero => intro done queue; simp [bfsLoop]
  | succ f ih =>
    intro done queue
    cases queue with
    | nil => simp [bfsLoop]
    | cons v q =>
      simp only [bfsLoop]
      intro x hx
      apply ih
      simp only [List.append_assoc, List.singleton_append]
      have : x ∈ done ++ v :: q := hx
      simp only [List.mem_append, List.mem_cons] at this ⊢
      cases this with
      | inl h => exact .inl h
      | inr h => exact .inr (h.elim .inl (fun h => .inr (.inl h)))

/-- the search yields every vertex once, only vertices, and a set closed under successors -/
theorem bfsLoop_spec {g : Graph α} (wf : g.WF) : ∀ (f : Nat) (done queue : List α),
    (done ++ queue).Nodup → done ++ queue ⊆ g.vs → (∀ v ∈ done, ∀ w, g.E v w → w ∈ done ++ queue) →
    g.vs.length ≤ done.length + f →
    (g.bfsLoop f done queue).Nodup ∧ g.bfsLoop f done queue ⊆ g.vs ∧
      ∀ v ∈ g.bfsLoop f done queue, ∀ w, g.E v w → w ∈ g.bfsLoop f done queue := by
  intro f
  induction f with
  | zero =>
    intro done queue hnd hsub hcl hlen
    simp only [bfsLoop]
    have hq : queue = [] := by
      have h1 := List.Nodup.length_le_of_subset hnd hsub
      simp only [List.length_append] at h1
      exact List.eq_nil_of_length_eq_zero (by omega)
    subst hq
    refine ⟨hnd, hsub, ?_⟩
    intro v hv w hvw
    exact hcl v (by simpa using hv) w hvw
  | succ f ih =>
    intro done queue hnd hsub hcl hlen
    cases queue with
    | nil =>
      simp only [bfsLoop]
      simp only [List.append_nil] at hnd hsub hcl
      exact ⟨hnd, hsub, hcl⟩
    | cons v q =>
      simp only [bfsLoop]
      have heq : (done ++ [v]) ++ (q ++ (g.nbrs v).filter (fun w => w ∉ done ++ v :: q)) =
          (done ++ v :: q) ++ (g.nbrs v).filter (fun w => w ∉ done ++ v :: q) := by simp
      apply ih
      · rw [heq, List.nodup_append]
        refine ⟨hnd, ?_, ?_⟩
        · exact (wf.nodup.sublist List.filter_sublist).sublist List.filter_sublist
        · intro a ha b hb hab
          simp only [List.mem_filter, decide_eq_true_eq] at hb
          exact hb.2 (hab ▸ ha)
      · rw [heq]
        intro x hx
        cases List.mem_append.mp hx with
        | inl h => exact hsub h
        | inr h =>
          have := (List.mem_filter.mp h).1
          exact wf.tgt _ _ ((mem_nbrs wf).mp this)
      · rw [heq]
        intro u hu w huw
        cases List.mem_append.mp hu with
        | inl h => exact List.mem_append_left _ (hcl u h w huw)
        | inr h =>
          have huv : u = v := by simpa using h
          subst huv
          by_cases hw : w ∈ done ++ u :: q
          · exact List.mem_append_left _ hw
          · apply List.mem_append_right
            simp only [List.mem_filter, decide_eq_true_eq]
            exact ⟨(mem_nbrs wf).mpr huw, hw⟩
      · simp only [List.length_append, List.length_singleton]
        omega

theorem bfs_spec {g : Graph α} (wf : g.WF) {r : α} (hr : r ∈ g.vs) :
    (g.bfs r).Nodup ∧ g.bfs r ⊆ g.vs ∧ r ∈ g.bfs r ∧ ∀ v ∈ g.bfs r, ∀ w, g.E v w → w ∈ g.bfs r := by
  have h := bfsLoop_spec wf g.vs.length [] [r] (by simp) (by simpa using hr) (by simp) (by simp)
  exact ⟨h.1, h.2.1, g.subset_bfsLoop _ _ _ (by simp), h.2.2⟩

theorem mem_bfs_of_path {g : Graph α} (wf : g.WF) {r x : α} (hr : r ∈ g.vs) (h : r = x ∨ Path g.E r x) : x ∈ g.bfs r := by
  obtain ⟨_, _, hrin, hcl⟩ := bfs_spec wf hr
  cases h with
  | inl h => exact h ▸ hrin
  | inr p =>
    have : ∀ a b, Path g.E a b → a ∈ g.bfs r → b ∈ g.bfs r := by
      intro a b p
      induction p with
      | single h => exact fun ha => hcl _ ha _ h
      | cons h _ ih => exact fun ha => ih (hcl _ ha _ h)
    exact this _ _ p hrin

/-- with a level function that every edge leaving a visited vertex raises by one, the search yields the vertices in
non-decreasing level order -/
theorem bfsLoop_sorted {g : Graph α} (wf : g.WF) (lv : α → Nat) : ∀ (f : Nat) (done queue : List α),
    (∀ v w, g.E v w → v ∈ g.bfsLoop f done queue → lv w = lv v + 1) →
    (done ++ queue).Pairwise (fun a b => lv a ≤ lv b) → (∀ x ∈ done ++ queue, ∀ y ∈ queue, lv x ≤ lv y + 1) →
    (g.bfsLoop f done queue).Pairwise (fun a b => lv a ≤ lv b) := by
  intro f
  induction f with
  | zero => intro done queue _ hs _; simpa [bfsLoop] using hs
  | succ f ih =>
    intro done queue hedge hs hb
    cases queue with
    | nil => simpa [bfsLoop] using hs
    | cons v q =>
      simp only [bfsLoop] at hedge ⊢
      have heq : (done ++ [v]) ++ (q ++ (g.nbrs v).filter (fun w => w ∉ done ++ v :: q)) =
          (done ++ v :: q) ++ (g.nbrs v).filter (fun w => w ∉ done ++ v :: q) := by simp
      have hvfin : v ∈ g.bfsLoop f (done ++ [v]) (q ++ (g.nbrs v).filter (fun w => w ∉ done ++ v :: q)) :=
        g.subset_bfsLoop _ _ _ (by simp)
      have hnew : ∀ w ∈ (g.nbrs v).filter (fun w => w ∉ done ++ v :: q), lv w = lv v + 1 := by
        intro w hw
        exact hedge v w ((mem_nbrs wf).mp (List.mem_filter.mp hw).1) hvfin
      have hvq : ∀ y ∈ q, lv v ≤ lv y := by
        intro y hy
        have := List.pairwise_append.mp hs
        exact (List.pairwise_cons.mp this.2.1).1 y hy
      apply ih _ _ hedge
      · rw [heq, List.pairwise_append]
        refine ⟨hs, ?_, ?_⟩
        · apply List.Pairwise.imp_of_mem (R := fun _ _ => True)
          · intro a b ha hb _
            rw [hnew a ha, hnew b hb]
            exact Nat.le_refl _
          · exact List.pairwise_of_forall (fun _ _ => trivial)
        · intro a ha b hbn
          rw [hnew b hbn]
          exact hb a ha v (by simp)
      · rw [heq]
        intro x hx y hy
        cases List.mem_append.mp hy with
        | inl hyq =>
          have h1 : lv v ≤ lv y := hvq y hyq
          cases List.mem_append.mp hx with
          | inl hxo =>
            have := hb x hxo v (by simp)
            omega
          | inr hxn =>
            rw [hnew x hxn]
            omega
        | inr hyn =>
          rw [hnew y hyn]
          cases List.mem_append.mp hx with
          | inl hxo =>
            have := hb x hxo v (by simp)
            omega
          | inr hxn =>
            rw [hnew x hxn]
            omega

theorem sublist_pair_of_sorted (lv : α → Nat) : ∀ {l : List α} {a b : α}, l.Pairwise (fun a b => lv a ≤ lv b) →
    a ∈ l → b ∈ l → lv a < lv b → [a, b] <+ l := by
  intro l
  induction l with
  | nil => intro a b _ ha; cases ha
  | cons x t ih =>
    intro a b hs ha hb hlt
    rw [List.pairwise_cons] at hs
    cases List.mem_cons.mp ha with
    | inl hax =>
      subst hax
      cases List.mem_cons.mp hb with
      | inl hbx => subst hbx; omega
      | inr hbt => exact List.Sublist.cons_cons _ (List.singleton_sublist.mpr hbt)
    | inr hat =>
      cases List.mem_cons.mp hb with
      | inl hbx =>
        subst hbx
        have := hs.1 a hat
        omega
      | inr hbt => exact List.Sublist.cons _ (ih hs.2 hat hbt hlt)

/-- under the guard, every edge between visited vertices is respected by the order of the search from a root -/
theorem bfs_respects_edges {g : Graph α} (wf : g.WF) {r : α} (hg : g.gradedFrom r = true) :
    ∀ a b, g.E a b → a ∈ g.bfs r → b ∈ g.bfs r → [a, b] <+ g.bfs r := by
  intro a b hab ha hb
  simp only [gradedFrom, List.all_eq_true, decide_eq_true_eq] at hg
  have hedge : ∀ v w, g.E v w → v ∈ g.bfs r → g.level r w = g.level r v + 1 := fun v w hvw hv => hg (v, w) hvw hv
  have hs := bfsLoop_sorted wf (g.level r) g.vs.length [] [r] hedge (by simp) (by simp)
  exact sublist_pair_of_sorted (g.level r) hs ha hb (by rw [hedge a b hab ha]; omega)

/-! ## the remove-then-append merge -/

theorem eraseAll_eq_filter : ∀ (loc order : List α), order.Nodup → eraseAll order loc = order.filter (fun x => x ∉ loc) := by
  intro loc
  induction loc with
  | nil =>
    intro order _
    simp only [eraseAll, List.foldl_nil]
    symm
    apply List.filter_eq_self.mpr
    intro a _
    simp
  | cons x loc ih =>
    intro order hnd
    have hstep : (if x ∈ order then order.erase x else order) = order.filter (fun y => y != x) := by
      split
      · exact List.Nodup.erase_eq_filter hnd x
      · rename_i hx
        symm
        rw [List.filter_eq_self]
        intro a ha
        simp only [bne_iff_ne, ne_eq]
        exact fun h => hx (h ▸ ha)
    have : eraseAll order (x :: loc) = eraseAll (if x ∈ order then order.erase x else order) loc := by
      simp [eraseAll]
    rw [this, hstep, ih _ (hnd.sublist List.filter_sublist), List.filter_filter]
    apply List.filter_congr
    intro a _
    by_cases h1 : a = x <;> by_cases h2 : a ∈ loc <;> simp [h1, h2]

theorem mergeRoot_eq (g : Graph α) (order : List α) (r : α) (hnd : order.Nodup) :
    g.mergeRoot order r = order.filter (fun x => x ∉ g.bfs r) ++ g.bfs r := by
  simp [mergeRoot, eraseAll_eq_filter _ _ hnd]

theorem foldl_mergeRoot_spec {g : Graph α} (wf : g.WF) : ∀ (rs order : List α), rs ⊆ g.vs → order.Nodup →
    (rs.foldl g.mergeRoot order).Nodup ∧ ∀ x, x ∈ rs.foldl g.mergeRoot order ↔ x ∈ order ∨ ∃ r ∈ rs, x ∈ g.bfs r := by
  intro rs
  induction rs with
  | nil => intro order _ hnd; simp [hnd]
  | cons r rs ih =>
    intro order hrs hnd
    simp only [List.foldl_cons]
    have hr : r ∈ g.vs := hrs (by simp)
    have hb := bfs_spec wf hr
    have hnd' : (g.mergeRoot order r).Nodup := by
      rw [mergeRoot_eq g order r hnd, List.nodup_append]
      refine ⟨hnd.sublist List.filter_sublist, hb.1, ?_⟩
      intro a ha b hb' hab
      simp only [List.mem_filter, decide_eq_true_eq] at ha
      exact ha.2 (hab ▸ hb')
    have hmem : ∀ x, x ∈ g.mergeRoot order r ↔ x ∈ order ∨ x ∈ g.bfs r := by
      intro x
      rw [mergeRoot_eq g order r hnd]
      simp only [List.mem_append, List.mem_filter, decide_eq_true_eq]
      constructor
      · rintro (h | h)
        · exact .inl h.1
        · exact .inr h
      · rintro (h | h)
        · by_cases hx : x ∈ g.bfs r
          · exact .inr hx
          · exact .inl ⟨h, hx⟩
        · exact .inr h
    obtain ⟨h1, h2⟩ := ih _ (fun x hx => hrs (List.mem_cons_of_mem _ hx)) hnd'
    refine ⟨h1, fun x => ?_⟩
    rw [h2 x, hmem x]
    simp only [List.mem_cons, exists_eq_or_imp]
    constructor
    · rintro ((h | h) | h)
      · exact .inl h
      · exact .inr (.inl h)
      · exact .inr (.inr h)
    · rintro (h | h | h)
      · exact .inl (.inl h)
      · exact .inl (.inr h)
      · exact .inr h

theorem foldl_mergeRoot_respects {g : Graph α} (wf : g.WF) : ∀ (rs order : List α), rs ⊆ g.vs → order.Nodup →
    (∀ r ∈ rs, ∀ a b, g.E a b → a ∈ g.bfs r → b ∈ g.bfs r → [a, b] <+ g.bfs r) →
    (∀ a b, g.E a b → a ∈ order → b ∈ order → [a, b] <+ order) →
    ∀ a b, g.E a b → a ∈ rs.foldl g.mergeRoot order → b ∈ rs.foldl g.mergeRoot order → [a, b] <+ rs.foldl g.mergeRoot order := by
  intro rs
  induction rs with
  | nil => intro order _ _ _ h; simpa using h
  | cons r rs ih =>
    intro order hrs hnd hgood hord
    simp only [List.foldl_cons]
    have hr : r ∈ g.vs := hrs (by simp)
    have hb := bfs_spec wf hr
    have hnd' : (g.mergeRoot order r).Nodup := (foldl_mergeRoot_spec wf [r] order (by simpa using hr) hnd).1
    apply ih _ (fun x hx => hrs (List.mem_cons_of_mem _ hx)) hnd' (fun r' hr' => hgood r' (List.mem_cons_of_mem _ hr'))
    intro a b hab ha hb'
    rw [mergeRoot_eq g order r hnd] at ha hb' ⊢
    by_cases haL : a ∈ g.bfs r
    · have hbL : b ∈ g.bfs r := hb.2.2.2 a haL b hab
      exact (hgood r (by simp) a b hab haL hbL).trans (List.sublist_append_right _ _)
    · have haO : a ∈ order.filter (fun x => x ∉ g.bfs r) := by
        cases List.mem_append.mp ha with
        | inl h => exact h
        | inr h => exact absurd h haL
      by_cases hbL : b ∈ g.bfs r
      · have h1 : [a] <+ order.filter (fun x => x ∉ g.bfs r) := List.singleton_sublist.mpr haO
        have h2 : [b] <+ g.bfs r := List.singleton_sublist.mpr hbL
        exact List.Sublist.append h1 h2
      · have hbO : b ∈ order.filter (fun x => x ∉ g.bfs r) := by
          cases List.mem_append.mp hb' with
          | inl h => exact h
          | inr h => exact absurd h hbL
        have h0 := hord a b hab (List.mem_filter.mp haO).1 (List.mem_filter.mp hbO).1
        have h1 := h0.filter (fun x => decide (x ∉ g.bfs r))
        have h2 : [a, b].filter (fun x => decide (x ∉ g.bfs r)) = [a, b] := by
          simp [haL, hbL]
        rw [h2] at h1
        exact h1.trans (List.sublist_append_left _ _)

/-! ## the graph built from an input -/

theorem mem_createVertex_vs (g : Graph α) (n x : α) : x ∈ (g.createVertex n).vs ↔ x ∈ g.vs ∨ x = n := by
  simp only [createVertex]
  split
  · rename_i h
    constructor
    · exact .inl
    · rintro (h1 | h1)
      · exact h1
      · exact h1 ▸ h
  · simp

theorem createVertex_es (g : Graph α) (n : α) : (g.createVertex n).es = g.es := by
  simp only [createVertex]
  split <;> rfl

theorem createVertex_wf {g : Graph α} (wf : g.WF) (n : α) : (g.createVertex n).WF := by
  refine ⟨?_, ?_, ?_⟩
  · simp only [createVertex]
    split
    · exact wf.nodup
    · rename_i h
      rw [List.nodup_append]
      refine ⟨wf.nodup, by simp, ?_⟩
      intro a ha b hb hab
      have : b = n := by simpa using hb
      exact h (this ▸ hab ▸ ha)
  · intro a b h
    rw [createVertex_es] at h
    exact (mem_createVertex_vs g n a).mpr (.inl (wf.src _ _ h))
  · intro a b h
    rw [createVertex_es] at h
    exact (mem_createVertex_vs g n b).mpr (.inl (wf.tgt _ _ h))

theorem mem_addCall_vs (active : α) (g : Graph α) (c x : α) : x ∈ (addCall active g c).vs ↔ x ∈ g.vs ∨ x = c := by
  simp only [addCall]
  split <;> exact mem_createVertex_vs g c x

theorem mem_addCall_es (active : α) (g : Graph α) (c : α) (e : α × α) :
    e ∈ (addCall active g c).es ↔ e ∈ g.es ∨ e = (c, active) := by
  simp only [addCall]
  split
  · rename_i h
    rw [createVertex_es] at h ⊢
    constructor
    · exact .inl
    · rintro (h1 | h1)
      · exact h1
      · exact h1 ▸ h
  · simp [createVertex_es]

theorem addCall_wf {active : α} {g : Graph α} (wf : g.WF) (hact : active ∈ g.vs) (c : α) : (addCall active g c).WF := by
  have wf1 := createVertex_wf wf c
  have hc : c ∈ (g.createVertex c).vs := (mem_createVertex_vs g c c).mpr (.inr rfl)
  have ha : active ∈ (g.createVertex c).vs := (mem_createVertex_vs g c active).mpr (.inl hact)
  simp only [addCall]
  split
  · exact wf1
  · refine ⟨wf1.nodup, ?_, ?_⟩
    · intro a b h
      simp only [List.mem_append, List.mem_singleton, Prod.mk.injEq] at h
      cases h with
      | inl h => exact wf1.src _ _ h
      | inr h => exact h.1 ▸ hc
    · intro a b h
      simp only [List.mem_append, List.mem_singleton, Prod.mk.injEq] at h
      cases h with
      | inl h => exact wf1.tgt _ _ h
      | inr h => exact h.2 ▸ ha

theorem foldl_addCall_spec (active : α) : ∀ (cs : List α) (g : Graph α), g.WF → active ∈ g.vs →
    (cs.foldl (addCall active) g).WF ∧ (∀ x, x ∈ (cs.foldl (addCall active) g).vs ↔ x ∈ g.vs ∨ x ∈ cs) ∧
      ∀ e, e ∈ (cs.foldl (addCall active) g).es ↔ e ∈ g.es ∨ ∃ c ∈ cs, e = (c, active) := by
  intro cs
  induction cs with
  | nil => intro g wf _; simp [wf]
  | cons c cs ih =>
    intro g wf hact
    simp only [List.foldl_cons]
    have wf1 := addCall_wf wf hact c
    have hact1 : active ∈ (addCall active g c).vs := (mem_addCall_vs active g c active).mpr (.inl hact)
    obtain ⟨h1, h2, h3⟩ := ih _ wf1 hact1
    refine ⟨h1, fun x => ?_, fun e => ?_⟩
    · rw [h2 x, mem_addCall_vs]
      simp only [List.mem_cons]
      constructor
      · rintro ((h | h) | h)
        · exact .inl h
        · exact .inr (.inl h)
        · exact .inr (.inr h)
      · rintro (h | h | h)
        · exact .inl (.inl h)
        · exact .inl (.inr h)
        · exact .inr h
    · rw [h3 e, mem_addCall_es]
      simp only [List.mem_cons, exists_eq_or_imp]
      constructor
      · rintro ((h | h) | h)
        · exact .inl h
        · exact .inr (.inl h)
        · exact .inr (.inr h)
      · rintro (h | h | h)
        · exact .inl (.inl h)
        · exact .inl (.inr h)
        · exact .inr h

theorem addDef_spec {g : Graph α} (wf : g.WF) (d : α × List α) :
    (g.addDef d).WF ∧ (∀ x, x ∈ (g.addDef d).vs ↔ x ∈ g.vs ∨ x = d.1 ∨ x ∈ d.2) ∧
      ∀ e, e ∈ (g.addDef d).es ↔ e ∈ g.es ∨ ∃ c ∈ d.2, e = (c, d.1) := by
  have wf1 := createVertex_wf wf d.1
  have hd : d.1 ∈ (g.createVertex d.1).vs := (mem_createVertex_vs g d.1 d.1).mpr (.inr rfl)
  obtain ⟨h1, h2, h3⟩ := foldl_addCall_spec d.1 d.2 _ wf1 hd
  refine ⟨h1, fun x => ?_, fun e => ?_⟩
  · show x ∈ (d.2.foldl (addCall d.1) (g.createVertex d.1)).vs ↔ _
    rw [h2 x, mem_createVertex_vs]
    constructor
    · rintro ((h | h) | h)
      · exact .inl h
      · exact .inr (.inl h)
      · exact .inr (.inr h)
    · rintro (h | h | h)
      · exact .inl (.inl h)
      · exact .inl (.inr h)
      · exact .inr h
  · show e ∈ (d.2.foldl (addCall d.1) (g.createVertex d.1)).es ↔ _
    rw [h3 e, createVertex_es]

theorem foldl_addDef_spec : ∀ (defs : List (α × List α)) (g : Graph α), g.WF →
    (defs.foldl addDef g).WF ∧ (∀ x, x ∈ (defs.foldl addDef g).vs ↔ x ∈ g.vs ∨ ∃ d ∈ defs, x = d.1 ∨ x ∈ d.2) ∧
      ∀ e, e ∈ (defs.foldl addDef g).es ↔ e ∈ g.es ∨ ∃ d ∈ defs, ∃ c ∈ d.2, e = (c, d.1) := by
  intro defs
  induction defs with
  | nil => intro g wf; simp [wf]
  | cons d defs ih =>
    intro g wf
    simp only [List.foldl_cons]
    obtain ⟨w1, v1, e1⟩ := addDef_spec wf d
    obtain ⟨h1, h2, h3⟩ := ih _ w1
    refine ⟨h1, fun x => ?_, fun e => ?_⟩
    · rw [h2 x, v1 x]
      simp only [List.mem_cons, exists_eq_or_imp]
      constructor
      · rintro ((h | h) | h)
        · exact .inl h
        · exact .inr (.inl h)
        · exact .inr (.inr h)
      · rintro (h | h | h)
        · exact .inl (.inl h)
        · exact .inl (.inr h)
        · exact .inr h
    · rw [h3 e, e1 e]
      simp only [List.mem_cons, exists_eq_or_imp]
      constructor
      · rintro ((h | h) | h)
        · exact .inl h
        · exact .inr (.inl h)
        · exact .inr (.inr h)
      · rintro (h | h | h)
        · exact .inl (.inl h)
        · exact .inl (.inr h)
        · exact .inr h

theorem foldl_createVertex_spec : ∀ (ns : List α) (g : Graph α), g.WF →
    (ns.foldl createVertex g).WF ∧ (∀ x, x ∈ (ns.foldl createVertex g).vs ↔ x ∈ g.vs ∨ x ∈ ns) ∧
      (ns.foldl createVertex g).es = g.es := by
  intro ns
  induction ns with
  | nil => intro g wf; simp [wf]
  | cons n ns ih =>
    intro g wf
    simp only [List.foldl_cons]
    obtain ⟨h1, h2, h3⟩ := ih _ (createVertex_wf wf n)
    refine ⟨h1, fun x => ?_, by rw [h3, createVertex_es]⟩
    rw [h2 x, mem_createVertex_vs]
    simp only [List.mem_cons]
    constructor
    · rintro ((h | h) | h)
      · exact .inl h
      · exact .inr (.inl h)
      · exact .inr (.inr h)
    · rintro (h | h | h)
      · exact .inl (.inl h)
      · exact .inl (.inr h)
      · exact .inr h

end Graph

/-- callee `a` is called in the body of the macro definition named `b` -/
def Calls (inp : Input α) (a b : α) : Prop := ∃ d ∈ inp.defs, d.1 = b ∧ a ∈ d.2

/-- the macro definitions of the file do not call each other in a circle -/
def Acyclic (inp : Input α) : Prop := ∀ a, ¬ Path (Calls inp) a a

theorem build_spec (inp : Input α) :
    (build inp).WF ∧ (∀ x, x ∈ (build inp).vs ↔ x ∈ inp.imported ∨ ∃ d ∈ inp.defs, x = d.1 ∨ x ∈ d.2) ∧
      ∀ a b, (build inp).E a b ↔ Calls inp a b := by
  have wf0 : (⟨[], []⟩ : Graph α).WF := ⟨by simp, by simp, by simp⟩
  obtain ⟨w1, v1, e1⟩ := Graph.foldl_createVertex_spec inp.imported _ wf0
  obtain ⟨w2, v2, e2⟩ := Graph.foldl_addDef_spec inp.defs _ w1
  refine ⟨w2, fun x => ?_, fun a b => ?_⟩
  · show x ∈ (inp.defs.foldl Graph.addDef (inp.imported.foldl Graph.createVertex ⟨[], []⟩)).vs ↔ _
    rw [v2 x, v1 x]
    simp
  · show (a, b) ∈ (inp.defs.foldl Graph.addDef (inp.imported.foldl Graph.createVertex ⟨[], []⟩)).es ↔ _
    rw [e2 (a, b), e1]
    simp only [List.not_mem_nil, false_or, Prod.mk.injEq, Calls]
    constructor
    · rintro ⟨d, hd, c, hc, h1, h2⟩
      exact ⟨d, hd, h2.symm, h1 ▸ hc⟩
    · rintro ⟨d, hd, h1, h2⟩
      exact ⟨d, hd, a, h2, rfl, h1.symm⟩

theorem build_acyclic_iff (inp : Input α) : (build inp).Acyclic ↔ Acyclic inp := by
  have he := (build_spec inp).2.2
  constructor
  · intro h a p
    exact h a (p.mono (fun x y hxy => (he x y).mpr hxy))
  · intro h a p
    exact h a (p.mono (fun x y hxy => (he x y).mp hxy))

end ESV.Macro
