import ESV.Cache.Model
/-
Lemmas about the sequential memo machine (ESV/Cache/Model.lean): the locked sections expressed through `Memo.look`,
a whole query as its two sections, the freshness invariant, the simulation between two memo tables that agree on the
cleared ids, emptiness of the tables outside `dirtyAfter`.
-/
set_option linter.unusedSectionVars false
namespace ESV.Cache

section
variable {K A C R : Type} [DecidableEq K]

theorem lookup_snd (m : Memo K R) (g : Gid) (k : K) : (m.lookup g k).2 = m.look g k := by
  unfold Memo.lookup Memo.look
  cases h : m g <;> simp [emptyTable]

theorem look_lookup_fst (m : Memo K R) (g g' : Gid) (k k' : K) : (m.lookup g k).1.look g' k' = m.look g' k' := by
  unfold Memo.lookup Memo.look
  by_cases hg : g' = g
  · subst hg
    cases h : m g' <;> simp [emptyTable]
  · simp [hg]

theorem lookup_fst_ne_none (m : Memo K R) (g : Gid) (k : K) : (m.lookup g k).1 g ≠ none := by
  simp [Memo.lookup]

theorem store_keeps (m m2 : Memo K R) (g g' : Gid) (k : K) (r : R) (hs : m.store g k r = some m2) (h : m g' ≠ none) :
    m2 g' ≠ none := by
  unfold Memo.store at hs
  cases hm : m g with
  | none => simp [hm] at hs
  | some tbl =>
    simp only [hm, Option.some.injEq] at hs
    subst hs
    by_cases hg : g' = g
    · subst hg; simp
    · simp [hg, h]

theorem store_some (m : Memo K R) (g : Gid) (k : K) (r : R) (h : m g ≠ none) :
    ∃ m2, m.store g k r = some m2 ∧ m2 g ≠ none ∧
      ∀ g' k', m2.look g' k' = if g' = g ∧ k' = k then some r else m.look g' k' := by
  unfold Memo.store
  cases hm : m g with
  | none => exact absurd hm h
  | some tbl =>
    refine ⟨_, rfl, by simp, ?_⟩
    intro g' k'
    unfold Memo.look
    by_cases hg : g' = g
    · subst hg
      by_cases hk : k' = k
      · subst hk; simp
      · simp [hk, hm]
    · simp [hg]

theorem store_none (m : Memo K R) (g : Gid) (k : K) (r : R) (h : m g = none) : m.store g k r = none := by
  simp [Memo.store, h]

theorem look_clear (m : Memo K R) (g g' : Gid) (k' : K) :
    (m.clear g).look g' k' = if g' = g then none else m.look g' k' := by
  unfold Memo.clear Memo.look
  by_cases hg : g' = g
  · subst hg; simp [emptyTable]
  · simp [hg]

theorem clear_ne_none (m : Memo K R) (g : Gid) : (m.clear g) g ≠ none := by simp [Memo.clear]

/-- the outer dict never loses a key -/
theorem clear_keeps (m : Memo K R) (g g' : Gid) (h : m g' ≠ none) : (m.clear g) g' ≠ none := by
  unfold Memo.clear
  by_cases hg : g' = g
  · subst hg; simp
  · simp [hg, h]

theorem lookup_keeps (m : Memo K R) (g g' : Gid) (k : K) (h : m g' ≠ none) : (m.lookup g k).1 g' ≠ none := by
  unfold Memo.lookup
  by_cases hg : g' = g
  · subst hg; simp
  · simp [hg, h]

/-! ### `step`, case by case -/

theorem step_lookup_dead (rc : C → K → A → R) (s : St K C R) (g : Gid) (k : K) (a : A) (hl : s.live g = none) :
    step rc s (.lookup g k a) = (⟨s.live, (s.memo.lookup g k).1⟩, .illFormed) := by
  simp [step, hl]

theorem step_lookup_hit (rc : C → K → A → R) (s : St K C R) (g : Gid) (k : K) (a : A) (c : C) (r : R)
    (hl : s.live g = some c) (hk : s.memo.look g k = some r) :
    step rc s (.lookup g k a) = (⟨s.live, (s.memo.lookup g k).1⟩, .val r true) := by
  have h2 := lookup_snd s.memo g k
  rw [hk] at h2
  simp [step, hl, h2]

theorem step_lookup_miss (rc : C → K → A → R) (s : St K C R) (g : Gid) (k : K) (a : A) (c : C)
    (hl : s.live g = some c) (hk : s.memo.look g k = none) :
    step rc s (.lookup g k a) = (⟨s.live, (s.memo.lookup g k).1⟩, .miss) := by
  have h2 := lookup_snd s.memo g k
  rw [hk] at h2
  simp [step, hl, h2]

theorem step_store_dead (rc : C → K → A → R) (s : St K C R) (g : Gid) (k : K) (a : A) (hl : s.live g = none) :
    step rc s (.store g k a) = (s, .illFormed) := by
  simp [step, hl]

theorem step_store_live (rc : C → K → A → R) (s : St K C R) (g : Gid) (k : K) (a : A) (c : C)
    (hl : s.live g = some c) (hm : s.memo g ≠ none) :
    ∃ m2, step rc s (.store g k a) = (⟨s.live, m2⟩, .val (rc c k a) false) ∧ m2 g ≠ none ∧
      (∀ g', s.memo g' ≠ none → m2 g' ≠ none) ∧
      ∀ g' k', m2.look g' k' = if g' = g ∧ k' = k then some (rc c k a) else s.memo.look g' k' := by
  obtain ⟨m2, hs, hne, hlook⟩ := store_some s.memo g k (rc c k a) hm
  refine ⟨m2, ?_, hne, fun g' h => store_keeps _ _ _ _ _ _ hs h, hlook⟩
  simp [step, hl, hs]

theorem step_store_keyerror (rc : C → K → A → R) (s : St K C R) (g : Gid) (k : K) (a : A) (c : C)
    (hl : s.live g = some c) (hm : s.memo g = none) : step rc s (.store g k a) = (s, .keyError) := by
  simp [step, hl, store_none _ _ _ _ hm]

/-- a whole query is its lookup section and, on a miss, its store section -/
theorem step_query_sections (rc : C → K → A → R) (s : St K C R) (g : Gid) (k : K) (a : A) :
    step rc s (.query g k a) =
      match (step rc s (.lookup g k a)).2 with
      | .miss => step rc (step rc s (.lookup g k a)).1 (.store g k a)
      | _ => step rc s (.lookup g k a) := by
  cases hl : s.live g with
  | none => simp [step, hl]
  | some c =>
    cases hk : (s.memo.lookup g k).2 with
    | some r => simp [step, hl, hk]
    | none =>
      simp only [step, hl, hk]

theorem step_clear (rc : C → K → A → R) (s : St K C R) (g : Gid) :
    (step rc s (.clear g : MOp K A C)).1 = ⟨s.live, s.memo.clear g⟩ ∧
      ((step rc s (.clear g : MOp K A C)).2 = .ok ∨ (step rc s (.clear g : MOp K A C)).2 = .illFormed) := by
  refine ⟨rfl, ?_⟩
  simp only [step]; split <;> simp

/-- `alloc`, `mutate`, `drop` -/
def MOp.isPrivate : MOp K A C → Bool
  | .alloc .. | .mutate .. | .drop .. => true
  | _ => false

def MOp.gid : MOp K A C → Gid
  | .alloc g _ | .mutate g _ | .drop g | .clear g | .query g _ _ | .lookup g _ _ | .store g _ _ => g

theorem step_private (rc : C → K → A → R) (s : St K C R) (op : MOp K A C) (h : op.isPrivate = true) :
    (step rc s op).1 = ⟨liveStep s.live op, s.memo⟩ ∧ ((step rc s op).2 = .ok ∨ (step rc s op).2 = .illFormed) := by
  cases op with
  | alloc g c => simp only [step, liveStep, liveStepAux, liveOk]; split <;> simp_all
  | mutate g c => simp only [step, liveStep, liveStepAux, liveOk]; split <;> simp_all
  | drop g => simp only [step, liveStep, liveStepAux, liveOk]; split <;> simp_all
  | clear g => cases h
  | query g k a => cases h
  | lookup g k a => cases h
  | store g k a => cases h

theorem step_private_out (rc : C → K → A → R) (l : Gid → Option C) (m m' : Memo K R) (op : MOp K A C)
    (h : op.isPrivate = true) : (step rc ⟨l, m⟩ op).2 = (step rc ⟨l, m'⟩ op).2 := by
  cases op with
  | alloc g c => simp only [step]; split <;> rfl
  | mutate g c => simp only [step]; split <;> rfl
  | drop g => simp only [step]; split <;> rfl
  | clear g => cases h
  | query g k a => cases h
  | lookup g k a => cases h
  | store g k a => cases h

theorem liveStep_other (l : Gid → Option C) (op : MOp K A C) (g' : Gid) (h : g' ≠ op.gid) : liveStep l op g' = l g' := by
  cases op with
  | alloc g c => simp only [MOp.gid] at h; simp only [liveStep, liveStepAux]; split <;> simp [h]
  | mutate g c => simp only [MOp.gid] at h; simp only [liveStep, liveStepAux]; split <;> simp [h]
  | drop g => simp only [MOp.gid] at h; simp only [liveStep, liveStepAux]; split <;> simp [h]
  | clear g => rfl
  | query g k a => rfl
  | lookup g k a => rfl
  | store g k a => rfl

theorem liveStep_public (l : Gid → Option C) (op : MOp K A C) (h : op.isPrivate = false) : liveStep l op = l := by
  cases op <;> first | rfl | cases h

/-- `live` evolves independently of the memo table -/
theorem step_live (rc : C → K → A → R) (s : St K C R) (op : MOp K A C) : (step rc s op).1.live = liveStep s.live op := by
  cases op with
  | alloc g c => exact congrArg St.live (step_private rc s (.alloc g c) rfl).1
  | mutate g c => exact congrArg St.live (step_private rc s (.mutate g c) rfl).1
  | drop g => exact congrArg St.live (step_private rc s (.drop g) rfl).1
  | clear g => rfl
  | lookup g k a =>
    simp only [step, liveStep, liveStepAux]
    split
    · rfl
    · split <;> rfl
  | store g k a =>
    simp only [step, liveStep, liveStepAux]
    split
    · rfl
    · split <;> rfl
  | query g k a =>
    simp only [step, liveStep, liveStepAux]
    split
    · rfl
    · split
      · rfl
      · split <;> rfl

theorem step_memo_keeps (rc : C → K → A → R) (s : St K C R) (op : MOp K A C) (g' : Gid) (h : s.memo g' ≠ none) :
    (step rc s op).1.memo g' ≠ none := by
  cases op with
  | alloc g c => rw [(step_private rc s (.alloc g c) rfl).1]; exact h
  | mutate g c => rw [(step_private rc s (.mutate g c) rfl).1]; exact h
  | drop g => rw [(step_private rc s (.drop g) rfl).1]; exact h
  | clear g => exact clear_keeps _ _ _ h
  | lookup g k a =>
    simp only [step]
    split
    · exact lookup_keeps _ _ _ k h
    · split <;> exact lookup_keeps _ _ _ k h
  | store g k a =>
    simp only [step]
    split
    · exact h
    · split
      · exact h
      · rename_i m2 hs
        exact store_keeps _ _ _ _ _ _ hs h
  | query g k a =>
    simp only [step]
    split
    · exact lookup_keeps _ _ _ k h
    · split
      · exact lookup_keeps _ _ _ k h
      · split
        · exact lookup_keeps _ _ _ k h
        · rename_i m2 hs
          exact store_keeps _ _ _ _ _ _ hs (lookup_keeps _ _ _ k h)

/-! ### freshness under `Disciplined` -/
variable [DecidableEq A]

/-- every entry of the table of a cleared live graph was computed from the graph's current content, with the argument
recorded in the ghost state; the table of a cleared id exists -/
structure FreshInv (rc : C → K → A → R) (s : St K C R) (d : Ghost K A) : Prop where
  ent : ∀ g f c k r, d g = some f → s.live g = some c → s.memo.look g k = some r → ∃ a, f k = some a ∧ r = rc c k a
  ex : ∀ g f, d g = some f → s.memo g ≠ none

theorem ghostOf_query_lookup (d : Ghost K A) (g : Gid) (k : K) (a : A) :
    ghostOf d (.query g k a : MOp K A C) = ghostOf d (.lookup g k a : MOp K A C) := rfl

/-- what a passed lookup check means -/
theorem ghostOf_lookup_some (d d' : Ghost K A) (g : Gid) (k : K) (a : A)
    (h : ghostOf d (.lookup g k a : MOp K A C) = some d') :
    ∃ f, d g = some f ∧ (∀ a', f k = some a' → a' = a) ∧ d' = upd d g (some (upd f k (some a))) := by
  simp only [ghostOf] at h
  cases hd : d g with
  | none => simp [hd] at h
  | some f =>
    simp only [hd] at h
    cases hf : f k with
    | none =>
      simp only [hf, Option.some.injEq] at h
      exact ⟨f, rfl, (by intro a' h'; rw [hf] at h'; cases h'), h.symm⟩
    | some a0 =>
      simp only [hf] at h
      by_cases e : a0 = a
      · simp only [e, if_true, Option.some.injEq] at h
        exact ⟨f, rfl, (by intro a' h'; rw [hf] at h'; cases h'; exact e), h.symm⟩
      · simp [e] at h

theorem ghostOf_store_some (d d' : Ghost K A) (g : Gid) (k : K) (a : A)
    (h : ghostOf d (.store g k a : MOp K A C) = some d') : ∃ f, d g = some f ∧ f k = some a ∧ d' = d := by
  simp only [ghostOf] at h
  cases hd : d g with
  | none => simp [hd] at h
  | some f =>
    simp only [hd] at h
    cases hf : f k with
    | none => simp [hf] at h
    | some a0 =>
      simp only [hf] at h
      by_cases e : a0 = a
      · simp only [e, if_true, Option.some.injEq] at h
        exact ⟨f, rfl, (by rw [hf, e]), h.symm⟩
      · simp [e] at h

theorem ghostOf_store_after_lookup (d : Ghost K A) (f : K → Option A) (g : Gid) (k : K) (a : A) :
    ghostOf (upd d g (some (upd f k (some a)))) (.store g k a : MOp K A C) = some (upd d g (some (upd f k (some a)))) := by
  simp [ghostOf]

theorem fresh_lookup (rc : C → K → A → R) (s : St K C R) (d d' : Ghost K A) (g : Gid) (k : K) (a : A)
    (inv : FreshInv rc s d) (hg : ghostOf d (.lookup g k a : MOp K A C) = some d') :
    FreshInv rc (step rc s (.lookup g k a)).1 d' ∧ (step rc s (.lookup g k a)).2.Agrees (expected rc s.live (.lookup g k a)) := by
  obtain ⟨f, hdg, hcompat, hd'⟩ := ghostOf_lookup_some d d' g k a hg
  subst hd'
  cases hl : s.live g with
  | none =>
    rw [step_lookup_dead rc s g k a hl]
    refine ⟨⟨?_, ?_⟩, trivial⟩
    · intro g' f' c' k' r h1 h2 h3
      simp only [look_lookup_fst] at h3
      by_cases e : g' = g
      · subst e; simp only at h2; rw [hl] at h2; cases h2
      · rw [upd_other _ _ _ _ e] at h1; exact inv.ent g' f' c' k' r h1 h2 h3
    · intro g' f' h1
      by_cases e : g' = g
      · subst e; exact lookup_fst_ne_none _ _ k
      · rw [upd_other _ _ _ _ e] at h1; exact lookup_keeps _ _ _ k (inv.ex g' f' h1)
  | some c =>
    have hinv : ∀ r0, (s.memo.look g k = some r0 → r0 = rc c k a) →
        FreshInv rc ⟨s.live, (s.memo.lookup g k).1⟩ (upd d g (some (upd f k (some a)))) := by
      intro r0 hr0
      refine ⟨?_, ?_⟩
      · intro g' f' c' k' r h1 h2 h3
        simp only [look_lookup_fst] at h3
        by_cases e : g' = g
        · subst e
          simp only [upd_same, Option.some.injEq] at h1
          subst h1
          simp only at h2
          rw [hl] at h2; cases h2
          by_cases ek : k' = k
          · subst ek
            obtain ⟨a0, ha0, hr⟩ := inv.ent g' f c k' r hdg hl h3
            have := hcompat a0 ha0
            subst this
            exact ⟨a0, by simp, hr⟩
          · obtain ⟨a0, ha0, hr⟩ := inv.ent g' f c k' r hdg hl h3
            exact ⟨a0, by simp [ek, ha0], hr⟩
        · rw [upd_other _ _ _ _ e] at h1; exact inv.ent g' f' c' k' r h1 h2 h3
      · intro g' f' h1
        by_cases e : g' = g
        · subst e; exact lookup_fst_ne_none _ _ k
        · rw [upd_other _ _ _ _ e] at h1
          exact lookup_keeps _ _ _ k (inv.ex g' f' h1)
    cases hk : s.memo.look g k with
    | some r =>
      rw [step_lookup_hit rc s g k a c r hl hk]
      obtain ⟨a0, ha0, hr⟩ := inv.ent g f c k r hdg hl hk
      have := hcompat a0 ha0
      subst this
      refine ⟨hinv r (fun _ => hr), ?_⟩
      simp [Out.Agrees, expected, hl, hr]
    | none =>
      rw [step_lookup_miss rc s g k a c hl hk]
      exact ⟨hinv (rc c k a) (fun h => by simp [hk] at h), trivial⟩

theorem fresh_store (rc : C → K → A → R) (s : St K C R) (d d' : Ghost K A) (g : Gid) (k : K) (a : A)
    (inv : FreshInv rc s d) (hg : ghostOf d (.store g k a : MOp K A C) = some d') :
    FreshInv rc (step rc s (.store g k a)).1 d' ∧ (step rc s (.store g k a)).2.Agrees (expected rc s.live (.store g k a)) := by
  obtain ⟨f, hdg, hfk, hd'⟩ := ghostOf_store_some d d' g k a hg
  subst hd'
  cases hl : s.live g with
  | none =>
    rw [step_store_dead rc s g k a hl]
    exact ⟨inv, trivial⟩
  | some c =>
    obtain ⟨m2, hstep, hne, hkeep, hlook⟩ := step_store_live rc s g k a c hl (inv.ex g f hdg)
    rw [hstep]
    refine ⟨⟨?_, ?_⟩, ?_⟩
    · intro g' f' c' k' r h1 h2 h3
      simp only [hlook] at h3
      by_cases e : g' = g
      · subst e
        rw [hdg] at h1; cases h1
        simp only at h2
        rw [hl] at h2; cases h2
        by_cases ek : k' = k
        · subst ek
          simp only [and_self, if_true, Option.some.injEq] at h3
          exact ⟨a, hfk, h3.symm⟩
        · simp only [ek, and_false, if_false] at h3
          exact inv.ent g' f c k' r hdg hl h3
      · simp only [e, false_and, if_false] at h3
        exact inv.ent g' f' c' k' r h1 h2 h3
    · intro g' f' h1
      exact hkeep g' (inv.ex g' f' h1)
    · simp [Out.Agrees, expected, hl]

theorem fresh_step (rc : C → K → A → R) (s : St K C R) (d d' : Ghost K A) (op : MOp K A C)
    (inv : FreshInv rc s d) (hg : ghostOf d op = some d') :
    FreshInv rc (step rc s op).1 d' ∧ (step rc s op).2.Agrees (expected rc s.live op) := by
  cases op with
  | lookup g k a => exact fresh_lookup rc s d d' g k a inv hg
  | store g k a => exact fresh_store rc s d d' g k a inv hg
  | query g k a =>
    rw [ghostOf_query_lookup] at hg
    obtain ⟨inv1, ag1⟩ := fresh_lookup rc s d d' g k a inv hg
    obtain ⟨f, _, _, hd'⟩ := ghostOf_lookup_some d d' g k a hg
    rw [step_query_sections]
    have hexp : expected rc s.live (.query g k a : MOp K A C) = expected rc s.live (.lookup g k a : MOp K A C) := rfl
    rw [hexp]
    split
    · rename_i hmiss
      have hst := fresh_store rc (step rc s (.lookup g k a)).1 d' d' g k a inv1 (by rw [hd']; exact ghostOf_store_after_lookup d f g k a)
      have hlive : (step rc s (.lookup g k a)).1.live = s.live := by rw [step_live]; rfl
      have hexp2 : expected rc (step rc s (.lookup g k a)).1.live (.store g k a : MOp K A C) = expected rc s.live (.lookup g k a : MOp K A C) := by
        rw [hlive]; rfl
      rw [← hexp2]
      exact hst
    · exact ⟨inv1, ag1⟩
  | clear g =>
    simp only [ghostOf, Option.some.injEq] at hg
    subst hg
    obtain ⟨h1, h2⟩ := step_clear rc s g
    rw [h1]
    refine ⟨⟨?_, ?_⟩, ?_⟩
    · intro g' f c' k r hdg hlg hlk
      simp only [look_clear] at hlk
      by_cases e : g' = g
      · simp [e] at hlk
      · rw [upd_other _ _ _ _ e] at hdg
        simp only [e, if_false] at hlk
        exact inv.ent g' f c' k r hdg hlg hlk
    · intro g' f hdg
      by_cases e : g' = g
      · subst e; exact clear_ne_none _ _
      · rw [upd_other _ _ _ _ e] at hdg
        exact clear_keeps _ _ _ (inv.ex g' f hdg)
    · rcases h2 with h2 | h2 <;> rw [h2] <;> trivial
  | alloc g c =>
    simp only [ghostOf, Option.some.injEq] at hg
    subst hg
    obtain ⟨h1, h2⟩ := step_private rc s (.alloc g c) rfl
    rw [h1]
    refine ⟨⟨?_, ?_⟩, by rcases h2 with h2 | h2 <;> rw [h2] <;> trivial⟩
    · intro g' f c' k r hdg hlg hlk
      by_cases e : g' = g
      · subst e; simp at hdg
      · rw [upd_other _ _ _ _ e] at hdg
        simp only at hlg
        rw [liveStep_other _ _ g' (by simpa [MOp.gid] using e)] at hlg
        exact inv.ent g' f c' k r hdg hlg hlk
    · intro g' f hdg
      by_cases e : g' = g
      · subst e; simp at hdg
      · rw [upd_other _ _ _ _ e] at hdg; exact inv.ex g' f hdg
  | mutate g c =>
    simp only [ghostOf, Option.some.injEq] at hg
    subst hg
    obtain ⟨h1, h2⟩ := step_private rc s (.mutate g c) rfl
    rw [h1]
    refine ⟨⟨?_, ?_⟩, by rcases h2 with h2 | h2 <;> rw [h2] <;> trivial⟩
    · intro g' f c' k r hdg hlg hlk
      by_cases e : g' = g
      · subst e; simp at hdg
      · rw [upd_other _ _ _ _ e] at hdg
        simp only at hlg
        rw [liveStep_other _ _ g' (by simpa [MOp.gid] using e)] at hlg
        exact inv.ent g' f c' k r hdg hlg hlk
    · intro g' f hdg
      by_cases e : g' = g
      · subst e; simp at hdg
      · rw [upd_other _ _ _ _ e] at hdg; exact inv.ex g' f hdg
  | drop g =>
    simp only [ghostOf, Option.some.injEq] at hg
    subst hg
    obtain ⟨h1, h2⟩ := step_private rc s (.drop g) rfl
    rw [h1]
    refine ⟨⟨?_, ?_⟩, by rcases h2 with h2 | h2 <;> rw [h2] <;> trivial⟩
    · intro g' f c' k r hdg hlg hlk
      by_cases e : g' = g
      · subst e; simp at hdg
      · rw [upd_other _ _ _ _ e] at hdg
        simp only at hlg
        rw [liveStep_other _ _ g' (by simpa [MOp.gid] using e)] at hlg
        exact inv.ent g' f c' k r hdg hlg hlk
    · intro g' f hdg
      by_cases e : g' = g
      · subst e; simp at hdg
      · rw [upd_other _ _ _ _ e] at hdg; exact inv.ex g' f hdg

/-- outputs agree position by position with the memo-less machine -/
def AgreeAll : List (Out R) → List (Option R) → Prop
  | [], [] => True
  | o :: os, e :: es => o.Agrees e ∧ AgreeAll os es
  | _, _ => False

theorem fresh_gen (rc : C → K → A → R) (h : List (MOp K A C)) :
    ∀ (s : St K C R) (d : Ghost K A), FreshInv rc s d → disciplinedFrom d h = true →
      AgreeAll (run rc s h) (ideal rc s.live h) := by
  induction h with
  | nil => intro s d _ _; trivial
  | cons op h ih =>
    intro s d inv hd
    simp only [disciplinedFrom] at hd
    cases hg : ghostOf d op with
    | none => simp [hg] at hd
    | some d' =>
      simp only [hg] at hd
      obtain ⟨inv', ag⟩ := fresh_step rc s d d' op inv hg
      simp only [run, ideal]
      refine ⟨ag, ?_⟩
      rw [← step_live rc s op]
      exact ih _ _ inv' hd

/-! ### two memo tables that agree on the ids cleared so far give the same outputs -/

structure Sim (e x : Gid → Bool) (m m' : Memo K R) : Prop where
  look : ∀ g, e g = true → ∀ k, m.look g k = m'.look g k
  ex : ∀ g, x g = true → m g ≠ none ∧ m' g ≠ none

theorem sim_lookup (rc : C → K → A → R) (l : Gid → Option C) (m m' : Memo K R) (e x : Gid → Bool) (g : Gid) (k : K) (a : A)
    (sim : Sim e x m m') (he : e g = true) :
    (step rc ⟨l, m⟩ (.lookup g k a)).2 = (step rc ⟨l, m'⟩ (.lookup g k a)).2 ∧
    Sim e (upd x g true) (step rc ⟨l, m⟩ (.lookup g k a)).1.memo (step rc ⟨l, m'⟩ (.lookup g k a)).1.memo := by
  have hsame := sim.look g he k
  have hsim : Sim e (upd x g true) (m.lookup g k).1 (m'.lookup g k).1 := by
    refine ⟨?_, ?_⟩
    · intro g' he' k'; simp only [look_lookup_fst]; exact sim.look g' he' k'
    · intro g' hx
      by_cases eg : g' = g
      · subst eg; exact ⟨lookup_fst_ne_none _ _ _, lookup_fst_ne_none _ _ _⟩
      · rw [upd_other _ _ _ _ eg] at hx
        exact ⟨lookup_keeps _ _ _ _ (sim.ex g' hx).1, lookup_keeps _ _ _ _ (sim.ex g' hx).2⟩
  cases hl : l g with
  | none =>
    rw [step_lookup_dead rc ⟨l, m⟩ g k a hl, step_lookup_dead rc ⟨l, m'⟩ g k a hl]
    exact ⟨rfl, hsim⟩
  | some c =>
    cases hk : m.look g k with
    | some r =>
      rw [step_lookup_hit rc ⟨l, m⟩ g k a c r hl hk, step_lookup_hit rc ⟨l, m'⟩ g k a c r hl (hsame ▸ hk)]
      exact ⟨rfl, hsim⟩
    | none =>
      rw [step_lookup_miss rc ⟨l, m⟩ g k a c hl hk, step_lookup_miss rc ⟨l, m'⟩ g k a c hl (hsame ▸ hk)]
      exact ⟨rfl, hsim⟩

theorem sim_store (rc : C → K → A → R) (l : Gid → Option C) (m m' : Memo K R) (e x : Gid → Bool) (g : Gid) (k : K) (a : A)
    (sim : Sim e x m m') (hx : x g = true) :
    (step rc ⟨l, m⟩ (.store g k a)).2 = (step rc ⟨l, m'⟩ (.store g k a)).2 ∧
    Sim e x (step rc ⟨l, m⟩ (.store g k a)).1.memo (step rc ⟨l, m'⟩ (.store g k a)).1.memo := by
  cases hl : l g with
  | none =>
    rw [step_store_dead rc ⟨l, m⟩ g k a hl, step_store_dead rc ⟨l, m'⟩ g k a hl]
    exact ⟨rfl, sim⟩
  | some c =>
    obtain ⟨m2, hstep, _, hkeep, hlook⟩ := step_store_live rc ⟨l, m⟩ g k a c hl (sim.ex g hx).1
    obtain ⟨m2', hstep', _, hkeep', hlook'⟩ := step_store_live rc ⟨l, m'⟩ g k a c hl (sim.ex g hx).2
    rw [hstep, hstep']
    refine ⟨rfl, ?_, ?_⟩
    · intro g' he k'
      simp only at hlook hlook' ⊢
      rw [hlook, hlook', sim.look g' he k']
    · intro g' hx'
      exact ⟨hkeep g' (sim.ex g' hx').1, hkeep' g' (sim.ex g' hx').2⟩

theorem step_eta (rc : C → K → A → R) (l : Gid → Option C) (m : Memo K R) (op : MOp K A C) :
    (step rc ⟨l, m⟩ op).1 = ⟨liveStep l op, (step rc ⟨l, m⟩ op).1.memo⟩ := by
  have := step_live rc ⟨l, m⟩ op
  cases hs : (step rc ⟨l, m⟩ op).1 with
  | mk l2 m2 => rw [hs] at this; simp only at this; rw [this]

theorem sim_step (rc : C → K → A → R) (l : Gid → Option C) (m m' : Memo K R) (e x e' x' : Gid → Bool) (op : MOp K A C)
    (sim : Sim e x m m') (hi : isoOf e x op = some (e', x')) :
    (step rc ⟨l, m⟩ op).2 = (step rc ⟨l, m'⟩ op).2 ∧
    Sim e' x' (step rc ⟨l, m⟩ op).1.memo (step rc ⟨l, m'⟩ op).1.memo := by
  cases op with
  | alloc g c =>
    simp only [isoOf, Option.some.injEq, Prod.mk.injEq] at hi; obtain ⟨rfl, rfl⟩ := hi
    rw [(step_private rc ⟨l, m⟩ (.alloc g c) rfl).1, (step_private rc ⟨l, m'⟩ (.alloc g c) rfl).1]
    exact ⟨step_private_out rc l m m' (.alloc g c) rfl, sim⟩
  | mutate g c =>
    simp only [isoOf, Option.some.injEq, Prod.mk.injEq] at hi; obtain ⟨rfl, rfl⟩ := hi
    rw [(step_private rc ⟨l, m⟩ (.mutate g c) rfl).1, (step_private rc ⟨l, m'⟩ (.mutate g c) rfl).1]
    exact ⟨step_private_out rc l m m' (.mutate g c) rfl, sim⟩
  | drop g =>
    simp only [isoOf, Option.some.injEq, Prod.mk.injEq] at hi; obtain ⟨rfl, rfl⟩ := hi
    rw [(step_private rc ⟨l, m⟩ (.drop g) rfl).1, (step_private rc ⟨l, m'⟩ (.drop g) rfl).1]
    exact ⟨step_private_out rc l m m' (.drop g) rfl, sim⟩
  | clear g =>
    simp only [isoOf, Option.some.injEq, Prod.mk.injEq] at hi
    obtain ⟨rfl, rfl⟩ := hi
    refine ⟨rfl, ?_, ?_⟩
    · intro g' he k
      simp only [step, look_clear]
      by_cases eg : g' = g
      · simp [eg]
      · rw [upd_other _ _ _ _ eg] at he
        simp only [eg, if_false]
        exact sim.look g' he k
    · intro g' hx
      simp only [step]
      by_cases eg : g' = g
      · subst eg; exact ⟨clear_ne_none _ _, clear_ne_none _ _⟩
      · rw [upd_other _ _ _ _ eg] at hx
        exact ⟨clear_keeps _ _ _ (sim.ex g' hx).1, clear_keeps _ _ _ (sim.ex g' hx).2⟩
  | lookup g k a =>
    simp only [isoOf] at hi
    by_cases he : e g = true
    · simp only [he, if_true, Option.some.injEq, Prod.mk.injEq] at hi
      obtain ⟨rfl, rfl⟩ := hi
      exact sim_lookup rc l m m' e x g k a sim he
    · simp [he] at hi
  | store g k a =>
    simp only [isoOf] at hi
    by_cases he : (e g && x g) = true
    · simp only [he, if_true, Option.some.injEq, Prod.mk.injEq] at hi
      obtain ⟨rfl, rfl⟩ := hi
      simp only [Bool.and_eq_true] at he
      exact sim_store rc l m m' e x g k a sim he.2
    · simp [he] at hi
  | query g k a =>
    simp only [isoOf] at hi
    by_cases he : e g = true
    · simp only [he, if_true, Option.some.injEq, Prod.mk.injEq] at hi
      obtain ⟨rfl, rfl⟩ := hi
      obtain ⟨ho, hs⟩ := sim_lookup rc l m m' e x g k a sim he
      rw [step_query_sections rc ⟨l, m⟩, step_query_sections rc ⟨l, m'⟩, ← ho]
      split
      · rw [step_eta rc l m, step_eta rc l m']
        exact sim_store rc _ _ _ e (upd x g true) g k a hs (by simp)
      · exact ⟨ho, hs⟩
    · simp [he] at hi

theorem sim_gen (rc : C → K → A → R) (h : List (MOp K A C)) :
    ∀ (l : Gid → Option C) (m m' : Memo K R) (e x : Gid → Bool), Sim e x m m' → isolatedFrom e x h = true →
      run rc ⟨l, m⟩ h = run rc ⟨l, m'⟩ h := by
  induction h with
  | nil => intros; rfl
  | cons op h ih =>
    intro l m m' e x sim hi
    simp only [isolatedFrom] at hi
    cases hio : isoOf e x op with
    | none => simp [hio] at hi
    | some ex' =>
      simp only [hio] at hi
      obtain ⟨ho, hs⟩ := sim_step rc l m m' e x ex'.1 ex'.2 op sim hio
      simp only [run]
      rw [ho, step_eta rc l m, step_eta rc l m']
      congr 1
      exact ih _ _ _ _ _ hs hi

/-- histories of whole queries are `Guarded` -/
theorem guarded_of_high (h : List (MOp K A C)) :
    ∀ x : Gid → Bool, (h.all MOp.isHigh = true) → isolatedFrom (fun _ => true) x h = true := by
  induction h with
  | nil => intros; rfl
  | cons op h ih =>
    intro x hh
    simp only [List.all_cons, Bool.and_eq_true] at hh
    have h2 := ih
    cases op with
    | clear g =>
      simp only [isolatedFrom, isoOf]
      have : upd (fun _ : Gid => true) g true = fun _ => true := by
        funext g'; by_cases e : g' = g <;> simp [upd, e]
      rw [this]; exact ih _ hh.2
    | query g k a => simp only [isolatedFrom, isoOf, if_true]; exact ih _ hh.2
    | alloc g c => simp only [isolatedFrom, isoOf]; exact ih _ hh.2
    | mutate g c => simp only [isolatedFrom, isoOf]; exact ih _ hh.2
    | drop g => simp only [isolatedFrom, isoOf]; exact ih _ hh.2
    | lookup g k a => simp [MOp.isHigh] at hh
    | store g k a => simp [MOp.isHigh] at hh

/-- tables of ids outside `dirtyAfter` are empty at the end -/
theorem dirty_step (rc : C → K → A → R) (s : St K C R) (d : List Gid) (op : MOp K A C)
    (hs : ∀ g, g ∉ d → ∀ k, s.memo.look g k = none) :
    ∀ g, g ∉ dirtyOf d op → ∀ k, (step rc s op).1.memo.look g k = none := by
  intro g0 hg0 k0
  cases op with
  | alloc g c => rw [(step_private rc s (.alloc g c) rfl).1]; exact hs g0 hg0 k0
  | mutate g c => rw [(step_private rc s (.mutate g c) rfl).1]; exact hs g0 hg0 k0
  | drop g => rw [(step_private rc s (.drop g) rfl).1]; exact hs g0 hg0 k0
  | clear g =>
    simp only [dirtyOf] at hg0
    simp only [step, look_clear]
    by_cases e : g0 = g
    · simp [e]
    · simp only [e, if_false]
      apply hs g0 _ k0
      intro hmem
      exact hg0 (List.mem_filter.mpr ⟨hmem, by simpa using e⟩)
  | lookup g k a =>
    simp only [dirtyOf] at hg0
    simp only [step]
    split
    · simp only [look_lookup_fst]; exact hs g0 hg0 k0
    · split <;> (simp only [look_lookup_fst]; exact hs g0 hg0 k0)
  | store g k a =>
    simp only [dirtyOf] at hg0
    have hne : g0 ≠ g := fun h => hg0 (h ▸ List.mem_cons_self ..)
    have hd : g0 ∉ d := fun hm => hg0 (List.mem_cons_of_mem _ hm)
    cases hl : s.live g with
    | none => rw [step_store_dead rc s g k a hl]; exact hs g0 hd k0
    | some c =>
      by_cases hm : s.memo g = none
      · rw [step_store_keyerror rc s g k a c hl hm]; exact hs g0 hd k0
      · obtain ⟨m2, hstep, _, _, hlook⟩ := step_store_live rc s g k a c hl hm
        rw [hstep]
        simp only [hlook, hne, false_and, if_false]
        exact hs g0 hd k0
  | query g k a =>
    simp only [dirtyOf] at hg0
    have hne : g0 ≠ g := fun h => hg0 (h ▸ List.mem_cons_self ..)
    have hd : g0 ∉ d := fun hm => hg0 (List.mem_cons_of_mem _ hm)
    have h1 : ∀ k', (step rc s (.lookup g k a)).1.memo.look g0 k' = none := by
      intro k'
      simp only [step]
      split
      · simp only [look_lookup_fst]; exact hs g0 hd k'
      · split <;> (simp only [look_lookup_fst]; exact hs g0 hd k')
    rw [step_query_sections]
    split
    · -- the store section after the lookup
      cases hl : (step rc s (.lookup g k a)).1.live g with
      | none => rw [step_store_dead rc _ g k a hl]; exact h1 k0
      | some c =>
        by_cases hm : (step rc s (.lookup g k a)).1.memo g = none
        · rw [step_store_keyerror rc _ g k a c hl hm]; exact h1 k0
        · obtain ⟨m2, hstep, _, _, hlook⟩ := step_store_live rc _ g k a c hl hm
          rw [hstep]
          simp only [hlook, hne, false_and, if_false]
          exact h1 k0
    · exact h1 k0

theorem dirty_gen (rc : C → K → A → R) (h : List (MOp K A C)) :
    ∀ (s : St K C R) (d : List Gid), (∀ g, g ∉ d → ∀ k, s.memo.look g k = none) →
      ∀ g, g ∉ dirtyAfter d h → ∀ k, (final rc s h).memo.look g k = none := by
  induction h with
  | nil => intro s d hs g hg k; exact hs g hg k
  | cons op h ih =>
    intro s d hs g0 hg0 k0
    simp only [final, dirtyAfter] at hg0 ⊢
    exact ih _ _ (dirty_step rc s d op hs) g0 hg0 k0

theorem run_append (rc : C → K → A → R) (h1 h2 : List (MOp K A C)) :
    ∀ s : St K C R, run rc s (h1 ++ h2) = run rc s h1 ++ run rc (final rc s h1) h2 := by
  induction h1 with
  | nil => intro s; rfl
  | cons op h ih => intro s; simp only [List.cons_append, run, final, ih]

/-- a whole query on a live graph always answers (never `miss`, never KeyError) -/
theorem query_answers (rc : C → K → A → R) (s : St K C R) (g : Gid) (k : K) (a : A) (c : C) (hl : s.live g = some c) :
    ∃ r hit, (step rc s (.query g k a)).2 = .val r hit := by
  cases hk : s.memo.look g k with
  | some r =>
    refine ⟨r, true, ?_⟩
    rw [step_query_sections, step_lookup_hit rc s g k a c r hl hk]
  | none =>
    rw [step_query_sections, step_lookup_miss rc s g k a c hl hk]
    obtain ⟨m2, hstep, _⟩ := step_store_live rc ⟨s.live, (s.memo.lookup g k).1⟩ g k a c hl (lookup_fst_ne_none s.memo g k)
    exact ⟨rc c k a, false, by simp only; rw [hstep]⟩

end
end ESV.Cache
