import ESV.Cache.Model
/-
Lemmas about the sequential memo machine (ESV/Cache/Model.lean): the three locked sections expressed through
`Memo.look`, the freshness invariant, the simulation between two memo tables that agree on the cleared ids.
-/
set_option linter.unusedSectionVars false
namespace ESV.Cache

section
variable {K A C R : Type} [DecidableEq K]

theorem lookup_snd (m : Memo K R) (g : Gid) (k : K) : (m.lookup g k).2 = m.look g k := by
  unfold Memo.lookup Memo.look
  cases h : m g <;> simp [emptyTable]

theorem look_lookup_fst (m : Memo K R) (g g' : Gid) (k k' : K) : (m.lookup g k).1.look g' k' = m.look g' k' := by
  unfold Memo.lookup Memo.look
  by_cases hg : g' = g
  · subst hg
    cases h : m g' <;> simp [emptyTable]
  · simp [hg]

theorem lookup_fst_ne_none (m : Memo K R) (g : Gid) (k : K) : (m.lookup g k).1 g ≠ none := by
  simp [Memo.lookup]

theorem store_some (m : Memo K R) (g : Gid) (k : K) (r : R) (h : m g ≠ none) :
    ∃ m2, m.store g k r = some m2 ∧ m2 g ≠ none ∧
      ∀ g' k', m2.look g' k' = if g' = g ∧ k' = k then some r else m.look g' k' := by
  unfold Memo.store
  cases hm : m g with
  | none => exact absurd hm h
  | some tbl =>
    refine ⟨_, rfl, by simp, ?_⟩
    intro g' k'
    unfold Memo.look
    by_cases hg : g' = g
    · subst hg
      by_cases hk : k' = k
      · subst hk; simp
      · simp [hk, hm]
    · simp [hg]

theorem look_clear (m : Memo K R) (g g' : Gid) (k' : K) :
    (m.clear g).look g' k' = if g' = g then none else m.look g' k' := by
  unfold Memo.clear Memo.look
  by_cases hg : g' = g
  · subst hg; simp [emptyTable]
  · simp [hg]

theorem clear_ne_none (m : Memo K R) (g : Gid) : (m.clear g) g ≠ none := by simp [Memo.clear]

/-- the outer dict never loses a key -/
theorem clear_keeps (m : Memo K R) (g g' : Gid) (h : m g' ≠ none) : (m.clear g) g' ≠ none := by
  unfold Memo.clear
  by_cases hg : g' = g
  · subst hg; simp
  · simp [hg, h]

theorem lookup_keeps (m : Memo K R) (g g' : Gid) (k : K) (h : m g' ≠ none) : (m.lookup g k).1 g' ≠ none := by
  unfold Memo.lookup
  by_cases hg : g' = g
  · subst hg; simp
  · simp [hg, h]

theorem store_keeps (m m2 : Memo K R) (g g' : Gid) (k : K) (r : R) (hs : m.store g k r = some m2) (h : m g' ≠ none) :
    m2 g' ≠ none := by
  unfold Memo.store at hs
  cases hm : m g with
  | none => simp [hm] at hs
  | some tbl =>
    simp only [hm, Option.some.injEq] at hs
    subst hs
    by_cases hg : g' = g
    · subst hg; simp
    · simp [hg, h]

/-! ### `step`, case by case -/

theorem step_query_dead (rc : C → K → A → R) (s : St K C R) (g : Gid) (k : K) (a : A) (hl : s.live g = none) :
    step rc s (.query g k a) = (s, .illFormed) := by
  simp [step, hl]

theorem step_query_hit (rc : C → K → A → R) (s : St K C R) (g : Gid) (k : K) (a : A) (c : C) (r : R)
    (hl : s.live g = some c) (hk : s.memo.look g k = some r) :
    step rc s (.query g k a) = (⟨s.live, (s.memo.lookup g k).1⟩, .val r true) := by
  have h2 := lookup_snd s.memo g k
  rw [hk] at h2
  simp [step, hl, h2]

theorem step_query_miss (rc : C → K → A → R) (s : St K C R) (g : Gid) (k : K) (a : A) (c : C)
    (hl : s.live g = some c) (hk : s.memo.look g k = none) :
    ∃ m2, step rc s (.query g k a) = (⟨s.live, m2⟩, .val (rc c k a) false) ∧ m2 g ≠ none ∧
      ∀ g' k', m2.look g' k' = if g' = g ∧ k' = k then some (rc c k a) else s.memo.look g' k' := by
  have h2 := lookup_snd s.memo g k
  rw [hk] at h2
  obtain ⟨m2, hs, hne, hlook⟩ := store_some (s.memo.lookup g k).1 g k (rc c k a) (lookup_fst_ne_none s.memo g k)
  refine ⟨m2, ?_, hne, ?_⟩
  · simp [step, hl, h2, hs]
  · intro g' k'
    rw [hlook g' k', look_lookup_fst]

theorem step_clear (rc : C → K → A → R) (s : St K C R) (g : Gid) :
    (step rc s (.clear g : MOp K A C)).1 = ⟨s.live, s.memo.clear g⟩ ∧ (step rc s (.clear g : MOp K A C)).2.value = none := by
  refine ⟨rfl, ?_⟩
  simp only [step]; split <;> rfl

theorem step_clear_out (rc : C → K → A → R) (l : Gid → Option C) (m m' : Memo K R) (g : Gid) :
    (step rc ⟨l, m⟩ (.clear g : MOp K A C)).2 = (step rc ⟨l, m'⟩ (.clear g : MOp K A C)).2 := rfl

/-- `alloc`, `mutate`, `drop` -/
def MOp.isPrivate : MOp K A C → Bool
  | .alloc .. | .mutate .. | .drop .. => true
  | _ => false

def MOp.gid : MOp K A C → Gid
  | .alloc g _ | .mutate g _ | .drop g | .clear g | .query g _ _ => g

theorem step_private (rc : C → K → A → R) (s : St K C R) (op : MOp K A C) (h : op.isPrivate = true) :
    (step rc s op).1 = ⟨liveStep s.live op, s.memo⟩ ∧ (step rc s op).2.value = none := by
  cases op with
  | alloc g c => exact ⟨rfl, by simp only [step]; split <;> rfl⟩
  | mutate g c => exact ⟨rfl, by simp only [step]; split <;> rfl⟩
  | drop g => exact ⟨rfl, by simp only [step]; split <;> rfl⟩
  | clear g => cases h
  | query g k a => cases h

theorem liveStep_other (l : Gid → Option C) (op : MOp K A C) (g' : Gid) (h : g' ≠ op.gid) : liveStep l op g' = l g' := by
  cases op with
  | alloc g c => simp only [MOp.gid] at h; simp only [liveStep]; split <;> simp [h]
  | mutate g c => simp only [MOp.gid] at h; simp only [liveStep]; split <;> simp [h]
  | drop g => simp only [MOp.gid] at h; simp only [liveStep]; split <;> simp [h]
  | clear g => rfl
  | query g k a => rfl

theorem liveStep_public (l : Gid → Option C) (op : MOp K A C) (h : op.isPrivate = false) : liveStep l op = l := by
  cases op <;> first | rfl | cases h

/-! ### freshness under `Disciplined` -/
variable [DecidableEq A]

/-- every entry of the table of a cleared live graph was computed from the graph's current content,
with the argument recorded in the ghost state -/
def FreshInv (rc : C → K → A → R) (s : St K C R) (d : Ghost K A) : Prop :=
  ∀ g f c k r, d g = some f → s.live g = some c → s.memo.look g k = some r → ∃ a, f k = some a ∧ r = rc c k a

theorem freshInv_private (rc : C → K → A → R) (s : St K C R) (d : Ghost K A) (op : MOp K A C)
    (inv : FreshInv rc s d) : FreshInv rc ⟨liveStep s.live op, s.memo⟩ (upd d op.gid none) := by
  intro g' f c' k r hdg hlg hlk
  by_cases hg : g' = op.gid
  · subst hg; simp at hdg
  · rw [upd_other _ _ _ _ hg] at hdg
    simp only at hlg
    rw [liveStep_other _ _ g' hg] at hlg
    exact inv g' f c' k r hdg hlg hlk

theorem fresh_gen (rc : C → K → A → R) (h : List (MOp K A C)) :
    ∀ (s : St K C R) (d : Ghost K A), FreshInv rc s d → disciplinedFrom d h = true →
      (run rc s h).map Out.value = ideal rc s.live h := by
  induction h with
  | nil => intro s d _ _; rfl
  | cons op h ih =>
    intro s d inv hd
    simp only [run, ideal, List.map_cons]
    cases op with
    | alloc g c =>
      simp only [disciplinedFrom] at hd
      obtain ⟨h1, h2⟩ := step_private rc s (.alloc g c) rfl
      rw [h1, h2]
      congr 1
      exact ih _ _ (freshInv_private rc s d (.alloc g c) inv) hd
    | mutate g c =>
      simp only [disciplinedFrom] at hd
      obtain ⟨h1, h2⟩ := step_private rc s (.mutate g c) rfl
      rw [h1, h2]
      congr 1
      exact ih _ _ (freshInv_private rc s d (.mutate g c) inv) hd
    | drop g =>
      simp only [disciplinedFrom] at hd
      obtain ⟨h1, h2⟩ := step_private rc s (.drop g) rfl
      rw [h1, h2]
      congr 1
      exact ih _ _ (freshInv_private rc s d (.drop g) inv) hd
    | clear g =>
      simp only [disciplinedFrom] at hd
      simp only [liveStep]
      obtain ⟨h1, h2⟩ := step_clear rc s g
      rw [h1, h2]
      congr 1
      apply ih ⟨s.live, s.memo.clear g⟩ _ _ hd
      intro g' f c' k r hdg hlg hlk
      simp only [look_clear] at hlk
      by_cases hg : g' = g
      · simp [hg] at hlk
      · rw [upd_other _ _ _ _ hg] at hdg
        simp only [hg, if_false] at hlk
        exact inv g' f c' k r hdg hlg hlk
    | query g k a =>
      simp only [disciplinedFrom] at hd
      simp only [liveStep]
      cases hdg : d g with
      | none => simp [hdg] at hd
      | some f =>
        simp only [hdg, Bool.and_eq_true] at hd
        obtain ⟨hcompat, hd⟩ := hd
        cases hl : s.live g with
        | none =>
          rw [step_query_dead rc s g k a hl]
          simp only [Out.value, Option.map_none]
          congr 1
          apply ih s _ _ hd
          intro g' f' c' k' r hdg' hlg hlk
          by_cases hg : g' = g
          · subst hg; rw [hl] at hlg; cases hlg
          · rw [upd_other _ _ _ _ hg] at hdg'
            exact inv g' f' c' k' r hdg' hlg hlk
        | some c =>
          simp only [Option.map_some]
          cases hk : s.memo.look g k with
          | some r =>
            rw [step_query_hit rc s g k a c r hl hk]
            obtain ⟨a', hfa, hr⟩ := inv g f c k r hdg hl hk
            rw [hfa] at hcompat
            have haa : a' = a := by simpa using hcompat
            subst haa
            simp only [Out.value]
            rw [hr]
            congr 1
            apply ih ⟨s.live, (s.memo.lookup g k).1⟩ _ _ hd
            intro g' f' c' k' r' hdg' hlg hlk
            simp only [look_lookup_fst] at hlk
            simp only at hlg
            by_cases hg : g' = g
            · subst hg
              simp only [upd_same, Option.some.injEq] at hdg'
              subst hdg'
              rw [hl] at hlg; cases hlg
              by_cases hkk : k' = k
              · subst hkk
                rw [hk] at hlk; cases hlk
                exact ⟨a', by simp, hr⟩
              · obtain ⟨a2, h1, h2⟩ := inv g' f c k' r' hdg hl hlk
                exact ⟨a2, by simp [hkk, h1], h2⟩
            · rw [upd_other _ _ _ _ hg] at hdg'
              exact inv g' f' c' k' r' hdg' hlg hlk
          | none =>
            obtain ⟨m2, hstep, _, hmem⟩ := step_query_miss rc s g k a c hl hk
            rw [hstep]
            simp only [Out.value]
            congr 1
            apply ih ⟨s.live, m2⟩ _ _ hd
            intro g' f' c' k' r' hdg' hlg hlk
            simp only at hlg
            simp only [hmem] at hlk
            by_cases hg : g' = g
            · subst hg
              simp only [upd_same, Option.some.injEq] at hdg'
              subst hdg'
              rw [hl] at hlg; cases hlg
              by_cases hkk : k' = k
              · subst hkk
                simp only [and_self, if_true, Option.some.injEq] at hlk
                exact ⟨a, by simp, hlk.symm⟩
              · simp only [hkk, and_false, if_false] at hlk
                obtain ⟨a2, h1, h2⟩ := inv g' f c k' r' hdg hl hlk
                exact ⟨a2, by simp [hkk, h1], h2⟩
            · rw [upd_other _ _ _ _ hg] at hdg'
              simp only [hg, false_and, if_false] at hlk
              exact inv g' f' c' k' r' hdg' hlg hlk

/-! ### two memo tables that agree on the ids cleared so far give the same outputs -/

def SimOn (e : Gid → Bool) (m m' : Memo K R) : Prop := ∀ g, e g = true → ∀ k, m.look g k = m'.look g k

theorem step_private_out (rc : C → K → A → R) (l : Gid → Option C) (m m' : Memo K R) (op : MOp K A C)
    (h : op.isPrivate = true) : (step rc ⟨l, m⟩ op).2 = (step rc ⟨l, m'⟩ op).2 := by
  cases op <;> first | rfl | cases h

theorem sim_gen (rc : C → K → A → R) (h : List (MOp K A C)) :
    ∀ (l : Gid → Option C) (m m' : Memo K R) (e : Gid → Bool), SimOn e m m' → isolatedFrom e h = true →
      run rc ⟨l, m⟩ h = run rc ⟨l, m'⟩ h := by
  induction h with
  | nil => intros; rfl
  | cons op h ih =>
    intro l m m' e sim hi
    simp only [run]
    cases op with
    | alloc g c =>
      simp only [isolatedFrom] at hi
      rw [(step_private rc ⟨l, m⟩ (.alloc g c) rfl).1, (step_private rc ⟨l, m'⟩ (.alloc g c) rfl).1,
        step_private_out rc l m m' (.alloc g c) rfl]
      congr 1
      exact ih _ _ _ e sim hi
    | mutate g c =>
      simp only [isolatedFrom] at hi
      rw [(step_private rc ⟨l, m⟩ (.mutate g c) rfl).1, (step_private rc ⟨l, m'⟩ (.mutate g c) rfl).1,
        step_private_out rc l m m' (.mutate g c) rfl]
      congr 1
      exact ih _ _ _ e sim hi
    | drop g =>
      simp only [isolatedFrom] at hi
      rw [(step_private rc ⟨l, m⟩ (.drop g) rfl).1, (step_private rc ⟨l, m'⟩ (.drop g) rfl).1,
        step_private_out rc l m m' (.drop g) rfl]
      congr 1
      exact ih _ _ _ e sim hi
    | clear g =>
      simp only [isolatedFrom] at hi
      rw [(step_clear rc ⟨l, m⟩ g).1, (step_clear rc ⟨l, m'⟩ g).1, step_clear_out rc l m m' g]
      congr 1
      apply ih l _ _ (upd e g true) _ hi
      intro g' he k
      simp only [look_clear]
      by_cases hg : g' = g
      · simp [hg]
      · rw [upd_other _ _ _ _ hg] at he
        simp only [hg, if_false]
        exact sim g' he k
    | query g k a =>
      simp only [isolatedFrom, Bool.and_eq_true] at hi
      obtain ⟨heg, hi⟩ := hi
      cases hl : l g with
      | none =>
        rw [step_query_dead rc ⟨l, m⟩ g k a hl, step_query_dead rc ⟨l, m'⟩ g k a hl]
        congr 1
        exact ih l m m' e sim hi
      | some c =>
        have hsame := sim g heg k
        cases hk : m.look g k with
        | some r =>
          rw [step_query_hit rc ⟨l, m⟩ g k a c r hl hk, step_query_hit rc ⟨l, m'⟩ g k a c r hl (hsame ▸ hk)]
          congr 1
          apply ih l _ _ e _ hi
          intro g' he k'
          simp only [look_lookup_fst]
          exact sim g' he k'
        | none =>
          obtain ⟨m2, hstep, _, hmem⟩ := step_query_miss rc ⟨l, m⟩ g k a c hl hk
          obtain ⟨m2', hstep', _, hmem'⟩ := step_query_miss rc ⟨l, m'⟩ g k a c hl (hsame ▸ hk)
          rw [hstep, hstep']
          congr 1
          apply ih l _ _ e _ hi
          intro g' he k'
          rw [hmem, hmem']
          simp only at *
          rw [sim g' he k']

theorem isolatedFrom_true (h : List (MOp K A C)) : ∀ e : Gid → Bool, (∀ g, e g = true) → isolatedFrom e h = true := by
  induction h with
  | nil => intros; rfl
  | cons op h ih =>
    intro e he
    cases op with
    | clear g =>
      simp only [isolatedFrom]
      apply ih
      intro g'
      by_cases hg : g' = g
      · subst hg; simp
      · rw [upd_other _ _ _ _ hg]; exact he g'
    | query g k a => simp only [isolatedFrom, he g, Bool.true_and]; exact ih e he
    | alloc g c => simp only [isolatedFrom]; exact ih e he
    | mutate g c => simp only [isolatedFrom]; exact ih e he
    | drop g => simp only [isolatedFrom]; exact ih e he

/-- tables of ids outside `dirtyAfter` are empty at the end -/
theorem dirty_gen (rc : C → K → A → R) (h : List (MOp K A C)) :
    ∀ (s : St K C R) (d : List Gid), (∀ g, g ∉ d → ∀ k, s.memo.look g k = none) →
      ∀ g, g ∉ dirtyAfter d h → ∀ k, (final rc s h).memo.look g k = none := by
  induction h with
  | nil => intro s d hs g hg k; exact hs g hg k
  | cons op h ih =>
    intro s d hs g0 hg0 k0
    simp only [final]
    cases op with
    | alloc g c =>
      simp only [dirtyAfter] at hg0
      rw [(step_private rc s (.alloc g c) rfl).1]
      exact ih ⟨liveStep s.live (.alloc g c), s.memo⟩ d hs g0 hg0 k0
    | mutate g c =>
      simp only [dirtyAfter] at hg0
      rw [(step_private rc s (.mutate g c) rfl).1]
      exact ih ⟨liveStep s.live (.mutate g c), s.memo⟩ d hs g0 hg0 k0
    | drop g =>
      simp only [dirtyAfter] at hg0
      rw [(step_private rc s (.drop g) rfl).1]
      exact ih ⟨liveStep s.live (.drop g), s.memo⟩ d hs g0 hg0 k0
    | clear g =>
      simp only [dirtyAfter] at hg0
      rw [(step_clear rc s g).1]
      apply ih _ _ _ g0 hg0 k0
      intro g' hg' k
      simp only [look_clear]
      by_cases hg : g' = g
      · simp [hg]
      · simp only [hg, if_false]
        apply hs g' _ k
        intro hmem
        exact hg' (List.mem_filter.mpr ⟨hmem, by simpa using hg⟩)
    | query g k a =>
      simp only [dirtyAfter] at hg0
      cases hl : s.live g with
      | none =>
        rw [step_query_dead rc s g k a hl]
        apply ih s _ _ g0 hg0 k0
        intro g' hg' k'
        exact hs g' (fun hm => hg' (List.mem_cons_of_mem _ hm)) k'
      | some c =>
        cases hk : s.memo.look g k with
        | some r =>
          rw [step_query_hit rc s g k a c r hl hk]
          apply ih _ _ _ g0 hg0 k0
          intro g' hg' k'
          simp only [look_lookup_fst]
          exact hs g' (fun hm => hg' (List.mem_cons_of_mem _ hm)) k'
        | none =>
          obtain ⟨m2, hstep, _, hmem⟩ := step_query_miss rc s g k a c hl hk
          rw [hstep]
          apply ih _ _ _ g0 hg0 k0
          intro g' hg' k'
          simp only [hmem]
          have hne : g' ≠ g := fun h => hg' (h ▸ List.mem_cons_self ..)
          simp only [hne, false_and, if_false]
          exact hs g' (fun hm => hg' (List.mem_cons_of_mem _ hm)) k'

theorem run_append (rc : C → K → A → R) (h1 h2 : List (MOp K A C)) :
    ∀ s : St K C R, run rc s (h1 ++ h2) = run rc s h1 ++ run rc (final rc s h1) h2 := by
  induction h1 with
  | nil => intro s; rfl
  | cons op h ih => intro s; simp only [List.cons_append, run, final, ih]

theorem final_live (rc : C → K → A → R) (h : List (MOp K A C)) :
    ∀ (l : Gid → Option C) (m m' : Memo K R), (final rc ⟨l, m⟩ h).live = (final rc ⟨l, m'⟩ h).live := by
  induction h with
  | nil => intros; rfl
  | cons op h ih =>
    intro l m m'
    simp only [final]
    have : ∀ mm : Memo K R, (step rc ⟨l, mm⟩ op).1.live = liveStep l op := by
      intro mm
      cases op with
      | alloc g c => rfl
      | mutate g c => rfl
      | drop g => rfl
      | clear g => rfl
      | query g k a =>
        cases hl : l g with
        | none => rw [step_query_dead rc ⟨l, mm⟩ g k a hl]; rfl
        | some c =>
          cases hk : mm.look g k with
          | some r => rw [step_query_hit rc ⟨l, mm⟩ g k a c r hl hk]; rfl
          | none =>
            obtain ⟨m2, hstep, _, _⟩ := step_query_miss rc ⟨l, mm⟩ g k a c hl hk
            rw [hstep]; rfl
    have e1 : (step rc ⟨l, m⟩ op).1 = ⟨liveStep l op, (step rc ⟨l, m⟩ op).1.memo⟩ := by rw [← this m]
    have e2 : (step rc ⟨l, m'⟩ op).1 = ⟨liveStep l op, (step rc ⟨l, m'⟩ op).1.memo⟩ := by rw [← this m']
    rw [e1, e2]
    exact ih _ _ _

end
end ESV.Cache
