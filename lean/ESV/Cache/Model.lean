/-
K3 model of the memo table of
explorerscript/ssb_converting/decompiler/graph_building/graph_utils.py

    cache_lock = Lock()
    find_first_common_next_vertex_in_edges_cache: dict[int, dict[str, list[Edge] | None]] = {}

    def find_first_common_next_vertex_in_edges__clear_cache(g):
        with cache_lock:
            cache[id(g)] = {}

    def find_first_common_next_vertex_in_edges(g, es, allow_open_branches, allow_loops, vs_to_not_visit, allow_loop_edges):
        es_ids = ",".join(sorted(str(e.index) for e in es))
        with cache_lock:                                      -- section `lookup`
            if id(g) not in cache: cache[id(g)] = {}
            if es_ids in cache[id(g)]: return cache[id(g)][es_ids]
        result = _impl(g, es, ..flags..)                      -- section `compute` (no lock held)
        with cache_lock:                                      -- section `store`
            cache[id(g)][es_ids] = result                     --   KeyError if cache[id(g)] is absent
        return result

What is modelled, exactly as the code does it:
* the outer dict is keyed by `id(g)`: a graph id `Gid`; ids are *recyclable*: `alloc` may be given any id that is not
  live, and nothing removes or empties `cache[id]` when a graph dies (`drop` leaves the table in place);
* the inner dict is keyed by the edge-id string ONLY (`Key`); the other four arguments (`Arg`) are not part of the
  key although `_impl` depends on them;
* `clear` REPLACES the table by a new empty one, it never deletes the outer entry; `lookup` creates a missing table;
* `compute` runs between the two locked sections and reads the graph as it is then;
* the value computed (`recompute : Content → Key → Arg → Result`) is a parameter: the graph search itself is not
  modelled (DESIGN §0: igraph heuristics), only the protocol around it.
Core Lean only (linked into the driver).
-/
namespace ESV.Cache

/-- `id(graph)` -/
abbrev Gid := Nat
/-- thread ident -/
abbrev Tid := Nat

/-- function update (Python `d[a] = b`) -/
def upd {α β : Type} [DecidableEq α] (f : α → β) (a : α) (b : β) : α → β := fun x => if x = a then b else f x

@[simp] theorem upd_same {α β : Type} [DecidableEq α] (f : α → β) (a : α) (b : β) : upd f a b a = b := by simp [upd]
@[simp] theorem upd_other {α β : Type} [DecidableEq α] (f : α → β) (a x : α) (b : β) (h : x ≠ a) : upd f a b x = f x := by
  simp [upd, h]

section
variable {K A C R : Type} [DecidableEq K]

/-- inner dict `es_ids ↦ result` -/
abbrev Table (K R : Type) := K → Option R
/-- `find_first_common_next_vertex_in_edges_cache`; `none` = the id is not a key of the outer dict -/
abbrev Memo (K R : Type) := Gid → Option (Table K R)

def emptyTable : Table K R := fun _ => none

/-- first locked section of the query: create the table if missing, return the cached value if present -/
def Memo.lookup (m : Memo K R) (g : Gid) (k : K) : Memo K R × Option R :=
  let tbl : Table K R := (m g).getD emptyTable
  (upd m g (some tbl), tbl k)

/-- second locked section: `cache[id(g)][es_ids] = result`; `none` = KeyError (outer entry absent) -/
def Memo.store (m : Memo K R) (g : Gid) (k : K) (r : R) : Option (Memo K R) :=
  match m g with
  | none => none
  | some tbl => some (upd m g (some (upd tbl k (some r))))

/-- `cache[id(g)] = {}` -/
def Memo.clear (m : Memo K R) (g : Gid) : Memo K R := upd m g (some emptyTable)

/-- what a lookup of `(g, k)` would find -/
def Memo.look (m : Memo K R) (g : Gid) (k : K) : Option R := (m g).bind (fun t => t k)

/-- operations of a history -/
inductive MOp (K A C : Type) where
  | alloc (g : Gid) (c : C)     -- a new graph object gets id g (any id not live), content c
  | mutate (g : Gid) (c : C)    -- in-place rewrite of the graph: new content
  | clear (g : Gid)             -- ..__clear_cache(g)
  | query (g : Gid) (k : K) (a : A)
  | drop (g : Gid)              -- the graph object dies; its id becomes available again
  -- the two locked sections of a query on their own (a query whose `_impl` run issues further, nested, queries
  -- on the same graph is the sequence  lookup · …nested sections… · store):
  | lookup (g : Gid) (k : K) (a : A)   -- first section: hit -> the query returns; miss -> the caller goes on to compute
  | store (g : Gid) (k : K) (a : A)    -- last section: the value just computed from the graph is written and returned
deriving Repr

inductive Out (R : Type) where
  | ok
  | val (r : R) (hit : Bool)
  | miss                        -- a `lookup` section that found nothing
  | illFormed                   -- the history is not a possible one (op on a dead object / alloc of a live id)
  | keyError
deriving Repr, DecidableEq

/-- value of a query, forgetting whether it was a hit -/
def Out.value : Out R → Option R
  | .val r _ => some r
  | _ => none

structure St (K C R : Type) where
  live : Gid → Option C
  memo : Memo K R

/-- whether a private operation is possible: `alloc` needs a free id, `mutate`/`drop` a live graph -/
def liveOk (l : Gid → Option C) : MOp K A C → Bool
  | .alloc g _ => (l g).isNone
  | .mutate g _ => (l g).isSome
  | .drop g => (l g).isSome
  | _ => false

/-- (the test is passed in as a value so that compiled code evaluates it once, not at every application of the result) -/
def liveStepAux (l : Gid → Option C) (ok : Bool) : MOp K A C → (Gid → Option C)
  | .alloc g c => if ok then upd l g (some c) else l
  | .mutate g c => if ok then upd l g (some c) else l
  | .drop g => if ok then upd l g none else l
  | _ => l

/-- the effect of an op on the set of live graphs (independent of the memo) -/
@[inline] def liveStep (l : Gid → Option C) (op : MOp K A C) : Gid → Option C := liveStepAux l (liveOk l op) op

/-- one operation of the sequential machine (the three sections of a query run back to back) -/
def step (rc : C → K → A → R) (s : St K C R) (op : MOp K A C) : St K C R × Out R :=
  match op with
  -- (written so that compiled code tests liveness once, when the step is taken, not inside the new `live` function)
  | .alloc g c => if (s.live g).isNone then (⟨upd s.live g (some c), s.memo⟩, .ok) else (s, .illFormed)
  | .mutate g c => if (s.live g).isSome then (⟨upd s.live g (some c), s.memo⟩, .ok) else (s, .illFormed)
  | .drop g => if (s.live g).isSome then (⟨upd s.live g none, s.memo⟩, .ok) else (s, .illFormed)
  -- (a dead id cannot be passed to the real function; the output flags such a history as impossible, the table is
  --  emptied all the same so that the syntactic disciplines below need not track liveness)
  | .clear g => (⟨s.live, s.memo.clear g⟩, if (s.live g).isSome then .ok else .illFormed)
  | .query g k a =>
    match s.live g with
    | none => (⟨s.live, (s.memo.lookup g k).1⟩, .illFormed)   -- (impossible history; see `clear`)
    | some c =>
      let lk := s.memo.lookup g k
      match lk.2 with
      | some r => (⟨s.live, lk.1⟩, .val r true)
      | none =>
        let r := rc c k a
        match lk.1.store g k r with
        | none => (⟨s.live, lk.1⟩, .keyError)
        | some m2 => (⟨s.live, m2⟩, .val r false)
  | .lookup g k _ =>
    match s.live g with
    | none => (⟨s.live, (s.memo.lookup g k).1⟩, .illFormed)
    | some _ =>
      match (s.memo.lookup g k).2 with
      | some r => (⟨s.live, (s.memo.lookup g k).1⟩, .val r true)
      | none => (⟨s.live, (s.memo.lookup g k).1⟩, .miss)
  | .store g k a =>
    match s.live g with
    | none => (s, .illFormed)
    | some c =>
      match s.memo.store g k (rc c k a) with
      | none => (s, .keyError)
      | some m2 => (⟨s.live, m2⟩, .val (rc c k a) false)

def run (rc : C → K → A → R) : St K C R → List (MOp K A C) → List (Out R)
  | _, [] => []
  | s, op :: h => (step rc s op).2 :: run rc (step rc s op).1 h

def final (rc : C → K → A → R) : St K C R → List (MOp K A C) → St K C R
  | s, [] => s
  | s, op :: h => final rc (step rc s op).1 h

/-- what an output has to be, given what the memo-less machine answers at that point -/
def Out.Agrees (o : Out R) (e : Option R) : Prop :=
  match o with
  | .val r _ => e = some r
  | .keyError => False
  | _ => True

/-- the answer of the machine without a memo table: every query recomputes from the current content -/
def expected (rc : C → K → A → R) (l : Gid → Option C) : MOp K A C → Option R
  | .query g k a => (l g).map (fun c => rc c k a)
  | .lookup g k a => (l g).map (fun c => rc c k a)
  | .store g k a => (l g).map (fun c => rc c k a)
  | _ => none

def ideal (rc : C → K → A → R) : (Gid → Option C) → List (MOp K A C) → List (Option R)
  | _, [] => []
  | l, op :: h => expected rc l op :: ideal rc (liveStep l op) h

/-- a fresh process: no graph, empty outer dict -/
def fresh : St K C R := ⟨fun _ => none, fun _ => none⟩

/-- histories made of whole queries only (no separate sections) -/
def MOp.isHigh : MOp K A C → Bool
  | .lookup .. | .store .. => false
  | _ => true

/-! ### decidable disciplines on histories -/
variable [DecidableEq A]

/-- ghost state of `Disciplined`: `none` = the graph was allocated or mutated and not cleared since;
`some f` = cleared since, and `f k` is the argument with which key `k` was queried since the clear -/
abbrev Ghost (K A : Type) := Gid → Option (K → Option A)

/-- one step of the discipline check: `none` = the operation breaks the discipline -/
def ghostOf (d : Ghost K A) : MOp K A C → Option (Ghost K A)
  | .alloc g _ => some (upd d g none)
  | .mutate g _ => some (upd d g none)
  | .drop g => some (upd d g none)
  | .clear g => some (upd d g (some fun _ => none))
  | .query g k a =>
    match d g with
    | none => none
    | some f =>
      match f k with
      | none => some (upd d g (some (upd f k (some a))))
      | some a' => if a' = a then some (upd d g (some (upd f k (some a)))) else none
  | .lookup g k a =>
    match d g with
    | none => none
    | some f =>
      match f k with
      | none => some (upd d g (some (upd f k (some a))))
      | some a' => if a' = a then some (upd d g (some (upd f k (some a)))) else none
  | .store g k a =>
    -- the value stored must belong to a lookup of this key with this argument since the last clear
    match d g with
    | none => none
    | some f =>
      match f k with
      | none => none
      | some a' => if a' = a then some d else none

def disciplinedFrom : Ghost K A → List (MOp K A C) → Bool
  | _, [] => true
  | d, op :: h =>
    match ghostOf d op with
    | none => false
    | some d' => disciplinedFrom d' h

/-- after every `alloc ↦ g` and every `mutate g` there is a `clear g` before the next `query g`
(and between two queries of one key with different arguments) -/
def Disciplined (h : List (MOp K A C)) : Prop := disciplinedFrom (fun _ => none) h = true

instance (h : List (MOp K A C)) : Decidable (Disciplined h) := by unfold Disciplined; infer_instance

/-- ghost state of `Isolated`: `e g` = the table of g was cleared within the history (its content no longer depends on
what was there before); `x g` = the outer entry of g certainly exists (a clear, lookup or query of g happened within the
history).  Queries and lookups need `e`; a `store` needs both (without `x` it could raise KeyError in one process and
not in another). -/
def isoOf (e x : Gid → Bool) : MOp K A C → Option ((Gid → Bool) × (Gid → Bool))
  | .clear g => some (upd e g true, upd x g true)
  | .query g _ _ => if e g then some (e, upd x g true) else none
  | .lookup g _ _ => if e g then some (e, upd x g true) else none
  | .store g _ _ => if e g && x g then some (e, x) else none
  | _ => some (e, x)

def isolatedFrom : (Gid → Bool) → (Gid → Bool) → List (MOp K A C) → Bool
  | _, _, [] => true
  | e, x, op :: h =>
    match isoOf e x op with
    | none => false
    | some ex => isolatedFrom ex.1 ex.2 h

/-- every `query g` (lookup, store) of the history is preceded, within the history, by a `clear g` -/
def Isolated (h : List (MOp K A C)) : Prop := isolatedFrom (fun _ => false) (fun _ => false) h = true

instance (h : List (MOp K A C)) : Decidable (Isolated h) := by unfold Isolated; infer_instance

/-- every `store g` of the history comes after a clear, lookup or query of g within the history (always the case for
the sections of real queries: the store section of a query follows its own lookup section) -/
def Guarded (h : List (MOp K A C)) : Prop := isolatedFrom (fun _ => true) (fun _ => false) h = true

instance (h : List (MOp K A C)) : Decidable (Guarded h) := by unfold Guarded; infer_instance

/-- the stricter, per-object form of `Isolated`: `alloc g` makes g "not cleared" again (what a clear at graph creation
would establish) -/
def allocClearedFrom : (Gid → Bool) → List (MOp K A C) → Bool
  | _, [] => true
  | e, .alloc g _ :: h => allocClearedFrom (upd e g false) h
  | e, .clear g :: h => allocClearedFrom (upd e g true) h
  | e, .query g _ _ :: h => e g && allocClearedFrom e h
  | e, .lookup g _ _ :: h => e g && allocClearedFrom e h
  | e, .store g _ _ :: h => e g && allocClearedFrom e h
  | e, _ :: h => allocClearedFrom e h

def AllocCleared (h : List (MOp K A C)) : Prop := allocClearedFrom (fun _ => false) h = true

/-- ids whose table may be non-empty after the operation -/
def dirtyOf (d : List Gid) : MOp K A C → List Gid
  | .query g _ _ => g :: d
  | .store g _ _ => g :: d
  | .clear g => d.filter (· ≠ g)
  | _ => d

def dirtyAfter : List Gid → List (MOp K A C) → List Gid
  | d, [] => d
  | d, op :: h => dirtyAfter (dirtyOf d op) h

/-- the history leaves every table it touched empty (each graph's last table operation is a `clear`) -/
def Tidy (h : List (MOp K A C)) : Prop := dirtyAfter [] h = []

instance (h : List (MOp K A C)) : Decidable (Tidy h) := by unfold Tidy; infer_instance

end
end ESV.Cache
