import ESV.Base.Ssb
/-
Two small object models used by C11.

1. Parameter objects with the mutable `indent` attribute
   (explorerscript/ssb_converting/ssb_data_types.py: SsbOpParamConstString.indent, SsbOpParamLanguageString.indent) and
   what the decompiler's writers do to the CALLER's parameter objects while printing
   (decompiler/write_handlers/simple_ops/simple.py `_single_param_to_string`:
        if hasattr(param, "indent"): param.indent = self.decompiler.indent
    label_jumps/switch_start.py `_case_header_for` (CaseMenu, params[0]); simple_ops/message_switches_cases.py
    (params[0] / params[1])): the only write is `indent`, on some of the parameters of an op.
   `ssb_decompiler.convert` works on `self._routine_ops`, whose SsbOperation objects are the caller's for every op
   that carries no jump (process_op_for_jump returns `op` itself), and whose parameter objects are always the caller's.

2. The compiler object (explorerscript/ssb_converting/ssb_compiler.py ExplorerScriptSsbCompiler): which attributes
   `compile()` (through `_compile`) resets before doing anything else, which it assigns later, which are constructor state.
Core Lean only.
-/
namespace ESV.Cache

/-! ### 1. parameter objects -/

inductive PyParam where
  | int (i : Int)
  | fixed (value : String)
  | const (name : String)
  | constString (s : String) (indent : Int)
  | langString (strings : List (String × String)) (indent : Int)
  | posMark (name : String) (xOff yOff xRel yRel : Int)
deriving DecidableEq, Repr

/-- the value a parameter stands for (what a binary writer would store) -/
def PyParam.meaning : PyParam → Param
  | .int i => .int i
  | .fixed v => .fixed v
  | .const n => .const n
  | .constString s _ => .constString s
  | .langString ss _ => .langString ss
  | .posMark n a b c d => .posMark n a b c d

/-- `if hasattr(param, "indent"): param.indent = i` -/
def PyParam.setIndent (i : Int) : PyParam → PyParam
  | .constString s _ => .constString s i
  | .langString ss _ => .langString ss i
  | p => p

/-- `__eq__` of the parameter classes (int: int equality; objects of different classes are unequal;
SsbOpParamPositionMarker.__eq__ does not compare `name`; none compares `indent`) -/
def PyParam.pyEq : PyParam → PyParam → Bool
  | .int i, .int j => i == j
  | .fixed v, .fixed w => v == w
  | .const n, .const m => n == m
  | .constString s _, .constString t _ => s == t
  | .langString ss _, .langString ts _ => ss == ts
  | .posMark _ a b c d, .posMark _ a' b' c' d' => a == a' && b == b' && c == c' && d == d'
  | _, _ => false

structure PyOp where
  offset : Int
  name : String
  params : List PyParam
deriving DecidableEq, Repr

def PyOp.meaning (o : PyOp) : Op := ⟨o.offset, o.name, o.params.map PyParam.meaning⟩

/-- printing one op: the writer chooses, per parameter position, whether it assigns `indent` and which value
(`sel n = some i`: parameter n gets `indent = i` if it has that attribute) -/
def printParams (sel : Nat → Option Int) : Nat → List PyParam → List PyParam
  | _, [] => []
  | n, p :: ps => (match sel n with | some i => p.setIndent i | none => p) :: printParams sel (n + 1) ps

def PyOp.print (sel : Nat → Option Int) (o : PyOp) : PyOp := { o with params := printParams sel 0 o.params }

/-- `SsbOperation.__eq__` with `SsbOpCode.__eq__` on (id, name) — ids are all -1 here -/
def PyOp.pyEq (a b : PyOp) : Bool :=
  a.offset == b.offset && a.name == b.name && a.params.length == b.params.length &&
    (a.params.zip b.params).all fun pq => pq.1.pyEq pq.2

/-! ### 2. the compiler object -/

/-- attributes of ExplorerScriptSsbCompiler.  `Res` bundles routine_infos, routine_ops, named_coroutines, source_map
(always assigned together, `none` = all four are None) -/
structure Comp (Ctor Res Imp Mac Ord : Type) where
  res : Option Res              -- reset to None first thing in compile()
  imports : Imp                 -- reset to []
  macros : Mac                  -- reset to {}
  order : Ord                   -- macro_resolution_order: reset to [] (since /repo 9934639); assigned after imports are loaded
  ctor : Ctor                   -- performance_progress_list_var_name, lookup_paths, recursion_check: never assigned by compile()

/-- Python attribute names behind the fields of `Comp` (checked against the `self.<attr> = …` statements of the real
class on every run by harness/props/c11.py: `resetAttrs` must be exactly the attributes assigned at the top of compile(),
before anything that can raise; `lateAttrs` the other attributes compile() assigns; `ctorAttrs` assigned in __init__ only) -/
def Comp.resetAttrs : List String :=
  ["routine_infos", "routine_ops", "named_coroutines", "source_map", "imports", "macros", "macro_resolution_order"]
def Comp.lateAttrs : List String := []
def Comp.ctorAttrs : List String := ["performance_progress_list_var_name", "lookup_paths", "recursion_check"]

/-- the pure stages of compile(); each depends on the source (text, file name, macros_only, original_base_file), the
constructor state and the values computed before it — never on the object's previous attribute values.
Sub-files are compiled by NEW compiler objects built from the constructor state (`self.__class__(perf, lookup_paths,
recursion_check + [file])`).  The file system is part of `loadImported`. -/
structure Stages (Src Ctor Res Imp Mac Ord Err : Type) where
  emptyImp : Imp
  emptyMac : Mac
  emptyOrd : Ord
  isSsbScript : Src → Bool                             -- parse_exps_meta_attributes
  ssbCompile : Src → Except Err Res                    -- SsbScriptSsbCompiler().compile
  parseImports : Src → Except Err Imp                  -- ExplorerScriptReader.read, ImportVisitor
  loadImported : Ctor → Src → Imp → Mac × Option Err   -- macros merged so far, and the error that stopped the loop
  resolveOrder : Mac → Src → Except Err Ord            -- MacroResolutionOrderVisitor
  ownMacros : Ctor → Mac → Ord → Src → Except Err Mac  -- MacroVisitor + update (result: merged dict)
  macrosOnly : Src → Bool
  macrosOnlyCheck : Src → Option Err                   -- HasRoutinesVisitor
  routines : Ctor → Mac → Src → Except Err Res         -- RoutineVisitor, strip_last_label, LabelFinalizer, Remover, SourceMapBuilder.build
  convertErr : Err → Err                               -- compile(): `except RecursionError` re-raises as SsbCompilerError

variable {Src Ctor Res Imp Mac Ord Err : Type}

/-- ExplorerScriptSsbCompiler._compile, statement by statement; returns the object afterwards and the exception raised -/
def compileBody (st : Stages Src Ctor Res Imp Mac Ord Err) (o : Comp Ctor Res Imp Mac Ord) (src : Src) :
    Comp Ctor Res Imp Mac Ord × Option Err :=
  let o := { o with res := none, imports := st.emptyImp, macros := st.emptyMac, order := st.emptyOrd }
  if st.isSsbScript src then
    match st.ssbCompile src with
    | .error e => (o, some e)
    | .ok r => ({ o with res := some r }, none)
  else
    match st.parseImports src with
    | .error e => (o, some e)
    | .ok imp =>
      let o := { o with imports := imp }
      match st.loadImported o.ctor src imp with
      | (m, some e) => ({ o with macros := m }, some e)
      | (m, none) =>
        let o := { o with macros := m }
        match st.resolveOrder m src with
        | .error e => (o, some e)
        | .ok ord =>
          let o := { o with order := ord }
          match st.ownMacros o.ctor m ord src with
          | .error e => (o, some e)
          | .ok m2 =>
            let o := { o with macros := m2 }
            if st.macrosOnly src then
              (o, st.macrosOnlyCheck src)
            else
              match st.routines o.ctor m2 src with
              | .error e => (o, some e)
              | .ok r => ({ o with res := some r }, none)

/-- ExplorerScriptSsbCompiler.compile:
      try: return self._compile(...)
      except RecursionError as e: self.routine_infos = self.routine_ops = self.named_coroutines = self.source_map = None; raise SsbCompilerError(...) from e
(any exception leaves the four result attributes None: `_compile` assigns them last; the handler's assignments are modelled all the same) -/
def compile (st : Stages Src Ctor Res Imp Mac Ord Err) (o : Comp Ctor Res Imp Mac Ord) (src : Src) :
    Comp Ctor Res Imp Mac Ord × Option Err :=
  match compileBody st o src with
  | (o', none) => (o', none)
  | (o', some e) => ({ o' with res := none }, some (st.convertErr e))

/-- a freshly constructed compiler object (`__init__`) -/
def Comp.init (st : Stages Src Ctor Res Imp Mac Ord Err) (c : Ctor) : Comp Ctor Res Imp Mac Ord :=
  ⟨none, st.emptyImp, st.emptyMac, st.emptyOrd, c⟩

/-- any sequence of earlier compile() calls on the object -/
def compileMany (st : Stages Src Ctor Res Imp Mac Ord Err) (o : Comp Ctor Res Imp Mac Ord) : List Src → Comp Ctor Res Imp Mac Ord
  | [] => o
  | s :: ss => compileMany st (compile st o s).1 ss

end ESV.Cache
