/-
Process-wide state the implementation writes, as the models of C11 (histories) and C12 (threads) account for it (pinned list).

Each entry is a line of the static inventory computed by harness/shared_inventory.py from the CURRENT /repo source (regenerated
into ESV/Gen/Shared.lean on every run of ./check C11 and ./check C12), paired with how it is treated.
`ESV.C11.history_state_inventory_pinned` / `ESV.C12.shared_inventory_pinned` decide that the regenerated inventory equals the
keys of this list: a new write to interpreter-wide or module/class-level state anywhere in the package (a `sys.set*` call, a
`global`, a mutable default argument, a module-level object mutated by a function, an unshadowed class-level mutable, a
container filled inside a function = lazy initialisation, …) — or a new kind of mutation of a listed object — no longer builds,
and the checks then search histories / schedules for it.  Mutations are tagged @def (module or class body: runs once, at import)
or @fn (inside a function).  Core Lean only.
-/
namespace ESV.Cache

def modelledShared : List (String × String) := [
  ("ambient-read|included_usage_map.py|os.path.abspath@fn#1",
    "reads the process's environment (working directory through abspath/realpath of a relative path, …): not modelled; ./check C11 repeats every reference in other working directories and requires identical results"),
  ("ambient-read|ssb_converting/ssb_compiler.py|os.path.realpath@fn#1",
    "reads the process's environment (working directory through abspath/realpath of a relative path, …): not modelled; ./check C11 repeats every reference in other working directories and requires identical results"),
  ("antlr|antlr/ExplorerScriptLexer.py|ExplorerScriptLexer.atn",
    "not modelled: shared prediction caches of the generated parsers, mutated by the antlr4 runtime; history / schedule exploration only (known finding: ParseError message)"),
  ("antlr|antlr/ExplorerScriptLexer.py|ExplorerScriptLexer.decisionsToDFA",
    "not modelled: shared prediction caches of the generated parsers, mutated by the antlr4 runtime; history / schedule exploration only (known finding: ParseError message)"),
  ("antlr|antlr/ExplorerScriptParser.py|ExplorerScriptParser.atn",
    "not modelled: shared prediction caches of the generated parsers, mutated by the antlr4 runtime; history / schedule exploration only (known finding: ParseError message)"),
  ("antlr|antlr/ExplorerScriptParser.py|ExplorerScriptParser.decisionsToDFA",
    "not modelled: shared prediction caches of the generated parsers, mutated by the antlr4 runtime; history / schedule exploration only (known finding: ParseError message)"),
  ("antlr|antlr/ExplorerScriptParser.py|ExplorerScriptParser.sharedContextCache",
    "not modelled: shared prediction caches of the generated parsers, mutated by the antlr4 runtime; history / schedule exploration only (known finding: ParseError message)"),
  ("antlr|antlr/SsbScriptLexer.py|SsbScriptLexer.atn",
    "not modelled: shared prediction caches of the generated parsers, mutated by the antlr4 runtime; history / schedule exploration only (known finding: ParseError message)"),
  ("antlr|antlr/SsbScriptLexer.py|SsbScriptLexer.decisionsToDFA",
    "not modelled: shared prediction caches of the generated parsers, mutated by the antlr4 runtime; history / schedule exploration only (known finding: ParseError message)"),
  ("antlr|antlr/SsbScriptParser.py|SsbScriptParser.atn",
    "not modelled: shared prediction caches of the generated parsers, mutated by the antlr4 runtime; history / schedule exploration only (known finding: ParseError message)"),
  ("antlr|antlr/SsbScriptParser.py|SsbScriptParser.decisionsToDFA",
    "not modelled: shared prediction caches of the generated parsers, mutated by the antlr4 runtime; history / schedule exploration only (known finding: ParseError message)"),
  ("antlr|antlr/SsbScriptParser.py|SsbScriptParser.sharedContextCache",
    "not modelled: shared prediction caches of the generated parsers, mutated by the antlr4 runtime; history / schedule exploration only (known finding: ParseError message)"),
  ("call|ssb_converting/decompiler/graph_building/graph_minimizer.py|sys.setrecursionlimit@def#1",
    "import-time write of a constant (runs once under the import lock, before any compile()/convert() of the process can run the module's code)"),
  ("identity-key|ssb_converting/compiler/compiler_visitor/statement_visitor.py|id@fn#1",
    "object identity / hash used as a value (logging, __hash__, visited-set of handler objects): not modelled, covered by the multi-hash-seed references and the history exploration"),
  ("identity-key|ssb_converting/decompiler/graph_building/graph_utils.py|id@fn#2",
    "id(graph) as the key of the memo table: the recyclable `Gid` of ESV/Cache/Model.lean"),
  ("identity-key|ssb_converting/decompiler/write_handlers/label_jumps/if_start.py|id@fn#2",
    "object identity / hash used as a value (logging, __hash__, visited-set of handler objects): not modelled, covered by the multi-hash-seed references and the history exploration"),
  ("identity-key|ssb_converting/ssb_compiler.py|id@fn#1",
    "object identity / hash used as a value (logging, __hash__, visited-set of handler objects): not modelled, covered by the multi-hash-seed references and the history exploration"),
  ("identity-key|ssb_converting/ssb_data_types.py|hash@fn#1",
    "object identity / hash used as a value (logging, __hash__, visited-set of handler objects): not modelled, covered by the multi-hash-seed references and the history exploration"),
  ("module-object|ssb_converting/decompiler/graph_building/graph_utils.py|cache_lock:instance:Lock|with@fn",
    "the lock: its `with` blocks are the atomic sections of ESV/Cache/Threads.lean"),
  ("module-object|ssb_converting/decompiler/graph_building/graph_utils.py|find_first_common_next_vertex_in_edges_cache:dict|subscript@fn",
    "the memo table: `Memo` of ESV/Cache/Model.lean; written only by subscript assignment inside the locked sections (lookup, store, clear)"),
  ("set-iteration|ssb_converting/decompiler/graph_building/graph_minimizer.py|comprehension:name:breaks_set@fn#1",
    "iteration order may depend on element hashes (ints: deterministic; strings: PYTHONHASHSEED; objects: addresses): not modelled, covered by the multi-hash-seed references of ./check C11"),
  ("set-iteration|ssb_converting/decompiler/graph_building/graph_utils.py|comprehension:name:vs@fn#1",
    "iteration order may depend on element hashes (ints: deterministic; strings: PYTHONHASHSEED; objects: addresses): not modelled, covered by the multi-hash-seed references of ./check C11"),
  ("set-iteration|ssb_converting/decompiler/graph_building/graph_utils.py|for:name:should_remove@fn#1",
    "iteration order may depend on element hashes (ints: deterministic; strings: PYTHONHASHSEED; objects: addresses): not modelled, covered by the multi-hash-seed references of ./check C11"),
  ("set-iteration|ssb_converting/decompiler/graph_building/graph_utils.py|for:set-op@fn#1",
    "iteration order may depend on element hashes (ints: deterministic; strings: PYTHONHASHSEED; objects: addresses): not modelled, covered by the multi-hash-seed references of ./check C11"),
  ("set-iteration|ssb_converting/decompiler/graph_building/graph_utils.py|pop:name:intersection_result@fn#1",
    "iteration order may depend on element hashes (ints: deterministic; strings: PYTHONHASHSEED; objects: addresses): not modelled, covered by the multi-hash-seed references of ./check C11")]

def modelledSharedKeys : List String := modelledShared.map (·.1)

end ESV.Cache
