import ESV.Cache.ThreadLemmas
/-
Each thread's query results under any schedule are the results of its program run alone (on the machine without a memo
table): the literal reading of C12 on the threaded memo machine.  For programs of whole operations (`MOp.isHigh`).
-/
set_option linter.unusedSectionVars false
namespace ESV.Cache

section
variable {K A C R : Type} [DecidableEq K] [DecidableEq A]

/-- the live graphs as thread t sees them (its own) -/
def view (live : Gid → Option (Tid × C)) (t : Tid) : Gid → Option C := owned live t

/-- operations thread t still has to perform, the one in progress included -/
def remaining (th : Thread K A C R) : List (MOp K A C) :=
  match th.phase with
  | .idle => th.prog
  | .looked g k a => .query g k a :: th.prog
  | .computed g k a _ => .query g k a :: th.prog

/-- the values the memo-less machine returns -/
def idealVals (rc : C → K → A → R) (l : Gid → Option C) (h : List (MOp K A C)) : List R := (ideal rc l h).filterMap id

/-- the values thread t is still going to return if it runs alone from here -/
def todo (rc : C → K → A → R) (s : MSt K A C R) (t : Tid) : List R := idealVals rc (view s.live t) (remaining (s.th t))

theorem idealVals_cons (rc : C → K → A → R) (l : Gid → Option C) (op : MOp K A C) (h : List (MOp K A C)) :
    idealVals rc l (op :: h) = (expected rc l op).toList ++ idealVals rc (liveStep l op) h := by
  simp only [idealVals, ideal, List.filterMap_cons]
  cases expected rc l op <;> simp

theorem owned_upd_same (live : Gid → Option (Tid × C)) (t : Tid) (g : Gid) (c : C) :
    owned (upd live g (some (t, c))) t = upd (owned live t) g (some c) := by
  funext g'
  by_cases e : g' = g
  · subst e; simp [owned]
  · simp [owned, upd_other _ _ _ _ e]

theorem owned_upd_none (live : Gid → Option (Tid × C)) (t : Tid) (g : Gid) :
    owned (upd live g none) t = upd (owned live t) g none := by
  funext g'
  by_cases e : g' = g
  · subst e; simp [owned]
  · simp [owned, upd_other _ _ _ _ e]

/-- another thread's step does not change what thread t owns -/
theorem view_other (rc : C → K → A → R) (s : MSt K A C R) (t0 t : Tid) (ht : t ≠ t0) :
    view (act rc s t0).live t = view s.live t := by
  funext g
  simp only [view]
  -- what t owns before
  cases ho : owned s.live t g with
  | some c =>
    have hl := owned_some ho
    exact owned_of_live (act_live_other rc s t0 t g c hl ht)
  | none =>
    cases ho' : owned (act rc s t0).live t g with
    | none => rfl
    | some c' =>
      have hl' := owned_some ho'
      have hl := act_live_other' rc s t0 t g c' hl' ht
      rw [owned_of_live hl] at ho; cases ho

/-- the thread an event belongs to -/
def Ev.tid : Ev K A C R → Tid
  | .ok t | .val t .. | .missed t | .computedEv t | .illFormed t | .keyError t .. | .done t => t

omit [DecidableEq A] in
theorem act_ev_tid (rc : C → K → A → R) (s : MSt K A C R) (t : Tid) : (act rc s t).ev.tid = t := by
  unfold act
  split
  · split <;> rfl
  · split
    · rfl
    · split <;> rfl
  · split
    · rfl
    · split <;> rfl
    · split <;> rfl
    · split <;> rfl
    · split <;> rfl
    · split
      · rfl
      · split <;> rfl
    · split
      · rfl
      · split <;> rfl
    · split
      · rfl
      · split <;> rfl

omit [DecidableEq K] [DecidableEq A] in
theorem valuesOf_other (t : Tid) (ev : Ev K A C R) (h : ev.tid ≠ t) : valuesOf t [ev] = [] := by
  cases ev with
  | val t' g k a r c hit => simp only [Ev.tid] at h; simp [valuesOf, h]
  | _ => rfl

omit [DecidableEq K] [DecidableEq A] in
theorem valuesOf_cons (t : Tid) (ev : Ev K A C R) (evs : List (Ev K A C R)) :
    valuesOf t (ev :: evs) = valuesOf t [ev] ++ valuesOf t evs := by
  cases ev <;> simp [valuesOf]
  split <;> simp

theorem all_high_tail {op : MOp K A C} {h : List (MOp K A C)} (hh : (op :: h).all MOp.isHigh = true) :
    h.all MOp.isHigh = true := by
  simp only [List.all_cons, Bool.and_eq_true] at hh; exact hh.2

/-- one scheduler step: what thread t returns in it, followed by what it is still going to return, is what it was going
to return before — unless the step is ill-formed -/
theorem seq_step (rc : C → K → A → R) (s : MSt K A C R) (D : Tid → Ghost K A) (inv : TInv rc s D) (t0 t : Tid)
    (hh : (remaining (s.th t)).all MOp.isHigh = true) (hwf : (stepT rc s t0).2 ≠ .illFormed t0) :
    valuesOf t [(stepT rc s t0).2] ++ todo rc (stepT rc s t0).1 t = todo rc s t ∧
    (remaining ((stepT rc s t0).1.th t)).all MOp.isHigh = true := by
  by_cases ht : t = t0
  · subst ht
    have own := act_own rc s D inv t
    simp only [stepT, todo] at hwf ⊢
    rw [upd_same]
    cases hph : (s.th t).phase with
    | looked g k a =>
      obtain ⟨⟨c, hl⟩, _, _⟩ := inv.looked t g k a hph
      have ha : act rc s t = ⟨s.live, s.memo, ⟨.computed g k a (rc c k a), (s.th t).prog⟩, .computedEv t⟩ := by
        simp [act, hph, owned_of_live hl]
      rw [ha]
      simp only [remaining, hph] at hh ⊢
      exact ⟨by simp [valuesOf], hh⟩
    | computed g k a r =>
      obtain ⟨⟨c, hl, hr⟩, _, hm⟩ := inv.computed t g k a r hph
      obtain ⟨m2, hs, _, _⟩ := store_some s.memo g k r hm
      have ha : act rc s t = ⟨s.live, m2, ⟨.idle, (s.th t).prog⟩, .val t g k a r c false⟩ := by
        simp [act, hph, owned_of_live hl, hs]
      rw [ha]
      simp only [remaining, hph] at hh ⊢
      refine ⟨?_, all_high_tail hh⟩
      rw [idealVals_cons]
      simp [valuesOf, expected, view, owned_of_live hl, hr, liveStep, liveStepAux]
    | idle =>
      simp only [remaining, hph] at hh
      cases hpr : (s.th t).prog with
      | nil =>
        have ha : act rc s t = ⟨s.live, s.memo, ⟨.idle, []⟩, .done t⟩ := by
          have : s.th t = ⟨.idle, []⟩ := by
            cases hth : s.th t with
            | mk ph pr => rw [hth] at hph hpr; simp at hph hpr; rw [hph, hpr]
          simp [act, this]
        rw [ha]
        simp [remaining, hph, hpr, valuesOf]
      | cons op rest =>
        rw [hpr] at hh
        have hrest := all_high_tail hh
        simp only [remaining, hph, hpr]
        rw [idealVals_cons]
        cases op with
        | lookup g k a => simp [MOp.isHigh] at hh
        | store g k a => simp [MOp.isHigh] at hh
        | alloc g c =>
          by_cases hn : (s.live g).isNone
          · have ha : act rc s t = ⟨upd s.live g (some (t, c)), s.memo, ⟨.idle, rest⟩, .ok t⟩ := by
              simp [act, hph, hpr, hn]
            rw [ha]
            have hv : view s.live t g = none := by
              cases hlg : s.live g with
              | none => simp [view, owned, hlg]
              | some p => simp [hlg] at hn
            refine ⟨?_, hrest⟩
            simp only [valuesOf, remaining, List.nil_append, expected, Option.toList, view]
            rw [owned_upd_same]
            simp [liveStep, liveStepAux, liveOk, view] at hv ⊢
            simp [hv]
          · have ha : act rc s t = ⟨s.live, s.memo, ⟨.idle, rest⟩, .illFormed t⟩ := by
              simp [act, hph, hpr, hn]
            rw [ha] at hwf
            exact absurd rfl hwf
        | mutate g c =>
          cases ho : owned s.live t g with
          | some c0 =>
            have ha : act rc s t = ⟨upd s.live g (some (t, c)), s.memo, ⟨.idle, rest⟩, .ok t⟩ := by
              simp [act, hph, hpr, ho]
            rw [ha]
            refine ⟨?_, hrest⟩
            simp only [valuesOf, remaining, List.nil_append, expected, Option.toList, view]
            rw [owned_upd_same]
            simp [liveStep, liveStepAux, liveOk, ho]
          | none =>
            have ha : act rc s t = ⟨s.live, s.memo, ⟨.idle, rest⟩, .illFormed t⟩ := by
              simp [act, hph, hpr, ho]
            rw [ha] at hwf
            exact absurd rfl hwf
        | drop g =>
          cases ho : owned s.live t g with
          | some c0 =>
            have ha : act rc s t = ⟨upd s.live g none, s.memo, ⟨.idle, rest⟩, .ok t⟩ := by
              simp [act, hph, hpr, ho]
            rw [ha]
            refine ⟨?_, hrest⟩
            simp only [valuesOf, remaining, List.nil_append, expected, Option.toList, view]
            rw [owned_upd_none]
            simp [liveStep, liveStepAux, liveOk, ho]
          | none =>
            have ha : act rc s t = ⟨s.live, s.memo, ⟨.idle, rest⟩, .illFormed t⟩ := by
              simp [act, hph, hpr, ho]
            rw [ha] at hwf
            exact absurd rfl hwf
        | clear g =>
          cases ho : owned s.live t g with
          | some c0 =>
            have ha : act rc s t = ⟨s.live, s.memo.clear g, ⟨.idle, rest⟩, .ok t⟩ := by
              simp [act, hph, hpr, ho]
            rw [ha]
            refine ⟨?_, hrest⟩
            simp [valuesOf, remaining, expected, liveStep, liveStepAux]
          | none =>
            have ha : act rc s t = ⟨s.live, s.memo, ⟨.idle, rest⟩, .illFormed t⟩ := by
              simp [act, hph, hpr, ho]
            rw [ha] at hwf
            exact absurd rfl hwf
        | query g k a =>
          cases ho : owned s.live t g with
          | none =>
            have ha : act rc s t = ⟨s.live, s.memo, ⟨.idle, rest⟩, .illFormed t⟩ := by
              simp [act, hph, hpr, ho]
            rw [ha] at hwf
            exact absurd rfl hwf
          | some c =>
            cases hlk : (s.memo.lookup g k).2 with
            | some r =>
              have ha : act rc s t = ⟨s.live, (s.memo.lookup g k).1, ⟨.idle, rest⟩, .val t g k a r c true⟩ := by
                simp [act, hph, hpr, ho, hlk]
              have hsafe := own.safe
              rw [ha] at hsafe ⊢
              simp only [Ev.Safe] at hsafe
              refine ⟨?_, hrest⟩
              simp [valuesOf, remaining, expected, view, ho, hsafe, liveStep, liveStepAux]
            | none =>
              have ha : act rc s t = ⟨s.live, (s.memo.lookup g k).1, ⟨.looked g k a, rest⟩, .missed t⟩ := by
                simp [act, hph, hpr, ho, hlk]
              rw [ha]
              refine ⟨?_, ?_⟩
              · simp only [valuesOf, remaining, List.nil_append]
                rw [idealVals_cons]
              · simpa [remaining] using hh
  · have hth : (stepT rc s t0).1.th t = s.th t := by simp [stepT, upd_other _ _ _ _ ht]
    have hv : view (stepT rc s t0).1.live t = view s.live t := view_other rc s t0 t ht
    refine ⟨?_, by rw [hth]; exact hh⟩
    simp only [todo, hth, hv]
    have : valuesOf t [(stepT rc s t0).2] = [] := by
      apply valuesOf_other
      simp only [stepT, act_ev_tid]
      exact Ne.symm ht
    rw [this]; rfl

theorem seq_gen (rc : C → K → A → R) (sched : List Tid) :
    ∀ (s : MSt K A C R) (D : Tid → Ghost K A), TInv rc s D → (∀ t, (remaining (s.th t)).all MOp.isHigh = true) →
      (∀ t0, Ev.illFormed t0 ∉ runT rc s sched) →
      ∀ t, valuesOf t (runT rc s sched) ++ todo rc (finalT rc s sched) t = todo rc s t := by
  induction sched with
  | nil => intro s D _ _ _ t; simp [runT, finalT, valuesOf]
  | cons t0 ts ih =>
    intro s D inv hh hwf t
    simp only [runT, finalT]
    have hwf0 : (stepT rc s t0).2 ≠ .illFormed t0 := by
      intro h
      exact hwf t0 (by simp [runT, h])
    obtain ⟨inv', _⟩ := tinv_step rc s D inv t0
    have hh' : ∀ t', (remaining ((stepT rc s t0).1.th t')).all MOp.isHigh = true :=
      fun t' => (seq_step rc s D inv t0 t' (hh t') hwf0).2
    have hwf' : ∀ t1, Ev.illFormed t1 ∉ runT rc (stepT rc s t0).1 ts := by
      intro t1 h
      exact hwf t1 (by simp [runT, h])
    rw [valuesOf_cons, List.append_assoc, ih _ _ inv' hh' hwf' t]
    exact (seq_step rc s D inv t0 t (hh t) hwf0).1

theorem todo_start (rc : C → K → A → R) (progs : Tid → List (MOp K A C)) (m : Memo K R) (t : Tid) :
    todo rc (startT progs m) t = idealVals rc (fun _ => none) (progs t) := by
  simp only [todo, startT, remaining, view]
  congr 1

theorem todo_finished (rc : C → K → A → R) (s : MSt K A C R) (t : Tid) (h1 : (s.th t).phase = .idle) (h2 : (s.th t).prog = []) :
    todo rc s t = [] := by
  simp [todo, remaining, h1, h2, idealVals, ideal]

end
end ESV.Cache
