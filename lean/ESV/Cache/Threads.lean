import ESV.Cache.Model
/-
The memo table of graph_utils.py under threads (C12).

Each thread runs a program of the same operations as the sequential machine (ESV/Cache/Model.lean); the table is shared.
A query is NOT atomic — the real function holds `cache_lock` twice and computes in between:

    with cache_lock:  lookup          (atomic section 1; a hit returns here)
    result = _impl(...)               (section 2, no lock: other threads run; reads the thread's own graph)
    with cache_lock:  store           (atomic section 3; `cache[id(g)][k] = result` — KeyError if the outer entry is gone)

and `..__clear_cache` is one atomic section.  Graph objects are private to the convert() call that created them: a
thread only passes graphs it allocated itself (`live g = some (t, c)`: thread t owns the live graph with id g).  Ids are
recyclable across threads: once a graph is dropped any thread's `alloc` may get its id.
One scheduler step = one atomic section of the chosen thread; a schedule is any list of thread ids.
A query nested in `compute` (the recursion inside `_impl`: same thread, same graph) is written with the section
operations: the outer query becomes `lookup … store` around the sections of the nested ones.
Core Lean only.
-/
namespace ESV.Cache

section
variable {K A C R : Type} [DecidableEq K]

inductive Phase (K A R : Type) where
  | idle
  | looked (g : Gid) (k : K) (a : A)                -- between lookup (miss) and compute
  | computed (g : Gid) (k : K) (a : A) (r : R)      -- between compute and store

structure Thread (K A C R : Type) where
  phase : Phase K A R
  prog : List (MOp K A C)

structure MSt (K A C R : Type) where
  live : Gid → Option (Tid × C)
  memo : Memo K R
  th : Tid → Thread K A C R

inductive Ev (K A C R : Type) where
  | ok (t : Tid)
  | val (t : Tid) (g : Gid) (k : K) (a : A) (r : R) (c : C) (hit : Bool)   -- a query returns r; c = content of g now
  | missed (t : Tid)
  | computedEv (t : Tid)
  | illFormed (t : Tid)       -- not a possible step (a graph the thread does not own / alloc of a live id)
  | keyError (t : Tid) (g : Gid) (k : K)
  | done (t : Tid)            -- the thread has finished
deriving Repr, DecidableEq

/-- content of g if thread t owns the live graph with that id -/
def owned (live : Gid → Option (Tid × C)) (t : Tid) (g : Gid) : Option C :=
  match live g with
  | some (t', c) => if t' = t then some c else none
  | none => none

structure Res (K A C R : Type) where
  live : Gid → Option (Tid × C)
  memo : Memo K R
  me : Thread K A C R
  ev : Ev K A C R

/-- the next atomic section of thread t -/
def act (rc : C → K → A → R) (s : MSt K A C R) (t : Tid) : Res K A C R :=
  match (s.th t).phase with
  | .looked g k a =>
    match owned s.live t g with
    | some c => ⟨s.live, s.memo, ⟨.computed g k a (rc c k a), (s.th t).prog⟩, .computedEv t⟩
    | none => ⟨s.live, s.memo, ⟨.idle, (s.th t).prog⟩, .illFormed t⟩
  | .computed g k a r =>
    match owned s.live t g with
    | none => ⟨s.live, s.memo, ⟨.idle, (s.th t).prog⟩, .illFormed t⟩
    | some c =>
      match s.memo.store g k r with
      | none => ⟨s.live, s.memo, ⟨.idle, (s.th t).prog⟩, .keyError t g k⟩
      | some m2 => ⟨s.live, m2, ⟨.idle, (s.th t).prog⟩, .val t g k a r c false⟩
  | .idle =>
    match (s.th t).prog with
    | [] => ⟨s.live, s.memo, s.th t, .done t⟩
    | .alloc g c :: rest =>
      if (s.live g).isNone then ⟨upd s.live g (some (t, c)), s.memo, ⟨.idle, rest⟩, .ok t⟩
      else ⟨s.live, s.memo, ⟨.idle, rest⟩, .illFormed t⟩
    | .mutate g c :: rest =>
      match owned s.live t g with
      | some _ => ⟨upd s.live g (some (t, c)), s.memo, ⟨.idle, rest⟩, .ok t⟩
      | none => ⟨s.live, s.memo, ⟨.idle, rest⟩, .illFormed t⟩
    | .drop g :: rest =>
      match owned s.live t g with
      | some _ => ⟨upd s.live g none, s.memo, ⟨.idle, rest⟩, .ok t⟩
      | none => ⟨s.live, s.memo, ⟨.idle, rest⟩, .illFormed t⟩
    | .clear g :: rest =>
      match owned s.live t g with
      | some _ => ⟨s.live, s.memo.clear g, ⟨.idle, rest⟩, .ok t⟩
      | none => ⟨s.live, s.memo, ⟨.idle, rest⟩, .illFormed t⟩
    | .query g k a :: rest =>
      match owned s.live t g with
      | none => ⟨s.live, s.memo, ⟨.idle, rest⟩, .illFormed t⟩
      | some c =>
        match (s.memo.lookup g k).2 with
        | some r => ⟨s.live, (s.memo.lookup g k).1, ⟨.idle, rest⟩, .val t g k a r c true⟩
        | none => ⟨s.live, (s.memo.lookup g k).1, ⟨.looked g k a, rest⟩, .missed t⟩
    | .lookup g k a :: rest =>          -- a lookup section on its own (nested queries): one atomic section
      match owned s.live t g with
      | none => ⟨s.live, s.memo, ⟨.idle, rest⟩, .illFormed t⟩
      | some c =>
        match (s.memo.lookup g k).2 with
        | some r => ⟨s.live, (s.memo.lookup g k).1, ⟨.idle, rest⟩, .val t g k a r c true⟩
        | none => ⟨s.live, (s.memo.lookup g k).1, ⟨.idle, rest⟩, .missed t⟩
    | .store g k a :: rest =>           -- a store section on its own: the value is computed from the graph as it is now
      match owned s.live t g with
      | none => ⟨s.live, s.memo, ⟨.idle, rest⟩, .illFormed t⟩
      | some c =>
        match s.memo.store g k (rc c k a) with
        | none => ⟨s.live, s.memo, ⟨.idle, rest⟩, .keyError t g k⟩
        | some m2 => ⟨s.live, m2, ⟨.idle, rest⟩, .val t g k a (rc c k a) c false⟩

def stepT (rc : C → K → A → R) (s : MSt K A C R) (t : Tid) : MSt K A C R × Ev K A C R :=
  (⟨(act rc s t).live, (act rc s t).memo, upd s.th t (act rc s t).me⟩, (act rc s t).ev)

/-- events of a schedule -/
def runT (rc : C → K → A → R) : MSt K A C R → List Tid → List (Ev K A C R)
  | _, [] => []
  | s, t :: ts => (stepT rc s t).2 :: runT rc (stepT rc s t).1 ts

def finalT (rc : C → K → A → R) : MSt K A C R → List Tid → MSt K A C R
  | s, [] => s
  | s, t :: ts => finalT rc (stepT rc s t).1 ts

/-- a query result is what `_impl` gives on the thread's own graph as it is when the result is returned; no KeyError -/
def Ev.Safe (rc : C → K → A → R) : Ev K A C R → Prop
  | .val _ _ k a r c _ => r = rc c k a
  | .keyError .. => False
  | _ => True

/-- the values thread t's queries returned, in order -/
def valuesOf (t : Tid) : List (Ev K A C R) → List R
  | [] => []
  | .val t' _ _ _ r _ _ :: es => if t' = t then r :: valuesOf t es else valuesOf t es
  | _ :: es => valuesOf t es

/-- start state: the given programs, all threads idle, no live graph, any memo table -/
def startT (progs : Tid → List (MOp K A C)) (m : Memo K R) : MSt K A C R :=
  ⟨fun _ => none, m, fun t => ⟨.idle, progs t⟩⟩

end
end ESV.Cache
