import ESV.Cache.Threads
import ESV.Cache.Lemmas
/-
Invariant of the threaded memo machine (ESV/Cache/Threads.lean) under arbitrary schedules.
-/
set_option linter.unusedSectionVars false
namespace ESV.Cache

section
variable {K A C R : Type} [DecidableEq K]

theorem owned_some {live : Gid → Option (Tid × C)} {t : Tid} {g : Gid} {c : C} (h : owned live t g = some c) :
    live g = some (t, c) := by
  unfold owned at h
  split at h
  · rename_i t' c' hl
    split at h
    · rename_i ht; subst ht; cases h; exact hl
    · cases h
  · cases h

theorem owned_of_live {live : Gid → Option (Tid × C)} {t : Tid} {g : Gid} {c : C} (h : live g = some (t, c)) :
    owned live t g = some c := by
  simp [owned, h]

theorem owned_none_of_other {live : Gid → Option (Tid × C)} {t t' : Tid} {g : Gid} {c : C} (h : live g = some (t', c))
    (ht : t' ≠ t) : owned live t g = none := by
  simp [owned, h, ht]

/-! ### frame: what a step of thread t cannot touch -/

theorem act_live_other (rc : C → K → A → R) (s : MSt K A C R) (t t' : Tid) (g : Gid) (c : C)
    (h : s.live g = some (t', c)) (ht : t' ≠ t) : (act rc s t).live g = some (t', c) := by
  unfold act
  split
  · split <;> exact h
  · split
    · exact h
    · split <;> exact h
  · split
    · exact h
    · rename_i g2 c2 rest _
      split
      · rename_i hn
        have : g ≠ g2 := by intro e; subst e; simp [h] at hn
        simp [upd_other _ _ _ _ this, h]
      · exact h
    · rename_i g2 c2 rest _
      split
      · rename_i c3 ho
        have := owned_some ho
        have : g ≠ g2 := by intro e; subst e; rw [h] at this; cases this; exact ht rfl
        simp [upd_other _ _ _ _ this, h]
      · exact h
    · rename_i g2 rest _
      split
      · rename_i c3 ho
        have := owned_some ho
        have : g ≠ g2 := by intro e; subst e; rw [h] at this; cases this; exact ht rfl
        simp [upd_other _ _ _ _ this, h]
      · exact h
    · split <;> exact h
    · split
      · exact h
      · split <;> exact h
    · split
      · exact h
      · split <;> exact h
    · split
      · exact h
      · split <;> exact h

theorem act_live_other' (rc : C → K → A → R) (s : MSt K A C R) (t t' : Tid) (g : Gid) (c : C)
    (h : (act rc s t).live g = some (t', c)) (ht : t' ≠ t) : s.live g = some (t', c) := by
  unfold act at h
  split at h
  · split at h <;> exact h
  · split at h
    · exact h
    · split at h <;> exact h
  · split at h
    · exact h
    · rename_i g2 c2 rest _
      split at h
      · by_cases e : g = g2
        · subst e; simp at h; exact absurd h.1.symm ht
        · simpa [upd_other _ _ _ _ e] using h
      · exact h
    · rename_i g2 c2 rest _
      split at h
      · by_cases e : g = g2
        · subst e; simp at h; exact absurd h.1.symm ht
        · simpa [upd_other _ _ _ _ e] using h
      · exact h
    · rename_i g2 rest _
      split at h
      · by_cases e : g = g2
        · subst e; simp at h
        · simpa [upd_other _ _ _ _ e] using h
      · exact h
    · split at h <;> exact h
    · split at h
      · exact h
      · split at h <;> exact h
    · split at h
      · exact h
      · split at h <;> exact h
    · split at h
      · exact h
      · split at h <;> exact h

theorem look_store_other (m m2 : Memo K R) (g g' : Gid) (k k' : K) (r : R) (hs : m.store g k r = some m2) (hg : g' ≠ g) :
    m2.look g' k' = m.look g' k' := by
  unfold Memo.store at hs
  cases hm : m g with
  | none => simp [hm] at hs
  | some tbl =>
    simp only [hm, Option.some.injEq] at hs
    subst hs
    simp [Memo.look, hg]

theorem act_memo_other (rc : C → K → A → R) (s : MSt K A C R) (t t' : Tid) (g : Gid) (c : C)
    (h : s.live g = some (t', c)) (ht : t' ≠ t) (k : K) : (act rc s t).memo.look g k = s.memo.look g k := by
  have hne : ∀ g2 c2, owned s.live t g2 = some c2 → g ≠ g2 := by
    intro g2 c2 ho e
    subst e
    have := owned_some ho
    rw [h] at this; cases this; exact ht rfl
  unfold act
  split
  · split <;> rfl
  · split
    · rfl
    · rename_i c2 ho
      split
      · rfl
      · rename_i m2 hs
        exact look_store_other _ _ _ _ _ _ _ hs (hne _ _ ho)
  · split
    · rfl
    · split <;> rfl
    · split <;> rfl
    · split <;> rfl
    · split
      · rename_i c2 ho
        simp [look_clear, hne _ _ ho]
      · rfl
    · split
      · rfl
      · split <;> simp only [look_lookup_fst]
    · split
      · rfl
      · split <;> simp only [look_lookup_fst]
    · split
      · rfl
      · rename_i c2 ho
        split
        · rfl
        · rename_i m2 hs
          exact look_store_other _ _ _ _ _ _ _ hs (hne _ _ ho)

theorem act_memo_keeps (rc : C → K → A → R) (s : MSt K A C R) (t : Tid) (g : Gid) (h : s.memo g ≠ none) :
    (act rc s t).memo g ≠ none := by
  unfold act
  split
  · split <;> exact h
  · split
    · exact h
    · split
      · exact h
      · rename_i m2 hs
        exact store_keeps _ _ _ _ _ _ hs h
  · split
    · exact h
    · split <;> exact h
    · split <;> exact h
    · split <;> exact h
    · split
      · exact clear_keeps _ _ _ h
      · exact h
    · split
      · exact h
      · split <;> exact lookup_keeps s.memo _ g ‹K› h
    · split
      · exact h
      · split <;> exact lookup_keeps s.memo _ g ‹K› h
    · split
      · exact h
      · split
        · exact h
        · rename_i m2 hs
          exact store_keeps _ _ _ _ _ _ hs h

/-! ### the invariant -/
variable [DecidableEq A]

/-- ghost discipline state of thread t after its next section (as `disciplinedFrom` steps it: a new operation is
checked when the thread takes it up; the later sections of a whole query leave the ghost state alone) -/
def ghostStep (s : MSt K A C R) (t : Tid) (d : Ghost K A) : Ghost K A :=
  match (s.th t).phase, (s.th t).prog with
  | .idle, op :: _ => (ghostOf d op).getD d
  | _, _ => d

structure TInv (rc : C → K → A → R) (s : MSt K A C R) (D : Tid → Ghost K A) : Prop where
  /-- the rest of every program is disciplined from the thread's ghost state -/
  disc : ∀ t, disciplinedFrom (D t) (s.th t).prog = true
  /-- the table of a live graph that its owner has cleared since the last (re)allocation/mutation holds only values
  computed from the graph's current content -/
  fresh : ∀ g t c f k r, s.live g = some (t, c) → D t g = some f → s.memo.look g k = some r →
    ∃ a, f k = some a ∧ r = rc c k a
  /-- … and exists -/
  ex : ∀ g t c f, s.live g = some (t, c) → D t g = some f → s.memo g ≠ none
  looked : ∀ t g k a, (s.th t).phase = .looked g k a →
    (∃ c, s.live g = some (t, c)) ∧ (∃ f, D t g = some f ∧ f k = some a) ∧ s.memo g ≠ none
  computed : ∀ t g k a r, (s.th t).phase = .computed g k a r →
    (∃ c, s.live g = some (t, c) ∧ r = rc c k a) ∧ (∃ f, D t g = some f ∧ f k = some a) ∧ s.memo g ≠ none

/-- obligations of the stepping thread itself, on the result `x` of its section -/
structure OwnOk (rc : C → K → A → R) (t : Tid) (d' : Ghost K A) (x : Res K A C R) : Prop where
  disc : disciplinedFrom d' x.me.prog = true
  fresh : ∀ g c f k r, x.live g = some (t, c) → d' g = some f → x.memo.look g k = some r →
    ∃ a, f k = some a ∧ r = rc c k a
  ex : ∀ g c f, x.live g = some (t, c) → d' g = some f → x.memo g ≠ none
  looked : ∀ g k a, x.me.phase = .looked g k a →
    (∃ c, x.live g = some (t, c)) ∧ (∃ f, d' g = some f ∧ f k = some a) ∧ x.memo g ≠ none
  computed : ∀ g k a r, x.me.phase = .computed g k a r →
    (∃ c, x.live g = some (t, c) ∧ r = rc c k a) ∧ (∃ f, d' g = some f ∧ f k = some a) ∧ x.memo g ≠ none
  safe : x.ev.Safe rc

/-- a section that changes neither `live` nor `memo`, leaves the thread idle and the ghost state `d'` harmless -/
theorem ownOk_idle (rc : C → K → A → R) (s : MSt K A C R) (D : Tid → Ghost K A) (inv : TInv rc s D) (t : Tid)
    (d' : Ghost K A) (prog : List (MOp K A C)) (ev : Ev K A C R)
    (hd : disciplinedFrom d' prog = true)
    (hf : ∀ g c f, s.live g = some (t, c) → d' g = some f → D t g = some f)
    (hev : ev.Safe rc) : OwnOk rc t d' ⟨s.live, s.memo, ⟨.idle, prog⟩, ev⟩ where
  disc := hd
  fresh := by
    intro g c f k r hl hdg hlk
    exact inv.fresh g t c f k r hl (hf g c f hl hdg) hlk
  ex := by
    intro g c f hl hdg
    exact inv.ex g t c f hl (hf g c f hl hdg)
  looked := by intro g k a h; cases h
  computed := by intro g k a r h; cases h
  safe := hev

/-- the table entries seen after a lookup section of the owner, against the ghost state that records the lookup -/
theorem lookup_section_fresh (rc : C → K → A → R) (s : MSt K A C R) (D : Tid → Ghost K A) (inv : TInv rc s D) (t : Tid)
    (g : Gid) (k : K) (a : A) (c : C) (f : K → Option A) (hl : s.live g = some (t, c)) (hdg : D t g = some f)
    (hcompat : ∀ a', f k = some a' → a' = a) :
    ∀ g' c' f' k' r', s.live g' = some (t, c') → upd (D t) g (some (upd f k (some a))) g' = some f' →
      (s.memo.lookup g k).1.look g' k' = some r' → ∃ a', f' k' = some a' ∧ r' = rc c' k' a' := by
  intro g' c' f' k' r' h1 h2 h3
  simp only [look_lookup_fst] at h3
  by_cases hgg : g' = g
  · subst hgg
    simp only [upd_same, Option.some.injEq] at h2
    subst h2
    rw [hl] at h1; cases h1
    obtain ⟨a0, e1, e2⟩ := inv.fresh g' t c f k' r' hl hdg h3
    by_cases hkk : k' = k
    · subst hkk
      have := hcompat a0 e1
      subst this
      exact ⟨a0, by simp, e2⟩
    · exact ⟨a0, by simp [hkk, e1], e2⟩
  · rw [upd_other _ _ _ _ hgg] at h2
    exact inv.fresh g' t c' f' k' r' h1 h2 h3

theorem lookup_section_ex (rc : C → K → A → R) (s : MSt K A C R) (D : Tid → Ghost K A) (inv : TInv rc s D) (t : Tid)
    (g : Gid) (k : K) (d' : Ghost K A) (hd' : ∀ g', g' ≠ g → d' g' = D t g') :
    ∀ g' c' f', s.live g' = some (t, c') → d' g' = some f' → (s.memo.lookup g k).1 g' ≠ none := by
  intro g' c' f' h1 h2
  by_cases hgg : g' = g
  · subst hgg; exact lookup_fst_ne_none _ _ _
  · rw [hd' g' hgg] at h2
    exact lookup_keeps _ _ _ _ (inv.ex g' t c' f' h1 h2)

theorem act_own (rc : C → K → A → R) (s : MSt K A C R) (D : Tid → Ghost K A) (inv : TInv rc s D) (t : Tid) :
    OwnOk rc t (ghostStep s t (D t)) (act rc s t) := by
  have hdisc := inv.disc t
  cases hph : (s.th t).phase with
  | looked g k a =>
    obtain ⟨⟨c, hl⟩, ⟨f, hdf, hfk⟩, hm⟩ := inv.looked t g k a hph
    have hg : ghostStep s t (D t) = D t := by simp [ghostStep, hph]
    have ha : act rc s t = ⟨s.live, s.memo, ⟨.computed g k a (rc c k a), (s.th t).prog⟩, .computedEv t⟩ := by
      simp [act, hph, owned_of_live hl]
    rw [hg, ha]
    refine ⟨hdisc, ?_, ?_, ?_, ?_, trivial⟩
    · intro g' c' f' k' r' h1 h2 h3; exact inv.fresh g' t c' f' k' r' h1 h2 h3
    · intro g' c' f' h1 h2; exact inv.ex g' t c' f' h1 h2
    · intro g' k' a' h; cases h
    · intro g' k' a' r' h
      cases h
      exact ⟨⟨c, hl, rfl⟩, ⟨f, hdf, hfk⟩, hm⟩
  | computed g k a r =>
    obtain ⟨⟨c, hl, hr⟩, ⟨f, hdf, hfk⟩, hm⟩ := inv.computed t g k a r hph
    have hg : ghostStep s t (D t) = D t := by simp [ghostStep, hph]
    obtain ⟨m2, hs, hne, hlook⟩ := store_some s.memo g k r hm
    have ha : act rc s t = ⟨s.live, m2, ⟨.idle, (s.th t).prog⟩, .val t g k a r c false⟩ := by
      simp [act, hph, owned_of_live hl, hs]
    rw [hg, ha]
    refine ⟨hdisc, ?_, ?_, ?_, ?_, hr⟩
    · intro g' c' f' k' r' h1 h2 h3
      (try dsimp only at h1); (try dsimp only at h3)
      simp only [hlook] at h3
      by_cases hgg : g' = g
      · subst hgg
        rw [hl] at h1; cases h1
        rw [hdf] at h2; cases h2
        by_cases hkk : k' = k
        · subst hkk
          simp only [and_self, if_true, Option.some.injEq] at h3
          exact ⟨a, hfk, h3 ▸ hr⟩
        · simp only [hkk, and_false, if_false] at h3
          exact inv.fresh g' t c f k' r' hl hdf h3
      · simp only [hgg, false_and, if_false] at h3
        exact inv.fresh g' t c' f' k' r' h1 h2 h3
    · intro g' c' f' h1 h2
      exact store_keeps _ _ _ _ _ _ hs (inv.ex g' t c' f' h1 h2)
    · intro g' k' a' h; cases h
    · intro g' k' a' r' h; cases h
  | idle =>
    cases hpr : (s.th t).prog with
    | nil =>
      have hg : ghostStep s t (D t) = D t := by simp [ghostStep, hph, hpr]
      have ha : act rc s t = ⟨s.live, s.memo, ⟨.idle, []⟩, .done t⟩ := by
        have : s.th t = ⟨.idle, []⟩ := by
          cases hth : s.th t with
          | mk ph pr => rw [hth] at hph hpr; simp at hph hpr; rw [hph, hpr]
        simp [act, this]
      rw [hg, ha]
      exact ownOk_idle rc s D inv t (D t) [] _ rfl (fun _ _ _ _ h => h) trivial
    | cons op rest =>
      rw [hpr] at hdisc
      simp only [disciplinedFrom] at hdisc
      cases hgo : ghostOf (D t) op with
      | none => simp [hgo] at hdisc
      | some d' =>
        simp only [hgo] at hdisc
        have hg : ghostStep s t (D t) = d' := by simp [ghostStep, hph, hpr, hgo]
        rw [hg]
        -- a private operation or a clear that the thread may not perform: nothing changes
        have hill : ∀ (gx : Gid), (∀ g', g' ≠ gx → d' g' = D t g') → owned s.live t gx = none →
            OwnOk rc t d' ⟨s.live, s.memo, ⟨.idle, rest⟩, .illFormed t⟩ := by
          intro gx hd' ho
          apply ownOk_idle rc s D inv t d' rest (.illFormed t) hdisc _ trivial
          intro g' c' f' h1 h2
          by_cases hgg : g' = gx
          · subst hgg; rw [owned_of_live h1] at ho; cases ho
          · rwa [hd' g' hgg] at h2
        -- `live` changes at gx only, the ghost state forgets gx
        have hpriv : ∀ (gx : Gid) (v : Option (Tid × C)), d' = upd (D t) gx none →
            OwnOk rc t d' ⟨upd s.live gx v, s.memo, ⟨.idle, rest⟩, .ok t⟩ := by
          intro gx v hd'
          subst hd'
          refine ⟨hdisc, ?_, ?_, ?_, ?_, trivial⟩
          · intro g' c' f' k' r' h1 h2 h3
            (try dsimp only at h1); (try dsimp only at h3)
            by_cases hgg : g' = gx
            · subst hgg; simp at h2
            · rw [upd_other _ _ _ _ hgg] at h1 h2
              exact inv.fresh g' t c' f' k' r' h1 h2 h3
          · intro g' c' f' h1 h2
            (try dsimp only at h1)
            by_cases hgg : g' = gx
            · subst hgg; simp at h2
            · rw [upd_other _ _ _ _ hgg] at h1 h2
              exact inv.ex g' t c' f' h1 h2
          · intro g' k' a' h; cases h
          · intro g' k' a' r' h; cases h
        cases op with
        | alloc g c =>
          simp only [ghostOf, Option.some.injEq] at hgo
          by_cases hn : (s.live g).isNone
          · have ha : act rc s t = ⟨upd s.live g (some (t, c)), s.memo, ⟨.idle, rest⟩, .ok t⟩ := by
              simp [act, hph, hpr, hn]
            rw [ha]; exact hpriv g _ hgo.symm
          · have ha : act rc s t = ⟨s.live, s.memo, ⟨.idle, rest⟩, .illFormed t⟩ := by
              simp [act, hph, hpr, hn]
            rw [ha]
            subst hgo
            apply ownOk_idle rc s D inv t _ rest (.illFormed t) hdisc _ trivial
            intro g' c' f' _ h2
            by_cases hgg : g' = g
            · subst hgg; simp at h2
            · rwa [upd_other _ _ _ _ hgg] at h2
        | mutate g c =>
          simp only [ghostOf, Option.some.injEq] at hgo
          cases ho : owned s.live t g with
          | some c0 =>
            have ha : act rc s t = ⟨upd s.live g (some (t, c)), s.memo, ⟨.idle, rest⟩, .ok t⟩ := by
              simp [act, hph, hpr, ho]
            rw [ha]; exact hpriv g _ hgo.symm
          | none =>
            have ha : act rc s t = ⟨s.live, s.memo, ⟨.idle, rest⟩, .illFormed t⟩ := by
              simp [act, hph, hpr, ho]
            rw [ha]
            exact hill g (by intro g' hgg; rw [← hgo, upd_other _ _ _ _ hgg]) ho
        | drop g =>
          simp only [ghostOf, Option.some.injEq] at hgo
          cases ho : owned s.live t g with
          | some c0 =>
            have ha : act rc s t = ⟨upd s.live g none, s.memo, ⟨.idle, rest⟩, .ok t⟩ := by
              simp [act, hph, hpr, ho]
            rw [ha]; exact hpriv g _ hgo.symm
          | none =>
            have ha : act rc s t = ⟨s.live, s.memo, ⟨.idle, rest⟩, .illFormed t⟩ := by
              simp [act, hph, hpr, ho]
            rw [ha]
            exact hill g (by intro g' hgg; rw [← hgo, upd_other _ _ _ _ hgg]) ho
        | clear g =>
          simp only [ghostOf, Option.some.injEq] at hgo
          cases ho : owned s.live t g with
          | some c0 =>
            have ha : act rc s t = ⟨s.live, s.memo.clear g, ⟨.idle, rest⟩, .ok t⟩ := by
              simp [act, hph, hpr, ho]
            rw [ha]
            subst hgo
            refine ⟨hdisc, ?_, ?_, ?_, ?_, trivial⟩
            · intro g' c' f' k' r' h1 h2 h3
              (try dsimp only at h1); (try dsimp only at h3)
              simp only [look_clear] at h3
              by_cases hgg : g' = g
              · simp [hgg] at h3
              · rw [upd_other _ _ _ _ hgg] at h2
                simp only [hgg, if_false] at h3
                exact inv.fresh g' t c' f' k' r' h1 h2 h3
            · intro g' c' f' h1 h2
              (try dsimp only at h1)
              by_cases hgg : g' = g
              · subst hgg; exact clear_ne_none _ _
              · rw [upd_other _ _ _ _ hgg] at h2
                exact clear_keeps _ _ _ (inv.ex g' t c' f' h1 h2)
            · intro g' k' a' h; cases h
            · intro g' k' a' r' h; cases h
          | none =>
            have ha : act rc s t = ⟨s.live, s.memo, ⟨.idle, rest⟩, .illFormed t⟩ := by
              simp [act, hph, hpr, ho]
            rw [ha]
            exact hill g (by intro g' hgg; rw [← hgo, upd_other _ _ _ _ hgg]) ho
        | store g k a =>
          obtain ⟨f, hdg, hfk, hd'⟩ := ghostOf_store_some (D t) d' g k a hgo
          subst hd'
          cases ho : owned s.live t g with
          | none =>
            have ha : act rc s t = ⟨s.live, s.memo, ⟨.idle, rest⟩, .illFormed t⟩ := by
              simp [act, hph, hpr, ho]
            rw [ha]
            exact ownOk_idle rc s D inv t _ rest (.illFormed t) hdisc (fun _ _ _ _ h => h) trivial
          | some c =>
            have hl := owned_some ho
            obtain ⟨m2, hs, hne, hlook⟩ := store_some s.memo g k (rc c k a) (inv.ex g t c f hl hdg)
            have ha : act rc s t = ⟨s.live, m2, ⟨.idle, rest⟩, .val t g k a (rc c k a) c false⟩ := by
              simp [act, hph, hpr, ho, hs]
            rw [ha]
            refine ⟨hdisc, ?_, ?_, ?_, ?_, rfl⟩
            · intro g' c' f' k' r' h1 h2 h3
              (try dsimp only at h1); (try dsimp only at h3)
              simp only [hlook] at h3
              by_cases hgg : g' = g
              · subst hgg
                rw [hl] at h1; cases h1
                rw [hdg] at h2; cases h2
                by_cases hkk : k' = k
                · subst hkk
                  simp only [and_self, if_true, Option.some.injEq] at h3
                  exact ⟨a, hfk, h3.symm⟩
                · simp only [hkk, and_false, if_false] at h3
                  exact inv.fresh g' t c f k' r' hl hdg h3
              · simp only [hgg, false_and, if_false] at h3
                exact inv.fresh g' t c' f' k' r' h1 h2 h3
            · intro g' c' f' h1 h2
              exact store_keeps _ _ _ _ _ _ hs (inv.ex g' t c' f' h1 h2)
            · intro g' k' a' h; cases h
            · intro g' k' a' r' h; cases h
        | lookup g k a =>
          obtain ⟨f, hdg, hcompat, hd'⟩ := ghostOf_lookup_some (D t) d' g k a hgo
          cases ho : owned s.live t g with
          | none =>
            have ha : act rc s t = ⟨s.live, s.memo, ⟨.idle, rest⟩, .illFormed t⟩ := by
              simp [act, hph, hpr, ho]
            rw [ha]
            exact hill g (by intro g' hgg; rw [hd', upd_other _ _ _ _ hgg]) ho
          | some c =>
            have hl := owned_some ho
            have hex := lookup_section_ex rc s D inv t g k d' (by intro g' hgg; rw [hd', upd_other _ _ _ _ hgg])
            subst hd'
            have hfresh := lookup_section_fresh rc s D inv t g k a c f hl hdg hcompat
            cases hlk : (s.memo.lookup g k).2 with
            | some r =>
              have ha : act rc s t = ⟨s.live, (s.memo.lookup g k).1, ⟨.idle, rest⟩, .val t g k a r c true⟩ := by
                simp [act, hph, hpr, ho, hlk]
              rw [ha]
              have hlook : s.memo.look g k = some r := by rw [← lookup_snd, hlk]
              obtain ⟨a', hfa, hr⟩ := inv.fresh g t c f k r hl hdg hlook
              have haa := hcompat a' hfa
              subst haa
              refine ⟨hdisc, hfresh, hex, ?_, ?_, hr⟩
              · intro g' k' a'' h; cases h
              · intro g' k' a'' r' h; cases h
            | none =>
              have ha : act rc s t = ⟨s.live, (s.memo.lookup g k).1, ⟨.idle, rest⟩, .missed t⟩ := by
                simp [act, hph, hpr, ho, hlk]
              rw [ha]
              refine ⟨hdisc, hfresh, hex, ?_, ?_, trivial⟩
              · intro g' k' a'' h; cases h
              · intro g' k' a'' r' h; cases h
        | query g k a =>
          rw [ghostOf_query_lookup] at hgo
          obtain ⟨f, hdg, hcompat, hd'⟩ := ghostOf_lookup_some (D t) d' g k a hgo
          cases ho : owned s.live t g with
          | none =>
            have ha : act rc s t = ⟨s.live, s.memo, ⟨.idle, rest⟩, .illFormed t⟩ := by
              simp [act, hph, hpr, ho]
            rw [ha]
            exact hill g (by intro g' hgg; rw [hd', upd_other _ _ _ _ hgg]) ho
          | some c =>
            have hl := owned_some ho
            have hex := lookup_section_ex rc s D inv t g k d' (by intro g' hgg; rw [hd', upd_other _ _ _ _ hgg])
            subst hd'
            have hfresh := lookup_section_fresh rc s D inv t g k a c f hl hdg hcompat
            cases hlk : (s.memo.lookup g k).2 with
            | some r =>
              have ha : act rc s t = ⟨s.live, (s.memo.lookup g k).1, ⟨.idle, rest⟩, .val t g k a r c true⟩ := by
                simp [act, hph, hpr, ho, hlk]
              rw [ha]
              have hlook : s.memo.look g k = some r := by rw [← lookup_snd, hlk]
              obtain ⟨a', hfa, hr⟩ := inv.fresh g t c f k r hl hdg hlook
              have haa := hcompat a' hfa
              subst haa
              refine ⟨hdisc, hfresh, hex, ?_, ?_, hr⟩
              · intro g' k' a'' h; cases h
              · intro g' k' a'' r' h; cases h
            | none =>
              have ha : act rc s t = ⟨s.live, (s.memo.lookup g k).1, ⟨.looked g k a, rest⟩, .missed t⟩ := by
                simp [act, hph, hpr, ho, hlk]
              rw [ha]
              refine ⟨hdisc, hfresh, hex, ?_, ?_, trivial⟩
              · intro g' k' a' h
                cases h
                exact ⟨⟨c, hl⟩, ⟨upd f k (some a), upd_same _ _ _, upd_same _ _ _⟩, lookup_fst_ne_none s.memo g k⟩
              · intro g' k' a'' r' h; cases h

theorem tinv_step (rc : C → K → A → R) (s : MSt K A C R) (D : Tid → Ghost K A) (inv : TInv rc s D) (t : Tid) :
    TInv rc (stepT rc s t).1 (upd D t (ghostStep s t (D t))) ∧ (stepT rc s t).2.Safe rc := by
  have own := act_own rc s D inv t
  refine ⟨⟨?_, ?_, ?_, ?_, ?_⟩, own.safe⟩
  · intro t'
    by_cases ht : t' = t
    · subst ht; simpa [stepT] using own.disc
    · simpa [stepT, upd_other _ _ _ _ ht] using inv.disc t'
  · intro g t' c f k r h1 h2 h3
    simp only [stepT] at h1 h3
    by_cases ht : t' = t
    · subst ht
      rw [upd_same] at h2
      exact own.fresh g c f k r h1 h2 h3
    · rw [upd_other _ _ _ _ ht] at h2
      have hl := act_live_other' rc s t t' g c h1 ht
      rw [act_memo_other rc s t t' g c hl ht k] at h3
      exact inv.fresh g t' c f k r hl h2 h3
  · intro g t' c f h1 h2
    simp only [stepT] at h1 ⊢
    by_cases ht : t' = t
    · subst ht
      rw [upd_same] at h2
      exact own.ex g c f h1 h2
    · rw [upd_other _ _ _ _ ht] at h2
      have hl := act_live_other' rc s t t' g c h1 ht
      exact act_memo_keeps rc s t g (inv.ex g t' c f hl h2)
  · intro t' g k a h
    simp only [stepT] at h ⊢
    by_cases ht : t' = t
    · subst ht
      rw [upd_same] at h ⊢
      exact own.looked g k a h
    · rw [upd_other _ _ _ _ ht] at h ⊢
      obtain ⟨⟨c, hl⟩, hf, hm⟩ := inv.looked t' g k a h
      exact ⟨⟨c, act_live_other rc s t t' g c hl ht⟩, hf, act_memo_keeps rc s t g hm⟩
  · intro t' g k a r h
    simp only [stepT] at h ⊢
    by_cases ht : t' = t
    · subst ht
      rw [upd_same] at h ⊢
      exact own.computed g k a r h
    · rw [upd_other _ _ _ _ ht] at h ⊢
      obtain ⟨⟨c, hl, hr⟩, hf, hm⟩ := inv.computed t' g k a r h
      exact ⟨⟨c, act_live_other rc s t t' g c hl ht, hr⟩, hf, act_memo_keeps rc s t g hm⟩

theorem safe_gen (rc : C → K → A → R) (sched : List Tid) :
    ∀ (s : MSt K A C R) (D : Tid → Ghost K A), TInv rc s D → ∀ ev ∈ runT rc s sched, ev.Safe rc := by
  induction sched with
  | nil => intro s D _ ev h; cases h
  | cons t ts ih =>
    intro s D inv ev h
    obtain ⟨inv', hs⟩ := tinv_step rc s D inv t
    simp only [runT, List.mem_cons] at h
    rcases h with h | h
    · rw [h]; exact hs
    · exact ih _ _ inv' ev h

/-- all threads idle, every program disciplined: the invariant holds with the empty ghost state, whatever the
table and the set of live graphs are -/
theorem tinv_start (rc : C → K → A → R) (s : MSt K A C R) (hidle : ∀ t, (s.th t).phase = .idle)
    (hd : ∀ t, Disciplined (s.th t).prog) : TInv rc s (fun _ _ => none) where
  disc := hd
  fresh := by intro g t c f k r _ h; cases h
  ex := by intro g t c f _ h; cases h
  looked := by intro t g k a h; rw [hidle t] at h; cases h
  computed := by intro t g k a r h; rw [hidle t] at h; cases h

end
end ESV.Cache
