import ESV.Comp.Backend
import ESV.Comp.Vocab
/-
Back-end lemmas of C03: for arbitrary labelled code the three passes
strip_last_label → LabelFinalizer → OpsLabelJumpToRemover never invent an op offset, never duplicate one, and every
label offset they hand to a jump is the offset of an op that is still there at the end.
-/
namespace ESV.Comp
open ESV

@[simp] theorem offs_nil : offs [] = [] := rfl
@[simp] theorem offs_cons_op (o : Op) (l : List LItem) : offs (.op o :: l) = o.offset :: offs l := rfl
@[simp] theorem offs_cons_label (i : Nat) (b : Bool) (l : List LItem) : offs (.label i b :: l) = offs l := rfl
@[simp] theorem offs_cons_ljump (r : Op) (t : Option Nat) (l : List LItem) : offs (.ljump r t :: l) = r.offset :: offs l := rfl
@[simp] theorem offs_append (a b : List LItem) : offs (a ++ b) = offs a ++ offs b := by simp [offs]

@[simp] theorem plainNames_nil : plainNames [] = [] := rfl
@[simp] theorem plainNames_cons_op (o : Op) (l : List LItem) : plainNames (.op o :: l) = o.name :: plainNames l := rfl
@[simp] theorem plainNames_cons_label (i : Nat) (b : Bool) (l : List LItem) : plainNames (.label i b :: l) = plainNames l := rfl
@[simp] theorem plainNames_cons_ljump (r : Op) (t : Option Nat) (l : List LItem) : plainNames (.ljump r t :: l) = plainNames l := rfl
@[simp] theorem plainNames_append (a b : List LItem) : plainNames (a ++ b) = plainNames a ++ plainNames b := by simp [plainNames]

theorem offs_sublist {a b : List LItem} (h : a.Sublist b) : (offs a).Sublist (offs b) := h.filterMap _
theorem plainNames_subset {a b : List LItem} (h : a.Sublist b) : plainNames a ⊆ plainNames b := (h.filterMap _).subset

/-! ### strip_last_label -/

theorem stripScan_offs (all : List Nat) (lbl : Nat) (l : List LItem) :
    ∀ pc b, (offs (stripScan all lbl pc b l)).Sublist (offs l) := by
  induction l with
  | nil => intro pc b; simp [stripScan]
  | cons x r ih =>
    intro pc b
    cases x with
    | op o => simp only [stripScan, offs_cons_op]; exact (ih _ _).cons_cons _
    | label i nm => simp only [stripScan, offs_cons_label]; exact ih _ _
    | ljump root t =>
      simp only [stripScan]
      split
      · split
        · simp only [offs_cons_ljump]; exact (ih _ _).cons _
        · simp only [offs_cons_op, offs_cons_ljump]; exact (ih _ _).cons_cons _
      · simp only [offs_cons_ljump]; exact (ih _ _).cons_cons _

theorem stripScan_plain (all : List Nat) (lbl : Nat) (l : List LItem) :
    ∀ pc b, ∀ n ∈ plainNames (stripScan all lbl pc b l), n = Gen.op_dummy_end ∨ n ∈ plainNames l := by
  induction l with
  | nil => intro pc b n h; simp [stripScan] at h
  | cons x r ih =>
    intro pc b n h
    cases x with
    | op o =>
      simp only [stripScan, plainNames_cons_op, List.mem_cons] at h ⊢
      rcases h with h | h
      · exact .inr (.inl h)
      · rcases ih _ _ n h with h | h
        · exact .inl h
        · exact .inr (.inr h)
    | label i nm =>
      simp only [stripScan, plainNames_cons_label] at h ⊢
      exact ih _ _ n h
    | ljump root t =>
      simp only [stripScan] at h
      simp only [plainNames_cons_ljump]
      split at h
      · split at h
        · exact ih _ _ n h
        · simp only [plainNames_cons_op, List.mem_cons] at h
          rcases h with h | h
          · exact .inl h
          · exact ih _ _ n h
      · simp only [plainNames_cons_ljump] at h
        exact ih _ _ n h

theorem stripLoop_spec (all : List Nat) : ∀ fuel r out, stripLoop all fuel r = .ok out →
    (offs out).Sublist (offs r) ∧ ∀ n ∈ plainNames out, n = Gen.op_dummy_end ∨ n ∈ plainNames r := by
  intro fuel
  induction fuel with
  | zero => intro r out h; simp [stripLoop] at h
  | succ k ih =>
    intro r out h
    simp only [stripLoop] at h
    split at h
    · simp only [Except.ok.injEq] at h
      subst h
      exact ⟨List.Sublist.refl _, fun n hn => .inr hn⟩
    · rename_i id nm hl
      obtain ⟨h1, h2⟩ := ih _ _ h
      have hd : r.dropLast.Sublist r := List.dropLast_sublist r
      refine ⟨(h1.trans (stripScan_offs all id _ _ _)).trans (offs_sublist hd), ?_⟩
      intro n hn
      rcases h2 n hn with h | h
      · exact .inl h
      · rcases stripScan_plain all id _ _ _ n h with h | h
        · exact .inl h
        · exact .inr (plainNames_subset hd h)
    · simp only [Except.ok.injEq] at h
      subst h
      exact ⟨List.Sublist.refl _, fun n hn => .inr hn⟩

theorem stripRoutine_spec (all : List Nat) (r out : List LItem) (h : stripRoutine all r = .ok out) :
    (offs out).Sublist (offs r) ∧ ∀ n ∈ plainNames out, n = Gen.op_dummy_end ∨ n ∈ plainNames r := by
  unfold stripRoutine at h
  split at h
  · simp only [Except.ok.injEq] at h
    subst h
    simp
  · exact stripLoop_spec all _ _ _ h

/-- `mapE` applies `f` to every element; a property relating each input to its output lifts to the flattened lists -/
theorem mapE_ok_cons {α β : Type} {f : α → Except Err β} {a : α} {r : List α} {out : List β}
    (h : mapE f (a :: r) = .ok out) : ∃ b bs, f a = .ok b ∧ mapE f r = .ok bs ∧ out = b :: bs := by
  simp only [mapE] at h
  split at h
  · simp at h
  · rename_i b hb
    split at h
    · simp at h
    · rename_i bs hbs
      simp only [Except.ok.injEq] at h
      exact ⟨b, bs, hb, hbs, h.symm⟩

theorem mapE_length {α β : Type} {f : α → Except Err β} : ∀ (l : List α) (out : List β), mapE f l = .ok out → out.length = l.length := by
  intro l
  induction l with
  | nil => intro out h; simp [mapE] at h; subst h; rfl
  | cons a r ih =>
    intro out h
    obtain ⟨b, bs, _, h2, h3⟩ := mapE_ok_cons h
    subst h3
    simp [ih bs h2]

theorem stripLastLabel_spec (rs out : List (List LItem)) (h : stripLastLabel rs = .ok out) :
    (offs out.flatten).Sublist (offs rs.flatten) ∧
    (∀ n ∈ plainNames out.flatten, n = Gen.op_dummy_end ∨ n ∈ plainNames rs.flatten) ∧ out.length = rs.length := by
  unfold stripLastLabel at h
  generalize rs.flatMap jumpLabels = all at h
  refine ⟨?_, ?_, mapE_length _ _ h⟩
  · induction rs generalizing out with
    | nil => simp [mapE] at h; subst h; simp
    | cons a r ih =>
      obtain ⟨b, bs, h1, h2, h3⟩ := mapE_ok_cons h
      subst h3
      simp only [List.flatten_cons, offs_append]
      exact (stripRoutine_spec all a b h1).1.append (ih bs h2)
  · induction rs generalizing out with
    | nil => simp [mapE] at h; subst h; simp
    | cons a r ih =>
      obtain ⟨b, bs, h1, h2, h3⟩ := mapE_ok_cons h
      subst h3
      intro n hn
      simp only [List.flatten_cons, plainNames_append, List.mem_append] at hn ⊢
      rcases hn with hn | hn
      · rcases (stripRoutine_spec all a b h1).2 n hn with h | h
        · exact .inl h
        · exact .inr (.inl h)
      · rcases ih bs h2 n hn with h | h
        · exact .inl h
        · exact .inr (.inr h)

/-! ### LabelFinalizer -/

/-- the offsets recorded in `label_offsets` -/
def vals (d : List (Nat × Nat)) : List Nat := d.map (·.2)

theorem vals_set (d : List (Nat × Nat)) (k v : Nat) : ∀ t ∈ vals (Dict.set d k v), t = v ∨ t ∈ vals d := by
  induction d with
  | nil => intro t h; simp [Dict.set, vals] at h; exact .inl h
  | cons hd tl ih =>
    intro t h
    obtain ⟨k', v'⟩ := hd
    unfold Dict.set at h
    split at h
    · simp only [vals, List.map_cons, List.mem_cons] at h ⊢
      rcases h with h | h
      · exact .inl h
      · exact .inr (.inr h)
    · simp only [vals, List.map_cons, List.mem_cons] at h ⊢
      rcases h with h | h
      · exact .inr (.inl h)
      · rcases ih t h with h | h
        · exact .inl h
        · exact .inr (.inr h)

theorem vals_setAll (ids : List Nat) (off : Nat) : ∀ (d : List (Nat × Nat)), ∀ t ∈ vals (setAll d ids off), t = off ∨ t ∈ vals d := by
  induction ids with
  | nil => intro d t h; exact .inr h
  | cons i r ih =>
    intro d t h
    simp only [setAll, List.foldl_cons] at h
    rcases ih (Dict.set d i off) t h with h | h
    · exact .inl h
    · exact vals_set d i off t h

theorem get?_mem_vals (d : List (Nat × Nat)) (k t : Nat) (h : Dict.get? d k = some t) : t ∈ vals d := by
  induction d with
  | nil => simp [Dict.get?] at h
  | cons hd tl ih =>
    obtain ⟨k', v'⟩ := hd
    unfold Dict.get? at h
    split at h
    · simp only [Option.some.injEq] at h
      subst h
      simp [vals]
    · simp only [vals, List.map_cons, List.mem_cons]
      exact .inr (ih h)

theorem finRoutine_spec (r : List LItem) : ∀ (st : FinSt) (out : List LItem) (st' : FinSt), finRoutine r st = (out, st') →
    out.Sublist r ∧ ∀ t ∈ vals st'.offsets, t ∈ vals st.offsets ∨ t ∈ offs out := by
  induction r with
  | nil =>
    intro st out st' h
    simp only [finRoutine, Prod.mk.injEq] at h
    obtain ⟨h1, h2⟩ := h
    subst h1; subst h2
    exact ⟨List.Sublist.refl _, fun t ht => .inl ht⟩
  | cons x r ih =>
    intro st out st' h
    cases x with
    | label id nm =>
      simp only [finRoutine] at h
      generalize hq : finRoutine r { waiting := st.waiting ++ [id], offsets := st.offsets } = q at h
      obtain ⟨o1, s1⟩ := q
      simp only [Prod.mk.injEq] at h
      obtain ⟨h1, h2⟩ := h
      subst h1; subst h2
      obtain ⟨a, b⟩ := ih _ _ _ hq
      exact ⟨a.cons_cons _, fun t ht => by simpa using b t ht⟩
    | op o =>
      simp only [finRoutine] at h
      generalize hq : finRoutine r { waiting := [], offsets := setAll st.offsets st.waiting o.offset } = q at h
      obtain ⟨o1, s1⟩ := q
      simp only [Prod.mk.injEq] at h
      obtain ⟨h1, h2⟩ := h
      subst h1; subst h2
      obtain ⟨a, b⟩ := ih _ _ _ hq
      refine ⟨a.cons_cons _, fun t ht => ?_⟩
      rcases b t ht with h | h
      · rcases vals_setAll _ _ _ t h with h | h
        · subst h; exact .inr (by simp)
        · exact .inl h
      · exact .inr (by simp [h])
    | ljump root l =>
      simp only [finRoutine] at h
      split at h
      · obtain ⟨a, b⟩ := ih _ _ _ h
        exact ⟨a.cons _, b⟩
      · generalize hq : finRoutine r { waiting := [], offsets := setAll st.offsets st.waiting root.offset } = q at h
        obtain ⟨o1, s1⟩ := q
        simp only [Prod.mk.injEq] at h
        obtain ⟨h1, h2⟩ := h
        subst h1; subst h2
        obtain ⟨a, b⟩ := ih _ _ _ hq
        refine ⟨a.cons_cons _, fun t ht => ?_⟩
        rcases b t ht with h | h
        · rcases vals_setAll _ _ _ t h with h | h
          · subst h; exact .inr (by simp)
          · exact .inl h
        · exact .inr (by simp [h])

theorem finalize_spec (rs : List (List LItem)) : ∀ (st : FinSt) (out : List (List LItem)) (st' : FinSt), finalize rs st = (out, st') →
    out.flatten.Sublist rs.flatten ∧ out.length = rs.length ∧ ∀ t ∈ vals st'.offsets, t ∈ vals st.offsets ∨ t ∈ offs out.flatten := by
  induction rs with
  | nil =>
    intro st out st' h
    simp only [finalize, Prod.mk.injEq] at h
    obtain ⟨h1, h2⟩ := h
    subst h1; subst h2
    exact ⟨List.Sublist.refl _, rfl, fun t ht => .inl ht⟩
  | cons r rs ih =>
    intro st out st' h
    simp only [finalize] at h
    generalize hq : finRoutine r st = q at h
    obtain ⟨r', st1⟩ := q
    generalize hq2 : finalize rs st1 = q2 at h
    obtain ⟨rs', st2⟩ := q2
    simp only [Prod.mk.injEq] at h
    obtain ⟨h1, h2⟩ := h
    subst h1; subst h2
    obtain ⟨a1, b1⟩ := finRoutine_spec r _ _ _ hq
    obtain ⟨a2, l2, b2⟩ := ih _ _ _ hq2
    refine ⟨by simpa using a1.append a2, by simp [l2], fun t ht => ?_⟩
    simp only [List.flatten_cons, offs_append, List.mem_append]
    rcases b2 t ht with h | h
    · rcases b1 t h with h | h
      · exact .inl h
      · exact .inr (.inl h)
    · exact .inr (.inr h)

/-! ### OpsLabelJumpToRemover -/

theorem lastIntIn_append (all : List Nat) (ps : List Param) (t : Nat) (h : t ∈ all) : lastIntIn all (ps ++ [.int (t : Int)]) = true := by
  simp only [lastIntIn, List.getLast?_concat, List.any_eq_true]
  exact ⟨t, h, by simp⟩

/-- what survives the remover: the offsets are exactly those of the labelled code; a plain op is unchanged; a label
jump got the recorded offset of its label as last parameter -/
theorem removeItems_spec (d : List (Nat × Nat)) (items : List LItem) : ∀ ops, removeItems d items = .ok ops →
    ops.map (·.offset) = offs items ∧
    ∀ o ∈ ops, o.name ∈ plainNames items ∨ ∃ t ∈ vals d, ∃ ps, o.params = ps ++ [.int (t : Int)] := by
  induction items with
  | nil => intro ops h; simp [removeItems] at h; subst h; simp
  | cons x r ih =>
    intro ops h
    cases x with
    | label id nm =>
      simp only [removeItems] at h
      simpa using ih ops h
    | op o =>
      simp only [removeItems] at h
      split at h
      · simp at h
      · rename_i os hos
        simp only [Except.ok.injEq] at h
        subst h
        obtain ⟨a, b⟩ := ih os hos
        refine ⟨by simp [a], fun o' ho' => ?_⟩
        simp only [List.mem_cons] at ho'
        rcases ho' with h | h
        · subst h; exact .inl (by simp)
        · rcases b o' h with h | h
          · exact .inl (by simp [h])
          · exact .inr h
    | ljump root l =>
      cases l with
      | none => simp [removeItems] at h
      | some l =>
        simp only [removeItems] at h
        split at h
        · simp at h
        · rename_i t ht
          split at h
          · simp at h
          · rename_i os hos
            simp only [Except.ok.injEq] at h
            subst h
            obtain ⟨a, b⟩ := ih os hos
            refine ⟨by simp [a], fun o' ho' => ?_⟩
            simp only [List.mem_cons] at ho'
            rcases ho' with h | h
            · subst h
              exact .inr ⟨t, get?_mem_vals d l t ht, root.params, rfl⟩
            · rcases b o' h with h | h
              · exact .inl (by simpa using h)
              · exact .inr h

theorem remover_spec (d : List (Nat × Nat)) (rs : List (List LItem)) : ∀ out, remover d rs = .ok out →
    flatOffsets out = offs rs.flatten ∧ out.length = rs.length ∧
    ∀ o ∈ out.flatten, o.name ∈ plainNames rs.flatten ∨ ∃ t ∈ vals d, ∃ ps, o.params = ps ++ [.int (t : Int)] := by
  unfold remover
  induction rs with
  | nil => intro out h; simp [mapE] at h; subst h; simp [flatOffsets]
  | cons a r ih =>
    intro out h
    obtain ⟨b, bs, h1, h2, h3⟩ := mapE_ok_cons h
    subst h3
    obtain ⟨x1, y1⟩ := removeItems_spec d a b h1
    obtain ⟨x2, l2, y2⟩ := ih bs h2
    refine ⟨?_, by simp [l2], ?_⟩
    · simp only [flatOffsets] at x2 ⊢
      simp [x1, x2]
    · intro o ho
      simp only [List.flatten_cons, List.mem_append, plainNames_append] at ho ⊢
      rcases ho with ho | ho
      · rcases y1 o ho with h | h
        · exact .inl (.inl h)
        · exact .inr h
      · rcases y2 o ho with h | h
        · exact .inl (.inr h)
        · exact .inr h

/-! ### the back-end theorem -/

theorem dummy_end_not_jump : isJumpName Gen.op_dummy_end = false := by decide

/-- **Back end.** For arbitrary labelled code with pairwise distinct op offsets and no plain op named like a
jump-carrying op: if `OpsLabelJumpToRemover(LabelFinalizer(strip_last_label(routines)))` succeeds, its result is closed,
and it has one op list per routine. -/
theorem backend_closed (rs : List (List LItem)) (out : List (List Op))
    (hd : DistinctOffsets rs) (hn : NoRawJumpOps rs) (h : backend rs = .ok out) :
    ClosedOps out ∧ out.length = rs.length := by
  unfold backend at h
  split at h
  · simp at h
  · rename_i s hs
    generalize hf : finalize s ⟨[], []⟩ = q at h
    obtain ⟨f, st⟩ := q
    simp only at h
    obtain ⟨s1, s2, s3⟩ := stripLastLabel_spec rs s hs
    obtain ⟨f1, f2, f3⟩ := finalize_spec s _ _ _ hf
    obtain ⟨r1, r2, r3⟩ := remover_spec st.offsets f out h
    have hsub : (offs f.flatten).Sublist (offs rs.flatten) := (offs_sublist f1).trans s1
    refine ⟨⟨?_, ?_⟩, by omega⟩
    · rw [r1]; exact hsub.nodup hd
    · intro o ho
      unfold jumpOK
      cases hj : isJumpName o.name with
      | false => rfl
      | true =>
        simp only [Bool.not_true, Bool.false_or]
        rcases r3 o ho with hp | ⟨t, ht, ps, hps⟩
        · exfalso
          have : o.name ∈ plainNames s.flatten := plainNames_subset f1 hp
          rcases s2 _ this with h | h
          · rw [h, dummy_end_not_jump] at hj; cases hj
          · rw [hn _ h] at hj; cases hj
        · rw [hps, r1]
          apply lastIntIn_append
          rcases f3 t ht with h | h
          · simp [vals] at h
          · exact h

end ESV.Comp
