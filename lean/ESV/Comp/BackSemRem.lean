import ESV.Comp.BackSemMach
import ESV.Comp.BackSemSim
import ESV.Comp.BackSemDec
import ESV.Props.Tables
/-
Back-end correctness, last pass: `OpsLabelJumpToRemover` with a correct label table takes labelled code without
trailing labels to machine code of the same behaviour (`remover_preserves`).
-/
namespace ESV.Comp
open ESV ESV.Beh

/-- offset of the first non-label item -/
def firstOff : List LItem → Option Nat
  | [] => none
  | .label _ _ :: r => firstOff r
  | x :: _ => x.offsetOf

/-- the routine does not end with a label -/
def noTrail (its : List LItem) : Bool :=
  match its.getLast? with
  | some (.label _ _) => false
  | _ => true

/-- hypotheses of the remover pass on labelled code `f` with label table `d` -/
structure RemHyp (f : List (List LItem)) (d : List (Nat × Nat)) (ops : List (List Op)) : Prop where
  rem : remover d f = .ok ops
  distinct : DistinctOffsets f
  trail : f.all noTrail = true
  raw : f.flatten.all rawOK = true
  root : f.flatten.all rootOK = true
  ctx : f.all ctxOK = true
  table : ∀ l t, Dict.get? d l = some t →
    ∃ p its, findLabel l f 0 = some p ∧ f[p.rtn]? = some its ∧ firstOff (its.drop p.idx) = some t

/-- machine index of a labelled position -/
def remMap (f : List (List LItem)) (ms : List (List MOp)) (x : LPos) : Nat :=
  match f[x.rtn]? with
  | none => (flatFrom 0 ms).length + 1
  | some its => if x.idx < its.length then lenBefore ms x.rtn + cntOps (its.take x.idx) else (flatFrom 0 ms).length

/-! ### list facts -/

theorem findIdx_of_nodup {α : Type} (g : α → Int) : ∀ (l : List α) (j : Nat) (x : α), (l.map g).Nodup → l[j]? = some x →
    l.findIdx? (fun y => g y == g x) = some j := by
  intro l
  induction l with
  | nil => intro j x _ h; simp at h
  | cons y r ih =>
    intro j x hn h
    rw [List.map_cons, List.nodup_cons] at hn
    cases j with
    | zero => simp at h; subst h; simp [List.findIdx?_cons]
    | succ j =>
      simp at h
      have hx : g x ∈ r.map g := List.mem_map.mpr ⟨x, List.mem_of_getElem? h, rfl⟩
      have hne : (g y == g x) = false := by
        simp only [beq_eq_false_iff_ne, ne_eq]
        intro e; rw [e] at hn; exact hn.1 hx
      rw [List.findIdx?_cons, hne, ih j x hn.2 h]
      rfl

theorem flatFrom_offs (ms : List (List MOp)) : ∀ k, (flatFrom k ms).map (·.op.off) = ms.flatten.map (·.off) := by
  induction ms with
  | nil => intro k; rfl
  | cons a r ih => intro k; simp [flatFrom, tagOps, ih (k + 1)]

theorem cntOps_pos_of_last (l : List LItem) (x : LItem) (h : l.getLast? = some x) (hx : isLabel x = false) :
    1 ≤ cntOps l := by
  obtain ⟨ys, rfl⟩ := List.getLast?_eq_some_iff.mp h
  rw [cntOps_append]
  cases x <;> simp [cntOps, isLabel] at hx ⊢

theorem noTrail_last (its : List LItem) (h : noTrail its = true) (hne : its ≠ []) :
    ∃ x, its.getLast? = some x ∧ isLabel x = false := by
  unfold noTrail at h
  cases hl : its.getLast? with
  | none => simp [List.getLast?_eq_none_iff] at hl; exact absurd hl hne
  | some x =>
    rw [hl] at h
    cases x <;> simp [isLabel] at h ⊢

/-- without a trailing label, strictly before the end there is still an op to come -/
theorem cntOps_take_lt (its : List LItem) (h : noTrail its = true) (i : Nat) (hi : i < its.length) :
    cntOps (its.take i) < cntOps its := by
  have e := cntOps_append (its.take i) (its.drop i)
  rw [List.take_append_drop] at e
  have hne : its ≠ [] := by intro h0; subst h0; simp at hi
  obtain ⟨x, hx, hl⟩ := noTrail_last its h hne
  have : (its.drop i).getLast? = some x := by
    rw [List.getLast?_drop]; simp [Nat.not_le.mpr hi, hx]
  have := cntOps_pos_of_last _ x this hl
  omega

theorem cntOps_take_all (its : List LItem) (i : Nat) (hi : its.length ≤ i) : cntOps (its.take i) = cntOps its := by
  rw [List.take_of_length_le hi]

theorem firstOff_spec : ∀ (l : List LItem) (t : Nat), firstOff l = some t →
    ∃ n x, l[n]? = some x ∧ isLabel x = false ∧ x.offsetOf = some t ∧ cntOps (l.take n) = 0 := by
  intro l
  induction l with
  | nil => intro t h; simp [firstOff] at h
  | cons y r ih =>
    intro t h
    cases y with
    | label id nm =>
      simp only [firstOff] at h
      obtain ⟨n, x, h1, h2, h3, h4⟩ := ih t h
      exact ⟨n + 1, x, by simpa using h1, h2, h3, by simpa [cntOps] using h4⟩
    | op o => exact ⟨0, .op o, by simp, rfl, by simpa [firstOff] using h, by simp⟩
    | ljump root l => exact ⟨0, .ljump root l, by simp, rfl, by simpa [firstOff] using h, by simp⟩

theorem itemOp_offset (d : List (Nat × Nat)) (x : LItem) (o : Op) (h : itemOp d x = some o) : x.offsetOf = some o.offset := by
  cases x with
  | label id nm => simp [itemOp] at h
  | op o' => simp [itemOp] at h; subst h; rfl
  | ljump root l =>
    cases l with
    | none => simp [itemOp] at h
    | some l =>
      simp only [itemOp] at h
      split at h
      · simp at h; subst h; rfl
      · simp at h

theorem last_op_before (its : List LItem) : ∀ n c, n ≤ its.length → cntOps (its.take n) = c + 1 →
    ∃ i y, i < n ∧ its[i]? = some y ∧ isLabel y = false ∧ cntOps (its.take i) = c ∧
      ∀ j, i < j → j < n → ∃ z, its[j]? = some z ∧ isLabel z = true := by
  intro n
  induction n with
  | zero => intro c _ h; simp at h
  | succ n ih =>
    intro c hn h
    obtain ⟨z, hz⟩ : ∃ z, its[n]? = some z := ⟨its[n], by simp [Nat.lt_of_succ_le hn]⟩
    rw [cntOps_take_succ its n z hz] at h
    cases hl : isLabel z with
    | false =>
      simp only [hl, Bool.false_eq_true, if_false] at h
      exact ⟨n, z, by omega, hz, hl, by omega, fun j h1 h2 => by omega⟩
    | true =>
      simp only [hl, if_true, Nat.add_zero] at h
      obtain ⟨i, y, h1, h2, h3, h4, h5⟩ := ih c (by omega) h
      refine ⟨i, y, by omega, h2, h3, h4, fun j hj1 hj2 => ?_⟩
      rcases Nat.lt_or_ge j n with hj | hj
      · exact h5 j hj1 hj
      · have : j = n := by omega
        subst this; exact ⟨z, hz, hl⟩

theorem jt_not_ctx (n : String) (h : (isJump n || isTest n) = true) : isCtx n = false := by
  have hall : ∀ kv ∈ ESV.Spec.opsWithJump, isCtx kv.1 = false := by decide
  rcases Bool.or_eq_true_iff.mp h with h | h
  · simp only [isJump, beq_iff_eq] at h; subst h; decide
  · simp only [isTest, Bool.and_eq_true, List.any_eq_true, beq_iff_eq] at h
    obtain ⟨⟨kv, hkv, rfl⟩, _⟩ := h
    exact hall kv hkv

/-! ### the pass -/

section pass
variable {f : List (List LItem)} {d : List (Nat × Nat)} {ops : List (List Op)}

theorem rem_routine (H : RemHyp f d ops) (r : Nat) (its : List LItem) (hr : f[r]? = some its) :
    ∃ os, removeItems d its = .ok os ∧ (conv ops)[r]? = some (os.map convOp) ∧ os.length = cntOps its := by
  obtain ⟨os, h1, h2⟩ := mapE_get f ops H.rem r its hr
  exact ⟨os, h2, by simp [conv, h1], (removeItems_get d its os h2).1⟩

theorem rem_len_succ (H : RemHyp f d ops) (r : Nat) (its : List LItem) (hr : f[r]? = some its) :
    lenBefore (conv ops) (r + 1) = lenBefore (conv ops) r + cntOps its := by
  obtain ⟨os, _, h2, h3⟩ := rem_routine H r its hr
  rw [lenBefore_succ _ r _ h2]; simp [h3]

theorem rem_item (H : RemHyp f d ops) (r : Nat) (its : List LItem) (i : Nat) (x : LItem) (hr : f[r]? = some its)
    (hi : its[i]? = some x) (hx : isLabel x = false) :
    ∃ o, itemOp d x = some o ∧
      (flatFrom 0 (conv ops))[lenBefore (conv ops) r + cntOps (its.take i)]? = some ⟨r, convOp o⟩ := by
  obtain ⟨os, h1, h2, _⟩ := rem_routine H r its hr
  obtain ⟨o, e1, e2⟩ := (removeItems_get d its os h1).2 i x hi hx
  refine ⟨o, e1, ?_⟩
  have := flatFrom_get (conv ops) 0 r (os.map convOp) (cntOps (its.take i)) (convOp o) h2 (by simp [e2])
  simpa using this

theorem conv_length (H : RemHyp f d ops) : (conv ops).length = f.length := by
  simp [conv, mapE_length f ops H.rem]

theorem rem_trail (H : RemHyp f d ops) (r : Nat) (its : List LItem) (hr : f[r]? = some its) : noTrail its = true := by
  have := H.trail
  rw [List.all_eq_true] at this
  exact this its (List.mem_of_getElem? hr)

/-- the op table has no op at `lenBefore (r+1)` that belongs to routine `r` -/
theorem rem_after_routine (H : RemHyp f d ops) (r : Nat) (hr : r < f.length) (j : Nat) (x : FOp)
    (hj : lenBefore (conv ops) (r + 1) ≤ j) (hx : (flatFrom 0 (conv ops))[j]? = some x) : r + 1 ≤ x.rtn := by
  have := flatFrom_rtn_ge (conv ops) 0 (r + 1) j x hx hj (by rw [conv_length H]; omega)
  omega

/-- the machine the compile result is run on -/
def remMachine (ops : List (List Op)) : Machine := ⟨flatten (conv ops)⟩

theorem mach_get (ops : List (List Op)) (i : Nat) : (remMachine ops).ops[i]? = (flatFrom 0 (conv ops))[i]? := by
  simp [remMachine, flatten_eq]

theorem mach_size (ops : List (List Op)) : (remMachine ops).ops.size = (flatFrom 0 (conv ops)).length := by
  simp [remMachine, flatten_eq]

theorem rem_next (H : RemHyp f d ops) (r : Nat) (its : List LItem) (i : Nat) (x : LItem) (hr : f[r]? = some its)
    (hi : its[i]? = some x) (hx : isLabel x = false) :
    (remMachine ops).next (remMap f (conv ops) ⟨r, i⟩) r = remMap f (conv ops) ⟨r, i + 1⟩ := by
  have hil : i < its.length := by
    rcases Nat.lt_or_ge i its.length with h | h
    · exact h
    · rw [List.getElem?_eq_none h] at hi; cases hi
  have hrl : r < f.length := by
    rcases Nat.lt_or_ge r f.length with h | h
    · exact h
    · rw [List.getElem?_eq_none h] at hr; cases hr
  have hs := cntOps_take_succ its i x hi
  simp only [hx, Bool.false_eq_true, if_false] at hs
  simp only [remMap, hr, hil, if_true, Machine.next, mach_get, Machine.fellOff, mach_size]
  by_cases hn : i + 1 < its.length
  · simp only [hn, if_true]
    obtain ⟨y, hy⟩ : ∃ y, its[i + 1]? = some y := ⟨its[i + 1], by simp [hn]⟩
    have hlt := cntOps_take_lt its (rem_trail H r its hr) (i + 1) hn
    obtain ⟨os, h1, h2, h3⟩ := rem_routine H r its hr
    have hj : cntOps (its.take (i + 1)) < os.length := by omega
    obtain ⟨o', ho'⟩ : ∃ o', os[cntOps (its.take (i + 1))]? = some o' := ⟨os[cntOps (its.take (i + 1))], by simp [hj]⟩
    have := flatFrom_get (conv ops) 0 r (os.map convOp) (cntOps (its.take (i + 1))) (convOp o') h2 (by simp [ho'])
    rw [hs] at this
    simp only [Nat.zero_add] at this
    rw [← Nat.add_assoc] at this
    rw [this, hs]; simp; omega
  · simp only [hn, if_false]
    have hall : cntOps (its.take (i + 1)) = cntOps its := cntOps_take_all its (i + 1) (by omega)
    have hlen := rem_len_succ H r its hr
    cases hq : (flatFrom 0 (conv ops))[lenBefore (conv ops) r + cntOps (its.take i) + 1]? with
    | none => rfl
    | some y =>
      have := rem_after_routine H r hrl _ y (by omega) hq
      have hne : (y.rtn == r) = false := by simp; omega
      simp [hne]

theorem rem_offs_nodup (H : RemHyp f d ops) : ((flatFrom 0 (conv ops)).map (·.op.off)).Nodup := by
  rw [flatFrom_offs]
  have h1 : (conv ops).flatten.map (·.off) = (flatOffsets ops).map (fun n : Nat => (n : Int)) := by
    simp [conv, flatOffsets, List.map_flatten, convOp, Function.comp_def]
  rw [h1, (remover_spec d f ops H.rem).1]
  have hd : (offs f.flatten).Nodup := H.distinct
  rw [List.Nodup, List.pairwise_map]
  exact hd.imp (fun hne e => hne (Int.ofNat.inj e))

/-- a label's table entry resolves to the machine index of the label's position -/
theorem rem_resolve (H : RemHyp f d ops) (p : LPos) (its : List LItem) (t : Nat) (hp : f[p.rtn]? = some its)
    (ht : firstOff (its.drop p.idx) = some t) :
    (remMachine ops).resolve (t : Int) = remMap f (conv ops) p := by
  obtain ⟨n, x, h1, h2, h3, h4⟩ := firstOff_spec _ t ht
  have hi : its[p.idx + n]? = some x := by simpa using h1
  have hlt : p.idx < its.length := by
    rcases Nat.lt_or_ge p.idx its.length with h | h
    · exact h
    · rw [List.drop_eq_nil_of_le h] at ht; simp [firstOff] at ht
  have hc : cntOps (its.take (p.idx + n)) = cntOps (its.take p.idx) := by
    rw [List.take_add, cntOps_append, h4]; rfl
  obtain ⟨o, e1, e2⟩ := rem_item H p.rtn its (p.idx + n) x hp hi h2
  rw [hc] at e2
  have ho := itemOp_offset d x o e1
  rw [h3] at ho
  simp only [Option.some.injEq] at ho
  have hf := findIdx_of_nodup (fun y : FOp => y.op.off) _ _ _ (rem_offs_nodup H) e2
  simp only [convOp, ← ho] at hf
  simp only [Machine.resolve, remMachine, flatten_eq, List.findIdx?_toArray, hf, remMap, hp, hlt, if_true]

theorem rem_rootOK (H : RemHyp f d ops) (r : Nat) (its : List LItem) (i : Nat) (x : LItem) (hr : f[r]? = some its)
    (hi : its[i]? = some x) : rootOK x = true ∧ rawOK x = true := by
  have hm : x ∈ f.flatten := List.mem_flatten.mpr ⟨its, List.mem_of_getElem? hr, List.mem_of_getElem? hi⟩
  exact ⟨List.all_eq_true.mp H.root x hm, List.all_eq_true.mp H.raw x hm⟩

theorem rem_ctxOK (H : RemHyp f d ops) (r : Nat) (its : List LItem) (hr : f[r]? = some its) : ctxOK its = true :=
  List.all_eq_true.mp H.ctx its (List.mem_of_getElem? hr)

theorem rem_afterCtx (H : RemHyp f d ops) (r : Nat) (its : List LItem) (i : Nat) (x : LItem) (hr : f[r]? = some its)
    (hi : its[i]? = some x) :
    (remMachine ops).afterCtx (remMap f (conv ops) ⟨r, i⟩) r = afterCtxL f ⟨r, i⟩ := by
  have hil : i < its.length := by
    rcases Nat.lt_or_ge i its.length with h | h
    · exact h
    · rw [List.getElem?_eq_none h] at hi; cases hi
  simp only [remMap, hr, hil, if_true]
  cases hc : cntOps (its.take i) with
  | zero =>
    have hL : afterCtxL f ⟨r, i⟩ = false := by
      cases i with
      | zero => rfl
      | succ i' =>
        obtain ⟨y, hy⟩ : ∃ y, its[i']? = some y := ⟨its[i'], by simp [Nat.lt_of_succ_lt hil]⟩
        have hs := cntOps_take_succ its i' y hy
        cases y with
        | label id nm => simp [afterCtxL, itemAt, hr, hy]
        | op o => simp [isLabel] at hs; omega
        | ljump root l => simp [isLabel] at hs; omega
    rw [hL, Nat.add_zero]
    unfold Machine.afterCtx
    split
    · rfl
    · rename_i j hj
      rw [mach_get]
      cases hq : (flatFrom 0 (conv ops))[j]? with
      | none => rfl
      | some y =>
        have := flatFrom_rtn_lt (conv ops) 0 r j y hq (by omega)
        have hne : (y.rtn == r) = false := by simp; omega
        simp [hne]
  | succ c =>
    obtain ⟨i0, y, h1, h2, h3, h4, h5⟩ := last_op_before its i c (by omega) hc
    obtain ⟨oy, e1, e2⟩ := rem_item H r its i0 y hr h2 h3
    rw [h4] at e2
    have hM : (remMachine ops).afterCtx (lenBefore (conv ops) r + (c + 1)) r = isCtx oy.name := by
      unfold Machine.afterCtx
      rw [← Nat.add_assoc]
      simp only [mach_get, e2]
      simp [convOp]
    rw [hM]
    obtain ⟨i', rfl⟩ : ∃ i', i = i' + 1 := ⟨i - 1, by omega⟩
    rcases Nat.lt_or_ge i0 i' with hlt | hge
    · -- a label directly before: the last op before it cannot be a context op
      obtain ⟨z, hz, hzl⟩ := h5 i' hlt (by omega)
      have hL : afterCtxL f ⟨r, i' + 1⟩ = false := by
        cases z <;> simp [isLabel] at hzl
        simp [afterCtxL, itemAt, hr, hz]
      rw [hL]
      cases hctx : isCtx oy.name with
      | false => rfl
      | true =>
        exfalso
        obtain ⟨z1, hz1, hz1l⟩ := h5 (i0 + 1) (by omega) (by omega)
        cases y with
        | label id nm => simp [isLabel] at h3
        | op o =>
          simp [itemOp] at e1; subst e1
          have := ctxOK_get its i0 _ z1 (rem_ctxOK H r its hr) h2 (by simpa [isCtxL] using hctx) hz1
          cases z1 <;> simp [isLabel] at hz1l
          simp [afterCtxOK] at this
        | ljump root l =>
          have hro := (rem_rootOK H r its i0 _ hr h2).1
          simp only [rootOK] at hro
          have hn := jt_not_ctx _ hro
          cases l with
          | none => simp [itemOp] at e1
          | some l =>
            simp only [itemOp] at e1
            split at e1
            · simp at e1; subst e1; simp at hctx; rw [hn] at hctx; cases hctx
            · simp at e1
    · have : i0 = i' := by omega
      subst this
      cases y with
      | label id nm => simp [isLabel] at h3
      | op o =>
        simp [itemOp] at e1; subst e1
        simp [afterCtxL, itemAt, hr, h2]
      | ljump root l =>
        have hro := (rem_rootOK H r its i0 _ hr h2).1
        simp only [rootOK] at hro
        have hn := jt_not_ctx _ hro
        cases l with
        | none => simp [itemOp] at e1
        | some l =>
          simp only [itemOp] at e1
          split at e1
          · simp at e1; subst e1; simp [afterCtxL, itemAt, hr, h2, hn]
          · simp at e1

/-- the good positions of the remover pass: everything but labels -/
def GoodR (f : List (List LItem)) (x : LPos) : Prop := ∀ y, itemAt f x = some y → isLabel y = false

theorem noTrail_label_not_last (its : List LItem) (h : noTrail its = true) (i : Nat) (id : Nat) (nm : Bool)
    (hi : its[i]? = some (.label id nm)) : i + 1 < its.length := by
  have hil : i < its.length := by
    rcases Nat.lt_or_ge i its.length with h | h
    · exact h
    · rw [List.getElem?_eq_none h] at hi; cases hi
  rcases Nat.lt_or_ge (i + 1) its.length with h1 | h1
  · exact h1
  · exfalso
    have : its.getLast? = some (.label id nm) := by
      rw [List.getLast?_eq_getElem?]
      have : its.length - 1 = i := by omega
      rw [this]; exact hi
    simp [noTrail, this] at h

theorem rem_ok_all (H : RemHyp f d ops) : ∀ (n r i : Nat),
    (∀ its, f[r]? = some its → its.length - i ≤ n) →
    MapRel (labLTS f) (remMachine ops).lts (remMap f (conv ops)) (GoodR f) ⟨r, i⟩ (remMap f (conv ops) ⟨r, i⟩) := by
  intro n
  induction n with
  | zero =>
    intro r i hn
    apply MapRel.good
    intro y hy
    simp only [itemAt] at hy
    cases hr : f[r]? with
    | none => simp [hr] at hy
    | some its =>
      have := hn its hr
      simp only [hr] at hy
      rw [List.getElem?_eq_none (by omega)] at hy; cases hy
  | succ n ih =>
    intro r i hn
    cases hr : f[r]? with
    | none => apply MapRel.good; intro y hy; simp [itemAt, hr] at hy
    | some its =>
      cases hi : its[i]? with
      | none => apply MapRel.good; intro y hy; simp [itemAt, hr, hi] at hy
      | some x =>
        cases x with
        | op o => apply MapRel.good; intro y hy; simp [itemAt, hr, hi] at hy; subst hy; rfl
        | ljump root l => apply MapRel.good; intro y hy; simp [itemAt, hr, hi] at hy; subst hy; rfl
        | label id nm =>
          have hlt := noTrail_label_not_last its (rem_trail H r its hr) i id nm hi
          have hstep : (labLTS f).step ⟨r, i⟩ = .silent ⟨r, i + 1⟩ := by
            simp [labLTS, lstep, hr, hi, LPos.next]
          have hmap : remMap f (conv ops) ⟨r, i⟩ = remMap f (conv ops) ⟨r, i + 1⟩ := by
            have hs := cntOps_take_succ its i _ hi
            simp only [isLabel, if_true, Nat.add_zero] at hs
            simp [remMap, hr, hlt, Nat.lt_of_succ_lt hlt, hs]
          rw [hmap]
          refine MapRel.step_left hstep (ih r (i + 1) ?_)
          intro its' h'
          rw [hr] at h'; cases h'
          have := hn its hr
          omega

theorem rem_ok (H : RemHyp f d ops) (p : LPos) :
    MapRel (labLTS f) (remMachine ops).lts (remMap f (conv ops)) (GoodR f) p (remMap f (conv ops) p) := by
  obtain ⟨r, i⟩ := p
  cases hr : f[r]? with
  | none => exact rem_ok_all H 0 r i (fun its h => by rw [hr] at h; cases h)
  | some its => exact rem_ok_all H (its.length - i) r i (fun its' h => by rw [hr] at h; cases h; omega)

theorem targetOf_conv (ps : List ESV.Param) (t : Nat) :
    Machine.targetOf (convParams (ps ++ [.int (t : Int)])) = some (t : Int) := by
  simp [Machine.targetOf, convParams, convParam]

theorem dropLast_conv (ps : List ESV.Param) (t : Nat) :
    (convParams (ps ++ [.int (t : Int)])).dropLast = convParams ps := by
  simp [convParams]

theorem rem_stepCorr (H : RemHyp f d ops) (x : LPos) (hg : GoodR f x) :
    StepCorr (labLTS f) (remMachine ops).lts (remMap f (conv ops)) (GoodR f) x := by
  obtain ⟨r, i⟩ := x
  unfold StepCorr
  rw [show (labLTS f).step = lstep f from rfl, show (remMachine ops).lts.step = (remMachine ops).step from rfl]
  cases hr : f[r]? with
  | none =>
    have h1 : lstep f ⟨r, i⟩ = .halt evStuck := by simp [lstep, hr]
    have h2 : (remMachine ops).step (remMap f (conv ops) ⟨r, i⟩) = .halt evStuck := by
      simp only [remMap, hr, Machine.step, mach_get, Machine.fellOff, mach_size]
      rw [List.getElem?_eq_none (by omega)]
      simp
    rw [h1, h2]; rfl
  | some its =>
    cases hi : its[i]? with
    | none =>
      have h1 : lstep f ⟨r, i⟩ = .halt evReturn := by simp [lstep, hr, hi]
      have hil : ¬ i < its.length := by
        intro h; rw [List.getElem?_eq_getElem h] at hi; cases hi
      have h2 : (remMachine ops).step (remMap f (conv ops) ⟨r, i⟩) = .halt evReturn := by
        simp only [remMap, hr, hil, if_false, Machine.step, mach_get, Machine.fellOff, mach_size]
        rw [List.getElem?_eq_none (by omega)]
        simp
      rw [h1, h2]; rfl
    | some y =>
      have hyl : isLabel y = false := hg y (by simp [itemAt, hr, hi])
      obtain ⟨o, e1, e2⟩ := rem_item H r its i y hr hi hyl
      obtain ⟨hroot, hraw⟩ := rem_rootOK H r its i y hr hi
      have hil : i < its.length := by
        rcases Nat.lt_or_ge i its.length with h | h
        · exact h
        · rw [List.getElem?_eq_none h] at hi; cases hi
      have hphi : remMap f (conv ops) ⟨r, i⟩ = lenBefore (conv ops) r + cntOps (its.take i) := by
        simp [remMap, hr, hil]
      have hnext := rem_next H r its i y hr hi hyl
      have hctx := rem_afterCtx H r its i y hr hi
      rw [hphi] at hnext hctx
      cases y with
      | label id nm => simp [isLabel] at hyl
      | op o' =>
        simp [itemOp] at e1; subst e1
        simp only [rawOK, Bool.not_eq_true', Bool.or_eq_false_iff] at hraw
        have h1 : lstep f ⟨r, i⟩ = if Beh.endsFlow o'.name && !afterCtxL f ⟨r, i⟩ then .halt ⟨o'.name, convParams o'.params⟩
            else .emit ⟨o'.name, convParams o'.params⟩ ⟨r, i + 1⟩ := by
          simp [lstep, hr, hi, hraw.1, hraw.2, LPos.next]
        have h2 : (remMachine ops).step (lenBefore (conv ops) r + cntOps (its.take i)) =
            if Beh.endsFlow o'.name && !afterCtxL f ⟨r, i⟩ then .halt ⟨o'.name, convParams o'.params⟩
            else .emit ⟨o'.name, convParams o'.params⟩ (remMap f (conv ops) ⟨r, i + 1⟩) := by
          simp only [Machine.step, mach_get, e2, convOp, hraw.1, hraw.2, hctx, hnext]
          simp
        rw [h1, hphi, h2]
        cases hb : (Beh.endsFlow o'.name && !afterCtxL f ⟨r, i⟩)
        · exact ⟨rfl, rem_ok H _⟩
        · rfl
      | ljump root l =>
        cases l with
        | none => simp [itemOp] at e1
        | some l =>
          simp only [itemOp] at e1
          cases hd : Dict.get? d l with
          | none => simp [hd] at e1
          | some t =>
            simp only [hd, Option.some.injEq] at e1
            subst e1
            obtain ⟨p, its', hp1, hp2, hp3⟩ := H.table l t hd
            have htgt : target f l = p := by simp [target, hp1]
            have hres := rem_resolve H p its' t hp2 hp3
            simp only [rootOK] at hroot
            cases hj : isJump root.name with
            | true =>
              have h1 : lstep f ⟨r, i⟩ = .silent p := by simp [lstep, hr, hi, hj, htgt]
              have h2 : (remMachine ops).step (lenBefore (conv ops) r + cntOps (its.take i)) =
                  .silent (remMap f (conv ops) p) := by
                simp only [Machine.step, mach_get, e2, convOp, hj, if_true, targetOf_conv, hres]
              rw [h1, hphi, h2]
              exact ⟨rfl, rem_ok H _⟩
            | false =>
              have ht : isTest root.name = true := by simpa [hj] using hroot
              have h1 : lstep f ⟨r, i⟩ = .test ⟨root.name, convParams root.params⟩ p ⟨r, i + 1⟩ := by
                simp [lstep, hr, hi, hj, ht, htgt, LPos.next]
              have h2 : (remMachine ops).step (lenBefore (conv ops) r + cntOps (its.take i)) =
                  .test ⟨root.name, convParams root.params⟩ (remMap f (conv ops) p) (remMap f (conv ops) ⟨r, i + 1⟩) := by
                simp only [Machine.step, mach_get, e2, convOp, hj, ht, if_true, targetOf_conv, hres, dropLast_conv, hnext]
                simp
              rw [h1, hphi, h2]
              exact ⟨rfl, rem_ok H _, rem_ok H _⟩

theorem rem_entry (H : RemHyp f d ops) (r : Nat) (hr : r < f.length) :
    (remMachine ops).entry r = remMap f (conv ops) ⟨r, 0⟩ := by
  obtain ⟨its, hits⟩ : ∃ its, f[r]? = some its := ⟨f[r], by simp [hr]⟩
  obtain ⟨os, h1, h2, h3⟩ := rem_routine H r its hits
  simp only [Machine.entry, remMachine, flatten_eq, List.findIdx?_toArray, remMap, hits, Machine.fellOff, List.size_toArray]
  by_cases hne : 0 < its.length
  · simp only [hne, if_true, List.take_zero, cntOps_nil, Nat.add_zero]
    have hpos : 0 < os.length := by
      have := cntOps_take_lt its (rem_trail H r its hits) 0 hne
      simp at this; omega
    obtain ⟨o, ho⟩ : ∃ o, os[0]? = some o := ⟨os[0], by simp [hpos]⟩
    have hg := flatFrom_get (conv ops) 0 r (os.map convOp) 0 (convOp o) h2 (by simp [ho])
    simp only [Nat.add_zero, Nat.zero_add] at hg
    have hlt : lenBefore (conv ops) r < (flatFrom 0 (conv ops)).length := by
      rcases Nat.lt_or_ge (lenBefore (conv ops) r) (flatFrom 0 (conv ops)).length with h | h
      · exact h
      · rw [List.getElem?_eq_none h] at hg; cases hg
    have : List.findIdx? (fun x : FOp => x.rtn == r) (flatFrom 0 (conv ops)) = some (lenBefore (conv ops) r) := by
      rw [List.findIdx?_eq_some_iff_getElem]
      refine ⟨hlt, ?_, ?_⟩
      · rw [List.getElem?_eq_getElem hlt] at hg
        simp only [Option.some.injEq] at hg
        simp [hg]
      · intro j hj
        have hj2 : j < (flatFrom 0 (conv ops)).length := by omega
        have := flatFrom_rtn_lt (conv ops) 0 r j _ (List.getElem?_eq_getElem hj2) hj
        simp; omega
    rw [this]
  · have h0 : its = [] := by
      cases its with
      | nil => rfl
      | cons a b => simp at hne
    subst h0
    simp only [List.length_nil, Nat.lt_irrefl, if_false]
    have hlen := rem_len_succ H r [] hits
    have : List.findIdx? (fun x : FOp => x.rtn == r) (flatFrom 0 (conv ops)) = none := by
      rw [List.findIdx?_eq_none_iff]
      intro x hx
      obtain ⟨j, hj, rfl⟩ := List.getElem_of_mem hx
      rcases Nat.lt_or_ge j (lenBefore (conv ops) r) with h | h
      · have := flatFrom_rtn_lt (conv ops) 0 r j _ (List.getElem?_eq_getElem hj) h
        simp; omega
      · have := rem_after_routine H r hr j _ (by simp at hlen; omega) (List.getElem?_eq_getElem hj)
        simp; omega
    rw [this]

/-- **The remover pass preserves behaviour.** -/
theorem remover_preserves (H : RemHyp f d ops) (r : Nat) (hr : r < f.length) :
    Equivalent (labLTS f) (Machine.lts ⟨flatten (conv ops)⟩) (labEntry f r) (Machine.entry ⟨flatten (conv ops)⟩ r) := by
  have := equiv_of_map (rem_stepCorr H) _ _ (rem_ok H (labEntry f r))
  rw [labEntry, ← rem_entry H r hr] at this
  exact this

end pass

end ESV.Comp
