import ESV.Comp.CgEq
import ESV.Comp.CodegenF0e
/-
`codegen_correct` beyond straight-line code, basics: the source graph as a list of nodes, pieces of labelled code placed in
a program, resolution of their labels, single steps of both systems.
-/
namespace ESV.Comp
open ESV ESV.Beh

/-! ### the source graph as a node list -/

def nodeStep (N : List Src.Node) (i : Nat) : Src.Node :=
  match N[i]? with
  | some n => n
  | none => .halt (evInvalid "no such node")

def nodeLTS (N : List Src.Node) : LTS Ev := ⟨Nat, nodeStep N⟩

theorem graph_lts_eq (g : Src.Graph) : g.lts = nodeLTS g.nodes.toList := by
  simp only [Src.Graph.lts, nodeLTS]
  congr 1
  funext i
  simp only [Src.Graph.step, nodeStep, Array.getElem?_toList]
  rfl

theorem nodeStep_of {N : List Src.Node} {i : Nat} {n : Src.Node} (h : N[i]? = some n) : (nodeLTS N).step i = n := by
  simp [nodeLTS, nodeStep, h]

/-- the node table of a builder as a list -/
def tbl (b : Src.B) : List Src.Node := b.nodes.toList

theorem tbl_push (b : Src.B) (n : Src.Node) : tbl (b.push n).1 = tbl b ++ [n] ∧ (b.push n).2 = (tbl b).length := by
  simp [tbl, Src.B.push]

theorem tbl_set (b : Src.B) (i : Nat) (n : Src.Node) : tbl (b.set i n) = (tbl b).set i n := by
  simp [tbl, Src.B.set]

/-- the table only grew: nodes below the old length are as before, except that a label node (an index in `Z`: the placeholders
`allocLabels` made, for the routines or for a macro expansion) may have become the `silent` node of its label -/
def Grow (Z : Nat → Prop) (b b' : Src.B) : Prop :=
  (tbl b).length ≤ (tbl b').length ∧
  ∀ i, i < (tbl b).length → (tbl b')[i]? = (tbl b)[i]? ∨ (Z i ∧ ∃ k, (tbl b')[i]? = some (.silent k))

theorem Grow.of_append {Z : Nat → Prop} {b b' : Src.B} {extra : List Src.Node} (h : tbl b' = tbl b ++ extra) : Grow Z b b' :=
  ⟨by rw [h]; simp, fun i hi => .inl (by rw [h, List.getElem?_append_left hi])⟩

theorem Grow.refl {Z : Nat → Prop} (b : Src.B) : Grow Z b b := ⟨Nat.le_refl _, fun _ _ => .inl rfl⟩
theorem Grow.trans {Z : Nat → Prop} {a b c : Src.B} (h1 : Grow Z a b) (h2 : Grow Z b c) : Grow Z a c := by
  refine ⟨Nat.le_trans h1.1 h2.1, fun i hi => ?_⟩
  rcases h2.2 i (Nat.lt_of_lt_of_le hi h1.1) with e2 | ⟨hz, k, e2⟩
  · rcases h1.2 i hi with e1 | ⟨hz, k, e1⟩
    · exact .inl (e2.trans e1)
    · exact .inr ⟨hz, k, e2.trans e1⟩
  · exact .inr ⟨hz, k, e2⟩
theorem Grow.push {Z : Nat → Prop} (b : Src.B) (n : Src.Node) : Grow Z b (b.push n).1 := Grow.of_append (tbl_push b n).1
theorem Grow.len {Z : Nat → Prop} {b b' : Src.B} (h : Grow Z b b') : (tbl b).length ≤ (tbl b').length := h.1
theorem Grow.get {Z : Nat → Prop} {b b' : Src.B} (h : Grow Z b b') {i : Nat} (hz : ¬ Z i) (hi : i < (tbl b).length) :
    (tbl b')[i]? = (tbl b)[i]? := by
  rcases h.2 i hi with e | ⟨hlt, _⟩
  · exact e
  · exact absurd hlt hz
theorem Grow.mono {Z Z' : Nat → Prop} {b b' : Src.B} (h : Grow Z b b') (hz : ∀ i, i < (tbl b).length → Z i → Z' i) : Grow Z' b b' :=
  ⟨h.1, fun i hi => (h.2 i hi).imp id (fun ⟨a, c⟩ => ⟨hz i hi a, c⟩)⟩

/-- the final node list `N` agrees with `b'` on the nodes added after `b` (the label nodes lie below `b`) -/
def AgreeOn (N : List Src.Node) (Z : Nat → Prop) (b b' : Src.B) : Prop :=
  (∀ i, Z i → i < (tbl b).length) ∧ ∀ i, (tbl b).length ≤ i → i < (tbl b').length → N[i]? = (tbl b')[i]?

/-- a part of a call: `b ≤ b1 ≤ b2` and `b'` keeps what `b2` has above `b1` -/
theorem AgreeOn.sub {N : List Src.Node} {Z : Nat → Prop} {b b1 b2 b' : Src.B} (h : AgreeOn N Z b b') (g1 : (tbl b).length ≤ (tbl b1).length)
    (g2 : (tbl b2).length ≤ (tbl b').length)
    (keep : ∀ i, (tbl b1).length ≤ i → i < (tbl b2).length → (tbl b')[i]? = (tbl b2)[i]?) : AgreeOn N Z b1 b2 :=
  ⟨fun i hz => Nat.lt_of_lt_of_le (h.1 i hz) g1, fun i h1 h2 => by rw [h.2 i (by omega) (by omega), keep i h1 h2]⟩

theorem AgreeOn.sub_grow {N : List Src.Node} {Z : Nat → Prop} {b b1 b2 b' : Src.B} (h : AgreeOn N Z b b') (g0 : Grow Z b b1) (g2 : Grow Z b2 b') :
    AgreeOn N Z b1 b2 :=
  h.sub g0.len g2.len (fun i h1 h2 => g2.get (fun hz => by have := h.1 i hz; have := g0.len; omega) h2)

/-! ### copies: what a macro expansion does to the items of a blueprint -/

/-- a macro expansion copies the blueprint of the macro: labels get private numbers (`σ`), parameters named like a macro
variable are replaced (`sub`), a `Return` op becomes a `Jump` to the end label of the expansion (`ret`; `none`: not inside an
expansion), ops get new numbers.  Expansions inside macro bodies compose. -/
structure Copy where
  σ : Nat → Nat := id
  sub : ESV.Param → ESV.Param := id
  ret : Option Nat := none

/-- `x'` is a copy of `x` -/
def cpRel (c : Copy) : LItem → LItem → Prop
  | .label l _, x' => ∃ nm, x' = .label (c.σ l) nm
  | .ljump root (some l), x' => ∃ o, x' = .ljump ⟨o, root.name, root.params.map c.sub⟩ (some (c.σ l))
  | .ljump _ none, _ => False
  | .op o, x' =>
    if o.name = Gen.op_return then
      match c.ret with
      | some e => ∃ o', x' = .ljump ⟨o', Gen.op_jump, []⟩ (some e)
      | none => ∃ o', x' = .op ⟨o', o.name, o.params.map c.sub⟩
    else ∃ o', x' = .op ⟨o', o.name, o.params.map c.sub⟩

inductive All2 {α β : Type} (R : α → β → Prop) : List α → List β → Prop where
  | nil : All2 R [] []
  | cons {a : α} {b : β} {as : List α} {bs : List β} : R a b → All2 R as bs → All2 R (a :: as) (b :: bs)

theorem All2.length {α β : Type} {R : α → β → Prop} : ∀ {as : List α} {bs : List β}, All2 R as bs → as.length = bs.length
  | _, _, .nil => rfl
  | _, _, .cons _ r => by simp [All2.length r]

theorem All2.split {α β : Type} {R : α → β → Prop} : ∀ (a b : List α) {l : List β}, All2 R (a ++ b) l →
    ∃ l1 l2, l = l1 ++ l2 ∧ All2 R a l1 ∧ All2 R b l2
  | [], b, l, h => ⟨[], l, rfl, .nil, h⟩
  | x :: a, b, l, h => by
    cases h with
    | cons hx hr =>
      obtain ⟨l1, l2, e, h1, h2⟩ := All2.split a b hr
      exact ⟨_ :: l1, l2, by rw [e]; rfl, .cons hx h1, h2⟩

theorem All2.get {α β : Type} {R : α → β → Prop} : ∀ {as : List α} {bs : List β}, All2 R as bs → ∀ (d : Nat) (x : α), as[d]? = some x →
    ∃ y, bs[d]? = some y ∧ R x y
  | _, _, .nil, d, x, h => by simp at h
  | _, _, .cons hx hr, 0, x, h => by
    simp only [List.getElem?_cons_zero, Option.some.injEq] at h
    subst h
    exact ⟨_, rfl, hx⟩
  | _, _, .cons hx hr, d + 1, x, h => by
    simp only [List.getElem?_cons_succ] at h ⊢
    exact All2.get hr d x h

theorem All2.imp {α β : Type} {R R' : α → β → Prop} (hi : ∀ a b, R a b → R' a b) : ∀ {as : List α} {bs : List β}, All2 R as bs → All2 R' as bs
  | _, _, .nil => .nil
  | _, _, .cons h r => .cons (hi _ _ h) (All2.imp hi r)

/-! ### pieces of labelled code in a program -/

/-- the items themselves stand in routine `r` from index `i0` on -/
def PlacedX (rs : List (List LItem)) (r i0 : Nat) (items : List LItem) : Prop :=
  ∃ pre post, rs[r]? = some (pre ++ items ++ post) ∧ pre.length = i0

/-- a copy of the items stands in routine `r` from index `i0` on -/
def Placed (c : Copy) (rs : List (List LItem)) (r i0 : Nat) (items : List LItem) : Prop :=
  ∃ items', All2 (cpRel c) items items' ∧ PlacedX rs r i0 items'

/-- at position `p` stands a copy of `x` -/
def ItemC (c : Copy) (rs : List (List LItem)) (p : LPos) (x : LItem) : Prop := ∃ x', cpRel c x x' ∧ itemAt rs p = some x'

theorem cpRel_id (x : LItem) (hx : ∀ root, x ≠ .ljump root none) : cpRel {} x x := by
  cases x with
  | label l nm => exact ⟨nm, rfl⟩
  | ljump root t =>
    cases t with
    | none => exact absurd rfl (hx root)
    | some l => exact ⟨root.offset, by simp [List.map_id']⟩
  | op o =>
    simp only [cpRel]
    split
    · exact ⟨o.offset, by simp [List.map_id']⟩
    · exact ⟨o.offset, by simp [List.map_id']⟩

theorem Placed.of_exact {rs : List (List LItem)} {r i0 : Nat} {items : List LItem} (h : PlacedX rs r i0 items)
    (hn : ∀ x ∈ items, ∀ root, x ≠ LItem.ljump root none) : Placed {} rs r i0 items := by
  refine ⟨items, ?_, h⟩
  clear h
  induction items with
  | nil => exact .nil
  | cons x r ih => exact .cons (cpRel_id x (hn x (by simp))) (ih (fun y hy => hn y (by simp [hy])))

theorem Placed.left {c : Copy} {rs : List (List LItem)} {r i0 : Nat} {a b : List LItem} (h : Placed c rs r i0 (a ++ b)) : Placed c rs r i0 a := by
  obtain ⟨items', hall, pre, post, h1, h2⟩ := h
  obtain ⟨l1, l2, rfl, a1, a2⟩ := All2.split a b hall
  exact ⟨l1, a1, pre, l2 ++ post, by simpa [List.append_assoc] using h1, h2⟩

theorem Placed.right {c : Copy} {rs : List (List LItem)} {r i0 : Nat} {a b : List LItem} (h : Placed c rs r i0 (a ++ b)) :
    Placed c rs r (i0 + a.length) b := by
  obtain ⟨items', hall, pre, post, h1, h2⟩ := h
  obtain ⟨l1, l2, rfl, a1, a2⟩ := All2.split a b hall
  exact ⟨l2, a2, pre ++ l1, post, by simpa [List.append_assoc] using h1, by simp [h2, a1.length]⟩

theorem Placed.item {c : Copy} {rs : List (List LItem)} {r i0 : Nat} {items : List LItem} (h : Placed c rs r i0 items) {d : Nat} {x : LItem}
    (hx : items[d]? = some x) : ItemC c rs ⟨r, i0 + d⟩ x := by
  obtain ⟨items', hall, pre, post, h1, h2⟩ := h
  obtain ⟨y, hy, hr⟩ := hall.get d x hx
  refine ⟨y, hr, ?_⟩
  have hd : d < items'.length := by
    rcases Nat.lt_or_ge d items'.length with h' | h'
    · exact h'
    · rw [List.getElem?_eq_none h'] at hy; cases hy
  simp only [itemAt, h1]
  rw [List.append_assoc, List.getElem?_append_right (by omega)]
  rw [show i0 + d - pre.length = d by omega, List.getElem?_append_left hd]
  exact hy

/-- a label of a placed piece resolves to its place (labels are defined once) -/
theorem ItemC.resolve {c : Copy} {rs : List (List LItem)} (hn : (labelIds rs.flatten).Nodup) {p : LPos} {l : Nat} {nm : Bool}
    (h : ItemC c rs p (.label l nm)) : target rs (c.σ l) = p := by
  obtain ⟨x', ⟨nm', rfl⟩, hit⟩ := h
  simp only [itemAt] at hit
  cases hr : rs[p.rtn]? with
  | none => rw [hr] at hit; cases hit
  | some its =>
    rw [hr] at hit
    have := findLabel_unique (c.σ l) nm' rs 0 p.rtn its p.idx hn hr hit
    simp [target, this]

theorem Placed.resolve {c : Copy} {rs : List (List LItem)} (hn : (labelIds rs.flatten).Nodup) {r i0 : Nat} {items : List LItem}
    (h : Placed c rs r i0 items) {d l : Nat} {nm : Bool} (hx : items[d]? = some (.label l nm)) : target rs (c.σ l) = ⟨r, i0 + d⟩ :=
  (h.item hx).resolve hn

/-! ### single steps of labelled code -/

theorem lab_label {c : Copy} {rs : List (List LItem)} {p : LPos} {l : Nat} {nm : Bool} (h : ItemC c rs p (.label l nm)) :
    (labLTS rs).step p = .silent p.next := by
  obtain ⟨x', ⟨nm', rfl⟩, hit⟩ := h
  show lstep rs p = _
  rw [lstep_item rs p _ hit]; rfl

theorem lab_jump {c : Copy} {rs : List (List LItem)} {p : LPos} {root : Op} {l : Nat} (h : ItemC c rs p (.ljump root (some l)))
    (hj : isJump root.name = true) : (labLTS rs).step p = .silent (target rs (c.σ l)) := by
  obtain ⟨x', ⟨o, rfl⟩, hit⟩ := h
  show lstep rs p = _
  rw [lstep_item rs p _ hit]; simp only [itemStep, hj, if_true]; rfl

theorem lab_test {c : Copy} {rs : List (List LItem)} {p : LPos} {root : Op} {l : Nat} (h : ItemC c rs p (.ljump root (some l)))
    (hj : isJump root.name = false) (ht : isTest root.name = true) :
    (labLTS rs).step p = .test ⟨root.name, convParams (root.params.map c.sub)⟩ (target rs (c.σ l)) p.next := by
  obtain ⟨x', ⟨o, rfl⟩, hit⟩ := h
  show lstep rs p = _
  rw [lstep_item rs p _ hit]; simp only [itemStep, hj, ht, if_true, Bool.false_eq_true, if_false]; rfl

theorem lab_op {c : Copy} {rs : List (List LItem)} {p : LPos} {o : Op} (h : ItemC c rs p (.op o))
    (hn : (isJump o.name || isTest o.name) = false) (hr : o.name ≠ Gen.op_return ∨ c.ret = none) :
    (labLTS rs).step p = if Beh.endsFlow o.name && !afterCtxL rs p then .halt ⟨o.name, convParams (o.params.map c.sub)⟩
      else .emit ⟨o.name, convParams (o.params.map c.sub)⟩ p.next := by
  obtain ⟨x', hx, hit⟩ := h
  have hx' : ∃ o', x' = .op ⟨o', o.name, o.params.map c.sub⟩ := by
    simp only [cpRel] at hx
    split at hx
    · rename_i hret
      rcases hr with hr | hr
      · exact absurd hret hr
      · rw [hr] at hx; exact hx
    · exact hx
  obtain ⟨o', rfl⟩ := hx'
  show lstep rs p = _
  rw [lstep_item rs p _ hit]; simp only [itemStep, hn, Bool.false_eq_true, if_false]; rfl

/-- inside a macro expansion a `Return` op is a jump to the end label of the expansion -/
theorem lab_ret {c : Copy} {rs : List (List LItem)} {p : LPos} {o : Op} {e : Nat} (h : ItemC c rs p (.op o))
    (ho : o.name = Gen.op_return) (hc : c.ret = some e) : (labLTS rs).step p = .silent (target rs e) := by
  obtain ⟨x', hx, hit⟩ := h
  simp only [cpRel, ho, if_true, hc] at hx
  obtain ⟨o', rfl⟩ := hx
  show lstep rs p = _
  rw [lstep_item rs p _ hit]
  have : isJump Gen.op_jump = true := by decide
  simp only [itemStep, this, if_true]; rfl

theorem lab_end {rs : List (List LItem)} {r i : Nat} {its : List LItem} (h : rs[r]? = some its) (hi : its.length ≤ i) :
    (labLTS rs).step ⟨r, i⟩ = .halt evReturn := by
  show lstep rs ⟨r, i⟩ = _
  simp only [lstep, h]
  rw [List.getElem?_eq_none hi]
  rfl

/-- a copy of a context op is a context op -/
theorem afterCtxL_itemC {c : Copy} {rs : List (List LItem)} {r i : Nat} {x : LItem} (h : ItemC c rs ⟨r, i⟩ x) :
    afterCtxL rs ⟨r, i + 1⟩ = isCtxL x := by
  obtain ⟨x', hx, hit⟩ := h
  rw [afterCtxL_succ, hit]
  cases x with
  | label l nm => obtain ⟨nm', rfl⟩ := hx; rfl
  | ljump root t =>
    cases t with
    | none => cases hx
    | some l => obtain ⟨o, rfl⟩ := hx; rfl
  | op o =>
    simp only [cpRel] at hx
    split at hx
    · rename_i hret
      have hc : isCtx o.name = false := by rw [hret]; decide
      cases hcr : c.ret with
      | some e => rw [hcr] at hx; obtain ⟨o', rfl⟩ := hx; simp [isCtxL, hc]
      | none => rw [hcr] at hx; obtain ⟨o', rfl⟩ := hx; rfl
    · obtain ⟨o', rfl⟩ := hx; rfl

end ESV.Comp
