import ESV.Comp.CgEq
import ESV.Comp.CodegenF0e
/-
`codegen_correct` beyond straight-line code, basics: the source graph as a list of nodes, pieces of labelled code placed in
a program, resolution of their labels, single steps of both systems.
-/
namespace ESV.Comp
open ESV ESV.Beh

/-! ### the source graph as a node list -/

def nodeStep (N : List Src.Node) (i : Nat) : Src.Node :=
  match N[i]? with
  | some n => n
  | none => .halt (evInvalid "no such node")

def nodeLTS (N : List Src.Node) : LTS Ev := ⟨Nat, nodeStep N⟩

theorem graph_lts_eq (g : Src.Graph) : g.lts = nodeLTS g.nodes.toList := by
  simp only [Src.Graph.lts, nodeLTS]
  congr 1
  funext i
  simp only [Src.Graph.step, nodeStep, Array.getElem?_toList]
  rfl

theorem nodeStep_of {N : List Src.Node} {i : Nat} {n : Src.Node} (h : N[i]? = some n) : (nodeLTS N).step i = n := by
  simp [nodeLTS, nodeStep, h]

/-- the node table of a builder as a list -/
def tbl (b : Src.B) : List Src.Node := b.nodes.toList

theorem tbl_push (b : Src.B) (n : Src.Node) : tbl (b.push n).1 = tbl b ++ [n] ∧ (b.push n).2 = (tbl b).length := by
  simp [tbl, Src.B.push]

theorem tbl_set (b : Src.B) (i : Nat) (n : Src.Node) : tbl (b.set i n) = (tbl b).set i n := by
  simp [tbl, Src.B.set]

/-- the table only grew: nodes below the old length are as before, except that a label node (an index in `Z`: the placeholders
`allocLabels` made, for the routines or for a macro expansion) may have become the `silent` node of its label -/
def Grow (Z : Nat → Prop) (b b' : Src.B) : Prop :=
  (tbl b).length ≤ (tbl b').length ∧
  ∀ i, i < (tbl b).length → (tbl b')[i]? = (tbl b)[i]? ∨ (Z i ∧ ∃ k, (tbl b')[i]? = some (.silent k))

theorem Grow.of_append {Z : Nat → Prop} {b b' : Src.B} {extra : List Src.Node} (h : tbl b' = tbl b ++ extra) : Grow Z b b' :=
  ⟨by rw [h]; simp, fun i hi => .inl (by rw [h, List.getElem?_append_left hi])⟩

theorem Grow.refl {Z : Nat → Prop} (b : Src.B) : Grow Z b b := ⟨Nat.le_refl _, fun _ _ => .inl rfl⟩
theorem Grow.trans {Z : Nat → Prop} {a b c : Src.B} (h1 : Grow Z a b) (h2 : Grow Z b c) : Grow Z a c := by
  refine ⟨Nat.le_trans h1.1 h2.1, fun i hi => ?_⟩
  rcases h2.2 i (Nat.lt_of_lt_of_le hi h1.1) with e2 | ⟨hz, k, e2⟩
  · rcases h1.2 i hi with e1 | ⟨hz, k, e1⟩
    · exact .inl (e2.trans e1)
    · exact .inr ⟨hz, k, e2.trans e1⟩
  · exact .inr ⟨hz, k, e2⟩
theorem Grow.push {Z : Nat → Prop} (b : Src.B) (n : Src.Node) : Grow Z b (b.push n).1 := Grow.of_append (tbl_push b n).1
theorem Grow.len {Z : Nat → Prop} {b b' : Src.B} (h : Grow Z b b') : (tbl b).length ≤ (tbl b').length := h.1
theorem Grow.get {Z : Nat → Prop} {b b' : Src.B} (h : Grow Z b b') {i : Nat} (hz : ¬ Z i) (hi : i < (tbl b).length) :
    (tbl b')[i]? = (tbl b)[i]? := by
  rcases h.2 i hi with e | ⟨hlt, _⟩
  · exact e
  · exact absurd hlt hz
theorem Grow.mono {Z Z' : Nat → Prop} {b b' : Src.B} (h : Grow Z b b') (hz : ∀ i, i < (tbl b).length → Z i → Z' i) : Grow Z' b b' :=
  ⟨h.1, fun i hi => (h.2 i hi).imp id (fun ⟨a, c⟩ => ⟨hz i hi a, c⟩)⟩

/-- the final node list `N` agrees with `b'` on the nodes added after `b` (the label nodes lie below `b`) -/
def AgreeOn (N : List Src.Node) (Z : Nat → Prop) (b b' : Src.B) : Prop :=
  (∀ i, Z i → i < (tbl b).length) ∧ ∀ i, (tbl b).length ≤ i → i < (tbl b').length → N[i]? = (tbl b')[i]?

/-- a part of a call: `b ≤ b1 ≤ b2` and `b'` keeps what `b2` has above `b1` -/
theorem AgreeOn.sub {N : List Src.Node} {Z : Nat → Prop} {b b1 b2 b' : Src.B} (h : AgreeOn N Z b b') (g1 : (tbl b).length ≤ (tbl b1).length)
    (g2 : (tbl b2).length ≤ (tbl b').length)
    (keep : ∀ i, (tbl b1).length ≤ i → i < (tbl b2).length → (tbl b')[i]? = (tbl b2)[i]?) : AgreeOn N Z b1 b2 :=
  ⟨fun i hz => Nat.lt_of_lt_of_le (h.1 i hz) g1, fun i h1 h2 => by rw [h.2 i (by omega) (by omega), keep i h1 h2]⟩

theorem AgreeOn.sub_grow {N : List Src.Node} {Z : Nat → Prop} {b b1 b2 b' : Src.B} (h : AgreeOn N Z b b') (g0 : Grow Z b b1) (g2 : Grow Z b2 b') :
    AgreeOn N Z b1 b2 :=
  h.sub g0.len g2.len (fun i h1 h2 => g2.get (fun hz => by have := h.1 i hz; have := g0.len; omega) h2)

/-! ### pieces of labelled code in a program -/

def Placed (rs : List (List LItem)) (r i0 : Nat) (items : List LItem) : Prop :=
  ∃ pre post, rs[r]? = some (pre ++ items ++ post) ∧ pre.length = i0

theorem Placed.left {rs : List (List LItem)} {r i0 : Nat} {a b : List LItem} (h : Placed rs r i0 (a ++ b)) : Placed rs r i0 a := by
  obtain ⟨pre, post, h1, h2⟩ := h
  exact ⟨pre, b ++ post, by simpa [List.append_assoc] using h1, h2⟩

theorem Placed.right {rs : List (List LItem)} {r i0 : Nat} {a b : List LItem} (h : Placed rs r i0 (a ++ b)) :
    Placed rs r (i0 + a.length) b := by
  obtain ⟨pre, post, h1, h2⟩ := h
  exact ⟨pre ++ a, post, by simpa [List.append_assoc] using h1, by simp [h2]⟩

theorem Placed.get {rs : List (List LItem)} {r i0 : Nat} {items : List LItem} (h : Placed rs r i0 items) :
    ∃ its, rs[r]? = some its ∧ ∀ d x, items[d]? = some x → its[i0 + d]? = some x := by
  obtain ⟨pre, post, h1, h2⟩ := h
  refine ⟨_, h1, fun d x hx => ?_⟩
  have hd : d < items.length := by
    rcases Nat.lt_or_ge d items.length with h' | h'
    · exact h'
    · rw [List.getElem?_eq_none h'] at hx; cases hx
  rw [List.append_assoc, List.getElem?_append_right (by omega)]
  rw [show i0 + d - pre.length = d by omega, List.getElem?_append_left hd]
  exact hx

theorem Placed.item {rs : List (List LItem)} {r i0 : Nat} {items : List LItem} (h : Placed rs r i0 items) {d : Nat} {x : LItem}
    (hx : items[d]? = some x) : itemAt rs ⟨r, i0 + d⟩ = some x := by
  obtain ⟨its, h1, h2⟩ := h.get
  simp only [itemAt, h1]
  exact h2 d x hx

/-- a label of a placed piece resolves to its place (labels are defined once) -/
theorem Placed.resolve {rs : List (List LItem)} (hn : (labelIds rs.flatten).Nodup) {r i0 : Nat} {items : List LItem}
    (h : Placed rs r i0 items) {d l : Nat} {nm : Bool} (hx : items[d]? = some (.label l nm)) : target rs l = ⟨r, i0 + d⟩ := by
  obtain ⟨its, h1, h2⟩ := h.get
  have := findLabel_unique l nm rs 0 r its (i0 + d) hn h1 (h2 d _ hx)
  simp [target, this]

/-! ### single steps of labelled code -/

theorem lab_label {rs : List (List LItem)} {p : LPos} {l : Nat} {nm : Bool} (h : itemAt rs p = some (.label l nm)) :
    (labLTS rs).step p = .silent p.next := by
  show lstep rs p = _
  rw [lstep_item rs p _ h]; rfl

theorem lab_jump {rs : List (List LItem)} {p : LPos} {root : Op} {l : Nat} (h : itemAt rs p = some (.ljump root (some l)))
    (hj : isJump root.name = true) : (labLTS rs).step p = .silent (target rs l) := by
  show lstep rs p = _
  rw [lstep_item rs p _ h]; simp only [itemStep, hj, if_true]; rfl

theorem lab_test {rs : List (List LItem)} {p : LPos} {root : Op} {l : Nat} (h : itemAt rs p = some (.ljump root (some l)))
    (hj : isJump root.name = false) (ht : isTest root.name = true) :
    (labLTS rs).step p = .test ⟨root.name, convParams root.params⟩ (target rs l) p.next := by
  show lstep rs p = _
  rw [lstep_item rs p _ h]; simp only [itemStep, hj, ht, if_true, Bool.false_eq_true, if_false]; rfl

theorem lab_op {rs : List (List LItem)} {p : LPos} {o : Op} (h : itemAt rs p = some (.op o))
    (hn : (isJump o.name || isTest o.name) = false) :
    (labLTS rs).step p = if Beh.endsFlow o.name && !afterCtxL rs p then .halt ⟨o.name, convParams o.params⟩
      else .emit ⟨o.name, convParams o.params⟩ p.next := by
  show lstep rs p = _
  rw [lstep_item rs p _ h]; simp only [itemStep, hn, Bool.false_eq_true, if_false]; rfl

theorem lab_end {rs : List (List LItem)} {r i : Nat} {its : List LItem} (h : rs[r]? = some its) (hi : its.length ≤ i) :
    (labLTS rs).step ⟨r, i⟩ = .halt evReturn := by
  show lstep rs ⟨r, i⟩ = _
  simp only [lstep, h]
  rw [List.getElem?_eq_none hi]
  rfl

end ESV.Comp
