import ESV.Comp.CodegenF0d
import ESV.Comp.FrontW13
/-
`codegen_correct`, fragment F0, part e: the graph of an F0 program, the front end's tables, `FrontGuard`.
-/
namespace ESV.Comp
open ESV ESV.Beh

theorem graph_f0 (p : Program) (h : F0Prog p) :
    (toSrc p).graph.nodes.toList[0]? = some (.halt evReturn) ∧
    ∀ (j : Nat) (r : Routine), p.routines[j]? = some r → ∃ e, (toSrc p).graph.entries[j]? = some (some e) ∧
      PathOK (toSrc p).graph.nodes.toList false e (stmtsCode r.body) 0 := by
  obtain ⟨hm, hseq, hall⟩ := h
  have hr : (toSrc p).routines = (p.routines.map (·.body)).map fun b => (⟨some (toSrcStmts b)⟩ : Src.Routine) := by
    simp only [toSrc]
    rw [placeRoutines_seq p.routines 0 [] hseq rfl]
    simp
  have hlabs : Src.allRoutineLabels (toSrc p).routines = [] := by
    rw [hr]
    simp only [Src.allRoutineLabels, List.flatMap_eq_nil_iff, List.mem_map]
    rintro x ⟨b, ⟨r, hrm, rfl⟩, rfl⟩
    exact labels_f0 r.body (hall r hrm)
  let b1 : Src.B := ⟨#[.halt evReturn]⟩
  have hg : (toSrc p).graph = ⟨(((p.routines.map (·.body)).map fun b => (⟨some (toSrcStmts b)⟩ : Src.Routine)).foldl
      (graphStep ((toSrc p).macros.length + 1) (toSrc p).macros { labels := [] } 0) (b1, [])).1.nodes,
      (((p.routines.map (·.body)).map fun b => (⟨some (toSrcStmts b)⟩ : Src.Routine)).foldl
      (graphStep ((toSrc p).macros.length + 1) (toSrc p).macros { labels := [] } 0) (b1, [])).2⟩ := by
    simp only [Src.Program.graph, hlabs, Src.allocLabels, List.foldl_nil, Src.B.push]
    rw [hr]
    rfl
  obtain ⟨extra, e1, _, paths⟩ := graph_fold_f0 ((toSrc p).macros.length + 1) (toSrc p).macros { labels := [] } ⟨rfl, rfl⟩ 0
    (p.routines.map (·.body)) (by
      intro b hb
      obtain ⟨r, hrm, rfl⟩ := List.mem_map.mp hb
      exact hall r hrm) (b1, [])
  rw [hg]
  refine ⟨by simp only [e1]; rfl, fun j r hj => ?_⟩
  obtain ⟨e, p1, p2⟩ := paths j r.body (by simp [hj])
  exact ⟨e, by simpa using p1, p2⟩

theorem frontend_f0 (p : Program) (t : Tables) (h : F0Prog p) (hf : frontend p = .ok t) :
    ∀ (j : Nat) (r : Routine), p.routines[j]? = some r → ∃ its : List LItem, t.ops[j]? = some its ∧ its.map shapeOf = (stmtsCode r.body).map some := by
  obtain ⟨hm, hseq, hall⟩ := h
  unfold frontend at hf
  rw [hm] at hf
  simp only [sortMacros, compileMacros] at hf
  have : (pure ([] : Macros) : M Macros) St.init = .ok ([], St.init) := rfl
  rw [this] at hf
  simp only at hf
  cases hr : wrapAssert (compileRoutines [] p.routines 0 ⟨[], [], []⟩ St.init) with
  | error e => rw [hr] at hf; simp at hf
  | ok r2 =>
    obtain ⟨t2, s2⟩ := r2
    rw [hr] at hf
    simp only [Except.ok.injEq] at hf
    subst hf
    intro j r hj
    have := compileRoutines_f0 [] p.routines 0 _ _ _ _ hseq rfl rfl hall (wrapAssert_ok hr) j r hj
    simpa using this

/-! ### F0 programs satisfy the guard of the other passes -/

theorem notJumpName_of (n : String) (h : (isJump n || isTest n) = false) : isJumpName n = false := by
  simp only [Bool.or_eq_false_iff] at h
  have h1 : (ESV.Spec.opsWithJump.any fun kv => kv.1 == n) = false := by
    have := h.2
    simp only [isTest, h.1, Bool.not_false, Bool.and_true] at this
    exact this
  have := get?_isSome_any Gen.opsWithJump n
  rw [ESV.TableTie.opsWithJump_eq, h1] at this
  exact this

theorem ctx_notJump (c : String) (h : isCtx c = true) : isJumpName c = false := by
  apply notJumpName_of
  cases hj : (isJump c || isTest c) with
  | false => rfl
  | true => have := jt_not_ctx c hj; rw [h] at this; cases this

theorem nameOK_split (n : String) (h : nameOK n = true) : isCtx n = false ∧ isJumpName n = false := by
  simp only [nameOK, Bool.and_eq_true, Bool.not_eq_true'] at h
  exact ⟨h.1, notJumpName_of n h.2⟩

theorem f0_stmt_guards (s : Stmt) (h : f0Stmt s = true) : okStmt s = true ∧ wStmt s = true ∧ dfStmt s = [] := by
  cases s with
  | op n ps =>
    obtain ⟨a, b⟩ := nameOK_split n (by simpa [f0Stmt] using h)
    simp [okStmt, wStmt, dfStmt, a, b]
  | inl c cp n ps =>
    simp only [f0Stmt, Bool.and_eq_true] at h
    obtain ⟨a, b⟩ := nameOK_split n h.1.2
    simp [okStmt, wStmt, dfStmt, a, b, ctx_notJump c h.1.1, h.2]
  | with_ c cp inner =>
    simp only [f0Stmt, Bool.and_eq_true] at h
    cases inner with
    | op n ps =>
      simp only [f0Inner, Bool.and_eq_true] at h
      obtain ⟨a, b⟩ := nameOK_split n h.2.1
      simp [okStmt, wStmt, dfStmt, innerOK, a, b, ctx_notJump c h.1, h.2.2]
    | end_ => simp [okStmt, wStmt, dfStmt, innerOK, ctx_notJump c h.1]
    | hold => simp [okStmt, wStmt, dfStmt, innerOK, ctx_notJump c h.1]
    | _ => simp [f0Inner] at h
  | ret => simp [okStmt, wStmt, dfStmt]
  | end_ => simp [okStmt, wStmt, dfStmt]
  | hold => simp [okStmt, wStmt, dfStmt]
  | _ => simp [f0Stmt] at h

theorem f0_stmts_guards : ∀ (ss : Stmts), f0Stmts ss = true → okStmts ss = true ∧ wStmts ss = true ∧ dfStmts ss = []
  | .nil, _ => by simp [okStmts, wStmts, dfStmts]
  | .cons s r, h => by
    simp only [f0Stmts, Bool.and_eq_true] at h
    obtain ⟨a1, a2, a3⟩ := f0_stmt_guards s h.1
    obtain ⟨b1, b2, b3⟩ := f0_stmts_guards r h.2
    simp [okStmts, wStmts, dfStmts, a1, a2, a3, b1, b2, b3]

theorem frontGuard_of_f0 (p : Program) (h : F0Prog p) : FrontGuard p := by
  obtain ⟨hm, _, hall⟩ := h
  refine ⟨⟨by rw [hm]; simp, fun r hr => (f0_stmts_guards r.body (hall r hr)).1⟩, by rw [hm]; simp,
    fun r hr => (f0_stmts_guards r.body (hall r hr)).2.1, ?_⟩
  have : (p.routines.flatMap fun r => dfStmts r.body) = [] := by
    simp only [List.flatMap_eq_nil_iff]
    intro r hr
    exact (f0_stmts_guards r.body (hall r hr)).2.2
  rw [this]; exact List.nodup_nil

theorem codeOK_f0 : ∀ (ss : Stmts), f0Stmts ss = true → CodeOK (stmtsCode ss)
  | .nil, _ => fun x hx => by simp [stmtsCode] at hx
  | .cons s r, h => by
    simp only [f0Stmts, Bool.and_eq_true] at h
    have ih := codeOK_f0 r h.2
    have hctx : ∀ c, isCtx c = true → (isJump c || isTest c) = false := by
      intro c hc
      cases hj : (isJump c || isTest c) with
      | false => rfl
      | true => have := jt_not_ctx c hj; rw [hc] at this; cases this
    have hn : ∀ n, nameOK n = true → (isJump n || isTest n) = false := by
      intro n hn
      simp only [nameOK, Bool.and_eq_true, Bool.not_eq_true'] at hn
      exact hn.2
    intro x hx
    simp only [stmtsCode, List.mem_append] at hx
    rcases hx with hx | hx
    · cases s with
      | op n ps => simp [stmtCode] at hx; subst hx; exact hn _ (by simpa [f0Stmt] using h.1)
      | inl c cp n ps =>
        have h1 := h.1
        simp only [f0Stmt, Bool.and_eq_true] at h1
        simp [stmtCode] at hx
        rcases hx with rfl | rfl
        · exact hctx _ h1.1.1
        · exact hn _ h1.1.2
      | with_ c cp inner =>
        have h1 := h.1
        simp only [f0Stmt, Bool.and_eq_true] at h1
        simp only [stmtCode, List.mem_cons] at hx
        rcases hx with rfl | hx
        · exact hctx _ h1.1
        · cases inner with
          | op n ps =>
            simp only [f0Inner, Bool.and_eq_true] at h1
            simp [stmtCode] at hx; subst hx; exact hn _ h1.2.1
          | end_ => simp [stmtCode] at hx; subst hx; exact hn _ ctl_names.2.1
          | hold => simp [stmtCode] at hx; subst hx; exact hn _ ctl_names.2.2.1
          | _ => simp [f0Inner] at h1
      | ret => simp [stmtCode] at hx; subst hx; exact hn _ ctl_names.1
      | end_ => simp [stmtCode] at hx; subst hx; exact hn _ ctl_names.2.1
      | hold => simp [stmtCode] at hx; subst hx; exact hn _ ctl_names.2.2.1
      | _ => simp [f0Stmt] at h
    · exact ih x hx

end ESV.Comp
