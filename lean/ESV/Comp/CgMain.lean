import ESV.Comp.CgSwitch4
import ESV.Comp.CgLabel
import ESV.Comp.CgFalls
/-
`codegen_correct`: the recursion over the statement tree.
-/
namespace ESV.Comp
open ESV ESV.Beh

/-- macro calls are pieces: for the compiled macros `cx.cm` against the macros `cx.sm` of the source, at expansion depth `fuel` -/
def MacOK (cx : Cx) (fuel : Nat) : Prop := ∀ (name : String) (args : List Param) (env : Src.Env), EnvOK cx env →
  PM cx (macroStmt cx.cm name args) (fun k b => Src.tr fuel cx.sm env (.macroCall name (convParams args)) k b) env

/-- without compiled macros no macro call compiles -/
theorem macOK_nil (cx : Cx) (fuel : Nat) (h : cx.cm = []) : MacOK cx fuel := by
  intro name args env _ s items s' hr
  rw [h] at hr
  simp [macroStmt, fail_ok] at hr

section main
variable (cx : Cx) (fuel : Nat) (lv : Nat) (hM : MacOK cx fuel)
include hM

mutual
theorem cStmt_c : ∀ (st : Stmt) (lb : Nat), cgStmt lv st = true → (∀ n ∈ mlStmt st, n ∈ cx.defs) → ∀ (env : Src.Env), EnvOK cx env →
    PM cx (cStmt cx.cm lb st) (fun k b => Src.tr fuel cx.sm env (toSrcStmt st) k b) env
  | .op n ps, lb, hg, hu, env, he => simple_pm cx fuel _ lb (by simpa [cgStmt] using hg) env he
  | .ret, lb, _, hu, env, he => by
    simp only [cStmt, toSrcStmt]
    exact ret_pm cx fuel env he
  | .end_, lb, _, hu, env, he => simple_pm cx fuel _ lb rfl env he
  | .hold, lb, _, hu, env, he => simple_pm cx fuel _ lb rfl env he
  | .inl c cp n ps, lb, hg, hu, env, he => simple_pm cx fuel _ lb (by simpa [cgStmt] using hg) env he
  | .with_ c cp inner, lb, hg, hu, env, he => simple_pm cx fuel _ lb (by simpa [cgStmt] using hg) env he
  | .ite neg hdrs body elifs hasElse els, lb, hg, hu, env, he => by
    simp only [cgStmt, Bool.and_eq_true] at hg
    simp only [cStmt, toSrcStmt, toSrcElifs_eq]
    exact ite_piece cx fuel env he neg hdrs hasElse body els (synOf elifs) (hdrsOK_of_all hdrs hg.1.1.1)
      (cStmts_c body _ hg.1.1.2 (fun n hn => hu n (by simp [mlStmt, mlStmts, mlElifs, mlCases, hn])) env he) (cStmts_c els _ hg.2 (fun n hn => hu n (by simp [mlStmt, mlStmts, mlElifs, mlCases, hn])) env he) (cElifsA_c elifs _ hg.1.2 (fun n hn => hu n (by simp [mlStmt, mlStmts, mlElifs, mlCases, hn])) env he) (cElifsB_c elifs _ hg.1.2 (fun n hn => hu n (by simp [mlStmt, mlStmts, mlElifs, mlCases, hn])) env he)
  | .label n, _, _, hu, env, he => by
    simp only [cStmt, toSrcStmt]
    exact label_pm cx fuel env he n (hu n (by simp [mlStmt]))
  | .jump n, _, _, hu, env, _ => by
    simp only [cStmt, toSrcStmt]
    exact jump_pm cx fuel env n (hu n (by simp [mlStmt]))
  | .call n, _, _, hu, env, _ => by
    simp only [cStmt, toSrcStmt]
    exact call_pm cx fuel env n (hu n (by simp [mlStmt]))
  | .brk, _, _, hu, env, _ => by
    simp only [cStmt, toSrcStmt]
    exact brk_pm cx fuel env
  | .cont, _, _, hu, env, _ => by
    simp only [cStmt, toSrcStmt]
    exact cont_pm cx fuel env
  | .brkLoop, _, _, hu, env, _ => by
    simp only [cStmt, toSrcStmt]
    exact brkLoop_pm cx fuel env
  | .switch hdr cs, lb, hg, hu, env, he => by
    simp only [cgStmt, Bool.and_eq_true, Bool.not_eq_true', decide_eq_true_eq] at hg
    simp only [cStmt, toSrcStmt]
    exact switch_pm cx fuel env he hdr cs _ hg.1.1.1.2 hg.1.1.2 hg.1.2
      (cCases_c cs lb hdr.name true hg.2 (fun n hn => hu n (by simp [mlStmt, mlStmts, mlElifs, mlCases, hn])))
  | .forever body, lb, hg, hu, env, he => by
    simp only [cgStmt, Bool.and_eq_true] at hg
    simp only [cStmt, toSrcStmt]
    exact forever_pm cx fuel env he lb body _ (fun env' he' => cStmts_c body _ hg.2 (fun n hn => hu n (by simp [mlStmt, mlStmts, mlElifs, mlCases, hn])) env' he')
  | .while_ neg hd body, lb, hg, hu, env, he => by
    simp only [cgStmt, Bool.and_eq_true] at hg
    simp only [cStmt, toSrcStmt]
    exact while_pm cx fuel env he lb neg hd body _ hg.1.2 (fun env' he' => cStmts_c body _ hg.2 (fun n hn => hu n (by simp [mlStmt, mlStmts, mlElifs, mlCases, hn])) env' he')
  | .for_ init hd inc body, lb, hg, hu, env, he => by
    simp only [cgStmt, Bool.and_eq_true] at hg
    simp only [cStmt, toSrcStmt]
    exact for_pm cx fuel env he lb hd init inc body _ _ _ hg.1.1.1.2 (simple_c cx fuel init _ hg.1.1.2 env he)
      (simple_c cx fuel inc _ hg.1.2 env he) (fun env' he' => cStmts_c body _ hg.2 (fun n hn => hu n (by simp [mlStmt, mlStmts, mlElifs, mlCases, hn])) env' he')
  | .macroCall name args, _, _, _, env, he => by
    simp only [cStmt, toSrcStmt]
    exact hM name args env he

theorem cStmts_c : ∀ (ss : Stmts) (lb : Nat), cgStmts lv ss = true → (∀ n ∈ mlStmts ss, n ∈ cx.defs) → ∀ (env : Src.Env), EnvOK cx env →
    PM cx (cStmts cx.cm lb ss) (fun k b => Src.trStmts fuel cx.sm env (toSrcStmts ss) k b) env
  | .nil, lb, _, hu, env, he => by
    intro s items s' h
    simp only [cStmts, pure_ok, Prod.mk.injEq] at h
    obtain ⟨rfl, rfl⟩ := h
    refine pieceOK_congr (nil_piece cx _ env) (fun k b => ?_)
    simp only [toSrcStmts]; rw [Src.trStmts]
  | .cons st r, lb, hg, hu, env, he => by
    intro s items s' h
    simp only [cgStmts, Bool.and_eq_true] at hg
    simp only [cStmts, bind_ok, pure_ok] at h
    obtain ⟨a, s1, h1, bb, s2, h2, h3⟩ := h
    simp only [Prod.mk.injEq] at h3
    obtain ⟨rfl, rfl⟩ := h3
    have pA := cStmt_c st lb hg.1 (fun n hn => hu n (by simp [mlStmt, mlStmts, mlElifs, mlCases, hn])) env he _ _ _ h1
    have pB := cStmts_c r _ hg.2 (fun n hn => hu n (by simp [mlStmt, mlStmts, mlElifs, mlCases, hn])) env he _ _ _ h2
    refine pieceOK_congr (seq_piece cx pA pB) (fun k b => ?_)
    simp only [toSrcStmts]; rw [Src.trStmts]

theorem cElifsA_c : ∀ (es : Elifs) (lb : Nat), cgElifs lv es = true → (∀ n ∈ mlElifs es, n ∈ cx.defs) → ∀ (env : Src.Env), EnvOK cx env →
    EAC cx fuel env (synOf es) (cElifsA cx.cm lb es)
  | .nil, lb, _, hu, env, he => by
    intro E s0 s as s' _ h
    simp only [cElifsA, pure_ok, Prod.mk.injEq] at h
    obtain ⟨rfl, rfl⟩ := h
    exact ⟨SameStk.refl _, .nil⟩
  | .cons neg hdrs body r, lb, hg, hu, env, he => by
    intro E s0 s as s' hst h
    simp only [cgElifs, Bool.and_eq_true] at hg
    simp only [cElifsA, bind_ok, pure_ok] at h
    obtain ⟨a, s1, h1, rest, s2, h2, h3⟩ := h
    simp only [Prod.mk.injEq] at h3
    obtain ⟨rfl, rfl⟩ := h3
    obtain ⟨e1, ea⟩ := elifAOf_c cx fuel env neg hdrs body (hdrsOK_of_all hdrs hg.1.1) (cStmts_c body lb hg.1.2 (fun n hn => hu n (by simp [mlStmt, mlStmts, mlElifs, mlCases, hn])) env he) E s0 hst h1
    obtain ⟨e2, er⟩ := cElifsA_c r _ hg.2 (fun n hn => hu n (by simp [mlStmt, mlStmts, mlElifs, mlCases, hn])) env he E s0 _ _ _ (hst.trans e1) h2
    exact ⟨e1.trans e2, .cons (ea.mono e2.3) er⟩

theorem cElifsB_c : ∀ (es : Elifs) (lb : Nat), cgElifs lv es = true → (∀ n ∈ mlElifs es, n ∈ cx.defs) → ∀ (env : Src.Env), EnvOK cx env →
    EBC cx fuel env (synOf es) (cElifsB cx.cm lb es)
  | .nil, lb, _, hu, env, he => by
    intro E s0 sA as hall s late s' _ _ h
    cases hall
    simp only [cElifsB, pure_ok, Prod.mk.injEq] at h
    obtain ⟨rfl, rfl⟩ := h
    exact ⟨SameStk.refl _, [], rfl, fun d hd => by simp at hd, fun d hd => by simp at hd, fun d hd => by simp at hd, rfl, rfl⟩
  | .cons neg hdrs body r, lb, hg, hu, env, he => by
    intro E s0 sA as hall s late s' hst hleA h
    simp only [cgElifs, Bool.and_eq_true] at hg
    cases hall with
    | @cons y a ys as' ha hrest =>
      simp only [cElifsB, bind_ok, pure_ok] at h
      obtain ⟨blk, s1, h1, rest, s2, h2, h3⟩ := h
      simp only [Prod.mk.injEq] at h3
      obtain ⟨rfl, rfl⟩ := h3
      obtain ⟨e1, sB, hsB, br, nh, nb⟩ := elifBOf_c cx fuel env ⟨neg, hdrs, body⟩ (cStmts_c body lb hg.1.2 (fun n hn => hu n (by simp [mlStmt, mlStmts, mlElifs, mlCases, hn])) env he) E s0 ha hst hleA h1
      obtain ⟨e2, ds, hsyn, hbrs, hnns, hles, hf, hbk⟩ := cElifsB_c r _ hg.2 (fun n hn => hu n (by simp [mlStmt, mlStmts, mlElifs, mlCases, hn])) env he E s0 sA as' hrest _ _ _ (hst.trans e1) (hleA.trans e1.3) h2
      refine ⟨e1.trans e2, ⟨neg, hdrs, body, blk.hdrs, patchNone E blk.items, sB⟩ :: ds, by simp [BrD.syn, hsyn, synOf], ?_, ?_, ?_, ?_, ?_⟩
      · intro d hd
        simp only [List.mem_cons] at hd
        rcases hd with rfl | hd
        · exact br
        · exact hbrs d hd
      · intro d hd
        simp only [List.mem_cons] at hd
        rcases hd with rfl | hd
        · exact ⟨nh, nb⟩
        · exact hnns d hd
      · intro d hd
        simp only [List.mem_cons] at hd
        rcases hd with rfl | hd
        · exact hsB.trans e2.3
        · exact hles d hd
      · have hn : a.neg = neg := ha.1
        simp only [elifsFront, frontOf, patchNone_append, patchNone_id _ _ nh, patchNone_if, hf, hn]
      · have hn : a.neg = neg := ha.1
        simp only [elifsBack, backOf, patchNone_append, hbk, hn]
        cases neg <;> rfl
theorem cStmts_falls : ∀ (ss : Stmts) (lb : Nat), 0 ≤ fuel → ∀ (env0 : Src.Env), EnvOK cx env0 → cgStmts lv ss = true → (∀ n ∈ mlStmts ss, n ∈ cx.defs) → endsFlowStmts ss = true →
    ∀ (s : St) (ops : List LItem) (s' : St), cStmts cx.cm lb ss s = .ok (ops, s') → falls ops = false
  | .nil, lb, _, _, _, _, _, he => by simp [endsFlowStmts] at he
  | .cons st .nil, lb, _, _, _, hg, hu, he => by
    intro s ops s' h
    simp only [endsFlowStmts] at he
    simp only [cStmts, bind_ok, pure_ok] at h
    obtain ⟨a, s1, h1, bb, s2, h2, h3⟩ := h
    simp only [Prod.mk.injEq] at h2 h3
    obtain ⟨rfl, rfl⟩ := h2
    obtain ⟨rfl, rfl⟩ := h3
    simpa using ends_items he h1
  | .cons st (.cons st2 r), lb, hf0, env0, he0, hg, hu, he => by
    intro s ops s' h
    simp only [endsFlowStmts] at he
    simp only [cgStmts, Bool.and_eq_true] at hg
    rw [cStmts] at h
    simp only [bind_ok, pure_ok] at h
    obtain ⟨a, s1, h1, bb, s2, h2, h3⟩ := h
    simp only [Prod.mk.injEq] at h3
    obtain ⟨rfl, rfl⟩ := h3
    have pA := cStmt_c st lb hg.1 (fun n hn => hu n (by simp [mlStmts, hn])) env0 he0 _ _ _ h1
    have hne : bb ≠ [] := cStmts_cons_ne cx.cm lv st2 r _ hg.2.1 _ _ _ h2
    rw [falls_append a bb hne pA.last]
    exact cStmts_falls (.cons st2 r) _ hf0 env0 he0 (by simp [cgStmts, hg.2.1, hg.2.2]) (fun n hn => hu n (by
      simp only [mlStmts, List.mem_append] at hn ⊢; exact .inr hn)) he _ _ _ h2

theorem cCases_c : ∀ (cs : Cases) (lb : Nat) (sw : String) (nf : Bool), cgCases lv sw nf cs = true → (∀ n ∈ mlCases cs, n ∈ cx.defs) →
    CasesC cx fuel sw nf cs (fun endL bps st => cCases cx.cm lb endL cs bps st)
  | .nil, lb, sw, nf, _, hu => by
    intro env he endL bps st s st' s' _ _ _ h
    simp only [cCases, pure_ok, Prod.mk.injEq] at h
    obtain ⟨rfl, rfl⟩ := h
    refine ⟨SameStk.refl _, id, [], [], by simp, by simp, fun x hx => by simp at hx, fun x hx => by simp at hx, fun hw FI _ => ?_⟩
    rw [hw]
    simp only [wSrc, toSrcCases]
    exact sw_nil cx fuel env endL _ _ _ FI _
  | .cons true n ps body r, lb, sw, nf, hg, hu => by
    intro env he endL bps st s st' s' hb hw hnd h
    obtain ⟨_, _, hgb, hgr⟩ := cgCases_cons hg
    simp only [cCases, bind_ok] at h
    obtain ⟨st1, s1, h1, h2⟩ := h
    have hcr : countDefaults r = 0 := by
      simp only [countDefaults, if_true] at hnd
      omega
    cases body with
    | nil =>
      simp only [Stmts.isNil, if_true] at hgr
      simp only [Stmts.isNil, defaultStep, ↓reduceIte, pure_ok, Prod.mk.injEq] at h1
      obtain ⟨rfl, rfl⟩ := h1
      have hw1 : WaitOK (st.wait none).waiting := by
        intro bp hbp
        simp only [SwSt.wait, List.mem_append, List.mem_singleton] at hbp
        rcases hbp with hbp | hbp
        · exact hw bp hbp
        · cases hbp
      obtain ⟨e, nnD, Hn, Cn, hH, hC, n1, n2, hsem⟩ := cCases_c r _ sw nf hgr (fun n hn => hu n (by simp [mlStmt, mlStmts, mlElifs, mlCases, hn])) env he endL bps (st.wait none) _ st' s' hb hw1
        (by rw [hcr]; split <;> omega) h2
      refine ⟨e, nnD, Hn, Cn, hH, hC, n1, n2, fun hw' FI hFI => ?_⟩
      have := hsem hw' FI hFI
      simpa [SwSt.wait, wSrc_append, wSrc, toSrcCases, toSrcStmts] using this
    | cons b0 br =>
      simp only [Stmts.isNil, Bool.false_eq_true, if_false] at hgr
      simp only [Stmts.isNil] at h1
      obtain ⟨e1, hw1, hs, d1, sL, eB, ops, sa, sb, n0, hH1, hC1, hD1, ws, hrun, hP, la, ca, hsb⟩ :=
        defaultStep_c cx fuel env he endL (.cons b0 br)
          (fun env' he' => cStmts_c (.cons b0 br) lb hgb (fun n hn => hu n (by rw [mlCases]; exact List.mem_append_left _ hn)) env' he') hw h1
      obtain ⟨e2, nnD, Hr, Cr, hH2, hC2, n1, n2, hsem⟩ := cCases_c r _ sw _ hgr (fun n hn => hu n (by simp [mlStmt, mlStmts, mlElifs, mlCases, hn])) env he endL bps st1 s1 st' s' hb
        (by rw [hw1]; intro bp hbp; simp at hbp) (by rw [hw1, hcr]; simp [hasNone]) h2
      refine ⟨e1.trans e2, fun hd => nnD (by rw [hD1]; exact waitSem_nonone ws (noNone_jump _ _)), hs ++ Hr,
        ([LItem.label sL false] ++ ops ++ [LItem.label eB false]) ++ Cr, by rw [hH2, hH1, List.append_assoc],
        by rw [hC2, hC1, List.append_assoc], ws.nonone.append n1,
        (((noNone_label _ _).append (hP env he).nonone).append (noNone_label _ _)).append n2, fun hw' FI _ => ?_⟩
      have hR := (hsem hw' (falls ops = true) (fun hnf hf => by
        rw [hC1]
        rcases Bool.or_eq_true_iff.mp hnf with hnf | hnf
        · have := cStmts_falls (.cons b0 br) lb (Nat.zero_le _) env he hgb (fun n hn => hu n (by rw [mlCases]; exact List.mem_append_left _ hn)) hnf _ _ _ hrun
          rw [this] at hf; cases hf
        · have := cStmts_ft cx.cm (.cons b0 br) lb hnf _ _ _ hrun (st.caseOps ++ [LItem.label sL false]) [LItem.label eB false]
            (fun x hx => by simp at hx; subst hx; rfl)
          simpa [List.append_assoc] using this)).stk e1.1 e1.2
      rw [hw1, hD1] at hR
      simp only [wSrc] at hR
      simp only [toSrcCases]
      exact sw_default cx fuel env he endL s.loops s.cases st.waiting hs st.defaultOps d1 sL eB ops sa sb (.cons b0 br) n0 hP la ca ws
        (hsb.trans e2.3) hR
        (fun k nt b => trCases_nodefault fuel cx.sm (brkEnv env k) sw r k nt b (countDefaults_zero r hcr)) FI
  | .cons false n ps body r, lb, sw, nf, hg, hu => by
    intro env he endL bps st s st' s' hb hw hnd h
    obtain ⟨hnm, hlx, hgb, hgr⟩ := cgCases_cons hg
    have hnm' : isTest n = true ∧ isTest (caseName sw n) = true := by
      rcases hnm with h0 | h0
      · cases h0
      · exact h0
    cases bps with
    | nil => exact absurd hb (by simp [BpsOK])
    | cons bp bps' =>
    simp only [BpsOK] at hb
    obtain ⟨hbn, hbp, hbpos, hb'⟩ := hb
    have htest : isTest bp.name = true := by rw [hbn]; exact hnm'.2
    simp only [cCases, bind_ok] at h
    obtain ⟨st1, s1, h1, h2⟩ := h
    have hnd' : (if hasNone st.waiting then 1 else 0) + countDefaults r ≤ 1 := by
      simpa [countDefaults] using hnd
    cases body with
    | nil =>
      simp only [Stmts.isNil, if_true] at hgr
      simp only [Stmts.isNil, caseStep, ↓reduceIte, pure_ok, Prod.mk.injEq] at h1
      obtain ⟨rfl, rfl⟩ := h1
      have hw1 : WaitOK (st.wait (some bp)).waiting := by
        intro bp' hbp'
        simp only [SwSt.wait, List.mem_append, List.mem_singleton, Option.some.injEq] at hbp'
        rcases hbp' with hbp' | rfl
        · exact hw bp' hbp'
        · exact htest
      have hn1 : hasNone (st.wait (some bp)).waiting = hasNone st.waiting := by
        simp only [SwSt.wait]
        generalize st.waiting = w
        induction w with
        | nil => rfl
        | cons x w ih => cases x <;> simp [hasNone, ih]
      obtain ⟨e, nnD, Hn, Cn, hH, hC, n1, n2, hsem⟩ := cCases_c r _ sw nf hgr (fun n hn => hu n (by simp [mlStmt, mlStmts, mlElifs, mlCases, hn])) env he endL bps' (st.wait (some bp)) _ st' s' hb' hw1
        (by rw [hn1]; exact hnd') h2
      refine ⟨e, nnD, Hn, Cn, hH, hC, n1, n2, fun hw' FI hFI => ?_⟩
      have := hsem hw' FI hFI
      simpa [SwSt.wait, wSrc_append, wSrc, toSrcCases, toSrcStmts, caseName, hbn, hbp] using this
    | cons b0 br =>
      simp only [Stmts.isNil, Bool.false_eq_true, if_false] at hgr
      simp only [Stmts.isNil] at h1
      obtain ⟨e1, hw1, hs, d1, ops, sa, sb, n0, hD1, hrun, hP, la, ca, hsb, hcase⟩ :=
        caseStep_c cx fuel env he endL bp hbpos (.cons b0 br)
          (fun env' he' => cStmts_c (.cons b0 br) lb hgb (fun n hn => hu n (by rw [mlCases]; exact List.mem_append_left _ hn)) env' he') hw h1
      have hcr : hasNone st.waiting = true → countDefaults r = 0 := by
        intro hh; rw [hh] at hnd'; simp only [if_true] at hnd'; omega
      obtain ⟨e2, nnD, Hr, Cr, hH2, hC2, n1, n2, hsem⟩ := cCases_c r _ sw _ hgr (fun n hn => hu n (by simp [mlStmt, mlStmts, mlElifs, mlCases, hn])) env he endL bps' st1 s1 st' s' hb'
        (by rw [hw1]; intro bp hbp; simp at hbp) (by
          rw [hw1]; simp only [hasNone, Bool.false_eq_true, if_false, Nat.zero_add]
          split at hnd' <;> omega) h2
      rcases hcase with ⟨sL, eB, hH1, hC1, ws⟩ | ⟨l, eB, hnft, hlone, hH1, hC1, ws⟩
      · refine ⟨e1.trans e2, fun hd => nnD (by rw [hD1]; exact waitSem_nonone ws hd),
          (hs ++ [LItem.ljump ⟨n0, bp.name, bp.params⟩ (some sL)]) ++ Hr,
          ([LItem.label sL false] ++ ops ++ [LItem.label eB false]) ++ Cr, by rw [hH2, hH1, List.append_assoc],
          by rw [hC2, hC1, List.append_assoc], (ws.nonone.append (noNone_jump _ _)).append n1,
          (((noNone_label _ _).append (hP env he).nonone).append (noNone_label _ _)).append n2, fun hw' FI _ => ?_⟩
        have hR := (hsem hw' (falls ops = true) (fun hnf hf => by
          rw [hC1]
          rcases Bool.or_eq_true_iff.mp hnf with hnf | hnf
          · have := cStmts_falls (.cons b0 br) lb (Nat.zero_le _) env he hgb (fun n hn => hu n (by rw [mlCases]; exact List.mem_append_left _ hn)) hnf _ _ _ hrun
            rw [this] at hf; cases hf
          · have := cStmts_ft cx.cm (.cons b0 br) lb hnf _ _ _ hrun (st.caseOps ++ [LItem.label sL false]) [LItem.label eB false]
              (fun x hx => by simp at hx; subst hx; rfl)
            simpa [List.append_assoc] using this)).stk e1.1 e1.2
        rw [hw1, hD1] at hR
        simp only [wSrc] at hR
        simp only [toSrcCases]
        have := sw_case cx fuel env he endL s.loops s.cases st.waiting hs st.defaultOps d1 sL eB ops sa sb (.cons b0 br) n0 bp htest hP la ca ws
          (hsb.trans e2.3) hR
          (fun hh k nt b => trCases_nodefault fuel cx.sm (brkEnv env k) sw r k nt b (countDefaults_zero r (hcr hh))) FI
        simpa [caseName, hbn, hbp] using this
      · -- folded: the body is a single exit statement, and nothing falls into its block
        have hlx' : loneExit (.cons b0 br) = true := by
          cases hq : loneExit (.cons b0 br) with
          | true => rfl
          | false =>
            have : loneJump ops = none := cStmts_ret cx.cm lv (.cons b0 br) lb hgb hq _ _ _ hrun
            rw [hlone] at this; cases this
        have hnf : nf = true := by
          rcases hlx with h0 | h0 | h0
          · cases h0
          · rw [hlx'] at h0; cases h0
          · exact h0
        refine ⟨e1.trans e2, fun hd => nnD (by rw [hD1]; exact waitSem_nonone ws hd),
          (hs ++ [LItem.ljump ⟨n0, bp.name, bp.params⟩ (some l)]) ++ Hr,
          [LItem.label eB false] ++ Cr, by rw [hH2, hH1, List.append_assoc],
          by rw [hC2, hC1, List.append_assoc], (ws.nonone.append (noNone_jump _ _)).append n1,
          (noNone_label _ _).append n2, fun hw' FI hFI => ?_⟩
        have hR := (hsem hw' False (fun _ hf => hf.elim)).stk e1.1 e1.2
        rw [hw1, hD1] at hR
        simp only [wSrc] at hR
        simp only [toSrcCases]
        have := (sw_fold cx fuel env he endL s.loops s.cases st.waiting hs st.defaultOps d1 l eB ops sa sb (.cons b0 br) n0 bp htest hlone hP la ca ws
          (hsb.trans e2.3) hR
          (fun hh k nt b => trCases_nodefault fuel cx.sm (brkEnv env k) sw r k nt b (countDefaults_zero r (hcr hh)))).weaken
          (FI := FI) (fun hf => by have := hFI hnf hf; rw [hnft] at this; cases this)
        simpa [caseName, hbn, hbp] using this

end

end main

end ESV.Comp
