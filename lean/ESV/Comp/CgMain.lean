import ESV.Comp.CgIf3
import ESV.Comp.CgFor
/-
`codegen_correct`: the fragment, and the recursion over the statement tree.
-/
namespace ESV.Comp
open ESV ESV.Beh

/-- the statements of F0: plain operations, operations under a context, `return` / `end` / `hold` -/
def cgSimple : Stmt → Bool
  | .op n _ => nameOK n
  | .inl c _ n _ => isCtx c && nameOK n && n != Gen.op_return
  | .with_ c _ inner => isCtx c && f0Inner inner
  | .ret => true
  | .end_ => true
  | .hold => true
  | _ => false

mutual
/-- the statements `codegen_correct` covers, by level: always F0 (`cgSimple`) and if / elseif / else with any headers, `not`,
empty blocks (F1); from level 2 on `forever` / `while` / `for` with `continue` and `break_loop` (F2; the init and increment
statements of `for` are F0 statements) -/
def cgStmt (lv : Nat) : Stmt → Bool
  | .op n ps => cgSimple (.op n ps)
  | .inl c cp n ps => cgSimple (.inl c cp n ps)
  | .with_ c cp inner => cgSimple (.with_ c cp inner)
  | .ret => true
  | .end_ => true
  | .hold => true
  | .ite _ hdrs body elifs _ els => hdrs.all (fun h => isTest h.name) && cgStmts lv body && cgElifs lv elifs && cgStmts lv els
  | .cont => decide (2 ≤ lv)
  | .brkLoop => decide (2 ≤ lv)
  | .forever body => decide (2 ≤ lv) && cgStmts lv body
  | .while_ _ h body => decide (2 ≤ lv) && isTest h.name && cgStmts lv body
  | .for_ init h inc body => decide (2 ≤ lv) && isTest h.name && cgSimple init && cgSimple inc && cgStmts lv body
  | _ => false
def cgStmts (lv : Nat) : Stmts → Bool
  | .nil => true
  | .cons s r => cgStmt lv s && cgStmts lv r
def cgElifs (lv : Nat) : Elifs → Bool
  | .nil => true
  | .cons _ hdrs body r => hdrs.all (fun h => isTest h.name) && cgStmts lv body && cgElifs lv r
end

theorem simpleOK_congr {cx : Cx} {items : List LItem} {t1 t2 : Nat → Src.B → Src.B × Nat}
    (h : SimpleOK cx items t1) (e : ∀ k b, t1 k b = t2 k b) : SimpleOK cx items t2 := by
  have : t1 = t2 := by funext k b; exact e k b
  rw [← this]; exact h

theorem pieceOK_congr {cx : Cx} {items : List LItem} {s s' : St} {t1 t2 : Nat → Src.B → Src.B × Nat} {env : Src.Env}
    (h : PieceOK cx items s s' t1 env) (e : ∀ k b, t1 k b = t2 k b) : PieceOK cx items s s' t2 env := by
  have : t1 = t2 := by funext k b; exact e k b
  rw [← this]; exact h

theorem pm_congr {cx : Cx} {mc : M (List LItem)} {t1 t2 : Nat → Src.B → Src.B × Nat} {env : Src.Env}
    (h : PM cx mc t1 env) (e : ∀ k b, t1 k b = t2 k b) : PM cx mc t2 env :=
  fun s items s' hs => pieceOK_congr (h s items s' hs) e

/-- a halting control statement is the op of its name -/
theorem ctl_simple (cx : Cx) (fuel : Nat) (env : Src.Env) (he : PlainEnv env) (nm sn : String) (st : Src.Stmt)
    (hn : nameOK nm = true) (hf : Beh.endsFlow nm = true) (hnm : nm = sn)
    (htr : ∀ k b, Src.tr fuel [] env st k b = b.push (.halt ⟨sn, []⟩)) {s : St} {items : List LItem} {s' : St}
    (h : opStmt nm [] s = .ok (items, s')) :
    SimpleOK cx items (fun k b => Src.tr fuel [] env st k b) ∧ s'.loops = s.loops ∧ s'.cases = s.cases := by
  subst hnm
  obtain ⟨a, b, c⟩ := op_simple cx fuel nm [] hn h env he
  refine ⟨simpleOK_congr a (fun k b => ?_), b, c⟩
  rw [htr, Src.tr]
  simp [hf, he.1, substEv_nil, convParams]

/-- an op under a context: inline context, or a with-block -/
theorem ctx_pm (cx : Cx) (fuel : Nat) (env : Src.Env) (he : PlainEnv env) (c : String) (cp : ESV.Param) (n : String) (ps : List ESV.Param)
    (hc : isCtx c = true) (hn : nameOK n = true) (inner : Src.Stmt)
    (hspec : ∀ k b, Src.afterCtxSpecial env inner k b = some (b.push (.emit ⟨n, convParams ps⟩ k)))
    {mc : M (List LItem)}
    (hmc : ∀ s items s', mc s = .ok (items, s') → ∃ oc oo, items = [.op ⟨oc, c, [cp]⟩, .op ⟨oo, n, ps⟩] ∧ SameStk s s')
    {s : St} {items : List LItem} {s' : St} (h : mc s = .ok (items, s')) :
    SimpleOK cx items (fun k b => Src.tr fuel [] env (.ctx c [convParam cp] inner) k b) ∧ s'.loops = s.loops ∧ s'.cases = s.cases := by
  obtain ⟨oc, oo, rfl, hst⟩ := hmc s items s' h
  refine ⟨ctx_simple cx c cp n ps hc hn oc oo _ (fun k b => ?_), hst.1, hst.2⟩
  rw [Src.tr]
  simp only [hspec, he.1, substEv_nil]

theorem inl_shape {c : String} {cp : ESV.Param} {n : String} {ps : List ESV.Param} {s : St} {items : List LItem} {s' : St}
    (h : inlStmt c cp n ps s = .ok (items, s')) : ∃ oc oo, items = [.op ⟨oc, c, [cp]⟩, .op ⟨oo, n, ps⟩] ∧ SameStk s s' := by
  simp only [inlStmt, bind_ok, pure_ok] at h
  obtain ⟨co, s1, h1, o, s2, h2, h3⟩ := h
  simp only [Prod.mk.injEq] at h3
  obtain ⟨rfl, rfl⟩ := h3
  obtain ⟨rfl, rfl⟩ := genOp_spec h1
  obtain ⟨rfl, rfl⟩ := genOp_spec h2
  exact ⟨_, _, rfl, (sameStk_tickedOp _ _).trans (sameStk_tickedOp _ _)⟩

theorem with_shape {c : String} {cp : ESV.Param} {n : String} {ps : List ESV.Param} {s : St} {items : List LItem} {s' : St}
    (h : withOf c cp (opStmt n ps) s = .ok (items, s')) : ∃ oc oo, items = [.op ⟨oc, c, [cp]⟩, .op ⟨oo, n, ps⟩] ∧ SameStk s s' := by
  simp only [withOf, bind_ok] at h
  obtain ⟨co, s1, h1, sub, s2, h2, h3⟩ := h
  obtain ⟨rfl, rfl⟩ := genOp_spec h1
  simp only [opStmt, bind_ok, pure_ok] at h2
  obtain ⟨o, s3, h4, h5⟩ := h2
  simp only [Prod.mk.injEq] at h5
  obtain ⟨rfl, rfl⟩ := h5
  obtain ⟨rfl, rfl⟩ := genOp_spec h4
  simp only [List.length_singleton, beq_self_eq_true, if_true, pure_ok, Prod.mk.injEq] at h3
  obtain ⟨rfl, rfl⟩ := h3
  exact ⟨_, _, rfl, (sameStk_tickedOp _ _).trans (sameStk_tickedOp _ _)⟩

theorem patchNone_if (e : Nat) (c : Bool) (l : List LItem) : patchNone e (if c then l else []) = if c then patchNone e l else [] := by
  cases c <;> rfl

/-- the statements of F0 never look at the exits -/
theorem simple_c (cx : Cx) (fuel : Nat) : ∀ (st : Stmt) (lb : Nat), cgSimple st = true → ∀ (env : Src.Env), PlainEnv env →
    ∀ (s : St) (items : List LItem) (s' : St), cStmt [] lb st s = .ok (items, s') →
    SimpleOK cx items (fun k b => Src.tr fuel [] env (toSrcStmt st) k b) ∧ s'.loops = s.loops ∧ s'.cases = s.cases
  | .op n ps, lb, hg, env, he => by
    intro s items s' h
    simp only [cStmt, toSrcStmt] at h ⊢
    exact op_simple cx fuel n ps (by simpa [cgSimple] using hg) h env he
  | .ret, lb, _, env, he => by
    intro s items s' h
    simp only [cStmt, toSrcStmt] at h ⊢
    exact ctl_simple cx fuel env he Gen.op_return ESV.Spec.op_return .ret ctl_names.1 ctl_names.2.2.2.1 ctl_names.2.2.2.2.2.2.1
      (fun k b => by rw [Src.tr]; simp [he.2]) h
  | .end_, lb, _, env, he => by
    intro s items s' h
    simp only [cStmt, toSrcStmt] at h ⊢
    exact ctl_simple cx fuel env he Gen.op_end ESV.Spec.op_end .end_ ctl_names.2.1 ctl_names.2.2.2.2.1 ctl_names.2.2.2.2.2.2.2.1
      (fun k b => by rw [Src.tr]) h
  | .hold, lb, _, env, he => by
    intro s items s' h
    simp only [cStmt, toSrcStmt] at h ⊢
    exact ctl_simple cx fuel env he Gen.op_hold ESV.Spec.op_hold .hold ctl_names.2.2.1 ctl_names.2.2.2.2.2.1 ctl_names.2.2.2.2.2.2.2.2
      (fun k b => by rw [Src.tr]) h
  | .inl c cp n ps, lb, hg, env, he => by
    intro s items s' h
    simp only [cgSimple, Bool.and_eq_true] at hg
    simp only [cStmt, toSrcStmt] at h ⊢
    exact ctx_pm cx fuel env he c cp n ps hg.1.1 hg.1.2 _ (fun k b => by simp [Src.afterCtxSpecial, he.1, substEv_nil])
      (fun s items s' h => inl_shape h) h
  | .with_ c cp inner, lb, hg, env, he => by
    intro s items s' h
    simp only [cgSimple, Bool.and_eq_true] at hg
    cases inner with
    | op n ps =>
      simp only [f0Inner, Bool.and_eq_true] at hg
      simp only [cStmt, toSrcStmt] at h ⊢
      exact ctx_pm cx fuel env he c cp n ps hg.1 hg.2.1 _ (fun k b => by simp [Src.afterCtxSpecial, he.1, substEv_nil])
        (fun s items s' h => with_shape h) h
    | end_ =>
      simp only [cStmt, toSrcStmt] at h ⊢
      exact ctx_pm cx fuel env he c cp Gen.op_end [] hg.1 ctl_names.2.1 _
        (fun k b => by simp [Src.afterCtxSpecial, convParams, ctl_names.2.2.2.2.2.2.2.1]) (fun s items s' h => with_shape h) h
    | hold =>
      simp only [cStmt, toSrcStmt] at h ⊢
      exact ctx_pm cx fuel env he c cp Gen.op_hold [] hg.1 ctl_names.2.2.1 _
        (fun k b => by simp [Src.afterCtxSpecial, convParams, ctl_names.2.2.2.2.2.2.2.2]) (fun s items s' h => with_shape h) h
    | _ => simp [f0Inner] at hg
  | .ite .., _, hg, _, _ => by simp [cgSimple] at hg
  | .label _, _, hg, _, _ => by simp [cgSimple] at hg
  | .jump _, _, hg, _, _ => by simp [cgSimple] at hg
  | .call _, _, hg, _, _ => by simp [cgSimple] at hg
  | .brk, _, hg, _, _ => by simp [cgSimple] at hg
  | .cont, _, hg, _, _ => by simp [cgSimple] at hg
  | .brkLoop, _, hg, _, _ => by simp [cgSimple] at hg
  | .switch .., _, hg, _, _ => by simp [cgSimple] at hg
  | .forever .., _, hg, _, _ => by simp [cgSimple] at hg
  | .while_ .., _, hg, _, _ => by simp [cgSimple] at hg
  | .for_ .., _, hg, _, _ => by simp [cgSimple] at hg
  | .macroCall .., _, hg, _, _ => by simp [cgSimple] at hg

theorem simple_pm (cx : Cx) (fuel : Nat) (st : Stmt) (lb : Nat) (hg : cgSimple st = true) (env : Src.Env) (he : PlainEnv env) :
    PM cx (cStmt [] lb st) (fun k b => Src.tr fuel [] env (toSrcStmt st) k b) env := by
  intro s items s' h
  obtain ⟨a, b, c⟩ := simple_c cx fuel st lb hg env he s items s' h
  exact a.piece b c env

section main
variable (cx : Cx) (fuel : Nat) (lv : Nat)

mutual
theorem cStmt_c : ∀ (st : Stmt) (lb : Nat), cgStmt lv st = true → ∀ (env : Src.Env), PlainEnv env →
    PM cx (cStmt [] lb st) (fun k b => Src.tr fuel [] env (toSrcStmt st) k b) env
  | .op n ps, lb, hg, env, he => simple_pm cx fuel _ lb (by simpa [cgStmt] using hg) env he
  | .ret, lb, _, env, he => simple_pm cx fuel _ lb rfl env he
  | .end_, lb, _, env, he => simple_pm cx fuel _ lb rfl env he
  | .hold, lb, _, env, he => simple_pm cx fuel _ lb rfl env he
  | .inl c cp n ps, lb, hg, env, he => simple_pm cx fuel _ lb (by simpa [cgStmt] using hg) env he
  | .with_ c cp inner, lb, hg, env, he => simple_pm cx fuel _ lb (by simpa [cgStmt] using hg) env he
  | .ite neg hdrs body elifs hasElse els, lb, hg, env, he => by
    simp only [cgStmt, Bool.and_eq_true] at hg
    simp only [cStmt, toSrcStmt, toSrcElifs_eq]
    exact ite_piece cx fuel env he neg hdrs hasElse body els (synOf elifs) (hdrsOK_of_all hdrs hg.1.1.1)
      (cStmts_c body _ hg.1.1.2 env he) (cStmts_c els _ hg.2 env he) (cElifsA_c elifs _ hg.1.2 env he) (cElifsB_c elifs _ hg.1.2 env he)
  | .label _, _, hg, _, _ => by simp [cgStmt] at hg
  | .jump _, _, hg, _, _ => by simp [cgStmt] at hg
  | .call _, _, hg, _, _ => by simp [cgStmt] at hg
  | .brk, _, hg, _, _ => by simp [cgStmt] at hg
  | .cont, _, _, env, _ => by
    simp only [cStmt, toSrcStmt]
    exact cont_pm cx fuel env
  | .brkLoop, _, _, env, _ => by
    simp only [cStmt, toSrcStmt]
    exact brkLoop_pm cx fuel env
  | .switch .., _, hg, _, _ => by simp [cgStmt] at hg
  | .forever body, lb, hg, env, he => by
    simp only [cgStmt, Bool.and_eq_true] at hg
    simp only [cStmt, toSrcStmt]
    exact forever_pm cx fuel env he lb body _ (fun env' he' => cStmts_c body _ hg.2 env' he')
  | .while_ neg hd body, lb, hg, env, he => by
    simp only [cgStmt, Bool.and_eq_true] at hg
    simp only [cStmt, toSrcStmt]
    exact while_pm cx fuel env he lb neg hd body _ hg.1.2 (fun env' he' => cStmts_c body _ hg.2 env' he')
  | .for_ init hd inc body, lb, hg, env, he => by
    simp only [cgStmt, Bool.and_eq_true] at hg
    simp only [cStmt, toSrcStmt]
    exact for_pm cx fuel env he lb hd init inc body _ _ _ hg.1.1.1.2 (simple_c cx fuel init _ hg.1.1.2 env he)
      (simple_c cx fuel inc _ hg.1.2 env he) (fun env' he' => cStmts_c body _ hg.2 env' he')
  | .macroCall .., _, hg, _, _ => by simp [cgStmt] at hg

theorem cStmts_c : ∀ (ss : Stmts) (lb : Nat), cgStmts lv ss = true → ∀ (env : Src.Env), PlainEnv env →
    PM cx (cStmts [] lb ss) (fun k b => Src.trStmts fuel [] env (toSrcStmts ss) k b) env
  | .nil, lb, _, env, he => by
    intro s items s' h
    simp only [cStmts, pure_ok, Prod.mk.injEq] at h
    obtain ⟨rfl, rfl⟩ := h
    refine pieceOK_congr (nil_piece cx _ env) (fun k b => ?_)
    simp only [toSrcStmts]; rw [Src.trStmts]
  | .cons st r, lb, hg, env, he => by
    intro s items s' h
    simp only [cgStmts, Bool.and_eq_true] at hg
    simp only [cStmts, bind_ok, pure_ok] at h
    obtain ⟨a, s1, h1, bb, s2, h2, h3⟩ := h
    simp only [Prod.mk.injEq] at h3
    obtain ⟨rfl, rfl⟩ := h3
    have pA := cStmt_c st lb hg.1 env he _ _ _ h1
    have pB := cStmts_c r _ hg.2 env he _ _ _ h2
    refine pieceOK_congr (seq_piece cx pA pB) (fun k b => ?_)
    simp only [toSrcStmts]; rw [Src.trStmts]

theorem cElifsA_c : ∀ (es : Elifs) (lb : Nat), cgElifs lv es = true → ∀ (env : Src.Env), PlainEnv env →
    EAC cx fuel env (synOf es) (cElifsA [] lb es)
  | .nil, lb, _, env, he => by
    intro E s0 s as s' _ h
    simp only [cElifsA, pure_ok, Prod.mk.injEq] at h
    obtain ⟨rfl, rfl⟩ := h
    exact ⟨SameStk.refl _, .nil⟩
  | .cons neg hdrs body r, lb, hg, env, he => by
    intro E s0 s as s' hst h
    simp only [cgElifs, Bool.and_eq_true] at hg
    simp only [cElifsA, bind_ok, pure_ok] at h
    obtain ⟨a, s1, h1, rest, s2, h2, h3⟩ := h
    simp only [Prod.mk.injEq] at h3
    obtain ⟨rfl, rfl⟩ := h3
    obtain ⟨e1, ea⟩ := elifAOf_c cx fuel env neg hdrs body (hdrsOK_of_all hdrs hg.1.1) (cStmts_c body lb hg.1.2 env he) E s0 hst h1
    obtain ⟨e2, er⟩ := cElifsA_c r _ hg.2 env he E s0 _ _ _ (hst.trans e1) h2
    exact ⟨e1.trans e2, .cons ea er⟩

theorem cElifsB_c : ∀ (es : Elifs) (lb : Nat), cgElifs lv es = true → ∀ (env : Src.Env), PlainEnv env →
    EBC cx fuel env (synOf es) (cElifsB [] lb es)
  | .nil, lb, _, env, he => by
    intro E s0 as hall s late s' _ h
    cases hall
    simp only [cElifsB, pure_ok, Prod.mk.injEq] at h
    obtain ⟨rfl, rfl⟩ := h
    exact ⟨SameStk.refl _, [], rfl, fun d hd => by simp at hd, fun d hd => by simp at hd, rfl, rfl⟩
  | .cons neg hdrs body r, lb, hg, env, he => by
    intro E s0 as hall s late s' hst h
    simp only [cgElifs, Bool.and_eq_true] at hg
    cases hall with
    | @cons y a ys as' ha hrest =>
      simp only [cElifsB, bind_ok, pure_ok] at h
      obtain ⟨blk, s1, h1, rest, s2, h2, h3⟩ := h
      simp only [Prod.mk.injEq] at h3
      obtain ⟨rfl, rfl⟩ := h3
      obtain ⟨e1, br, nh, nb⟩ := elifBOf_c cx fuel env ⟨neg, hdrs, body⟩ (cStmts_c body lb hg.1.2 env he) E s0 ha hst h1
      obtain ⟨e2, ds, hsyn, hbrs, hnns, hf, hbk⟩ := cElifsB_c r _ hg.2 env he E s0 as' hrest _ _ _ (hst.trans e1) h2
      refine ⟨e1.trans e2, ⟨neg, hdrs, body, blk.hdrs, patchNone E blk.items⟩ :: ds, by simp [BrD.syn, hsyn, synOf], ?_, ?_, ?_, ?_⟩
      · intro d hd
        simp only [List.mem_cons] at hd
        rcases hd with rfl | hd
        · exact br
        · exact hbrs d hd
      · intro d hd
        simp only [List.mem_cons] at hd
        rcases hd with rfl | hd
        · exact ⟨nh, nb⟩
        · exact hnns d hd
      · have hn : a.neg = neg := ha.1
        simp only [elifsFront, frontOf, patchNone_append, patchNone_id _ _ nh, patchNone_if, hf, hn]
      · have hn : a.neg = neg := ha.1
        simp only [elifsBack, backOf, patchNone_append, hbk, hn]
        cases neg <;> rfl
end

end main

end ESV.Comp
