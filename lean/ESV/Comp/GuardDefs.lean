import ESV.Comp.LabSem
/-
Definitions only (no proofs; imported by the Lean driver, which must build whatever /repo looks like): the decidable guards of
the theorems about the compiler model.

* `NoUserJumpOps` — guard of `compile_closed` (C03);
* `FrontGuard` — guard of `frontend_wfl` (C01): `wStmts` on every body, user labels defined once (`dfStmts`).

The theorems are in ESV/Comp/Front*.lean, FrontW*.lean.
-/
namespace ESV.Comp
open ESV ESV.Beh

/-! ### the guard: no operation written in the source is named like a jump-carrying op -/

mutual
def okStmt : Stmt → Bool
  | .op name _ => !isJumpName name
  | .inl c _ n _ => !isJumpName c && !isJumpName n
  | .with_ c _ inner => !isJumpName c && okStmt inner
  | .ite _ _ body elifs _ els => okStmts body && okElifs elifs && okStmts els
  | .switch hdr cs => !isJumpName hdr.name && okCases cs
  | .forever body => okStmts body
  | .while_ _ _ body => okStmts body
  | .for_ init _ inc body => okStmt init && okStmt inc && okStmts body
  | _ => true
def okStmts : Stmts → Bool
  | .nil => true
  | .cons s r => okStmt s && okStmts r
def okElifs : Elifs → Bool
  | .nil => true
  | .cons _ _ body r => okStmts body && okElifs r
def okCases : Cases → Bool
  | .nil => true
  | .cons _ _ _ body r => okStmts body && okCases r
end

/-- the decidable guard of `compile_closed`: no operation written in a routine or macro (plain operation, inline or
with-block context op, switch header operation) is named like an op of `OPS_WITH_JUMP_TO_MEM_OFFSET` -/
def NoUserJumpOps (p : Program) : Prop :=
  (∀ m ∈ p.macros, okStmts m.body = true) ∧ (∀ r ∈ p.routines, okStmts r.body = true)

instance (p : Program) : Decidable (NoUserJumpOps p) := by unfold NoUserJumpOps; infer_instance

/-! ### the guard of `frontend_wfl` -/

/-- what may stand inside a with-block: a plain operation (not named like a context op or `Return`), `call`, `end`, `hold`.
Not: `jump`, `return`, `break`, `continue`, `break_loop` — their `Jump` (inside a macro also `return`'s) would stand
directly after the context op (`ctx_jump_counterexample`) -/
def innerOK : Stmt → Bool
  | .op n _ => !isCtx n && n != Gen.op_return
  | .call _ => true
  | .end_ => true
  | .hold => true
  | _ => false

/-- statements that reserve no label numbers while visiting -/
def simpleStmt : Stmt → Bool
  | .ite .. => false
  | .switch .. => false
  | .forever .. => false
  | .while_ .. => false
  | .for_ .. => false
  | _ => true

mutual
/-- the guard of `frontend_wfl` on a statement: written operations are not named like context ops (only the context of
an inline context / with-block is), an operation under a context is not `Return`, with-blocks hold `innerOK` statements,
headers of ifs / loops / cases are test ops, the init and increment statements of `for` are simple statements -/
def wStmt : Stmt → Bool
  | .op n _ => !isCtx n
  | .inl _ _ n _ => !isCtx n && n != Gen.op_return
  | .with_ _ _ inner => innerOK inner
  | .ite _ hdrs body elifs _ els => hdrs.all (fun h => isTest h.name) && wStmts body && wElifs elifs && wStmts els
  | .switch hdr cs => !isCtx hdr.name && wCases cs
  | .forever body => wStmts body
  | .while_ _ h body => isTest h.name && wStmts body
  | .for_ init h inc body => isTest h.name && simpleStmt init && simpleStmt inc && wStmt init && wStmt inc && wStmts body
  | _ => true
def wStmts : Stmts → Bool
  | .nil => true
  | .cons s r => wStmt s && wStmts r
def wElifs : Elifs → Bool
  | .nil => true
  | .cons _ hdrs body r => hdrs.all (fun h => isTest h.name) && wStmts body && wElifs r
def wCases : Cases → Bool
  | .nil => true
  | .cons isDef name _ body r => (isDef || isTest name) && wStmts body && wCases r
end

/-! ### the user labels a statement defines -/

mutual
/-- the user labels a statement defines, in the order their definitions are collected -/
def dfStmt : Stmt → List String
  | .label n => [n]
  | .ite _ _ body elifs hasElse els => dfStmts body ++ dfElifsA elifs ++ (if hasElse then dfStmts els else []) ++ dfElifsB elifs
  | .switch _ cs => dfCases cs
  | .forever body => dfStmts body
  | .while_ _ _ body => dfStmts body
  | .for_ init _ inc body => dfStmt init ++ dfStmts body ++ dfStmt inc
  | _ => []
def dfStmts : Stmts → List String
  | .nil => []
  | .cons s r => dfStmt s ++ dfStmts r
def dfElifsA : Elifs → List String
  | .nil => []
  | .cons neg _ body r => (if neg then dfStmts body else []) ++ dfElifsA r
def dfElifsB : Elifs → List String
  | .nil => []
  | .cons neg _ body r => (if neg then [] else dfStmts body) ++ dfElifsB r
def dfCases : Cases → List String
  | .nil => []
  | .cons _ _ _ body r => (if body.isNil then [] else dfStmts body) ++ dfCases r
end

/-- the decidable guard of `frontend_wfl` -/
def FrontGuard (p : Program) : Prop :=
  NoUserJumpOps p ∧ (∀ m ∈ p.macros, wStmts m.body = true ∧ (dfStmts m.body).Nodup) ∧
  (∀ r ∈ p.routines, wStmts r.body = true) ∧ (p.routines.flatMap fun r => dfStmts r.body).Nodup

instance (p : Program) : Decidable (FrontGuard p) := by unfold FrontGuard; infer_instance

end ESV.Comp
