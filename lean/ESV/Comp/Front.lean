import ESV.Comp.Lemmas
/-
Front-end lemmas of C03 (`counter_fresh`): every op offset the code generator puts into the labelled code was handed
out by the op counter during that very computation, and no number is used twice — numbers taken with `allocate` for
the headers of ifs / cases, numbers taken while visiting (`while` / `for` header operations), numbers dropped
(lone-jump shortcut, removed `Jump`s) and macro expansions included.
-/
namespace ESV.Comp
open ESV

/-! ### the state monad -/

theorem bind_ok {α β : Type} (x : M α) (f : α → M β) (s : St) (r : β × St) :
    (x >>= f) s = .ok r ↔ ∃ a s1, x s = .ok (a, s1) ∧ f a s1 = .ok r := by
  simp only [bind, StateT.bind, Except.bind]
  cases hx : x s with
  | error e => simp
  | ok p =>
    obtain ⟨a, s1⟩ := p
    simp only [Except.ok.injEq, Prod.mk.injEq]
    constructor
    · intro h; exact ⟨a, s1, ⟨rfl, rfl⟩, h⟩
    · rintro ⟨a', s1', ⟨rfl, rfl⟩, h⟩; exact h

theorem pure_ok {α : Type} (a : α) (s : St) (r : α × St) : (pure a : M α) s = .ok r ↔ r = (a, s) := by
  simp only [pure, StateT.pure, Except.pure, Except.ok.injEq]
  exact eq_comm

theorem fail_ok {α : Type} (e : Err) (s : St) (r : α × St) : (fail e : M α) s = .ok r ↔ False := by
  simp [fail]

theorem tickOp_ok (s : St) (r : Nat × St) : tickOp s = .ok r ↔ r = (s.opc + 1, s.tickedOp 1) := by
  simp only [tickOp, Except.ok.injEq]; exact eq_comm
theorem allocate_ok (k : Nat) (s : St) (r : Nat × St) : allocate k s = .ok r ↔ r = (s.opc + 1, s.tickedOp k) := by
  simp only [allocate, Except.ok.injEq]; exact eq_comm
theorem tickLbl_ok (s : St) (r : Nat × St) : tickLbl s = .ok r ↔ r = (s.lbc + 1, s.tickedLbl 1) := by
  simp only [tickLbl, Except.ok.injEq]; exact eq_comm
theorem getSt_ok (s : St) (r : St × St) : getSt s = .ok r ↔ r = (s, s) := by
  simp only [getSt, Except.ok.injEq]; exact eq_comm
theorem pushLoop_ok (l : Nat × Nat) (s : St) (r : Unit × St) : pushLoop l s = .ok r ↔ r = ((), s.pushLoop l) := by
  simp only [pushLoop, Except.ok.injEq]; exact eq_comm
theorem popLoop_ok (s : St) (r : Unit × St) : popLoop s = .ok r ↔ r = ((), s.popLoop) := by
  simp only [popLoop, Except.ok.injEq]; exact eq_comm
theorem pushCase_ok (l : Nat) (s : St) (r : Unit × St) : pushCase l s = .ok r ↔ r = ((), s.pushCase l) := by
  simp only [pushCase, Except.ok.injEq]; exact eq_comm
theorem popCase_ok (s : St) (r : Unit × St) : popCase s = .ok r ↔ r = ((), s.popCase) := by
  simp only [popCase, Except.ok.injEq]; exact eq_comm

@[simp] theorem opc_tickedOp (s : St) (n : Nat) : (s.tickedOp n).opc = s.opc + n := rfl
@[simp] theorem opc_tickedLbl (s : St) (n : Nat) : (s.tickedLbl n).opc = s.opc := rfl
@[simp] theorem opc_withNamed (s : St) (n : String) (i : Nat) : (s.withNamed n i).opc = s.opc := rfl
@[simp] theorem opc_pushLoop (s : St) (l : Nat × Nat) : (s.pushLoop l).opc = s.opc := rfl
@[simp] theorem opc_popLoop (s : St) : (s.popLoop).opc = s.opc := rfl
@[simp] theorem opc_pushCase (s : St) (l : Nat) : (s.pushCase l).opc = s.opc := rfl
@[simp] theorem opc_popCase (s : St) : (s.popCase).opc = s.opc := rfl

theorem userLabel_spec (n : String) (s : St) (i : Nat) (s' : St) (h : userLabel n s = .ok (i, s')) : s'.opc = s.opc := by
  unfold userLabel at h
  split at h <;> simp only [Except.ok.injEq, Prod.mk.injEq] at h <;> obtain ⟨_, rfl⟩ := h <;> simp

/-! ### fresh numbers -/

/-- every number occurs at most once and lies in `(lo, hi]` -/
def Good (lo hi : Nat) (l : List Nat) : Prop := ∀ n, l.count n ≤ 1 ∧ (0 < l.count n → lo < n ∧ n ≤ hi)

theorem Good.nil (lo hi : Nat) : Good lo hi [] := fun n => by simp

theorem Good.single {lo hi a : Nat} (h1 : lo < a) (h2 : a ≤ hi) : Good lo hi [a] := by
  intro n
  by_cases h : a = n
  · subst h; simp [h1, h2]
  · have : (a == n) = false := by simpa using h
    simp [List.count_cons, this]

theorem Good.append {a b c : Nat} {x y : List Nat} (h1 : Good a b x) (h2 : Good b c y) (hab : a ≤ b) (hbc : b ≤ c) :
    Good a c (x ++ y) := by
  intro n
  have := h1 n
  have := h2 n
  simp only [List.count_append]
  omega

theorem Good.mono {a b a' b' : Nat} {x : List Nat} (h : Good a b x) (h1 : a' ≤ a) (h2 : b ≤ b') : Good a' b' x := by
  intro n
  have := h n
  omega

/-- anything that uses each number at most as often as a good list does is good (rearranging, dropping) -/
theorem Good.of_count_le {lo hi : Nat} {x y : List Nat} (h : Good lo hi x) (hc : ∀ n, y.count n ≤ x.count n) : Good lo hi y := by
  intro n
  have := h n
  have := hc n
  omega

theorem Good.nodup {lo hi : Nat} : ∀ {l : List Nat}, Good lo hi l → l.Nodup := by
  intro l
  induction l with
  | nil => intro _; exact List.nodup_nil
  | cons a r ih =>
    intro h
    have ha := (h a).1
    simp only [List.count_cons_self] at ha
    have hnot : a ∉ r := by
      intro hm
      have := List.count_pos_iff.mpr hm
      omega
    refine List.nodup_cons.mpr ⟨hnot, ih (fun n => ?_)⟩
    have := h n
    simp only [List.count_cons] at this
    constructor <;> omega

/-! ### numbers of blueprints -/

def nums (bps : List BP) : List Nat := bps.filterMap (·.number)
def AllNum (bps : List BP) : Prop := ∀ b ∈ bps, b.number.isSome = true

@[simp] theorem nums_nil : nums [] = [] := rfl
theorem nums_cons (b : BP) (r : List BP) : nums (b :: r) = (match b.number with | none => nums r | some n => n :: nums r) := by
  unfold nums; rw [List.filterMap_cons]; cases b.number <;> rfl

theorem return_not_jump : isJumpName Gen.op_return = false := by decide
theorem end_not_jump : isJumpName Gen.op_end = false := by decide
theorem hold_not_jump : isJumpName Gen.op_hold = false := by decide

/-! ### small steps -/

theorem genOp_spec {name : String} {ps : List Param} {s : St} {o : Op} {s' : St} (h : genOp name ps s = .ok (o, s')) :
    o = ⟨s.opc + 1, name, ps⟩ ∧ s' = s.tickedOp 1 := by
  simp only [genOp, bind_ok, tickOp_ok, pure_ok] at h
  obtain ⟨a, s1, h1, h2⟩ := h
  simp only [Prod.mk.injEq] at h1 h2
  obtain ⟨rfl, rfl⟩ := h1
  exact ⟨h2.1, h2.2⟩

theorem genJump_spec {l : Option Nat} {s : St} {j : LItem} {s' : St} (h : genJump l s = .ok (j, s')) :
    j = .ljump ⟨s.opc + 1, Gen.op_jump, []⟩ l ∧ s' = s.tickedOp 1 := by
  simp only [genJump, bind_ok, pure_ok] at h
  obtain ⟨a, s1, h1, h2⟩ := h
  obtain ⟨rfl, rfl⟩ := genOp_spec h1
  simp only [Prod.mk.injEq] at h2
  exact ⟨h2.1, h2.2⟩

theorem buildFor_num {b : BP} {n : Nat} (hn : b.number = some n) {lbl : Nat} {s : St} {j : LItem} {s' : St}
    (h : buildFor b lbl s = .ok (j, s')) : j = .ljump ⟨n, b.name, b.params⟩ (some lbl) ∧ s' = s := by
  unfold buildFor at h
  rw [hn] at h
  simp only [pure_ok, Prod.mk.injEq] at h
  exact h

theorem buildFor_none {b : BP} (hn : b.number = none) {lbl : Nat} {s : St} {j : LItem} {s' : St}
    (h : buildFor b lbl s = .ok (j, s')) : j = .ljump ⟨s.opc + 1, b.name, b.params⟩ (some lbl) ∧ s' = s.tickedOp 1 := by
  unfold buildFor at h
  rw [hn] at h
  simp only [bind_ok, tickOp_ok, pure_ok] at h
  obtain ⟨a, s1, h1, h2⟩ := h
  simp only [Prod.mk.injEq] at h1 h2
  obtain ⟨rfl, rfl⟩ := h1
  exact h2

/-- building a pre-numbered blueprint takes no number -/
theorem buildFor_allnum {b : BP} (hn : b.number.isSome = true) {lbl : Nat} {s : St} {j : LItem} {s' : St}
    (h : buildFor b lbl s = .ok (j, s')) : offs [j] = nums [b] ∧ plainNames [j] = [] ∧ s' = s := by
  cases hb : b.number with
  | none => rw [hb] at hn; cases hn
  | some n =>
    obtain ⟨rfl, rfl⟩ := buildFor_num hb h
    simp [nums_cons, hb]

theorem buildAll_spec (lbl : Nat) : ∀ (bps : List BP), AllNum bps → ∀ (s : St) (js : List LItem) (s' : St),
    buildAll lbl bps s = .ok (js, s') → offs js = nums bps ∧ plainNames js = [] ∧ s' = s := by
  intro bps
  induction bps with
  | nil => intro _ s js s' h; simp only [buildAll, pure_ok, Prod.mk.injEq] at h; obtain ⟨rfl, rfl⟩ := h; simp
  | cons b r ih =>
    intro hall s js s' h
    simp only [buildAll, bind_ok, pure_ok] at h
    obtain ⟨j, s1, h1, js', s2, h2, h3⟩ := h
    simp only [Prod.mk.injEq] at h3
    obtain ⟨rfl, rfl⟩ := h3
    obtain ⟨a1, a2, rfl⟩ := buildFor_allnum (hall b (by simp)) h1
    obtain ⟨b1, b2, rfl⟩ := ih (fun x hx => hall x (by simp [hx])) _ _ _ h2
    refine ⟨?_, ?_, rfl⟩
    · have : offs (j :: js') = offs [j] ++ offs js' := by rw [← offs_append]; rfl
      rw [this, a1, b1]; simp [nums, List.filterMap_cons]; cases b.number <;> simp
    · have : plainNames (j :: js') = plainNames [j] ++ plainNames js' := by rw [← plainNames_append]; rfl
      rw [this, a2, b2]; rfl

theorem buildEach_spec (sl el : Nat) : ∀ (bps : List BP), AllNum bps → ∀ (s : St) (js : List LItem) (s' : St),
    buildEach sl el bps s = .ok (js, s') → offs js = nums bps ∧ plainNames js = [] ∧ s' = s := by
  intro bps
  induction bps with
  | nil => intro _ s js s' h; simp only [buildEach, pure_ok, Prod.mk.injEq] at h; obtain ⟨rfl, rfl⟩ := h; simp
  | cons b r ih =>
    intro hall s js s' h
    simp only [buildEach, bind_ok, pure_ok] at h
    obtain ⟨j, s1, h1, js', s2, h2, h3⟩ := h
    simp only [Prod.mk.injEq] at h3
    obtain ⟨rfl, rfl⟩ := h3
    obtain ⟨a1, a2, rfl⟩ := buildFor_allnum (hall b (by simp)) h1
    obtain ⟨b1, b2, rfl⟩ := ih (fun x hx => hall x (by simp [hx])) _ _ _ h2
    refine ⟨?_, ?_, rfl⟩
    · have : offs (j :: js') = offs [j] ++ offs js' := by rw [← offs_append]; rfl
      rw [this, a1, b1]; simp [nums, List.filterMap_cons]; cases b.number <;> simp
    · have : plainNames (j :: js') = plainNames [j] ++ plainNames js' := by rw [← plainNames_append]; rfl
      rw [this, a2, b2]; rfl

theorem collectHdr_spec {h : Hdr} {pos : Bool} {s : St} {b : BP} {s' : St} (hh : collectHdr h pos s = .ok (b, s')) :
    s.opc ≤ s'.opc := by
  unfold collectHdr at hh
  split at hh
  · simp only [bind_ok, tickOp_ok] at hh
    obtain ⟨a, s1, h1, h2⟩ := hh
    simp only [Prod.mk.injEq] at h1
    obtain ⟨rfl, rfl⟩ := h1
    split at h2
    · simp only [pure_ok, Prod.mk.injEq] at h2; obtain ⟨_, rfl⟩ := h2; simp
    · simp [fail_ok] at h2
  · simp only [pure_ok, Prod.mk.injEq] at hh; obtain ⟨_, rfl⟩ := hh; exact Nat.le_refl _

theorem nums_withNumber_cons (b : BP) (n : Nat) (r : List BP) : nums (b.withNumber n :: r) = n :: nums r := by
  simp [nums, BP.withNumber]

theorem collectIfHdrs_spec (pos : Bool) : ∀ (hs : List Hdr) (s : St) (bps : List BP) (s' : St),
    collectIfHdrs pos hs s = .ok (bps, s') → s.opc ≤ s'.opc ∧ AllNum bps ∧ Good s.opc s'.opc (nums bps) := by
  intro hs
  induction hs with
  | nil =>
    intro s bps s' h
    simp only [collectIfHdrs, pure_ok, Prod.mk.injEq] at h
    obtain ⟨rfl, rfl⟩ := h
    exact ⟨Nat.le_refl _, fun _ hb => by simp at hb, Good.nil _ _⟩
  | cons hd r ih =>
    intro s bps s' h
    simp only [collectIfHdrs, bind_ok, allocate_ok, pure_ok] at h
    obtain ⟨b, s1, h1, n, s2, h2, bs, s3, h3, h4⟩ := h
    simp only [Prod.mk.injEq] at h2 h4
    obtain ⟨rfl, rfl⟩ := h2
    obtain ⟨rfl, rfl⟩ := h4
    have m1 := collectHdr_spec h1
    obtain ⟨m2, an, g⟩ := ih _ _ _ h3
    simp only [opc_tickedOp] at m2 g
    refine ⟨by omega, ?_, ?_⟩
    · intro x hx
      simp only [List.mem_cons] at hx
      rcases hx with rfl | hx
      · simp [BP.withNumber]
      · exact an x hx
    · rw [nums_withNumber_cons]
      have g1 : Good s.opc (s1.opc + 1) [s1.opc + 1] := Good.single (by omega) (Nat.le_refl _)
      exact (g1.append g (by omega) (by omega))

theorem collectHdrs_spec (pos : Bool) : ∀ (hs : List Hdr) (s : St) (bps : List BP) (s' : St),
    collectHdrs pos hs s = .ok (bps, s') → s.opc ≤ s'.opc := by
  intro hs
  induction hs with
  | nil => intro s bps s' h; simp only [collectHdrs, pure_ok, Prod.mk.injEq] at h; obtain ⟨_, rfl⟩ := h; exact Nat.le_refl _
  | cons hd r ih =>
    intro s bps s' h
    simp only [collectHdrs, bind_ok, pure_ok] at h
    obtain ⟨b, s1, h1, bs, s2, h2, h3⟩ := h
    simp only [Prod.mk.injEq] at h3
    obtain ⟨_, rfl⟩ := h3
    have := collectHdr_spec h1
    have := ih _ _ _ h2
    omega

theorem allocateAll_spec : ∀ (bs : List BP) (s : St) (bps : List BP) (s' : St),
    allocateAll bs s = .ok (bps, s') → s.opc ≤ s'.opc ∧ AllNum bps ∧ Good s.opc s'.opc (nums bps) := by
  intro bs
  induction bs with
  | nil =>
    intro s bps s' h
    simp only [allocateAll, pure_ok, Prod.mk.injEq] at h
    obtain ⟨rfl, rfl⟩ := h
    exact ⟨Nat.le_refl _, fun _ hb => by simp at hb, Good.nil _ _⟩
  | cons hd r ih =>
    intro s bps s' h
    simp only [allocateAll, bind_ok, allocate_ok, pure_ok] at h
    obtain ⟨n, s2, h2, bs, s3, h3, h4⟩ := h
    simp only [Prod.mk.injEq] at h2 h4
    obtain ⟨rfl, rfl⟩ := h2
    obtain ⟨rfl, rfl⟩ := h4
    obtain ⟨m2, an, g⟩ := ih _ _ _ h3
    simp only [opc_tickedOp] at m2 g
    refine ⟨by omega, ?_, ?_⟩
    · intro x hx
      simp only [List.mem_cons] at hx
      rcases hx with rfl | hx
      · simp [BP.withNumber]
      · exact an x hx
    · rw [nums_withNumber_cons]
      have g1 : Good s.opc (s.opc + 1) [s.opc + 1] := Good.single (by omega) (Nat.le_refl _)
      exact (g1.append g (by omega) (by omega))

/-! ### _process_block -/

theorem Good.snoc {lo a : Nat} {x : List Nat} (h : Good lo a x) (hle : lo ≤ a) : Good lo (a + 1) (x ++ [a + 1]) :=
  h.append (Good.single (Nat.lt_succ_self a) (Nat.le_refl _)) hle (Nat.le_succ a)

theorem processBlock_spec {hjbs : List BP} {cf ins : Bool} {ops : List LItem} {s : St} {blk : Blk} {s' : St}
    (hall : AllNum hjbs) (h : processBlock hjbs cf ins ops s = .ok (blk, s')) :
    s.opc ≤ s'.opc ∧ offs blk.hdrs = nums hjbs ∧ plainNames blk.hdrs = [] ∧
    (∀ lo, lo ≤ s.opc → Good lo s.opc (offs ops) → Good lo s'.opc (offs blk.items)) ∧
    (∀ n ∈ plainNames blk.items, n ∈ plainNames ops) := by
  simp only [processBlock, bind_ok, tickLbl_ok] at h
  obtain ⟨endL, s1, h1, h2⟩ := h
  simp only [Prod.mk.injEq] at h1
  obtain ⟨rfl, rfl⟩ := h1
  generalize shortcutOf hjbs cf ops = sc at h2
  match sc with
  | some none => simp [processBlockAt, fail_ok] at h2
  | some (some l) =>
    simp only [processBlockAt, bind_ok, pure_ok] at h2
    obtain ⟨hs, s2, h3, h4⟩ := h2
    simp only [Prod.mk.injEq] at h4
    obtain ⟨rfl, rfl⟩ := h4
    obtain ⟨a1, a2, rfl⟩ := buildAll_spec _ _ hall _ _ _ h3
    refine ⟨Nat.le_refl _, a1, a2, fun lo _ _ => ?_, fun n hn => ?_⟩
    · simpa using Good.nil lo _
    · simp at hn
  | none =>
    simp only [processBlockAt, bind_ok, pure_ok, tickLbl_ok] at h2
    obtain ⟨ops', s2, h3, startL, s3, h4, hs, s4, h5, h6⟩ := h2
    simp only [Prod.mk.injEq] at h4 h6
    obtain ⟨rfl, rfl⟩ := h4
    obtain ⟨rfl, rfl⟩ := h6
    obtain ⟨a1, a2, rfl⟩ := buildEach_spec _ _ _ hall _ _ _ h5
    unfold withEndJump at h3
    by_cases hc : (ins && needsEndJump ops) = true
    · rw [if_pos hc] at h3
      simp only [bind_ok, pure_ok] at h3
      obtain ⟨j, s5, h7, h8⟩ := h3
      simp only [Prod.mk.injEq] at h8
      obtain ⟨rfl, rfl⟩ := h8
      obtain ⟨rfl, rfl⟩ := genJump_spec h7
      refine ⟨by simp, a1, a2, fun lo hlo g => ?_, fun n hn => ?_⟩
      · simpa using g.snoc hlo
      · simpa using hn
    · rw [if_neg hc] at h3
      simp only [pure_ok, Prod.mk.injEq] at h3
      obtain ⟨rfl, rfl⟩ := h3
      refine ⟨by simp, a1, a2, fun lo _ g => ?_, fun n hn => ?_⟩
      · simpa using g
      · simpa using hn

theorem offs_patchNone (e : Nat) (l : List LItem) : offs (patchNone e l) = offs l := by
  induction l with
  | nil => rfl
  | cons x r ih =>
    have hr : offs (patchNone e r) = offs r := ih
    cases x with
    | op o => simp only [patchNone, List.map_cons, patchItem, offs_cons_op] at hr ⊢; rw [hr]
    | label i nm => simp only [patchNone, List.map_cons, patchItem, offs_cons_label] at hr ⊢; rw [hr]
    | ljump root l =>
      cases l with
      | some t => simp only [patchNone, List.map_cons, patchItem, offs_cons_ljump] at hr ⊢; rw [hr]
      | none =>
        simp only [patchNone, List.map_cons, patchItem] at hr ⊢
        split <;> simp only [offs_cons_ljump] <;> rw [hr]

theorem plainNames_patchNone (e : Nat) (l : List LItem) : plainNames (patchNone e l) = plainNames l := by
  induction l with
  | nil => rfl
  | cons x r ih =>
    have hr : plainNames (patchNone e r) = plainNames r := ih
    cases x with
    | op o => simp only [patchNone, List.map_cons, patchItem, plainNames_cons_op] at hr ⊢; rw [hr]
    | label i nm => simp only [patchNone, List.map_cons, patchItem, plainNames_cons_label] at hr ⊢; rw [hr]
    | ljump root l =>
      cases l with
      | some t => simp only [patchNone, List.map_cons, patchItem, plainNames_cons_ljump] at hr ⊢; rw [hr]
      | none =>
        simp only [patchNone, List.map_cons, patchItem] at hr ⊢
        split <;> simp only [plainNames_cons_ljump] <;> rw [hr]

/-! ### macro expansion -/

theorem buildOp_spec {d : List (String × Param)} {o : Op} {s : St} {o' : Op} {s' : St} (h : buildOp d o s = .ok (o', s')) :
    o' = ⟨s.opc + 1, o.name, o.params.map (substParam d)⟩ ∧ s' = s.tickedOp 1 := by
  simp only [buildOp, bind_ok, tickOp_ok, pure_ok] at h
  obtain ⟨a, s1, h1, h2⟩ := h
  simp only [Prod.mk.injEq] at h1 h2
  obtain ⟨rfl, rfl⟩ := h1
  exact h2

theorem freshCopy_spec {nl : List (Nat × Nat)} {id : Nat} {s : St} {r : List (Nat × Nat) × Nat} {s' : St}
    (h : freshCopy nl id s = .ok (r, s')) : s'.opc = s.opc := by
  unfold freshCopy at h
  cases hl : nl.lookup id with
  | some i => rw [hl] at h; simp only [pure_ok, Prod.mk.injEq] at h; obtain ⟨_, rfl⟩ := h; rfl
  | none =>
    rw [hl] at h
    simp only [bind_ok, tickLbl_ok, pure_ok] at h
    obtain ⟨a, s1, h1, h2⟩ := h
    simp only [Prod.mk.injEq] at h1 h2
    obtain ⟨_, rfl⟩ := h1
    obtain ⟨_, rfl⟩ := h2
    rfl

/-- every op of an expansion gets a number of its own, whatever the blueprint carried -/
theorem buildItems_spec (d : List (String × Param)) (endL : Nat) : ∀ (bp : List LItem) (nl : List (Nat × Nat)) (s : St)
    (out : List LItem) (s' : St), buildItems d endL bp nl s = .ok (out, s') →
    s.opc ≤ s'.opc ∧ Good s.opc s'.opc (offs out) ∧ ∀ n ∈ plainNames out, n ∈ plainNames bp := by
  intro bp
  induction bp with
  | nil =>
    intro nl s out s' h
    simp only [buildItems, pure_ok, Prod.mk.injEq] at h
    obtain ⟨rfl, rfl⟩ := h
    exact ⟨Nat.le_refl _, Good.nil _ _, fun n hn => by simp at hn⟩
  | cons x r ih =>
    intro nl s out s' h
    cases x with
    | label id nm =>
      simp only [buildItems, bind_ok, pure_ok] at h
      obtain ⟨p, s1, h1, rest, s2, h2, h3⟩ := h
      simp only [Prod.mk.injEq] at h3
      obtain ⟨rfl, rfl⟩ := h3
      have e1 := freshCopy_spec h1
      obtain ⟨m, g, nm'⟩ := ih _ _ _ _ h2
      rw [e1] at m g
      exact ⟨m, by simpa using g, fun n hn => by simpa using nm' n (by simpa using hn)⟩
    | ljump root l =>
      cases l with
      | none => simp [buildItems, fail_ok] at h
      | some l =>
        simp only [buildItems, bind_ok, pure_ok] at h
        obtain ⟨p, s1, h1, root', s2, h2, rest, s3, h3, h4⟩ := h
        simp only [Prod.mk.injEq] at h4
        obtain ⟨rfl, rfl⟩ := h4
        have e1 := freshCopy_spec h1
        obtain ⟨rfl, rfl⟩ := buildOp_spec h2
        obtain ⟨m, g, nm'⟩ := ih _ _ _ _ h3
        simp only [opc_tickedOp] at m g
        rw [e1] at m g
        refine ⟨by omega, ?_, fun n hn => by simpa using nm' n (by simpa using hn)⟩
        simp only [offs_cons_ljump, e1]
        have g1 : Good s.opc (s.opc + 1) [s.opc + 1] := Good.single (by omega) (Nat.le_refl _)
        exact g1.append g (by omega) m
    | op o =>
      simp only [buildItems] at h
      split at h
      · simp only [bind_ok, pure_ok] at h
        obtain ⟨root', s2, h2, rest, s3, h3, h4⟩ := h
        simp only [Prod.mk.injEq] at h4
        obtain ⟨rfl, rfl⟩ := h4
        obtain ⟨rfl, rfl⟩ := buildOp_spec h2
        obtain ⟨m, g, nm'⟩ := ih _ _ _ _ h3
        simp only [opc_tickedOp] at m g
        refine ⟨by omega, ?_, fun n hn => ?_⟩
        · simp only [offs_cons_ljump]
          have g1 : Good s.opc (s.opc + 1) [s.opc + 1] := Good.single (by omega) (Nat.le_refl _)
          exact g1.append g (by omega) m
        · simp only [plainNames_cons_ljump] at hn
          simp only [plainNames_cons_op, List.mem_cons]
          exact .inr (nm' n hn)
      · simp only [bind_ok, pure_ok] at h
        obtain ⟨o', s2, h2, rest, s3, h3, h4⟩ := h
        simp only [Prod.mk.injEq] at h4
        obtain ⟨rfl, rfl⟩ := h4
        obtain ⟨rfl, rfl⟩ := buildOp_spec h2
        obtain ⟨m, g, nm'⟩ := ih _ _ _ _ h3
        simp only [opc_tickedOp] at m g
        refine ⟨by omega, ?_, fun n hn => ?_⟩
        · simp only [offs_cons_op]
          have g1 : Good s.opc (s.opc + 1) [s.opc + 1] := Good.single (by omega) (Nat.le_refl _)
          exact g1.append g (by omega) m
        · simp only [plainNames_cons_op, List.mem_cons] at hn ⊢
          rcases hn with hn | hn
          · exact .inl hn
          · exact .inr (nm' n hn)

theorem buildMacro_spec {m : MacroBP} {args : List Param} {s : St} {out : List LItem} {s' : St}
    (h : buildMacro m args s = .ok (out, s')) :
    s.opc ≤ s'.opc ∧ Good s.opc s'.opc (offs out) ∧ ∀ n ∈ plainNames out, n ∈ plainNames m.bp := by
  simp only [buildMacro] at h
  split at h
  · simp only [bind_ok, tickLbl_ok, pure_ok] at h
    obtain ⟨a, s1, h1, b, s2, h2, o, s3, h3, h4⟩ := h
    simp only [Prod.mk.injEq] at h1 h2 h4
    obtain ⟨rfl, rfl⟩ := h1
    obtain ⟨rfl, rfl⟩ := h2
    obtain ⟨rfl, rfl⟩ := h4
    obtain ⟨mm, g, nm⟩ := buildItems_spec _ _ _ _ _ _ _ h3
    simp only [opc_tickedLbl] at mm g
    exact ⟨mm, by simpa using g, fun n hn => nm n (by simpa using hn)⟩
  · simp [fail_ok] at h

end ESV.Comp
