import ESV.Comp.FrontW12
/-
`frontend_wfl`, part 13: macro blueprints, routine tables, the front end.
-/
namespace ESV.Comp
open ESV ESV.Beh

theorem filterMap_nodup_of_inj' {α : Type} [DecidableEq α] {f : α → Option Nat}
    (hf : ∀ k1 k2 v, f k1 = some v → f k2 = some v → k1 = k2) : ∀ {l : List α}, l.Nodup → (l.filterMap f).Nodup := by
  intro l
  induction l with
  | nil => intro _; simp
  | cons a r ih =>
    intro h
    rw [List.nodup_cons] at h
    simp only [List.filterMap_cons]
    cases hfa : f a with
    | none => exact ih h.2
    | some v =>
      simp only [List.nodup_cons]
      refine ⟨fun hm => ?_, ih h.2⟩
      obtain ⟨k, hk, hv⟩ := List.mem_filterMap.mp hm
      have := hf a k v hfa hv
      subst this
      exact h.1 hk

theorem lookup_namedIds (s : St) (n : String) (i : Nat) (h : s.named.lookup n = some i) : i ∈ namedIds s :=
  List.mem_map.mpr ⟨(n, i), lookup_mem _ _ _ h, rfl⟩

/-- label definitions of a collected body are pairwise distinct if its user labels have pairwise distinct names -/
theorem BodyW.labels {s s' : St} {defs : List String} {items : List LItem} (h : BodyW s s' defs items) (hd : defs.Nodup) :
    (labelIds items).Nodup := by
  have hu : ∀ i, (usrIds items).count i ≤ 1 := fun i =>
    Nat.le_trans (h.usr i) (count_le_one_of_nodup (filterMap_nodup_of_inj' h.ginv.inj hd) i)
  refine labelIds_nodup items (nodup_of_count_le_one h.intN) (nodup_of_count_le_one hu) (fun x hx hm => ?_)
  have hp := List.count_pos_iff.mpr hm
  have := h.usr x
  have hm2 : x ∈ defs.filterMap fun n => s'.named.lookup n := List.count_pos_iff.mp (by omega)
  obtain ⟨n, _, hn⟩ := List.mem_filterMap.mp hm2
  exact (h.intR x hx).2.2 (lookup_namedIds s' n x hn)

theorem BodyW.bpW {s s' : St} {defs : List String} {items : List LItem} (h : BodyW s s' defs items) (hd : defs.Nodup) : BpW items :=
  ⟨h.labels hd, h.root, h.ctx⟩

/-- the guard on a macro / routine body -/
def BodyOK (b : Stmts) : Prop := wStmts b = true

theorem compileMacros_w : ∀ (l : List (Nat × Macro)) (ms : Macros) (s : St) (ms' : Macros) (s' : St),
    MsW ms → GInv s → (∀ x ∈ l, wStmts x.2.body = true ∧ (dfStmts x.2.body).Nodup) → compileMacros l ms s = .ok (ms', s') → MsW ms' := by
  intro l
  induction l with
  | nil =>
    intro ms s ms' s' hms _ _ h
    simp only [compileMacros, pure_ok, Prod.mk.injEq] at h
    obtain ⟨rfl, rfl⟩ := h
    exact hms
  | cons p r ih =>
    intro ms s ms' s' hms hg hok h
    obtain ⟨k, m⟩ := p
    simp only [compileMacros, bind_ok] at h
    obtain ⟨bp, s1, h1, h2⟩ := h
    obtain ⟨a1, a2⟩ := hok (k, m) (by simp)
    obtain ⟨bw, _⟩ := compileBody_w hms false a1 hg h1
    refine ih _ _ _ _ ?_ bw.ginv (fun x hx => hok x (by simp [hx])) h2
    intro q hq
    simp only [List.mem_cons] at hq
    rcases hq with rfl | hq
    · exact bw.bpW a2
    · exact hms q hq

/-! ### routine tables -/

theorem count_set_filterMap (g : LItem → Option Nat) (v : List LItem) (n : Nat) : ∀ (l : List (List LItem)) (i : Nat),
    ((l.set i v).flatten.filterMap g).count n ≤ (l.flatten.filterMap g).count n + (v.filterMap g).count n := by
  intro l
  induction l with
  | nil => intro i; simp
  | cons a r ih =>
    intro i
    cases i with
    | zero => simp only [List.set_cons_zero, List.flatten_cons, List.filterMap_append, List.count_append]; omega
    | succ j =>
      have := ih j
      simp only [List.set_cons_succ, List.flatten_cons, List.filterMap_append, List.count_append]
      omega

theorem mem_set_flatten (v : List LItem) (x : LItem) : ∀ (l : List (List LItem)) (i : Nat),
    x ∈ (l.set i v).flatten → x ∈ l.flatten ∨ x ∈ v := by
  intro l
  induction l with
  | nil => intro i h; simp at h
  | cons a r ih =>
    intro i h
    cases i with
    | zero =>
      simp only [List.set_cons_zero, List.flatten_cons, List.mem_append] at h ⊢
      rcases h with h | h
      · exact .inr h
      · exact .inl (.inr h)
    | succ j =>
      simp only [List.set_cons_succ, List.flatten_cons, List.mem_append] at h ⊢
      rcases h with h | h
      · exact .inl (.inl h)
      · rcases ih j h with h | h
        · exact .inl (.inr h)
        · exact .inr h

/-- the routines collected so far -/
structure RInv (s : St) (t : Tables) (defs : List String) : Prop where
  ginv : GInv s
  intN : ∀ n, (intIds t.ops.flatten).count n ≤ 1
  intR : ∀ x ∈ intIds t.ops.flatten, x ≤ s.lbc ∧ x ∉ namedIds s
  usr : ∀ i, (usrIds t.ops.flatten).count i ≤ (defs.filterMap fun n => s.named.lookup n).count i
  root : ∀ x ∈ t.ops.flatten, rootOK x = true
  ctx : ∀ its ∈ t.ops, ctxOKs its = true
  cond : ∀ its ∈ t.ops, condOK its = true

theorem RInv.enlarge {s : St} {t : Tables} {defs : List String} (h : RInv s t defs) (id : Nat) : RInv s (t.enlarge id) defs := by
  have e : (t.enlarge id).ops.flatten = t.ops.flatten := by
    simp [Tables.enlarge, List.flatten_append, List.flatten_replicate_nil]
  refine ⟨h.ginv, by rw [e]; exact h.intN, by rw [e]; exact h.intR, by rw [e]; exact h.usr, by rw [e]; exact h.root, ?_, ?_⟩
  · intro its hits
    simp only [Tables.enlarge, List.mem_append, List.mem_replicate] at hits
    rcases hits with hits | ⟨_, rfl⟩
    · exact h.ctx its hits
    · rfl
  · intro its hits
    simp only [Tables.enlarge, List.mem_append, List.mem_replicate] at hits
    rcases hits with hits | ⟨_, rfl⟩
    · exact h.cond its hits
    · rfl

theorem RInv.put {s s' : St} {t : Tables} {defs d : List String} (h : RInv s t defs) (id : Nat) (info : String) (coro : Option String)
    {ops : List LItem} (bw : BodyW s s' d ops) (hc : condOK ops = true) : RInv s' (t.put id info coro ops) (defs ++ d) := by
  have eo : (t.put id info coro ops).ops = t.ops.set id ops := by cases coro <;> rfl
  refine ⟨bw.ginv, fun n => ?_, fun x hx => ?_, fun i => ?_, fun x hx => ?_, fun its hits => ?_, fun its hits => ?_⟩
  · rw [eo]
    have a := count_set_filterMap LItem.intId ops n t.ops id
    have b := h.intN n
    have c' := bw.intN n
    show (intIds _).count n ≤ 1
    simp only [intIds] at b c' ⊢
    rcases Nat.eq_zero_or_pos ((List.filterMap LItem.intId t.ops.flatten).count n) with h0 | h0
    · omega
    · rcases Nat.eq_zero_or_pos ((List.filterMap LItem.intId ops).count n) with h1 | h1
      · omega
      · exfalso
        have x1 := (h.intR n (List.count_pos_iff.mp h0)).1
        have x2 := (bw.intR n (List.count_pos_iff.mp h1)).1
        omega
  · rw [eo] at hx
    have hx' : 0 < (intIds (t.ops.set id ops).flatten).count x := List.count_pos_iff.mpr hx
    have a := count_set_filterMap LItem.intId ops x t.ops id
    simp only [intIds] at hx'
    rcases Nat.eq_zero_or_pos ((List.filterMap LItem.intId t.ops.flatten).count x) with h0 | h0
    · have : x ∈ intIds ops := List.count_pos_iff.mp (by simp only [intIds]; omega)
      have := bw.intR x this
      exact ⟨this.2.1, this.2.2⟩
    · have hm : x ∈ intIds t.ops.flatten := List.count_pos_iff.mp h0
      obtain ⟨y1, y2⟩ := h.intR x hm
      exact ⟨Nat.le_trans y1 bw.ext.lbc, fresh_ext bw.ext x y2 y1⟩
  · rw [eo]
    have a := count_set_filterMap LItem.usrId ops i t.ops id
    have b := h.usr i
    have c' := bw.usr i
    have m := count_filterMap_mono (f := fun n => s.named.lookup n) (g := fun n => s'.named.lookup n)
      (fun n j hj => bw.ext.keep n j hj) i defs
    simp only [usrIds] at b c' ⊢
    simp only [List.filterMap_append, List.count_append]
    omega
  · rw [eo] at hx
    rcases mem_set_flatten ops x t.ops id hx with h1 | h1
    · exact h.root x h1
    · exact bw.root x h1
  · rw [eo] at hits
    rcases List.mem_or_eq_of_mem_set hits with h1 | rfl
    · exact h.ctx its h1
    · exact bw.ctx.1
  · rw [eo] at hits
    rcases List.mem_or_eq_of_mem_set hits with h1 | rfl
    · exact h.cond its h1
    · exact hc

theorem compileRoutines_w {ms : Macros} (hms : MsW ms) : ∀ (rs : List Routine) (active : Nat) (t : Tables) (s : St) (defs : List String)
    (t' : Tables) (s' : St), (∀ r ∈ rs, wStmts r.body = true) → RInv s t defs → compileRoutines ms rs active t s = .ok (t', s') →
    RInv s' t' (defs ++ rs.flatMap fun r => dfStmts r.body) := by
  intro rs
  induction rs with
  | nil =>
    intro active t s defs t' s' _ inv h
    simp only [compileRoutines, pure_ok, Prod.mk.injEq] at h
    obtain ⟨rfl, rfl⟩ := h
    simpa using inv
  | cons r rs ih =>
    intro active t s defs t' s' hok inv h
    simp only [compileRoutines] at h
    split at h
    · simp [fail_ok] at h
    · simp only [bind_ok] at h
      obtain ⟨ops, s1, h1, h2⟩ := h
      obtain ⟨bw, hc⟩ := compileBody_w hms true (hok r (by simp)) inv.ginv h1
      have := ih _ _ _ _ _ _ (fun x hx => hok x (by simp [hx])) ((inv.enlarge _).put _ _ _ bw (hc rfl)) h2
      simpa [List.append_assoc] using this

/-! ### the front end -/

theorem get?_isSome_any (d : List (String × Nat)) (n : String) : (Dict.get? d n).isSome = d.any fun kv => kv.1 == n := by
  induction d with
  | nil => rfl
  | cons hd tl ih =>
    obtain ⟨k, v⟩ := hd
    unfold Dict.get?
    by_cases h : k = n
    · simp [h]
    · have : (k == n) = false := by simpa using h
      simp [h, this, ih]

theorem rawOK_of_not_jumpName (n : String) (h : isJumpName n = false) : (isJump n || isTest n) = false := by
  have h1 : (ESV.Spec.opsWithJump.any fun kv => kv.1 == n) = false := by
    have := get?_isSome_any Gen.opsWithJump n
    rw [ESV.TableTie.opsWithJump_eq] at this
    rw [← this]
    exact h
  have hj : isJump n = false := by
    cases hc : isJump n with
    | false => rfl
    | true =>
      exfalso
      simp only [isJump, beq_iff_eq] at hc
      subst hc
      revert h1; decide
  simp [isTest, h1, hj]

theorem rawOK_of_noRaw (rs : List (List LItem)) (h : NoRawJumpOps rs) : rs.flatten.all rawOK = true := by
  rw [List.all_eq_true]
  intro x hx
  cases x with
  | label i b => rfl
  | ljump r t => rfl
  | op o =>
    have : o.name ∈ plainNames rs.flatten := List.mem_filterMap.mpr ⟨.op o, hx, rfl⟩
    simp [rawOK, rawOK_of_not_jumpName _ (h _ this)]

/-- **Front end.** The labelled code the front end hands to the back end is well formed (`WFL`), for every program that
satisfies the guard. -/
theorem frontend_wfl' (p : Program) (t : Tables) (hg : FrontGuard p) (h : frontend p = .ok t) : WFL t.ops := by
  obtain ⟨g1, g2, g3, g4⟩ := hg
  obtain ⟨hd, hn, _, _⟩ := frontend_spec p t g1 h
  unfold frontend at h
  cases hs : sortMacros p.macroOrder p.macros with
  | error e => rw [hs] at h; simp at h
  | ok sorted =>
    rw [hs] at h
    simp only at h
    cases hm : compileMacros sorted [] St.init with
    | error e => rw [hm] at h; simp at h
    | ok r1 =>
      obtain ⟨ms, sm⟩ := r1
      rw [hm] at h
      simp only at h
      cases hr : wrapAssert (compileRoutines ms p.routines 0 ⟨[], [], []⟩ St.init) with
      | error e => rw [hr] at h; simp at h
      | ok r2 =>
        obtain ⟨t2, s2⟩ := r2
        rw [hr] at h
        simp only [Except.ok.injEq] at h
        subst h
        have g0 : GInv St.init := ⟨fun i hi => by simp [namedIds, St.init] at hi, fun n m i hn => by simp [St.init] at hn⟩
        have hms : MsW ms := compileMacros_w _ _ _ _ _ (fun q hq => by simp at hq) g0
          (fun x hx => g2 _ (sortMacros_mem _ _ _ hs x hx)) hm
        have inv0 : RInv St.init ⟨[], [], []⟩ [] :=
          ⟨g0, fun n => by simp, fun x hx => by simp at hx, fun i => by simp, fun x hx => by simp at hx,
           fun its hits => by simp at hits, fun its hits => by simp at hits⟩
        have inv := compileRoutines_w hms _ _ _ _ _ _ _ g3 inv0 (wrapAssert_ok hr)
        simp only [List.nil_append] at inv
        have hu : ∀ i, (usrIds t2.ops.flatten).count i ≤ 1 := fun i =>
          Nat.le_trans (inv.usr i) (count_le_one_of_nodup (filterMap_nodup_of_inj' inv.ginv.inj g4) i)
        refine ⟨hd, ?_, rawOK_of_noRaw _ hn, ?_, ?_, ?_⟩
        · refine labelIds_nodup _ (nodup_of_count_le_one inv.intN) (nodup_of_count_le_one hu) (fun x hx hmm => ?_)
          have hp := List.count_pos_iff.mpr hmm
          have := inv.usr x
          have hm2 : x ∈ (p.routines.flatMap fun r => dfStmts r.body).filterMap fun n => s2.named.lookup n :=
            List.count_pos_iff.mp (by omega)
          obtain ⟨n, _, hn'⟩ := List.mem_filterMap.mp hm2
          exact (inv.intR x hx).2 (lookup_namedIds s2 n x hn')
        · rw [List.all_eq_true]; exact inv.root
        · rw [List.all_eq_true]; intro its hits; exact ctxOKs_imp its (inv.ctx its hits)
        · rw [List.all_eq_true]; exact inv.cond

end ESV.Comp
