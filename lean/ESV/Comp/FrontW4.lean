import ESV.Comp.FrontW3
/-
`frontend_wfl`, part 4: simple statements and loops.
-/
namespace ESV.Comp
open ESV ESV.Beh

theorem W.extLeft {c : LCtx} {r : List Nat} {d : List String} {s s1 s' : St} {x : List LItem} (h : W c r d s1 x s')
    (e : Ext s s1) : W c r d s x s' :=
  ⟨h.ok, e.trans h.ext, h.lab.mono e.lbc (Nat.le_refl _), h.fresh, h.usr, h.root, h.ctx⟩

/-! ### simple statements -/

theorem ctxP_op (o : Op) (h : isCtx o.name = false) : CtxP [.op o] :=
  NoCtx.ctxP (fun x hx => by simp at hx; subst hx; simpa [isCtxL] using h)

theorem opStmt_w {c : LCtx} {name : String} (ps : List Param) (hn : isCtx name = false) : WM c [] [] (opStmt name ps) := by
  intro s items s' hs h
  simp only [opStmt, bind_ok, pure_ok] at h
  obtain ⟨o, s1, h1, h2⟩ := h
  simp only [Prod.mk.injEq] at h2
  obtain ⟨rfl, rfl⟩ := h2
  obtain ⟨rfl, rfl⟩ := genOp_spec h1
  exact W.plain hs (sameL_tickedOp _ _) rfl rfl (by simp [rootOK]) (ctxP_op _ hn)

theorem ctxP_pair (cop o : Op) (h1 : isCtx o.name = false) (h2 : (o.name != Gen.op_return) = true) : CtxP [.op cop, .op o] := by
  refine ⟨?_, ?_⟩
  · simp [ctxOKs, afterCtxS, h2]
  · simp [lastNotCtx, isCtxL, h1]

theorem inlStmt_w {c : LCtx} {cname name : String} (cp : Param) (ps : List Param) (hn : isCtx name = false)
    (hr : (name != Gen.op_return) = true) : WM c [] [] (inlStmt cname cp name ps) := by
  intro s items s' hs h
  simp only [inlStmt, bind_ok, pure_ok] at h
  obtain ⟨co, s1, h1, o, s2, h2, h3⟩ := h
  simp only [Prod.mk.injEq] at h3
  obtain ⟨rfl, rfl⟩ := h3
  obtain ⟨rfl, rfl⟩ := genOp_spec h1
  obtain ⟨rfl, rfl⟩ := genOp_spec h2
  exact W.plain hs ((sameL_tickedOp _ _).trans (sameL_tickedOp _ _)) rfl rfl (by simp [rootOK]) (ctxP_pair _ _ hn hr)

/-- what the statement inside a with-block collects to: one item that may follow a context op -/
def InnerOK (m : M (List LItem)) : Prop :=
  ∀ s items s', m s = .ok (items, s') → ∀ x ∈ items, afterCtxS x = true ∧ isCtxL x = false

theorem withOf_w {c : LCtx} {r : List Nat} {d : List String} {cname : String} (cp : Param) {inner : M (List LItem)}
    (hm : WM c r d inner) (hi : InnerOK inner) : WM c r d (withOf cname cp inner) := by
  intro s items s' hs h
  simp only [withOf, bind_ok] at h
  obtain ⟨co, s1, h1, sub, s2, h2, h3⟩ := h
  obtain ⟨rfl, rfl⟩ := genOp_spec h1
  split at h3
  · rename_i hlen
    simp only [pure_ok, Prod.mk.injEq] at h3
    obtain ⟨rfl, rfl⟩ := h3
    have hs1 : StOK c (s.tickedOp 1) := (sameL_tickedOp s 1).ok hs
    have w := (hm _ _ _ hs1 h2).sameLft (sameL_tickedOp s 1)
    have hin := hi _ _ _ h2
    obtain ⟨x, rfl⟩ : ∃ x, sub = [x] := by
      cases sub with
      | nil => simp at hlen
      | cons a r =>
        cases r with
        | nil => exact ⟨a, rfl⟩
        | cons b r' => simp at hlen
    obtain ⟨a1, a2⟩ := hin x (by simp)
    refine w.rearr (fun n => by simp) (fun n => by simp) ?_ ?_
    · intro z hz
      simp only [List.mem_cons, List.not_mem_nil, or_false] at hz
      rcases hz with rfl | rfl
      · rfl
      · exact w.root _ (by simp)
    · exact ⟨by simp [ctxOKs, a1], by simp [lastNotCtx, a2]⟩
  · simp [fail_ok] at h3

theorem labelStmt_w {c : LCtx} (n : String) : WM c [] [n] (labelStmt n) := by
  intro s items s' hs h
  simp only [labelStmt, bind_ok, pure_ok] at h
  obtain ⟨i, s1, h1, h2⟩ := h
  simp only [Prod.mk.injEq] at h2
  obtain ⟨rfl, rfl⟩ := h2
  obtain ⟨ok1, e1, lk, _⟩ := userLabel_w hs h1
  refine ⟨ok1, e1, by simpa using LblOK.nil _ _ _, by simp, ?_, by simp [rootOK], (NoCtx.label _ _).ctxP⟩
  intro j
  simp only [usrIds_cons_usr, usrIds_nil, List.filterMap_cons, lk, List.filterMap_nil]
  exact Nat.le_refl _

theorem call_isTest : isTest Gen.op_call = true := by decide

theorem jumpStmt_w {c : LCtx} (n : String) : WM c [] [] (jumpStmt n) := by
  intro s items s' hs h
  simp only [jumpStmt, bind_ok, pure_ok] at h
  obtain ⟨i, s1, h1, j, s2, h2, h3⟩ := h
  simp only [Prod.mk.injEq] at h3
  obtain ⟨rfl, rfl⟩ := h3
  obtain ⟨ok1, e1, _, _⟩ := userLabel_w hs h1
  obtain ⟨e2, jo⟩ := genJump_w h2
  exact (W.jumps ok1 e2 jo).extLeft e1

theorem callStmt_w {c : LCtx} (n : String) : WM c [] [] (callStmt n) := by
  intro s items s' hs h
  simp only [callStmt, bind_ok, pure_ok] at h
  obtain ⟨i, s1, h1, o, s2, h2, h3⟩ := h
  simp only [Prod.mk.injEq] at h3
  obtain ⟨rfl, rfl⟩ := h3
  obtain ⟨ok1, e1, _, _⟩ := userLabel_w hs h1
  obtain ⟨rfl, rfl⟩ := genOp_spec h2
  exact (W.jumps ok1 (sameL_tickedOp _ _) (JumpsOK.cons (by simp [call_isTest]) JumpsOK.nil)).extLeft e1

theorem brkStmt_w {c : LCtx} : WM c [] [] brkStmt := by
  intro s items s' hs h
  simp only [brkStmt, bind_ok, getSt_ok] at h
  obtain ⟨st, s1, h1, h2⟩ := h
  simp only [Prod.mk.injEq] at h1
  obtain ⟨rfl, rfl⟩ := h1
  cases hc : s1.cases with
  | nil => rw [hc] at h2; simp [fail_ok] at h2
  | cons e r =>
    rw [hc] at h2
    simp only [bind_ok, pure_ok] at h2
    obtain ⟨j, s2, h3, h4⟩ := h2
    simp only [Prod.mk.injEq] at h4
    obtain ⟨rfl, rfl⟩ := h4
    obtain ⟨e2, jo⟩ := genJump_w h3
    exact W.jumps hs e2 jo

theorem contStmt_w {c : LCtx} : WM c [] [] contStmt := by
  intro s items s' hs h
  simp only [contStmt, bind_ok, getSt_ok] at h
  obtain ⟨st, s1, h1, h2⟩ := h
  simp only [Prod.mk.injEq] at h1
  obtain ⟨rfl, rfl⟩ := h1
  cases hc : s1.loops with
  | nil => rw [hc] at h2; simp [fail_ok] at h2
  | cons e r =>
    rw [hc] at h2
    simp only [bind_ok, pure_ok] at h2
    obtain ⟨j, s2, h3, h4⟩ := h2
    simp only [Prod.mk.injEq] at h4
    obtain ⟨rfl, rfl⟩ := h4
    obtain ⟨e2, jo⟩ := genJump_w h3
    exact W.jumps hs e2 jo

theorem brkLoopStmt_w {c : LCtx} : WM c [] [] brkLoopStmt := by
  intro s items s' hs h
  simp only [brkLoopStmt, bind_ok, getSt_ok] at h
  obtain ⟨st, s1, h1, h2⟩ := h
  simp only [Prod.mk.injEq] at h1
  obtain ⟨rfl, rfl⟩ := h1
  cases hc : s1.loops with
  | nil => rw [hc] at h2; simp [fail_ok] at h2
  | cons e r =>
    rw [hc] at h2
    simp only [bind_ok, pure_ok] at h2
    obtain ⟨j, s2, h3, h4⟩ := h2
    simp only [Prod.mk.injEq] at h4
    obtain ⟨rfl, rfl⟩ := h4
    obtain ⟨e2, jo⟩ := genJump_w h3
    exact W.jumps hs e2 jo

/-! ### loops -/

theorem W.res2 {c : LCtx} (k1 k2 : Nat) {s : St} (hs : StOK c s) (h1 : c.LB < k1 ∧ k1 ≤ c.HB) (h2 : c.LB < k2 ∧ k2 ≤ c.HB) :
    W c [k1, k2] [] s [.label k1 false, .label k2 false] s := by
  simpa using W.append (W.res1 k1 hs h1) (W.res1 k2 hs h2)

theorem foreverOf_w {c : LCtx} (lb : Nat) {rb : List Nat} {d : List String} {body : M (List LItem)} (hm : WM c rb d body)
    (h1 : c.LB < lb + 1 ∧ lb + 1 ≤ c.HB) (h2 : c.LB < lb + 2 ∧ lb + 2 ≤ c.HB) :
    WM c ([lb + 1, lb + 2] ++ rb) d (foreverOf lb body) := by
  intro s items s' hs h
  simp only [foreverOf, bind_ok, pushLoop_ok, popLoop_ok, pure_ok] at h
  obtain ⟨u1, s1, h1', b, s2, h2', j, s3, h3, u2, s4, h4, h5⟩ := h
  simp only [Prod.mk.injEq] at h1' h4 h5
  obtain ⟨_, rfl⟩ := h1'
  obtain ⟨_, rfl⟩ := h4
  obtain ⟨rfl, rfl⟩ := h5
  have e1 := sameL_pushLoop s (lb + 1, lb + 2)
  obtain ⟨wb, _⟩ := blockOf_w hm (fun x hx => by simp at hx) (e1.ok hs) h2'
  obtain ⟨e3, jo⟩ := genJump_w h3
  have w1 := W.append (W.res2 (lb + 1) (lb + 2) hs h1 h2) (wb.sameLft e1)
  have w2 := (W.then_jumps w1 e3 jo).sameR (sameL_popLoop s3)
  obtain ⟨r0, t0, rfl, hj0⟩ := jo j (by simp)
  refine w2.rearr (fun n => ?_) (fun n => ?_) ?_ ?_
  · simp only [intIds_append, intIds_cons_int, intIds_cons_ljump, intIds_nil, List.count_append, List.count_cons, List.count_nil]
    omega
  · simp
  · intro z hz
    simp only [List.mem_append, List.mem_cons, List.not_mem_nil, or_false] at hz
    rcases hz with (rfl | hz) | rfl | rfl
    · rfl
    · exact wb.root z hz
    · exact hj0
    · rfl
  · have p1 : CtxP [LItem.label (lb + 1) false] := (NoCtx.label _ _).ctxP
    have p2 : CtxP [LItem.ljump r0 t0, LItem.label (lb + 2) false] := ((NoCtx.ljump _ _).append (NoCtx.label _ _)).ctxP
    exact (p1.append wb.ctx).append p2

theorem loopBP_ok (h : Hdr) (ht : isTest h.name = true) : BPsOK [loopBP h] := fun b hb => by
  simp at hb; subst hb; simp [loopBP, ht]

theorem whileNeg_w {c : LCtx} (lb : Nat) {rb : List Nat} {d : List String} (h : Hdr) (ht : isTest h.name = true)
    {body : M (List LItem)} (hm : WM c rb d body)
    (h1 : c.LB < lb + 1 ∧ lb + 1 ≤ c.HB) (h2 : c.LB < lb + 2 ∧ lb + 2 ≤ c.HB) :
    WM c ([lb + 1, lb + 2] ++ rb) d (whileNeg lb h body) := by
  intro s items s' hs hh
  simp only [whileNeg, bind_ok, pure_ok] at hh
  obtain ⟨br, s1, h1', b, s2, h2', j, s3, h3, h5⟩ := hh
  simp only [Prod.mk.injEq] at h5
  obtain ⟨rfl, rfl⟩ := h5
  obtain ⟨e1, k, rfl⟩ := buildFor_w h1'
  obtain ⟨wb, _⟩ := blockOf_w hm (fun x hx => by simp at hx) (e1.ok hs) h2'
  obtain ⟨e3, jo⟩ := genJump_w h3
  have w1 := W.append (W.res2 (lb + 1) (lb + 2) hs h1 h2) (wb.sameLft e1)
  have w2 := W.then_jumps w1 e3 jo
  obtain ⟨r0, t0, rfl, hj0⟩ := jo j (by simp)
  refine w2.rearr (fun n => ?_) (fun n => ?_) ?_ ?_
  · simp only [intIds_append, intIds_cons_int, intIds_cons_ljump, intIds_nil, List.count_append, List.count_cons, List.count_nil]
    omega
  · simp
  · intro z hz
    simp only [List.mem_append, List.mem_cons, List.not_mem_nil, or_false] at hz
    rcases hz with ((rfl | rfl) | hz) | rfl | rfl
    · rfl
    · simp [rootOK, loopBP, ht]
    · exact wb.root z hz
    · exact hj0
    · rfl
  · have p1 : CtxP [LItem.label (lb + 1) false, LItem.ljump ⟨k, (loopBP h).name, (loopBP h).params⟩ (some (lb + 2))] :=
      ((NoCtx.label _ _).append (NoCtx.ljump _ _)).ctxP
    have p2 : CtxP [LItem.ljump r0 t0, LItem.label (lb + 2) false] := ((NoCtx.ljump _ _).append (NoCtx.label _ _)).ctxP
    exact (p1.append wb.ctx).append p2

theorem whilePos_w {c : LCtx} (lb : Nat) {rb : List Nat} {d : List String} (h : Hdr) (ht : isTest h.name = true)
    {body : M (List LItem)} (hm : WM c rb d body)
    (h1 : c.LB < lb + 1 ∧ lb + 1 ≤ c.HB) (h2 : c.LB < lb + 2 ∧ lb + 2 ≤ c.HB) :
    WM c ([lb + 1, lb + 2] ++ rb) d (whilePos lb h body) := by
  intro s items s' hs hh
  simp only [whilePos, bind_ok, pure_ok, tickLbl_ok] at hh
  obtain ⟨checkL, s1, h1', blockL, s2, h2', j, s3, h3, b, s4, h4, br, s5, h5, h6⟩ := hh
  simp only [Prod.mk.injEq] at h1' h2' h6
  obtain ⟨rfl, rfl⟩ := h1'
  obtain ⟨rfl, rfl⟩ := h2'
  obtain ⟨rfl, rfl⟩ := h6
  obtain ⟨e3, jo⟩ := genJump_w h3
  have w0 := W.res2 (lb + 1) (lb + 2) hs h1 h2
  have w1 := W.then_tick w0
  have w2 := W.then_tick w1
  have w3 := W.then_jumps w2 e3 jo
  obtain ⟨wb, _⟩ := blockOf_w hm (fun x hx => by simp at hx) w3.ok h4
  obtain ⟨e5, k, rfl⟩ := buildFor_w h5
  have w4 := (W.append w3 wb).sameR e5
  obtain ⟨r0, t0, rfl, hj0⟩ := jo j (by simp)
  refine w4.rearr (fun n => ?_) (fun n => ?_) ?_ ?_
  · simp only [intIds_append, intIds_cons_int, intIds_cons_ljump, intIds_nil, List.count_append, List.count_cons, List.count_nil,
      St.tickedLbl]
    omega
  · simp
  · intro z hz
    simp only [List.mem_append, List.mem_cons, List.not_mem_nil, or_false] at hz
    rcases hz with ((rfl | rfl | rfl) | hz) | rfl | rfl | rfl
    · rfl
    · exact hj0
    · rfl
    · exact wb.root z hz
    · rfl
    · simp [rootOK, loopBP, ht]
    · rfl
  · have p1 : CtxP [LItem.label (lb + 1) false, LItem.ljump r0 t0, LItem.label ((s.tickedLbl 1).lbc + 1) false] :=
      ((NoCtx.label _ _).append ((NoCtx.ljump _ _).append (NoCtx.label _ _))).ctxP
    have p2 : CtxP [LItem.label (s.lbc + 1) false, LItem.ljump ⟨k, (loopBP h).name, (loopBP h).params⟩ (some ((s.tickedLbl 1).lbc + 1)),
        LItem.label (lb + 2) false] :=
      ((NoCtx.label _ _).append ((NoCtx.ljump _ _).append (NoCtx.label _ _))).ctxP
    exact (p1.append wb.ctx).append p2

theorem whileOf_w {c : LCtx} (lb : Nat) {rb : List Nat} {d : List String} (neg : Bool) (h : Hdr) (ht : isTest h.name = true)
    {body : M (List LItem)} (hm : WM c rb d body)
    (h1 : c.LB < lb + 1 ∧ lb + 1 ≤ c.HB) (h2 : c.LB < lb + 2 ∧ lb + 2 ≤ c.HB) :
    WM c ([lb + 1, lb + 2] ++ rb) d (whileOf lb neg h body) := by
  intro s items s' hs hh
  have e1 := sameL_pushLoop s (lb + 1, lb + 2)
  cases neg with
  | true =>
    simp only [whileOf, bind_ok, pushLoop_ok, popLoop_ok, pure_ok, ↓reduceIte] at hh
    obtain ⟨u, s1, h1', r, s2, h2', u2, s3, h3, h4⟩ := hh
    simp only [Prod.mk.injEq] at h1' h3 h4
    obtain ⟨_, rfl⟩ := h1'
    obtain ⟨_, rfl⟩ := h3
    obtain ⟨rfl, rfl⟩ := h4
    exact ((whileNeg_w lb h ht hm h1 h2 _ _ _ (e1.ok hs) h2').sameLft e1).sameR (sameL_popLoop s2)
  | false =>
    simp only [whileOf, bind_ok, pushLoop_ok, popLoop_ok, pure_ok, Bool.false_eq_true, ↓reduceIte] at hh
    obtain ⟨u, s1, h1', r, s2, h2', u2, s3, h3, h4⟩ := hh
    simp only [Prod.mk.injEq] at h1' h3 h4
    obtain ⟨_, rfl⟩ := h1'
    obtain ⟨_, rfl⟩ := h3
    obtain ⟨rfl, rfl⟩ := h4
    exact ((whilePos_w lb h ht hm h1 h2 _ _ _ (e1.ok hs) h2').sameLft e1).sameR (sameL_popLoop s2)

/-- the five labels of a for loop, in the order start, end, block, new run, initial -/
theorem forOf_w {c : LCtx} (lb : Nat) {rb : List Nat} {di de db : List String} (h : Hdr) (ht : isTest h.name = true)
    {init inc body : M (List LItem)} (hi : WM c [] di init) (he : WM c [] de inc) (hm : WM c rb db body)
    (hk : ∀ k, 1 ≤ k → k ≤ 5 → c.LB < lb + k ∧ lb + k ≤ c.HB) :
    WM c ([lb + 1, lb + 2, lb + 3, lb + 4, lb + 5] ++ rb) (di ++ db ++ de) (forOf lb h init inc body) := by
  intro s items s' hs hh
  simp only [forOf, bind_ok, pushLoop_ok, popLoop_ok, pure_ok] at hh
  obtain ⟨u1, s1, h1, i, s2, h2, j, s3, h3, b, s4, h4, e, s5, h5, br, s6, h6, u2, s7, h7, h8⟩ := hh
  simp only [Prod.mk.injEq] at h1 h7 h8
  obtain ⟨_, rfl⟩ := h1
  obtain ⟨_, rfl⟩ := h7
  obtain ⟨rfl, rfl⟩ := h8
  have e1 := sameL_pushLoop s (lb + 4, lb + 2)
  have w0 : W c [lb + 1, lb + 2, lb + 3, lb + 4, lb + 5] [] s
      [.label (lb + 1) false, .label (lb + 2) false, .label (lb + 3) false, .label (lb + 4) false, .label (lb + 5) false] s := by
    have a := W.res2 (lb + 1) (lb + 2) hs (hk 1 (by omega) (by omega)) (hk 2 (by omega) (by omega))
    have b' := W.res2 (lb + 3) (lb + 4) hs (hk 3 (by omega) (by omega)) (hk 4 (by omega) (by omega))
    have c' := W.res1 (lb + 5) hs (hk 5 (by omega) (by omega))
    simpa using (a.append b').append c'
  have wi := (hi _ _ _ (e1.ok hs) h2).sameLft e1
  have w1 := W.append w0 wi
  obtain ⟨e3, jo⟩ := genJump_w h3
  have w2 := W.then_jumps w1 e3 jo
  obtain ⟨wb, _⟩ := blockOf_w hm (fun x hx => by simp at hx) w2.ok h4
  have w3 := W.append w2 wb
  have we := he _ _ _ w3.ok h5
  have w4 := W.append w3 we
  obtain ⟨e6, k, rfl⟩ := buildFor_w h6
  have w5 := (w4.sameR e6).sameR (sameL_popLoop s6)
  obtain ⟨r0, t0, rfl, hj0⟩ := jo j (by simp)
  have w6 := w5.allot (r' := [lb + 1, lb + 2, lb + 3, lb + 4, lb + 5] ++ rb) (d' := di ++ db ++ de)
    (fun n => by simp only [List.append_nil, List.append_assoc, List.count_append]; omega)
    (fun n => by simp only [List.nil_append, List.append_nil, List.append_assoc, List.filterMap_append, List.count_append]; omega)
  refine w6.rearr (fun n => ?_) (fun n => ?_) ?_ ?_
  · simp only [intIds_append, intIds_cons_int, intIds_cons_ljump, intIds_nil, List.count_append, List.count_cons, List.count_nil]
    omega
  · simp only [usrIds_append, usrIds_cons_int, usrIds_cons_ljump, usrIds_nil, List.count_append, List.count_nil]
    omega
  · intro z hz
    simp only [List.mem_append, List.mem_cons, List.not_mem_nil, or_false] at hz
    rcases hz with (((((rfl | hz) | rfl | rfl) | hz) | rfl) | hz) | rfl | rfl | rfl
    · rfl
    · exact wi.root z hz
    · exact hj0
    · rfl
    · exact wb.root z hz
    · rfl
    · exact we.root z hz
    · rfl
    · simp [rootOK, loopBP, ht]
    · rfl
  · have p1 : CtxP [LItem.label (lb + 1) false] := (NoCtx.label _ _).ctxP
    have p2 : CtxP [LItem.ljump r0 t0, LItem.label (lb + 3) false] := ((NoCtx.ljump _ _).append (NoCtx.label _ _)).ctxP
    have p3 : CtxP [LItem.label (lb + 4) false] := (NoCtx.label _ _).ctxP
    have p4 : CtxP [LItem.label (lb + 5) false, LItem.ljump ⟨k, (loopBP h).name, (loopBP h).params⟩ (some (lb + 3)),
        LItem.label (lb + 2) false] := ((NoCtx.label _ _).append ((NoCtx.ljump _ _).append (NoCtx.label _ _))).ctxP
    exact (((((p1.append wi.ctx).append p2).append wb.ctx).append p3).append we.ctx).append p4

/-! ### else -/

theorem elsePartOf_w {c : LCtx} {r : List Nat} {d : List String} {hasElse : Bool} {els : M (List LItem)} (hm : WM c r d els) :
    WM c (if hasElse then r else []) (if hasElse then d else []) (elsePartOf hasElse els) := by
  intro s items s' hs h
  unfold elsePartOf at h
  cases hasElse with
  | true =>
    simp only [↓reduceIte, bind_ok, pure_ok] at h
    obtain ⟨b, s1, h1, h2⟩ := h
    simp only [Prod.mk.injEq] at h2
    obtain ⟨rfl, rfl⟩ := h2
    exact (blockOf_w hm (fun x hx => by simp at hx) hs h1).1
  | false =>
    simp only [Bool.false_eq_true, ↓reduceIte, bind_ok, pure_ok] at h
    obtain ⟨j, s1, h1, h2⟩ := h
    simp only [Prod.mk.injEq] at h2
    obtain ⟨rfl, rfl⟩ := h2
    obtain ⟨e, jo⟩ := genJump_w h1
    exact W.jumps hs e jo

end ESV.Comp
