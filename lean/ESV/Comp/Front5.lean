import ESV.Comp.Front4
/-
`counter_fresh` for routine bodies, macro blueprints, the routine tables and the whole front end.
-/
namespace ESV.Comp
open ESV

theorem Spec.mono_left {lo lo' hi : Nat} {x : List LItem} (h : Spec lo hi x) (hl : lo' ≤ lo) : Spec lo' hi x :=
  ⟨Nat.le_trans hl h.mono, h.good.mono hl (Nat.le_refl _), h.names⟩

theorem visitTicks_ok (nl no : Nat) (s : St) (r : Nat × St) :
    visitTicks nl no s = .ok r ↔ r = (s.lbc, (s.tickedLbl nl).tickedOp no) := by
  simp only [visitTicks, Except.ok.injEq]; exact eq_comm

/-- visiting + `collect_ops`: the numbers taken while visiting are simply lost -/
theorem compileBody_spec {ms : Macros} (hms : MsOK ms) (terminate : Bool) {body : Stmts} (hok : okStmts body = true) :
    SpecM (compileBody ms terminate body) := by
  intro s items s' h
  unfold compileBody at h
  split at h
  · simp [fail_ok] at h
  · simp only [bind_ok, visitTicks_ok] at h
    obtain ⟨lb, s1, h1, ops, s2, h2, h3⟩ := h
    simp only [Prod.mk.injEq] at h1
    obtain ⟨rfl, rfl⟩ := h1
    have sp := (cStmts_spec ms hms body _ hok _ _ _ h2).mono_left (lo' := s.opc) (by simp)
    split at h3
    · simp only [bind_ok, pure_ok] at h3
      obtain ⟨o, s3, h4, h5⟩ := h3
      simp only [Prod.mk.injEq] at h5
      obtain ⟨rfl, rfl⟩ := h5
      obtain ⟨rfl, rfl⟩ := genOp_spec h4
      exact sp.append (Spec.opItem _ _ _ dummy_end_not_jump)
    · simp only [pure_ok, Prod.mk.injEq] at h3
      obtain ⟨rfl, rfl⟩ := h3
      exact sp

/-! ### macros -/

theorem insertByKey_mem (k : Nat) (m : Macro) : ∀ (l : List (Nat × Macro)) (x : Nat × Macro), x ∈ insertByKey k m l → x = (k, m) ∨ x ∈ l := by
  intro l
  induction l with
  | nil => intro x hx; simp only [insertByKey, List.mem_singleton] at hx; exact .inl hx
  | cons p r ih =>
    intro x hx
    obtain ⟨k', m'⟩ := p
    simp only [insertByKey] at hx
    split at hx
    · simp only [List.mem_cons] at hx ⊢
      rcases hx with hx | hx | hx
      · exact .inl hx
      · exact .inr (.inl hx)
      · exact .inr (.inr hx)
    · simp only [List.mem_cons] at hx ⊢
      rcases hx with hx | hx
      · exact .inr (.inl hx)
      · rcases ih x hx with h | h
        · exact .inl h
        · exact .inr (.inr h)

theorem sortMacros_mem (order : List String) : ∀ (l : List Macro) (out : List (Nat × Macro)), sortMacros order l = .ok out →
    ∀ x ∈ out, x.2 ∈ l := by
  intro l
  induction l with
  | nil => intro out h x hx; simp only [sortMacros, Except.ok.injEq] at h; subst h; simp at hx
  | cons m r ih =>
    intro out h x hx
    simp only [sortMacros] at h
    split at h
    · simp at h
    · split at h
      · simp at h
      · rename_i k _ l' hl'
        simp only [Except.ok.injEq] at h
        subst h
        rcases insertByKey_mem _ _ _ x hx with h | h
        · subst h; simp
        · exact List.mem_cons_of_mem _ (ih l' hl' x h)

theorem compileMacros_spec : ∀ (l : List (Nat × Macro)) (ms : Macros) (s : St) (ms' : Macros) (s' : St),
    MsOK ms → (∀ x ∈ l, okStmts x.2.body = true) → compileMacros l ms s = .ok (ms', s') → MsOK ms' := by
  intro l
  induction l with
  | nil =>
    intro ms s ms' s' hms _ h
    simp only [compileMacros, pure_ok, Prod.mk.injEq] at h
    obtain ⟨rfl, rfl⟩ := h
    exact hms
  | cons p r ih =>
    intro ms s ms' s' hms hok h
    obtain ⟨k, m⟩ := p
    simp only [compileMacros, bind_ok] at h
    obtain ⟨bp, s1, h1, h2⟩ := h
    have sp := compileBody_spec hms false (hok (k, m) (by simp)) _ _ _ h1
    refine ih _ _ _ _ ?_ (fun x hx => hok x (by simp [hx])) h2
    intro q hq n hn
    simp only [List.mem_cons] at hq
    rcases hq with rfl | hq
    · exact sp.names n hn
    · exact hms q hq n hn

/-! ### routine tables -/

theorem offs_flatten_replicate_nil (k : Nat) : offs (List.replicate k ([] : List LItem)).flatten = [] := by
  simp [List.flatten_replicate_nil]

theorem count_set_flatten (v : List LItem) (n : Nat) : ∀ (l : List (List LItem)) (i : Nat),
    (offs (l.set i v).flatten).count n ≤ (offs l.flatten).count n + (offs v).count n := by
  intro l
  induction l with
  | nil => intro i; simp
  | cons a r ih =>
    intro i
    cases i with
    | zero => simp only [List.set_cons_zero, List.flatten_cons, offs_append, List.count_append]; omega
    | succ j =>
      have := ih j
      simp only [List.set_cons_succ, List.flatten_cons, offs_append, List.count_append]
      omega

theorem names_set_flatten (v : List LItem) (n : String) : ∀ (l : List (List LItem)) (i : Nat),
    n ∈ plainNames (l.set i v).flatten → n ∈ plainNames l.flatten ∨ n ∈ plainNames v := by
  intro l
  induction l with
  | nil => intro i h; simp at h
  | cons a r ih =>
    intro i h
    cases i with
    | zero =>
      simp only [List.set_cons_zero, List.flatten_cons, plainNames_append, List.mem_append] at h ⊢
      rcases h with h | h
      · exact .inr h
      · exact .inl (.inr h)
    | succ j =>
      simp only [List.set_cons_succ, List.flatten_cons, plainNames_append, List.mem_append] at h ⊢
      rcases h with h | h
      · exact .inl (.inl h)
      · rcases ih j h with h | h
        · exact .inl (.inr h)
        · exact .inr h

/-- the three tables stay equally long, and the ops of all routines collected so far are fresh -/
structure TInv (s : St) (t : Tables) : Prop where
  li : t.infos.length = t.ops.length
  lc : t.coros.length = t.ops.length
  good : Good 0 s.opc (offs t.ops.flatten)
  names : ∀ n ∈ plainNames t.ops.flatten, isJumpName n = false

theorem TInv.enlarge {s : St} {t : Tables} (h : TInv s t) (id : Nat) : TInv s (t.enlarge id) := by
  refine ⟨?_, ?_, ?_, ?_⟩
  · simp [Tables.enlarge, h.li]
  · simp [Tables.enlarge, h.lc, h.li]
  · simpa [Tables.enlarge, List.flatten_append, List.flatten_replicate_nil] using h.good
  · simpa [Tables.enlarge, List.flatten_append, List.flatten_replicate_nil] using h.names

theorem TInv.put {s s' : St} {t : Tables} (h : TInv s t) (id : Nat) (info : String) (coro : Option String) {ops : List LItem}
    (sp : Spec s.opc s'.opc ops) : TInv s' (t.put id info coro ops) := by
  refine ⟨?_, ?_, ?_, ?_⟩
  · simp [Tables.put, h.li]
  · cases coro <;> simp [Tables.put, h.lc]
  · have g := h.good.append sp.good (Nat.zero_le _) sp.mono
    exact g.of_count_le (fun n => by
      have := count_set_flatten ops n t.ops id
      simp only [Tables.put, List.count_append]
      omega)
  · intro n hn
    rcases names_set_flatten ops n t.ops id (by simpa [Tables.put] using hn) with h' | h'
    · exact h.names n h'
    · exact sp.names n h'

theorem compileRoutines_spec {ms : Macros} (hms : MsOK ms) : ∀ (rs : List Routine) (active : Nat) (t : Tables) (s : St) (t' : Tables) (s' : St),
    (∀ r ∈ rs, okStmts r.body = true) → TInv s t → compileRoutines ms rs active t s = .ok (t', s') → TInv s' t' := by
  intro rs
  induction rs with
  | nil =>
    intro active t s t' s' _ inv h
    simp only [compileRoutines, pure_ok, Prod.mk.injEq] at h
    obtain ⟨rfl, rfl⟩ := h
    exact inv
  | cons r rs ih =>
    intro active t s t' s' hok inv h
    simp only [compileRoutines] at h
    split at h
    · simp [fail_ok] at h
    · simp only [bind_ok] at h
      obtain ⟨ops, s1, h1, h2⟩ := h
      have sp := compileBody_spec hms true (hok r (by simp)) _ _ _ h1
      exact ih _ _ _ _ _ (fun x hx => hok x (by simp [hx])) ((inv.enlarge _).put _ _ _ sp) h2

/-! ### the front end -/

theorem wrapAssert_ok {α : Type} {x : Except Err α} {a : α} (h : wrapAssert x = .ok a) : x = .ok a := by
  unfold wrapAssert at h
  split at h
  · simp at h
  · exact h

/-- **Front end** (`counter_fresh`): the labelled code handed to the back end has pairwise distinct op offsets — every
offset was handed out by the op counter exactly once, `allocate`d header numbers, visiting-time ticks, dropped numbers
and macro expansions included —, carries no plain op named like a jump-carrying op, and the three routine tables have
the same length. -/
theorem frontend_spec (p : Program) (t : Tables) (hg : NoUserJumpOps p) (h : frontend p = .ok t) :
    DistinctOffsets t.ops ∧ NoRawJumpOps t.ops ∧ t.infos.length = t.ops.length ∧ t.coros.length = t.ops.length := by
  unfold frontend at h
  cases hs : sortMacros p.macroOrder p.macros with
  | error e => rw [hs] at h; simp at h
  | ok sorted =>
    rw [hs] at h
    simp only at h
    cases hm : compileMacros sorted [] St.init with
    | error e => rw [hm] at h; simp at h
    | ok r1 =>
      obtain ⟨ms, sm⟩ := r1
      rw [hm] at h
      simp only at h
      cases hr : wrapAssert (compileRoutines ms p.routines 0 ⟨[], [], []⟩ St.init) with
      | error e => rw [hr] at h; simp at h
      | ok r2 =>
        obtain ⟨t2, s2⟩ := r2
        rw [hr] at h
        simp only [Except.ok.injEq] at h
        subst h
        have hms : MsOK ms := compileMacros_spec _ _ _ _ _ (fun q hq => by simp at hq)
          (fun x hx => hg.1 _ (sortMacros_mem _ _ _ hs x hx)) hm
        have inv0 : TInv St.init ⟨[], [], []⟩ := ⟨rfl, rfl, by simpa using Good.nil 0 _, fun n hn => by simp at hn⟩
        have inv := compileRoutines_spec hms _ _ _ _ _ _ hg.2 inv0 (wrapAssert_ok hr)
        exact ⟨inv.good.nodup, inv.names, inv.li, inv.lc⟩

end ESV.Comp
