import ESV.Comp.CgChain
/-
`codegen_correct`: from `_process_block` to the facts about a branch (`BrOK`), the else part.
-/
namespace ESV.Comp
open ESV ESV.Beh

theorem hdrsTo_congr {t1 t2 : BP → Nat} {bps : List BP} {js : List LItem} (h : HdrsTo t1 bps js) (he : ∀ b ∈ bps, t1 b = t2 b) :
    HdrsTo t2 bps js := by
  induction h with
  | nil => exact .nil
  | @cons b bps' js' n _ ih =>
    rw [he b (by simp)]
    exact .cons n (ih (fun x hx => he x (List.mem_cons_of_mem _ hx)))

theorem hdrsTo_nonone {t : BP → Nat} {bps : List BP} {js : List LItem} (h : HdrsTo t bps js) : NoNone js := by
  induction h with
  | nil => intro x hx; simp at hx
  | cons n _ ih =>
    intro x hx root e
    simp only [List.mem_cons] at hx
    rcases hx with rfl | hx
    · cases e
    · exact ih x hx root e

theorem exitsOK_stk {cx : Cx} {m j : Nat} {s s1 : St} {env : Src.Env} (h : ExitsOK cx m j s env) (hs : SameStk s s1) :
    ExitsOK cx m j s1 env := h.same hs.1 hs.2

/-- the jump at the end of a block goes to the end label of the if-block -/
theorem end_jump_corr (cx : Cx) (E : Nat) {r q : Nat} {o : Nat} (hit : ItemC cx.cp cx.rs ⟨r, q⟩ (.ljump ⟨o, Gen.op_jump, []⟩ (some E)))
    {m j k : Nat} (hend : R2 cx m j (target cx.rs (cx.cp.σ E)) k) : R2 cx m j ⟨r, q⟩ k :=
  R2.silL (lab_jump hit jump_isJump) hend

/-- what `_process_block` made of a branch's body, after the if-block patched it -/
theorem brOK_of_block (cx : Cx) (fuel : Nat) (E : Nat) (s0 : St) (env : Src.Env) (neg : Bool) (hs : List Hdr) (body : Stmts)
    {bps : List BP} {ops : List LItem} {sa sb sc : St} {blk : Blk}
    (hBody : PieceOK cx ops sa sb (fun k b => Src.trStmts fuel cx.sm env (toSrcStmts body) k b) env)
    (hpb : processBlock bps true true ops sb = .ok (blk, sc)) (hok : HdrsOK hs) (hnm : NamesOf hs bps)
    (hpos : ∀ b ∈ bps, b.positive = !neg) (hstk : SameStk s0 sa) :
    BrOK cx fuel E s0 env ⟨neg, hs, body, blk.hdrs, patchNone E blk.items, sc⟩ ∧ SameStk sb sc ∧ NoNone blk.hdrs ∧
      NoNone (patchNone E blk.items) ∧ patchNone E blk.items ≠ [] := by
  obtain ⟨hst, hshape⟩ := processBlock_shape hpb
  rcases hshape with ⟨l, hsc, hitems, hstart, hh⟩ | ⟨hsc, sL, js, hitems, hstart, hne, hjs, hh⟩
  · -- folded: the header jumps go where the body's only jump goes
    have hlone : loneJump ops = some (some l) := by
      simp only [shortcutOf] at hsc
      split at hsc
      · exact hsc
      · cases hsc
    have hallpos : bps ≠ [] ∧ ∀ b ∈ bps, b.positive = true := by
      simp only [shortcutOf] at hsc
      split at hsc
      · rename_i hc
        simp only [Bool.and_eq_true, Bool.not_eq_true', List.all_eq_true, List.isEmpty_eq_false_iff] at hc
        exact ⟨hc.1.2, hc.2⟩
      · cases hsc
    have hP : patchNone E blk.items = [.label (sb.lbc + 1) false] := by rw [hitems]; rfl
    refine ⟨⟨hok, hBody.grow, fun _ => ⟨bps, fun _ => l, l, hh, fun _ _ => rfl, hnm, ?_⟩, fun hn => ?_, ?_⟩, hst, hdrsTo_nonone hh, ?_, ?_⟩
    · intro r ib _ k b _ m j hex hin _
      obtain ⟨n, htr, hsem⟩ := hBody.lone l hlone m j (exitsOK_stk hex hstk) (NamedIn.le hin hst.3)
      simp only [htr k b]
      exact hsem
    · exfalso
      subst hn
      cases bps with
      | nil => exact hallpos.1 rfl
      | cons b0 r' =>
        have h1 := hpos b0 (by simp)
        have h2 := hallpos.2 b0 (by simp)
        rw [h2] at h1; cases h1
    · intro r ib _ k b _ m j hex hin _
      obtain ⟨n, htr, _⟩ := hBody.lone l hlone m j (exitsOK_stk hex hstk) (NamedIn.le hin hst.3)
      simp only [htr k b]
      exact LabExport.same (fun _ _ => rfl)
    · rw [hP]; intro x hx root e; simp at hx; subst hx; cases e
    · rw [hP]; simp
  · -- the block with its labels
    obtain ⟨tail', hP, htail, hnt⟩ : ∃ tail', patchNone E blk.items = [.label sL false] ++ ops ++ tail' ++ [.label (sb.lbc + 1) false] ∧
        (falls ops = true → ∃ o, tail' = [.ljump ⟨o, Gen.op_jump, []⟩ (some E)]) ∧ NoNone tail' := by
      rcases hjs with ⟨rfl, hc⟩ | ⟨o, rfl, hc⟩
      · refine ⟨[], ?_, fun hf => by simp [hf] at hc, fun x hx => by simp at hx⟩
        rw [hitems, patchNone_append, patchNone_append, patchNone_append, patchNone_id E ops hBody.nonone]
        simp [patchNone, patchItem]
      · refine ⟨[.ljump ⟨o, Gen.op_jump, []⟩ (some E)], ?_, fun _ => ⟨o, rfl⟩, fun x hx root e => by simp at hx; subst hx; cases e⟩
        rw [hitems, patchNone_append, patchNone_append, patchNone_append, patchNone_id E ops hBody.nonone]
        simp [patchNone, patchItem]
    -- entering at the start label
    have henter : ∀ r ib, Placed cx.cp cx.rs r ib (patchNone E blk.items) → ∀ k b,
        AgreeOn cx.N cx.Z b (Src.trStmts fuel cx.sm env (toSrcStmts body) k b).1 → ∀ m j, ExitsOK cx m j s0 env → NamedIn cx sc →
        R2 cx m j (target cx.rs (cx.cp.σ E)) k →
        R2 cx m j ⟨r, ib⟩ (Src.trStmts fuel cx.sm env (toSrcStmts body) k b).2 ∧ target cx.rs (cx.cp.σ sL) = ⟨r, ib⟩ := by
      intro r ib hp k b hag m j hex hin hend
      rw [hP] at hp
      have hp' : Placed cx.cp cx.rs r ib ([LItem.label sL false] ++ ops ++ (tail' ++ [LItem.label (sb.lbc + 1) false])) := by
        simpa [List.append_assoc] using hp
      refine block_enter cx hBody sL _ hp' k b hag m j (exitsOK_stk hex hstk) (NamedIn.le hin hst.3) (fun hf => ?_)
      obtain ⟨o, rfl⟩ := htail hf
      have hit : ItemC cx.cp cx.rs ⟨r, ib + 1 + ops.length⟩ (.ljump ⟨o, Gen.op_jump, []⟩ (some E)) := by
        have := hp'.item (d := 1 + ops.length) (x := .ljump ⟨o, Gen.op_jump, []⟩ (some E))
          (by rw [show 1 + ops.length = ops.length + 1 by omega]; simp)
        simpa [Nat.add_assoc] using this
      exact end_jump_corr cx E hit hend
    have hnn : NoNone (patchNone E blk.items) := by
      rw [hP]
      intro x hx root e
      simp only [List.mem_append, List.mem_cons, List.not_mem_nil, or_false] at hx
      rcases hx with ((rfl | hx) | hx) | rfl
      · cases e
      · exact hBody.nonone x hx root e
      · exact hnt x hx root e
      · cases e
    have hlabs : ∀ r ib, Placed cx.cp cx.rs r ib (patchNone E blk.items) → ∀ k b,
        AgreeOn cx.N cx.Z b (Src.trStmts fuel cx.sm env (toSrcStmts body) k b).1 → ∀ m j, ExitsOK cx m j s0 env → NamedIn cx sc →
        R2 cx m j (target cx.rs (cx.cp.σ E)) k → LabExport cx env m j b (Src.trStmts fuel cx.sm env (toSrcStmts body) k b).1 := by
      intro r ib hp k b hag m j hex hin hend
      rw [hP] at hp
      have hp' : Placed cx.cp cx.rs r ib ([LItem.label sL false] ++ ops ++ (tail' ++ [LItem.label (sb.lbc + 1) false])) := by
        simpa [List.append_assoc] using hp
      refine block_labs cx hBody sL _ hp' k b hag m j (exitsOK_stk hex hstk) (NamedIn.le hin hst.3) (fun hf => ?_)
      obtain ⟨o, rfl⟩ := htail hf
      have hit : ItemC cx.cp cx.rs ⟨r, ib + 1 + ops.length⟩ (.ljump ⟨o, Gen.op_jump, []⟩ (some E)) := by
        have := hp'.item (d := 1 + ops.length) (x := .ljump ⟨o, Gen.op_jump, []⟩ (some E))
          (by rw [show 1 + ops.length = ops.length + 1 by omega]; simp)
        simpa [Nat.add_assoc] using this
      exact end_jump_corr cx E hit hend
    refine ⟨⟨hok, hBody.grow, fun hn => ⟨bps, _, sL, hh, fun b hb => ?_, hnm, ?_⟩,
        fun hn => ⟨bps, _, sb.lbc + 1, [.label sL false] ++ ops ++ tail', hh, fun b hb => ?_, hnm, hP, ?_⟩, hlabs⟩,
      hst, hdrsTo_nonone hh, hnn, by rw [hP]; simp⟩
    · have hn' : neg = false := hn
      simp [hpos b hb, hn']
    · intro r ib hp k b hag m j hex hin hend
      obtain ⟨h1, h2⟩ := henter r ib hp k b hag m j hex hin hend
      rw [h2]; exact h1
    · have hn' : neg = true := hn
      simp [hpos b hb, hn']
    · intro r ib hp k b hag m j hex hin hend
      exact (henter r ib hp k b hag m j hex hin hend).1

end ESV.Comp
