import ESV.Comp.FrontW6
/-
`frontend_wfl`, part 7: `SwitchBlock.collect`.
-/
namespace ESV.Comp
open ESV ESV.Beh

abbrev BPok (b : BP) : Prop := (isJump b.name || isTest b.name) = true

theorem defJmp_ok : BPok defJmpBP := by simp [BPok, defJmpBP, jump_isJump]

/-- the jump lists and waiting blueprints of the switch state -/
structure SwOK (st : SwSt) : Prop where
  hdrs : JumpsOK st.hdrJumps
  dops : JumpsOK st.defaultOps
  wait : ∀ b, some b ∈ st.waiting → BPok b

theorem buildWaiting_w (startL : Nat) : ∀ (w : List (Option BP)) (dops : List LItem) (s : St) (hs dops' : List LItem) (s' : St),
    (∀ b, some b ∈ w → BPok b) → JumpsOK dops → buildWaiting startL defJmpBP w dops s = .ok ((hs, dops'), s') →
    SameL s s' ∧ JumpsOK hs ∧ JumpsOK dops' := by
  intro w
  induction w with
  | nil =>
    intro dops s hs dops' s' _ hd h
    simp only [buildWaiting, pure_ok, Prod.mk.injEq] at h
    obtain ⟨⟨rfl, rfl⟩, rfl⟩ := h
    exact ⟨SameL.refl _, JumpsOK.nil, hd⟩
  | cons x r ih =>
    intro dops s hs dops' s' hw hd h
    cases x with
    | none =>
      simp only [buildWaiting, bind_ok] at h
      obtain ⟨j, s1, h1, h2⟩ := h
      obtain ⟨e1, n, rfl⟩ := buildFor_w h1
      obtain ⟨e2, a, b⟩ := ih _ _ _ _ _ (fun b hb => hw b (List.mem_cons_of_mem _ hb))
        (JumpsOK.cons (r := ⟨n, defJmpBP.name, defJmpBP.params⟩) defJmp_ok JumpsOK.nil) h2
      exact ⟨e1.trans e2, a, b⟩
    | some bp =>
      simp only [buildWaiting, bind_ok, pure_ok] at h
      obtain ⟨j, s1, h1, p, s2, h2, h3⟩ := h
      obtain ⟨hs0, dops0⟩ := p
      simp only [Prod.mk.injEq] at h3
      obtain ⟨⟨rfl, rfl⟩, rfl⟩ := h3
      obtain ⟨e1, n, rfl⟩ := buildFor_w h1
      obtain ⟨e2, a, b⟩ := ih _ _ _ _ _ (fun b hb => hw b (List.mem_cons_of_mem _ hb)) hd h2
      exact ⟨e1.trans e2, JumpsOK.cons (hw bp (by simp)) a, b⟩

/-- a case / default step extends the case ops by a piece -/
def StepW (c : LCtx) (r : List Nat) (d : List String) (step : SwSt → M SwSt) : Prop :=
  ∀ st s st' s', StOK c s → SwOK st → step st s = .ok (st', s') →
    ∃ x, st'.caseOps = st.caseOps ++ x ∧ W c r d s x s' ∧ SwOK st'

theorem caseStep_w {c : LCtx} {r : List Nat} {d : List String} (endL : Nat) (bp : BP) (hbp : BPok bp) (bodyNil : Bool)
    {body : M (List LItem)} (hm : WM c r d body) :
    StepW c (if bodyNil then [] else r) (if bodyNil then [] else d) (caseStep endL bp bodyNil body) := by
  intro st s st' s' hs hst h
  unfold caseStep at h
  cases bodyNil with
  | true =>
    simp only [↓reduceIte, pure_ok, Prod.mk.injEq] at h
    obtain ⟨rfl, rfl⟩ := h
    refine ⟨[], by simp [SwSt.wait], by simpa using W.nil hs, ⟨hst.hdrs, hst.dops, fun b hb => ?_⟩⟩
    simp only [SwSt.wait, List.mem_append, List.mem_singleton, Option.some.injEq] at hb
    rcases hb with hb | rfl
    · exact hst.wait b hb
    · exact hbp
  | false =>
    simp only [Bool.false_eq_true, ↓reduceIte, bind_ok, pushCase_ok, popCase_ok] at h
    obtain ⟨u1, s1, h1, b, s2, h2, u2, s3, h3, h4⟩ := h
    simp only [Prod.mk.injEq] at h1 h3
    obtain ⟨_, rfl⟩ := h1
    obtain ⟨_, rfl⟩ := h3
    have e1 := sameL_pushCase s endL
    obtain ⟨wb, jb⟩ := blockOf_w hm (fun x hx => by simp at hx; subst hx; exact hbp) (e1.ok hs) h2
    cases hstart : b.start with
    | none => rw [hstart] at h4; simp [fail_ok] at h4
    | some startL =>
      rw [hstart] at h4
      simp only [bind_ok, pure_ok] at h4
      obtain ⟨p, s4, h5, h6⟩ := h4
      obtain ⟨hs', dops'⟩ := p
      simp only [Prod.mk.injEq] at h6
      obtain ⟨rfl, rfl⟩ := h6
      obtain ⟨e5, a5, b5⟩ := buildWaiting_w _ _ _ _ _ _ _ hst.wait hst.dops h5
      refine ⟨b.items, rfl, ((wb.sameLft e1).sameR (sameL_popCase s2)).sameR e5, ⟨(hst.hdrs.append a5).append jb, b5, fun b' hb' => ?_⟩⟩
      simp at hb'

theorem defaultStep_w {c : LCtx} {r : List Nat} {d : List String} (endL : Nat) (bodyNil : Bool)
    {body : M (List LItem)} (hm : WM c r d body) :
    StepW c (if bodyNil then [] else r) (if bodyNil then [] else d) (defaultStep endL bodyNil body) := by
  intro st s st' s' hs hst h
  unfold defaultStep at h
  cases bodyNil with
  | true =>
    simp only [↓reduceIte, pure_ok, Prod.mk.injEq] at h
    obtain ⟨rfl, rfl⟩ := h
    refine ⟨[], by simp [SwSt.wait], by simpa using W.nil hs, ⟨hst.hdrs, hst.dops, fun b hb => ?_⟩⟩
    simp only [SwSt.wait, List.mem_append, List.mem_singleton] at hb
    rcases hb with hb | hb
    · exact hst.wait b hb
    · cases hb
  | false =>
    simp only [Bool.false_eq_true, ↓reduceIte, bind_ok, pushCase_ok, popCase_ok] at h
    obtain ⟨u1, s1, h1, b, s2, h2, u2, s3, h3, h4⟩ := h
    simp only [Prod.mk.injEq] at h1 h3
    obtain ⟨_, rfl⟩ := h1
    obtain ⟨_, rfl⟩ := h3
    have e1 := sameL_pushCase s endL
    obtain ⟨wb, jb⟩ := blockOf_w hm (fun x hx => by simp at hx) (e1.ok hs) h2
    cases hstart : b.start with
    | none => rw [hstart] at h4; simp [fail_ok] at h4
    | some startL =>
      rw [hstart] at h4
      simp only [bind_ok, pure_ok] at h4
      obtain ⟨j, s4, h5, p, s5, h6, h7⟩ := h4
      obtain ⟨hs', dops'⟩ := p
      simp only [Prod.mk.injEq] at h7
      obtain ⟨rfl, rfl⟩ := h7
      obtain ⟨e5, n, rfl⟩ := buildFor_w h5
      obtain ⟨e6, a6, b6⟩ := buildWaiting_w _ _ _ _ _ _ _ hst.wait (JumpsOK.cons (r := ⟨n, defJmpBP.name, defJmpBP.params⟩) defJmp_ok JumpsOK.nil) h6
      refine ⟨b.items, rfl, (((wb.sameLft e1).sameR (sameL_popCase s2)).sameR e5).sameR e6,
        ⟨hst.hdrs.append a6, b6, fun b' hb' => ?_⟩⟩
      simp at hb'

/-- step 3 of `SwitchBlock.collect` over the case handlers -/
def CSW (c : LCtx) (r : List Nat) (d : List String) (run : Nat → List BP → SwSt → M SwSt) : Prop :=
  ∀ endL bps st s st' s', StOK c s → SwOK st → BPsOK bps → run endL bps st s = .ok (st', s') →
    ∃ x, st'.caseOps = st.caseOps ++ x ∧ W c r d s x s' ∧ SwOK st'

def CasesOK : Cases → Prop
  | .nil => True
  | .cons true _ _ _ r => CasesOK r
  | .cons false name _ _ r => isTest name = true ∧ CasesOK r

theorem caseScenario_isTest : isTest Gen.op_case_scenario = true := by decide

theorem caseBPs_w (sw : String) : ∀ (cs : Cases) (s : St) (bps : List BP) (s' : St), CasesOK cs →
    caseBPs sw cs s = .ok (bps, s') → SameL s s' ∧ BPsOK bps
  | .nil, s, bps, s', _, h => by
    simp only [caseBPs, pure_ok, Prod.mk.injEq] at h
    obtain ⟨rfl, rfl⟩ := h
    exact ⟨SameL.refl _, fun b hb => by simp at hb⟩
  | .cons true _ _ _ r, s, bps, s', hok, h => by
    simp only [caseBPs] at h
    exact caseBPs_w sw r _ _ _ hok h
  | .cons false name params _ r, s, bps, s', hok, h => by
    simp only [CasesOK] at hok
    simp only [caseBPs, bind_ok, allocate_ok, pure_ok] at h
    obtain ⟨n, s1, h1, bs, s2, h2, h3⟩ := h
    simp only [Prod.mk.injEq] at h1 h3
    obtain ⟨rfl, rfl⟩ := h1
    obtain ⟨rfl, rfl⟩ := h3
    obtain ⟨e2, ok2⟩ := caseBPs_w sw r _ _ _ hok.2 h2
    refine ⟨(sameL_tickedOp _ _).trans e2, fun b hb => ?_⟩
    simp only [List.mem_cons] at hb
    rcases hb with rfl | hb
    · simp only
      split
      · simp [caseScenario_isTest]
      · simp [hok.1]
    · exact ok2 b hb

theorem switchHdrOp_w {hdr : Hdr} {s : St} {o : Op} {s' : St} (h : switchHdrOp hdr s = .ok (o, s')) :
    SameL s s' ∧ o.name = hdr.name := by
  unfold switchHdrOp at h
  split at h
  · simp only [bind_ok, tickOp_ok] at h
    obtain ⟨n, s1, h1, h2⟩ := h
    simp only [Prod.mk.injEq] at h1
    obtain ⟨rfl, rfl⟩ := h1
    obtain ⟨rfl, rfl⟩ := genOp_spec h2
    exact ⟨(sameL_tickedOp _ _).trans (sameL_tickedOp _ _), rfl⟩
  · obtain ⟨rfl, rfl⟩ := genOp_spec h
    exact ⟨sameL_tickedOp _ _, rfl⟩

theorem switchOf_w {c : LCtx} {r : List Nat} {d : List String} (hdr : Hdr) (cases : Cases) (hn : isCtx hdr.name = false)
    (hc : CasesOK cases) {run : Nat → List BP → SwSt → M SwSt} (hr : CSW c r d run) :
    WM c r d (switchOf hdr cases run) := by
  intro s items s' hs h
  simp only [switchOf, bind_ok, tickLbl_ok] at h
  obtain ⟨defStart, s1, h1, endL, s2, h2, sop, s3, h3, h4⟩ := h
  simp only [Prod.mk.injEq] at h1 h2
  obtain ⟨rfl, rfl⟩ := h1
  obtain ⟨rfl, rfl⟩ := h2
  obtain ⟨e3, nm⟩ := switchHdrOp_w h3
  have hop : CtxP [LItem.op sop] := ctxP_op sop (by rw [nm]; exact hn)
  have w0 : W c [] [] s [.label (s.lbc + 1) false, .label ((s.tickedLbl 1).lbc + 1) false] s3 := by
    have := (W.then_tick (W.tick hs)).sameR e3
    simpa using this
  cases cases with
  | nil =>
    simp only [pure_ok, Prod.mk.injEq] at h4
    obtain ⟨rfl, rfl⟩ := h4
    refine (w0.allot (fun n => by simp) (fun n => by simp)).rearr (fun n => by simp) (fun n => by simp) (by simp [rootOK]) hop
  | cons isDef name params body rest =>
    simp only [bind_ok] at h4
    obtain ⟨bps, s4, h5, dops0, s5, h6, rr, s6, h7, h8⟩ := h4
    obtain ⟨e5, okb⟩ := caseBPs_w _ _ _ _ _ hc h5
    have hd0 : SameL s4 s5 ∧ JumpsOK dops0 := by
      unfold defaultOps0 at h6
      split at h6
      · simp only [pure_ok, Prod.mk.injEq] at h6
        obtain ⟨rfl, rfl⟩ := h6
        exact ⟨SameL.refl _, JumpsOK.nil⟩
      · simp only [bind_ok, pure_ok] at h6
        obtain ⟨j, s7, h9, h10⟩ := h6
        simp only [Prod.mk.injEq] at h10
        obtain ⟨rfl, rfl⟩ := h10
        exact genJump_w h9
    obtain ⟨e6, jd0⟩ := hd0
    have w1 := (w0.sameR e5).sameR e6
    obtain ⟨x, hx, wx, okr⟩ := hr _ _ _ _ _ _ w1.ok ⟨JumpsOK.nil, jd0, fun b hb => by simp at hb⟩ okb h7
    simp only [List.nil_append] at hx
    split at h8
    · simp [fail_ok] at h8
    · simp only [pure_ok, Prod.mk.injEq] at h8
      obtain ⟨rfl, rfl⟩ := h8
      have w2 := w1.append wx
      refine (w2.allot (fun n => by simp) (fun n => by simp)).rearr (fun n => ?_) (fun n => ?_) ?_ ?_
      · simp only [intIds_append, intIds_cons_op, intIds_cons_int, intIds_nil, List.count_append, okr.hdrs.intIds, okr.dops.intIds,
          List.count_nil, List.count_cons, hx]
        omega
      · simp only [usrIds_append, usrIds_cons_op, usrIds_cons_int, usrIds_nil, List.count_append, okr.hdrs.usrIds, okr.dops.usrIds,
          List.count_nil, hx]
        omega
      · intro z hz
        simp only [List.mem_append, List.mem_cons, List.not_mem_nil, or_false, hx] at hz
        rcases hz with ((((rfl | hz) | rfl) | hz) | hz) | rfl
        · rfl
        · exact okr.hdrs.root z hz
        · rfl
        · exact okr.dops.root z hz
        · exact wx.root z hz
        · rfl
      · rw [hx]
        exact ((((hop.append okr.hdrs.noCtx.ctxP).append (NoCtx.label _ _).ctxP).append okr.dops.noCtx.ctxP).append wx.ctx).append
          (NoCtx.label _ _).ctxP

end ESV.Comp
