import ESV.Comp.CgFalls
import ESV.Comp.BackSemStrip2
/-
Soundness of `SwitchBlockCompileHandler._falls_through` (`fallsThrough`, /repo commits 7a8e55a, 9a94c6e) against the meaning of
labelled code (`lstep`): if it answers "no" for a block of labelled code, then control never *runs* out of the block —
the block ends in some unnamed labels no step from before them goes to, and the op before those labels never continues with
the next item (it halts, or it is an unconditional jump).  The only way from inside the block to what stands behind it is an
explicit jump to a label standing there.
-/
namespace ESV.Comp
open ESV ESV.Beh

/-- the positions a step may lead to -/
def succs : Step LPos Ev → List LPos
  | .silent a => [a]
  | .emit _ a => [a]
  | .test _ y n => [y, n]
  | .halt _ => []

def labOf : LItem → Nat × Bool
  | .label id nm => (id, nm)
  | _ => (0, false)

/-- what the scan of `_falls_through` finds: only labels, or a last real op followed by labels -/
theorem ftScan_split : ∀ (l : List LItem) (tl0 : List (Nat × Bool)) (real0 : List LItem),
    ((∀ x ∈ l, isLab x = true) ∧ ftScan l tl0 real0 = (tl0 ++ l.map labOf, real0)) ∨
    ∃ b0 a labs, l = b0 ++ [a] ++ labs ∧ isLab a = false ∧ (∀ x ∈ labs, isLab x = true) ∧
      ftScan l tl0 real0 = (labs.map labOf, a :: (ftScan b0 tl0 real0).2)
  | [], tl0, real0 => .inl ⟨fun x hx => by simp at hx, by simp [ftScan]⟩
  | .label id nm :: r, tl0, real0 => by
    rcases ftScan_split r (tl0 ++ [(id, nm)]) real0 with ⟨h1, h2⟩ | ⟨b0, a, labs, h1, h2, h3, h4⟩
    · refine .inl ⟨fun x hx => ?_, ?_⟩
      · simp only [List.mem_cons] at hx
        rcases hx with rfl | hx
        · rfl
        · exact h1 x hx
      · simp only [ftScan, h2, List.map_cons, labOf, List.append_assoc, List.singleton_append]
    · exact .inr ⟨.label id nm :: b0, a, labs, by simp [h1], h2, h3, by simp only [ftScan, h4]⟩
  | .op o :: r, tl0, real0 => by
    rcases ftScan_split r [] (.op o :: real0) with ⟨h1, h2⟩ | ⟨b0, a, labs, h1, h2, h3, h4⟩
    · exact .inr ⟨[], .op o, r, by simp, rfl, h1, by simp only [ftScan, h2, List.nil_append]⟩
    · exact .inr ⟨.op o :: b0, a, labs, by simp [h1], h2, h3, by simp only [ftScan, h4]⟩
  | .ljump o t :: r, tl0, real0 => by
    rcases ftScan_split r [] (.ljump o t :: real0) with ⟨h1, h2⟩ | ⟨b0, a, labs, h1, h2, h3, h4⟩
    · exact .inr ⟨[], .ljump o t, r, by simp, rfl, h1, by simp only [ftScan, h2, List.nil_append]⟩
    · exact .inr ⟨.ljump o t :: b0, a, labs, by simp [h1], h2, h3, by simp only [ftScan, h4]⟩

theorem ftScan_mem : ∀ (l : List LItem) (tl : List (Nat × Bool)) (real : List LItem) (x : LItem), x ∈ l → isLab x = false →
    x ∈ (ftScan l tl real).2
  | [], _, _, _, h, _ => by simp at h
  | .label id nm :: r, tl, real, x, h, hx => by
    simp only [List.mem_cons] at h
    rcases h with rfl | h
    · simp [isLab] at hx
    · simp only [ftScan]; exact ftScan_mem r _ _ x h hx
  | .op o :: r, tl, real, x, h, hx => by
    simp only [List.mem_cons] at h
    simp only [ftScan]
    rcases h with rfl | h
    · exact ftScan_keeps r _ _ _ (by simp)
    · exact ftScan_mem r _ _ x h hx
  | .ljump o t :: r, tl, real, x, h, hx => by
    simp only [List.mem_cons] at h
    simp only [ftScan]
    rcases h with rfl | h
    · exact ftScan_keeps r _ _ _ (by simp)
    · exact ftScan_mem r _ _ x h hx

/-- the real op scanned last is the head of the list of real ops -/
theorem ftScan_snoc_real (b1 : List LItem) {y : LItem} (hy : isLab y = false) : (ftScan (b1 ++ [y]) [] []).2 = y :: (ftScan b1 [] []).2 := by
  rw [ftScan_append, ftScan_single hy]

theorem ftScan_snoc_label (b1 : List LItem) (id : Nat) (nm : Bool) : (ftScan (b1 ++ [.label id nm]) [] []).2 = (ftScan b1 [] []).2 := by
  rw [ftScan_append]; rfl

theorem getElem?_lt'' {α : Type} {l : List α} {i : Nat} {x : α} (h : l[i]? = some x) : i < l.length := by
  rcases Nat.lt_or_ge i l.length with h' | h'
  · exact h'
  · rw [List.getElem?_eq_none h'] at h; cases h

/-- a step to a label position goes to a label of that name -/
theorem target_in {rs : List (List LItem)} {l : Nat} {r : Nat} {its : List LItem} (hr : rs[r]? = some its) {j : Nat}
    (h : target rs l = ⟨r, j⟩) : ∃ nm, its[j]? = some (.label l nm) := by
  rcases target_cases rs l with hs | ⟨nm, hi⟩
  · rw [hs] at h
    simp only [stuckPos, LPos.mk.injEq] at h
    have : r < rs.length := by
      rcases Nat.lt_or_ge r rs.length with h' | h'
      · exact h'
      · rw [List.getElem?_eq_none h'] at hr; cases hr
    omega
  · rw [h] at hi
    simp only [itemAt, hr] at hi
    exact ⟨nm, hi⟩

/-- **`_falls_through` is sound.**  A block `items` of labelled code standing at `pre.length` in routine `r` (not directly behind a
context op) for which `_falls_through` answers "no" is `b0 ++ [a] ++ labs`: `labs` are unnamed labels; no step from `b0 ++ [a]` leads to
one of them; and the op `a` never continues with the next item: its step halts, or `a` is an unconditional jump. -/
theorem fallsThrough_sound (rs : List (List LItem)) (r : Nat) (pre items post : List LItem) (hr : rs[r]? = some (pre ++ items ++ post))
    (hpre : afterCtxL rs ⟨r, pre.length⟩ = false) (hne : items ≠ []) (hft : fallsThrough items = false) :
    ∃ b0 a labs, items = b0 ++ [a] ++ labs ∧ isLab a = false ∧ (∀ x ∈ labs, ∃ id, x = LItem.label id false) ∧
      (∀ i, i ≤ b0.length → ∀ q' ∈ succs (lstep rs ⟨r, pre.length + i⟩),
        ¬ (q'.rtn = r ∧ pre.length + b0.length < q'.idx ∧ q'.idx < pre.length + items.length)) ∧
      ((∃ e, lstep rs ⟨r, pre.length + b0.length⟩ = .halt e) ∨
        ∃ root l, a = .ljump root (some l) ∧ isJump root.name = true ∧ lstep rs ⟨r, pre.length + b0.length⟩ = .silent (target rs l)) := by
  rcases ftScan_split items [] [] with ⟨h1, h2⟩ | ⟨b0, a, labs, hsplit, ha, hlabs, hscan⟩
  · -- only labels: `_falls_through` says yes
    exfalso
    simp only [fallsThrough, h2] at hft
    cases items with
    | nil => exact hne rfl
    | cons x xs => simp at hft
  -- what the answer "no" means
  have hany : ((labs.map labOf).any fun l => l.2 || (a :: (ftScan b0 [] []).2).any (isJumpTo l.1)) = false ∧
      ((ftScan b0 [] []).2 = [] ∧ endsFlow a none = true ∨
        ∃ b rest, (ftScan b0 [] []).2 = b :: rest ∧ endsFlow a (some b) = true) := by
    simp only [fallsThrough, hscan] at hft
    cases hR : (ftScan b0 [] []).2 with
    | nil =>
      rw [hR] at hft
      simp only [Bool.or_eq_false_iff, Bool.not_eq_false'] at hft
      exact ⟨by rw [hR] at *; exact hft.2, .inl ⟨rfl, hft.1⟩⟩
    | cons b rest =>
      rw [hR] at hft
      simp only [Bool.or_eq_false_iff, Bool.not_eq_false'] at hft
      exact ⟨by rw [hR] at *; exact hft.2, .inr ⟨b, rest, rfl, hft.1⟩⟩
  obtain ⟨hnone, hends⟩ := hany
  have hreal : (ftScan items [] []).2 = a :: (ftScan b0 [] []).2 := by rw [hscan]
  -- no trailing label is named, none is the target of a real op of the block
  have hlab : ∀ x ∈ labs, ∃ id, x = LItem.label id false ∧ ∀ y ∈ items, isLab y = false → isJumpTo id y = false := by
    intro x hx
    have hxl := hlabs x hx
    cases x with
    | op o => simp [isLab] at hxl
    | ljump o t => simp [isLab] at hxl
    | label id nm =>
      have := List.any_eq_false.mp hnone (id, nm) (List.mem_map.mpr ⟨_, hx, rfl⟩)
      simp only [Bool.or_eq_true, not_or, Bool.not_eq_true] at this
      obtain ⟨e1, e2⟩ := this
      subst e1
      refine ⟨id, rfl, fun y hy hyl => ?_⟩
      have hmem : y ∈ a :: (ftScan b0 [] []).2 := by rw [← hreal]; exact ftScan_mem items [] [] y hy hyl
      have := List.any_eq_false.mp e2 y hmem
      simpa using this
  have hlen : items.length = b0.length + 1 + labs.length := by
    have := congrArg List.length hsplit
    simp at this
    omega
  -- the items of the block in the routine
  have hitem : ∀ i, i < items.length → (pre ++ items ++ post)[pre.length + i]? = items[i]? := by
    intro i hi
    rw [List.append_assoc, List.getElem?_append_right (by omega), List.getElem?_append_left (by omega)]
    congr 1; omega
  have hstep : ∀ i x, items[i]? = some x →
      lstep rs ⟨r, pre.length + i⟩ = (match x with
        | .label _ _ => .silent ⟨r, pre.length + i + 1⟩
        | .ljump _ none => .halt (evInvalid "jump")
        | .ljump root (some l) =>
          if isJump root.name then .silent (target rs l)
          else if isTest root.name then .test ⟨root.name, convParams root.params⟩ (target rs l) ⟨r, pre.length + i + 1⟩
          else .halt (evInvalid "jump")
        | .op o =>
          if isJump o.name || isTest o.name then .halt (evInvalid "raw")
          else if Beh.endsFlow o.name && !afterCtxL rs ⟨r, pre.length + i⟩ then .halt ⟨o.name, convParams o.params⟩
          else .emit ⟨o.name, convParams o.params⟩ ⟨r, pre.length + i + 1⟩) := by
    intro i x hx
    have hi : i < items.length := getElem?_lt'' hx
    simp only [lstep, hr, hitem i hi, hx]
    cases x with
    | label id nm => rfl
    | op o => rfl
    | ljump root t => cases t <;> rfl
  -- a jump target among the trailing labels would be seen by the scan
  have htarget : ∀ y ∈ items, isLab y = false → ∀ root l, y = LItem.ljump root (some l) →
      ¬ ((target rs l).rtn = r ∧ pre.length + b0.length < (target rs l).idx ∧ (target rs l).idx < pre.length + items.length) := by
    intro y hy hyl root l e ⟨t1, t2, t3⟩
    obtain ⟨nm, hit⟩ := target_in hr (l := l) (j := (target rs l).idx) (by rw [← t1])
    have hj : (target rs l).idx = pre.length + ((target rs l).idx - pre.length) := by omega
    rw [hj, hitem _ (by omega), hsplit, List.getElem?_append_right (by simp; omega)] at hit
    have hm : LItem.label l nm ∈ labs := List.mem_of_getElem? hit
    obtain ⟨id, e2, hno⟩ := hlab _ hm
    simp only [LItem.label.injEq] at e2
    obtain ⟨rfl, _⟩ := e2
    have := hno y hy hyl
    rw [e] at this
    simp [isJumpTo] at this
  have hga : items[b0.length]? = some a := by rw [hsplit]; simp
  -- the last real op never continues with the next item
  have hlast : (∃ e, lstep rs ⟨r, pre.length + b0.length⟩ = .halt e) ∨
      ∃ root l, a = .ljump root (some l) ∧ isJump root.name = true ∧ lstep rs ⟨r, pre.length + b0.length⟩ = .silent (target rs l) := by
    have hen : endsName a = true := by
      rcases hends with ⟨_, h⟩ | ⟨b, rest, _, h⟩
      · exact h
      · simp only [endsFlow] at h
        split at h
        · cases h
        · exact h
    rw [hstep _ _ hga]
    cases a with
    | label id nm => simp [isLab] at ha
    | ljump root t =>
      cases t with
      | none => exact .inl ⟨evInvalid "jump", rfl⟩
      | some l =>
        simp only [endsName] at hen
        cases hj : isJump root.name with
        | true => exact .inr ⟨root, l, rfl, hj, by simp only [hj, if_true]⟩
        | false =>
          have ht : isTest root.name = false := by
            cases h : isTest root.name with
            | false => rfl
            | true => rw [test_not_ends _ h] at hen; cases hen
          exact .inl ⟨evInvalid "jump", by simp only [hj, ht, Bool.false_eq_true, if_false]⟩
    | op o =>
      simp only [endsName] at hen
      cases hjt : (isJump o.name || isTest o.name) with
      | true => exact .inl ⟨evInvalid "raw", by simp only [hjt, if_true]⟩
      | false =>
        have hj : isJump o.name = false := by
          cases h : isJump o.name with
          | false => rfl
          | true => simp [h] at hjt
        have hbe : Beh.endsFlow o.name = true := by rw [← gen_ends_eq _ hj]; exact hen
        -- the op does not stand behind a context op
        have hac : afterCtxL rs ⟨r, pre.length + b0.length⟩ = false := by
          cases hb : b0.length with
          | zero => simpa [hb] using hpre
          | succ n =>
            have hn : n < b0.length := by omega
            have hprev : itemAt rs ⟨r, pre.length + n⟩ = b0[n]? := by
              simp only [itemAt, hr]
              rw [hitem n (by omega), hsplit, List.append_assoc, List.getElem?_append_left hn]
            show afterCtxL rs ⟨r, pre.length + (n + 1)⟩ = false
            have : pre.length + (n + 1) = (pre.length + n) + 1 := by omega
            rw [this]
            simp only [afterCtxL, hprev]
            -- the last item of `b0`
            have hb0 : b0 = b0.take n ++ [b0[n]] := by
              rw [List.take_append_getElem hn, ← hb]; simp
            cases hy : b0[n] with
            | label id nm => simp [List.getElem?_eq_getElem hn, hy]
            | ljump o' t' => simp [List.getElem?_eq_getElem hn, hy]
            | op o' =>
              simp only [List.getElem?_eq_getElem hn, hy]
              rw [hy] at hb0
              have hR : (ftScan b0 [] []).2 = LItem.op o' :: (ftScan (b0.take n) [] []).2 := by
                have hgen : ∀ X, b0 = X ++ [LItem.op o'] → (ftScan b0 [] []).2 = LItem.op o' :: (ftScan X [] []).2 :=
                  fun X e => by rw [e]; exact ftScan_snoc_real X (y := .op o') rfl
                exact hgen _ hb0
              rcases hends with ⟨hnil, _⟩ | ⟨b, rest, hbr, h⟩
              · rw [hR] at hnil; cases hnil
              · rw [hR] at hbr
                simp only [List.cons.injEq] at hbr
                obtain ⟨rfl, _⟩ := hbr
                simp only [endsFlow] at h
                split at h
                · cases h
                · rename_i hc
                  have : isCtxL (LItem.op o') = false := by
                    rw [← ctx_item_tie]; simpa using hc
                  simpa [isCtxL] using this
        exact .inl ⟨⟨o.name, convParams o.params⟩, by simp only [hjt, hbe, hac, Bool.false_eq_true, if_false, Bool.not_false, Bool.and_self, if_true]⟩
  refine ⟨b0, a, labs, hsplit, ha, fun x hx => by obtain ⟨id, e, _⟩ := hlab x hx; exact ⟨id, e⟩, ?_, hlast⟩
  intro i hi q' hq'
  rcases Nat.lt_or_ge i b0.length with hlt | hge
  · -- an item of `b0`
    have hgi : items[i]? = some b0[i] := by
      rw [hsplit, List.append_assoc, List.getElem?_append_left hlt, List.getElem?_eq_getElem hlt]
    have hmem : b0[i] ∈ items := List.mem_of_getElem? hgi
    rw [hstep _ _ hgi] at hq'
    cases hx : b0[i] with
    | label id nm =>
      rw [hx] at hq'
      simp only [succs, List.mem_singleton] at hq'
      subst hq'
      simp only [not_and]
      intro _ h; omega
    | op o =>
      rw [hx] at hq'
      simp only at hq'
      split at hq'
      · simp [succs] at hq'
      · split at hq'
        · simp [succs] at hq'
        · simp only [succs, List.mem_singleton] at hq'
          subst hq'
          simp only [not_and]
          intro _ h; omega
    | ljump root t =>
      rw [hx] at hq' hmem
      cases t with
      | none => simp [succs] at hq'
      | some l =>
        simp only at hq'
        split at hq'
        · simp only [succs, List.mem_singleton] at hq'
          subst hq'
          exact htarget _ hmem rfl root l rfl
        · split at hq'
          · simp only [succs, List.mem_cons, List.not_mem_nil, or_false] at hq'
            rcases hq' with rfl | rfl
            · exact htarget _ hmem rfl root l rfl
            · simp only [not_and]
              intro _ h; omega
          · simp [succs] at hq'
  · -- the last real op
    have hib : i = b0.length := by omega
    subst hib
    rcases hlast with ⟨e, he⟩ | ⟨root, l, rfl, _, he⟩
    · rw [he] at hq'; simp [succs] at hq'
    · rw [he] at hq'
      simp only [succs, List.mem_singleton] at hq'
      subst hq'
      exact htarget _ (List.mem_of_getElem? hga) rfl root l rfl

end ESV.Comp
