import ESV.Comp.CgSwitch3
/-
`codegen_correct`, switches: `SwitchBlockCompileHandler.collect()` as a piece.
-/
namespace ESV.Comp
open ESV ESV.Beh

local macro "len_omega" : tactic =>
  `(tactic| ((try simp only [List.length_append, List.length_cons, List.length_nil]) <;> (try omega)))
local macro "lst" : tactic => `(tactic| ((try simp only [List.append_assoc, List.cons_append, List.nil_append]) <;> (try rfl)))

def dfltNode (d : Option Nat) (k : Nat) : Nat :=
  match d with
  | some x => x
  | none => k

theorem tr_switch (fuel : Nat) (sm : List Src.Macro) (env : Src.Env) (hdr : Ev) (CS : Src.Cases) (k : Nat) (b : Src.B) :
    Src.tr fuel sm env (.switch hdr CS) k b =
      ((Src.trCases fuel sm (brkEnv env k) CS k (tbl b).length (b.push (.halt (evInvalid "switch default"))).1).1.set (tbl b).length
        (.silent (dfltNode (Src.trCases fuel sm (brkEnv env k) CS k (tbl b).length (b.push (.halt (evInvalid "switch default"))).1).2.2.2 k))).push
        (.emit (Src.substEv env.subst hdr) (Src.trCases fuel sm (brkEnv env k) CS k (tbl b).length (b.push (.halt (evInvalid "switch default"))).1).2.2.1) := by
  rw [Src.tr]; rfl

theorem switchHdrOp_shape {hdr : Hdr} {s : St} {o : Op} {s' : St} (h : switchHdrOp hdr s = .ok (o, s')) :
    SameStk s s' ∧ ∃ n, o = ⟨n, hdr.name, hdr.params⟩ := by
  unfold switchHdrOp at h
  split at h
  · simp only [bind_ok, tickOp_ok] at h
    obtain ⟨n, s1, h1, h2⟩ := h
    simp only [Prod.mk.injEq] at h1
    obtain ⟨rfl, rfl⟩ := h1
    obtain ⟨rfl, rfl⟩ := genOp_spec h2
    exact ⟨(sameStk_tickedOp _ _).trans (sameStk_tickedOp _ _), _, rfl⟩
  · obtain ⟨rfl, rfl⟩ := genOp_spec h
    exact ⟨sameStk_tickedOp _ _, _, rfl⟩

theorem switch_pm (cx : Cx) (fuel : Nat) (env : Src.Env) (he : EnvOK cx env) (hdr : Hdr) (cs : Cases)
    (run : Nat → List BP → SwSt → M SwSt) (hn : nameOK hdr.name = true) (hne : Beh.endsFlow hdr.name = false)
    (hdef : countDefaults cs ≤ 1) (hrun : CasesC cx fuel hdr.name true cs run) :
    PM cx (switchOf hdr cs run) (fun k b => Src.tr fuel cx.sm env (.switch (hdrEv hdr) (toSrcCases hdr.name cs)) k b) env := by
  intro s items s' h
  have hnr : hdr.name ≠ Gen.op_return := by
    intro e; rw [e, ctl_names.2.2.2.1] at hne; cases hne
  cases cs with
  | nil =>
    -- a switch without cases is its header operation
    simp only [switchOf, bind_ok, tickLbl_ok, pure_ok] at h
    obtain ⟨defStart, s1, h1, endL, s2, h2, sop, s3, h3, h4⟩ := h
    simp only [Prod.mk.injEq] at h1 h2 h4
    obtain ⟨rfl, rfl⟩ := h1
    obtain ⟨rfl, rfl⟩ := h2
    obtain ⟨rfl, rfl⟩ := h4
    obtain ⟨e3, o0, rfl⟩ := switchHdrOp_shape h3
    have hstk : SameStk s s' := ((sameStk_tickedLbl s 1).trans (sameStk_tickedLbl _ 1)).trans e3
    simp only [nameOK, Bool.and_eq_true, Bool.not_eq_true'] at hn
    have htr : ∀ k b, Src.tr fuel cx.sm env (.switch (hdrEv hdr) (toSrcCases hdr.name .nil)) k b =
        (((b.push (.halt (evInvalid "switch default"))).1.set (tbl b).length (.silent k)).push (.emit (Src.substEv env.subst (hdrEv hdr)) (tbl b).length)) := by
      intro k b
      rw [tr_switch fuel cx.sm env]
      simp only [toSrcCases, trCases_nil, dfltNode]
    have hgrow : ∀ k b, Grow cx.Z b (Src.tr fuel cx.sm env (.switch (hdrEv hdr) (toSrcCases hdr.name .nil)) k b).1 := by
      intro k b
      rw [htr]
      exact ((Grow.push b _).set_ge (Nat.le_refl _) _).trans (Grow.push _ _)
    have hfalls : falls [LItem.op ⟨o0, hdr.name, hdr.params⟩] = true := by
      have hj : isJump hdr.name = false := by
        have := hn.2; simp only [Bool.or_eq_false_iff] at this; exact this.1
      have : Gen.opsEndFlow.contains hdr.name = false := by rw [gen_ends_eq hdr.name hj]; exact hne
      have h2 : ¬ hdr.name ∈ Gen.opsEndFlow := by simpa using this
      simp [falls, needsEndJump, Comp.endsFlow, endsName, h2]
    refine ⟨hstk.1, hstk.2, hstk.3, by simp [lastNotCtx, isCtxL, hn.1], ?_, by intro h0; simp at h0, ?_, hgrow, ?_⟩
    · intro x hx root e; simp at hx; subst hx; cases e
    · intro l hl; simp [loneJump] at hl
    intro r i0 hp hpre k b hag m j _ _ hcont
    rw [htr] at hag ⊢
    have hit0 : ItemC cx.cp cx.rs ⟨r, i0⟩ (.op ⟨o0, hdr.name, hdr.params⟩) := by simpa using hp.item (d := 0) rfl
    have hstep := lab_op hit0 hn.2 (.inl hnr)
    simp only [hne, Bool.false_and, Bool.false_eq_true, if_false] at hstep
    have hev : (⟨hdr.name, convParams (hdr.params.map cx.cp.sub)⟩ : Ev) = Src.substEv env.subst (hdrEv hdr) := he.ev hdr.name hdr.params
    rw [hev, LPos.next_eq r i0 (i0 + 1) rfl] at hstep
    obtain ⟨a1, a2⟩ := tbl_push ((b.push (.halt (evInvalid "switch default"))).1.set (tbl b).length (.silent k)) (.emit (Src.substEv env.subst (hdrEv hdr)) (tbl b).length)
    obtain ⟨p1, _⟩ := tbl_push b (.halt (evInvalid "switch default"))
    have hl3 : (tbl ((b.push (.halt (evInvalid "switch default"))).1.set (tbl b).length (.silent k))).length = (tbl b).length + 1 := by
      rw [tbl_set, p1]; simp
    have hNe : cx.N[(tbl b).length + 1]? = some (.emit (Src.substEv env.subst (hdrEv hdr)) (tbl b).length) := by
      rw [hag.2 _ (by omega) (by rw [a1]; simp [hl3]), a1, ← hl3]; simp
    have hNt : cx.N[(tbl b).length]? = some (.silent k) := by
      rw [hag.2 _ (Nat.le_refl _) (by rw [a1]; simp [hl3]; omega), a1, List.getElem?_append_left (by rw [hl3]; omega), tbl_set,
        List.getElem?_set_self (by rw [p1]; simp)]
    rw [a2, hl3]
    refine ⟨R2.emit hstep (nodeStep_of hNe) (E.silR (nodeStep_of hNt) (by simpa using (hcont hfalls).1)), ?_⟩
    refine LabExport.same (fun i hi => ?_)
    rw [a1, List.getElem?_append_left (by rw [hl3]; omega), tbl_set, List.getElem?_set_ne (by omega), p1,
      List.getElem?_append_left hi]
  | cons d0 n0 ps0 b0 r0 =>
  simp only [switchOf, bind_ok, tickLbl_ok] at h
  obtain ⟨defStart, s1, h1, endL, s2, h2, sop, s3, h3, h4⟩ := h
  simp only [Prod.mk.injEq] at h1 h2
  obtain ⟨rfl, rfl⟩ := h1
  obtain ⟨rfl, rfl⟩ := h2
  obtain ⟨e3, o0, rfl⟩ := switchHdrOp_shape h3
  obtain ⟨bps, s4, h5, dops0, s5, h6, rr, s6, h7, h8⟩ := h4
  obtain ⟨e5, okb⟩ := caseBPs_ok _ _ _ _ _ h5
  simp only at okb
  -- the default ops to begin with
  have hd0 : SameStk s4 s5 ∧ NoNone dops0 ∧
      (hasDefault (.cons d0 n0 ps0 b0 r0) = false → ∃ o, dops0 = [LItem.ljump ⟨o, Gen.op_jump, []⟩ (some ((s.tickedLbl 1).lbc + 1))]) := by
    unfold defaultOps0 at h6
    split at h6
    · rename_i hc
      simp only [pure_ok, Prod.mk.injEq] at h6
      obtain ⟨rfl, rfl⟩ := h6
      exact ⟨SameStk.refl _, fun x hx => by simp at hx, fun h => by rw [hc] at h; cases h⟩
    · simp only [bind_ok, pure_ok] at h6
      obtain ⟨jj, s7, h9, h10⟩ := h6
      simp only [Prod.mk.injEq] at h10
      obtain ⟨rfl, rfl⟩ := h10
      obtain ⟨e9, rfl⟩ := genJump_stk h9
      exact ⟨e9, noNone_jump _ _, fun _ => ⟨_, rfl⟩⟩
  obtain ⟨e6, nn0, hdops0⟩ := hd0
  obtain ⟨e7, nnD, Hn, Cn, hH, hC, nnH, nnC, hsem⟩ := hrun env he _ bps ⟨[], [], dops0, []⟩ s5 rr s6 okb
    (fun bp hb => by simp at hb) (by simpa [hasNone] using hdef) h7
  simp only [List.nil_append] at hH hC
  split at h8
  · simp [fail_ok] at h8
  rename_i hwait
  simp only [pure_ok, Prod.mk.injEq] at h8
  obtain ⟨rfl, rfl⟩ := h8
  have hwait' : rr.waiting = [] := by simpa using hwait
  have hS := hsem hwait' False (fun _ hf => hf.elim)
  simp only [wSrc] at hS
  have hstk : SameStk s s' := ((((sameStk_tickedLbl s 1).trans (sameStk_tickedLbl _ 1)).trans e3).trans e5).trans (e6.trans e7)
  have hL5 : s5.loops = s.loops := (((((sameStk_tickedLbl s 1).trans (sameStk_tickedLbl _ 1)).trans e3).trans e5).trans e6).1
  have hC5 : s5.cases = s.cases := (((((sameStk_tickedLbl s 1).trans (sameStk_tickedLbl _ 1)).trans e3).trans e5).trans e6).2
  rw [hH, hC]
  generalize hD : rr.defaultOps = D at hS nnD
  have nnD' : NoNone D := nnD nn0
  generalize hEL : (s.tickedLbl 1).lbc + 1 = eL at *
  have htr := fun k b => tr_switch fuel cx.sm env (hdrEv hdr) (toSrcCases hdr.name (.cons d0 n0 ps0 b0 r0)) k b
  have hgrow : ∀ k b, Grow cx.Z b (Src.tr fuel cx.sm env (.switch (hdrEv hdr) (toSrcCases hdr.name (.cons d0 n0 ps0 b0 r0))) k b).1 := by
    intro k b
    rw [htr]
    exact (((Grow.push b _).trans (hS.grow k _ _)).set_ge (Nat.le_refl _) _).trans (Grow.push _ _)
  have hfalls : falls ([LItem.op ⟨o0, hdr.name, hdr.params⟩] ++ Hn ++ [LItem.label (s.lbc + 1) false] ++ D ++ Cn ++ [LItem.label eL false]) = true :=
    falls_snoc_label _ _ _
  simp only [nameOK, Bool.and_eq_true, Bool.not_eq_true'] at hn
  refine ⟨hstk.1, hstk.2, hstk.3, lastNotCtx_snoc_label _ _ _, ?_, ?_, ?_, hgrow, ?_⟩
  · refine (((((?_ : NoNone [LItem.op ⟨o0, hdr.name, hdr.params⟩]).append nnH).append (noNone_label _ _)).append nnD').append nnC).append (noNone_label _ _)
    intro x hx root e; simp at hx; subst hx; cases e
  · intro h0; simp at h0
  · intro l hl'
    simp only [List.append_assoc, List.cons_append, List.nil_append, loneJump_cons_op] at hl'
    cases hl'
  intro r i0 hp hpre k b hag m j hex hin hcont
  have hend := hcont hfalls
  rw [htr] at hag ⊢
  have gT := hS.grow k (tbl b).length (b.push (.halt (evInvalid "switch default"))).1
  have cT := fun pC (h1 : Placed cx.cp cx.rs r (i0 + 1) Hn) (h2 : Placed cx.cp cx.rs r pC Cn) =>
    hS.corr k (tbl b).length r (i0 + 1) pC h1 h2 (b.push (.halt (evInvalid "switch default"))).1
  have hdfl : hasDefault (.cons d0 n0 ps0 b0 r0) = true →
      (Src.trCases fuel cx.sm (brkEnv env k) (toSrcCases hdr.name (.cons d0 n0 ps0 b0 r0)) k (tbl b).length
        (b.push (.halt (evInvalid "switch default"))).1).2.2.2 ≠ none :=
    trCases_hasdefault fuel cx.sm (brkEnv env k) hdr.name _ k _ _
  generalize hT : Src.trCases fuel cx.sm (brkEnv env k) (toSrcCases hdr.name (.cons d0 n0 ps0 b0 r0)) k (tbl b).length
    (b.push (.halt (evInvalid "switch default"))).1 = T at hag gT cT hdfl ⊢
  -- the node table
  obtain ⟨a1, a2⟩ := tbl_push (T.1.set (tbl b).length (.silent (dfltNode T.2.2.2 k))) (.emit (Src.substEv env.subst (hdrEv hdr)) T.2.2.1)
  have hlen3 : (tbl (T.1.set (tbl b).length (.silent (dfltNode T.2.2.2 k)))).length = (tbl T.1).length := by rw [tbl_set]; simp
  have g3 : Grow cx.Z b (T.1.set (tbl b).length (.silent (dfltNode T.2.2.2 k))) := ((Grow.push b _).trans gT).set_ge (Nat.le_refl _) _
  have hNe : cx.N[(tbl T.1).length]? = some (.emit (Src.substEv env.subst (hdrEv hdr)) T.2.2.1) := by
    rw [hag.2 _ (by rw [← hlen3]; exact g3.len) (by rw [a1]; simp [hlen3]), a1, ← hlen3]
    simp
  have ag3 : AgreeOn cx.N cx.Z b (T.1.set (tbl b).length (.silent (dfltNode T.2.2.2 k))) := hag.sub_grow (Grow.refl b) (Grow.push _ _)
  obtain ⟨hNnt, agT⟩ := agree_set ag3 gT
  rw [a2, hlen3]
  -- positions
  have hit0 : ItemC cx.cp cx.rs ⟨r, i0⟩ (.op ⟨o0, hdr.name, hdr.params⟩) := hp.here' [] _ _ (by lst) (by len_omega)
  have hpH : Placed cx.cp cx.rs r (i0 + 1) Hn := hp.mid' [LItem.op ⟨o0, hdr.name, hdr.params⟩] Hn _ (by lst) (by len_omega)
  have hitD : ItemC cx.cp cx.rs ⟨r, i0 + 1 + Hn.length⟩ (.label (s.lbc + 1) false) :=
    hp.here' ([LItem.op ⟨o0, hdr.name, hdr.params⟩] ++ Hn) _ _ (by lst) (by len_omega)
  have hpC : Placed cx.cp cx.rs r (i0 + Hn.length + D.length + 2) Cn :=
    hp.mid' ([LItem.op ⟨o0, hdr.name, hdr.params⟩] ++ Hn ++ [LItem.label (s.lbc + 1) false] ++ D) Cn _ (by lst) (by len_omega)
  have hitE : ItemC cx.cp cx.rs ⟨r, i0 + Hn.length + D.length + 2 + Cn.length⟩ (.label eL false) :=
    hp.here' ([LItem.op ⟨o0, hdr.name, hdr.params⟩] ++ Hn ++ [LItem.label (s.lbc + 1) false] ++ D ++ Cn) [] _ (by lst) (by len_omega)
  have htgtE : target cx.rs (cx.cp.σ eL) = ⟨r, i0 + Hn.length + D.length + 2 + Cn.length⟩ :=
    hp.lbl' cx.hlab ([LItem.op ⟨o0, hdr.name, hdr.params⟩] ++ Hn ++ [LItem.label (s.lbc + 1) false] ++ D ++ Cn) [] _ false (by lst) (by len_omega)
  have hlen : ([LItem.op ⟨o0, hdr.name, hdr.params⟩] ++ Hn ++ [LItem.label (s.lbc + 1) false] ++ D ++ Cn ++ [LItem.label eL false]).length =
      Hn.length + D.length + Cn.length + 3 := by len_omega
  rw [hlen] at hend
  have hendC : R2 cx m j ⟨r, i0 + Hn.length + D.length + 2 + Cn.length⟩ k := by
    refine R2.silL (lab_label hitE) ?_
    rw [LPos.next_eq r _ (i0 + (Hn.length + D.length + Cn.length + 3)) (by omega)]; exact hend
  have hbrk : R2 cx m j (target cx.rs (cx.cp.σ eL)) k := by rw [htgtE]; exact hendC
  have hexC : ExitsOK cx m j (s5.pushCase eL) (brkEnv env k) := by
    refine ⟨fun cl bl rest hs => hex.loop cl bl rest (by rw [← hL5]; exact hs), fun e rest hs => ?_, hex.labs, hex.ret⟩
    simp only [St.pushCase, List.cons.injEq] at hs
    obtain ⟨rfl, _⟩ := hs
    exact ⟨k, rfl, hbrk⟩
  obtain ⟨tP, _, dP, xP⟩ := cT _ hpH hpC agT m j (s5.pushCase eL) rfl rfl hexC hin hendC
  -- behind the header jumps: the default ops
  have hnt : R2 cx m j ⟨r, i0 + 1 + Hn.length⟩ (tbl b).length := by
    refine R2.silL (lab_label hitD) ?_
    rw [LPos.next_eq r _ (i0 + Hn.length + 2) (by omega)]
    cases hd : T.2.2.2 with
    | some d =>
      rw [hd] at dP hNnt
      obtain ⟨o, X, hDX, hX⟩ := dP
      have hitJ : ItemC cx.cp cx.rs ⟨r, i0 + Hn.length + 2⟩ (.ljump ⟨o, Gen.op_jump, []⟩ (some X)) :=
        hp.here' ([LItem.op ⟨o0, hdr.name, hdr.params⟩] ++ Hn ++ [LItem.label (s.lbc + 1) false]) (Cn ++ [LItem.label eL false]) _
          (by rw [hDX]; lst) (by len_omega)
      exact R2.silL (lab_jump hitJ jump_isJump) (R2.silR (nodeStep_of hNnt) hX)
    | none =>
      rw [hd] at dP hNnt
      have hnd : hasDefault (.cons d0 n0 ps0 b0 r0) = false := by
        cases hh : hasDefault (.cons d0 n0 ps0 b0 r0) with
        | false => rfl
        | true => exact absurd hd (hdfl hh)
      obtain ⟨o, ho⟩ := hdops0 hnd
      have hDX : D = [LItem.ljump ⟨o, Gen.op_jump, []⟩ (some eL)] := by rw [dP, ho]
      have hitJ : ItemC cx.cp cx.rs ⟨r, i0 + Hn.length + 2⟩ (.ljump ⟨o, Gen.op_jump, []⟩ (some eL)) :=
        hp.here' ([LItem.op ⟨o0, hdr.name, hdr.params⟩] ++ Hn ++ [LItem.label (s.lbc + 1) false]) (Cn ++ [LItem.label eL false]) _
          (by rw [hDX]; lst) (by len_omega)
      exact R2.silL (lab_jump hitJ jump_isJump) (R2.silR (nodeStep_of hNnt) hbrk)
  have hfirst := tP (by rw [show i0 + 1 + Hn.length = i0 + 1 + Hn.length from rfl]; exact hnt)
  -- the switch op
  have hstep := lab_op hit0 hn.2 (.inl hnr)
  simp only [hne, Bool.false_and, Bool.false_eq_true, if_false] at hstep
  have hev : (⟨hdr.name, convParams (hdr.params.map cx.cp.sub)⟩ : Ev) = Src.substEv env.subst (hdrEv hdr) := he.ev hdr.name hdr.params
  rw [hev, LPos.next_eq r i0 (i0 + 1) rfl] at hstep
  refine ⟨R2.emit hstep (nodeStep_of hNe) hfirst.1, ?_⟩
  have hpush := Pushes.push b (.halt (evInvalid "switch default"))
  refine LabExport.mono xP hpush.len (fun i hi => hpush.same hi) (fun i hi => ?_)
  rw [(Pushes.push _ _).same (by rw [hlen3]; have := gT.len; have := hpush.len; omega), tbl_set, List.getElem?_set_ne (by omega)]

end ESV.Comp
