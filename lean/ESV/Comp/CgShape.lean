import ESV.Comp.CgStmts
/-
`codegen_correct`: the shape of what the block / header handlers collect.
-/
namespace ESV.Comp
open ESV ESV.Beh

/-- header jumps: one label jump per blueprint, with the blueprint's op, to the label `tgt` chooses -/
inductive HdrsTo (tgt : BP → Nat) : List BP → List LItem → Prop where
  | nil : HdrsTo tgt [] []
  | cons {b : BP} {bps : List BP} {js : List LItem} (n : Nat) : HdrsTo tgt bps js →
      HdrsTo tgt (b :: bps) (.ljump ⟨n, b.name, b.params⟩ (some (tgt b)) :: js)

theorem buildFor_stk {b : BP} {l : Nat} {s : St} {j : LItem} {s' : St} (h : buildFor b l s = .ok (j, s')) :
    SameStk s s' ∧ ∃ n, j = .ljump ⟨n, b.name, b.params⟩ (some l) := by
  unfold buildFor at h
  cases hn : b.number with
  | some k =>
    simp only [hn, pure_ok, Prod.mk.injEq] at h
    obtain ⟨rfl, rfl⟩ := h
    exact ⟨SameStk.refl _, _, rfl⟩
  | none =>
    simp only [hn, bind_ok, tickOp_ok, pure_ok] at h
    obtain ⟨n, s1, h1, h2⟩ := h
    simp only [Prod.mk.injEq] at h1 h2
    obtain ⟨rfl, rfl⟩ := h1
    obtain ⟨rfl, rfl⟩ := h2
    exact ⟨sameStk_tickedOp _ _, _, rfl⟩

theorem buildAll_shape (l : Nat) : ∀ (bps : List BP) (s : St) (js : List LItem) (s' : St),
    buildAll l bps s = .ok (js, s') → SameStk s s' ∧ HdrsTo (fun _ => l) bps js := by
  intro bps
  induction bps with
  | nil =>
    intro s js s' h
    simp only [buildAll, pure_ok, Prod.mk.injEq] at h
    obtain ⟨rfl, rfl⟩ := h
    exact ⟨SameStk.refl _, .nil⟩
  | cons b r ih =>
    intro s js s' h
    simp only [buildAll, bind_ok, pure_ok] at h
    obtain ⟨j, s1, h1, js', s2, h2, h3⟩ := h
    simp only [Prod.mk.injEq] at h3
    obtain ⟨rfl, rfl⟩ := h3
    obtain ⟨e1, n, rfl⟩ := buildFor_stk h1
    obtain ⟨e2, hh⟩ := ih _ _ _ h2
    exact ⟨e1.trans e2, .cons n hh⟩

theorem buildEach_shape (sl el : Nat) : ∀ (bps : List BP) (s : St) (js : List LItem) (s' : St),
    buildEach sl el bps s = .ok (js, s') → SameStk s s' ∧ HdrsTo (fun b => if b.positive then sl else el) bps js := by
  intro bps
  induction bps with
  | nil =>
    intro s js s' h
    simp only [buildEach, pure_ok, Prod.mk.injEq] at h
    obtain ⟨rfl, rfl⟩ := h
    exact ⟨SameStk.refl _, .nil⟩
  | cons b r ih =>
    intro s js s' h
    simp only [buildEach, bind_ok, pure_ok] at h
    obtain ⟨j, s1, h1, js', s2, h2, h3⟩ := h
    simp only [Prod.mk.injEq] at h3
    obtain ⟨rfl, rfl⟩ := h3
    obtain ⟨e1, n, rfl⟩ := buildFor_stk h1
    obtain ⟨e2, hh⟩ := ih _ _ _ h2
    exact ⟨e1.trans e2, .cons n hh⟩

theorem genJump_stk {l : Option Nat} {s : St} {j : LItem} {s' : St} (h : genJump l s = .ok (j, s')) :
    SameStk s s' ∧ j = .ljump ⟨s.opc + 1, Gen.op_jump, []⟩ l := by
  obtain ⟨rfl, rfl⟩ := genJump_spec h
  exact ⟨sameStk_tickedOp _ _, rfl⟩

/-- the two shapes of `_process_block` -/
theorem processBlock_shape {hjbs : List BP} {cf ins : Bool} {ops : List LItem} {s : St} {blk : Blk} {s' : St}
    (h : processBlock hjbs cf ins ops s = .ok (blk, s')) :
    SameStk s s' ∧
    ((∃ l, shortcutOf hjbs cf ops = some (some l) ∧ blk.items = [.label (s.lbc + 1) false] ∧ blk.start = some l ∧
        HdrsTo (fun _ => l) hjbs blk.hdrs) ∨
     (shortcutOf hjbs cf ops = none ∧ ∃ sL js, blk.items = [.label sL false] ++ ops ++ js ++ [.label (s.lbc + 1) false] ∧
        blk.start = some sL ∧ sL ≠ s.lbc + 1 ∧
        ((js = [] ∧ (ins && falls ops) = false) ∨ (∃ o, js = [.ljump ⟨o, Gen.op_jump, []⟩ none] ∧ (ins && falls ops) = true)) ∧
        HdrsTo (fun b => if b.positive then sL else s.lbc + 1) hjbs blk.hdrs)) := by
  simp only [processBlock, bind_ok, tickLbl_ok] at h
  obtain ⟨endL, s1, h1, h2⟩ := h
  simp only [Prod.mk.injEq] at h1
  obtain ⟨rfl, rfl⟩ := h1
  cases hsc : shortcutOf hjbs cf ops with
  | some o =>
    cases o with
    | none => rw [hsc] at h2; simp [processBlockAt, fail_ok] at h2
    | some l =>
      rw [hsc] at h2
      simp only [processBlockAt, bind_ok, pure_ok] at h2
      obtain ⟨hs, s2, h3, h4⟩ := h2
      simp only [Prod.mk.injEq] at h4
      obtain ⟨rfl, rfl⟩ := h4
      obtain ⟨e, hh⟩ := buildAll_shape _ _ _ _ _ h3
      exact ⟨(sameStk_tickedLbl s 1).trans e, .inl ⟨l, rfl, rfl, rfl, hh⟩⟩
  | none =>
    rw [hsc] at h2
    simp only [processBlockAt, bind_ok, pure_ok, tickLbl_ok] at h2
    obtain ⟨ops', s2, h3, startL, s3, h4, hs, s4, h5, h6⟩ := h2
    simp only [Prod.mk.injEq] at h4 h6
    obtain ⟨rfl, rfl⟩ := h4
    obtain ⟨rfl, rfl⟩ := h6
    obtain ⟨e5, hh⟩ := buildEach_shape _ _ _ _ _ _ h5
    have hl2 : s2.lbc = s.lbc + 1 ∧ SameStk (s.tickedLbl 1) s2 ∧
        ((ops' = ops ∧ (ins && falls ops) = false) ∨ (∃ o, ops' = ops ++ [.ljump ⟨o, Gen.op_jump, []⟩ none] ∧ (ins && falls ops) = true)) := by
      unfold withEndJump at h3
      split at h3
      · rename_i hc
        simp only [bind_ok, pure_ok] at h3
        obtain ⟨j, s5, h7, h8⟩ := h3
        simp only [Prod.mk.injEq] at h8
        obtain ⟨rfl, rfl⟩ := h8
        obtain ⟨e, rfl⟩ := genJump_stk h7
        obtain ⟨_, rfl⟩ := genJump_spec h7
        exact ⟨rfl, e, .inr ⟨_, rfl, hc⟩⟩
      · rename_i hc
        simp only [pure_ok, Prod.mk.injEq] at h3
        obtain ⟨rfl, rfl⟩ := h3
        exact ⟨rfl, SameStk.refl _, .inl ⟨rfl, by simpa using hc⟩⟩
    obtain ⟨hlbc, e2, hops⟩ := hl2
    refine ⟨(((sameStk_tickedLbl s 1).trans e2).trans (sameStk_tickedLbl s2 1)).trans e5, .inr ⟨rfl, s2.lbc + 1, ?_⟩⟩
    rcases hops with ⟨rfl, hc⟩ | ⟨o, rfl, hc⟩
    · exact ⟨[], by simp, rfl, by omega, .inl ⟨rfl, hc⟩, hh⟩
    · exact ⟨[.ljump ⟨o, Gen.op_jump, []⟩ none], by simp, rfl, by omega, .inr ⟨o, rfl, hc⟩, hh⟩

end ESV.Comp
