import ESV.Comp.CgIf
/-
`codegen_correct`: `IfBlock.collect` — headers, else part, elseifs (early and late blocks), the if-block as a piece.
-/
namespace ESV.Comp
open ESV ESV.Beh

/-- a collecting computation whose result is always a piece -/
def PM (cx : Cx) (mcomp : M (List LItem)) (trf : Nat → Src.B → Src.B × Nat) (env : Src.Env) : Prop :=
  ∀ s items s', mcomp s = .ok (items, s') → PieceOK cx items s s' trf env

/-! ### headers -/

theorem collectHdr_shape {h : Hdr} {pos : Bool} {s : St} {b : BP} {s' : St} (hh : collectHdr h pos s = .ok (b, s')) :
    SameStk s s' ∧ b.name = h.name ∧ b.params = h.params ∧ b.positive = pos := by
  unfold collectHdr at hh
  split at hh
  · simp only [bind_ok, tickOp_ok] at hh
    obtain ⟨n, s1, h1, h2⟩ := hh
    simp only [Prod.mk.injEq] at h1
    obtain ⟨rfl, rfl⟩ := h1
    split at h2
    · simp only [pure_ok, Prod.mk.injEq] at h2
      obtain ⟨rfl, rfl⟩ := h2
      exact ⟨sameStk_tickedOp _ _, rfl, rfl, rfl⟩
    · simp [fail_ok] at h2
  · simp only [pure_ok, Prod.mk.injEq] at hh
    obtain ⟨rfl, rfl⟩ := hh
    exact ⟨SameStk.refl _, rfl, rfl, rfl⟩

theorem collectIfHdrs_shape (pos : Bool) : ∀ (hs : List Hdr) (s : St) (bps : List BP) (s' : St),
    collectIfHdrs pos hs s = .ok (bps, s') → SameStk s s' ∧ NamesOf hs bps ∧ ∀ b ∈ bps, b.positive = pos := by
  intro hs
  induction hs with
  | nil =>
    intro s bps s' h
    simp only [collectIfHdrs, pure_ok, Prod.mk.injEq] at h
    obtain ⟨rfl, rfl⟩ := h
    exact ⟨SameStk.refl _, rfl, fun b hb => by simp at hb⟩
  | cons x r ih =>
    intro s bps s' h
    simp only [collectIfHdrs, bind_ok, allocate_ok, pure_ok] at h
    obtain ⟨b, s1, h1, n, s2, h2, bs, s3, h3, h4⟩ := h
    simp only [Prod.mk.injEq] at h2 h4
    obtain ⟨rfl, rfl⟩ := h2
    obtain ⟨rfl, rfl⟩ := h4
    obtain ⟨e1, a1, a2, a3⟩ := collectHdr_shape h1
    obtain ⟨e3, n3, p3⟩ := ih _ _ _ h3
    refine ⟨(e1.trans (sameStk_tickedOp _ _)).trans e3, ?_, fun b' hb' => ?_⟩
    · simp only [NamesOf, List.map_cons, BP.withNumber, a1, a2] at n3 ⊢
      rw [n3]
    · simp only [List.mem_cons] at hb'
      rcases hb' with rfl | hb'
      · exact a3
      · exact p3 b' hb'

theorem collectHdrs_shape (pos : Bool) : ∀ (hs : List Hdr) (s : St) (bps : List BP) (s' : St),
    collectHdrs pos hs s = .ok (bps, s') → SameStk s s' ∧ NamesOf hs bps ∧ ∀ b ∈ bps, b.positive = pos := by
  intro hs
  induction hs with
  | nil =>
    intro s bps s' h
    simp only [collectHdrs, pure_ok, Prod.mk.injEq] at h
    obtain ⟨rfl, rfl⟩ := h
    exact ⟨SameStk.refl _, rfl, fun b hb => by simp at hb⟩
  | cons x r ih =>
    intro s bps s' h
    simp only [collectHdrs, bind_ok, pure_ok] at h
    obtain ⟨b, s1, h1, bs, s3, h3, h4⟩ := h
    simp only [Prod.mk.injEq] at h4
    obtain ⟨rfl, rfl⟩ := h4
    obtain ⟨e1, a1, a2, a3⟩ := collectHdr_shape h1
    obtain ⟨e3, n3, p3⟩ := ih _ _ _ h3
    refine ⟨e1.trans e3, ?_, fun b' hb' => ?_⟩
    · simp only [NamesOf, List.map_cons, a1, a2] at n3 ⊢
      rw [n3]
    · simp only [List.mem_cons] at hb'
      rcases hb' with rfl | hb'
      · exact a3
      · exact p3 b' hb'

theorem allocateAll_shape : ∀ (bs : List BP) (s : St) (bps : List BP) (s' : St), allocateAll bs s = .ok (bps, s') →
    SameStk s s' ∧ bps.map (fun b => (b.name, b.params)) = bs.map (fun b => (b.name, b.params)) ∧
    ∀ pos, (∀ b ∈ bs, b.positive = pos) → ∀ b ∈ bps, b.positive = pos := by
  intro bs
  induction bs with
  | nil =>
    intro s bps s' h
    simp only [allocateAll, pure_ok, Prod.mk.injEq] at h
    obtain ⟨rfl, rfl⟩ := h
    exact ⟨SameStk.refl _, rfl, fun _ _ b hb => by simp at hb⟩
  | cons x r ih =>
    intro s bps s' h
    simp only [allocateAll, bind_ok, allocate_ok, pure_ok] at h
    obtain ⟨n, s1, h1, bs', s2, h2, h3⟩ := h
    simp only [Prod.mk.injEq] at h1 h3
    obtain ⟨rfl, rfl⟩ := h1
    obtain ⟨rfl, rfl⟩ := h3
    obtain ⟨e2, n2, p2⟩ := ih _ _ _ h2
    refine ⟨(sameStk_tickedOp _ _).trans e2, by simp [BP.withNumber, n2], fun pos hp b' hb' => ?_⟩
    simp only [List.mem_cons] at hb'
    rcases hb' with rfl | hb'
    · simpa [BP.withNumber] using hp x (by simp)
    · exact p2 pos (fun y hy => hp y (by simp [hy])) b' hb'

/-! ### the else part -/

theorem blockOf_brOK (cx : Cx) (fuel : Nat) (E : Nat) (s0 : St) (env : Src.Env) (neg : Bool) (hs : List Hdr) (bodyS : Stmts)
    {bps : List BP} {body : M (List LItem)} (hm : PM cx body (fun k b => Src.trStmts fuel cx.sm env (toSrcStmts bodyS) k b) env)
    {s : St} {blk : Blk} {s' : St} (hb : blockOf bps true true body s = .ok (blk, s')) (hok : HdrsOK hs) (hnm : NamesOf hs bps)
    (hpos : ∀ b ∈ bps, b.positive = !neg) (hstk : SameStk s0 s) :
    BrOK cx fuel E s0 env ⟨neg, hs, bodyS, blk.hdrs, patchNone E blk.items, s'⟩ ∧ SameStk s s' ∧ NoNone blk.hdrs ∧
      NoNone (patchNone E blk.items) ∧ patchNone E blk.items ≠ [] := by
  simp only [blockOf, bind_ok] at hb
  obtain ⟨ops, s1, h1, h2⟩ := hb
  have hp := hm _ _ _ h1
  obtain ⟨a, b, c, d, e⟩ := brOK_of_block cx fuel E s0 env neg hs bodyS hp h2 hok hnm hpos hstk
  exact ⟨a, hp.stk.trans b, c, d, e⟩

theorem elsePart_ok (cx : Cx) (fuel : Nat) (E : Nat) (s0 : St) (env : Src.Env) (hasElse : Bool) (elsS : Stmts)
    {els : M (List LItem)} (hm : PM cx els (fun k b => Src.trStmts fuel cx.sm env (toSrcStmts elsS) k b) env)
    {s : St} {ep : List LItem} {s' : St} (h : elsePartOf hasElse els s = .ok (ep, s')) (hstk : SameStk s0 s) :
    SameStk s s' ∧ ElseOK cx E s0 env s' (patchNone E ep)
      (fun k b => if hasElse then Src.trStmts fuel cx.sm env (toSrcStmts elsS) k b else (b, k)) := by
  unfold elsePartOf at h
  cases hasElse with
  | true =>
    simp only [↓reduceIte, bind_ok, pure_ok] at h
    obtain ⟨blk, s1, h1, h2⟩ := h
    simp only [Prod.mk.injEq] at h2
    obtain ⟨rfl, rfl⟩ := h2
    obtain ⟨br, st, _, nn, _⟩ := blockOf_brOK cx fuel E s0 env true [] elsS hm h1 (fun x hx => by simp at hx) rfl
      (fun b hb => by simp at hb) hstk
    obtain ⟨bps, tgt, eL, PB', _, _, _, _, hsem⟩ := br.negc rfl
    exact ⟨st, ⟨nn, br.grow, fun r q hp k b hag m j hex hin hend =>
      ⟨hsem r q hp k b hag m j hex hin hend, br.labs r q hp k b hag m j hex hin hend⟩⟩⟩
  | false =>
    simp only [Bool.false_eq_true, ↓reduceIte, bind_ok, pure_ok] at h
    obtain ⟨jj, s1, h1, h2⟩ := h
    simp only [Prod.mk.injEq] at h2
    obtain ⟨rfl, rfl⟩ := h2
    obtain ⟨e, rfl⟩ := genJump_stk h1
    have hP : patchNone E [LItem.ljump ⟨s.opc + 1, Gen.op_jump, []⟩ none] = [.ljump ⟨s.opc + 1, Gen.op_jump, []⟩ (some E)] := by
      simp [patchNone, patchItem]
    refine ⟨e, ⟨?_, fun k b => Grow.refl b, fun r q hp k b _ m j _ _ hend => ⟨?_, LabExport.same (fun _ _ => rfl)⟩⟩⟩
    · rw [hP]; intro x hx root e'; simp at hx; subst hx; cases e'
    · rw [hP] at hp
      have hit : ItemC cx.cp cx.rs ⟨r, q⟩ (.ljump ⟨s.opc + 1, Gen.op_jump, []⟩ (some E)) := by
        simpa using hp.item (d := 0) rfl
      exact end_jump_corr cx E hit hend

end ESV.Comp
