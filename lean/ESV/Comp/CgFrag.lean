import ESV.Comp.CgIf3
import ESV.Comp.CgFor
/-
`codegen_correct`: the fragment by level (`cgStmt lv`), the statements of F0 as pieces.
-/
namespace ESV.Comp
open ESV ESV.Beh

theorem cgCases_cons {lv : Nat} {sw : String} {nf d : Bool} {name : String} {ps : List Param} {body : Stmts} {r : Cases}
    (h : cgCases lv sw nf (.cons d name ps body r) = true) :
    (d = true ∨ (isTest name = true ∧ isTest (caseName sw name) = true)) ∧ (d = true ∨ loneExit body = false ∨ nf = true) ∧
    cgStmts lv body = true ∧ cgCases lv sw (if body.isNil then nf else (endsFlowStmts body || surelyFallsStmts body)) r = true := by
  simp only [cgCases, Bool.and_eq_true, Bool.or_eq_true, Bool.not_eq_true'] at h
  exact ⟨h.1.1.1, by rcases h.1.1.2 with (a | a) | a <;> simp [a], h.1.2, h.2⟩


theorem simpleOK_congr {cx : Cx} {items : List LItem} {t1 t2 : Nat → Src.B → Src.B × Nat}
    (h : SimpleOK cx items t1) (e : ∀ k b, t1 k b = t2 k b) : SimpleOK cx items t2 := by
  have : t1 = t2 := by funext k b; exact e k b
  rw [← this]; exact h

theorem pieceOK_congr {cx : Cx} {items : List LItem} {s s' : St} {t1 t2 : Nat → Src.B → Src.B × Nat} {env : Src.Env}
    (h : PieceOK cx items s s' t1 env) (e : ∀ k b, t1 k b = t2 k b) : PieceOK cx items s s' t2 env := by
  have : t1 = t2 := by funext k b; exact e k b
  rw [← this]; exact h

theorem pm_congr {cx : Cx} {mc : M (List LItem)} {t1 t2 : Nat → Src.B → Src.B × Nat} {env : Src.Env}
    (h : PM cx mc t1 env) (e : ∀ k b, t1 k b = t2 k b) : PM cx mc t2 env :=
  fun s items s' hs => pieceOK_congr (h s items s' hs) e

/-- a halting control statement is the op of its name -/
theorem ctl_simple (cx : Cx) (fuel : Nat) (env : Src.Env) (he : EnvOK cx env) (nm sn : String) (st : Src.Stmt)
    (hn : nameOK nm = true) (hf : Beh.endsFlow nm = true) (hnm : nm = sn) (hnr : nm ≠ Gen.op_return ∨ cx.cp.ret = none)
    (htr : ∀ k b, Src.tr fuel cx.sm env st k b = b.push (.halt ⟨sn, []⟩)) {s : St} {items : List LItem} {s' : St}
    (h : opStmt nm [] s = .ok (items, s')) :
    SimpleOK cx items (fun k b => Src.tr fuel cx.sm env st k b) ∧ SameStk s s' := by
  subst hnm
  obtain ⟨a, b⟩ := op_simple cx fuel nm [] hn hnr h env he
  refine ⟨simpleOK_congr a (fun k b => ?_), b⟩
  rw [htr, Src.tr]
  simp [hf, Src.substEv, convParams]

/-- `return;` : the end of the routine, or inside a macro expansion the jump to the end label of the expansion -/
theorem ret_pm (cx : Cx) (fuel : Nat) (env : Src.Env) (he : EnvOK cx env) :
    PM cx (opStmt Gen.op_return []) (fun k b => Src.tr fuel cx.sm env .ret k b) env := by
  intro s items s' h
  cases hr : env.ret with
  | none =>
    obtain ⟨a, b⟩ := ctl_simple cx fuel env he Gen.op_return ESV.Spec.op_return .ret ctl_names.1 ctl_names.2.2.2.1 ctl_names.2.2.2.2.2.2.1
      (.inr (he.retNone hr)) (fun k b => by rw [Src.tr]; simp [hr]) h
    exact a.piece b env
  | some kr =>
    obtain ⟨e, hce⟩ := he.retSome hr
    simp only [opStmt, bind_ok, pure_ok] at h
    obtain ⟨o, s1, h1, h2⟩ := h
    simp only [Prod.mk.injEq] at h2
    obtain ⟨rfl, rfl⟩ := h2
    obtain ⟨rfl, rfl⟩ := genOp_spec h1
    have htr : ∀ k b, Src.tr fuel cx.sm env .ret k b = (b, kr) := by
      intro k b; rw [Src.tr]; simp [hr]
    have hst := sameStk_tickedOp s 1
    refine ⟨hst.1, hst.2, hst.3, ?_, ?_, ?_, ?_, ?_, ?_⟩
    · have : isCtx Gen.op_return = false := by decide
      simp [lastNotCtx, isCtxL, this]
    · intro x hx root e'; simp at hx; subst hx; cases e'
    · intro h0; simp at h0
    · intro l hl; simp [loneJump] at hl
    · intro k b; rw [htr]; exact Grow.refl b
    intro r i0 hp _ k b _ m j hex _ _
    rw [htr]
    have hit : ItemC cx.cp cx.rs ⟨r, i0⟩ (.op ⟨s.opc + 1, Gen.op_return, []⟩) := by simpa using hp.item (d := 0) rfl
    exact ⟨R2.silL (lab_ret hit rfl hce) (hex.ret kr e hr hce), LabExport.same (fun _ _ => rfl)⟩

/-- an op under a context: inline context, or a with-block -/
theorem ctx_pm (cx : Cx) (fuel : Nat) (env : Src.Env) (he : EnvOK cx env) (c : String) (cp : ESV.Param) (n : String) (ps : List ESV.Param)
    (hc : isCtx c = true) (hn : nameOK n = true) (hnr : n ≠ Gen.op_return) (inner : Src.Stmt) (en : Ev)
    (hen : (⟨n, convParams (ps.map cx.cp.sub)⟩ : Ev) = en)
    (hspec : ∀ k b, Src.afterCtxSpecial env inner k b = some (b.push (.emit en k)))
    {mc : M (List LItem)}
    (hmc : ∀ s items s', mc s = .ok (items, s') → ∃ oc oo, items = [.op ⟨oc, c, [cp]⟩, .op ⟨oo, n, ps⟩] ∧ SameStk s s')
    {s : St} {items : List LItem} {s' : St} (h : mc s = .ok (items, s')) :
    SimpleOK cx items (fun k b => Src.tr fuel cx.sm env (.ctx c [convParam cp] inner) k b) ∧ SameStk s s' := by
  obtain ⟨oc, oo, rfl, hst⟩ := hmc s items s' h
  refine ⟨ctx_simple cx c cp n ps hc hn hnr oc oo en (Src.substEv env.subst ⟨c, [convParam cp]⟩) hen (he.ev c [cp]) _ (fun k b => ?_), hst⟩
  rw [Src.tr]
  simp only [hspec]

theorem inl_shape {c : String} {cp : ESV.Param} {n : String} {ps : List ESV.Param} {s : St} {items : List LItem} {s' : St}
    (h : inlStmt c cp n ps s = .ok (items, s')) : ∃ oc oo, items = [.op ⟨oc, c, [cp]⟩, .op ⟨oo, n, ps⟩] ∧ SameStk s s' := by
  simp only [inlStmt, bind_ok, pure_ok] at h
  obtain ⟨co, s1, h1, o, s2, h2, h3⟩ := h
  simp only [Prod.mk.injEq] at h3
  obtain ⟨rfl, rfl⟩ := h3
  obtain ⟨rfl, rfl⟩ := genOp_spec h1
  obtain ⟨rfl, rfl⟩ := genOp_spec h2
  exact ⟨_, _, rfl, (sameStk_tickedOp _ _).trans (sameStk_tickedOp _ _)⟩

theorem with_shape {c : String} {cp : ESV.Param} {n : String} {ps : List ESV.Param} {s : St} {items : List LItem} {s' : St}
    (h : withOf c cp (opStmt n ps) s = .ok (items, s')) : ∃ oc oo, items = [.op ⟨oc, c, [cp]⟩, .op ⟨oo, n, ps⟩] ∧ SameStk s s' := by
  simp only [withOf, bind_ok] at h
  obtain ⟨co, s1, h1, sub, s2, h2, h3⟩ := h
  obtain ⟨rfl, rfl⟩ := genOp_spec h1
  simp only [opStmt, bind_ok, pure_ok] at h2
  obtain ⟨o, s3, h4, h5⟩ := h2
  simp only [Prod.mk.injEq] at h5
  obtain ⟨rfl, rfl⟩ := h5
  obtain ⟨rfl, rfl⟩ := genOp_spec h4
  simp only [List.length_singleton, beq_self_eq_true, if_true, pure_ok, Prod.mk.injEq] at h3
  obtain ⟨rfl, rfl⟩ := h3
  exact ⟨_, _, rfl, (sameStk_tickedOp _ _).trans (sameStk_tickedOp _ _)⟩

theorem patchNone_if (e : Nat) (c : Bool) (l : List LItem) : patchNone e (if c then l else []) = if c then patchNone e l else [] := by
  cases c <;> rfl

/-- the statements of F0 never look at the exits -/
theorem simple_c (cx : Cx) (fuel : Nat) : ∀ (st : Stmt) (lb : Nat), cgSimple st = true → ∀ (env : Src.Env), EnvOK cx env →
    ∀ (s : St) (items : List LItem) (s' : St), cStmt cx.cm lb st s = .ok (items, s') →
    SimpleOK cx items (fun k b => Src.tr fuel cx.sm env (toSrcStmt st) k b) ∧ SameStk s s'
  | .op n ps, lb, hg, env, he => by
    intro s items s' h
    simp only [cgSimple, Bool.and_eq_true, bne_iff_ne, ne_eq] at hg
    simp only [cStmt, toSrcStmt] at h ⊢
    exact op_simple cx fuel n ps hg.1 (.inl hg.2) h env he
  | .end_, lb, _, env, he => by
    intro s items s' h
    simp only [cStmt, toSrcStmt] at h ⊢
    exact ctl_simple cx fuel env he Gen.op_end ESV.Spec.op_end .end_ ctl_names.2.1 ctl_names.2.2.2.2.1 ctl_names.2.2.2.2.2.2.2.1
      (.inl (by decide)) (fun k b => by rw [Src.tr]) h
  | .hold, lb, _, env, he => by
    intro s items s' h
    simp only [cStmt, toSrcStmt] at h ⊢
    exact ctl_simple cx fuel env he Gen.op_hold ESV.Spec.op_hold .hold ctl_names.2.2.1 ctl_names.2.2.2.2.2.1 ctl_names.2.2.2.2.2.2.2.2
      (.inl (by decide)) (fun k b => by rw [Src.tr]) h
  | .inl c cp n ps, lb, hg, env, he => by
    intro s items s' h
    simp only [cgSimple, Bool.and_eq_true, bne_iff_ne, ne_eq] at hg
    simp only [cStmt, toSrcStmt] at h ⊢
    exact ctx_pm cx fuel env he c cp n ps hg.1.1 hg.1.2 hg.2 _ _ (he.ev n ps) (fun k b => by simp [Src.afterCtxSpecial])
      (fun s items s' h => inl_shape h) h
  | .with_ c cp inner, lb, hg, env, he => by
    intro s items s' h
    simp only [cgSimple, Bool.and_eq_true] at hg
    cases inner with
    | op n ps =>
      simp only [f0Inner, Bool.and_eq_true, bne_iff_ne, ne_eq] at hg
      simp only [cStmt, toSrcStmt] at h ⊢
      exact ctx_pm cx fuel env he c cp n ps hg.1 hg.2.1 hg.2.2 _ _ (he.ev n ps) (fun k b => by simp [Src.afterCtxSpecial])
        (fun s items s' h => with_shape h) h
    | end_ =>
      simp only [cStmt, toSrcStmt] at h ⊢
      exact ctx_pm cx fuel env he c cp Gen.op_end [] hg.1 ctl_names.2.1 (by decide) _ ⟨ESV.Spec.op_end, []⟩ (by rw [← ctl_names.2.2.2.2.2.2.2.1]; rfl)
        (fun k b => by simp [Src.afterCtxSpecial]) (fun s items s' h => with_shape h) h
    | hold =>
      simp only [cStmt, toSrcStmt] at h ⊢
      exact ctx_pm cx fuel env he c cp Gen.op_hold [] hg.1 ctl_names.2.2.1 (by decide) _ ⟨ESV.Spec.op_hold, []⟩ (by rw [← ctl_names.2.2.2.2.2.2.2.2]; rfl)
        (fun k b => by simp [Src.afterCtxSpecial]) (fun s items s' h => with_shape h) h
    | _ => simp [f0Inner] at hg
  | .ret, _, hg, _, _ => by simp [cgSimple] at hg
  | .ite .., _, hg, _, _ => by simp [cgSimple] at hg
  | .label _, _, hg, _, _ => by simp [cgSimple] at hg
  | .jump _, _, hg, _, _ => by simp [cgSimple] at hg
  | .call _, _, hg, _, _ => by simp [cgSimple] at hg
  | .brk, _, hg, _, _ => by simp [cgSimple] at hg
  | .cont, _, hg, _, _ => by simp [cgSimple] at hg
  | .brkLoop, _, hg, _, _ => by simp [cgSimple] at hg
  | .switch .., _, hg, _, _ => by simp [cgSimple] at hg
  | .forever .., _, hg, _, _ => by simp [cgSimple] at hg
  | .while_ .., _, hg, _, _ => by simp [cgSimple] at hg
  | .for_ .., _, hg, _, _ => by simp [cgSimple] at hg
  | .macroCall .., _, hg, _, _ => by simp [cgSimple] at hg

theorem simple_pm (cx : Cx) (fuel : Nat) (st : Stmt) (lb : Nat) (hg : cgSimple st = true) (env : Src.Env) (he : EnvOK cx env) :
    PM cx (cStmt cx.cm lb st) (fun k b => Src.tr fuel cx.sm env (toSrcStmt st) k b) env := by
  intro s items s' h
  obtain ⟨a, b⟩ := simple_c cx fuel st lb hg env he s items s' h
  exact a.piece b env

end ESV.Comp
