import ESV.Beh.Lts
/-
Generic simulation arguments for transition systems with silent steps (used by the back-end correctness proof):

* `sim_of_rel`: a (Prop-valued, possibly infinite) relation in which every step of the left system is matched by the
  right system after finitely many silent steps implies `Sim` (generalises `check_sound_left`; a left state that
  diverges silently needs no partner step, exactly as `Sim` reads it);
* `equiv_of_map`: a map `φ` of states under which the *good* states step alike, every other state of interest
  silently reaching a good state (or a halt) on both sides, gives `Equivalent a (φ a)`.
-/
namespace ESV.Beh
variable {ε : Type}

/-- finitely many silent steps -/
inductive SilentStar (L : LTS ε) : L.σ → L.σ → Prop where
  | refl (a : L.σ) : SilentStar L a a
  | step {a b c : L.σ} (h : L.step a = .silent b) (t : SilentStar L b c) : SilentStar L a c

theorem SilentStar.trans {L : LTS ε} {a b c : L.σ} (h₁ : SilentStar L a b) (h₂ : SilentStar L b c) :
    SilentStar L a c := by
  induction h₁ with
  | refl => exact h₂
  | step h _ ih => exact .step h (ih h₂)

theorem SilentStar.one {L : LTS ε} {a b : L.σ} (h : L.step a = .silent b) : SilentStar L a b :=
  .step h (.refl b)

theorem SilentStar.run {L : LTS ε} {a b : L.σ} (h : SilentStar L a b) (ω : Nat → Bool) :
    ∃ j, ∀ m k, run L ω (j + m) k a = run L ω m k b := by
  induction h with
  | refl => exact ⟨0, fun m k => by simp⟩
  | step hs _ ih =>
    obtain ⟨j, hj⟩ := ih
    refine ⟨j + 1, fun m k => ?_⟩
    have : j + 1 + m = (j + m) + 1 := by omega
    rw [this]
    simp only [ESV.Beh.run, hs]
    exact hj m k

/-- the step of `a` is matched by `b` after finitely many silent steps, successors again related -/
def Matches (L₁ L₂ : LTS ε) (R : L₁.σ → L₂.σ → Prop) (a : L₁.σ) (b : L₂.σ) : Prop :=
  match L₁.step a with
  | .silent a' => ∃ b', SilentStar L₂ b b' ∧ R a' b'
  | .emit e a' => ∃ b₀ b', SilentStar L₂ b b₀ ∧ L₂.step b₀ = .emit e b' ∧ R a' b'
  | .test e y n => ∃ b₀ y' n', SilentStar L₂ b b₀ ∧ L₂.step b₀ = .test e y' n' ∧ R y y' ∧ R n n'
  | .halt e => ∃ b₀, SilentStar L₂ b b₀ ∧ L₂.step b₀ = .halt e

/-- **Simulation from a relation.** -/
theorem sim_of_rel (L₁ L₂ : LTS ε) (R : L₁.σ → L₂.σ → Prop)
    (h : ∀ a b, R a b → Matches L₁ L₂ R a b) : ∀ a b, R a b → Sim L₁ L₂ a b := by
  intro a b hab ω n
  induction n generalizing a b with
  | zero => intro k; exact ⟨0, by simp [ESV.Beh.run], by simp [ESV.Beh.run]⟩
  | succ n ih =>
    intro k
    have hm := h a b hab
    unfold Matches at hm
    cases hs : L₁.step a with
    | silent a' =>
      rw [hs] at hm
      obtain ⟨b', hb, hr⟩ := hm
      obtain ⟨j, hj⟩ := hb.run ω
      obtain ⟨m, p1, p2⟩ := ih a' b' hr k
      have e1 : run L₁ ω (n + 1) k a = run L₁ ω n k a' := by simp only [ESV.Beh.run, hs]
      refine ⟨j + m, ?_, ?_⟩
      · rw [e1, hj]; exact p1
      · rw [e1, hj]; exact p2
    | emit e a' =>
      rw [hs] at hm
      obtain ⟨b₀, b', hb, hb2, hr⟩ := hm
      obtain ⟨j, hj⟩ := hb.run ω
      obtain ⟨m, p1, p2⟩ := ih a' b' hr k
      have e1 : run L₁ ω (n + 1) k a = (Obs.op e :: (run L₁ ω n k a').1, (run L₁ ω n k a').2) := by
        simp only [ESV.Beh.run, hs]
      have e2 : run L₂ ω (j + (m + 1)) k b = (Obs.op e :: (run L₂ ω m k b').1, (run L₂ ω m k b').2) := by
        rw [hj]; simp only [ESV.Beh.run, hb2]
      refine ⟨j + (m + 1), ?_, ?_⟩
      · rw [e1, e2]
        exact List.prefix_cons_inj _ |>.mpr p1
      · rw [e1, e2]
        intro hh
        obtain ⟨q1, q2⟩ := p2 hh
        exact ⟨q1, by simp only [q2]⟩
    | test e y no =>
      rw [hs] at hm
      obtain ⟨b₀, y', n', hb, hb2, hy, hn⟩ := hm
      obtain ⟨j, hj⟩ := hb.run ω
      have hr : R (if ω k then y else no) (if ω k then y' else n') := by
        cases ω k <;> simp [hy, hn]
      obtain ⟨m, p1, p2⟩ := ih _ _ hr (k + 1)
      have e1 : run L₁ ω (n + 1) k a = (Obs.tst e (ω k) :: (run L₁ ω n (k + 1) (if ω k then y else no)).1,
          (run L₁ ω n (k + 1) (if ω k then y else no)).2) := by
        simp only [ESV.Beh.run, hs]
      have e2 : run L₂ ω (j + (m + 1)) k b = (Obs.tst e (ω k) :: (run L₂ ω m (k + 1) (if ω k then y' else n')).1,
          (run L₂ ω m (k + 1) (if ω k then y' else n')).2) := by
        rw [hj]; simp only [ESV.Beh.run, hb2]
      refine ⟨j + (m + 1), ?_, ?_⟩
      · rw [e1, e2]
        exact List.prefix_cons_inj _ |>.mpr p1
      · rw [e1, e2]
        intro hh
        obtain ⟨q1, q2⟩ := p2 hh
        exact ⟨q1, by simp only [q2]⟩
    | halt e =>
      rw [hs] at hm
      obtain ⟨b₀, hb, hb2⟩ := hm
      obtain ⟨j, hj⟩ := hb.run ω
      have e1 : run L₁ ω (n + 1) k a = ([Obs.stop e], none) := by simp only [ESV.Beh.run, hs]
      have e2 : run L₂ ω (j + 1) k b = ([Obs.stop e], none) := by
        rw [hj]; simp only [ESV.Beh.run, hb2]
      refine ⟨j + 1, ?_, ?_⟩
      · rw [e1, e2]; exact List.prefix_refl _
      · rw [e1, e2]; intro _; exact ⟨rfl, rfl⟩

/-! ### equivalence along a state map -/

section map
variable (L₁ L₂ : LTS ε) (φ : L₁.σ → L₂.σ) (Good : L₁.σ → Prop)

/-- `a` and `b` silently reach a good state and its image, or silently reach halts with the same event -/
def MapRel (a : L₁.σ) (b : L₂.σ) : Prop :=
  (∃ x, Good x ∧ SilentStar L₁ a x ∧ SilentStar L₂ b (φ x)) ∨
  (∃ e a₀ b₀, SilentStar L₁ a a₀ ∧ L₁.step a₀ = .halt e ∧ SilentStar L₂ b b₀ ∧ L₂.step b₀ = .halt e)

/-- a good state and its image step alike, and the successors are related again -/
def StepCorr (x : L₁.σ) : Prop :=
  match L₁.step x with
  | .silent x' => L₂.step (φ x) = .silent (φ x') ∧ MapRel L₁ L₂ φ Good x' (φ x')
  | .emit e x' => L₂.step (φ x) = .emit e (φ x') ∧ MapRel L₁ L₂ φ Good x' (φ x')
  | .test e y n => L₂.step (φ x) = .test e (φ y) (φ n) ∧ MapRel L₁ L₂ φ Good y (φ y) ∧ MapRel L₁ L₂ φ Good n (φ n)
  | .halt e => L₂.step (φ x) = .halt e

variable {L₁ L₂ φ Good}

theorem mapRel_matches_left (hc : ∀ x, Good x → StepCorr L₁ L₂ φ Good x) (a : L₁.σ) (b : L₂.σ)
    (hr : MapRel L₁ L₂ φ Good a b) : Matches L₁ L₂ (MapRel L₁ L₂ φ Good) a b := by
  unfold Matches
  rcases hr with ⟨x, hg, ha, hb⟩ | ⟨e, a₀, b₀, ha, hae, hb, hbe⟩
  · cases ha with
    | refl =>
      have hx := hc a hg
      unfold StepCorr at hx
      cases hs : L₁.step a with
      | silent a' =>
        rw [hs] at hx
        exact ⟨φ a', hb.trans (.one hx.1), hx.2⟩
      | emit e a' =>
        rw [hs] at hx
        exact ⟨φ a, φ a', hb, hx.1, hx.2⟩
      | test e y n =>
        rw [hs] at hx
        exact ⟨φ a, φ y, φ n, hb, hx.1, hx.2.1, hx.2.2⟩
      | halt e =>
        rw [hs] at hx
        exact ⟨φ a, hb, hx⟩
    | step h t =>
      rw [h]
      exact ⟨b, .refl b, .inl ⟨x, hg, t, hb⟩⟩
  · cases ha with
    | refl =>
      rw [hae]
      exact ⟨b₀, hb, hbe⟩
    | step h t =>
      rw [h]
      exact ⟨b, .refl b, .inr ⟨e, a₀, b₀, t, hae, hb, hbe⟩⟩

theorem mapRel_matches_right (hc : ∀ x, Good x → StepCorr L₁ L₂ φ Good x) (b : L₂.σ) (a : L₁.σ)
    (hr : MapRel L₁ L₂ φ Good a b) : Matches L₂ L₁ (fun b a => MapRel L₁ L₂ φ Good a b) b a := by
  unfold Matches
  rcases hr with ⟨x, hg, ha, hb⟩ | ⟨e, a₀, b₀, ha, hae, hb, hbe⟩
  · cases hb with
    | refl =>
      have hx := hc x hg
      unfold StepCorr at hx
      cases hs : L₁.step x with
      | silent x' =>
        rw [hs] at hx
        rw [hx.1]
        exact ⟨x', ha.trans (.one hs), hx.2⟩
      | emit e x' =>
        rw [hs] at hx
        rw [hx.1]
        exact ⟨x, x', ha, hs, hx.2⟩
      | test e y n =>
        rw [hs] at hx
        rw [hx.1]
        exact ⟨x, y, n, ha, hs, hx.2.1, hx.2.2⟩
      | halt e =>
        rw [hs] at hx
        rw [hx]
        exact ⟨x, ha, hs⟩
    | step h t =>
      rw [h]
      exact ⟨a, .refl a, .inl ⟨x, hg, ha, t⟩⟩
  · cases hb with
    | refl =>
      rw [hbe]
      exact ⟨a₀, ha, hae⟩
    | step h t =>
      rw [h]
      exact ⟨a, .refl a, .inr ⟨e, a₀, b₀, ha, hae, t, hbe⟩⟩

/-- **Equivalence along a map.** -/
theorem equiv_of_map (hc : ∀ x, Good x → StepCorr L₁ L₂ φ Good x) (a : L₁.σ) (b : L₂.σ)
    (hr : MapRel L₁ L₂ φ Good a b) : Equivalent L₁ L₂ a b :=
  ⟨sim_of_rel L₁ L₂ _ (mapRel_matches_left hc) a b hr,
   sim_of_rel L₂ L₁ _ (fun b a h => mapRel_matches_right hc b a h) b a hr⟩

theorem MapRel.step_left {a a' : L₁.σ} {b : L₂.σ} (h : L₁.step a = .silent a')
    (r : MapRel L₁ L₂ φ Good a' b) : MapRel L₁ L₂ φ Good a b := by
  rcases r with ⟨x, hg, ha, hb⟩ | ⟨e, a₀, b₀, ha, hae, hb, hbe⟩
  · exact .inl ⟨x, hg, .step h ha, hb⟩
  · exact .inr ⟨e, a₀, b₀, .step h ha, hae, hb, hbe⟩

theorem MapRel.good {x : L₁.σ} (h : Good x) : MapRel L₁ L₂ φ Good x (φ x) :=
  .inl ⟨x, h, .refl x, .refl (φ x)⟩

end map

/-! ### refuting a simulation -/

/-- once a run has halted with trace `T`, every run from the same state shows a prefix of `T` -/
theorem run_prefix_of_halted (L : LTS ε) (ω : Nat → Bool) : ∀ (m0 m k : Nat) (b : L.σ) (T : List (Obs ε)),
    run L ω m0 k b = (T, none) → (run L ω m k b).1 <+: T := by
  intro m0
  induction m0 with
  | zero => intro m k b T h; simp [run] at h
  | succ m0 ih =>
    intro m k b T h
    cases m with
    | zero => simp [run]
    | succ m =>
      simp only [run] at h ⊢
      cases hs : L.step b with
      | silent b' =>
        simp only [hs] at h ⊢
        exact ih m k b' T h
      | emit e b' =>
        simp only [hs] at h ⊢
        obtain ⟨rfl, h2⟩ := Prod.mk.inj h
        exact List.prefix_cons_inj _ |>.mpr (ih m k b' _ (Prod.ext rfl h2))
      | test e y n =>
        simp only [hs] at h ⊢
        obtain ⟨rfl, h2⟩ := Prod.mk.inj h
        exact List.prefix_cons_inj _ |>.mpr (ih m (k + 1) _ _ (Prod.ext rfl h2))
      | halt e =>
        simp only [hs] at h ⊢
        obtain ⟨rfl, _⟩ := Prod.mk.inj h
        exact List.prefix_refl _

/-- a trace of the left system that is not a prefix of the final trace of the (halting) right system refutes `Sim` -/
theorem not_sim_of_halted [DecidableEq ε] (L₁ L₂ : LTS ε) (a : L₁.σ) (b : L₂.σ) (ω : Nat → Bool) (n m0 k : Nat)
    (T : List (Obs ε)) (h2 : run L₂ ω m0 k b = (T, none)) (h1 : (run L₁ ω n k a).1.isPrefixOf T = false) :
    ¬ Sim L₁ L₂ a b := by
  intro hs
  obtain ⟨m, hp, _⟩ := hs ω n k
  have := hp.trans (run_prefix_of_halted L₂ ω m0 m k b T h2)
  rw [← List.isPrefixOf_iff_prefix] at this
  rw [this] at h1
  cases h1

theorem not_sim_of_halted' [DecidableEq ε] (L₁ L₂ : LTS ε) (a : L₁.σ) (b : L₂.σ) (ω : Nat → Bool) (n m0 k : Nat)
    (h2 : (run L₂ ω m0 k b).2 = none) (h1 : (run L₁ ω n k a).1.isPrefixOf (run L₂ ω m0 k b).1 = false) :
    ¬ Sim L₁ L₂ a b :=
  not_sim_of_halted L₁ L₂ a b ω n m0 k _ (Prod.ext rfl h2) h1

end ESV.Beh
