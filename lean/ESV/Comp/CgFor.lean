import ESV.Comp.CgWhile
/-
`codegen_correct`, loops: `for (init; test; inc) { body }`.
-/
namespace ESV.Comp
open ESV ESV.Beh

local macro "len_omega" : tactic =>
  `(tactic| ((try simp only [List.length_append, List.length_cons, List.length_nil]) <;> (try omega)))
local macro "lst" : tactic => `(tactic| ((try simp only [List.append_assoc, List.cons_append, List.nil_append]) <;> (try rfl)))

theorem tr_for (fuel : Nat) (sm : List Src.Macro) (env : Src.Env) (init inc : Src.Stmt) (t : Ev) (B : Src.Stmts) (k : Nat) (b : Src.B) :
    Src.tr fuel sm env (.for_ init t inc B) k b =
      Src.tr fuel sm env init (tbl b).length
        ((Src.trStmts fuel sm (loopEnv env (Src.tr fuel sm env inc (tbl b).length (b.push (.halt (evInvalid "loop test"))).1).2 k) B
            (Src.tr fuel sm env inc (tbl b).length (b.push (.halt (evInvalid "loop test"))).1).2
            (Src.tr fuel sm env inc (tbl b).length (b.push (.halt (evInvalid "loop test"))).1).1).1.set (tbl b).length
          (.test (Src.substEv env.subst t) (Src.trStmts fuel sm (loopEnv env (Src.tr fuel sm env inc (tbl b).length (b.push (.halt (evInvalid "loop test"))).1).2 k) B
            (Src.tr fuel sm env inc (tbl b).length (b.push (.halt (evInvalid "loop test"))).1).2
            (Src.tr fuel sm env inc (tbl b).length (b.push (.halt (evInvalid "loop test"))).1).1).2 k)) := by
  rw [Src.tr]; rfl

theorem afterCtxL_label {c : Copy} {rs : List (List LItem)} {r i : Nat} {l : Nat} {nm : Bool} (h : ItemC c rs ⟨r, i⟩ (.label l nm)) :
    afterCtxL rs ⟨r, i + 1⟩ = false := by
  rw [afterCtxL_itemC h]; rfl

theorem for_core (cx : Cx) (fuel : Nat) (env : Src.Env) (he : EnvOK cx env) (lb : Nat) (hd : Hdr) (init inc : Stmt) (body : Stmts)
    (ht : isTest hd.name = true) {s sa sb s' : St} {ii ee ops : List LItem} (o1 o2 sL eB : Nat)
    (hI : SimpleOK cx ii (fun k b => Src.tr fuel cx.sm env (toSrcStmt init) k b))
    (hE : SimpleOK cx ee (fun k b => Src.tr fuel cx.sm env (toSrcStmt inc) k b))
    (hP : ∀ env', EnvOK cx env' → PieceOK cx ops sa sb (fun k b => Src.trStmts fuel cx.sm env' (toSrcStmts body) k b) env')
    (hsaL : sa.loops = (lb + 4, lb + 2) :: s.loops) (hsaC : sa.cases = s.cases) (hl : s'.loops = s.loops) (hc : s'.cases = s.cases)
    (hnA : NamedLe s sa) (hnB : NamedLe sb s') :
    PieceOK cx ([LItem.label (lb + 1) false] ++ ii ++ [LItem.ljump ⟨o1, Gen.op_jump, []⟩ (some (lb + 5)), LItem.label (lb + 3) false] ++
        ([LItem.label sL false] ++ ops ++ [LItem.label eB false]) ++ [LItem.label (lb + 4) false] ++ ee ++
        [LItem.label (lb + 5) false, LItem.ljump ⟨o2, hd.name, hd.params⟩ (some (lb + 3)), LItem.label (lb + 2) false]) s s'
      (fun k b => Src.tr fuel cx.sm env (.for_ (toSrcStmt init) (hdrEv hd) (toSrcStmt inc) (toSrcStmts body)) k b) env := by
  have hP0 := hP env he
  have htr := fun k b => tr_for fuel cx.sm env (toSrcStmt init) (toSrcStmt inc) (hdrEv hd) (toSrcStmts body) k b
  have hg4 : ∀ k b, Grow cx.Z b
      ((Src.trStmts fuel cx.sm (loopEnv env (Src.tr fuel cx.sm env (toSrcStmt inc) (tbl b).length (b.push (.halt (evInvalid "loop test"))).1).2 k)
          (toSrcStmts body) (Src.tr fuel cx.sm env (toSrcStmt inc) (tbl b).length (b.push (.halt (evInvalid "loop test"))).1).2
          (Src.tr fuel cx.sm env (toSrcStmt inc) (tbl b).length (b.push (.halt (evInvalid "loop test"))).1).1).1.set (tbl b).length
        (.test (Src.substEv env.subst (hdrEv hd)) (Src.trStmts fuel cx.sm (loopEnv env (Src.tr fuel cx.sm env (toSrcStmt inc) (tbl b).length (b.push (.halt (evInvalid "loop test"))).1).2 k)
          (toSrcStmts body) (Src.tr fuel cx.sm env (toSrcStmt inc) (tbl b).length (b.push (.halt (evInvalid "loop test"))).1).2
          (Src.tr fuel cx.sm env (toSrcStmt inc) (tbl b).length (b.push (.halt (evInvalid "loop test"))).1).1).2 k)) := by
    intro k b
    exact (((Grow.push b _).trans (hE.grow _ _)).trans ((hP _ (plainEnv_loopEnv he _ _)).grow _ _)).set_ge (Nat.le_refl _) _
  have hgrow : ∀ k b, Grow cx.Z b (Src.tr fuel cx.sm env (.for_ (toSrcStmt init) (hdrEv hd) (toSrcStmt inc) (toSrcStmts body)) k b).1 := by
    intro k b
    rw [htr]
    exact (hg4 k b).trans (hI.grow _ _)
  have hfalls : falls ([LItem.label (lb + 1) false] ++ ii ++ [LItem.ljump ⟨o1, Gen.op_jump, []⟩ (some (lb + 5)), LItem.label (lb + 3) false] ++
        ([LItem.label sL false] ++ ops ++ [LItem.label eB false]) ++ [LItem.label (lb + 4) false] ++ ee ++
        [LItem.label (lb + 5) false, LItem.ljump ⟨o2, hd.name, hd.params⟩ (some (lb + 3)), LItem.label (lb + 2) false]) = true := by
    have := falls_snoc_label ([LItem.label (lb + 1) false] ++ ii ++ [LItem.ljump ⟨o1, Gen.op_jump, []⟩ (some (lb + 5)), LItem.label (lb + 3) false] ++
        ([LItem.label sL false] ++ ops ++ [LItem.label eB false]) ++ [LItem.label (lb + 4) false] ++ ee ++
        [LItem.label (lb + 5) false, LItem.ljump ⟨o2, hd.name, hd.params⟩ (some (lb + 3))]) (lb + 2) false
    simpa [List.append_assoc] using this
  refine ⟨hl, hc, (hnA.trans hP0.named).trans hnB, ?_, ?_, ?_, ?_, hgrow, ?_⟩
  · have := lastNotCtx_snoc_label ([LItem.label (lb + 1) false] ++ ii ++ [LItem.ljump ⟨o1, Gen.op_jump, []⟩ (some (lb + 5)), LItem.label (lb + 3) false] ++
        ([LItem.label sL false] ++ ops ++ [LItem.label eB false]) ++ [LItem.label (lb + 4) false] ++ ee ++
        [LItem.label (lb + 5) false, LItem.ljump ⟨o2, hd.name, hd.params⟩ (some (lb + 3))]) (lb + 2) false
    simpa [List.append_assoc] using this
  · exact ((((((noNone_label _ _).append hI.nonone).append ((noNone_jump _ _).append (noNone_label _ _))).append
      (((noNone_label _ _).append hP0.nonone).append (noNone_label _ _))).append (noNone_label _ _)).append hE.nonone).append
      (((noNone_label _ _).append (noNone_jump _ _)).append (noNone_label _ _))
  · intro h0; simp at h0
  · intro l hl'
    exfalso
    cases ii with
    | nil => simp only [List.append_assoc, List.cons_append, List.nil_append, loneJump_two] at hl'; cases hl'
    | cons x xs => simp only [List.append_assoc, List.cons_append, List.nil_append, loneJump_two] at hl'; cases hl'
  intro r i0 hp hpre k b hag m j hex hin hcont
  have hinB : NamedIn cx sb := hin.le hnB
  have hend := hcont hfalls
  rw [htr] at hag ⊢
  -- names for the parts of the source translation
  generalize hRI : Src.tr fuel cx.sm env (toSrcStmt inc) (tbl b).length (b.push (.halt (evInvalid "loop test"))).1 = RI at hag ⊢
  have hgI : Grow cx.Z (b.push (.halt (evInvalid "loop test"))).1 RI.1 := by rw [← hRI]; exact hE.grow _ _
  have hPe := hP (loopEnv env RI.2 k) (plainEnv_loopEnv he _ _)
  generalize hRB : Src.trStmts fuel cx.sm (loopEnv env RI.2 k) (toSrcStmts body) RI.2 RI.1 = RB at hag ⊢
  have hgB : Grow cx.Z RI.1 RB.1 := by rw [← hRB]; exact hPe.grow _ _
  have hg4' : Grow cx.Z b (RB.1.set (tbl b).length (.test (Src.substEv env.subst (hdrEv hd)) RB.2 k)) :=
    (((Grow.push b _).trans hgI).trans hgB).set_ge (Nat.le_refl _) _
  have hgInit := hI.grow (tbl b).length (RB.1.set (tbl b).length (.test (Src.substEv env.subst (hdrEv hd)) RB.2 k))
  have agI : AgreeOn cx.N cx.Z (RB.1.set (tbl b).length (.test (Src.substEv env.subst (hdrEv hd)) RB.2 k))
      (Src.tr fuel cx.sm env (toSrcStmt init) (tbl b).length (RB.1.set (tbl b).length (.test (Src.substEv env.subst (hdrEv hd)) RB.2 k))).1 :=
    hag.sub_grow hg4' (Grow.refl _)
  have ag4 : AgreeOn cx.N cx.Z b (RB.1.set (tbl b).length (.test (Src.substEv env.subst (hdrEv hd)) RB.2 k)) :=
    hag.sub_grow (Grow.refl b) hgInit
  obtain ⟨hNt, ag13⟩ := agree_set ag4 (hgI.trans hgB)
  have agE : AgreeOn cx.N cx.Z (b.push (.halt (evInvalid "loop test"))).1 RI.1 := ag13.sub_grow (Grow.refl _) hgB
  have agB : AgreeOn cx.N cx.Z RI.1 RB.1 := ag13.sub_grow hgI (Grow.refl _)
  -- positions
  have hit0 : ItemC cx.cp cx.rs ⟨r, i0⟩ (.label (lb + 1) false) := hp.here' [] _ _ (by lst) (by len_omega)
  have hpI : Placed cx.cp cx.rs r (i0 + 1) ii := hp.mid' [LItem.label (lb + 1) false] ii _ (by lst) (by len_omega)
  have hitJ : ItemC cx.cp cx.rs ⟨r, i0 + ii.length + 1⟩ (.ljump ⟨o1, Gen.op_jump, []⟩ (some (lb + 5))) :=
    hp.here' ([LItem.label (lb + 1) false] ++ ii) _ _ (by lst) (by len_omega)
  have hit3 : ItemC cx.cp cx.rs ⟨r, i0 + ii.length + 2⟩ (.label (lb + 3) false) :=
    hp.here' ([LItem.label (lb + 1) false] ++ ii ++ [LItem.ljump ⟨o1, Gen.op_jump, []⟩ (some (lb + 5))]) _ _ (by lst) (by len_omega)
  have htgt3 : target cx.rs (cx.cp.σ (lb + 3)) = ⟨r, i0 + ii.length + 2⟩ :=
    hp.lbl' cx.hlab ([LItem.label (lb + 1) false] ++ ii ++ [LItem.ljump ⟨o1, Gen.op_jump, []⟩ (some (lb + 5))]) _ _ false (by lst) (by len_omega)
  have hpBlk : Placed cx.cp cx.rs r (i0 + ii.length + 3) ([LItem.label sL false] ++ ops ++ [LItem.label eB false] ++
      ([LItem.label (lb + 4) false] ++ ee ++
        [LItem.label (lb + 5) false, LItem.ljump ⟨o2, hd.name, hd.params⟩ (some (lb + 3)), LItem.label (lb + 2) false])) :=
    hp.mid' ([LItem.label (lb + 1) false] ++ ii ++ [LItem.ljump ⟨o1, Gen.op_jump, []⟩ (some (lb + 5)), LItem.label (lb + 3) false]) _ []
      (by lst) (by len_omega)
  have hit4 : ItemC cx.cp cx.rs ⟨r, i0 + ii.length + ops.length + 5⟩ (.label (lb + 4) false) :=
    hp.here' ([LItem.label (lb + 1) false] ++ ii ++ [LItem.ljump ⟨o1, Gen.op_jump, []⟩ (some (lb + 5)), LItem.label (lb + 3) false] ++
        ([LItem.label sL false] ++ ops ++ [LItem.label eB false])) _ _ (by lst) (by len_omega)
  have htgt4 : target cx.rs (cx.cp.σ (lb + 4)) = ⟨r, i0 + ii.length + ops.length + 5⟩ :=
    hp.lbl' cx.hlab ([LItem.label (lb + 1) false] ++ ii ++ [LItem.ljump ⟨o1, Gen.op_jump, []⟩ (some (lb + 5)), LItem.label (lb + 3) false] ++
        ([LItem.label sL false] ++ ops ++ [LItem.label eB false])) _ _ false (by lst) (by len_omega)
  have hpE : Placed cx.cp cx.rs r (i0 + ii.length + ops.length + 6) ee :=
    hp.mid' ([LItem.label (lb + 1) false] ++ ii ++ [LItem.ljump ⟨o1, Gen.op_jump, []⟩ (some (lb + 5)), LItem.label (lb + 3) false] ++
        ([LItem.label sL false] ++ ops ++ [LItem.label eB false]) ++ [LItem.label (lb + 4) false]) ee _ (by lst) (by len_omega)
  have hit5 : ItemC cx.cp cx.rs ⟨r, i0 + ii.length + ops.length + ee.length + 6⟩ (.label (lb + 5) false) :=
    hp.here' ([LItem.label (lb + 1) false] ++ ii ++ [LItem.ljump ⟨o1, Gen.op_jump, []⟩ (some (lb + 5)), LItem.label (lb + 3) false] ++
        ([LItem.label sL false] ++ ops ++ [LItem.label eB false]) ++ [LItem.label (lb + 4) false] ++ ee) _ _ (by lst) (by len_omega)
  have htgt5 : target cx.rs (cx.cp.σ (lb + 5)) = ⟨r, i0 + ii.length + ops.length + ee.length + 6⟩ :=
    hp.lbl' cx.hlab ([LItem.label (lb + 1) false] ++ ii ++ [LItem.ljump ⟨o1, Gen.op_jump, []⟩ (some (lb + 5)), LItem.label (lb + 3) false] ++
        ([LItem.label sL false] ++ ops ++ [LItem.label eB false]) ++ [LItem.label (lb + 4) false] ++ ee) _ _ false (by lst) (by len_omega)
  have hitT : ItemC cx.cp cx.rs ⟨r, i0 + ii.length + ops.length + ee.length + 7⟩ (.ljump ⟨o2, hd.name, hd.params⟩ (some (lb + 3))) :=
    hp.here' ([LItem.label (lb + 1) false] ++ ii ++ [LItem.ljump ⟨o1, Gen.op_jump, []⟩ (some (lb + 5)), LItem.label (lb + 3) false] ++
        ([LItem.label sL false] ++ ops ++ [LItem.label eB false]) ++ [LItem.label (lb + 4) false] ++ ee ++ [LItem.label (lb + 5) false]) _ _
      (by lst) (by len_omega)
  have hitE : ItemC cx.cp cx.rs ⟨r, i0 + ii.length + ops.length + ee.length + 8⟩ (.label (lb + 2) false) :=
    hp.here' ([LItem.label (lb + 1) false] ++ ii ++ [LItem.ljump ⟨o1, Gen.op_jump, []⟩ (some (lb + 5)), LItem.label (lb + 3) false] ++
        ([LItem.label sL false] ++ ops ++ [LItem.label eB false]) ++ [LItem.label (lb + 4) false] ++ ee ++
        [LItem.label (lb + 5) false, LItem.ljump ⟨o2, hd.name, hd.params⟩ (some (lb + 3))]) [] _ (by lst) (by len_omega)
  have htgt2 : target cx.rs (cx.cp.σ (lb + 2)) = ⟨r, i0 + ii.length + ops.length + ee.length + 8⟩ :=
    hp.lbl' cx.hlab ([LItem.label (lb + 1) false] ++ ii ++ [LItem.ljump ⟨o1, Gen.op_jump, []⟩ (some (lb + 5)), LItem.label (lb + 3) false] ++
        ([LItem.label sL false] ++ ops ++ [LItem.label eB false]) ++ [LItem.label (lb + 4) false] ++ ee ++
        [LItem.label (lb + 5) false, LItem.ljump ⟨o2, hd.name, hd.params⟩ (some (lb + 3))]) [] _ false (by lst) (by len_omega)
  have hlen : ([LItem.label (lb + 1) false] ++ ii ++ [LItem.ljump ⟨o1, Gen.op_jump, []⟩ (some (lb + 5)), LItem.label (lb + 3) false] ++
        ([LItem.label sL false] ++ ops ++ [LItem.label eB false]) ++ [LItem.label (lb + 4) false] ++ ee ++
        [LItem.label (lb + 5) false, LItem.ljump ⟨o2, hd.name, hd.params⟩ (some (lb + 3)), LItem.label (lb + 2) false]).length =
      ii.length + ops.length + ee.length + 9 := by
    len_omega
  rw [hlen] at hend
  have hstepT := lab_test hitT (isTest_not_jump _ ht) ht
  have hev : (⟨hd.name, convParams (hd.params.map cx.cp.sub)⟩ : Ev) = Src.substEv env.subst (hdrEv hd) := he.ev hd.name hd.params
  simp only [hev] at hstepT
  have hbrkAt : ∀ m' j', ExitsOK cx m' j' s env ∧ R2 cx m' j' ⟨r, i0 + (ii.length + ops.length + ee.length + 9)⟩ k →
      R2 cx m' j' ⟨r, i0 + ii.length + ops.length + ee.length + 8⟩ k := by
    intro m' j' hy
    refine R2.silL (lab_label hitE) ?_
    rw [LPos.next_eq r _ (i0 + (ii.length + ops.length + ee.length + 9)) (by omega)]; exact hy.2
  -- the body, given the loop point (the label of the test)
  have hbodyAt : ∀ m' j', ExitsOK cx m' j' s env ∧ R2 cx m' j' ⟨r, i0 + (ii.length + ops.length + ee.length + 9)⟩ k →
      R2 cx m' j' ⟨r, i0 + ii.length + ops.length + ee.length + 6⟩ (tbl b).length →
      R2 cx m' j' ⟨r, i0 + ii.length + 3⟩ RB.2 ∧ LabExport cx (loopEnv env RI.2 k) m' j' RI.1 RB.1 := by
    intro m' j' hy' hQh
    -- the increment statement, entered at its label
    have hinc : R2 cx m' j' ⟨r, i0 + ii.length + ops.length + 5⟩ RI.2 := by
      refine R2.silL (lab_label hit4) ?_
      rw [LPos.next_eq r _ (i0 + ii.length + ops.length + 6) rfl]
      have := hE.corr r _ hpE (afterCtxL_label hit4) (tbl b).length (b.push (.halt (evInvalid "loop test"))).1
        (by rw [hRI]; exact agE) m' j' (fun _ => by
          have e : i0 + ii.length + ops.length + 6 + ee.length = i0 + ii.length + ops.length + ee.length + 6 := by omega
          rw [e]; exact hQh)
      rw [hRI] at this; exact this
    have hex' : ExitsOK cx m' j' sa (loopEnv env RI.2 k) :=
      exitsOK_push hy'.1 (lb + 4) (lb + 2) (by rw [htgt4]; exact hinc) (by rw [htgt2]; exact hbrkAt m' j' hy') hsaL hsaC
    have hafter : R2 cx m' j' ⟨r, i0 + ii.length + 3 + ops.length + 2⟩ RI.2 := by
      have e : i0 + ii.length + 3 + ops.length + 2 = i0 + ii.length + ops.length + 5 := by omega
      rw [e]; exact hinc
    have := loop_body_run cx hPe sL eB _ hpBlk RI.2 RI.1 (by rw [hRB]; exact agB) m' j' hex' hinB (fun _ => hafter)
    rw [hRB] at this; exact this
  have hhead : ∀ m j, ExitsOK cx m j s env ∧ R2 cx m j ⟨r, i0 + (ii.length + ops.length + ee.length + 9)⟩ k →
      R2 cx m j ⟨r, i0 + ii.length + ops.length + ee.length + 6⟩ (tbl b).length := by
    refine loop_ind (fun m j => ExitsOK cx m j s env ∧ R2 cx m j ⟨r, i0 + (ii.length + ops.length + ee.length + 9)⟩ k)
      (fun m j m' j' h hlt => ⟨h.1.down j' hlt, h.2.down j' hlt⟩) (fun m j j' h hle => ⟨h.1.monoJ hle, h.2.monoJ hle⟩) ?_
    intro m j hyp lower _
    refine R2.silL (lab_label hit5) ?_
    rw [LPos.next_eq r _ (i0 + ii.length + ops.length + ee.length + 7) rfl]
    refine R2.test hstepT (nodeStep_of hNt) ?_
      (by rw [LPos.next_eq r _ (i0 + ii.length + ops.length + ee.length + 8) rfl]; exact (hbrkAt m j hyp).1)
    rw [htgt3]
    refine E.silL (lab_label hit3) (EE_of_lower (fun m' j' hlt => ?_))
    rw [LPos.next_eq r _ (i0 + ii.length + 3) rfl]
    exact (hbodyAt m' j' ⟨hyp.1.down j' hlt, hyp.2.down j' hlt⟩ (lower m' j' hlt)).1
  have hQ := hhead m j ⟨hex, hend⟩
  refine ⟨?_, ?_⟩
  · -- the init statement, then the jump to the test
    refine R2.silL (lab_label hit0) ?_
    rw [LPos.next_eq r _ (i0 + 1) rfl]
    refine hI.corr r _ hpI (afterCtxL_label hit0) (tbl b).length _ agI m j (fun _ => ?_)
    have e : i0 + 1 + ii.length = i0 + ii.length + 1 := by omega
    rw [e]
    refine R2.silL (lab_jump hitJ jump_isJump) ?_
    rw [htgt5]; exact hQ
  have hexp := (hbodyAt m j ⟨hex, hend⟩ hQ).2
  have hpush := Pushes.push b (.halt (evInvalid "loop test"))
  have hpI' : Pushes (b.push (.halt (evInvalid "loop test"))).1 RI.1 := by rw [← hRI]; exact hE.pushes _ _
  have hpInit := hI.pushes (tbl b).length (RB.1.set (tbl b).length (.test (Src.substEv env.subst (hdrEv hd)) RB.2 k))
  refine LabExport.mono hexp (hpush.trans hpI').len (fun i hi => (hpush.trans hpI').same hi) (fun i hi => ?_)
  have hl4 : (tbl b).length ≤ (tbl (RB.1.set (tbl b).length (.test (Src.substEv env.subst (hdrEv hd)) RB.2 k))).length := hg4'.len
  rw [hpInit.same (by omega), tbl_set, List.getElem?_set_ne (by omega)]

/-- `ForBlockCompileHandler.collect()` -/
theorem for_pm (cx : Cx) (fuel : Nat) (env : Src.Env) (he : EnvOK cx env) (lb : Nat) (hd : Hdr) (init inc : Stmt) (body : Stmts)
    (initM incM bodyM : M (List LItem)) (ht : isTest hd.name = true)
    (hI : ∀ s items s', initM s = .ok (items, s') →
      SimpleOK cx items (fun k b => Src.tr fuel cx.sm env (toSrcStmt init) k b) ∧ SameStk s s')
    (hE : ∀ s items s', incM s = .ok (items, s') →
      SimpleOK cx items (fun k b => Src.tr fuel cx.sm env (toSrcStmt inc) k b) ∧ SameStk s s')
    (hBody : ∀ env', EnvOK cx env' → PM cx bodyM (fun k b => Src.trStmts fuel cx.sm env' (toSrcStmts body) k b) env') :
    PM cx (forOf lb hd initM incM bodyM)
      (fun k b => Src.tr fuel cx.sm env (.for_ (toSrcStmt init) (hdrEv hd) (toSrcStmt inc) (toSrcStmts body)) k b) env := by
  intro s items s' h
  simp only [forOf, bind_ok, pushLoop_ok, popLoop_ok, pure_ok] at h
  obtain ⟨u1, s1, h1, ii, s2, h2, jj, s3, h3, blk, s4, h4, ee, s5, h5, br, s6, h6, u2, s7, h7, h8⟩ := h
  simp only [Prod.mk.injEq] at h1 h7 h8
  obtain ⟨_, rfl⟩ := h1
  obtain ⟨_, rfl⟩ := h7
  obtain ⟨rfl, rfl⟩ := h8
  obtain ⟨e3, rfl⟩ := genJump_stk h3
  obtain ⟨rfl, rfl⟩ := buildFor_none (b := loopBP hd) rfl h6
  obtain ⟨ops, sb, sL, eB, hrun, e4, hitems⟩ := loop_block_shape h4
  rw [hitems]
  obtain ⟨sI, ⟨lI, cI, nI⟩⟩ := hI _ _ _ h2
  obtain ⟨sE, ⟨lE, cE, nE⟩⟩ := hE _ _ _ h5
  have hP := fun env' he' => hBody env' he' _ _ _ hrun
  have hP0 := hP env he
  refine for_core cx fuel env he lb hd init inc body ht _ _ sL eB sI sE hP ?_ ?_ ?_ ?_ (nI.trans e3.3) (e4.3.trans nE)
  · rw [e3.1, lI]; rfl
  · rw [e3.2, cI]; rfl
  · show s5.loops.tail = s.loops
    rw [lE, e4.1, hP0.loops, e3.1, lI]; rfl
  · show s5.cases = s.cases
    rw [cE, e4.2, hP0.cases, e3.2, cI]; rfl

end ESV.Comp
