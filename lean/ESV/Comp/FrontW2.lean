import ESV.Comp.FrontW1
/-
`frontend_wfl`, part 2: the specification `W` of a collected piece, its algebra, and the simple statements.
-/
namespace ESV.Comp
open ESV ESV.Beh

/-- the label numbers reserved for a statement while visiting lie in the interval of its routine -/
def ResOK (c : LCtx) (res : List Nat) : Prop := ∀ k ∈ res, c.LB < k ∧ k ≤ c.HB

theorem ResOK.append {c : LCtx} {a b : List Nat} (ha : ResOK c a) (hb : ResOK c b) : ResOK c (a ++ b) := fun k hk => by
  rcases List.mem_append.mp hk with h | h
  · exact ha k h
  · exact hb k h

/-- what the piece `items`, collected while the state went from `s` to `s'`, satisfies.  `res`: the label numbers
reserved for it while visiting; `defs`: the user labels defined by the statements it was collected from. -/
structure W (c : LCtx) (res : List Nat) (defs : List String) (s : St) (items : List LItem) (s' : St) : Prop where
  ok : StOK c s'
  ext : Ext s s'
  lab : LblOK res s.lbc s'.lbc (intIds items)
  fresh : ∀ x ∈ intIds items, x ∉ namedIds s' ∧ x ≤ s'.lbc
  usr : ∀ i, (usrIds items).count i ≤ (defs.filterMap fun n => s'.named.lookup n).count i
  root : ∀ x ∈ items, rootOK x = true
  ctx : CtxP items

def WM (c : LCtx) (res : List Nat) (defs : List String) (m : M (List LItem)) : Prop :=
  ∀ s items s', StOK c s → m s = .ok (items, s') → W c res defs s items s'

theorem count_filterMap_mono {f g : String → Option Nat} (h : ∀ n i, f n = some i → g n = some i) (i : Nat) :
    ∀ (d : List String), (d.filterMap f).count i ≤ (d.filterMap g).count i := by
  intro d
  induction d with
  | nil => simp
  | cons n r ih =>
    simp only [List.filterMap_cons]
    cases hf : f n with
    | none =>
      cases hg : g n with
      | none => simpa using ih
      | some j => simp only [List.count_cons]; omega
    | some j =>
      rw [h n j hf]
      simp only [List.count_cons]; omega

theorem W.append {c : LCtx} {r1 r2 : List Nat} {d1 d2 : List String} {s s1 s2 : St} {x y : List LItem}
    (h1 : W c r1 d1 s x s1) (h2 : W c r2 d2 s1 y s2) : W c (r1 ++ r2) (d1 ++ d2) s (x ++ y) s2 := by
  have l1 := h1.ext.lbc
  have l2 := h2.ext.lbc
  refine ⟨h2.ok, h1.ext.trans h2.ext, ?_, ?_, ?_, ?_, h1.ctx.append h2.ctx⟩
  · rw [intIds_append]
    exact h1.lab.append h2.lab l1 l2
  · intro z hz
    rw [intIds_append, List.mem_append] at hz
    rcases hz with hz | hz
    · obtain ⟨f1, f2⟩ := h1.fresh z hz
      exact ⟨fresh_ext h2.ext z f1 f2, by omega⟩
    · exact h2.fresh z hz
  · intro i
    rw [usrIds_append, List.count_append, List.filterMap_append, List.count_append]
    have a1 := h1.usr i
    have a2 := h2.usr i
    have := count_filterMap_mono (f := fun n => s1.named.lookup n) (g := fun n => s2.named.lookup n)
      (fun n j hj => h2.ext.keep n j hj) i d1
    omega
  · intro z hz
    rcases List.mem_append.mp hz with hz | hz
    · exact h1.root z hz
    · exact h2.root z hz

/-- the same labels, roots and context structure in another arrangement -/
theorem W.rearr {c : LCtx} {r : List Nat} {d : List String} {s s' : St} {x y : List LItem} (h : W c r d s x s')
    (hi : ∀ n, (intIds y).count n ≤ (intIds x).count n) (hu : ∀ n, (usrIds y).count n ≤ (usrIds x).count n)
    (hroot : ∀ z ∈ y, rootOK z = true) (hc : CtxP y) : W c r d s y s' :=
  ⟨h.ok, h.ext, h.lab.of_count_le hi, fun z hz => h.fresh z (by
    have := List.count_pos_iff.mpr hz
    have := hi z
    exact List.count_pos_iff.mp (by omega)), fun i => Nat.le_trans (hu i) (h.usr i), hroot, hc⟩

/-- the allotments in another order -/
theorem W.allot {c : LCtx} {r r' : List Nat} {d d' : List String} {s s' : St} {x : List LItem} (h : W c r d s x s')
    (hr : ∀ n, r.count n ≤ r'.count n)
    (hd : ∀ i, (d.filterMap fun n => s'.named.lookup n).count i ≤ (d'.filterMap fun n => s'.named.lookup n).count i) :
    W c r' d' s x s' :=
  ⟨h.ok, h.ext, h.lab.res_le hr, h.fresh, fun i => Nat.le_trans (h.usr i) (hd i), h.root, h.ctx⟩

/-- a piece without label definitions, collected without touching the label counter or table -/
theorem W.plain {c : LCtx} {s s' : St} {x : List LItem} (hs : StOK c s) (hsame : SameL s s')
    (hi : intIds x = []) (hu : usrIds x = []) (hroot : ∀ z ∈ x, rootOK z = true) (hc : CtxP x) : W c [] [] s x s' :=
  ⟨hsame.ok hs, hsame.ext, by rw [hi]; exact LblOK.nil _ _ _, by rw [hi]; simp, by rw [hu]; simp, hroot, hc⟩

theorem W.nil {c : LCtx} {s : St} (hs : StOK c s) : W c [] [] s [] s :=
  W.plain hs (SameL.refl s) rfl rfl (by simp) CtxP.nil

/-- a freshly ticked internal label -/
theorem W.tick {c : LCtx} {s : St} (hs : StOK c s) : W c [] [] s [.label (s.lbc + 1) false] (s.tickedLbl 1) :=
  ⟨tick_ok hs, tick_ext s, by simpa [St.tickedLbl] using LblOK.tick s.lbc, by
    intro x hx
    simp at hx; subst hx
    exact ⟨tick_fresh hs, by simp [St.tickedLbl]⟩, by simp, by simp [rootOK], (NoCtx.label _ _).ctxP⟩

/-- an internal label whose number was reserved while visiting -/
theorem W.res1 {c : LCtx} (k : Nat) {s : St} (hs : StOK c s) (hk : c.LB < k ∧ k ≤ c.HB) : W c [k] [] s [.label k false] s :=
  ⟨hs, Ext.refl s, by simpa using LblOK.reserved k s.lbc s.lbc, by
    intro x hx
    simp at hx; subst hx
    refine ⟨fun hm => ?_, by have := hs.hb; omega⟩
    have := hs.out _ hm
    omega, by simp, by simp [rootOK], (NoCtx.label _ _).ctxP⟩

/-! ### states -/

theorem sameL_tickedOp (s : St) (n : Nat) : SameL s (s.tickedOp n) := ⟨rfl, rfl⟩
theorem sameL_pushLoop (s : St) (l : Nat × Nat) : SameL s (s.pushLoop l) := ⟨rfl, rfl⟩
theorem sameL_popLoop (s : St) : SameL s s.popLoop := ⟨rfl, rfl⟩
theorem sameL_pushCase (s : St) (l : Nat) : SameL s (s.pushCase l) := ⟨rfl, rfl⟩
theorem sameL_popCase (s : St) : SameL s s.popCase := ⟨rfl, rfl⟩

theorem userLabel_w {c : LCtx} {n : String} {s : St} {i : Nat} {s' : St} (hs : StOK c s) (h : userLabel n s = .ok (i, s')) :
    StOK c s' ∧ Ext s s' ∧ s'.named.lookup n = some i ∧ s'.opc = s.opc := by
  unfold userLabel at h
  cases hl : s.named.lookup n with
  | some j =>
    simp only [hl, Except.ok.injEq, Prod.mk.injEq] at h
    obtain ⟨rfl, rfl⟩ := h
    exact ⟨hs, Ext.refl _, hl, rfl⟩
  | none =>
    simp only [hl, Except.ok.injEq, Prod.mk.injEq] at h
    obtain ⟨rfl, rfl⟩ := h
    have hlk : ∀ m, ((s.tickedLbl 1).withNamed n (s.lbc + 1)).named.lookup m =
        (s.named.lookup m).or (if m == n then some (s.lbc + 1) else none) := by
      intro m
      simp only [St.withNamed, St.tickedLbl, List.lookup_append, List.lookup_cons, List.lookup_nil]
      cases m == n <;> rfl
    have hids : namedIds ((s.tickedLbl 1).withNamed n (s.lbc + 1)) = namedIds s ++ [s.lbc + 1] := by
      simp [namedIds, St.withNamed, St.tickedLbl]
    refine ⟨⟨?_, ?_, ?_, ?_⟩, ⟨?_, ?_, ?_⟩, ?_, rfl⟩
    · have := hs.hb; simp [St.withNamed, St.tickedLbl]; omega
    · intro j hj
      rw [hids, List.mem_append] at hj
      simp only [St.withNamed, St.tickedLbl]
      rcases hj with hj | hj
      · have := hs.le j hj; omega
      · simp at hj; omega
    · intro j hj
      rw [hids, List.mem_append] at hj
      rcases hj with hj | hj
      · exact hs.out j hj
      · simp at hj; have := hs.hb; omega
    · intro a b j ha hb
      rw [hlk] at ha hb
      have key : ∀ m, s.named.lookup m = some j → j ≤ s.lbc := by
        intro m hm
        refine hs.le j ?_
        have := lookup_mem _ _ _ hm
        exact List.mem_map.mpr ⟨(m, j), this, rfl⟩
      cases ha1 : s.named.lookup a with
      | some ja =>
        rw [ha1] at ha; simp at ha; subst ha
        cases hb1 : s.named.lookup b with
        | some jb => rw [hb1] at hb; simp at hb; subst hb; exact hs.inj a b _ ha1 hb1
        | none =>
          rw [hb1] at hb
          simp only [Option.none_or] at hb
          split at hb
          · simp at hb; have := key a ha1; omega
          · cases hb
      | none =>
        rw [ha1] at ha
        simp only [Option.none_or] at ha
        split at ha
        · rename_i hae
          simp at ha; subst ha
          cases hb1 : s.named.lookup b with
          | some jb => rw [hb1] at hb; simp at hb; subst hb; have := key b hb1; omega
          | none =>
            rw [hb1] at hb
            simp only [Option.none_or] at hb
            split at hb
            · rename_i hbe
              have e1 : a = n := by simpa using hae
              have e2 : b = n := by simpa using hbe
              rw [e1, e2]
            · cases hb
        · cases ha
    · simp [St.withNamed, St.tickedLbl]
    · intro m j hm
      rw [hlk, hm]; rfl
    · intro j hj
      rw [hids, List.mem_append] at hj
      rcases hj with hj | hj
      · exact .inl hj
      · simp at hj; subst hj
        exact .inr ⟨by omega, by simp [St.withNamed, St.tickedLbl]⟩
    · rw [hlk, hl]; simp

end ESV.Comp
