import ESV.Comp.CgMacro3
/-
`codegen_correct` with macros (M4): the macro visitor establishes the invariant of the compiled macros (`CmOK`), in whatever order
the macros are compiled; the programs of F5; `codegen_correct_cg5`.
-/
namespace ESV.Comp
open ESV ESV.Beh

/-! ### the order the macros are compiled in -/

theorem insertByKey_length (k : Nat) (m : Macro) : ∀ (l : List (Nat × Macro)), (insertByKey k m l).length = l.length + 1
  | [] => rfl
  | (k', m') :: r => by
    simp only [insertByKey]
    split
    · rfl
    · simp [insertByKey_length k m r]

/-- sorting by the resolution order keeps the macros -/
theorem sortMacros_spec (order : List String) : ∀ (l : List Macro) (sorted : List (Nat × Macro)), sortMacros order l = .ok sorted →
    sorted.length = l.length ∧ ∀ x ∈ sorted, x.2 ∈ l
  | [], sorted, h => by
    simp only [sortMacros, Except.ok.injEq] at h
    subst h
    exact ⟨rfl, fun x hx => by simp at hx⟩
  | m :: r, sorted, h => by
    simp only [sortMacros] at h
    split at h
    · cases h
    · rename_i k _
      cases hs : sortMacros order r with
      | error e => rw [hs] at h; cases h
      | ok l =>
        rw [hs] at h
        simp only [Except.ok.injEq] at h
        subst h
        obtain ⟨h1, h2⟩ := sortMacros_spec order r l hs
        refine ⟨by rw [insertByKey_length, h1]; rfl, fun x hx => ?_⟩
        rcases insertByKey_mem k m l x hx with rfl | hx
        · simp
        · exact List.mem_cons_of_mem _ (h2 x hx)

/-- with distinct names the language semantics finds the macro itself under its name -/
theorem find_toSrcMacro : ∀ (l : List Macro), (l.map (·.name)).Nodup → ∀ m ∈ l,
    (l.map toSrcMacro).find? (fun x => x.name == m.name) = some (toSrcMacro m)
  | [], _, m, hm => by simp at hm
  | a :: r, hnd, m, hm => by
    simp only [List.map_cons, List.nodup_cons] at hnd
    simp only [List.mem_cons] at hm
    simp only [List.map_cons, List.find?_cons]
    rcases hm with rfl | hm
    · simp [toSrcMacro]
    · have hne : a.name ≠ m.name := fun e => hnd.1 (e ▸ List.mem_map_of_mem hm)
      have : ((toSrcMacro a).name == m.name) = false := by simpa [toSrcMacro] using hne
      rw [this]
      exact find_toSrcMacro r hnd.2 m hm

/-! ### the macro visitor -/

/-- a macro of F5: found under its name, distinct variables, body in the fragment, only its own labels -/
def MacroGood (lv : Nat) (sm : List Src.Macro) (m : Macro) : Prop :=
  sm.find? (fun x => x.name == m.name) = some (toSrcMacro m) ∧ m.vars.Nodup ∧ cgStmts lv m.body = true ∧
  ∀ n ∈ mlStmts m.body, n ∈ dfStmts m.body

theorem compileMacros_ok (lv : Nat) (sm : List Src.Macro) : ∀ (l : List (Nat × Macro)) (acc : Macros) (s : St) (ms : Macros) (s' : St),
    (∀ x ∈ l, MacroGood lv sm x.2) → CmOK lv sm acc → s.loops = [] → s.cases = [] → compileMacros l acc s = .ok (ms, s') →
    CmOK lv sm ms ∧ ms.length = l.length + acc.length
  | [], acc, s, ms, s', _, hacc, _, _, h => by
    simp only [compileMacros, pure_ok, Prod.mk.injEq] at h
    obtain ⟨rfl, rfl⟩ := h
    exact ⟨hacc, by simp⟩
  | (k, m) :: r, acc, s, ms, s', hgood, hacc, hl, hc, h => by
    simp only [compileMacros, bind_ok] at h
    obtain ⟨bp, s1, h1, h2⟩ := h
    obtain ⟨hfind, hnd, hg, hml⟩ := hgood (k, m) (by simp)
    -- the stacks after a body
    let cx0 : Cx := { rs := [], N := [], hlab := List.nodup_nil, defs := dfStmts m.body, sm := sm, cm := acc }
    have hM0 : MacOK cx0 (acc.length + 1) := macOK_all lv acc.length cx0 (acc.length + 1) rfl (Nat.lt_succ_self _) hacc
    have hstk : ∀ lb s ops s2, cStmts acc lb m.body s = .ok (ops, s2) → SameStk s s2 := fun lb s ops s2 hh =>
      (cStmts_c cx0 (acc.length + 1) lv hM0 m.body lb hg hml {} (envOK_empty cx0 rfl) s ops s2 hh).stk
    obtain ⟨l1, c1, _, lb, sa, ops, sb, la, ca, hcs, _, hits⟩ := compileBody_cg acc false m.body hstk hl hc h1
    have hbp : bp = ops := by
      rcases hits with e | ⟨e, _⟩
      · exact e
      · cases e
    subst hbp
    have hentry : EntryOK lv sm acc m.name ⟨m.vars, bp⟩ := ⟨m, lb, sa, sb, hfind, rfl, hnd, hcs, la, ca, hg, hml⟩
    obtain ⟨g1, g2⟩ := compileMacros_ok lv sm r ((m.name, ⟨m.vars, bp⟩) :: acc) s1 ms s' (fun x hx => hgood x (by simp [hx]))
      ⟨hacc, hentry⟩ l1 c1 h2
    exact ⟨g1, by rw [g2]; simp only [List.length_cons]; omega⟩

/-! ### the levels are nested -/

mutual
theorem cgStmt_mono {lv lv' : Nat} (h : lv ≤ lv') : ∀ (st : Stmt), cgStmt lv st = true → cgStmt lv' st = true
  | .op .., hg => by simpa [cgStmt] using hg
  | .inl .., hg => by simpa [cgStmt] using hg
  | .with_ .., hg => by simpa [cgStmt] using hg
  | .ret, _ => by simp [cgStmt]
  | .end_, _ => by simp [cgStmt]
  | .hold, _ => by simp [cgStmt]
  | .ite neg hdrs body elifs he els, hg => by
    simp only [cgStmt, Bool.and_eq_true] at hg ⊢
    exact ⟨⟨⟨hg.1.1.1, cgStmts_mono h body hg.1.1.2⟩, cgElifs_mono h elifs hg.1.2⟩, cgStmts_mono h els hg.2⟩
  | .label _, hg => by simp only [cgStmt, decide_eq_true_eq] at hg ⊢; omega
  | .jump _, hg => by simp only [cgStmt, decide_eq_true_eq] at hg ⊢; omega
  | .call _, hg => by simp only [cgStmt, decide_eq_true_eq] at hg ⊢; omega
  | .brk, hg => by simp only [cgStmt, decide_eq_true_eq] at hg ⊢; omega
  | .cont, hg => by simp only [cgStmt, decide_eq_true_eq] at hg ⊢; omega
  | .brkLoop, hg => by simp only [cgStmt, decide_eq_true_eq] at hg ⊢; omega
  | .macroCall .., hg => by simp only [cgStmt, decide_eq_true_eq] at hg ⊢; omega
  | .switch hdr cs, hg => by
    simp only [cgStmt, Bool.and_eq_true, decide_eq_true_eq] at hg ⊢
    exact ⟨⟨⟨⟨by omega, hg.1.1.1.2⟩, hg.1.1.2⟩, hg.1.2⟩, cgCases_mono h hdr.name cs true hg.2⟩
  | .forever body, hg => by
    simp only [cgStmt, Bool.and_eq_true, decide_eq_true_eq] at hg ⊢
    exact ⟨by omega, cgStmts_mono h body hg.2⟩
  | .while_ neg hd body, hg => by
    simp only [cgStmt, Bool.and_eq_true, decide_eq_true_eq] at hg ⊢
    exact ⟨⟨by omega, hg.1.2⟩, cgStmts_mono h body hg.2⟩
  | .for_ init hd inc body, hg => by
    simp only [cgStmt, Bool.and_eq_true, decide_eq_true_eq] at hg ⊢
    exact ⟨⟨⟨⟨by omega, hg.1.1.1.2⟩, hg.1.1.2⟩, hg.1.2⟩, cgStmts_mono h body hg.2⟩
theorem cgStmts_mono {lv lv' : Nat} (h : lv ≤ lv') : ∀ (ss : Stmts), cgStmts lv ss = true → cgStmts lv' ss = true
  | .nil, _ => by simp [cgStmts]
  | .cons st r, hg => by
    simp only [cgStmts, Bool.and_eq_true] at hg ⊢
    exact ⟨cgStmt_mono h st hg.1, cgStmts_mono h r hg.2⟩
theorem cgElifs_mono {lv lv' : Nat} (h : lv ≤ lv') : ∀ (es : Elifs), cgElifs lv es = true → cgElifs lv' es = true
  | .nil, _ => by simp [cgElifs]
  | .cons neg hdrs body r, hg => by
    simp only [cgElifs, Bool.and_eq_true] at hg ⊢
    exact ⟨⟨hg.1.1, cgStmts_mono h body hg.1.2⟩, cgElifs_mono h r hg.2⟩
theorem cgCases_mono {lv lv' : Nat} (h : lv ≤ lv') (sw : String) : ∀ (cs : Cases) (nf : Bool), cgCases lv sw nf cs = true →
    cgCases lv' sw nf cs = true
  | .nil, _, _ => by simp [cgCases]
  | .cons d name ps body r, nf, hg => by
    simp only [cgCases, Bool.and_eq_true] at hg ⊢
    exact ⟨⟨hg.1.1, cgStmts_mono h body hg.1.2⟩, cgCases_mono h sw r _ hg.2⟩
end

/-! ### the programs of F5 -/

theorem frontGuard_of_cg5 (p : Program) (h : CgProg5 p) : FrontGuard p := by
  obtain ⟨_, hall, hnd, _, _, hmac⟩ := h
  exact ⟨⟨fun m hm => (cg_stmts_facts 5 m.body (hmac m hm).2.1).ok, fun r hr => (cg_stmts_facts 5 r.body (hall r hr)).ok⟩,
    fun m hm => ⟨(cg_stmts_facts 5 m.body (hmac m hm).2.1).w, (hmac m hm).2.2.1⟩,
    fun r hr => (cg_stmts_facts 5 r.body (hall r hr)).w, hnd⟩

/-- **M4**: the code generator is correct on the programs of F5 -/
theorem codegen_correct_cg5 (p : Program) (t : Tables) (hp : CgProg5 p) (hf : frontend p = .ok t) (j : Nat) (r : Routine)
    (hj : p.routines[j]? = some r) :
    j < t.ops.length ∧ ∃ e, (toSrc p).graph.entries[j]? = some (some e) ∧
      Equivalent (toSrc p).graph.lts (labLTS t.ops) e (labEntry t.ops j) := by
  have hlab : (labelIds t.ops.flatten).Nodup := (frontend_wfl' p t (frontGuard_of_cg5 p hp) hf).2.1
  obtain ⟨hseq, hall, _, hml, hnames, hmac⟩ := hp
  unfold frontend at hf
  cases hs : sortMacros p.macroOrder p.macros with
  | error e => rw [hs] at hf; cases hf
  | ok sorted =>
  rw [hs] at hf
  simp only at hf
  cases hc : compileMacros sorted [] St.init with
  | error e => rw [hc] at hf; cases hf
  | ok r1 =>
  obtain ⟨ms, sM⟩ := r1
  rw [hc] at hf
  simp only at hf
  cases hr : wrapAssert (compileRoutines ms p.routines 0 ⟨[], [], []⟩ St.init) with
  | error e => rw [hr] at hf; simp at hf
  | ok r2 =>
  obtain ⟨t2, sF⟩ := r2
  rw [hr] at hf
  simp only [Except.ok.injEq] at hf
  subst hf
  obtain ⟨hslen, hsmem⟩ := sortMacros_spec p.macroOrder p.macros sorted hs
  have hsm : (toSrc p).macros = p.macros.map toSrcMacro := rfl
  have hgood : ∀ x ∈ sorted, MacroGood 5 (toSrc p).macros x.2 := by
    intro x hx
    have hm := hsmem x hx
    obtain ⟨a, b, _, c⟩ := hmac x.2 hm
    exact ⟨by rw [hsm]; exact find_toSrcMacro p.macros hnames x.2 hm, a, b, c⟩
  obtain ⟨hcm, hlen⟩ := compileMacros_ok 5 (toSrc p).macros sorted [] St.init ms sM hgood trivial rfl rfl hc
  refine codegen_correct_core 5 p ms t2 sF hlab hseq hall hml (wrapAssert_ok hr) (fun cx h1 h2 => ?_) j r hj
  refine macOK_all 5 cx.cm.length cx _ rfl ?_ (by rw [h1, h2]; exact hcm)
  rw [h1, hlen, hslen, hsm]
  simp

end ESV.Comp
