import ESV.Comp.Backend
import ESV.Macro.Import
/-
Definitions only (imported by the Lean driver): a project of ExplorerScript files with `import` headers, and its *flattening* to
one program of the compiler model (`ESV.Comp.Program`) — model of how `ExplorerScriptSsbCompiler._compile`
(explorerscript/ssb_converting/ssb_compiler.py) collects the macros of imported files:

  * the imports of a file are resolved by `_resolve_imported_file` (model: ESV/Macro/Import.lean, `resolveAll`), in the order written;
  * an imported file that is one of the files being compiled further up the import chain raises "Infinite recursion detected"
    (`recursion_check`: the files above the importing file; a file importing itself is caught one level deeper);
  * every imported file is compiled by a compiler of its own with `macros_only = True` — its imports first, then its own macros —
    and its macro dictionary (everything visible in it) is merged into the importing file's by `dict.update`: a later import
    replaces an earlier macro of the same name, the file's own macros replace imported ones;
  * a file compiled with `macros_only` that contains a routine raises "Macro scripts must not contain any routines";
  * a file imported along two routes is compiled twice (nothing is cached).

Flattening keeps, for every visible macro, the file it was defined in.  Replacing a macro by a macro of the same name from
ANOTHER file is reported as `nameClash` (the flattened program would give callers compiled earlier the wrong callee: imported
macros are already blueprints, with their callees inlined); merging the same macro of the same file again (diamond) is fine.
The compile order of the flattened program: the orders of the imported files in import order, then the file's own
`macro_resolution_order` (all of them inputs taken from the real compiler, as `Program.macroOrder` is).
-/
namespace ESV.Comp
open ESV ESV.Macro

/-- one file: import strings as written, macros and routines in source order, the resolution order the real compiler computed for it -/
structure PFile where
  imports : List String
  macros : List Macro
  macroOrder : List String
  routines : List Routine

/-- files by their real (normalised absolute) path -/
abbrev Project := List (Imp.Comps × PFile)

inductive PErr where
  | notFound          -- SsbCompilerError "The file to import ('…') was not found."
  | invalid           -- SsbCompilerError "Invalid import: … must not contain relative paths."
  | recursion         -- SsbCompilerError "Infinite recursion detected …"
  | routinesInImport  -- SsbCompilerError "…: Macro scripts must not contain any routines."
  | notInProject      -- a path that exists in the file system but is no file of the project (outside the model)
  | nameClash         -- a visible macro would be replaced by a macro of the same name from another file (outside the model)
  | depth             -- (cannot happen: more nested imports than files)
  deriving DecidableEq, Repr

def PErr.name : PErr → String
  | .notFound => "notFound" | .invalid => "invalid" | .recursion => "recursion" | .routinesInImport => "routinesInImport"
  | .notInProject => "notInProject" | .nameClash => "nameClash" | .depth => "depth"

/-- `os.path.dirname` of a normalised absolute path, as a string -/
def dirStr (path : Imp.Comps) : Imp.Str :=
  match path.dropLast with
  | [] => ['/']
  | ds => ds.foldl (fun acc c => acc ++ ['/'] ++ c) []

/-- a visible macro and the file it was defined in -/
structure VMacro where
  origin : Imp.Comps
  m : Macro

/-- `dict.update` with one entry; `none` = a macro of the same name from another file is already there -/
def vUpdate1 (d : List VMacro) (x : VMacro) : Option (List VMacro) :=
  match d.find? (fun y => y.m.name == x.m.name) with
  | none => some (d ++ [x])
  | some y => if y.origin == x.origin then some d else none

def vUpdate : List VMacro → List VMacro → Option (List VMacro)
  | d, [] => some d
  | d, x :: r =>
    match vUpdate1 d x with
    | none => none
    | some d' => vUpdate d' r

/-- the loop over the resolved imports of one file; `recur` compiles an imported file (`macros_only`) -/
def mergeSubs (recur : Imp.Comps → Except PErr (List VMacro × List String)) (chain : List Imp.Comps) :
    List Imp.Comps → List VMacro × List String → Except PErr (List VMacro × List String)
  | [], acc => .ok acc
  | sub :: rest, acc =>
    if chain.contains sub then .error .recursion
    else
      match recur sub with
      | .error e => .error e
      | .ok (ms, ord) =>
        match vUpdate acc.1 ms with
        | none => .error .nameClash
        | some d => mergeSubs recur chain rest (d, acc.2 ++ ord)

/-- what a compiler instance knows after `_compile` of `path`: the visible macros, and an order in which they can be compiled.
`chain`: the files further up the import chain (`recursion_check`) -/
def visible (P : Project) (fs : Imp.Comps → Bool) (cwd : Imp.Comps) (lookups : List Imp.Str) :
    Nat → List Imp.Comps → Imp.Comps → Bool → Except PErr (List VMacro × List String)
  | 0, _, _, _ => .error .depth
  | fuel + 1, chain, path, macrosOnly =>
    match P.lookup path with
    | none => .error .notInProject
    | some f =>
      match Imp.resolveAll fs cwd (dirStr path) lookups (f.imports.map String.toList) 0 with
      | .error (_, .notFound) => .error .notFound
      | .error (_, .invalid) => .error .invalid
      | .ok subs =>
        match mergeSubs (fun sub => visible P fs cwd lookups fuel (chain ++ [path]) sub true) chain subs ([], []) with
        | .error e => .error e
        | .ok (d, ord) =>
          -- two macros of one name in one file: the later definition wins in the real compiler (outside the model)
          if !decide (f.macros.map (·.name)).Nodup then .error .nameClash
          else
            match vUpdate d (f.macros.map fun m => ⟨path, m⟩) with
            | none => .error .nameClash
            | some d' =>
              if macrosOnly && !f.routines.isEmpty then .error .routinesInImport
              else .ok (d', ord ++ f.macroOrder)

/-- the program the project means when `main` is compiled: all visible macros, the routines of `main` -/
def flatten (P : Project) (fs : Imp.Comps → Bool) (cwd : Imp.Comps) (lookups : List Imp.Str) (main : Imp.Comps) : Except PErr Program :=
  match visible P fs cwd lookups (P.length + 1) [] main false with
  | .error e => .error e
  | .ok (d, ord) =>
    match P.lookup main with
    | none => .error .notInProject
    | some f => .ok ⟨d.map (·.m), ord, f.routines⟩

/-- compiling a project: flatten, then the compiler model -/
def compileProject (P : Project) (fs : Imp.Comps → Bool) (cwd : Imp.Comps) (lookups : List Imp.Str) (main : Imp.Comps) :
    Except PErr (Except Err Result) :=
  match flatten P fs cwd lookups main with
  | .error e => .error e
  | .ok p => .ok (compile p)

end ESV.Comp
