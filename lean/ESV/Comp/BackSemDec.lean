import ESV.Comp.LabSem
import ESV.Comp.Lemmas
import ESV.Comp.BackSemSim
/-
Back-end correctness, framework for the labelled-code → labelled-code passes (LabelFinalizer's jump removal,
strip_last_label): a pass is described by a *decision* per item (kept as it is / replaced / dropped); positions of the
old code map to positions of the new code by counting kept items.
-/
namespace ESV.Comp
open ESV ESV.Beh

/-- old item and what became of it -/
abbrev Dec := LItem × Option LItem

def oldOf (ds : List (List Dec)) : List (List LItem) := ds.map fun dl => dl.map (·.1)
def newOf (ds : List (List Dec)) : List (List LItem) := ds.map fun dl => dl.filterMap (·.2)

/-- number of items that are still there -/
def cntK : List Dec → Nat
  | [] => 0
  | (_, some _) :: r => cntK r + 1
  | (_, none) :: r => cntK r

def decMap (ds : List (List Dec)) (x : LPos) : LPos :=
  ⟨x.rtn, match ds[x.rtn]? with
    | some dl => cntK (dl.take x.idx)
    | none => 0⟩

@[simp] theorem cntK_nil : cntK [] = 0 := rfl

theorem cntK_eq_length (dl : List Dec) : cntK dl = (dl.filterMap (·.2)).length := by
  induction dl with
  | nil => rfl
  | cons a r ih =>
    obtain ⟨x, d⟩ := a
    cases d <;> simp [cntK, ih]

theorem cntK_take_succ (dl : List Dec) (i : Nat) (x : LItem) (d : Option LItem) (h : dl[i]? = some (x, d)) :
    cntK (dl.take (i + 1)) = cntK (dl.take i) + (if d.isSome then 1 else 0) := by
  induction dl generalizing i with
  | nil => simp at h
  | cons a r ih =>
    cases i with
    | zero =>
      simp at h; subst h
      cases d <;> simp [cntK]
    | succ i =>
      simp at h
      have := ih i h
      obtain ⟨x', d'⟩ := a
      cases d' <;> simp [cntK, List.take_succ_cons] <;> omega

theorem cntK_take_all (dl : List Dec) (i : Nat) (h : dl.length ≤ i) : cntK (dl.take i) = cntK dl := by
  rw [List.take_of_length_le h]

/-- a kept item is found at the mapped index -/
theorem dec_get (dl : List Dec) : ∀ (i : Nat) (x y : LItem), dl[i]? = some (x, some y) →
    (dl.filterMap (·.2))[cntK (dl.take i)]? = some y := by
  induction dl with
  | nil => intro i x y h; simp at h
  | cons a r ih =>
    intro i x y h
    obtain ⟨x', d'⟩ := a
    cases i with
    | zero => simp at h; obtain ⟨_, rfl⟩ := h; simp
    | succ i =>
      simp at h
      have := ih i x y h
      cases d' <;> simpa [cntK, List.take_succ_cons] using this

theorem dec_get_none (dl : List Dec) (i : Nat) (h : dl.length ≤ i) : (dl.filterMap (·.2))[cntK (dl.take i)]? = none := by
  rw [cntK_take_all dl i h, cntK_eq_length]
  simp

/-- a property of items that every decision respects is found at corresponding places -/
theorem dec_findIdx (p : LItem → Bool) (dl : List Dec)
    (h : ∀ x d, (x, d) ∈ dl → match d with
      | some y => p y = p x
      | none => p x = false) :
    (dl.filterMap (·.2)).findIdx? p = ((dl.map (·.1)).findIdx? p).map fun i => cntK (dl.take i) := by
  induction dl with
  | nil => rfl
  | cons a r ih =>
    obtain ⟨x, d⟩ := a
    have ih' := ih (fun x' d' hm => h x' d' (List.mem_cons_of_mem _ hm))
    have hx := h x d (List.mem_cons_self ..)
    cases d with
    | none =>
      simp only at hx
      simp only [List.filterMap_cons, List.map_cons, List.findIdx?_cons, hx, ih']
      cases ((r.map (·.1)).findIdx? p) <;> simp [cntK]
    | some y =>
      simp only at hx
      simp only [List.filterMap_cons, List.map_cons, List.findIdx?_cons, hx]
      cases hp : p x with
      | true => simp
      | false =>
        simp only [ih', Bool.false_eq_true, if_false]
        cases ((r.map (·.1)).findIdx? p) <;> simp [cntK]

theorem ctxOK_get : ∀ (its : List LItem) (i : Nat) (x y : LItem), ctxOK its = true → its[i]? = some x → isCtxL x = true →
    its[i + 1]? = some y → afterCtxOK y = true := by
  intro its
  induction its with
  | nil => intro i x y _ h; simp at h
  | cons a r ih =>
    intro i x y hc hx hcx hy
    cases r with
    | nil => simp at hy
    | cons b r' =>
      simp only [ctxOK, Bool.and_eq_true, Bool.or_eq_true, Bool.not_eq_true'] at hc
      cases i with
      | zero =>
        simp at hx hy; subst hx; subst hy
        rcases hc.1 with h | h
        · rw [h] at hcx; cases hcx
        · exact h
      | succ i => exact ih i x y hc.2 (by simpa using hx) hcx (by simpa using hy)


theorem afterCtxL_succ (rs : List (List LItem)) (r j : Nat) :
    afterCtxL rs ⟨r, j + 1⟩ = match itemAt rs ⟨r, j⟩ with
      | some y => isCtxL y
      | none => false := by
  simp only [afterCtxL]
  cases itemAt rs ⟨r, j⟩ with
  | none => rfl
  | some y => cases y <;> rfl

theorem afterCtxOK_false_not_ctx (x : LItem) (h : afterCtxOK x = false) : isCtxL x = false := by
  cases x <;> simp [afterCtxOK, isCtxL] at h ⊢

theorem last_kept_before (dl : List Dec) : ∀ n c, n ≤ dl.length → cntK (dl.take n) = c + 1 →
    ∃ i x y, i < n ∧ dl[i]? = some (x, some y) ∧ cntK (dl.take i) = c ∧
      ∀ j, i < j → j < n → ∃ z, dl[j]? = some (z, none) := by
  intro n
  induction n with
  | zero => intro c _ h; simp at h
  | succ n ih =>
    intro c hn h
    obtain ⟨⟨z, d⟩, hz⟩ : ∃ z, dl[n]? = some z := ⟨dl[n], by simp [Nat.lt_of_succ_le hn]⟩
    rw [cntK_take_succ dl n z d hz] at h
    cases d with
    | some y =>
      simp at h
      exact ⟨n, z, y, by omega, hz, by omega, fun j h1 h2 => by omega⟩
    | none =>
      simp at h
      obtain ⟨i, x, y, h1, h2, h4, h5⟩ := ih c (by omega) h
      refine ⟨i, x, y, by omega, h2, h4, fun j hj1 hj2 => ?_⟩
      rcases Nat.lt_or_ge j n with hj | hj
      · exact h5 j hj1 hj
      · have : j = n := by omega
        subst this; exact ⟨z, hz⟩

/-! ### the two programs of a pass -/

/-- the decisions respect "is the definition of label `l`" -/
def LabOK (l : Nat) (ds : List (List Dec)) : Prop :=
  ∀ dl ∈ ds, ∀ x d, (x, d) ∈ dl → match d with
    | some y => isLabelOf l y = isLabelOf l x
    | none => isLabelOf l x = false

structure DecHyp (ds : List (List Dec)) : Prop where
  /-- what an item becomes is a context op iff the item was -/
  ctxPres : ∀ dl ∈ ds, ∀ x y, (x, some y) ∈ dl → isCtxL y = isCtxL x
  /-- only labels and `Jump`s are dropped -/
  dropOK : ∀ dl ∈ ds, ∀ x, (x, none) ∈ dl → afterCtxOK x = false
  ctx : (oldOf ds).all ctxOK = true

theorem oldOf_get (ds : List (List Dec)) (r : Nat) : (oldOf ds)[r]? = (ds[r]?).map fun dl => dl.map (·.1) := by
  simp [oldOf]

theorem newOf_get (ds : List (List Dec)) (r : Nat) : (newOf ds)[r]? = (ds[r]?).map fun dl => dl.filterMap (·.2) := by
  simp [newOf]

theorem findLabel_dec (l : Nat) (ds : List (List Dec)) (h : LabOK l ds) : ∀ (pre rest : List (List Dec)), ds = pre ++ rest →
    findLabel l (newOf rest) pre.length = (findLabel l (oldOf rest) pre.length).map (decMap ds) := by
  intro pre rest
  induction rest generalizing pre with
  | nil => intro _; rfl
  | cons dl rest ih =>
    intro hds
    have hmem : dl ∈ ds := by rw [hds]; simp
    have hf := dec_findIdx (isLabelOf l) dl (h dl hmem)
    have hget : ds[pre.length]? = some dl := by rw [hds]; simp
    simp only [newOf, oldOf, List.map_cons, findLabel, hf]
    cases hq : (dl.map (·.1)).findIdx? (isLabelOf l) with
    | some i => simp [decMap, hget]
    | none =>
      have := ih (pre ++ [dl]) (by simp [hds])
      simpa [newOf, oldOf] using this

theorem target_dec (l : Nat) (ds : List (List Dec)) (h : LabOK l ds) :
    target (newOf ds) l = decMap ds (target (oldOf ds) l) := by
  have := findLabel_dec l ds h [] ds rfl
  simp only [List.length_nil] at this
  simp only [target, this]
  cases findLabel l (oldOf ds) 0 with
  | some p => rfl
  | none => simp [stuckPos, decMap, newOf, oldOf]

theorem dec_itemAt_new (ds : List (List Dec)) (r i : Nat) (dl : List Dec) (x y : LItem) (hr : ds[r]? = some dl)
    (hi : dl[i]? = some (x, some y)) : itemAt (newOf ds) (decMap ds ⟨r, i⟩) = some y := by
  simp [itemAt, decMap, newOf_get, hr, dec_get dl i x y hi]

theorem dec_itemAt_old (ds : List (List Dec)) (r i : Nat) (dl : List Dec) (x : LItem) (d : Option LItem) (hr : ds[r]? = some dl)
    (hi : dl[i]? = some (x, d)) : itemAt (oldOf ds) ⟨r, i⟩ = some x := by
  simp [itemAt, oldOf_get, hr, hi]

theorem dec_next (ds : List (List Dec)) (r i : Nat) (dl : List Dec) (x y : LItem) (hr : ds[r]? = some dl)
    (hi : dl[i]? = some (x, some y)) : decMap ds ⟨r, i + 1⟩ = (decMap ds ⟨r, i⟩).next := by
  simp [decMap, hr, LPos.next, cntK_take_succ dl i x _ hi]

theorem dec_skip (ds : List (List Dec)) (r i : Nat) (dl : List Dec) (x : LItem) (hr : ds[r]? = some dl)
    (hi : dl[i]? = some (x, none)) : decMap ds ⟨r, i + 1⟩ = decMap ds ⟨r, i⟩ := by
  simp [decMap, hr, cntK_take_succ dl i x _ hi]

theorem dec_afterCtx (ds : List (List Dec)) (H : DecHyp ds) (r i : Nat) (dl : List Dec) (x y : LItem) (hr : ds[r]? = some dl)
    (hi : dl[i]? = some (x, some y)) : afterCtxL (newOf ds) (decMap ds ⟨r, i⟩) = afterCtxL (oldOf ds) ⟨r, i⟩ := by
  have hil : i < dl.length := by
    rcases Nat.lt_or_ge i dl.length with h | h
    · exact h
    · rw [List.getElem?_eq_none h] at hi; cases hi
  have hmem : dl ∈ ds := List.mem_of_getElem? hr
  have hdm : decMap ds ⟨r, i⟩ = ⟨r, cntK (dl.take i)⟩ := by simp [decMap, hr]
  rw [hdm]
  cases hc : cntK (dl.take i) with
  | zero =>
    have hN : afterCtxL (newOf ds) ⟨r, 0⟩ = false := rfl
    rw [hN]
    cases i with
    | zero => rfl
    | succ i' =>
      obtain ⟨⟨x', d'⟩, hx'⟩ : ∃ z, dl[i']? = some z := ⟨dl[i'], by simp [Nat.lt_of_succ_lt hil]⟩
      have hs := cntK_take_succ dl i' x' d' hx'
      cases d' with
      | some y' => simp at hs; omega
      | none =>
        rw [afterCtxL_succ, dec_itemAt_old ds r i' dl x' _ hr hx']
        exact (afterCtxOK_false_not_ctx x' (H.dropOK dl hmem x' (List.mem_of_getElem? hx'))).symm
  | succ c =>
    obtain ⟨i0, x0, y0, h1, h2, h4, h5⟩ := last_kept_before dl i c (by omega) hc
    have hnew : itemAt (newOf ds) ⟨r, c⟩ = some y0 := by
      have := dec_itemAt_new ds r i0 dl x0 y0 hr h2
      simpa [decMap, hr, h4] using this
    rw [afterCtxL_succ, hnew]
    have hcp := H.ctxPres dl hmem x0 y0 (List.mem_of_getElem? h2)
    obtain ⟨i', rfl⟩ : ∃ i', i = i' + 1 := ⟨i - 1, by omega⟩
    rw [afterCtxL_succ]
    rcases Nat.lt_or_ge i0 i' with hlt | hge
    · obtain ⟨z, hz⟩ := h5 i' hlt (by omega)
      rw [dec_itemAt_old ds r i' dl z _ hr hz]
      have hzc := afterCtxOK_false_not_ctx z (H.dropOK dl hmem z (List.mem_of_getElem? hz))
      simp only [hzc, hcp]
      cases hx0 : isCtxL x0 with
      | false => rfl
      | true =>
        exfalso
        obtain ⟨z1, hz1⟩ := h5 (i0 + 1) (by omega) (by omega)
        have hcx : ctxOK (dl.map (·.1)) = true := by
          have := H.ctx
          rw [List.all_eq_true] at this
          exact this _ (List.mem_of_getElem? (by rw [oldOf_get, hr]; rfl))
        have := ctxOK_get (dl.map (·.1)) i0 x0 z1 hcx (by simp [h2]) hx0 (by simp [hz1])
        rw [H.dropOK dl hmem z1 (List.mem_of_getElem? hz1)] at this
        cases this
    · have : i0 = i' := by omega
      subst this
      rw [dec_itemAt_old ds r i0 dl x0 _ hr h2]
      exact hcp

/-! ### step correspondence of kept items -/

/-- what an item does at position `p` (the inner part of `lstep`) -/
def itemStep (rs : List (List LItem)) (p : LPos) : LItem → Step LPos Ev
  | .label _ _ => .silent p.next
  | .ljump _ none => .halt (evInvalid "jump")
  | .ljump root (some l) =>
    if isJump root.name then .silent (target rs l)
    else if isTest root.name then .test ⟨root.name, convParams root.params⟩ (target rs l) p.next
    else .halt (evInvalid "jump")
  | .op o =>
    if isJump o.name || isTest o.name then .halt (evInvalid "raw")
    else if Beh.endsFlow o.name && !afterCtxL rs p then .halt ⟨o.name, convParams o.params⟩
    else .emit ⟨o.name, convParams o.params⟩ p.next

theorem lstep_item (rs : List (List LItem)) (p : LPos) (x : LItem) (h : itemAt rs p = some x) :
    lstep rs p = itemStep rs p x := by
  simp only [itemAt] at h
  unfold lstep
  cases hr : rs[p.rtn]? with
  | none => simp [hr] at h
  | some its =>
    simp only [hr] at h
    simp only [h]
    cases x with
    | label id nm => rfl
    | op o => rfl
    | ljump root l => cases l <;> rfl

def IsSucc {σ ε : Type} : Step σ ε → σ → Prop
  | .silent a, s => s = a
  | .emit _ a, s => s = a
  | .test _ y n, s => s = y ∨ s = n
  | .halt _, _ => False

section corr
variable (ds : List (List Dec)) (Good : LPos → Prop)

/-- an item that is kept as it is steps alike in both programs -/
theorem dec_stepCorr_same (H : DecHyp ds) (r i : Nat) (dl : List Dec) (x : LItem) (hr : ds[r]? = some dl)
    (hi : dl[i]? = some (x, some x))
    (hlab : ∀ root l, x = .ljump root (some l) → LabOK l ds)
    (hok : ∀ s, IsSucc (lstep (oldOf ds) ⟨r, i⟩) s →
      MapRel (labLTS (oldOf ds)) (labLTS (newOf ds)) (decMap ds) Good s (decMap ds s)) :
    StepCorr (labLTS (oldOf ds)) (labLTS (newOf ds)) (decMap ds) Good ⟨r, i⟩ := by
  have e1 : lstep (oldOf ds) ⟨r, i⟩ = itemStep (oldOf ds) ⟨r, i⟩ x := lstep_item _ _ _ (dec_itemAt_old ds r i dl x _ hr hi)
  have e2 : lstep (newOf ds) (decMap ds ⟨r, i⟩) = itemStep (newOf ds) (decMap ds ⟨r, i⟩) x :=
    lstep_item _ _ _ (dec_itemAt_new ds r i dl x x hr hi)
  have hn : (decMap ds ⟨r, i⟩).next = decMap ds ⟨r, i + 1⟩ := (dec_next ds r i dl x x hr hi).symm
  have hc := dec_afterCtx ds H r i dl x x hr hi
  unfold StepCorr
  rw [show (labLTS (oldOf ds)).step = lstep (oldOf ds) from rfl, show (labLTS (newOf ds)).step = lstep (newOf ds) from rfl]
  rw [e1] at hok
  rw [e1, e2]
  cases x with
  | label id nm =>
    simp only [itemStep] at hok ⊢
    exact ⟨by rw [hn]; rfl, hok _ rfl⟩
  | ljump root l =>
    cases l with
    | none => simp only [itemStep] <;> rfl
    | some l =>
      have ht := target_dec l ds (hlab root l rfl)
      simp only [itemStep, ht] at hok ⊢
      cases hj : isJump root.name with
      | true =>
        simp only [hj, if_true] at hok ⊢
        exact ⟨rfl, hok _ rfl⟩
      | false =>
        cases hte : isTest root.name with
        | true =>
          simp only [hj, hte, if_true, Bool.false_eq_true, if_false] at hok ⊢
          exact ⟨by rw [hn]; rfl, hok _ (.inl rfl), hok _ (.inr rfl)⟩
        | false =>
          rfl
  | op o =>
    simp only [itemStep, hc] at hok ⊢
    cases hjt : (isJump o.name || isTest o.name) with
    | true => simp only [if_true] <;> rfl
    | false =>
      simp only [hjt, Bool.false_eq_true, if_false] at hok ⊢
      cases hb : (Beh.endsFlow o.name && !afterCtxL (oldOf ds) ⟨r, i⟩) with
      | true => simp only [if_true] <;> rfl
      | false =>
        simp only [hb, Bool.false_eq_true, if_false] at hok ⊢
        exact ⟨by rw [hn]; rfl, hok _ rfl⟩

/-- past the end of a routine and outside every routine both programs halt alike -/
theorem dec_stepCorr_end (r i : Nat) (h : ∀ dl, ds[r]? = some dl → dl.length ≤ i) :
    StepCorr (labLTS (oldOf ds)) (labLTS (newOf ds)) (decMap ds) Good ⟨r, i⟩ := by
  unfold StepCorr
  rw [show (labLTS (oldOf ds)).step = lstep (oldOf ds) from rfl, show (labLTS (newOf ds)).step = lstep (newOf ds) from rfl]
  cases hr : ds[r]? with
  | none =>
    have e1 : lstep (oldOf ds) ⟨r, i⟩ = .halt evStuck := by simp [lstep, oldOf_get, hr]
    have e2 : lstep (newOf ds) (decMap ds ⟨r, i⟩) = .halt evStuck := by simp [lstep, newOf_get, decMap, hr]
    rw [e1, e2]; rfl
  | some dl =>
    have hl := h dl hr
    have e1 : lstep (oldOf ds) ⟨r, i⟩ = .halt evReturn := by
      simp only [lstep, oldOf_get, hr, Option.map_some]
      rw [List.getElem?_eq_none (by simpa using hl)]
    have e2 : lstep (newOf ds) (decMap ds ⟨r, i⟩) = .halt evReturn := by
      simp only [lstep, newOf_get, decMap, hr, Option.map_some, dec_get_none dl i hl]
    rw [e1, e2]; rfl

end corr

end ESV.Comp
