import ESV.Comp.FrontW9
/-
`frontend_wfl`, part 10: the guard on programs, the allotments of reserved label numbers and user labels, and the recursion
over the statement tree.
-/
namespace ESV.Comp
open ESV ESV.Beh

/-! ### allotments -/

mutual
/-- the label numbers reserved while visiting that the collected code of a statement defines -/
def rsStmt (lb : Nat) : Stmt → List Nat
  | .ite _ _ body elifs hasElse els =>
    rsStmts lb body ++ rsElifsA (lb + vlStmts body) elifs ++
      (if hasElse then rsStmts (lb + vlStmts body + vlElifs elifs) els else []) ++ rsElifsB (lb + vlStmts body) elifs
  | .switch _ cs => rsCases lb cs
  | .forever body => [lb + 1, lb + 2] ++ rsStmts (lb + 2) body
  | .while_ _ _ body => [lb + 1, lb + 2] ++ rsStmts (lb + 2) body
  | .for_ _ _ _ body => [lb + 1, lb + 2, lb + 3, lb + 4, lb + 5] ++ rsStmts (lb + 5) body
  | _ => []
def rsStmts (lb : Nat) : Stmts → List Nat
  | .nil => []
  | .cons s r => rsStmt lb s ++ rsStmts (lb + vlStmt s) r
def rsElifsA (lb : Nat) : Elifs → List Nat
  | .nil => []
  | .cons neg _ body r => (if neg then rsStmts lb body else []) ++ rsElifsA (lb + vlStmts body) r
def rsElifsB (lb : Nat) : Elifs → List Nat
  | .nil => []
  | .cons neg _ body r => (if neg then [] else rsStmts lb body) ++ rsElifsB (lb + vlStmts body) r
def rsCases (lb : Nat) : Cases → List Nat
  | .nil => []
  | .cons _ _ _ body r => (if body.isNil then [] else rsStmts lb body) ++ rsCases (lb + vlStmts body) r
end


def negsOf : Elifs → List Bool
  | .nil => []
  | .cons neg _ _ r => neg :: negsOf r

/-- the reserved interval of a statement lies in the interval of its routine -/
def Bnd (c : LCtx) (lb vl : Nat) : Prop := c.LB ≤ lb ∧ lb + vl ≤ c.HB

theorem simple_vl (s : Stmt) (h : simpleStmt s = true) : vlStmt s = 0 := by
  cases s <;> simp [simpleStmt] at h <;> simp [vlStmt]

theorem simple_rs (lb : Nat) (s : Stmt) (h : simpleStmt s = true) : rsStmt lb s = [] := by
  cases s <;> simp [simpleStmt] at h <;> simp [rsStmt]

theorem casesOK_of_w : ∀ (cs : Cases), wCases cs = true → CasesOK cs
  | .nil, _ => trivial
  | .cons true _ _ _ r, h => by
    simp only [wCases, Bool.and_eq_true] at h
    exact casesOK_of_w r h.2
  | .cons false name _ _ r, h => by
    simp only [wCases, Bool.false_or, Bool.and_eq_true] at h
    exact ⟨h.1.1, casesOK_of_w r h.2⟩

theorem hdrsOK_of_all (hs : List Hdr) (h : hs.all (fun h => isTest h.name) = true) : HdrsOK hs :=
  fun x hx => List.all_eq_true.mp h x hx

/-! ### the statement inside a with-block -/

theorem end_facts : isCtx Gen.op_end = false ∧ (Gen.op_end != Gen.op_return) = true ∧ isCtx Gen.op_hold = false ∧
    (Gen.op_hold != Gen.op_return) = true ∧ isCtx Gen.op_return = false ∧ isJump Gen.op_call = false := by decide

theorem opStmt_inner (name : String) (ps : List Param) (h1 : isCtx name = false) (h2 : (name != Gen.op_return) = true) :
    InnerOK (opStmt name ps) := by
  intro s items s' h x hx
  simp only [opStmt, bind_ok, pure_ok] at h
  obtain ⟨o, s1, ho, h3⟩ := h
  simp only [Prod.mk.injEq] at h3
  obtain ⟨rfl, rfl⟩ := h3
  obtain ⟨rfl, rfl⟩ := genOp_spec ho
  simp at hx; subst hx
  exact ⟨by simpa [afterCtxS] using h2, by simpa [isCtxL] using h1⟩

theorem callStmt_inner (n : String) : InnerOK (callStmt n) := by
  intro s items s' h x hx
  simp only [callStmt, bind_ok, pure_ok] at h
  obtain ⟨i, s1, _, o, s2, ho, h3⟩ := h
  simp only [Prod.mk.injEq] at h3
  obtain ⟨rfl, rfl⟩ := h3
  obtain ⟨rfl, rfl⟩ := genOp_spec ho
  simp at hx; subst hx
  exact ⟨by simp [afterCtxS, end_facts.2.2.2.2.2], rfl⟩

theorem inner_w {c : LCtx} (ms : Macros) (lb : Nat) (inner : Stmt) (h : innerOK inner = true) :
    WM c [] [] (cStmt ms lb inner) ∧ InnerOK (cStmt ms lb inner) := by
  cases inner with
  | op n ps =>
    simp only [innerOK, Bool.and_eq_true, Bool.not_eq_true'] at h
    simp only [cStmt]
    exact ⟨opStmt_w ps h.1, opStmt_inner n ps h.1 h.2⟩
  | call n =>
    simp only [cStmt]
    exact ⟨callStmt_w n, callStmt_inner n⟩
  | end_ =>
    simp only [cStmt]
    exact ⟨opStmt_w [] end_facts.1, opStmt_inner _ [] end_facts.1 end_facts.2.1⟩
  | hold =>
    simp only [cStmt]
    exact ⟨opStmt_w [] end_facts.2.2.1, opStmt_inner _ [] end_facts.2.2.1 end_facts.2.2.2.1⟩
  | _ => simp [innerOK] at h

end ESV.Comp
