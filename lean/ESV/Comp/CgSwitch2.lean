import ESV.Comp.CgSwitch1
/-
`codegen_correct`, switches: what step 3 of `SwitchBlock.collect` has built for a list of cases (`SwSem`), one step for a
case with a block, one for the default with a block.
-/
namespace ESV.Comp
open ESV ESV.Beh

local macro "len_omega" : tactic =>
  `(tactic| ((try simp only [List.length_append, List.length_cons, List.length_nil]) <;> (try omega)))
local macro "lst" : tactic => `(tactic| ((try simp only [List.append_assoc, List.cons_append, List.nil_append]) <;> (try rfl)))

/-- the default ops `dOut` against the default entry of the source cases -/
def DefOK (cx : Cx) (m j : Nat) (dIn dOut : List LItem) : Option Nat → Prop
  | some d => ∃ o X, dOut = [.ljump ⟨o, Gen.op_jump, []⟩ (some X)] ∧ R2 cx m j (target cx.rs (cx.cp.σ X)) d
  | none => dOut = dIn

/-- `Hn`: the header jumps, `Cn`: the blocks collected for the source cases `SC`; `dIn` / `dOut`: the default ops before / after.
`L`, `Cs`: the loop and case stacks around the switch.  `FI`: control can fall into the first block from above (a first block
that was folded into its header jumps is only a label: it must not be fallen into). -/
structure SwSem (cx : Cx) (fuel : Nat) (env : Src.Env) (endL : Nat) (L : List (Nat × Nat)) (Cs : List Nat) (sE : St) (FI : Prop)
    (SC : Src.Cases) (Hn Cn dIn dOut : List LItem) : Prop where
  grow : ∀ k nt b, Grow cx.Z b (Src.trCases fuel cx.sm (brkEnv env k) SC k nt b).1
  corr : ∀ k nt r pH pC, Placed cx.cp cx.rs r pH Hn → Placed cx.cp cx.rs r pC Cn → ∀ b,
    AgreeOn cx.N cx.Z b (Src.trCases fuel cx.sm (brkEnv env k) SC k nt b).1 → ∀ m j (sC : St), sC.loops = L → sC.cases = endL :: Cs →
    ExitsOK cx m j sC (brkEnv env k) → NamedIn cx sE → R2 cx m j ⟨r, pC + Cn.length⟩ k →
    (R2 cx m j ⟨r, pH + Hn.length⟩ nt → R2 cx m j ⟨r, pH⟩ (Src.trCases fuel cx.sm (brkEnv env k) SC k nt b).2.2.1) ∧
    (FI → R2 cx m j ⟨r, pC⟩ (Src.trCases fuel cx.sm (brkEnv env k) SC k nt b).2.1) ∧
    DefOK cx m j dIn dOut (Src.trCases fuel cx.sm (brkEnv env k) SC k nt b).2.2.2 ∧
    LabExport cx env m j b (Src.trCases fuel cx.sm (brkEnv env k) SC k nt b).1

theorem sw_nil (cx : Cx) (fuel : Nat) (env : Src.Env) (endL : Nat) (L : List (Nat × Nat)) (Cs : List Nat) (sE : St) (FI : Prop) (d : List LItem) :
    SwSem cx fuel env endL L Cs sE FI .nil [] [] d d := by
  refine ⟨fun k nt b => by rw [trCases_nil]; exact Grow.refl b, ?_⟩
  intro k nt r pH pC _ _ b _ m j sC _ _ _ _ hend
  rw [trCases_nil]
  exact ⟨fun h => by simpa using h, fun _ => by simpa using hend, rfl, LabExport.same (fun _ _ => rfl)⟩

/-- a case with a block: the header jumps of the handlers waiting for it, its own header jump, its block -/
theorem sw_case (cx : Cx) (fuel : Nat) (env : Src.Env) (he : EnvOK cx env) (endL : Nat) (L : List (Nat × Nat)) (Cs : List Nat)
    (w : List (Option BP)) (hs dIn d1 : List LItem) (sL eB : Nat) (ops : List LItem) (sa sb : St) (body : Stmts) (n : Nat) (bp : BP)
    (htest : isTest bp.name = true)
    (hP : ∀ env', EnvOK cx env' → PieceOK cx ops sa sb (fun k b => Src.trStmts fuel cx.sm env' (toSrcStmts body) k b) env')
    (hsaL : sa.loops = L) (hsaC : sa.cases = endL :: Cs) (hW : WaitSem cx fuel sL w hs dIn d1) {sE : St} (hle : NamedLe sb sE)
    {SCr : Src.Cases} {Hr Cr dOut : List LItem} (hR : SwSem cx fuel env endL L Cs sE (falls ops = true) SCr Hr Cr d1 dOut)
    (hnd : hasNone w = true → ∀ k nt b, (Src.trCases fuel cx.sm (brkEnv env k) SCr k nt b).2.2.2 = none) (FI : Prop) :
    SwSem cx fuel env endL L Cs sE FI (wSrc w (.cons false ⟨bp.name, convParams bp.params⟩ (toSrcStmts body) SCr))
      (hs ++ [LItem.ljump ⟨n, bp.name, bp.params⟩ (some sL)] ++ Hr)
      ([LItem.label sL false] ++ ops ++ [LItem.label eB false] ++ Cr) dIn dOut := by
  have hsub : ∀ k, EvOK cx (brkEnv env k).subst := fun k => he.ev
  refine ⟨fun k nt b => ?_, ?_⟩
  · obtain ⟨gW, _, _, _⟩ := hW.sem (brkEnv env k) (hsub k) k nt (.cons false ⟨bp.name, convParams bp.params⟩ (toSrcStmts body) SCr) b
    rw [trCases_case fuel cx.sm (brkEnv env k) _ _ SCr k nt b rfl rfl] at gW
    exact (((hR.grow k nt b).trans ((hP _ (plainEnv_brkEnv he k)).grow _ _)).trans (Grow.push _ _)).trans gW.grow
  intro k nt r pH pC hpH hpC b hag m j sC hl hc hex hin hend
  have hPe := hP _ (plainEnv_brkEnv he k)
  obtain ⟨gW, ebW, edW, cW⟩ := hW.sem (brkEnv env k) (hsub k) k nt (.cons false ⟨bp.name, convParams bp.params⟩ (toSrcStmts body) SCr) b
  have gR := hR.grow k nt b
  have cR := fun r' pH' pC' (h1 : Placed cx.cp cx.rs r' pH' Hr) (h2 : Placed cx.cp cx.rs r' pC' Cr) => hR.corr k nt r' pH' pC' h1 h2 b
  generalize hT0 : Src.trCases fuel cx.sm (brkEnv env k) SCr k nt b = T0 at gR cR
  have gB := hPe.grow T0.2.1 T0.1
  try simp only at gB
  generalize hBd : Src.trStmts fuel cx.sm (brkEnv env k) (toSrcStmts body) T0.2.1 T0.1 = Bd at gB
  have htr := trCases_case fuel cx.sm (brkEnv env k) ⟨bp.name, convParams bp.params⟩ (toSrcStmts body) SCr k nt b hT0 hBd
  rw [htr] at gW ebW edW cW
  simp only at gW ebW edW cW
  generalize hTW : Src.trCases fuel cx.sm (brkEnv env k) (wSrc w (.cons false ⟨bp.name, convParams bp.params⟩ (toSrcStmts body) SCr)) k nt b = TW
    at hag gW ebW edW cW ⊢
  obtain ⟨a1, a2⟩ := tbl_push Bd.1 (.test (Src.substEv (brkEnv env k).subst ⟨bp.name, convParams bp.params⟩) Bd.2 T0.2.2.1)
  -- the node table
  have agR : AgreeOn cx.N cx.Z b T0.1 := hag.sub_grow (Grow.refl b) ((gB.trans (Grow.push _ _)).trans gW.grow)
  have agB : AgreeOn cx.N cx.Z T0.1 Bd.1 := hag.sub_grow gR ((Grow.push _ _).trans gW.grow)
  have agW : AgreeOn cx.N cx.Z (Bd.1.push (.test (Src.substEv (brkEnv env k).subst ⟨bp.name, convParams bp.params⟩) Bd.2 T0.2.2.1)).1 TW.1 :=
    hag.sub_grow ((gR.trans gB).trans (Grow.push _ _)) (Grow.refl _)
  have hN : cx.N[(tbl Bd.1).length]? = some (.test (Src.substEv (brkEnv env k).subst ⟨bp.name, convParams bp.params⟩) Bd.2 T0.2.2.1) := by
    have hl1 := gW.len
    rw [a1] at hl1
    simp only [List.length_append, List.length_cons, List.length_nil] at hl1
    rw [hag.2 _ (gR.trans gB).len (by omega), gW.same (by rw [a1]; simp), a1]
    simp
  -- positions
  have hpHs : Placed cx.cp cx.rs r pH hs := hpH.left.left
  have hitT : ItemC cx.cp cx.rs ⟨r, pH + hs.length⟩ (.ljump ⟨n, bp.name, bp.params⟩ (some sL)) :=
    hpH.here' hs _ _ (by lst) rfl
  have hpHr : Placed cx.cp cx.rs r (pH + hs.length + 1) Hr :=
    hpH.mid' (hs ++ [LItem.ljump ⟨n, bp.name, bp.params⟩ (some sL)]) Hr [] (by simp) (by len_omega)
  have hpBlk : Placed cx.cp cx.rs r pC ([LItem.label sL false] ++ ops ++ [LItem.label eB false] ++ Cr) := hpC
  have hpCr : Placed cx.cp cx.rs r (pC + ops.length + 2) Cr :=
    hpC.mid' ([LItem.label sL false] ++ ops ++ [LItem.label eB false]) Cr [] (by simp) (by len_omega)
  have htgt : target cx.rs (cx.cp.σ sL) = ⟨r, pC⟩ := hpC.lbl' cx.hlab [] _ sL false (by lst) rfl
  have hendR : R2 cx m j ⟨r, pC + ops.length + 2 + Cr.length⟩ k := by
    have e : pC + ops.length + 2 + Cr.length = pC + ([LItem.label sL false] ++ ops ++ [LItem.label eB false] ++ Cr).length := by len_omega
    rw [e]; exact hend
  obtain ⟨tR, bR, dR, xR⟩ := cR r (pH + hs.length + 1) (pC + ops.length + 2) hpHr hpCr agR m j sC hl hc hex hin hendR
  -- the body
  have hexA : ExitsOK cx m j sa (brkEnv env k) := hex.same (hsaL.trans hl.symm) (hsaC.trans hc.symm)
  have hbody2 : R2 cx m j ⟨r, pC⟩ Bd.2 ∧ LabExport cx (brkEnv env k) m j T0.1 Bd.1 := by
    have := loop_body_run cx hPe sL eB Cr hpBlk T0.2.1 T0.1 (by rw [hBd]; exact agB) m j hexA (hin.le hle) bR
    rw [hBd] at this; exact this
  have hbody := hbody2.1
  have hstep := lab_test hitT (isTest_not_jump _ htest) htest
  simp only [hsub k bp.name bp.params] at hstep
  refine ⟨fun hnt => ?_, fun _ => by rw [ebW]; exact hbody, ?_, LabExport.comp gR.len xR
    (LabExport.comp gB.len hbody2.2 (LabExport.same (fun i hi => ((Pushes.push _ _).trans gW).same hi)))⟩
  · have hnt' : R2 cx m j ⟨r, pH + hs.length + 1 + Hr.length⟩ nt := by
      have e : pH + hs.length + 1 + Hr.length = pH + (hs ++ [LItem.ljump ⟨n, bp.name, bp.params⟩ (some sL)] ++ Hr).length := by len_omega
      rw [e]; exact hnt
    have hthis : R2 cx m j ⟨r, pH + hs.length⟩ (tbl Bd.1).length :=
      R2.test hstep (nodeStep_of hN) (by rw [htgt]; exact hbody.1)
        (by rw [LPos.next_eq r _ (pH + hs.length + 1) rfl]; exact (tR hnt').1)
    exact cW r pH hpHs agW m j (by rw [htgt]; exact hbody.1) hthis
  · rw [edW]
    cases hn : hasNone w with
    | true =>
      obtain ⟨o, hd1⟩ := hW.dsome hn
      have := hnd hn k nt b
      rw [hT0] at this
      rw [this] at dR
      simp only [DefOK] at dR
      simp only [if_true, DefOK]
      exact ⟨o, sL, by rw [dR, hd1], by rw [htgt]; exact hbody⟩
    | false =>
      have hd1 := hW.dnone hn
      simp only [Bool.false_eq_true, if_false]
      rw [← hd1]; exact dR

/-- the default with a block: the header jumps of the handlers waiting for it, the jump of the default ops, its block -/
theorem sw_default (cx : Cx) (fuel : Nat) (env : Src.Env) (he : EnvOK cx env) (endL : Nat) (L : List (Nat × Nat)) (Cs : List Nat)
    (w : List (Option BP)) (hs dIn d1 : List LItem) (sL eB : Nat) (ops : List LItem) (sa sb : St) (body : Stmts) (n0 : Nat)
    (hP : ∀ env', EnvOK cx env' → PieceOK cx ops sa sb (fun k b => Src.trStmts fuel cx.sm env' (toSrcStmts body) k b) env')
    (hsaL : sa.loops = L) (hsaC : sa.cases = endL :: Cs)
    (hW : WaitSem cx fuel sL w hs [LItem.ljump ⟨n0, Gen.op_jump, []⟩ (some sL)] d1) {sE : St} (hle : NamedLe sb sE)
    {SCr : Src.Cases} {Hr Cr dOut : List LItem} (hR : SwSem cx fuel env endL L Cs sE (falls ops = true) SCr Hr Cr d1 dOut)
    (hnd : ∀ k nt b, (Src.trCases fuel cx.sm (brkEnv env k) SCr k nt b).2.2.2 = none) (FI : Prop) :
    SwSem cx fuel env endL L Cs sE FI (wSrc w (.cons true ⟨"", []⟩ (toSrcStmts body) SCr))
      (hs ++ Hr) ([LItem.label sL false] ++ ops ++ [LItem.label eB false] ++ Cr) dIn dOut := by
  have hsub : ∀ k, EvOK cx (brkEnv env k).subst := fun k => he.ev
  refine ⟨fun k nt b => ?_, ?_⟩
  · obtain ⟨gW, _, _, _⟩ := hW.sem (brkEnv env k) (hsub k) k nt (.cons true ⟨"", []⟩ (toSrcStmts body) SCr) b
    rw [trCases_default fuel cx.sm (brkEnv env k) _ _ SCr k nt b rfl rfl] at gW
    exact ((hR.grow k nt b).trans ((hP _ (plainEnv_brkEnv he k)).grow _ _)).trans gW.grow
  intro k nt r pH pC hpH hpC b hag m j sC hl hc hex hin hend
  have hPe := hP _ (plainEnv_brkEnv he k)
  obtain ⟨gW, ebW, edW, cW⟩ := hW.sem (brkEnv env k) (hsub k) k nt (.cons true ⟨"", []⟩ (toSrcStmts body) SCr) b
  have gR := hR.grow k nt b
  have cR := fun r' pH' pC' (h1 : Placed cx.cp cx.rs r' pH' Hr) (h2 : Placed cx.cp cx.rs r' pC' Cr) => hR.corr k nt r' pH' pC' h1 h2 b
  have hndk := hnd k nt b
  generalize hT0 : Src.trCases fuel cx.sm (brkEnv env k) SCr k nt b = T0 at gR cR hndk
  have gB := hPe.grow T0.2.1 T0.1
  try simp only at gB
  generalize hBd : Src.trStmts fuel cx.sm (brkEnv env k) (toSrcStmts body) T0.2.1 T0.1 = Bd at gB
  have htr := trCases_default fuel cx.sm (brkEnv env k) ⟨"", []⟩ (toSrcStmts body) SCr k nt b hT0 hBd
  rw [htr] at gW ebW edW cW
  simp only at gW ebW edW cW
  generalize hTW : Src.trCases fuel cx.sm (brkEnv env k) (wSrc w (.cons true ⟨"", []⟩ (toSrcStmts body) SCr)) k nt b = TW
    at hag gW ebW edW cW ⊢
  have agR : AgreeOn cx.N cx.Z b T0.1 := hag.sub_grow (Grow.refl b) (gB.trans gW.grow)
  have agB : AgreeOn cx.N cx.Z T0.1 Bd.1 := hag.sub_grow gR gW.grow
  have agW : AgreeOn cx.N cx.Z Bd.1 TW.1 := hag.sub_grow (gR.trans gB) (Grow.refl _)
  have hpHs : Placed cx.cp cx.rs r pH hs := hpH.left
  have hpHr : Placed cx.cp cx.rs r (pH + hs.length) Hr := hpH.right
  have hpBlk : Placed cx.cp cx.rs r pC ([LItem.label sL false] ++ ops ++ [LItem.label eB false] ++ Cr) := hpC
  have hpCr : Placed cx.cp cx.rs r (pC + ops.length + 2) Cr :=
    hpC.mid' ([LItem.label sL false] ++ ops ++ [LItem.label eB false]) Cr [] (by simp) (by len_omega)
  have htgt : target cx.rs (cx.cp.σ sL) = ⟨r, pC⟩ := hpC.lbl' cx.hlab [] _ sL false (by lst) rfl
  have hendR : R2 cx m j ⟨r, pC + ops.length + 2 + Cr.length⟩ k := by
    have e : pC + ops.length + 2 + Cr.length = pC + ([LItem.label sL false] ++ ops ++ [LItem.label eB false] ++ Cr).length := by len_omega
    rw [e]; exact hend
  obtain ⟨tR, bR, dR, xR⟩ := cR r (pH + hs.length) (pC + ops.length + 2) hpHr hpCr agR m j sC hl hc hex hin hendR
  have hexA : ExitsOK cx m j sa (brkEnv env k) := hex.same (hsaL.trans hl.symm) (hsaC.trans hc.symm)
  have hbody2 : R2 cx m j ⟨r, pC⟩ Bd.2 ∧ LabExport cx (brkEnv env k) m j T0.1 Bd.1 := by
    have := loop_body_run cx hPe sL eB Cr hpBlk T0.2.1 T0.1 (by rw [hBd]; exact agB) m j hexA (hin.le hle) bR
    rw [hBd] at this; exact this
  have hbody := hbody2.1
  refine ⟨fun hnt => ?_, fun _ => by rw [ebW]; exact hbody, ?_, LabExport.comp gR.len xR
    (LabExport.comp gB.len hbody2.2 (LabExport.same (fun i hi => gW.same hi)))⟩
  · have hnt' : R2 cx m j ⟨r, pH + hs.length + Hr.length⟩ nt := by
      have e : pH + hs.length + Hr.length = pH + (hs ++ Hr).length := by len_omega
      rw [e]; exact hnt
    exact cW r pH hpHs agW m j (by rw [htgt]; exact hbody.1) (tR hnt')
  · rw [edW]
    rw [hndk] at dR
    simp only [DefOK] at dR
    have hd1 : ∃ o, d1 = [LItem.ljump ⟨o, Gen.op_jump, []⟩ (some sL)] := by
      cases hn : hasNone w with
      | true => exact hW.dsome hn
      | false => exact ⟨n0, hW.dnone hn⟩
    obtain ⟨o, hd1⟩ := hd1
    have hres : DefOK cx m j dIn dOut (some Bd.2) := ⟨o, sL, by rw [dR, hd1], by rw [htgt]; exact hbody⟩
    cases hasNone w <;> simpa using hres

theorem SwSem.weaken {cx : Cx} {fuel : Nat} {env : Src.Env} {endL : Nat} {L : List (Nat × Nat)} {Cs : List Nat} {sE : St} {FI FI' : Prop}
    {SC : Src.Cases} {Hn Cn dIn dOut : List LItem} (h : SwSem cx fuel env endL L Cs sE FI' SC Hn Cn dIn dOut) (hi : FI → FI') :
    SwSem cx fuel env endL L Cs sE FI SC Hn Cn dIn dOut :=
  ⟨h.grow, fun k nt r pH pC h1 h2 b hag m j sC hl hc hex hin hend => by
    obtain ⟨a, b', c, d⟩ := h.corr k nt r pH pC h1 h2 b hag m j sC hl hc hex hin hend
    exact ⟨a, fun hf => b' (hi hf), c, d⟩⟩

/-- a case whose block is one `Jump`, folded into the header jumps: they go where the jump goes; the block is only its end
label, nothing falls into it -/
theorem sw_fold (cx : Cx) (fuel : Nat) (env : Src.Env) (he : EnvOK cx env) (endL : Nat) (L : List (Nat × Nat)) (Cs : List Nat)
    (w : List (Option BP)) (hs dIn d1 : List LItem) (l eB : Nat) (ops : List LItem) (sa sb : St) (body : Stmts) (n : Nat) (bp : BP)
    (htest : isTest bp.name = true) (hlone : loneJump ops = some (some l))
    (hP : ∀ env', EnvOK cx env' → PieceOK cx ops sa sb (fun k b => Src.trStmts fuel cx.sm env' (toSrcStmts body) k b) env')
    (hsaL : sa.loops = L) (hsaC : sa.cases = endL :: Cs) (hW : WaitSem cx fuel l w hs dIn d1) {sE : St} (hle : NamedLe sb sE)
    {SCr : Src.Cases} {Hr Cr dOut : List LItem} (hR : SwSem cx fuel env endL L Cs sE False SCr Hr Cr d1 dOut)
    (hnd : hasNone w = true → ∀ k nt b, (Src.trCases fuel cx.sm (brkEnv env k) SCr k nt b).2.2.2 = none) :
    SwSem cx fuel env endL L Cs sE False (wSrc w (.cons false ⟨bp.name, convParams bp.params⟩ (toSrcStmts body) SCr))
      (hs ++ [LItem.ljump ⟨n, bp.name, bp.params⟩ (some l)] ++ Hr) ([LItem.label eB false] ++ Cr) dIn dOut := by
  have hsub : ∀ k, EvOK cx (brkEnv env k).subst := fun k => he.ev
  refine ⟨fun k nt b => ?_, ?_⟩
  · obtain ⟨gW, _, _, _⟩ := hW.sem (brkEnv env k) (hsub k) k nt (.cons false ⟨bp.name, convParams bp.params⟩ (toSrcStmts body) SCr) b
    rw [trCases_case fuel cx.sm (brkEnv env k) _ _ SCr k nt b rfl rfl] at gW
    exact (((hR.grow k nt b).trans ((hP _ (plainEnv_brkEnv he k)).grow _ _)).trans (Grow.push _ _)).trans gW.grow
  intro k nt r pH pC hpH hpC b hag m j sC hl hc hex hin hend
  have hPe := hP _ (plainEnv_brkEnv he k)
  have hexA : ExitsOK cx m j sa (brkEnv env k) := hex.same (hsaL.trans hl.symm) (hsaC.trans hc.symm)
  obtain ⟨nn, htrf, hRl⟩ := hPe.lone l hlone m j hexA (hin.le hle)
  obtain ⟨gW, ebW, edW, cW⟩ := hW.sem (brkEnv env k) (hsub k) k nt (.cons false ⟨bp.name, convParams bp.params⟩ (toSrcStmts body) SCr) b
  have gR := hR.grow k nt b
  have cR := fun r' pH' pC' (h1 : Placed cx.cp cx.rs r' pH' Hr) (h2 : Placed cx.cp cx.rs r' pC' Cr) => hR.corr k nt r' pH' pC' h1 h2 b
  generalize hT0 : Src.trCases fuel cx.sm (brkEnv env k) SCr k nt b = T0 at gR cR
  have hBd : Src.trStmts fuel cx.sm (brkEnv env k) (toSrcStmts body) T0.2.1 T0.1 = (T0.1, nn) := htrf _ _
  have htr := trCases_case fuel cx.sm (brkEnv env k) ⟨bp.name, convParams bp.params⟩ (toSrcStmts body) SCr k nt b hT0 hBd
  rw [htr] at gW ebW edW cW
  simp only at gW ebW edW cW
  generalize hTW : Src.trCases fuel cx.sm (brkEnv env k) (wSrc w (.cons false ⟨bp.name, convParams bp.params⟩ (toSrcStmts body) SCr)) k nt b = TW
    at hag gW ebW edW cW ⊢
  obtain ⟨a1, a2⟩ := tbl_push T0.1 (.test (Src.substEv (brkEnv env k).subst ⟨bp.name, convParams bp.params⟩) nn T0.2.2.1)
  have agR : AgreeOn cx.N cx.Z b T0.1 := hag.sub_grow (Grow.refl b) ((Grow.push _ _).trans gW.grow)
  have agW : AgreeOn cx.N cx.Z (T0.1.push (.test (Src.substEv (brkEnv env k).subst ⟨bp.name, convParams bp.params⟩) nn T0.2.2.1)).1 TW.1 :=
    hag.sub_grow (gR.trans (Grow.push _ _)) (Grow.refl _)
  have hN : cx.N[(tbl T0.1).length]? = some (.test (Src.substEv (brkEnv env k).subst ⟨bp.name, convParams bp.params⟩) nn T0.2.2.1) := by
    have hl1 := gW.len
    rw [a1] at hl1
    simp only [List.length_append, List.length_cons, List.length_nil] at hl1
    rw [hag.2 _ gR.len (by omega), gW.same (by rw [a1]; simp), a1]
    simp
  have hpHs : Placed cx.cp cx.rs r pH hs := hpH.left.left
  have hitT : ItemC cx.cp cx.rs ⟨r, pH + hs.length⟩ (.ljump ⟨n, bp.name, bp.params⟩ (some l)) :=
    hpH.here' hs _ _ (by lst) rfl
  have hpHr : Placed cx.cp cx.rs r (pH + hs.length + 1) Hr :=
    hpH.mid' (hs ++ [LItem.ljump ⟨n, bp.name, bp.params⟩ (some l)]) Hr [] (by simp) (by len_omega)
  have hpCr : Placed cx.cp cx.rs r (pC + 1) Cr := hpC.right
  have hendR : R2 cx m j ⟨r, pC + 1 + Cr.length⟩ k := by
    have e : pC + 1 + Cr.length = pC + ([LItem.label eB false] ++ Cr).length := by len_omega
    rw [e]; exact hend
  obtain ⟨tR, _, dR, xR⟩ := cR r (pH + hs.length + 1) (pC + 1) hpHr hpCr agR m j sC hl hc hex hin hendR
  have hstep := lab_test hitT (isTest_not_jump _ htest) htest
  simp only [hsub k bp.name bp.params] at hstep
  refine ⟨fun hnt => ?_, fun hf => hf.elim, ?_, LabExport.comp gR.len xR
    (LabExport.same (fun i hi => ((Pushes.push _ _).trans gW).same hi))⟩
  · have hnt' : R2 cx m j ⟨r, pH + hs.length + 1 + Hr.length⟩ nt := by
      have e : pH + hs.length + 1 + Hr.length = pH + (hs ++ [LItem.ljump ⟨n, bp.name, bp.params⟩ (some l)] ++ Hr).length := by len_omega
      rw [e]; exact hnt
    have hthis : R2 cx m j ⟨r, pH + hs.length⟩ (tbl T0.1).length :=
      R2.test hstep (nodeStep_of hN) hRl.1 (by rw [LPos.next_eq r _ (pH + hs.length + 1) rfl]; exact (tR hnt').1)
    exact cW r pH hpHs agW m j hRl.1 hthis
  · rw [edW]
    cases hn : hasNone w with
    | true =>
      obtain ⟨o, hd1⟩ := hW.dsome hn
      have := hnd hn k nt b
      rw [hT0] at this
      rw [this] at dR
      simp only [DefOK] at dR
      simp only [if_true, DefOK]
      exact ⟨o, l, by rw [dR, hd1], hRl⟩
    | false =>
      have hd1 := hW.dnone hn
      simp only [Bool.false_eq_true, if_false]
      rw [← hd1]; exact dR

end ESV.Comp
