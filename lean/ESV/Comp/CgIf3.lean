import ESV.Comp.CgIf2
/-
`codegen_correct`: the elseifs of an if-block (blocks output early in step 2 or late in step 5), and the if-block.
-/
namespace ESV.Comp
open ESV ESV.Beh

structure ESyn where
  neg : Bool
  hs : List Hdr
  body : Stmts

def synOf : Elifs → List ESyn
  | .nil => []
  | .cons neg hs body r => ⟨neg, hs, body⟩ :: synOf r

def BrD.syn (d : BrD) : ESyn := ⟨d.neg, d.hs, d.body⟩

def srcOfSyn : List ESyn → Src.Branches
  | [] => .nil
  | y :: r => .cons y.neg (y.hs.map hdrEv) (toSrcStmts y.body) (srcOfSyn r)

theorem toSrcElifs_eq : ∀ (es : Elifs), toSrcElifs es = srcOfSyn (synOf es)
  | .nil => by simp [toSrcElifs, synOf, srcOfSyn]
  | .cons neg hs body r => by simp [toSrcElifs, synOf, srcOfSyn, toSrcElifs_eq r]

theorem srcBranches_eq : ∀ (ds : List BrD), srcBranches ds = srcOfSyn (ds.map BrD.syn)
  | [] => rfl
  | d :: r => by simp [srcBranches, srcOfSyn, BrD.syn, srcBranches_eq r]

/-- an elseif after step 2 -/
def EarlyOK (cx : Cx) (fuel : Nat) (E : Nat) (s0 : St) (env : Src.Env) (sA : St) (y : ESyn) (a : ElifA) : Prop :=
  a.neg = y.neg ∧ HdrsOK y.hs ∧ NamesOf y.hs a.bps ∧ (∀ b ∈ a.bps, b.positive = !y.neg) ∧
  (y.neg = true → ∃ blk sB, a.early = some blk ∧ NamedLe sB sA ∧
    BrOK cx fuel E s0 env ⟨true, y.hs, y.body, blk.hdrs, patchNone E blk.items, sB⟩ ∧
    NoNone blk.hdrs ∧ NoNone (patchNone E blk.items)) ∧
  (y.neg = false → a.early = none)

theorem EarlyOK.mono {cx : Cx} {fuel E : Nat} {s0 : St} {env : Src.Env} {sA sA' : St} {y : ESyn} {a : ElifA}
    (h : EarlyOK cx fuel E s0 env sA y a) (hle : NamedLe sA sA') : EarlyOK cx fuel E s0 env sA' y a := by
  obtain ⟨h1, h2, h3, h4, h5, h6⟩ := h
  refine ⟨h1, h2, h3, h4, fun hn => ?_, h6⟩
  obtain ⟨blk, sB, a1, a2, a3⟩ := h5 hn
  exact ⟨blk, sB, a1, a2.trans hle, a3⟩

def EAC (cx : Cx) (fuel : Nat) (env : Src.Env) (ys : List ESyn) (elifsA : M (List ElifA)) : Prop :=
  ∀ E s0 s as s', SameStk s0 s → elifsA s = .ok (as, s') → SameStk s s' ∧ All2 (EarlyOK cx fuel E s0 env s') ys as

def EBC (cx : Cx) (fuel : Nat) (env : Src.Env) (ys : List ESyn) (elifsB : List ElifA → M (List Blk)) : Prop :=
  ∀ E s0 sA as, All2 (EarlyOK cx fuel E s0 env sA) ys as → ∀ s late s', SameStk s0 s → NamedLe sA s → elifsB as s = .ok (late, s') →
    SameStk s s' ∧ ∃ ds : List BrD, ds.map BrD.syn = ys ∧ (∀ d ∈ ds, BrOK cx fuel E s0 env d) ∧
      (∀ d ∈ ds, NoNone d.hdrs ∧ NoNone d.PB) ∧ (∀ d ∈ ds, NamedLe d.sB s') ∧
      patchNone E (elifsFront as late) = frontOf ds ∧ patchNone E (elifsBack as late) = backOf ds

theorem elifAOf_c (cx : Cx) (fuel : Nat) (env : Src.Env) (neg : Bool) (hdrs : List Hdr) (bodyS : Stmts) (hh : HdrsOK hdrs)
    {body : M (List LItem)} (hm : PM cx body (fun k b => Src.trStmts fuel cx.sm env (toSrcStmts bodyS) k b) env)
    (E : Nat) (s0 : St) {s : St} {a : ElifA} {s' : St} (hstk : SameStk s0 s) (h : elifAOf neg hdrs body s = .ok (a, s')) :
    SameStk s s' ∧ EarlyOK cx fuel E s0 env s' ⟨neg, hdrs, bodyS⟩ a := by
  simp only [elifAOf, bind_ok, pure_ok] at h
  obtain ⟨bps0, s1, h1, bps, s2, h2, e, s3, h3, h4⟩ := h
  simp only [Prod.mk.injEq] at h4
  obtain ⟨rfl, rfl⟩ := h4
  obtain ⟨e1, n1, p1⟩ := collectHdrs_shape _ _ _ _ _ h1
  obtain ⟨e2, n2, p2⟩ := allocateAll_shape _ _ _ _ h2
  have hnm : NamesOf hdrs bps := by simp only [NamesOf] at n1 ⊢; rw [n2, n1]
  have hpos := p2 (!neg) p1
  have e12 := e1.trans e2
  unfold earlyBlock at h3
  cases neg with
  | true =>
    simp only [↓reduceIte, bind_ok, pure_ok] at h3
    obtain ⟨blk, s4, h5, h6⟩ := h3
    simp only [Prod.mk.injEq] at h6
    obtain ⟨rfl, rfl⟩ := h6
    obtain ⟨br, st, nh, nb, _⟩ := blockOf_brOK cx fuel E s0 env true hdrs bodyS hm h5 hh hnm hpos (hstk.trans e12)
    exact ⟨e12.trans st, rfl, hh, hnm, hpos, fun _ => ⟨blk, _, rfl, NamedLe.refl _, br, nh, nb⟩, fun hc => (by cases hc)⟩
  | false =>
    simp only [Bool.false_eq_true, ↓reduceIte, pure_ok, Prod.mk.injEq] at h3
    obtain ⟨rfl, rfl⟩ := h3
    exact ⟨e12, rfl, hh, hnm, hpos, fun hc => (by cases hc), fun _ => rfl⟩

theorem elifBOf_c (cx : Cx) (fuel : Nat) (env : Src.Env) (y : ESyn) {body : M (List LItem)}
    (hm : PM cx body (fun k b => Src.trStmts fuel cx.sm env (toSrcStmts y.body) k b) env)
    (E : Nat) (s0 : St) {sA : St} {a : ElifA} (ha : EarlyOK cx fuel E s0 env sA y a) {s : St} {blk : Blk} {s' : St} (hstk : SameStk s0 s)
    (hle : NamedLe sA s) (h : elifBOf a body s = .ok (blk, s')) :
    SameStk s s' ∧ ∃ sB, NamedLe sB s' ∧ BrOK cx fuel E s0 env ⟨y.neg, y.hs, y.body, blk.hdrs, patchNone E blk.items, sB⟩ ∧
      NoNone blk.hdrs ∧ NoNone (patchNone E blk.items) := by
  obtain ⟨hn, hh, hnm, hpos, hneg, hposs⟩ := ha
  unfold elifBOf lateBlock at h
  cases hy : y.neg with
  | true =>
    obtain ⟨blk0, sB, he, hsB, br, nh, nb⟩ := hneg hy
    rw [he] at h
    simp only [pure_ok, Prod.mk.injEq] at h
    obtain ⟨rfl, rfl⟩ := h
    exact ⟨SameStk.refl _, sB, hsB.trans hle, br, nh, nb⟩
  | false =>
    rw [hposs hy] at h
    obtain ⟨br, st, nh, nb, _⟩ := blockOf_brOK cx fuel E s0 env false y.hs y.body hm h hh hnm (by simpa [hy] using hpos) hstk
    exact ⟨st, _, NamedLe.refl _, br, nh, nb⟩

theorem patchNone_ite_true (e : Nat) (l : List LItem) : patchNone e (if True then l else []) = patchNone e l := by simp

/-- **`IfBlock.collect` as a piece.** -/
theorem ite_piece (cx : Cx) (fuel : Nat) (env : Src.Env) (he : EnvOK cx env) (neg : Bool) (hdrs : List Hdr) (hasElse : Bool)
    (bodyS elsS : Stmts) (ys : List ESyn) (hh : HdrsOK hdrs)
    {body els : M (List LItem)} {elifsA : M (List ElifA)} {elifsB : List ElifA → M (List Blk)}
    (hm : PM cx body (fun k b => Src.trStmts fuel cx.sm env (toSrcStmts bodyS) k b) env)
    (hE : PM cx els (fun k b => Src.trStmts fuel cx.sm env (toSrcStmts elsS) k b) env)
    (hA : EAC cx fuel env ys elifsA) (hB : EBC cx fuel env ys elifsB) :
    PM cx (iteOf neg hdrs body elifsA hasElse els elifsB)
      (fun k b => Src.tr fuel cx.sm env (.ite (.cons neg (hdrs.map hdrEv) (toSrcStmts bodyS) (srcOfSyn ys)) hasElse (toSrcStmts elsS)) k b)
      env := by
  intro s items s' h
  simp only [iteOf, bind_ok, tickLbl_ok, pure_ok] at h
  obtain ⟨endL, s0, h0, bps, s1, h1, early, s2, h2, as, s3, h3, ep, s4, h4, ifBlk, s5, h5, late, s6, h6, h7⟩ := h
  simp only [Prod.mk.injEq] at h0 h7
  obtain ⟨rfl, rfl⟩ := h0
  obtain ⟨rfl, rfl⟩ := h7
  have st0 : SameStk s (s.tickedLbl 1) := sameStk_tickedLbl s 1
  obtain ⟨e1, hnm, hpos⟩ := collectIfHdrs_shape _ _ _ _ _ h1
  have st1 := st0.trans e1
  -- the source side
  have htr : ∀ k b, Src.tr fuel cx.sm env (.ite (.cons neg (hdrs.map hdrEv) (toSrcStmts bodyS) (srcOfSyn ys)) hasElse (toSrcStmts elsS)) k b =
      Src.trBranches fuel cx.sm env (.cons neg (hdrs.map hdrEv) (toSrcStmts bodyS) (srcOfSyn ys)) k
        ((fun k b => if hasElse then Src.trStmts fuel cx.sm env (toSrcStmts elsS) k b else (b, k)) k b).2
        ((fun k b => if hasElse then Src.trStmts fuel cx.sm env (toSrcStmts elsS) k b else (b, k)) k b).1 := by
    intro k b
    rw [Src.tr]
  -- both polarities end in the same assembly
  have fin : ∀ (items : List LItem) (d0 : BrD) (ds : List BrD), d0.neg = neg → d0.hs = hdrs → d0.body = bodyS → ds.map BrD.syn = ys →
      (∀ d ∈ d0 :: ds, BrOK cx fuel (s.lbc + 1) s env d) → (∀ d ∈ d0 :: ds, NoNone d.hdrs ∧ NoNone d.PB) →
      (∀ d ∈ d0 :: ds, NamedLe d.sB s') →
      ∀ ep' sE, ElseOK cx (s.lbc + 1) s env sE ep' (fun k b => if hasElse then Src.trStmts fuel cx.sm env (toSrcStmts elsS) k b else (b, k)) →
      NamedLe sE s' → SameStk s s' → items = frontOf (d0 :: ds) ++ ep' ++ backOf (d0 :: ds) ++ [.label (s.lbc + 1) false] →
      PieceOK cx items s s'
        (fun k b => Src.tr fuel cx.sm env (.ite (.cons neg (hdrs.map hdrEv) (toSrcStmts bodyS) (srcOfSyn ys)) hasElse (toSrcStmts elsS)) k b) env := by
    intro items d0 ds a1 a2 a3 a4 hbr hnn hleB ep' sE hel hleE hst hitems
    have := ite_assemble cx fuel (s.lbc + 1) s s' env he (d0 :: ds) hbr hnn ep' _ sE hel hst hleB hleE
    rw [hitems]
    have hsrc : srcBranches (d0 :: ds) = .cons neg (hdrs.map hdrEv) (toSrcStmts bodyS) (srcOfSyn ys) := by
      simp only [srcBranches, a1, a2, a3, srcBranches_eq ds, a4]
    rw [hsrc] at this
    have hfun : (fun k b => Src.tr fuel cx.sm env (.ite (.cons neg (hdrs.map hdrEv) (toSrcStmts bodyS) (srcOfSyn ys)) hasElse (toSrcStmts elsS)) k b) =
        (fun k b => Src.trBranches fuel cx.sm env (.cons neg (hdrs.map hdrEv) (toSrcStmts bodyS) (srcOfSyn ys)) k
          ((fun k b => if hasElse then Src.trStmts fuel cx.sm env (toSrcStmts elsS) k b else (b, k)) k b).2
          ((fun k b => if hasElse then Src.trStmts fuel cx.sm env (toSrcStmts elsS) k b else (b, k)) k b).1) := by
      funext k b; exact htr k b
    rw [hfun]
    exact this
  cases neg with
  | true =>
    unfold earlyBlock at h2
    simp only [↓reduceIte, bind_ok, pure_ok] at h2
    obtain ⟨blk, s2', h2a, h2b⟩ := h2
    simp only [Prod.mk.injEq] at h2b
    obtain ⟨rfl, rfl⟩ := h2b
    obtain ⟨br0, stb, nh0, nb0, _⟩ := blockOf_brOK cx fuel (s.lbc + 1) s env true hdrs bodyS hm h2a hh hnm (by simpa using hpos) st1
    have st2 := st1.trans stb
    obtain ⟨stA, hall⟩ := hA (s.lbc + 1) s _ _ _ st2 h3
    have st3 := st2.trans stA
    obtain ⟨stE, hel⟩ := elsePart_ok cx fuel (s.lbc + 1) s env hasElse elsS hE h4 st3
    have st4 := st3.trans stE
    simp only [lateBlock, pure_ok, Prod.mk.injEq] at h5
    obtain ⟨rfl, rfl⟩ := h5
    obtain ⟨stB, ds, hsyn, hbrs, hnns, hles, hfront, hback⟩ := hB (s.lbc + 1) s _ as hall _ _ _ st4 stE.3 h6
    refine fin _ ⟨true, hdrs, bodyS, ifBlk.hdrs, patchNone (s.lbc + 1) ifBlk.items, s2⟩ ds rfl rfl rfl hsyn ?_ ?_ ?_ _ _ hel stB.3
      (st4.trans stB) ?_
    · intro d hd
      simp only [List.mem_cons] at hd
      rcases hd with rfl | hd
      · exact br0
      · exact hbrs d hd
    · intro d hd
      simp only [List.mem_cons] at hd
      rcases hd with rfl | hd
      · exact ⟨nh0, nb0⟩
      · exact hnns d hd
    · intro d hd
      simp only [List.mem_cons] at hd
      rcases hd with rfl | hd
      · exact ((stA.3.trans stE.3).trans stB.3)
      · exact hles d hd
    · simp only [↓reduceIte, List.append_nil, frontOf, backOf, List.nil_append, patchNone_append, patchNone_id _ _ nh0, hfront, hback,
        List.append_assoc]
  | false =>
    unfold earlyBlock at h2
    simp only [Bool.false_eq_true, ↓reduceIte, pure_ok, Prod.mk.injEq] at h2
    obtain ⟨rfl, rfl⟩ := h2
    obtain ⟨stA, hall⟩ := hA (s.lbc + 1) s _ _ _ st1 h3
    have st3 := st1.trans stA
    obtain ⟨stE, hel⟩ := elsePart_ok cx fuel (s.lbc + 1) s env hasElse elsS hE h4 st3
    have st4 := st3.trans stE
    simp only [lateBlock] at h5
    obtain ⟨br0, stb, nh0, nb0, _⟩ := blockOf_brOK cx fuel (s.lbc + 1) s env false hdrs bodyS hm h5 hh hnm (by simpa using hpos) st4
    have st5 := st4.trans stb
    obtain ⟨stB, ds, hsyn, hbrs, hnns, hles, hfront, hback⟩ := hB (s.lbc + 1) s _ as hall _ _ _ st5 (stE.3.trans stb.3) h6
    refine fin _ ⟨false, hdrs, bodyS, ifBlk.hdrs, patchNone (s.lbc + 1) ifBlk.items, s5⟩ ds rfl rfl rfl hsyn ?_ ?_ ?_ _ _ hel
      (stb.3.trans stB.3) (st5.trans stB) ?_
    · intro d hd
      simp only [List.mem_cons] at hd
      rcases hd with rfl | hd
      · exact br0
      · exact hbrs d hd
    · intro d hd
      simp only [List.mem_cons] at hd
      rcases hd with rfl | hd
      · exact ⟨nh0, nb0⟩
      · exact hnns d hd
    · intro d hd
      simp only [List.mem_cons] at hd
      rcases hd with rfl | hd
      · exact stB.3
      · exact hles d hd
    · simp only [Bool.false_eq_true, ↓reduceIte, List.append_nil, frontOf, backOf, List.nil_append, patchNone_append, patchNone_id _ _ nh0,
        hfront, hback, List.append_assoc]

end ESV.Comp
