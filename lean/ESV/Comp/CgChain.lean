import ESV.Comp.CgIte
/-
`codegen_correct`: the chain of branches of an if-block (the if itself and its elseifs, uniformly).
-/
namespace ESV.Comp
open ESV ESV.Beh

/-- a branch as collected: its header jumps and its (patched) block -/
structure BrD where
  neg : Bool
  hs : List Hdr
  body : Stmts
  hdrs : List LItem
  PB : List LItem
  /-- the state of the compiler behind the block (the label table has the names the block uses) -/
  sB : St

def frontOf : List BrD → List LItem
  | [] => []
  | d :: r => d.hdrs ++ (if d.neg then d.PB else []) ++ frontOf r

def backOf : List BrD → List LItem
  | [] => []
  | d :: r => (if d.neg then [] else d.PB) ++ backOf r

def srcBranches : List BrD → Src.Branches
  | [] => .nil
  | d :: r => .cons d.neg (d.hs.map hdrEv) (toSrcStmts d.body) (srcBranches r)

/-- what is known about a collected branch: where its header jumps go, and that its block runs its body
(`E`: the end label of the if-block, where the block's end jump goes) -/
structure BrOK (cx : Cx) (fuel : Nat) (E : Nat) (s : St) (env : Src.Env) (d : BrD) : Prop where
  hok : HdrsOK d.hs
  grow : ∀ k b, Grow cx.Z b (Src.trStmts fuel cx.sm env (toSrcStmts d.body) k b).1
  pos : d.neg = false → ∃ bps tgt L, HdrsTo tgt bps d.hdrs ∧ (∀ b ∈ bps, tgt b = L) ∧ NamesOf d.hs bps ∧
    ∀ r ib, Placed cx.cp cx.rs r ib d.PB → ∀ k b, AgreeOn cx.N cx.Z b (Src.trStmts fuel cx.sm env (toSrcStmts d.body) k b).1 →
      ∀ m j, ExitsOK cx m j s env → NamedIn cx d.sB → R2 cx m j (target cx.rs (cx.cp.σ E)) k →
        R2 cx m j (target cx.rs (cx.cp.σ L)) (Src.trStmts fuel cx.sm env (toSrcStmts d.body) k b).2
  negc : d.neg = true → ∃ bps tgt eL PB', HdrsTo tgt bps d.hdrs ∧ (∀ b ∈ bps, tgt b = eL) ∧ NamesOf d.hs bps ∧
    d.PB = PB' ++ [.label eL false] ∧
    ∀ r ib, Placed cx.cp cx.rs r ib d.PB → ∀ k b, AgreeOn cx.N cx.Z b (Src.trStmts fuel cx.sm env (toSrcStmts d.body) k b).1 →
      ∀ m j, ExitsOK cx m j s env → NamedIn cx d.sB → R2 cx m j (target cx.rs (cx.cp.σ E)) k →
        R2 cx m j ⟨r, ib⟩ (Src.trStmts fuel cx.sm env (toSrcStmts d.body) k b).2
  labs : ∀ r ib, Placed cx.cp cx.rs r ib d.PB → ∀ k b, AgreeOn cx.N cx.Z b (Src.trStmts fuel cx.sm env (toSrcStmts d.body) k b).1 →
    ∀ m j, ExitsOK cx m j s env → NamedIn cx d.sB → R2 cx m j (target cx.rs (cx.cp.σ E)) k →
      LabExport cx env m j b (Src.trStmts fuel cx.sm env (toSrcStmts d.body) k b).1

theorem backOf_placed {c : Copy} {rs : List (List LItem)} {r : Nat} : ∀ (brs : List BrD) (q : Nat), Placed c rs r q (backOf brs) →
    ∀ d ∈ brs, d.neg = false → ∃ ib, Placed c rs r ib d.PB := by
  intro brs
  induction brs with
  | nil => intro q _ d hd; simp at hd
  | cons d0 rest ih =>
    intro q hp d hd hn
    simp only [backOf] at hp
    simp only [List.mem_cons] at hd
    rcases hd with rfl | hd
    · simp only [hn, Bool.false_eq_true, if_false] at hp
      exact ⟨q, hp.left⟩
    · exact ih _ hp.right d hd hn

theorem chain_corr (cx : Cx) (fuel : Nat) (E : Nat) (s : St) (env : Src.Env) (he : EnvOK cx env) : ∀ (brs : List BrD),
    (∀ d ∈ brs, BrOK cx fuel E s env d) → ∀ r p, Placed cx.cp cx.rs r p (frontOf brs) →
    (∀ d ∈ brs, d.neg = false → ∃ ib, Placed cx.cp cx.rs r ib d.PB) → ∀ (k elseEntry : Nat) (b : Src.B),
      Grow cx.Z b (Src.trBranches fuel cx.sm env (srcBranches brs) k elseEntry b).1 ∧
      (AgreeOn cx.N cx.Z b (Src.trBranches fuel cx.sm env (srcBranches brs) k elseEntry b).1 → ∀ m j, ExitsOK cx m j s env →
        (∀ d ∈ brs, NamedIn cx d.sB) → R2 cx m j (target cx.rs (cx.cp.σ E)) k →
        (R2 cx m j ⟨r, p + (frontOf brs).length⟩ elseEntry →
          R2 cx m j ⟨r, p⟩ (Src.trBranches fuel cx.sm env (srcBranches brs) k elseEntry b).2) ∧
        LabExport cx env m j b (Src.trBranches fuel cx.sm env (srcBranches brs) k elseEntry b).1) := by
  intro brs
  induction brs with
  | nil =>
    intro _ r p _ _ k elseEntry b
    simp only [srcBranches]
    rw [Src.trBranches]
    exact ⟨Grow.refl b, fun _ m j _ _ _ => ⟨fun h => by simpa [frontOf] using h, LabExport.same (fun _ _ => rfl)⟩⟩
  | cons d rest ih =>
    intro hall r p hp hback k elseEntry b
    have hd := hall d (by simp)
    simp only [frontOf] at hp
    have hpH : Placed cx.cp cx.rs r p d.hdrs := hp.left.left
    have hpB : Placed cx.cp cx.rs r (p + d.hdrs.length) (if d.neg then d.PB else []) := hp.left.right
    have hpR : Placed cx.cp cx.rs r (p + (d.hdrs ++ if d.neg then d.PB else []).length) (frontOf rest) := hp.right
    obtain ⟨gR, cR⟩ := ih (fun x hx => hall x (by simp [hx])) r _ hpR (fun x hx => hback x (by simp [hx])) k elseEntry b
    simp only [srcBranches]
    rw [Src.trBranches]
    dsimp only
    generalize Src.trBranches fuel cx.sm env (srcBranches rest) k elseEntry b = R1 at gR cR ⊢
    obtain ⟨b1, restEntry⟩ := R1
    simp only at gR cR ⊢
    have gB := hd.grow k b1
    generalize hR2 : Src.trStmts fuel cx.sm env (toSrcStmts d.body) k b1 = R2' at gB ⊢
    obtain ⟨b2, bodyEntry⟩ := R2'
    simp only at gB ⊢
    cases hneg : d.neg with
    | false =>
      obtain ⟨bps, tgt, L, hh, htg, hnm, hsem⟩ := hd.pos hneg
      obtain ⟨ib, hpb⟩ := hback d (by simp) hneg
      obtain ⟨gT, cT⟩ := testChain_corr cx L env.subst he.ev bps d.hdrs d.hs tgt hh htg hnm hd.hok r p hpH bodyEntry restEntry b2
      simp only [Bool.false_eq_true, if_false]
      refine ⟨(gR.trans gB).trans gT.grow, fun hag m j hex hin hend => ?_⟩
      have agR : AgreeOn cx.N cx.Z b b1 := hag.sub_grow (Grow.refl b) (gB.trans gT.grow)
      have agB : AgreeOn cx.N cx.Z b1 b2 := hag.sub_grow gR gT.grow
      have agT := hag.sub_grow (gR.trans gB) (Grow.refl _)
      have hexp : LabExport cx env m j b1 b2 := by
        have := hd.labs r ib hpb k b1 (by rw [hR2]; exact agB) m j hex (hin d (by simp)) hend
        rw [hR2] at this; exact this
      refine ⟨fun hels => ?_, LabExport.comp gR.len (cR agR m j hex (fun x hx => hin x (by simp [hx])) hend).2
        (LabExport.comp gB.len hexp (LabExport.same (fun i hi => gT.same hi)))⟩
      have hbody : R2 cx m j (target cx.rs (cx.cp.σ L)) bodyEntry := by
        have := hsem r ib hpb k b1 (by rw [hR2]; exact agB) m j hex (hin d (by simp)) hend
        rw [hR2] at this; exact this
      have hrest : R2 cx m j ⟨r, p + d.hdrs.length⟩ restEntry := by
        have := (cR agR m j hex (fun x hx => hin x (by simp [hx])) hend).1 (by
          simp only [frontOf, hneg, Bool.false_eq_true, if_false, List.append_nil, List.length_append] at hels ⊢
          simpa [Nat.add_assoc] using hels)
        simpa [hneg] using this
      exact cT agT m j hbody hrest
    | true =>
      obtain ⟨bps, tgt, eL, PB', hh, htg, hnm, hpbe, hsem⟩ := hd.negc hneg
      simp only [hneg, if_true] at hpB hpR
      obtain ⟨gT, cT⟩ := testChain_corr cx eL env.subst he.ev bps d.hdrs d.hs tgt hh htg hnm hd.hok r p hpH restEntry bodyEntry b2
      simp only [if_true]
      refine ⟨(gR.trans gB).trans gT.grow, fun hag m j hex hin hend => ?_⟩
      have agR : AgreeOn cx.N cx.Z b b1 := hag.sub_grow (Grow.refl b) (gB.trans gT.grow)
      have agB : AgreeOn cx.N cx.Z b1 b2 := hag.sub_grow gR gT.grow
      have agT := hag.sub_grow (gR.trans gB) (Grow.refl _)
      have hexp : LabExport cx env m j b1 b2 := by
        have := hd.labs r _ hpB k b1 (by rw [hR2]; exact agB) m j hex (hin d (by simp)) hend
        rw [hR2] at this; exact this
      refine ⟨fun hels => ?_, LabExport.comp gR.len (cR agR m j hex (fun x hx => hin x (by simp [hx])) hend).2
        (LabExport.comp gB.len hexp (LabExport.same (fun i hi => gT.same hi)))⟩
      have hbody : R2 cx m j ⟨r, p + d.hdrs.length⟩ bodyEntry := by
        have := hsem r _ hpB k b1 (by rw [hR2]; exact agB) m j hex (hin d (by simp)) hend
        rw [hR2] at this; exact this
      have hrest : R2 cx m j ⟨r, p + (d.hdrs ++ d.PB).length⟩ restEntry := by
        have := (cR agR m j hex (fun x hx => hin x (by simp [hx])) hend).1 (by
          simp only [frontOf, hneg, if_true, List.length_append] at hels ⊢
          simpa [Nat.add_assoc] using hels)
        simpa [hneg] using this
      -- the end label of the block: taken tests go there, and on to the next branch
      have hlab : ItemC cx.cp cx.rs ⟨r, p + d.hdrs.length + PB'.length⟩ (.label eL false) := by
        rw [hpbe] at hpB
        simpa using hpB.item (d := PB'.length) (by simp)
      have htgt : target cx.rs (cx.cp.σ eL) = ⟨r, p + d.hdrs.length + PB'.length⟩ := by
        rw [hpbe] at hpB
        simpa using hpB.resolve cx.hlab (d := PB'.length) (l := eL) (nm := false) (by simp)
      have hend' : R2 cx m j (target cx.rs (cx.cp.σ eL)) restEntry := by
        rw [htgt]
        refine R2.silL (lab_label hlab) ?_
        simpa [LPos.next, hpbe, Nat.add_assoc] using hrest
      exact cT agT m j hend' hbody

end ESV.Comp
