import ESV.Comp.CgSwitch2
/-
`codegen_correct`, switches: the steps of `SwitchBlock.collect` over the case handlers, and the switch as a piece.
-/
namespace ESV.Comp
open ESV ESV.Beh

local macro "len_omega" : tactic =>
  `(tactic| ((try simp only [List.length_append, List.length_cons, List.length_nil]) <;> (try omega)))
local macro "lst" : tactic => `(tactic| ((try simp only [List.append_assoc, List.cons_append, List.nil_append]) <;> (try rfl)))

/-! ### defaults -/

theorem countDefaults_zero : ∀ (cs : Cases), countDefaults cs = 0 → hasDefault cs = false
  | .nil, _ => rfl
  | .cons true _ _ _ r, h => by simp [countDefaults] at h
  | .cons false _ _ _ r, h => by
    simp only [countDefaults, Bool.false_eq_true, if_false, Nat.zero_add] at h
    simp [hasDefault, countDefaults_zero r h]

theorem trCases_nodefault (fuel : Nat) (sm : List Src.Macro) (env : Src.Env) (sw : String) : ∀ (cs : Cases) (k nt : Nat) (b : Src.B),
    hasDefault cs = false → (Src.trCases fuel sm env (toSrcCases sw cs) k nt b).2.2.2 = none
  | .nil, k, nt, b, _ => by simp only [toSrcCases]; rw [trCases_nil]
  | .cons true _ _ _ r, k, nt, b, h => by simp [hasDefault] at h
  | .cons false name ps body r, k, nt, b, h => by
    simp only [hasDefault, Bool.false_or] at h
    simp only [toSrcCases]
    rw [trCases_case fuel sm env _ _ _ k nt b rfl rfl]
    exact trCases_nodefault fuel sm env sw r k nt b h

theorem trCases_hasdefault (fuel : Nat) (sm : List Src.Macro) (env : Src.Env) (sw : String) : ∀ (cs : Cases) (k nt : Nat) (b : Src.B),
    hasDefault cs = true → (Src.trCases fuel sm env (toSrcCases sw cs) k nt b).2.2.2 ≠ none
  | .nil, k, nt, b, h => by simp [hasDefault] at h
  | .cons true _ _ body r, k, nt, b, _ => by
    simp only [toSrcCases]
    rw [trCases_default fuel sm env _ _ _ k nt b rfl rfl]
    simp
  | .cons false name ps body r, k, nt, b, h => by
    simp only [hasDefault, Bool.false_or] at h
    simp only [toSrcCases]
    rw [trCases_case fuel sm env _ _ _ k nt b rfl rfl]
    exact trCases_hasdefault fuel sm env sw r k nt b h

/-! ### the steps -/

theorem waitSem_nonone {cx : Cx} {fuel sL : Nat} {w : List (Option BP)} {hs dIn d1 : List LItem} (h : WaitSem cx fuel sL w hs dIn d1)
    (hd : NoNone dIn) : NoNone d1 := by
  cases hn : hasNone w with
  | true => obtain ⟨o, rfl⟩ := h.dsome hn; exact noNone_jump _ _
  | false => rw [h.dnone hn]; exact hd

/-- a case handler with a block: with its labels, or folded into the header jumps -/
theorem caseStep_c (cx : Cx) (fuel : Nat) (env0 : Src.Env) (he0 : EnvOK cx env0) (endL : Nat) (bp : BP) (hpos : bp.positive = true) (body : Stmts) {bodyM : M (List LItem)}
    (hBody : ∀ env', EnvOK cx env' → PM cx bodyM (fun k b => Src.trStmts fuel cx.sm env' (toSrcStmts body) k b) env')
    {st : SwSt} {s : St} {st' : SwSt} {s' : St} (hw : WaitOK st.waiting) (h : caseStep endL bp false bodyM st s = .ok (st', s')) :
    SameStk s s' ∧ st'.waiting = [] ∧ ∃ hs d1 ops sa sb n, st'.defaultOps = d1 ∧ bodyM sa = .ok (ops, sb) ∧
      (∀ env', EnvOK cx env' → PieceOK cx ops sa sb (fun k b => Src.trStmts fuel cx.sm env' (toSrcStmts body) k b) env') ∧
      sa.loops = s.loops ∧ sa.cases = endL :: s.cases ∧ NamedLe sb s' ∧
      ((∃ sL eB, st'.hdrJumps = st.hdrJumps ++ (hs ++ [LItem.ljump ⟨n, bp.name, bp.params⟩ (some sL)]) ∧
          st'.caseOps = st.caseOps ++ ([LItem.label sL false] ++ ops ++ [LItem.label eB false]) ∧
          WaitSem cx fuel sL st.waiting hs st.defaultOps d1) ∨
       (∃ l eB, fallsThrough st.caseOps = false ∧ loneJump ops = some (some l) ∧
          st'.hdrJumps = st.hdrJumps ++ (hs ++ [LItem.ljump ⟨n, bp.name, bp.params⟩ (some l)]) ∧
          st'.caseOps = st.caseOps ++ [LItem.label eB false] ∧ WaitSem cx fuel l st.waiting hs st.defaultOps d1)) := by
  unfold caseStep at h
  simp only [Bool.false_eq_true, ↓reduceIte, bind_ok, pushCase_ok, popCase_ok] at h
  obtain ⟨u1, s1, h1, blk, s2, h2, u2, s3, h3, h4⟩ := h
  simp only [Prod.mk.injEq] at h1 h3
  obtain ⟨_, rfl⟩ := h1
  obtain ⟨_, rfl⟩ := h3
  obtain ⟨ops, sb, hrun, e2, hsh⟩ := case_block_shape h2
  have hP := fun env' he' => hBody env' he' _ _ _ hrun
  have hP0 := hP env0 he0
  have hstk : SameStk s s2.popCase := by
    refine ⟨?_, ?_, fun n id h => e2.3 n id (hP0.named n id h)⟩
    · show s2.loops = s.loops
      rw [e2.1, hP0.loops]; rfl
    · show s2.cases.tail = s.cases
      rw [e2.2, hP0.cases]; rfl
  have hsingle : ∀ (t : BP → Nat), HdrsTo t [bp] blk.hdrs → ∃ n, blk.hdrs = [LItem.ljump ⟨n, bp.name, bp.params⟩ (some (t bp))] := by
    intro t hh
    generalize blk.hdrs = H at hh
    cases hh with
    | cons n hrest =>
      cases hrest
      exact ⟨n, rfl⟩
  rcases hsh with ⟨l, eB, hcf, _, hlone, hitems, hstart, hh⟩ | ⟨sL, eB, hitems, hstart, hh⟩
  · rw [hstart] at h4
    simp only [bind_ok, pure_ok] at h4
    obtain ⟨p, s4, h5, h6⟩ := h4
    obtain ⟨hs', dops'⟩ := p
    simp only [Prod.mk.injEq] at h6
    obtain ⟨rfl, rfl⟩ := h6
    obtain ⟨e5, ws⟩ := waiting_sem cx fuel l _ _ _ _ _ _ hw h5
    obtain ⟨n, hhdr⟩ := hsingle _ hh
    refine ⟨hstk.trans e5, rfl, hs', dops', ops, _, sb, n, rfl, hrun, hP, rfl, rfl, fun n id h => e5.3 n id (e2.3 n id h),
      .inr ⟨l, eB, by simpa using hcf, hlone, ?_, ?_, ws⟩⟩
    · simp only [hhdr, List.append_assoc]
    · simp only [hitems]
  · rw [hstart] at h4
    simp only [bind_ok, pure_ok] at h4
    obtain ⟨p, s4, h5, h6⟩ := h4
    obtain ⟨hs', dops'⟩ := p
    simp only [Prod.mk.injEq] at h6
    obtain ⟨rfl, rfl⟩ := h6
    obtain ⟨e5, ws⟩ := waiting_sem cx fuel sL _ _ _ _ _ _ hw h5
    obtain ⟨n, hhdr⟩ := hsingle _ hh
    refine ⟨hstk.trans e5, rfl, hs', dops', ops, _, sb, n, rfl, hrun, hP, rfl, rfl, fun n id h => e5.3 n id (e2.3 n id h),
      .inl ⟨sL, eB, ?_, ?_, ws⟩⟩
    · simp only [hhdr, hpos, if_true, List.append_assoc]
    · simp only [hitems]

/-- the default handler with a block -/
theorem defaultStep_c (cx : Cx) (fuel : Nat) (env0 : Src.Env) (he0 : EnvOK cx env0) (endL : Nat) (body : Stmts) {bodyM : M (List LItem)}
    (hBody : ∀ env', EnvOK cx env' → PM cx bodyM (fun k b => Src.trStmts fuel cx.sm env' (toSrcStmts body) k b) env')
    {st : SwSt} {s : St} {st' : SwSt} {s' : St} (hw : WaitOK st.waiting) (h : defaultStep endL false bodyM st s = .ok (st', s')) :
    SameStk s s' ∧ st'.waiting = [] ∧ ∃ hs d1 sL eB ops sa sb n0,
      st'.hdrJumps = st.hdrJumps ++ hs ∧
      st'.caseOps = st.caseOps ++ ([LItem.label sL false] ++ ops ++ [LItem.label eB false]) ∧ st'.defaultOps = d1 ∧
      WaitSem cx fuel sL st.waiting hs [LItem.ljump ⟨n0, Gen.op_jump, []⟩ (some sL)] d1 ∧ bodyM sa = .ok (ops, sb) ∧
      (∀ env', EnvOK cx env' → PieceOK cx ops sa sb (fun k b => Src.trStmts fuel cx.sm env' (toSrcStmts body) k b) env') ∧
      sa.loops = s.loops ∧ sa.cases = endL :: s.cases ∧ NamedLe sb s' := by
  unfold defaultStep at h
  simp only [Bool.false_eq_true, ↓reduceIte, bind_ok, pushCase_ok, popCase_ok] at h
  obtain ⟨u1, s1, h1, blk, s2, h2, u2, s3, h3, h4⟩ := h
  simp only [Prod.mk.injEq] at h1 h3
  obtain ⟨_, rfl⟩ := h1
  obtain ⟨_, rfl⟩ := h3
  obtain ⟨ops, sb, hrun, e2, hsh⟩ := case_block_shape h2
  rcases hsh with ⟨l, eB, _, hne, _⟩ | ⟨sL, eB, hitems, hstart, hh⟩
  · exact absurd rfl hne
  rw [hstart] at h4
  simp only [bind_ok, pure_ok] at h4
  obtain ⟨jj, s4, h5, p, s5, h6, h7⟩ := h4
  obtain ⟨hs', dops'⟩ := p
  simp only [Prod.mk.injEq] at h7
  obtain ⟨rfl, rfl⟩ := h7
  obtain ⟨rfl, rfl⟩ := buildFor_none (b := defJmpBP) rfl h5
  obtain ⟨e6, ws⟩ := waiting_sem cx fuel sL _ _ _ _ _ _ hw h6
  have hP := fun env' he' => hBody env' he' _ _ _ hrun
  have hP0 := hP env0 he0
  have hstk : SameStk s s2.popCase := by
    refine ⟨?_, ?_, fun n id h => e2.3 n id (hP0.named n id h)⟩
    · show s2.loops = s.loops
      rw [e2.1, hP0.loops]; rfl
    · show s2.cases.tail = s.cases
      rw [e2.2, hP0.cases]; rfl
  exact ⟨(hstk.trans (sameStk_tickedOp _ _)).trans e6, rfl, hs', dops', sL, eB, ops, _, sb, _, rfl, by simp only [hitems], rfl, ws, hrun, hP,
    rfl, rfl, fun n id h => e6.3 n id (e2.3 n id h)⟩

/-! ### all case handlers -/

/-- step 3 of `SwitchBlock.collect` over the handlers of `cs`, from any state of the step.  `FI`: control can fall into the first
block from the blocks collected before; if the fragment allows a folded block here (`nf`), then `_falls_through` sees it -/
def CasesC (cx : Cx) (fuel : Nat) (sw : String) (nf : Bool) (cs : Cases) (run : Nat → List BP → SwSt → M SwSt) : Prop :=
  ∀ (env : Src.Env), EnvOK cx env → ∀ (endL : Nat) (bps : List BP) (st : SwSt) (s : St) (st' : SwSt) (s' : St),
    BpsOK sw cs bps → WaitOK st.waiting → (if hasNone st.waiting then 1 else 0) + countDefaults cs ≤ 1 →
    run endL bps st s = .ok (st', s') →
    SameStk s s' ∧ (NoNone st.defaultOps → NoNone st'.defaultOps) ∧
    ∃ Hn Cn, st'.hdrJumps = st.hdrJumps ++ Hn ∧ st'.caseOps = st.caseOps ++ Cn ∧ NoNone Hn ∧ NoNone Cn ∧
      (st'.waiting = [] → ∀ FI : Prop, (nf = true → FI → fallsThrough st.caseOps = true) →
        SwSem cx fuel env endL s.loops s.cases s' FI (wSrc st.waiting (toSrcCases sw cs)) Hn Cn st.defaultOps st'.defaultOps)

theorem SwSem.stk {cx : Cx} {fuel : Nat} {env : Src.Env} {endL : Nat} {L L' : List (Nat × Nat)} {Cs Cs' : List Nat} {sE : St} {FI : Prop} {SC : Src.Cases}
    {Hn Cn dIn dOut : List LItem} (h : SwSem cx fuel env endL L Cs sE FI SC Hn Cn dIn dOut) (hl : L = L') (hc : Cs = Cs') :
    SwSem cx fuel env endL L' Cs' sE FI SC Hn Cn dIn dOut := by
  subst hl hc; exact h

theorem isTest_caseName (sw name : String) (h : isTest name = true) : isTest (caseName sw name) = true := by
  simp only [caseName]
  split
  · exact caseScenario_isTest
  · exact h

end ESV.Comp
