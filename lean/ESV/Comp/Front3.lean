import ESV.Comp.Front2
/-
`counter_fresh` for switch blocks, for the recursion over the statement tree, for routines, macros and the tables.
-/
namespace ESV.Comp
open ESV

/-! ### switch -/

def wnums (w : List (Option BP)) : List Nat := nums (w.filterMap id)

/-- the numbers the switch handler owns in step 3 -/
def acct (st : SwSt) : List Nat := offs st.hdrJumps ++ wnums st.waiting ++ offs st.defaultOps ++ offs st.caseOps

structure SwInv (lo : Nat) (s : St) (st : SwSt) (bps : List BP) : Prop where
  le : lo ≤ s.opc
  allb : AllNum bps
  allw : AllNum (st.waiting.filterMap id)
  good : Good lo s.opc (acct st ++ nums bps)
  names : ∀ n ∈ plainNames (st.hdrJumps ++ st.defaultOps ++ st.caseOps), isJumpName n = false

theorem nums_append (a b : List BP) : nums (a ++ b) = nums a ++ nums b := by simp [nums]
theorem nums_cons' (b : BP) (r : List BP) : nums (b :: r) = nums [b] ++ nums r := by
  rw [← nums_append]; rfl

theorem nums_cons_some (b : BP) (k : Nat) (r : List BP) (h : b.number = some k) : nums (b :: r) = k :: nums r := by
  rw [nums_cons, h]

theorem wnums_nil : wnums [] = [] := rfl
theorem wnums_cons_none (r : List (Option BP)) : wnums (none :: r) = wnums r := by simp [wnums]
theorem wnums_cons_some (b : BP) (r : List (Option BP)) : wnums (some b :: r) = nums [b] ++ wnums r := by
  simp only [wnums, List.filterMap_cons, id]; exact nums_cons' b _
theorem wnums_append (a b : List (Option BP)) : wnums (a ++ b) = wnums a ++ wnums b := by
  simp [wnums, nums_append]

theorem defJmp_number : defJmpBP.number = none := rfl

/-- `for h_waiting in cases_waiting_for_a_block`: the waiting headers are built with their own numbers; a waiting
default takes one new number; `X` is whatever else is owned at that moment -/
theorem buildWaiting_spec (startL : Nat) : ∀ (w : List (Option BP)) (dops : List LItem) (s : St) (hs dops' : List LItem) (s' : St),
    AllNum (w.filterMap id) → buildWaiting startL defJmpBP w dops s = .ok ((hs, dops'), s') →
    s.opc ≤ s'.opc ∧ plainNames hs = [] ∧ (∀ n ∈ plainNames dops', n ∈ plainNames dops) ∧
    ∀ (lo : Nat) (X : List Nat), lo ≤ s.opc → Good lo s.opc (X ++ wnums w ++ offs dops) → Good lo s'.opc (X ++ offs hs ++ offs dops') := by
  intro w
  induction w with
  | nil =>
    intro dops s hs dops' s' _ h
    simp only [buildWaiting, pure_ok, Prod.mk.injEq] at h
    obtain ⟨⟨rfl, rfl⟩, rfl⟩ := h
    exact ⟨Nat.le_refl _, rfl, fun n hn => hn, fun lo X _ g => by simpa [wnums_nil] using g⟩
  | cons x r ih =>
    intro dops s hs dops' s' hall h
    cases x with
    | none =>
      simp only [buildWaiting, bind_ok] at h
      obtain ⟨j, s1, h1, h2⟩ := h
      obtain ⟨rfl, rfl⟩ := buildFor_none defJmp_number h1
      obtain ⟨m, a, b, c⟩ := ih _ _ _ _ _ (by simpa using hall) h2
      simp only [opc_tickedOp] at m c
      refine ⟨by omega, a, fun n hn => by simpa using b n hn, fun lo X hlo g => ?_⟩
      apply c lo X (by omega)
      have g' : Good lo s.opc (X ++ wnums r) := g.of_count_le (fun n => by
        simp only [wnums_cons_none, List.count_append]; omega)
      simpa using g'.snoc hlo
    | some bp =>
      simp only [buildWaiting, bind_ok, pure_ok] at h
      obtain ⟨j, s1, h1, p, s2, h2, h3⟩ := h
      obtain ⟨hs', dops''⟩ := p
      simp only [Prod.mk.injEq] at h3
      obtain ⟨⟨rfl, rfl⟩, rfl⟩ := h3
      have hbp : bp.number.isSome = true := hall bp (by simp)
      obtain ⟨e1, e2, rfl⟩ := buildFor_allnum hbp h1
      obtain ⟨m, a, b, c⟩ := ih _ _ _ _ _ (fun x hx => hall x (by simp only [List.filterMap_cons, id]; exact List.mem_cons_of_mem _ hx)) h2
      refine ⟨m, ?_, b, fun lo X hlo g => ?_⟩
      · have : plainNames (j :: hs') = plainNames [j] ++ plainNames hs' := by rw [← plainNames_append]; rfl
        rw [this, e2, a]; rfl
      · have hj : offs (j :: hs') = nums [bp] ++ offs hs' := by
          have : offs (j :: hs') = offs [j] ++ offs hs' := by rw [← offs_append]; rfl
          rw [this, e1]
        rw [hj]
        have := c lo (X ++ nums [bp]) hlo (g.of_count_le (fun n => by
          simp only [wnums_cons_some, List.count_append]; omega))
        simpa [List.append_assoc] using this

theorem caseBPs_spec (sw : String) : ∀ (cs : Cases) (s : St) (bps : List BP) (s' : St), caseBPs sw cs s = .ok (bps, s') →
    s.opc ≤ s'.opc ∧ AllNum bps ∧ Good s.opc s'.opc (nums bps)
  | .nil, s, bps, s', h => by
    simp only [caseBPs, pure_ok, Prod.mk.injEq] at h
    obtain ⟨rfl, rfl⟩ := h
    exact ⟨Nat.le_refl _, fun _ hb => by simp at hb, Good.nil _ _⟩
  | .cons true _ _ _ r, s, bps, s', h => by
    simp only [caseBPs] at h
    exact caseBPs_spec sw r _ _ _ h
  | .cons false name params _ r, s, bps, s', h => by
    simp only [caseBPs, bind_ok, allocate_ok, pure_ok] at h
    obtain ⟨n, s1, h1, bs, s2, h2, h3⟩ := h
    simp only [Prod.mk.injEq] at h1 h3
    obtain ⟨rfl, rfl⟩ := h1
    obtain ⟨rfl, rfl⟩ := h3
    obtain ⟨m, an, g⟩ := caseBPs_spec sw r _ _ _ h2
    simp only [opc_tickedOp] at m g
    refine ⟨by omega, ?_, ?_⟩
    · intro x hx
      simp only [List.mem_cons] at hx
      rcases hx with rfl | hx
      · rfl
      · exact an x hx
    · rw [nums_cons_some _ _ _ rfl]
      have g1 : Good s.opc (s.opc + 1) [s.opc + 1] := Good.single (by omega) (Nat.le_refl _)
      exact g1.append g (by omega) m

theorem SwInv.wait_none {lo : Nat} {s : St} {st : SwSt} {bps : List BP} (h : SwInv lo s st bps) : SwInv lo s (st.wait none) bps :=
  ⟨h.le, h.allb, by simpa [SwSt.wait] using h.allw, h.good.of_count_le (fun n => by
    simp only [acct, SwSt.wait, wnums_append, wnums_cons_none, wnums_nil, List.count_append, List.append_nil]; omega), h.names⟩

theorem SwInv.wait_some {lo : Nat} {s : St} {st : SwSt} {bp : BP} {bps : List BP} (h : SwInv lo s st (bp :: bps)) :
    SwInv lo s (st.wait (some bp)) bps :=
  ⟨h.le, fun x hx => h.allb x (by simp [hx]), by
    intro x hx
    simp only [SwSt.wait, List.filterMap_append, List.mem_append, List.filterMap_cons, id, List.filterMap_nil, List.mem_singleton] at hx
    rcases hx with hx | hx
    · exact h.allw x hx
    · rw [hx]; exact h.allb bp (by simp),
   h.good.of_count_le (fun n => by
    simp only [acct, SwSt.wait, wnums_append, wnums_cons_some, wnums_nil, List.count_append, List.append_nil, nums_cons' bp bps]; omega),
   h.names⟩

theorem defaultStep_spec (endL : Nat) (bodyNil : Bool) {body : M (List LItem)} (hm : SpecM body) {lo : Nat} {st : SwSt} {bps : List BP}
    {s : St} {st' : SwSt} {s' : St} (inv : SwInv lo s st bps) (h : defaultStep endL bodyNil body st s = .ok (st', s')) :
    s.opc ≤ s'.opc ∧ SwInv lo s' st' bps := by
  unfold defaultStep at h
  cases bodyNil with
  | true =>
    simp only [↓reduceIte, pure_ok, Prod.mk.injEq] at h
    obtain ⟨rfl, rfl⟩ := h
    exact ⟨Nat.le_refl _, inv.wait_none⟩
  | false =>
    simp only [Bool.false_eq_true, ↓reduceIte, bind_ok, pushCase_ok, popCase_ok] at h
    obtain ⟨u, s1, h1, b, s2, h2, u2, s3, h3, h4⟩ := h
    simp only [Prod.mk.injEq] at h1 h3
    obtain ⟨_, rfl⟩ := h1
    obtain ⟨_, rfl⟩ := h3
    have bs := blockOf_spec hm (fun _ hb => by simp at hb) h2
    simp only [opc_pushCase] at bs
    cases hst : b.start with
    | none => rw [hst] at h4; simp [fail_ok] at h4
    | some startL =>
      rw [hst] at h4
      simp only [bind_ok, pure_ok] at h4
      obtain ⟨j, s4, h5, p, s5, h6, h7⟩ := h4
      obtain ⟨hs, dops⟩ := p
      simp only [Prod.mk.injEq] at h7
      obtain ⟨rfl, rfl⟩ := h7
      obtain ⟨rfl, rfl⟩ := buildFor_none defJmp_number h5
      obtain ⟨m, a, b', c⟩ := buildWaiting_spec startL _ _ _ _ _ _ inv.allw h6
      simp only [opc_popCase, opc_tickedOp] at m c
      have lo2 : lo ≤ s2.opc := Nat.le_trans inv.le bs.mono
      -- everything owned before, without the old default ops, plus the new block and the new default jump
      have g0 : Good lo s2.opc ((offs st.hdrJumps ++ offs st.caseOps ++ nums bps ++ wnums st.waiting) ++ offs b.items) :=
        (inv.good.of_count_le (fun n => by simp only [acct, List.count_append]; omega)).append bs.good inv.le bs.mono
      have g1 := g0.snoc lo2
      have g2 := c lo (offs st.hdrJumps ++ offs st.caseOps ++ nums bps ++ offs b.items) (by omega)
        (g1.of_count_le (fun n => by simp only [offs_cons_ljump, offs_nil, List.count_append]; omega))
      refine ⟨by have := bs.mono; omega, ⟨by have := bs.mono; omega, inv.allb, (fun _ hx => by simp at hx), g2.of_count_le (fun n => by
        simp only [acct, offs_append, wnums_nil, List.count_append, List.count_nil]; omega), ?_⟩⟩
      intro n hn
      simp only [plainNames_append, List.mem_append, a, List.append_nil] at hn
      rcases hn with (hn | hn) | hn | hn
      · exact inv.names n (by simp [hn])
      · simpa using b' n hn
      · exact inv.names n (by simp [hn])
      · exact bs.names n hn

theorem caseStep_spec (endL : Nat) (bp : BP) (bodyNil : Bool) {body : M (List LItem)} (hm : SpecM body) {lo : Nat} {st : SwSt} {bps : List BP}
    {s : St} {st' : SwSt} {s' : St} (inv : SwInv lo s st (bp :: bps)) (h : caseStep endL bp bodyNil body st s = .ok (st', s')) :
    s.opc ≤ s'.opc ∧ SwInv lo s' st' bps := by
  unfold caseStep at h
  cases bodyNil with
  | true =>
    simp only [↓reduceIte, pure_ok, Prod.mk.injEq] at h
    obtain ⟨rfl, rfl⟩ := h
    exact ⟨Nat.le_refl _, inv.wait_some⟩
  | false =>
    simp only [Bool.false_eq_true, ↓reduceIte, bind_ok, pushCase_ok, popCase_ok] at h
    obtain ⟨u, s1, h1, b, s2, h2, u2, s3, h3, h4⟩ := h
    simp only [Prod.mk.injEq] at h1 h3
    obtain ⟨_, rfl⟩ := h1
    obtain ⟨_, rfl⟩ := h3
    have hbp : AllNum [bp] := fun x hx => by
      simp only [List.mem_singleton] at hx; rw [hx]; exact inv.allb bp (by simp)
    have bs := blockOf_spec hm hbp h2
    simp only [opc_pushCase] at bs
    cases hst : b.start with
    | none => rw [hst] at h4; simp [fail_ok] at h4
    | some startL =>
      rw [hst] at h4
      simp only [bind_ok, pure_ok] at h4
      obtain ⟨p, s5, h6, h7⟩ := h4
      obtain ⟨hs, dops⟩ := p
      simp only [Prod.mk.injEq] at h7
      obtain ⟨rfl, rfl⟩ := h7
      obtain ⟨m, a, b', c⟩ := buildWaiting_spec startL _ _ _ _ _ _ inv.allw h6
      simp only [opc_popCase] at m c
      have lo2 : lo ≤ s2.opc := Nat.le_trans inv.le bs.mono
      have g0 : Good lo s2.opc ((offs st.hdrJumps ++ offs st.caseOps ++ nums [bp] ++ nums bps ++ wnums st.waiting ++ offs st.defaultOps) ++ offs b.items) :=
        (inv.good.of_count_le (fun n => by simp only [acct, List.count_append, nums_cons' bp bps]; omega)).append bs.good inv.le bs.mono
      have g2 := c lo (offs st.hdrJumps ++ offs st.caseOps ++ nums [bp] ++ nums bps ++ offs b.items) lo2
        (g0.of_count_le (fun n => by simp only [List.count_append]; omega))
      refine ⟨by have := bs.mono; omega, ⟨by have := bs.mono; omega, fun x hx => inv.allb x (by simp [hx]), (fun _ hx => by simp at hx), g2.of_count_le (fun n => by
        simp only [acct, offs_append, wnums_nil, List.count_append, List.count_nil, bs.hdrs]; omega), ?_⟩⟩
      intro n hn
      simp only [plainNames_append, List.mem_append, a, bs.hnames, List.append_nil] at hn
      rcases hn with (hn | hn) | hn | hn
      · exact inv.names n (by simp [hn])
      · exact inv.names n (by simp [b' n hn])
      · exact inv.names n (by simp [hn])
      · exact bs.names n hn

/-- what step 3 of `SwitchBlock.collect` over the case handlers guarantees -/
def CasesSpec (run : Nat → List BP → SwSt → M SwSt) : Prop :=
  ∀ endL lo bps st s st' s', SwInv lo s st bps → run endL bps st s = .ok (st', s') → s.opc ≤ s'.opc ∧ ∃ bps', SwInv lo s' st' bps'

theorem switchHdrOp_spec {hdr : Hdr} {s : St} {o : Op} {s' : St} (h : switchHdrOp hdr s = .ok (o, s')) :
    o.name = hdr.name ∧ s.opc < o.offset ∧ o.offset = s'.opc := by
  unfold switchHdrOp at h
  split at h
  · simp only [bind_ok, tickOp_ok] at h
    obtain ⟨a, s1, h1, h2⟩ := h
    simp only [Prod.mk.injEq] at h1
    obtain ⟨_, rfl⟩ := h1
    obtain ⟨rfl, rfl⟩ := genOp_spec h2
    exact ⟨rfl, by simp only [opc_tickedOp]; omega, rfl⟩
  · obtain ⟨rfl, rfl⟩ := genOp_spec h
    exact ⟨rfl, by simp only [opc_tickedOp]; omega, rfl⟩

theorem switchOf_spec (hdr : Hdr) (cases : Cases) {run : Nat → List BP → SwSt → M SwSt} (hn : isJumpName hdr.name = false)
    (hr : CasesSpec run) : SpecM (switchOf hdr cases run) := by
  intro s items s' h
  simp only [switchOf, bind_ok, tickLbl_ok] at h
  obtain ⟨dl, s0, h0, el, s0', h0', so, s1, h1, h2⟩ := h
  simp only [Prod.mk.injEq] at h0 h0'
  obtain ⟨rfl, rfl⟩ := h0
  obtain ⟨rfl, rfl⟩ := h0'
  obtain ⟨e1, e2, e3⟩ := switchHdrOp_spec h1
  simp only [opc_tickedLbl] at e2
  have spo : Spec s.opc s1.opc [.op so] := ⟨by omega, by
    simpa using (Good.single e2 (Nat.le_of_eq e3)), fun n hm => by
      simp only [plainNames_cons_op, plainNames_nil, List.mem_singleton] at hm; rw [hm, e1]; exact hn⟩
  cases cases with
  | nil =>
    simp only [pure_ok, Prod.mk.injEq] at h2
    obtain ⟨rfl, rfl⟩ := h2
    exact spo
  | cons d name params body r =>
    simp only [bind_ok] at h2
    obtain ⟨bps, s2, h3, dops0, s3, h4, rr, s4, h5, h6⟩ := h2
    obtain ⟨m2, alln, g2⟩ := caseBPs_spec _ _ _ _ _ h3
    have hd : s2.opc ≤ s3.opc ∧ Good s2.opc s3.opc (offs dops0) ∧ plainNames dops0 = [] := by
      unfold defaultOps0 at h4
      split at h4
      · simp only [pure_ok, Prod.mk.injEq] at h4
        obtain ⟨rfl, rfl⟩ := h4
        exact ⟨Nat.le_refl _, Good.nil _ _, rfl⟩
      · simp only [bind_ok, pure_ok] at h4
        obtain ⟨j, s5, h7, h8⟩ := h4
        simp only [Prod.mk.injEq] at h8
        obtain ⟨rfl, rfl⟩ := h8
        obtain ⟨rfl, rfl⟩ := genJump_spec h7
        exact ⟨by simp, by simpa using (Good.single (Nat.lt_succ_self s2.opc) (Nat.le_refl _)), rfl⟩
    obtain ⟨m3, g3, n3⟩ := hd
    have inv0 : SwInv s1.opc s3 ⟨[], [], dops0, []⟩ bps :=
      ⟨by omega, alln, (fun _ hx => by simp at hx), (g2.append g3 m2 m3).of_count_le (fun n => by
        simp only [acct, offs_nil, wnums_nil, List.count_append, List.count_nil]; omega), fun n hm => by simp [n3] at hm⟩
    obtain ⟨m4, bps', inv⟩ := hr _ _ _ _ _ _ _ inv0 h5
    split at h6
    · simp [fail_ok] at h6
    · rename_i hw
      simp only [pure_ok, Prod.mk.injEq] at h6
      obtain ⟨rfl, rfl⟩ := h6
      have hw' : rr.waiting = [] := by simpa using hw
      have rest : Spec s1.opc s'.opc (rr.hdrJumps ++ rr.defaultOps ++ rr.caseOps) :=
        ⟨by omega, inv.good.of_count_le (fun n => by
          simp only [acct, hw', wnums_nil, offs_append, List.count_append, List.count_nil]; omega), inv.names⟩
      exact (spo.append rest).of_le (fun n => by simp [List.count_append]) (fun n hm => by
        simp only [plainNames_append, plainNames_cons_op, plainNames_cons_label, plainNames_nil, List.mem_append, List.mem_cons,
          List.not_mem_nil, or_false, List.append_nil] at hm ⊢
        rcases hm with ((hm | hm) | hm) | hm
        · exact .inl hm
        · exact .inr (.inl (.inl hm))
        · exact .inr (.inl (.inr hm))
        · exact .inr (.inr hm))

end ESV.Comp
