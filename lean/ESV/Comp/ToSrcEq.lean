import ESV.Comp.ToSrc
/-
Comparison of `toSrc p` with the source program the harness lowers for the language semantics (the tie of `toSrc`):
equal macros, equal routines, where a routine written `alias previous` (no body on the source side) stands against the
empty body the compiler model is given for it.
-/
namespace ESV.Comp
open ESV ESV.Beh

deriving instance DecidableEq for Src.Stmt, Src.Stmts, Src.Branches, Src.Cases
deriving instance DecidableEq for Src.Macro
deriving instance DecidableEq for Src.Routine

def routineAgrees (mine theirs : Src.Routine) : Bool :=
  decide (mine = theirs) || (decide (theirs.body = none) && decide (mine.body = some .nil))

def routinesAgree : List Src.Routine → List Src.Routine → Bool
  | [], [] => true
  | a :: as, b :: bs => routineAgrees a b && routinesAgree as bs
  | _, _ => false

/-- `mine` = `toSrc` of the compiler model's input, `theirs` = what the harness lowers for `Src.tr` -/
def srcAgrees (mine theirs : Src.Program) : Bool :=
  decide (mine.macros = theirs.macros) && routinesAgree mine.routines theirs.routines

end ESV.Comp
