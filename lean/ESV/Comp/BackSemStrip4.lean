import ESV.Comp.BackSemStrip3
/-
Back-end correctness, first pass (strip_last_label), part 4: the invariant carried through the rounds.
-/
namespace ESV.Comp
open ESV ESV.Beh

/-- every op other than `Jump` that targets a label of its own routine finds an op after that label -/
def CondInv (its : List LItem) : Prop :=
  ∀ root l, LItem.ljump root (some l) ∈ its → isJump root.name = false →
    ∀ pre nm post, its = pre ++ LItem.label l nm :: post → 1 ≤ cntOps post

structure SInv (all : List Nat) (P : List (List LItem)) : Prop where
  distinct : DistinctOffsets P
  labels : (labelIds P.flatten).Nodup
  raw : P.flatten.all rawOK = true
  root : P.flatten.all rootOK = true
  ctx : P.all ctxOK = true
  jumps : ∀ root l, LItem.ljump root (some l) ∈ P.flatten → jumpedTo all l = true
  cond : ∀ its ∈ P, CondInv its

section
variable {all : List Nat} {lbl : Nat}

theorem stripScan_mem (l : List LItem) : ∀ pc b x, x ∈ stripScan all lbl pc b l →
    x ∈ l ∨ ∃ root, x = dummyAt root ∧ LItem.ljump root (some lbl) ∈ l := by
  induction l with
  | nil => intro pc b x h; simp [stripScan] at h
  | cons y r ih =>
    intro pc b x h
    have lift : (x ∈ r ∨ ∃ root, x = dummyAt root ∧ LItem.ljump root (some lbl) ∈ r) →
        x ∈ y :: r ∨ ∃ root, x = dummyAt root ∧ LItem.ljump root (some lbl) ∈ y :: r := by
      rintro (h | ⟨root, h1, h2⟩)
      · exact .inl (List.mem_cons_of_mem _ h)
      · exact .inr ⟨root, h1, List.mem_cons_of_mem _ h2⟩
    cases y with
    | label id nm =>
      simp only [stripScan, List.mem_cons] at h
      rcases h with rfl | h
      · exact .inl (by simp)
      · exact lift (ih _ _ x h)
    | op o =>
      simp only [stripScan, List.mem_cons] at h
      rcases h with rfl | h
      · exact .inl (by simp)
      · exact lift (ih _ _ x h)
    | ljump root t =>
      simp only [stripScan] at h
      split at h
      · rename_i ht
        have : t = some lbl := by simpa using ht
        subst this
        split at h
        · exact lift (ih _ _ x h)
        · simp only [List.mem_cons] at h
          rcases h with rfl | h
          · exact .inr ⟨root, rfl, by simp⟩
          · exact lift (ih _ _ x h)
      · simp only [List.mem_cons] at h
        rcases h with rfl | h
        · exact .inl (by simp)
        · exact lift (ih _ _ x h)

/-- a label jump to another label stays -/
theorem stripScan_keeps (l : List LItem) (root : Op) (t : Nat) (ht : t ≠ lbl) : ∀ pc b,
    LItem.ljump root (some t) ∈ l → LItem.ljump root (some t) ∈ stripScan all lbl pc b l := by
  induction l with
  | nil => intro pc b h; simp at h
  | cons y r ih =>
    intro pc b h
    simp only [List.mem_cons] at h
    cases y with
    | label id nm =>
      rcases h with h | h
      · cases h
      · simp only [stripScan, List.mem_cons]; exact .inr (ih _ _ h)
    | op o =>
      rcases h with h | h
      · cases h
      · simp only [stripScan, List.mem_cons]; exact .inr (ih _ _ h)
    | ljump root' t' =>
      simp only [stripScan]
      rcases h with h | h
      · cases h
        have : (some t == some lbl) = false := by simpa using ht
        simp [this]
      · split
        · split
          · exact ih _ _ h
          · exact List.mem_cons_of_mem _ (ih _ _ h)
        · exact List.mem_cons_of_mem _ (ih _ _ h)

/-- where a label of the output stands in the input, and what follows it -/
theorem stripScan_split (l : Nat) (nm : Bool) (L : List LItem) : ∀ pc b pre' post',
    stripScan all lbl pc b L = pre' ++ LItem.label l nm :: post' →
    ∃ preB postB b2, L = preB ++ LItem.label l nm :: postB ∧
      post' = stripScan all lbl false (if jumpedTo all l then false else b2) postB := by
  induction L with
  | nil => intro pc b pre' post' h; simp [stripScan] at h
  | cons x r ih =>
    intro pc b pre' post' h
    have lift : ∀ pc2 b2 pre'', stripScan all lbl pc2 b2 r = pre'' ++ LItem.label l nm :: post' →
        ∃ preB postB b2, x :: r = preB ++ LItem.label l nm :: postB ∧
          post' = stripScan all lbl false (if jumpedTo all l then false else b2) postB := by
      intro pc2 b2 pre'' h'
      obtain ⟨preB, postB, b3, e1, e2⟩ := ih pc2 b2 pre'' post' h'
      exact ⟨x :: preB, postB, b3, by simp [e1], e2⟩
    cases x with
    | label id nm' =>
      simp only [stripScan] at h
      cases pre' with
      | nil =>
        simp only [List.nil_append, List.cons.injEq, LItem.label.injEq] at h
        obtain ⟨⟨rfl, rfl⟩, h2⟩ := h
        exact ⟨[], r, b, rfl, h2.symm⟩
      | cons z pre'' =>
        simp only [List.cons_append, List.cons.injEq] at h
        exact lift _ _ pre'' h.2
    | op o =>
      simp only [stripScan] at h
      cases pre' with
      | nil => simp at h
      | cons z pre'' =>
        simp only [List.cons_append, List.cons.injEq] at h
        exact lift _ _ pre'' h.2
    | ljump root t =>
      simp only [stripScan] at h
      split at h
      · split at h
        · exact lift _ _ pre' h
        · cases pre' with
          | nil => simp at h
          | cons z pre'' =>
            simp only [List.cons_append, List.cons.injEq] at h
            exact lift _ _ pre'' h.2
      · cases pre' with
        | nil => simp at h
        | cons z pre'' =>
          simp only [List.cons_append, List.cons.injEq] at h
          exact lift _ _ pre'' h.2

theorem stripScan_cnt (X : List LItem) : ∀ pc, 1 ≤ cntOps X → 1 ≤ cntOps (stripScan all lbl pc false X) := by
  induction X with
  | nil => intro pc h; simp at h
  | cons x r ih =>
    intro pc h
    cases x with
    | label id nm =>
      simp only [stripScan, cntOps] at h ⊢
      have : (if jumpedTo all id = true then false else false) = false := by split <;> rfl
      rw [this]; exact ih _ h
    | op o => simp [stripScan, cntOps]
    | ljump root t =>
      simp only [stripScan]
      split
      · simp [cntOps]
      · simp [cntOps]

theorem condInv_lbl (body : List LItem) (nm : Bool) (h : CondInv (body ++ [LItem.label lbl nm])) (root : Op)
    (hin : LItem.ljump root (some lbl) ∈ body) : isJump root.name = true := by
  cases hj : isJump root.name with
  | true => rfl
  | false =>
    have := h root lbl (List.mem_append_left _ hin) hj body nm [] rfl
    simp at this

theorem condInv_scan (body : List LItem) (nm : Bool) (h : CondInv (body ++ [LItem.label lbl nm]))
    (hj : ∀ root l, LItem.ljump root (some l) ∈ body → jumpedTo all l = true) :
    CondInv (stripScan all lbl false false body) := by
  intro root l hin hnj pre' nm' post' hsplit
  have hinb : LItem.ljump root (some l) ∈ body := by
    rcases stripScan_mem body _ _ _ hin with h1 | ⟨root', h1, _⟩
    · exact h1
    · simp [dummyAt] at h1
  obtain ⟨preB, postB, b2, e1, e2⟩ := stripScan_split l nm' body _ _ pre' post' hsplit
  have hc := h root l (List.mem_append_left _ hinb) hnj preB nm' (postB ++ [.label lbl nm]) (by simp [e1])
  rw [cntOps_append] at hc
  simp only [cntOps, Nat.add_zero] at hc
  rw [e2, hj root l hinb]
  exact stripScan_cnt postB _ hc

theorem ctxOK_append_left (a b : List LItem) (h : ctxOK (a ++ b) = true) : ctxOK a = true := by
  induction a with
  | nil => rfl
  | cons x r ih =>
    simp only [List.cons_append, ctxOK_cons, Bool.and_eq_true] at h ⊢
    refine ⟨?_, ih h.2⟩
    cases r with
    | nil => rfl
    | cons y r' => simpa [headOK] using h.1

theorem ctxOK_scan (body : List LItem) (nm : Bool) (hc : ctxOK (body ++ [LItem.label lbl nm]) = true)
    (hcond : ∀ root, LItem.ljump root (some lbl) ∈ body → isJump root.name = true) :
    ctxOK (stripScan all lbl false false body) = true := by
  rw [← scanDec_new]
  apply ctxOK_dec
  · intro x y hm
    rcases scanDec_mem all lbl body _ _ x _ hm with h | ⟨root, rfl, h | h⟩
    · simp at h; subst h; exact ⟨rfl, id⟩
    · cases h
    · simp at h; subst h
      exact ⟨by rw [dummy_not_ctx]; rfl, fun _ => rfl⟩
  · intro x hm
    rcases scanDec_mem all lbl body _ _ x _ hm with h | ⟨root, rfl, h | h⟩
    · cases h
    · have hin : LItem.ljump root (some lbl) ∈ body := by
        have := List.mem_map_of_mem (f := fun (p : Dec) => p.1) hm
        rwa [scanDec_old] at this
      simp [afterCtxOK, hcond root hin]
    · cases h
  · rw [scanDec_old]; exact ctxOK_append_left _ _ hc

end

end ESV.Comp
