import ESV.Comp.CodegenF0c
/-
`codegen_correct`, fragment F0, part d: what the front end collects for F0 routines, and the theorem.
-/
namespace ESV.Comp
open ESV ESV.Beh

theorem opStmt_shape {name : String} {ps : List ESV.Param} {s : St} {items : List LItem} {s' : St}
    (h : opStmt name ps s = .ok (items, s')) : items.map shapeOf = [some (name, ps)] := by
  simp only [opStmt, bind_ok, pure_ok] at h
  obtain ⟨o, s1, h1, h2⟩ := h
  simp only [Prod.mk.injEq] at h2
  obtain ⟨rfl, rfl⟩ := h2
  obtain ⟨rfl, rfl⟩ := genOp_spec h1
  rfl

theorem cStmt_f0 (ms : Macros) (lb : Nat) (st : Stmt) (hf : f0Stmt st = true) {s : St} {items : List LItem} {s' : St}
    (h : cStmt ms lb st s = .ok (items, s')) : items.map shapeOf = (stmtCode st).map some := by
  cases st with
  | op n ps => simp only [cStmt] at h; simpa [stmtCode] using opStmt_shape h
  | ret => simp only [cStmt] at h; simpa [stmtCode] using opStmt_shape h
  | end_ => simp only [cStmt] at h; simpa [stmtCode] using opStmt_shape h
  | hold => simp only [cStmt] at h; simpa [stmtCode] using opStmt_shape h
  | inl c cp n ps =>
    simp only [cStmt, inlStmt, bind_ok, pure_ok] at h
    obtain ⟨co, s1, h1, o, s2, h2, h3⟩ := h
    simp only [Prod.mk.injEq] at h3
    obtain ⟨rfl, rfl⟩ := h3
    obtain ⟨rfl, rfl⟩ := genOp_spec h1
    obtain ⟨rfl, rfl⟩ := genOp_spec h2
    rfl
  | with_ c cp inner =>
    simp only [f0Stmt, Bool.and_eq_true] at hf
    simp only [cStmt, withOf, bind_ok] at h
    obtain ⟨co, s1, h1, sub, s2, h2, h3⟩ := h
    obtain ⟨rfl, rfl⟩ := genOp_spec h1
    have hsub : sub.map shapeOf = (stmtCode inner).map some := by
      cases inner with
      | op n ps => simp only [cStmt] at h2; simpa [stmtCode] using opStmt_shape h2
      | end_ => simp only [cStmt] at h2; simpa [stmtCode] using opStmt_shape h2
      | hold => simp only [cStmt] at h2; simpa [stmtCode] using opStmt_shape h2
      | _ => simp [f0Inner] at hf
    split at h3
    · simp only [pure_ok, Prod.mk.injEq] at h3
      obtain ⟨rfl, rfl⟩ := h3
      simp [stmtCode, shapeOf, hsub]
    · simp [fail_ok] at h3
  | _ => simp [f0Stmt] at hf

theorem cStmts_f0 (ms : Macros) : ∀ (ss : Stmts) (lb : Nat), f0Stmts ss = true → ∀ {s : St} {items : List LItem} {s' : St},
    cStmts ms lb ss s = .ok (items, s') → items.map shapeOf = (stmtsCode ss).map some
  | .nil, lb, _, s, items, s', h => by
    simp only [cStmts, pure_ok, Prod.mk.injEq] at h
    obtain ⟨rfl, rfl⟩ := h
    rfl
  | .cons st r, lb, hf, s, items, s', h => by
    simp only [f0Stmts, Bool.and_eq_true] at hf
    simp only [cStmts, bind_ok, pure_ok] at h
    obtain ⟨a, s1, h1, b, s2, h2, h3⟩ := h
    simp only [Prod.mk.injEq] at h3
    obtain ⟨rfl, rfl⟩ := h3
    simp [stmtsCode, cStmt_f0 ms lb st hf.1 h1, cStmts_f0 ms r _ hf.2 h2]

theorem all_ops_of_shape {items : List LItem} {code : Code} (h : items.map shapeOf = code.map some) :
    ∀ x ∈ items, ∃ o, x = .op o := by
  intro x hx
  have : shapeOf x ∈ items.map shapeOf := List.mem_map_of_mem hx
  rw [h] at this
  obtain ⟨y, _, hy⟩ := List.mem_map.mp this
  cases x with
  | op o => exact ⟨o, rfl⟩
  | label a b => simp [shapeOf] at hy
  | ljump a b => simp [shapeOf] at hy

theorem trailingNeedOp_ops {items : List LItem} (h : ∀ x ∈ items, ∃ o, x = .op o) : trailingNeedOp items = false := by
  have htl : trailingLabels items.reverse = [] := by
    cases hr : items.reverse with
    | nil => rfl
    | cons y r =>
      obtain ⟨o, rfl⟩ := h y (by rw [← List.mem_reverse, hr]; simp)
      rfl
  simp only [trailingNeedOp, htl, List.any_nil, Bool.false_or, List.any_eq_false]
  intro x hx
  obtain ⟨o, rfl⟩ := h x hx
  simp

mutual
theorem vbad_f0_stmt : ∀ (s : Stmt), f0Stmt s = true → vbadStmt s = false
  | .with_ c cp inner, h => by
    simp only [f0Stmt, Bool.and_eq_true] at h
    cases inner <;> simp [f0Inner] at h <;> simp [vbadStmt, Stmt.isLabel]
  | .op .., _ => by simp [vbadStmt]
  | .inl .., _ => by simp [vbadStmt]
  | .ret, _ => by simp [vbadStmt]
  | .end_, _ => by simp [vbadStmt]
  | .hold, _ => by simp [vbadStmt]
  | .label _, h => by simp [f0Stmt] at h
  | .jump _, h => by simp [f0Stmt] at h
  | .call _, h => by simp [f0Stmt] at h
  | .brk, h => by simp [f0Stmt] at h
  | .cont, h => by simp [f0Stmt] at h
  | .brkLoop, h => by simp [f0Stmt] at h
  | .ite .., h => by simp [f0Stmt] at h
  | .switch .., h => by simp [f0Stmt] at h
  | .forever .., h => by simp [f0Stmt] at h
  | .while_ .., h => by simp [f0Stmt] at h
  | .for_ .., h => by simp [f0Stmt] at h
  | .macroCall .., h => by simp [f0Stmt] at h
theorem vbad_f0 : ∀ (ss : Stmts), f0Stmts ss = true → vbadStmts ss = false
  | .nil, _ => by simp [vbadStmts]
  | .cons s r, h => by
    simp only [f0Stmts, Bool.and_eq_true] at h
    simp [vbadStmts, vbad_f0_stmt s h.1, vbad_f0 r h.2]
end

theorem compileBody_f0 (ms : Macros) (body : Stmts) (hf : f0Stmts body = true) {s : St} {items : List LItem} {s' : St}
    (h : compileBody ms true body s = .ok (items, s')) : items.map shapeOf = (stmtsCode body).map some := by
  unfold compileBody at h
  rw [vbad_f0 body hf] at h
  simp only [Bool.false_eq_true, if_false, bind_ok, visitTicks_ok] at h
  obtain ⟨lb, s1, h1, ops, s2, h2, h3⟩ := h
  simp only [Prod.mk.injEq] at h1
  obtain ⟨rfl, rfl⟩ := h1
  have hsh := cStmts_f0 ms body _ hf h2
  rw [trailingNeedOp_ops (all_ops_of_shape hsh)] at h3
  simp only [Bool.and_false, Bool.false_eq_true, if_false, pure_ok, Prod.mk.injEq] at h3
  obtain ⟨rfl, rfl⟩ := h3
  exact hsh

theorem compileRoutines_f0 (ms : Macros) : ∀ (rs : List Routine) (a : Nat) (t : Tables) (s : St) (t' : Tables) (s' : St),
    seqFrom rs a = true → t.ops.length = a → t.infos.length = a → (∀ r ∈ rs, f0Stmts r.body = true) →
    compileRoutines ms rs a t s = .ok (t', s') →
    ∀ j r, rs[j]? = some r → ∃ its, t'.ops[a + j]? = some its ∧ its.map shapeOf = (stmtsCode r.body).map some := by
  intro rs
  induction rs with
  | nil => intro a t s t' s' _ _ _ _ _ j r hj; simp at hj
  | cons r0 rs ih =>
    intro a t s t' s' hseq hlo hli hall h j r hj
    simp only [seqFrom, Bool.and_eq_true] at hseq
    have hid := routineId_seq r0 a hseq.1
    simp only [compileRoutines, hid] at h
    split at h
    · simp [fail_ok] at h
    · simp only [bind_ok] at h
      obtain ⟨ops, s1, h1, h2⟩ := h
      have hsh := compileBody_f0 ms r0.body (hall r0 (by simp)) h1
      have e1 : ((t.enlarge a).put a r0.info r0.coro ops).ops = t.ops ++ [ops] := by
        have : ((t.enlarge a).put a r0.info r0.coro ops).ops = (t.enlarge a).ops.set a ops := by cases r0.coro <;> rfl
        rw [this]
        simp only [Tables.enlarge, hli, Nat.add_sub_cancel_left]
        rw [← hlo]; simp
      have e2 : ((t.enlarge a).put a r0.info r0.coro ops).infos.length = a + 1 := by
        simp [Tables.put, Tables.enlarge, hli]
      -- the routines after this one do not touch its op list
      have keep : ∀ (rs' : List Routine) (a' : Nat) (t1 : Tables) (s1 : St) (t2 : Tables) (s2 : St), seqFrom rs' a' = true →
          t1.ops.length = a' → t1.infos.length = a' → compileRoutines ms rs' a' t1 s1 = .ok (t2, s2) →
          ∀ i, i < a' → t2.ops[i]? = t1.ops[i]? := by
        intro rs'
        induction rs' with
        | nil =>
          intro a' t1 s1 t2 s2 _ _ _ h' i _
          simp only [compileRoutines, pure_ok, Prod.mk.injEq] at h'
          obtain ⟨rfl, rfl⟩ := h'
          rfl
        | cons q qs ih' =>
          intro a' t1 s1 t2 s2 hs' hl1 hl2 h' i hi
          simp only [seqFrom, Bool.and_eq_true] at hs'
          simp only [compileRoutines, routineId_seq q a' hs'.1] at h'
          split at h'
          · simp [fail_ok] at h'
          · simp only [bind_ok] at h'
            obtain ⟨ops', s3, h3, h4⟩ := h'
            have f1 : ((t1.enlarge a').put a' q.info q.coro ops').ops = t1.ops ++ [ops'] := by
              have : ((t1.enlarge a').put a' q.info q.coro ops').ops = (t1.enlarge a').ops.set a' ops' := by cases q.coro <;> rfl
              rw [this]
              simp only [Tables.enlarge, hl2, Nat.add_sub_cancel_left]
              rw [← hl1]; simp
            have f2 : ((t1.enlarge a').put a' q.info q.coro ops').infos.length = a' + 1 := by
              simp [Tables.put, Tables.enlarge, hl2]
            rw [ih' (a' + 1) _ _ _ _ hs'.2 (by rw [f1]; simp [hl1]) f2 h4 i (by omega), f1]
            exact List.getElem?_append_left (by omega)
      cases j with
      | zero =>
        simp only [List.getElem?_cons_zero, Option.some.injEq] at hj
        subst hj
        refine ⟨ops, ?_, hsh⟩
        rw [Nat.add_zero, keep rs (a + 1) _ _ _ _ hseq.2 (by rw [e1]; simp [hlo]) e2 h2 a (by omega), e1, ← hlo]
        simp
      | succ j =>
        simp only [List.getElem?_cons_succ] at hj
        obtain ⟨its, g1, g2⟩ := ih (a + 1) _ _ _ _ hseq.2 (by rw [e1]; simp [hlo]) e2
          (fun x hx => hall x (by simp [hx])) h2 j r hj
        exact ⟨its, by rw [← g1]; congr 1; omega, g2⟩

end ESV.Comp
