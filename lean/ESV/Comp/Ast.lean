
import ESV.Base.Ssb
/-
Input of the compiler model (ESV/Comp/Model.lean): the statement tree the ExplorerScript compile handlers see,
with headers, assignments and message switches already lowered to opcode name + parameter list.

It is the core AST of ESV/Src/Ast.lean plus exactly the distinctions the *code generator* reacts to and the
language semantics does not:

* a header written as an operation (`if (BranchVariation(1))`, `switch (ProcessSpecial(..))`, `while (Op())`) is
  collected through `OperationCompileHandler.collect()`, which takes an op number that is then thrown away
  (`isOp = true`);
* an operation with an inline context (`actor<X>.Op()`, `inl`) and a with-block (`with_`) are different handlers;
* an if-block keeps its `elseif` blocks apart from the first branch (different handler methods, different
  order of counter ticks);
* a routine carries the way its id is determined (`def N` / `coro NAME`) and opaque table data.

Lowered by the harness (harness/gen/complower.py, from the lowering table harness/gen/surface.py::lower_*): the
opcode and parameter list of every if/while/for/case/switch header, of every assignment form (one op each), and
message switches (a straight list of ops: the switch op, one `CaseText` per case in source order, `DefaultText`
last — the handler ticks the counter once per op in exactly this order).
-/
namespace ESV.Comp
open ESV


/-- lowered if/while/for header: the test op without its target -/
structure Hdr where
  isOp : Bool
  name : String
  params : List Param
deriving DecidableEq, Repr

mutual
inductive Stmt where
  | op (name : String) (params : List Param)
  /-- operation with inline context: `cname` ∈ lives/object/performer -/
  | inl (cname : String) (cparam : Param) (name : String) (params : List Param)
  /-- `with (actor X) { simple_stmt }` -/
  | with_ (cname : String) (cparam : Param) (inner : Stmt)
  | label (n : String)
  | jump (n : String)
  | call (n : String)
  | ret | end_ | hold | brk | cont | brkLoop
  | ite (neg : Bool) (hdrs : List Hdr) (body : Stmts) (elifs : Elifs) (hasElse : Bool) (els : Stmts)
  | switch (hdr : Hdr) (cases : Cases)
  | forever (body : Stmts)
  | while_ (neg : Bool) (h : Hdr) (body : Stmts)
  | for_ (init : Stmt) (h : Hdr) (inc : Stmt) (body : Stmts)
  | macroCall (name : String) (args : List Param)
inductive Stmts where
  | nil
  | cons (s : Stmt) (r : Stmts)
inductive Elifs where
  | nil
  | cons (neg : Bool) (hdrs : List Hdr) (body : Stmts) (r : Elifs)
inductive Cases where
  | nil
  /-- `name`/`params`: the lowered case header (unused for `default`) -/
  | cons (isDefault : Bool) (name : String) (params : List Param) (body : Stmts) (r : Cases)
end

structure Macro where
  name : String
  vars : List String
  body : Stmts

/-- `rid = some n` for `def n …`, `none` for `coro NAME` (id = previous + 1); `info`/`coro` are opaque table data
handed through (what `SsbRoutineInfo` / the coroutine name were built from); `body = .nil` also stands for
`alias previous` (the alias visitor adds no handler) -/
structure Routine where
  rid : Option Nat
  info : String
  coro : Option String
  body : Stmts

/-- macros in source order, the resolution order computed by `MacroResolutionOrderVisitor` (taken from the real
compiler, see C05), routines in source order -/
structure Program where
  macros : List Macro
  macroOrder : List String
  routines : List Routine

def Stmts.isNil : Stmts → Bool
  | .nil => true
  | _ => false

end ESV.Comp
