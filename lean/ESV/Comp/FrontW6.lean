import ESV.Comp.FrontW5
/-
`frontend_wfl`, part 6: `IfBlock.collect`.
-/
namespace ESV.Comp
open ESV ESV.Beh

theorem patchNone_snoc_label (e i : Nat) (b : Bool) (l : List LItem) :
    patchNone e (l ++ [.label i b]) = patchNone e l ++ [.label i b] := by
  simp [patchNone, patchItem]

theorem ctxP_ite {c1 c2 c3 c4 c5 c6 : List LItem} (h1 : CtxP c1) (h2 : CtxP c2) (h3 : CtxP c3) (h4 : CtxP c4) (h5 : CtxP c5)
    (h6 : CtxP c6) : CtxP (c1 ++ c2 ++ c3 ++ c4 ++ c5 ++ c6) :=
  ((((h1.append h2).append h3).append h4).append h5).append h6

theorem iteOf_w {c : LCtx} {rb rA re rB : List Nat} {db dA de dB : List String} (neg : Bool) (hdrs : List Hdr) (hh : HdrsOK hdrs)
    {body els : M (List LItem)} {elifsA : M (List ElifA)} (hasElse : Bool) {elifsB : List ElifA → M (List Blk)} {k : List Bool}
    (hm : WM c rb db body) (hE : WM c re de (elsePartOf hasElse els)) (hA : EAS k c rA dA elifsA) (hB : EBS k c rB dB elifsB) :
    WM c (rb ++ rA ++ re ++ rB) (db ++ dA ++ de ++ dB) (iteOf neg hdrs body elifsA hasElse els elifsB) := by
  intro s items s' hs h
  simp only [iteOf, bind_ok, tickLbl_ok, pure_ok] at h
  obtain ⟨endL, s0, h0, bps, s1, h1, early, s2, h2, as, s3, h3, ep, s4, h4, ifBlk, s5, h5, late, s6, h6, h7⟩ := h
  simp only [Prod.mk.injEq] at h0 h7
  obtain ⟨rfl, rfl⟩ := h0
  obtain ⟨rfl, rfl⟩ := h7
  have wEnd := W.tick hs
  obtain ⟨e1, okb⟩ := collectIfHdrs_w _ _ _ _ _ hh h1
  have hs1 : StOK c s1 := e1.ok wEnd.ok
  cases neg with
  | true =>
    unfold earlyBlock at h2
    simp only [↓reduceIte, bind_ok, pure_ok] at h2
    obtain ⟨b, s2', h2a, h2b⟩ := h2
    simp only [Prod.mk.injEq] at h2b
    obtain ⟨rfl, rfl⟩ := h2b
    obtain ⟨wb, jb⟩ := blockOf_w hm okb hs1 h2a
    obtain ⟨lk, wA, wfs⟩ := hA _ _ _ wb.ok h3
    have wE := hE _ _ _ wA.ok h4
    simp only [lateBlock, pure_ok, Prod.mk.injEq] at h5
    obtain ⟨rfl, rfl⟩ := h5
    obtain ⟨wB, f1, f2, f3, f4⟩ := hB as lk wfs _ _ _ wE.ok h6
    have w := (((wEnd.append (wb.sameLft e1)).append wA).append wE).append wB
    have w' : W c (rb ++ rA ++ re ++ rB) (db ++ dA ++ de ++ dB) s
        ((ifBlk.hdrs ++ ifBlk.items ++ elifsFront as late ++ ep ++ [] ++ elifsBack as late) ++ [.label (s.lbc + 1) false]) s' := by
      refine (w.allot (fun n => by simp) (fun n => by simp)).rearr (fun n => ?_) (fun n => ?_) ?_ ?_
      · have := f1 n
        simp only [intIds_append, intIds_cons_int, intIds_nil, List.count_append, jb.intIds, List.count_nil, List.count_cons]
        omega
      · have := f2 n
        simp only [usrIds_append, usrIds_cons_int, usrIds_nil, List.count_append, jb.usrIds, List.count_nil]
        omega
      · intro z hz
        simp only [List.mem_append, List.mem_cons, List.not_mem_nil, or_false] at hz
        rcases hz with ((((hz | hz) | hz) | hz) | hz) | rfl
        · exact jb.root z hz
        · exact wb.root z hz
        · exact f3 z hz
        · exact wE.root z hz
        · exact wB.root z hz
        · rfl
      · exact (ctxP_ite jb.noCtx.ctxP wb.ctx f4 wE.ctx CtxP.nil wB.ctx).append (NoCtx.label _ _).ctxP
    have := w'.patch (s.lbc + 1)
    rw [patchNone_snoc_label] at this
    simpa using this
  | false =>
    unfold earlyBlock at h2
    simp only [Bool.false_eq_true, ↓reduceIte, pure_ok, Prod.mk.injEq] at h2
    obtain ⟨rfl, rfl⟩ := h2
    obtain ⟨lk, wA, wfs⟩ := hA _ _ _ hs1 h3
    have wE := hE _ _ _ wA.ok h4
    simp only [lateBlock] at h5
    obtain ⟨wb, jb⟩ := blockOf_w hm okb wE.ok h5
    obtain ⟨wB, f1, f2, f3, f4⟩ := hB as lk wfs _ _ _ wb.ok h6
    have w := (((wEnd.append (wA.sameLft e1)).append wE).append wb).append wB
    have w' : W c (rb ++ rA ++ re ++ rB) (db ++ dA ++ de ++ dB) s
        ((ifBlk.hdrs ++ [] ++ elifsFront as late ++ ep ++ ifBlk.items ++ elifsBack as late) ++ [.label (s.lbc + 1) false]) s' := by
      refine (w.allot (fun n => by simp only [List.nil_append, List.append_assoc, List.count_append]; omega)
        (fun n => by simp only [List.nil_append, List.append_assoc, List.filterMap_append, List.count_append]; omega)).rearr
        (fun n => ?_) (fun n => ?_) ?_ ?_
      · have := f1 n
        simp only [intIds_append, intIds_cons_int, intIds_nil, List.count_append, jb.intIds, List.count_nil, List.count_cons]
        omega
      · have := f2 n
        simp only [usrIds_append, usrIds_cons_int, usrIds_nil, List.count_append, jb.usrIds, List.count_nil]
        omega
      · intro z hz
        simp only [List.mem_append, List.mem_cons, List.not_mem_nil, or_false] at hz
        rcases hz with ((((hz | hz) | hz) | hz) | hz) | rfl
        · exact jb.root z hz
        · exact f3 z hz
        · exact wE.root z hz
        · exact wb.root z hz
        · exact wB.root z hz
        · rfl
      · exact (ctxP_ite jb.noCtx.ctxP CtxP.nil f4 wE.ctx wb.ctx wB.ctx).append (NoCtx.label _ _).ctxP
    have := w'.patch (s.lbc + 1)
    rw [patchNone_snoc_label] at this
    simpa using this

end ESV.Comp
