import ESV.Beh.Lts
/-
Step-indexed behavioural equality, for compositional proofs about code with loops (`codegen_correct`):

`E m a b` — `a` and `b` agree for `m` observable steps: whenever one of them reaches (over silent steps) an observable step,
so does the other, with the same event, and the successors agree for `m - 1` observable steps.  `G j S a b` is one layer of
it with the silent search bounded by `j` (what an induction on the length of a silent path needs).
`E_sound`: agreement for every `m` is `Equivalent`.
-/
namespace ESV.Beh
variable {ε : Type}

def HeadRel {σ₁ σ₂ : Type} (S : σ₁ → σ₂ → Prop) : Head σ₁ ε → Head σ₂ ε → Prop
  | .emit e a, .emit e' b => e = e' ∧ S a b
  | .test e y n, .test e' y' n' => e = e' ∧ S y y' ∧ S n n'
  | .halt e, .halt e' => e = e'
  | _, _ => False

section
variable (L₁ L₂ : LTS ε)

def G (j : Nat) (S : L₁.σ → L₂.σ → Prop) (a : L₁.σ) (b : L₂.σ) : Prop :=
  (∀ h₁, settle L₁ j a = some h₁ → ∃ j₂ h₂, settle L₂ j₂ b = some h₂ ∧ HeadRel S h₁ h₂) ∧
  (∀ h₂, settle L₂ j b = some h₂ → ∃ j₁ h₁, settle L₁ j₁ a = some h₁ ∧ HeadRel S h₁ h₂)

def E : Nat → L₁.σ → L₂.σ → Prop
  | 0 => fun _ _ => True
  | m + 1 => fun a b => ∀ j, G L₁ L₂ j (E m) a b
end

variable {L₁ L₂ : LTS ε}

theorem settle_silent {L : LTS ε} {a a' : L.σ} (h : L.step a = .silent a') (j : Nat) : settle L (j + 1) a = settle L j a' := by
  simp [settle, h]

theorem settle_mono {L : LTS ε} : ∀ (j k : Nat) (a : L.σ) (h : Head L.σ ε), settle L j a = some h → settle L (j + k) a = some h := by
  intro j
  induction j with
  | zero => intro k a h hs; simp [settle] at hs
  | succ j ih =>
    intro k a h hs
    have e : j + 1 + k = (j + k) + 1 := by omega
    rw [e]
    unfold settle at hs ⊢
    cases hst : L.step a with
    | silent a' => rw [hst] at hs; simp only at hs ⊢; exact ih k a' h hs
    | emit e n => rw [hst] at hs; exact hs
    | test e y n => rw [hst] at hs; exact hs
    | halt e => rw [hst] at hs; exact hs

theorem settle_le {L : LTS ε} {j j' : Nat} (hle : j ≤ j') {a : L.σ} {h : Head L.σ ε} (hs : settle L j a = some h) :
    settle L j' a = some h := by
  have := settle_mono j (j' - j) a h hs
  rwa [show j + (j' - j) = j' by omega] at this

theorem HeadRel.mono {σ₁ σ₂ : Type} {S S' : σ₁ → σ₂ → Prop} (hS : ∀ x y, S x y → S' x y) :
    ∀ {h₁ : Head σ₁ ε} {h₂ : Head σ₂ ε}, HeadRel S h₁ h₂ → HeadRel S' h₁ h₂ := by
  intro h₁ h₂ h
  cases h₁ <;> cases h₂ <;> simp only [HeadRel] at h ⊢
  · exact ⟨h.1, hS _ _ h.2⟩
  · exact ⟨h.1, hS _ _ h.2.1, hS _ _ h.2.2⟩
  · exact h

theorem G.monoS {j : Nat} {S S' : L₁.σ → L₂.σ → Prop} {a : L₁.σ} {b : L₂.σ} (hS : ∀ x y, S x y → S' x y)
    (h : G L₁ L₂ j S a b) : G L₁ L₂ j S' a b :=
  ⟨fun h₁ hs => by obtain ⟨j₂, h₂, e, r⟩ := h.1 h₁ hs; exact ⟨j₂, h₂, e, r.mono hS⟩,
   fun h₂ hs => by obtain ⟨j₁, h₁, e, r⟩ := h.2 h₂ hs; exact ⟨j₁, h₁, e, r.mono hS⟩⟩

theorem G.monoJ {j j' : Nat} (hle : j' ≤ j) {S : L₁.σ → L₂.σ → Prop} {a : L₁.σ} {b : L₂.σ} (h : G L₁ L₂ j S a b) :
    G L₁ L₂ j' S a b :=
  ⟨fun h₁ hs => h.1 h₁ (settle_le hle hs), fun h₂ hs => h.2 h₂ (settle_le hle hs)⟩

/-- a silent step on the left -/
theorem G.silL {j : Nat} {S : L₁.σ → L₂.σ → Prop} {a a' : L₁.σ} {b : L₂.σ} (hs : L₁.step a = .silent a')
    (h : G L₁ L₂ j S a' b) : G L₁ L₂ j S a b := by
  refine ⟨fun h₁ hh => ?_, fun h₂ hh => ?_⟩
  · cases j with
    | zero => simp [settle] at hh
    | succ j =>
      rw [settle_silent hs] at hh
      exact h.1 h₁ (settle_le (Nat.le_succ j) hh)
  · obtain ⟨j₁, h₁, e, r⟩ := h.2 h₂ hh
    exact ⟨j₁ + 1, h₁, by rw [settle_silent hs]; exact e, r⟩

theorem G.silR {j : Nat} {S : L₁.σ → L₂.σ → Prop} {a : L₁.σ} {b b' : L₂.σ} (hs : L₂.step b = .silent b')
    (h : G L₁ L₂ j S a b') : G L₁ L₂ j S a b := by
  refine ⟨fun h₁ hh => ?_, fun h₂ hh => ?_⟩
  · obtain ⟨j₂, h₂, e, r⟩ := h.1 h₁ hh
    exact ⟨j₂ + 1, h₂, by rw [settle_silent hs]; exact e, r⟩
  · cases j with
    | zero => simp [settle] at hh
    | succ j =>
      rw [settle_silent hs] at hh
      exact h.2 h₂ (settle_le (Nat.le_succ j) hh)

/-- a silent step on both sides: the bound grows -/
theorem G.silB {j : Nat} {S : L₁.σ → L₂.σ → Prop} {a a' : L₁.σ} {b b' : L₂.σ} (ha : L₁.step a = .silent a')
    (hb : L₂.step b = .silent b') (h : G L₁ L₂ j S a' b') : G L₁ L₂ (j + 1) S a b := by
  refine ⟨fun h₁ hh => ?_, fun h₂ hh => ?_⟩
  · rw [settle_silent ha] at hh
    obtain ⟨j₂, h₂, e, r⟩ := h.1 h₁ hh
    exact ⟨j₂ + 1, h₂, by rw [settle_silent hb]; exact e, r⟩
  · rw [settle_silent hb] at hh
    obtain ⟨j₁, h₁, e, r⟩ := h.2 h₂ hh
    exact ⟨j₁ + 1, h₁, by rw [settle_silent ha]; exact e, r⟩

theorem settle_emit {L : LTS ε} {a a' : L.σ} {e : ε} (h : L.step a = .emit e a') (j : Nat) : settle L (j + 1) a = some (.emit e a') := by
  simp [settle, h]
theorem settle_test {L : LTS ε} {a y n : L.σ} {e : ε} (h : L.step a = .test e y n) (j : Nat) : settle L (j + 1) a = some (.test e y n) := by
  simp [settle, h]
theorem settle_halt {L : LTS ε} {a : L.σ} {e : ε} (h : L.step a = .halt e) (j : Nat) : settle L (j + 1) a = some (.halt e) := by
  simp [settle, h]

theorem G.emit {j : Nat} {S : L₁.σ → L₂.σ → Prop} {a a' : L₁.σ} {b b' : L₂.σ} {e : ε} (ha : L₁.step a = .emit e a')
    (hb : L₂.step b = .emit e b') (h : S a' b') : G L₁ L₂ j S a b := by
  refine ⟨fun h₁ hh => ?_, fun h₂ hh => ?_⟩
  · cases j with
    | zero => simp [settle] at hh
    | succ j =>
      rw [settle_emit ha] at hh; cases hh
      exact ⟨1, _, settle_emit hb 0, rfl, h⟩
  · cases j with
    | zero => simp [settle] at hh
    | succ j =>
      rw [settle_emit hb] at hh; cases hh
      exact ⟨1, _, settle_emit ha 0, rfl, h⟩

theorem G.test {j : Nat} {S : L₁.σ → L₂.σ → Prop} {a y n : L₁.σ} {b y' n' : L₂.σ} {e : ε} (ha : L₁.step a = .test e y n)
    (hb : L₂.step b = .test e y' n') (hy : S y y') (hn : S n n') : G L₁ L₂ j S a b := by
  refine ⟨fun h₁ hh => ?_, fun h₂ hh => ?_⟩
  · cases j with
    | zero => simp [settle] at hh
    | succ j =>
      rw [settle_test ha] at hh; cases hh
      exact ⟨1, _, settle_test hb 0, rfl, hy, hn⟩
  · cases j with
    | zero => simp [settle] at hh
    | succ j =>
      rw [settle_test hb] at hh; cases hh
      exact ⟨1, _, settle_test ha 0, rfl, hy, hn⟩

theorem G.halt {j : Nat} {S : L₁.σ → L₂.σ → Prop} {a : L₁.σ} {b : L₂.σ} {e : ε} (ha : L₁.step a = .halt e)
    (hb : L₂.step b = .halt e) : G L₁ L₂ j S a b := by
  refine ⟨fun h₁ hh => ?_, fun h₂ hh => ?_⟩
  · cases j with
    | zero => simp [settle] at hh
    | succ j =>
      rw [settle_halt ha] at hh; cases hh
      exact ⟨1, _, settle_halt hb 0, rfl⟩
  · cases j with
    | zero => simp [settle] at hh
    | succ j =>
      rw [settle_halt hb] at hh; cases hh
      exact ⟨1, _, settle_halt ha 0, rfl⟩

theorem E.mono : ∀ (m : Nat) {a : L₁.σ} {b : L₂.σ}, E L₁ L₂ (m + 1) a b → E L₁ L₂ m a b := by
  intro m
  induction m with
  | zero => intro a b _; trivial
  | succ m ih =>
    intro a b h j
    exact (h j).monoS (fun x y hxy => ih hxy)

theorem E.le {m m' : Nat} (hle : m' ≤ m) {a : L₁.σ} {b : L₂.σ} (h : E L₁ L₂ m a b) : E L₁ L₂ m' a b := by
  induction m with
  | zero => have : m' = 0 := by omega
            subst this; exact h
  | succ m ih =>
    rcases Nat.lt_or_ge m' (m + 1) with hlt | hge
    · exact ih (by omega) (E.mono m h)
    · have : m' = m + 1 := by omega
      subst this; exact h

theorem E.silL {m : Nat} {a a' : L₁.σ} {b : L₂.σ} (hs : L₁.step a = .silent a') (h : E L₁ L₂ m a' b) : E L₁ L₂ m a b := by
  cases m with
  | zero => trivial
  | succ m => exact fun j => (h j).silL hs

theorem E.silR {m : Nat} {a : L₁.σ} {b b' : L₂.σ} (hs : L₂.step b = .silent b') (h : E L₁ L₂ m a b') : E L₁ L₂ m a b := by
  cases m with
  | zero => trivial
  | succ m => exact fun j => (h j).silR hs

/-! ### soundness -/

theorem settle_none_run {L : LTS ε} (ω : Nat → Bool) : ∀ (f : Nat) (a : L.σ), settle L f a = none →
    ∀ n k, n ≤ f → (run L ω n k a).1 = [] ∧ (run L ω n k a).2 ≠ none := by
  intro f
  induction f with
  | zero =>
    intro a _ n k hn
    have : n = 0 := by omega
    subst this; simp [run]
  | succ f ih =>
    intro a hs n k hn
    cases n with
    | zero => simp [run]
    | succ n =>
      unfold settle at hs
      cases hst : L.step a with
      | silent a' =>
        rw [hst] at hs
        simp only [run, hst]
        exact ih a' hs n k (by omega)
      | emit e x => rw [hst] at hs; cases hs
      | test e y x => rw [hst] at hs; cases hs
      | halt e => rw [hst] at hs; cases hs

theorem E_sim : ∀ (n : Nat) (a : L₁.σ) (b : L₂.σ), E L₁ L₂ n a b → ∀ (ω : Nat → Bool) (k : Nat), ∃ m,
    (run L₁ ω n k a).1 <+: (run L₂ ω m k b).1 ∧
    ((run L₁ ω n k a).2 = none → (run L₂ ω m k b).2 = none ∧ (run L₁ ω n k a).1 = (run L₂ ω m k b).1) := by
  intro n
  induction n using Nat.strongRecOn with
  | ind n ih =>
    intro a b hE ω k
    cases n with
    | zero => exact ⟨0, by simp [run], by simp [run]⟩
    | succ n =>
      have hG := hE (n + 1)
      cases h1 : settle L₁ (n + 1) a with
      | none =>
        obtain ⟨e1, e2⟩ := settle_none_run ω (n + 1) a h1 (n + 1) k (Nat.le_refl _)
        exact ⟨0, by rw [e1]; exact List.nil_prefix, fun hh => absurd hh e2⟩
      | some hd1 =>
        obtain ⟨j2, hd2, h2, hr⟩ := hG.1 hd1 h1
        obtain ⟨j1, a1, a2⟩ := settle_run L₁ ω (n + 1) a hd1 h1
        obtain ⟨j2', b1, b2⟩ := settle_run L₂ ω j2 b hd2 h2
        by_cases hn : n + 1 ≤ j1
        · refine ⟨0, ?_, ?_⟩
          · rw [(a1 (n + 1) k hn).1]; exact List.nil_prefix
          · intro h; exact absurd h (a1 (n + 1) k hn).2
        · obtain ⟨n', hn'⟩ : ∃ n', n + 1 = j1 + 1 + n' := ⟨n + 1 - (j1 + 1), by omega⟩
          rw [hn', a2 n' k]
          have hle : n' ≤ n := by omega
          cases hd1 with
          | emit e s1 =>
            cases hd2 with
            | emit e' s2 =>
              obtain ⟨rfl, hS⟩ := hr
              obtain ⟨m', p1, p2⟩ := ih n' (by omega) s1 s2 (E.le hle hS) ω k
              refine ⟨j2' + 1 + m', ?_, ?_⟩
              · rw [b2 m' k]; simp only [afterHead]
                exact List.prefix_cons_inj _ |>.mpr p1
              · rw [b2 m' k]; simp only [afterHead]; intro h
                obtain ⟨q1, q2⟩ := p2 h
                exact ⟨q1, by rw [q2]⟩
            | test _ _ _ => cases hr
            | halt _ => cases hr
          | test e y no =>
            cases hd2 with
            | test e' y' no' =>
              obtain ⟨rfl, hy, hno⟩ := hr
              have hS : E L₁ L₂ n (if ω k then y else no) (if ω k then y' else no') := by
                cases ω k <;> simp [hy, hno]
              obtain ⟨m', p1, p2⟩ := ih n' (by omega) _ _ (E.le hle hS) ω (k + 1)
              refine ⟨j2' + 1 + m', ?_, ?_⟩
              · rw [b2 m' k]; simp only [afterHead]
                exact List.prefix_cons_inj _ |>.mpr p1
              · rw [b2 m' k]; simp only [afterHead]; intro h
                obtain ⟨q1, q2⟩ := p2 h
                exact ⟨q1, by rw [q2]⟩
            | emit _ _ => cases hr
            | halt _ => cases hr
          | halt e =>
            cases hd2 with
            | halt e' =>
              simp only [HeadRel] at hr
              subst hr
              refine ⟨j2' + 1, ?_, ?_⟩
              · have := b2 0 k; simp at this; rw [this]; simp [afterHead]
              · have := b2 0 k; simp at this; rw [this]; simp [afterHead]
            | emit _ _ => cases hr
            | test _ _ _ => cases hr

theorem HeadRel.swap {σ₁ σ₂ : Type} {S : σ₁ → σ₂ → Prop} {h₁ : Head σ₁ ε} {h₂ : Head σ₂ ε} (h : HeadRel S h₁ h₂) :
    HeadRel (fun y x => S x y) h₂ h₁ := by
  cases h₁ <;> cases h₂ <;> simp only [HeadRel] at h ⊢
  · exact ⟨h.1.symm, h.2⟩
  · exact ⟨h.1.symm, h.2.1, h.2.2⟩
  · exact h.symm

theorem E.swap : ∀ (m : Nat) (a : L₁.σ) (b : L₂.σ), E L₁ L₂ m a b → E L₂ L₁ m b a := by
  intro m
  induction m with
  | zero => intro a b _; trivial
  | succ m ih =>
    intro a b h j
    have hj := h j
    refine ⟨fun h₂ hs => ?_, fun h₁ hs => ?_⟩
    · obtain ⟨j₁, h₁, e, r⟩ := hj.2 h₂ hs
      exact ⟨j₁, h₁, e, (r.swap).mono (fun y x hxy => ih x y hxy)⟩
    · obtain ⟨j₂, h₂, e, r⟩ := hj.1 h₁ hs
      exact ⟨j₂, h₂, e, (r.swap).mono (fun y x hxy => ih x y hxy)⟩

/-- **Agreement for every number of observable steps is behavioural equality.** -/
theorem E_sound {a : L₁.σ} {b : L₂.σ} (h : ∀ m, E L₁ L₂ m a b) : Equivalent L₁ L₂ a b :=
  ⟨fun ω n k => E_sim n a b (h n) ω k, fun ω n k => E_sim n b a (E.swap n a b (h n)) ω k⟩

end ESV.Beh
