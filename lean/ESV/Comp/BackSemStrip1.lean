import ESV.Comp.BackSemFin2
/-
Back-end correctness, first pass (strip_last_label), part 1: one round of the pass (one trailing label of one routine)
as a decision list; the flags `prevCtx` / `op_before_ends_control_flow` at every position.
-/
namespace ESV.Comp
open ESV ESV.Beh

/-- the dummy end op a jump to the stripped label becomes -/
def dummyAt (root : Op) : LItem := .op ⟨root.offset, Gen.op_dummy_end, []⟩

/-- (`prevCtx`, `op_before_ends_control_flow`) after the item `x` -/
def nextFlags (all : List Nat) (lbl : Nat) (pc b : Bool) : LItem → Bool × Bool
  | .ljump root l =>
    if l == some lbl then (if b then (false, b) else (false, false))
    else (false, if pc then false else endsName (.ljump root l))
  | .label id _ => (false, if jumpedTo all id then false else b)
  | .op o => (isCtxItem (.op o), if pc then false else endsName (.op o))

/-- what becomes of the item `x` -/
def itemDec (lbl : Nat) (b : Bool) : LItem → Option LItem
  | .ljump root l => if l == some lbl then (if b then none else some (dummyAt root)) else some (.ljump root l)
  | x => some x

def scanDec (all : List Nat) (lbl : Nat) : Bool → Bool → List LItem → List Dec
  | _, _, [] => []
  | pc, b, x :: r => (x, itemDec lbl b x) :: scanDec all lbl (nextFlags all lbl pc b x).1 (nextFlags all lbl pc b x).2 r

theorem scanDec_old (all : List Nat) (lbl : Nat) (l : List LItem) : ∀ pc b, (scanDec all lbl pc b l).map (·.1) = l := by
  induction l with
  | nil => intro pc b; rfl
  | cons x r ih => intro pc b; simp [scanDec, ih]

theorem scanDec_new (all : List Nat) (lbl : Nat) (l : List LItem) : ∀ pc b,
    (scanDec all lbl pc b l).filterMap (·.2) = stripScan all lbl pc b l := by
  induction l with
  | nil => intro pc b; rfl
  | cons x r ih =>
    intro pc b
    cases x with
    | label id nm => simp [scanDec, stripScan, itemDec, nextFlags, ih]
    | op o => simp [scanDec, stripScan, itemDec, nextFlags, ih]
    | ljump root l =>
      simp only [scanDec, stripScan, itemDec, nextFlags]
      by_cases h1 : (l == some lbl) = true
      · cases b <;> simp [h1, ih, dummyAt]
      · simp [h1, ih]

/-- the flags before item `i` -/
def flagsAt (all : List Nat) (lbl : Nat) : Bool → Bool → List LItem → Nat → Bool × Bool
  | pc, b, [], _ => (pc, b)
  | pc, b, _ :: _, 0 => (pc, b)
  | pc, b, x :: r, i + 1 => flagsAt all lbl (nextFlags all lbl pc b x).1 (nextFlags all lbl pc b x).2 r i

theorem scanDec_get (all : List Nat) (lbl : Nat) (l : List LItem) : ∀ pc b (i : Nat) (x : LItem), l[i]? = some x →
    (scanDec all lbl pc b l)[i]? = some (x, itemDec lbl (flagsAt all lbl pc b l i).2 x) := by
  induction l with
  | nil => intro pc b i x h; simp at h
  | cons y r ih =>
    intro pc b i x h
    cases i with
    | zero => simp at h; subst h; simp [scanDec, flagsAt]
    | succ i => simp at h; simpa [scanDec, flagsAt] using ih _ _ i x h

theorem flagsAt_succ (all : List Nat) (lbl : Nat) (l : List LItem) : ∀ pc b (i : Nat) (x : LItem), l[i]? = some x →
    flagsAt all lbl pc b l (i + 1) =
      nextFlags all lbl (flagsAt all lbl pc b l i).1 (flagsAt all lbl pc b l i).2 x := by
  induction l with
  | nil => intro pc b i x h; simp at h
  | cons y r ih =>
    intro pc b i x h
    cases i with
    | zero =>
      simp at h; subst h
      cases r <;> simp [flagsAt]
    | succ i => simp at h; simpa [flagsAt] using ih _ _ i x h

theorem flagsAt_zero (all : List Nat) (lbl : Nat) (l : List LItem) (pc b : Bool) : flagsAt all lbl pc b l 0 = (pc, b) := by
  cases l <;> rfl

/-- `prevCtx` is "the item before is a context op" -/
theorem flagsAt_pc_succ (all : List Nat) (lbl : Nat) (l : List LItem) (pc b : Bool) (j : Nat) (y : LItem) (hy : l[j]? = some y) :
    (flagsAt all lbl pc b l (j + 1)).1 = isCtxL y := by
  rw [flagsAt_succ all lbl l pc b j y hy]
  cases y with
  | label id nm => simp [nextFlags, isCtxL]
  | op o =>
    simp only [nextFlags, isCtxItem, isCtxL, isCtx]
    rw [ESV.TableTie.opsCtx_eq]
  | ljump root t =>
    simp only [nextFlags, isCtxL]
    split
    · split <;> rfl
    · rfl

theorem scanDec_length (all : List Nat) (lbl : Nat) (l : List LItem) (pc b : Bool) : (scanDec all lbl pc b l).length = l.length := by
  have := congrArg List.length (scanDec_old all lbl l pc b)
  simpa using this

theorem scanDec_mem (all : List Nat) (lbl : Nat) (l : List LItem) : ∀ pc b x d, (x, d) ∈ scanDec all lbl pc b l →
    d = some x ∨ ∃ root, x = .ljump root (some lbl) ∧ (d = none ∨ d = some (dummyAt root)) := by
  induction l with
  | nil => intro pc b x d h; simp [scanDec] at h
  | cons y r ih =>
    intro pc b x d h
    simp only [scanDec, List.mem_cons, Prod.mk.injEq] at h
    rcases h with ⟨rfl, rfl⟩ | h
    · cases x with
      | label id nm => left; rfl
      | op o => left; rfl
      | ljump root l =>
        simp only [itemDec]
        by_cases h1 : (l == some lbl) = true
        · right
          have : l = some lbl := by simpa using h1
          subst this
          refine ⟨root, rfl, ?_⟩
          cases b <;> simp
        · left; simp [h1]
    · exact ih _ _ x d h

/-- decisions that keep everything -/
def idDec (its : List LItem) : List Dec := its.map fun x => (x, some x)

theorem idDec_old (its : List LItem) : (idDec its).map (·.1) = its := by
  induction its with
  | nil => rfl
  | cons x r ih => simpa [idDec] using ih
theorem idDec_new (its : List LItem) : (idDec its).filterMap (·.2) = its := by
  induction its with
  | nil => rfl
  | cons x r ih => simpa [idDec] using ih
theorem idDec_mem (its : List LItem) (x : LItem) (d : Option LItem) (h : (x, d) ∈ idDec its) : d = some x := by
  simp only [idDec, List.mem_map, Prod.mk.injEq] at h
  obtain ⟨y, _, rfl, rfl⟩ := h; rfl

/-- the decisions of one round: routine `A.length` = `body ++ [label lbl]` -/
def roundDec (all : List Nat) (lbl : Nat) (nm : Bool) (A : List (List LItem)) (body : List LItem) (B : List (List LItem)) :
    List (List Dec) :=
  A.map idDec ++ (scanDec all lbl false false body ++ [(.label lbl nm, none)]) :: B.map idDec

theorem map_idDec_old (A : List (List LItem)) : (A.map idDec).map (fun dl => dl.map (·.1)) = A := by
  induction A with
  | nil => rfl
  | cons a r ih => simp [idDec_old, ih]

theorem map_idDec_new (A : List (List LItem)) : (A.map idDec).map (fun dl => dl.filterMap (·.2)) = A := by
  induction A with
  | nil => rfl
  | cons a r ih => simp [idDec_new, ih]

theorem round_old (all : List Nat) (lbl : Nat) (nm : Bool) (A : List (List LItem)) (body : List LItem) (B : List (List LItem)) :
    oldOf (roundDec all lbl nm A body B) = A ++ (body ++ [.label lbl nm]) :: B := by
  simp only [oldOf, roundDec, List.map_append, List.map_cons, map_idDec_old, scanDec_old]
  rfl

theorem round_new (all : List Nat) (lbl : Nat) (nm : Bool) (A : List (List LItem)) (body : List LItem) (B : List (List LItem)) :
    newOf (roundDec all lbl nm A body B) = A ++ stripScan all lbl false false body :: B := by
  simp only [newOf, roundDec, List.map_append, List.map_cons, map_idDec_new, List.filterMap_append, scanDec_new]
  simp

end ESV.Comp
