import ESV.Comp.CgBase
/-
`codegen_correct` beyond straight-line code: the correspondence statement for a collected piece (`PieceOK`), the
two-level agreement `R2`, plain operations, operations under a context, sequences.
-/
namespace ESV.Comp
open ESV ESV.Beh

/-- the two final objects: the labelled program of the front end and the node table of the source semantics -/
structure Cx where
  rs : List (List LItem)
  N : List Src.Node
  hlab : (labelIds rs.flatten).Nodup
  /-- the copy under which the collected items stand in `rs` (the identity for the routines; inside a macro expansion: private
  labels, substituted parameters, `Return` as a jump to the end label) -/
  cp : Copy := {}
  /-- the label zone of the node table: the nodes `allocLabels` made have indices below `Z` -/
  Z : Nat → Prop := fun _ => False
  /-- the label table of the front end at the end: user label name ↦ label number -/
  named : List (String × Nat) := []
  /-- the user labels defined somewhere in the program -/
  defs : List String := []
  /-- the macros of the source program -/
  sm : List Src.Macro := []
  /-- the compiled macros visible to the statements being collected -/
  cm : Macros := []

/-- the environments of the translation: no macro substitution, no macro to return from, label nodes in the label zone -/
structure EnvOK (cx : Cx) (env : Src.Env) : Prop where
  /-- the parameters as copied are the parameters as substituted by the environment -/
  ev : ∀ (n : String) (ps : List ESV.Param), (⟨n, convParams (ps.map cx.cp.sub)⟩ : Ev) = Src.substEv env.subst ⟨n, convParams ps⟩
  /-- `return` leaves a macro exactly inside an expansion -/
  ret : env.ret.isSome = cx.cp.ret.isSome
  dense : ∀ n i, env.labels.lookup n = some i → cx.Z i

theorem substEv_nil' (e : Ev) : Src.substEv [] e = e := by
  obtain ⟨n, ps⟩ := e
  simp only [Src.substEv]
  congr 1
  induction ps with
  | nil => rfl
  | cons p r ih =>
    simp only [List.map_cons, ih]
    congr 1
    cases p <;> rfl

theorem envOK_empty (cx : Cx) (hcp : cx.cp = {}) : EnvOK cx {} :=
  ⟨fun n ps => by (rw [hcp, substEv_nil']; try (show (⟨n, convParams (ps.map id)⟩ : Ev) = _; rw [List.map_id])), by rw [hcp], fun n i h => by cases h⟩

theorem EnvOK.retNone {cx : Cx} {env : Src.Env} (h : EnvOK cx env) (hr : env.ret = none) : cx.cp.ret = none := by
  have := h.ret
  rw [hr] at this
  cases hc : cx.cp.ret with
  | none => rfl
  | some e => rw [hc] at this; cases this

theorem EnvOK.retSome {cx : Cx} {env : Src.Env} (h : EnvOK cx env) {kr : Nat} (hr : env.ret = some kr) : ∃ e, cx.cp.ret = some e := by
  have := h.ret
  rw [hr] at this
  cases hc : cx.cp.ret with
  | none => rw [hc] at this; cases this
  | some e => exact ⟨e, rfl⟩

abbrev EE (cx : Cx) (m : Nat) (p : LPos) (n : Nat) : Prop := E (labLTS cx.rs) (nodeLTS cx.N) m p n
abbrev GG (cx : Cx) (j m : Nat) (p : LPos) (n : Nat) : Prop := G (labLTS cx.rs) (nodeLTS cx.N) j (E (labLTS cx.rs) (nodeLTS cx.N) m) p n

/-- agreement for `m` observable steps, and one layer more with silent searches bounded by `j` -/
def R2 (cx : Cx) (m j : Nat) (p : LPos) (n : Nat) : Prop := EE cx m p n ∧ GG cx j m p n

/-- the label table only gets new entries -/
def NamedLe (s s' : St) : Prop := ∀ n id, s.named.lookup n = some id → s'.named.lookup n = some id

theorem NamedLe.refl (s : St) : NamedLe s s := fun _ _ h => h
theorem NamedLe.trans {a b c : St} (h1 : NamedLe a b) (h2 : NamedLe b c) : NamedLe a c := fun n id h => h2 n id (h1 n id h)

/-- the entries of a state's label table are entries of the final label table -/
def NamedIn (cx : Cx) (s : St) : Prop := ∀ n id, s.named.lookup n = some id → cx.named.lookup n = some id

theorem NamedIn.le {cx : Cx} {s s' : St} (h : NamedIn cx s') (hle : NamedLe s s') : NamedIn cx s := fun n id hn => h n id (hle n id hn)

/-- the loop and case stacks are as before, the label table only has new entries -/
structure SameStk (s s' : St) : Prop where
  loops : s'.loops = s.loops
  cases : s'.cases = s.cases
  named : NamedLe s s'

theorem SameStk.refl (s : St) : SameStk s s := ⟨rfl, rfl, NamedLe.refl s⟩
theorem SameStk.trans {a b c : St} (h1 : SameStk a b) (h2 : SameStk b c) : SameStk a c :=
  ⟨h2.1.trans h1.1, h2.2.trans h1.2, h1.3.trans h2.3⟩
theorem sameStk_tickedOp (s : St) (n : Nat) : SameStk s (s.tickedOp n) := ⟨rfl, rfl, NamedLe.refl s⟩
theorem sameStk_tickedLbl (s : St) (n : Nat) : SameStk s (s.tickedLbl n) := ⟨rfl, rfl, NamedLe.refl s⟩

theorem R2.down {cx : Cx} {m j m' : Nat} (j' : Nat) {p : LPos} {n : Nat} (h : R2 cx m j p n) (hlt : m' < m) : R2 cx m' j' p n := by
  have h1 : EE cx (m' + 1) p n := E.le (by omega) h.1
  exact ⟨E.mono m' h1, h1 j'⟩

theorem R2.silL {cx : Cx} {m j : Nat} {p p' : LPos} {n : Nat} (hs : (labLTS cx.rs).step p = .silent p') (h : R2 cx m j p' n) :
    R2 cx m j p n := ⟨E.silL hs h.1, G.silL hs h.2⟩

theorem R2.silR {cx : Cx} {m j : Nat} {p : LPos} {n n' : Nat} (hs : (nodeLTS cx.N).step n = .silent n') (h : R2 cx m j p n') :
    R2 cx m j p n := ⟨E.silR hs h.1, G.silR hs h.2⟩

theorem R2.emit {cx : Cx} {m j : Nat} {p p' : LPos} {n n' : Nat} {e : Ev} (hp : (labLTS cx.rs).step p = .emit e p')
    (hn : (nodeLTS cx.N).step n = .emit e n') (h : EE cx m p' n') : R2 cx m j p n := by
  refine ⟨?_, G.emit hp hn h⟩
  cases m with
  | zero => trivial
  | succ m => exact fun j' => G.emit hp hn (E.mono m h)

theorem R2.test {cx : Cx} {m j : Nat} {p y no : LPos} {n y' no' : Nat} {e : Ev} (hp : (labLTS cx.rs).step p = .test e y no)
    (hn : (nodeLTS cx.N).step n = .test e y' no') (hy : EE cx m y y') (hno : EE cx m no no') : R2 cx m j p n := by
  refine ⟨?_, G.test hp hn hy hno⟩
  cases m with
  | zero => trivial
  | succ m => exact fun j' => G.test hp hn (E.mono m hy) (E.mono m hno)

theorem R2.halt {cx : Cx} {m j : Nat} {p : LPos} {n : Nat} {e : Ev} (hp : (labLTS cx.rs).step p = .halt e)
    (hn : (nodeLTS cx.N).step n = .halt e) : R2 cx m j p n := by
  refine ⟨?_, G.halt hp hn⟩
  cases m with
  | zero => trivial
  | succ m => exact fun j' => G.halt hp hn

theorem R2.monoJ {cx : Cx} {m j j' : Nat} {p : LPos} {n : Nat} (h : R2 cx m j p n) (hle : j' ≤ j) : R2 cx m j' p n :=
  ⟨h.1, G.monoJ hle h.2⟩

/-- agreement one level down with every search bound is agreement at this level -/
theorem EE_of_lower {cx : Cx} {m : Nat} {p : LPos} {n : Nat} (h : ∀ m' j', m' < m → R2 cx m' j' p n) : EE cx m p n := by
  cases m with
  | zero => trivial
  | succ m => exact fun j => (h m j (Nat.lt_succ_self m)).2

theorem GG_zero (cx : Cx) (m : Nat) (p : LPos) (n : Nat) : GG cx 0 m p n :=
  ⟨fun h hs => by simp [settle] at hs, fun h hs => by simp [settle] at hs⟩

/-- the induction for a loop head: agreement at `(m, j)` may use agreement at every lower `m` and, at the same `m`, at
every lower search bound -/
theorem loop_ind {cx : Cx} {P : LPos} {h : Nat} (Hyp : Nat → Nat → Prop)
    (hdown : ∀ m j m' j', Hyp m j → m' < m → Hyp m' j') (hmono : ∀ m j j', Hyp m j → j' ≤ j → Hyp m j')
    (step : ∀ m j, Hyp m j → (∀ m' j', m' < m → R2 cx m' j' P h) → (∀ j', j' < j → R2 cx m j' P h) → R2 cx m j P h) :
    ∀ m j, Hyp m j → R2 cx m j P h := by
  intro m
  induction m using Nat.strongRecOn with
  | ind m ih =>
    intro j
    induction j using Nat.strongRecOn with
    | ind j ihj =>
      intro hyp
      exact step m j hyp (fun m' j' hlt => ih m' hlt j' (hdown m j m' j' hyp hlt))
        (fun j' hlt => ihj j' hlt (hmono m j j' hyp (Nat.le_of_lt hlt)))

/-! ### exits: the labels on the loop / case stacks against the nodes `continue`, `break_loop`, `break` go to -/

structure ExitsOK (cx : Cx) (m j : Nat) (s : St) (env : Src.Env) : Prop where
  loop : ∀ cl bl rest, s.loops = (cl, bl) :: rest → ∃ kc kb, env.cont = some kc ∧ env.brkLoop = some kb ∧
    R2 cx m j (target cx.rs (cx.cp.σ cl)) kc ∧ R2 cx m j (target cx.rs (cx.cp.σ bl)) kb
  case : ∀ e rest, s.cases = e :: rest → ∃ kb, env.brk = some kb ∧ R2 cx m j (target cx.rs (cx.cp.σ e)) kb
  /-- a user label of the program and its node -/
  labs : ∀ n id, n ∈ cx.defs → cx.named.lookup n = some id → ∃ i, env.labels.lookup n = some i ∧ R2 cx m j (target cx.rs (cx.cp.σ id)) i
  /-- inside a macro expansion: the end label of the expansion and the node behind the macro call -/
  ret : ∀ kr e, env.ret = some kr → cx.cp.ret = some e → R2 cx m j (target cx.rs e) kr

theorem ExitsOK.down {cx : Cx} {m j m' : Nat} (j' : Nat) {s : St} {env : Src.Env} (h : ExitsOK cx m j s env) (hlt : m' < m) :
    ExitsOK cx m' j' s env :=
  ⟨fun cl bl rest hs => by
    obtain ⟨kc, kb, a, b, c, d⟩ := h.loop cl bl rest hs
    exact ⟨kc, kb, a, b, c.down j' hlt, d.down j' hlt⟩,
   fun e rest hs => by
    obtain ⟨kb, a, b⟩ := h.case e rest hs
    exact ⟨kb, a, b.down j' hlt⟩,
   fun n id hn hid => by
    obtain ⟨i, a, b⟩ := h.labs n id hn hid
    exact ⟨i, a, b.down j' hlt⟩,
   fun kr e h1 h2 => (h.ret kr e h1 h2).down j' hlt⟩

theorem ExitsOK.monoJ {cx : Cx} {m j j' : Nat} {s : St} {env : Src.Env} (h : ExitsOK cx m j s env) (hle : j' ≤ j) :
    ExitsOK cx m j' s env :=
  ⟨fun cl bl rest hs => by
    obtain ⟨kc, kb, a, b, c, d⟩ := h.loop cl bl rest hs
    exact ⟨kc, kb, a, b, c.monoJ hle, d.monoJ hle⟩,
   fun e rest hs => by
    obtain ⟨kb, a, b⟩ := h.case e rest hs
    exact ⟨kb, a, b.monoJ hle⟩,
   fun n id hn hid => by
    obtain ⟨i, a, b⟩ := h.labs n id hn hid
    exact ⟨i, a, b.monoJ hle⟩,
   fun kr e h1 h2 => (h.ret kr e h1 h2).monoJ hle⟩

theorem ExitsOK.same {cx : Cx} {m j : Nat} {s s1 : St} {env : Src.Env} (h : ExitsOK cx m j s env) (hl : s1.loops = s.loops)
    (hc : s1.cases = s.cases) : ExitsOK cx m j s1 env :=
  ⟨fun cl bl rest hs => h.loop cl bl rest (by rw [← hl]; exact hs), fun e rest hs => h.case e rest (by rw [← hc]; exact hs), h.labs, h.ret⟩

/-! ### the statement about a collected piece -/

/-! ### the nodes of user labels -/

/-- the label nodes the translation from `b` to `b'` set: each belongs to a label item of the program, and behind that item control
is at the continuation of the label statement (`kn`: what the node was set to) -/
def LabExport (cx : Cx) (env : Src.Env) (m j : Nat) (b b' : Src.B) : Prop :=
  ∀ i kn, i < (tbl b).length → (tbl b')[i]? = some (.silent kn) → (tbl b')[i]? ≠ (tbl b)[i]? →
    ∃ n id P nm, env.labels.lookup n = some i ∧ cx.named.lookup n = some id ∧ ItemC cx.cp cx.rs P (.label id nm) ∧ R2 cx m j P.next kn

/-- the export of a part of the translation, on a shorter table that agrees with it -/
theorem LabExport.mono {cx : Cx} {env : Src.Env} {m j : Nat} {b b' b1 b1' : Src.B} (h : LabExport cx env m j b1 b1')
    (hlen : (tbl b).length ≤ (tbl b1).length) (hb : ∀ i, i < (tbl b).length → (tbl b1)[i]? = (tbl b)[i]?)
    (hb' : ∀ i, i < (tbl b).length → (tbl b')[i]? = (tbl b1')[i]?) : LabExport cx env m j b b' := by
  intro i kn hi h1 h2
  exact h i kn (by omega) (by rw [← hb' i hi]; exact h1) (by rw [← hb' i hi, hb i hi]; exact h2)

theorem LabExport.same {cx : Cx} {env : Src.Env} {m j : Nat} {b b' : Src.B} (h : ∀ i, i < (tbl b).length → (tbl b')[i]? = (tbl b)[i]?) :
    LabExport cx env m j b b' := fun i _ hi _ h2 => absurd (h i hi) h2

theorem LabExport.comp {cx : Cx} {env : Src.Env} {m j : Nat} {b b1 b' : Src.B} (hlen : (tbl b).length ≤ (tbl b1).length)
    (h1 : LabExport cx env m j b b1) (h2 : LabExport cx env m j b1 b') : LabExport cx env m j b b' := by
  intro i kn hi e1 e2
  by_cases hc : (tbl b')[i]? = (tbl b1)[i]?
  · exact h1 i kn hi (by rw [← hc]; exact e1) (by rw [← hc]; exact e2)
  · exact h2 i kn (by omega) e1 hc

/-- only pushes -/
def Pushes (b b' : Src.B) : Prop := ∃ extra, tbl b' = tbl b ++ extra

theorem Pushes.refl (b : Src.B) : Pushes b b := ⟨[], by simp⟩
theorem Pushes.trans {a b c : Src.B} (h1 : Pushes a b) (h2 : Pushes b c) : Pushes a c := by
  obtain ⟨x, hx⟩ := h1
  obtain ⟨y, hy⟩ := h2
  exact ⟨x ++ y, by rw [hy, hx, List.append_assoc]⟩
theorem Pushes.push (b : Src.B) (n : Src.Node) : Pushes b (b.push n).1 := ⟨[n], (tbl_push b n).1⟩
theorem Pushes.grow {Z : Nat → Prop} {b b' : Src.B} (h : Pushes b b') : Grow Z b b' := by
  obtain ⟨x, hx⟩ := h; exact Grow.of_append hx
theorem Pushes.same {b b' : Src.B} (h : Pushes b b') {i : Nat} (hi : i < (tbl b).length) : (tbl b')[i]? = (tbl b)[i]? := by
  obtain ⟨x, hx⟩ := h; rw [hx, List.getElem?_append_left hi]
theorem Pushes.len {b b' : Src.B} (h : Pushes b b') : (tbl b).length ≤ (tbl b').length := by
  obtain ⟨x, hx⟩ := h; rw [hx]; simp

/-- can control run past the end of the piece (`_process_block` asks the same before it appends the end jump) -/
abbrev falls (items : List LItem) : Bool := needsEndJump items

/-- no label jump without label is left (an if-block patches the end jumps of its blocks) -/
def NoNone (items : List LItem) : Prop := ∀ x ∈ items, ∀ root, x ≠ LItem.ljump root none

/-- `items` was collected while the state went from `s` to `s'`; `trf k b` is what the source semantics builds for the same
statements with continuation `k` onto the table `b`.  Wherever `items` is placed in the final program and the final node
table agrees with what `trf` built, the entry of the piece and the entry node agree, if their continuations and exits do. -/
structure PieceOK (cx : Cx) (items : List LItem) (s s' : St) (trf : Nat → Src.B → Src.B × Nat) (env : Src.Env) : Prop where
  loops : s'.loops = s.loops
  cases : s'.cases = s.cases
  named : NamedLe s s'
  last : lastNotCtx items = true
  nonone : NoNone items
  /-- an empty piece stands for nothing -/
  empty : items = [] → ∀ k b, trf k b = (b, k)
  /-- a piece that is one `Jump` (`_process_block` may fold it into the header jumps): the statement goes to an exit -/
  lone : ∀ l, loneJump items = some (some l) → ∀ m j, ExitsOK cx m j s env → NamedIn cx s' → ∃ n, (∀ k b, trf k b = (b, n)) ∧
    R2 cx m j (target cx.rs (cx.cp.σ l)) n
  grow : ∀ k b, Grow cx.Z b (trf k b).1
  /-- entry position and entry node agree; and every label node the translation set belongs to a label item, behind which
  control is at the continuation of the label statement -/
  full : ∀ r i0, Placed cx.cp cx.rs r i0 items → afterCtxL cx.rs ⟨r, i0⟩ = false → ∀ k b, AgreeOn cx.N cx.Z b (trf k b).1 →
    ∀ m j, ExitsOK cx m j s env → NamedIn cx s' → (falls items = true → R2 cx m j ⟨r, i0 + items.length⟩ k) →
      R2 cx m j ⟨r, i0⟩ (trf k b).2 ∧ LabExport cx env m j b (trf k b).1

theorem PieceOK.stk {cx : Cx} {items : List LItem} {s s' : St} {trf : Nat → Src.B → Src.B × Nat} {env : Src.Env}
    (h : PieceOK cx items s s' trf env) : SameStk s s' := ⟨h.loops, h.cases, h.named⟩

theorem PieceOK.corr {cx : Cx} {items : List LItem} {s s' : St} {trf : Nat → Src.B → Src.B × Nat} {env : Src.Env}
    (h : PieceOK cx items s s' trf env) (r i0 : Nat) (hp : Placed cx.cp cx.rs r i0 items) (hpre : afterCtxL cx.rs ⟨r, i0⟩ = false) (k : Nat) (b : Src.B)
    (hag : AgreeOn cx.N cx.Z b (trf k b).1) (m j : Nat) (hex : ExitsOK cx m j s env) (hin : NamedIn cx s')
    (hcont : falls items = true → R2 cx m j ⟨r, i0 + items.length⟩ k) : R2 cx m j ⟨r, i0⟩ (trf k b).2 :=
  (h.full r i0 hp hpre k b hag m j hex hin hcont).1

theorem PieceOK.labs {cx : Cx} {items : List LItem} {s s' : St} {trf : Nat → Src.B → Src.B × Nat} {env : Src.Env}
    (h : PieceOK cx items s s' trf env) (r i0 : Nat) (hp : Placed cx.cp cx.rs r i0 items) (hpre : afterCtxL cx.rs ⟨r, i0⟩ = false) (k : Nat) (b : Src.B)
    (hag : AgreeOn cx.N cx.Z b (trf k b).1) (m j : Nat) (hex : ExitsOK cx m j s env) (hin : NamedIn cx s')
    (hcont : falls items = true → R2 cx m j ⟨r, i0 + items.length⟩ k) : LabExport cx env m j b (trf k b).1 :=
  (h.full r i0 hp hpre k b hag m j hex hin hcont).2

/-! ### `falls` of a sequence -/

theorem ctx_item_tie (x : LItem) : isCtxItem x = isCtxL x := by
  cases x with
  | op o => simp only [isCtxItem, isCtxL, isCtx]; rw [ESV.TableTie.opsCtx_eq]
  | _ => rfl

theorem falls_append (a b : List LItem) (hb : b ≠ []) (ha : lastNotCtx a = true) : falls (a ++ b) = falls b := by
  simp only [falls, needsEndJump, List.reverse_append]
  cases hbr : b.reverse with
  | nil => simp at hbr; exact absurd hbr hb
  | cons x r =>
    cases r with
    | cons y r' => rfl
    | nil =>
      cases har : a.reverse with
      | nil => rfl
      | cons z r'' =>
        have hz : isCtxL z = false := by
          have : a.getLast? = some z := by
            rw [List.getLast?_eq_head?_reverse, har]; rfl
          simpa [lastNotCtx, this] using ha
        simp [Comp.endsFlow, ctx_item_tie, hz]

theorem afterCtxL_after {c : Copy} {rs : List (List LItem)} {r i0 : Nat} {a : List LItem} (hp : Placed c rs r i0 a) (hne : a ≠ [])
    (ha : lastNotCtx a = true) : afterCtxL rs ⟨r, i0 + a.length⟩ = false := by
  obtain ⟨x, hx⟩ : ∃ x, a.getLast? = some x := by
    cases h : a.getLast? with
    | none => exact absurd (List.getLast?_eq_none_iff.mp h) hne
    | some x => exact ⟨x, rfl⟩
  have hlen : 0 < a.length := List.length_pos_iff.mpr hne
  have hget : a[a.length - 1]? = some x := by rw [← List.getLast?_eq_getElem?]; exact hx
  have hit := hp.item hget
  have hc : isCtxL x = false := by simpa [lastNotCtx, hx] using ha
  have e : i0 + a.length = (i0 + (a.length - 1)) + 1 := by omega
  rw [e, afterCtxL_itemC hit]
  exact hc

theorem lastNotCtx_append' (a b : List LItem) (ha : lastNotCtx a = true) (hb : lastNotCtx b = true) : lastNotCtx (a ++ b) = true :=
  lastNotCtx_append a b hb ha

end ESV.Comp
