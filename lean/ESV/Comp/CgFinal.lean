import ESV.Comp.CgTop
import ESV.Comp.CgSrcM
/-
`codegen_correct` for the fragment `CgProg`: every routine of the source program (language semantics) and of the labelled
code the front end collects behave the same.  User labels: one induction over all labels of the program at once.
-/
namespace ESV.Comp
open ESV ESV.Beh

theorem dummy_facts : (isJump Gen.op_dummy_end || isTest Gen.op_dummy_end) = false ∧ Beh.endsFlow Gen.op_dummy_end = true ∧
    (⟨Gen.op_dummy_end, convParams []⟩ : Ev) = evReturn := by decide

theorem graph_step_eq (g : Src.Graph) : g.step = nodeStep g.nodes.toList := by
  funext i
  simp only [Src.Graph.step, nodeStep, Array.getElem?_toList]
  rfl

theorem equivalent_of_step_eq {σ : Type} {f f' : σ → Step σ Ev} (h : f = f') {L2 : LTS Ev} {a : σ} {b : L2.σ}
    (he : Equivalent (⟨σ, f'⟩ : LTS Ev) L2 a b) : Equivalent (⟨σ, f⟩ : LTS Ev) L2 a b := by
  subst h; exact he

/-- lexicographic induction on the number of observable steps and the silent search bound -/
theorem lex_ind (C : Nat → Nat → Prop) (step : ∀ m j, (∀ m' j', m' < m → C m' j') → (∀ j', j' < j → C m j') → C m j) : ∀ m j, C m j := by
  intro m
  induction m using Nat.strongRecOn with
  | ind m ih =>
    intro j
    induction j using Nat.strongRecOn with
    | ind j ihj => exact step m j (fun m' j' hlt => ih m' hlt j') (fun j' hlt => ihj j' hlt)

theorem target_of_item {rs : List (List LItem)} (hn : (labelIds rs.flatten).Nodup) {P : LPos} {l : Nat} {nm : Bool}
    (h : itemAt rs P = some (.label l nm)) : target rs l = P := by
  simp only [itemAt] at h
  cases hr : rs[P.rtn]? with
  | none => rw [hr] at h; cases h
  | some its =>
    rw [hr] at h
    have := findLabel_unique l nm rs 0 P.rtn its P.idx hn hr h
    simp [target, this]

theorem mem_allRoutineLabels {bodies : List Stmts} {body : Stmts} (hb : body ∈ bodies) {n : String} (hn : n ∈ dfStmts body) :
    n ∈ Src.allRoutineLabels (bodies.map fun b => (⟨some (toSrcStmts b)⟩ : Src.Routine)) := by
  simp only [Src.allRoutineLabels, List.mem_flatMap, List.mem_map]
  exact ⟨⟨some (toSrcStmts body)⟩, ⟨body, hb, rfl⟩, dfSStmts_sub _ n (dfs_sub body n hn)⟩

theorem getElem?_lt' {α : Type} {l : List α} {i : Nat} {x : α} (h : l[i]? = some x) : i < l.length := by
  rcases Nat.lt_or_ge i l.length with h' | h'
  · exact h'
  · rw [List.getElem?_eq_none h'] at h; cases h

/-- the core: the routines compiled with the macros `cm`, given that macro calls are pieces -/
theorem codegen_correct_core (lv : Nat) (p : Program) (cm : Macros) (t2 : Tables) (sF : St) (hlab : (labelIds t2.ops.flatten).Nodup)
    (hseq : seqFrom p.routines 0 = true) (hall : ∀ r ∈ p.routines, cgStmts lv r.body = true)
    (hml : ∀ r ∈ p.routines, ∀ n ∈ mlStmts r.body, n ∈ allDefs p)
    (hr : compileRoutines cm p.routines 0 ⟨[], [], []⟩ St.init = .ok (t2, sF))
    (hM : ∀ cx : Cx, cx.cm = cm → cx.sm = (toSrc p).macros → MacOK cx ((toSrc p).macros.length + 1)) (j : Nat) (r : Routine)
    (hj : p.routines[j]? = some r) :
    j < t2.ops.length ∧ ∃ e, (toSrc p).graph.entries[j]? = some (some e) ∧
      Equivalent (toSrc p).graph.lts (labLTS t2.ops) e (labEntry t2.ops j) := by
  -- the graph of the source program
  have hrt : (toSrc p).routines = (p.routines.map (·.body)).map fun b => (⟨some (toSrcStmts b)⟩ : Src.Routine) := by
    simp only [toSrc]
    rw [placeRoutines_seq p.routines 0 [] hseq rfl]
    simp
  let fuel : Nat := (toSrc p).macros.length + 1
  let b1 : Src.B := ⟨#[.halt evReturn]⟩
  have hg : (toSrc p).graph = ⟨(((p.routines.map (·.body)).map fun b => (⟨some (toSrcStmts b)⟩ : Src.Routine)).foldl
      (graphStep fuel (toSrc p).macros { labels := (Src.allocLabels b1 (Src.allRoutineLabels
        ((p.routines.map (·.body)).map fun b => (⟨some (toSrcStmts b)⟩ : Src.Routine)))).2 } 0)
        ((Src.allocLabels b1 (Src.allRoutineLabels ((p.routines.map (·.body)).map fun b => (⟨some (toSrcStmts b)⟩ : Src.Routine)))).1, [])).1.nodes,
      (((p.routines.map (·.body)).map fun b => (⟨some (toSrcStmts b)⟩ : Src.Routine)).foldl
      (graphStep fuel (toSrc p).macros { labels := (Src.allocLabels b1 (Src.allRoutineLabels
        ((p.routines.map (·.body)).map fun b => (⟨some (toSrcStmts b)⟩ : Src.Routine)))).2 } 0)
        ((Src.allocLabels b1 (Src.allRoutineLabels ((p.routines.map (·.body)).map fun b => (⟨some (toSrcStmts b)⟩ : Src.Routine)))).1, [])).2⟩ := by
    simp only [Src.Program.graph]
    rw [hrt]
    rfl
  obtain ⟨ainv, acov⟩ := allocLabels_spec b1 (Src.allRoutineLabels ((p.routines.map (·.body)).map fun b => (⟨some (toSrcStmts b)⟩ : Src.Routine)))
  generalize hAL : Src.allocLabels b1 (Src.allRoutineLabels ((p.routines.map (·.body)).map fun b => (⟨some (toSrcStmts b)⟩ : Src.Routine))) = AL
    at hg ainv acov
  have hb1 : (tbl b1).length = 1 := rfl
  let cx : Cx := { rs := t2.ops, N := (toSrc p).graph.nodes.toList, hlab := hlab, Z := fun i => 0 < i ∧ i < AL.2.length + 1, named := sF.named, defs := allDefs p, sm := (toSrc p).macros, cm := cm }
  have hZ : ∀ i, cx.Z i → i < (tbl AL.1).length := by
    intro i hi
    have hi' : 0 < i ∧ i < AL.2.length + 1 := hi
    rw [ainv.len, hb1]; omega
  have henv : EnvOK cx ({ labels := AL.2 } : Src.Env) := ⟨fun n ps => (envOK_empty cx rfl).ev n ps, rfl, fun n i h => by
    have := ainv.node n i h
    show 0 < i ∧ i < AL.2.length + 1
    rw [hb1] at this; omega⟩
  have hM0 : MacOK cx fuel := hM cx rfl rfl
  -- the front end's tables
  have hruns : ∀ (j' : Nat) (r' : Routine), p.routines[j']? = some r' → ∃ its lb s1 ops s2, t2.ops[j']? = some its ∧ s1.loops = [] ∧
      s1.cases = [] ∧ cStmts cm lb r'.body s1 = .ok (ops, s2) ∧ NamedLe s2 sF ∧
      (its = ops ∨ ∃ o, its = ops ++ [.op ⟨o, Gen.op_dummy_end, []⟩]) := by
    intro j' r' hj'
    have := (compileRoutines_cg cm p.routines 0 _ _ _ _ hseq rfl rfl (fun r hr lb s ops s2 h =>
      (cStmts_c cx fuel lv hM0 r.body lb (hall r hr) (hml r hr) _ henv s ops s2 h).stk) rfl rfl hr).2.2 j' r' hj'
    simpa using this
  -- every body's source translation only grows the table
  have hgrow : ∀ body ∈ p.routines.map (·.body), ∀ k b,
      Grow cx.Z b (Src.trStmts fuel (toSrc p).macros { labels := AL.2 } (toSrcStmts body) k b).1 :=
    fun body _ k b => (trStmts_good' cx.Z fuel (toSrc p).macros (toSrcStmts body) _ henv.dense k b).1
  obtain ⟨g1, _, paths⟩ := graph_fold fuel (toSrc p).macros { labels := AL.2 } 0 cx.Z (p.routines.map (·.body)) hgrow (AL.1, [])
  have hN : cx.N = tbl (((p.routines.map (·.body)).map fun b => (⟨some (toSrcStmts b)⟩ : Src.Routine)).foldl
      (graphStep fuel (toSrc p).macros { labels := AL.2 } 0) (AL.1, [])).1 := by
    show (toSrc p).graph.nodes.toList = _
    rw [hg]; rfl
  have hlenAL : 0 < (tbl AL.1).length := by have := ainv.pushes.len; omega
  have hN0 : cx.N[0]? = some (.halt evReturn) := by
    rw [hN, g1.get (i := 0) (fun hz => by have hz' : 0 < 0 ∧ 0 < AL.2.length + 1 := hz; omega) hlenAL, ainv.pushes.same (by rw [hb1]; omega)]
    rfl
  -- the claim about all user labels of the program
  let C : Nat → Nat → Prop := fun m jj => ∀ n id, n ∈ cx.defs → cx.named.lookup n = some id →
    ∃ i, AL.2.lookup n = some i ∧ R2 cx m jj (target cx.rs (cx.cp.σ id)) i
  -- one routine, given the claim at a level
  have routineAt : ∀ (j' : Nat) (r' : Routine), p.routines[j']? = some r' → ∀ (bj : Src.B),
      Grow cx.Z (Src.trStmts fuel (toSrc p).macros { labels := AL.2 } (toSrcStmts r'.body) 0 bj).1
        (((p.routines.map (·.body)).map fun b => (⟨some (toSrcStmts b)⟩ : Src.Routine)).foldl
          (graphStep fuel (toSrc p).macros { labels := AL.2 } 0) (AL.1, [])).1 →
      Grow cx.Z AL.1 bj → ∀ m jj, C m jj →
      R2 cx m jj ⟨j', 0⟩ (Src.trStmts fuel (toSrc p).macros { labels := AL.2 } (toSrcStmts r'.body) 0 bj).2 ∧
      LabExport cx { labels := AL.2 } m jj bj (Src.trStmts fuel (toSrc p).macros { labels := AL.2 } (toSrcStmts r'.body) 0 bj).1 := by
    intro j' r' hj' bj hfin hst m jj hC
    obtain ⟨its, lb, s1, ops, s2, hits, hl1, hc1, hrun, hn2, hshape⟩ := hruns j' r' hj'
    have hmem : r' ∈ p.routines := List.mem_of_getElem? hj'
    have piece := cStmts_c cx fuel lv hM0 r'.body lb (hall r' hmem) (hml r' hmem) _ henv _ _ _ hrun
    have hag : AgreeOn cx.N cx.Z bj (Src.trStmts fuel (toSrc p).macros { labels := AL.2 } (toSrcStmts r'.body) 0 bj).1 := by
      refine ⟨fun i hz => Nat.lt_of_lt_of_le (hZ i hz) hst.len, fun i h1 h2 => ?_⟩
      rw [hN]
      exact hfin.get (fun hz => by have := hZ i hz; have := hst.len; omega) h2
    have hplaced : Placed cx.cp cx.rs j' 0 ops := by
      refine Placed.of_exact ?_ piece.nonone
      rcases hshape with rfl | ⟨o, rfl⟩
      · exact ⟨[], [], by simpa using hits, rfl⟩
      · exact ⟨[], [.op ⟨o, Gen.op_dummy_end, []⟩], by simpa using hits, rfl⟩
    have hex : ExitsOK cx m jj s1 { labels := AL.2 } :=
      ⟨fun cl bl rest h => (by rw [hl1] at h; cases h), fun e rest h => (by rw [hc1] at h; cases h), hC, fun kr e h => by cases h⟩
    refine piece.full j' 0 hplaced rfl 0 bj hag m jj hex hn2 (fun _ => ?_)
    rcases hshape with rfl | ⟨o, rfl⟩
    · exact R2.halt (lab_end hits (by simp)) (nodeStep_of hN0)
    · have hit : ItemC cx.cp cx.rs ⟨j', 0 + ops.length⟩ (.op ⟨o, Gen.op_dummy_end, []⟩) :=
        ⟨_, cpRel_id _ (fun root e => by cases e), by show itemAt t2.ops _ = _; simp [itemAt, hits]⟩
      have hac : afterCtxL cx.rs ⟨j', 0 + ops.length⟩ = false := by
        by_cases hne : ops = []
        · subst hne; rfl
        · exact afterCtxL_after hplaced hne piece.last
      have hstep := lab_op hit dummy_facts.1 (.inr rfl)
      simp only [dummy_facts.2.1, hac, Bool.not_false, Bool.and_self, if_true, List.map_nil, dummy_facts.2.2] at hstep
      exact R2.halt hstep (nodeStep_of hN0)
  -- all labels, by induction on the level
  have hC : ∀ m jj, C m jj := by
    refine lex_ind C (fun m jj lower lowerJ n id hn hid => ?_)
    -- the node of the label
    obtain ⟨r0, hr0, hn0⟩ := List.mem_flatMap.mp hn
    have hcov := acov n (mem_allRoutineLabels (List.mem_map.mpr ⟨r0, hr0, rfl⟩) hn0)
    obtain ⟨i, hlk⟩ := Option.isSome_iff_exists.mp hcov
    obtain ⟨hi1, hi2, hph⟩ := ainv.node n i hlk
    have hiAL : i < (tbl AL.1).length := by rw [ainv.len]; exact hi2
    have hlow : ∀ m' j', m' < m → R2 cx m' j' (target cx.rs (cx.cp.σ id)) i := by
      intro m' j' hlt
      obtain ⟨i', h1, h2⟩ := lower m' j' hlt n id hn hid
      rw [hlk] at h1; cases h1; exact h2
    cases jj with
    | zero => exact ⟨i, hlk, EE_of_lower hlow, GG_zero cx m _ _⟩
    | succ jj =>
      -- the node is set in the final table
      obtain ⟨j0, hj0, hget0⟩ := List.getElem_of_mem hr0
      have hj0' : p.routines[j0]? = some r0 := by rw [List.getElem?_eq_getElem hj0, hget0]
      obtain ⟨bj0, _, hfin0, hst0⟩ := paths j0 r0.body (by simp [hj0'])
      obtain ⟨kn0, hk0⟩ := (trStmts_good' cx.Z fuel (toSrc p).macros (toSrcStmts r0.body) _ henv.dense 0 bj0).2 (fun i' hz' => Nat.lt_of_lt_of_le (hZ i' hz') hst0.len) n
        (dfs_sub r0.body n hn0) i hlk
      obtain ⟨kn, hkn⟩ := hfin0.keeps_silent hk0
      have hne : (tbl (((p.routines.map (·.body)).map fun b => (⟨some (toSrcStmts b)⟩ : Src.Routine)).foldl
          (graphStep fuel (toSrc p).macros { labels := AL.2 } 0) (AL.1, [])).1)[i]? ≠ (tbl AL.1)[i]? := by
        rw [hkn, hph]; simp [phNode]
      obtain ⟨j1, body1, bj1, hb1', hst1, hfin1, heq1, hne1⟩ :=
        graph_changer fuel (toSrc p).macros { labels := AL.2 } 0 cx.Z (p.routines.map (·.body)) hgrow (AL.1, []) i hiAL hne
      obtain ⟨r1, hr1, rfl⟩ : ∃ r1, p.routines[j1]? = some r1 ∧ r1.body = body1 := by
        simp only [List.getElem?_map, Option.map_eq_some_iff] at hb1'
        exact hb1'
      obtain ⟨_, hexp⟩ := routineAt j1 r1 hr1 bj1 hfin1 hst1 m jj (lowerJ jj (Nat.lt_succ_self jj))
      obtain ⟨n', id', P, nm, hl', hid', hitem, hR⟩ := hexp i kn (Nat.lt_of_lt_of_le hiAL hst1.len) (by rw [heq1]; exact hkn) hne1
      have hnn : n' = n := ainv.inj n' n i hl' hlk
      subst hnn
      have hidd : id' = id := by
        have : cx.named.lookup n' = some id := hid
        rw [hid'] at this; exact Option.some.inj this
      subst hidd
      have htg : target cx.rs (cx.cp.σ id') = P := by
        obtain ⟨x', ⟨nm', rfl⟩, hit'⟩ := hitem
        exact target_of_item hlab hit'
      have hNi : cx.N[i]? = some (.silent kn) := by rw [hN]; exact hkn
      refine ⟨i, hlk, EE_of_lower hlow, ?_⟩
      rw [htg]
      exact G.silB (lab_label hitem) (nodeStep_of hNi) hR.2
  -- the routine asked for
  obtain ⟨bj, hent, hfin, hst⟩ := paths j r.body (by simp [hj])
  refine ⟨by obtain ⟨its, _, _, _, _, hits, _⟩ := hruns j r hj; exact getElem?_lt' hits, (Src.trStmts fuel (toSrc p).macros { labels := AL.2 } (toSrcStmts r.body) 0 bj).2, ?_, ?_⟩
  · rw [hg]; simpa using hent
  have hall_m : ∀ m, EE cx m ⟨j, 0⟩ (Src.trStmts fuel (toSrc p).macros { labels := AL.2 } (toSrcStmts r.body) 0 bj).2 :=
    fun m => (routineAt j r hj bj hfin hst m 0 (hC m 0)).1.1
  have heq : Equivalent (labLTS t2.ops) (nodeLTS cx.N) ⟨j, 0⟩ (Src.trStmts fuel (toSrc p).macros { labels := AL.2 } (toSrcStmts r.body) 0 bj).2 :=
    E_sound hall_m
  exact equivalent_of_step_eq (graph_step_eq _) heq.symm

theorem codegen_correct_cg (lv : Nat) (p : Program) (t : Tables) (hp : CgProg lv p) (hf : frontend p = .ok t) (j : Nat) (r : Routine)
    (hj : p.routines[j]? = some r) :
    ∃ e, (toSrc p).graph.entries[j]? = some (some e) ∧
      Equivalent (toSrc p).graph.lts (labLTS t.ops) e (labEntry t.ops j) := by
  have hlab : (labelIds t.ops.flatten).Nodup := (frontend_wfl' p t (frontGuard_of_cg lv p hp) hf).2.1
  obtain ⟨hm, hseq, hall, hnd, hml⟩ := hp
  -- the run of the front end
  unfold frontend at hf
  rw [hm] at hf
  simp only [sortMacros, compileMacros] at hf
  have hpure : (pure ([] : Macros) : M Macros) St.init = .ok ([], St.init) := rfl
  rw [hpure] at hf
  simp only at hf
  cases hr : wrapAssert (compileRoutines [] p.routines 0 ⟨[], [], []⟩ St.init) with
  | error e => rw [hr] at hf; simp at hf
  | ok r2 =>
  obtain ⟨t2, sF⟩ := r2
  rw [hr] at hf
  simp only [Except.ok.injEq] at hf
  subst hf
  exact (codegen_correct_core lv p [] t2 sF hlab hseq hall hml (wrapAssert_ok hr) (fun cx h1 _ => macOK_nil cx _ h1) j r hj).2

end ESV.Comp
