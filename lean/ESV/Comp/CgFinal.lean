import ESV.Comp.CgTop
/-
`codegen_correct` for the fragment `CgProg`: every routine of the source program (language semantics) and of the labelled
code the front end collects behave the same.
-/
namespace ESV.Comp
open ESV ESV.Beh

theorem dummy_facts : (isJump Gen.op_dummy_end || isTest Gen.op_dummy_end) = false ∧ Beh.endsFlow Gen.op_dummy_end = true ∧
    (⟨Gen.op_dummy_end, convParams []⟩ : Ev) = evReturn := by decide

theorem graph_step_eq (g : Src.Graph) : g.step = nodeStep g.nodes.toList := by
  funext i
  simp only [Src.Graph.step, nodeStep, Array.getElem?_toList]
  rfl

theorem equivalent_of_step_eq {σ : Type} {f f' : σ → Step σ Ev} (h : f = f') {L2 : LTS Ev} {a : σ} {b : L2.σ}
    (he : Equivalent (⟨σ, f'⟩ : LTS Ev) L2 a b) : Equivalent (⟨σ, f⟩ : LTS Ev) L2 a b := by
  subst h; exact he

theorem codegen_correct_cg (lv : Nat) (p : Program) (t : Tables) (hp : CgProg lv p) (hf : frontend p = .ok t) (j : Nat) (r : Routine)
    (hj : p.routines[j]? = some r) :
    ∃ e, (toSrc p).graph.entries[j]? = some (some e) ∧
      Equivalent (toSrc p).graph.lts (labLTS t.ops) e (labEntry t.ops j) := by
  have hlab : (labelIds t.ops.flatten).Nodup := (frontend_wfl' p t (frontGuard_of_cg lv p hp) hf).2.1
  obtain ⟨hm, hseq, hall⟩ := hp
  let cx : Cx := { rs := t.ops, N := (toSrc p).graph.nodes.toList, hlab := hlab }
  let fuel : Nat := 1
  have hmac : (toSrc p).macros = [] := by simp [toSrc, hm]
  -- the front end's tables
  have hruns : ∀ (j' : Nat) (r' : Routine), p.routines[j']? = some r' → ∃ its lb s1 ops s2, t.ops[j']? = some its ∧ s1.loops = [] ∧
      s1.cases = [] ∧ cStmts [] lb r'.body s1 = .ok (ops, s2) ∧ (its = ops ∨ ∃ o, its = ops ++ [.op ⟨o, Gen.op_dummy_end, []⟩]) := by
    unfold frontend at hf
    rw [hm] at hf
    simp only [sortMacros, compileMacros] at hf
    have : (pure ([] : Macros) : M Macros) St.init = .ok ([], St.init) := rfl
    rw [this] at hf
    simp only at hf
    cases hr : wrapAssert (compileRoutines [] p.routines 0 ⟨[], [], []⟩ St.init) with
    | error e => rw [hr] at hf; simp at hf
    | ok r2 =>
      obtain ⟨t2, s2⟩ := r2
      rw [hr] at hf
      simp only [Except.ok.injEq] at hf
      subst hf
      intro j' r' hj'
      have := (compileRoutines_cg cx fuel lv p.routines 0 _ _ _ _ hseq rfl rfl hall rfl rfl (wrapAssert_ok hr)).2 j' r' hj'
      simpa using this
  -- every body's source translation only adds nodes
  have henv : EnvOK cx ({ labels := [] } : Src.Env) := ⟨rfl, rfl, fun n i h => by cases h⟩
  have hgrow : ∀ body ∈ p.routines.map (·.body), ∀ k b,
      Grow cx.Z b (Src.trStmts fuel [] { labels := [] } (toSrcStmts body) k b).1 := by
    intro body hb k b
    obtain ⟨r', hr', rfl⟩ := List.mem_map.mp hb
    obtain ⟨j', hj', hget⟩ := List.getElem_of_mem hr'
    obtain ⟨its, lb, s1, ops, s2, _, _, _, hrun, _⟩ := hruns j' r' (by rw [List.getElem?_eq_getElem hj', hget])
    exact (cStmts_c cx fuel lv r'.body lb (hall r' hr') _ henv _ _ _ hrun).grow k b
  -- the graph
  have hr : (toSrc p).routines = (p.routines.map (·.body)).map fun b => (⟨some (toSrcStmts b)⟩ : Src.Routine) := by
    simp only [toSrc]
    rw [placeRoutines_seq p.routines 0 [] hseq rfl]
    simp
  have hlabs : Src.allRoutineLabels (toSrc p).routines = [] := by
    rw [hr]
    simp only [Src.allRoutineLabels, List.flatMap_eq_nil_iff, List.mem_map]
    rintro x ⟨b, ⟨r', hrm, rfl⟩, rfl⟩
    exact (cg_stmts_facts lv r'.body (hall r' hrm)).labs
  let b1 : Src.B := ⟨#[.halt evReturn]⟩
  have hg : (toSrc p).graph = ⟨(((p.routines.map (·.body)).map fun b => (⟨some (toSrcStmts b)⟩ : Src.Routine)).foldl
      (graphStep fuel [] { labels := [] } 0) (b1, [])).1.nodes,
      (((p.routines.map (·.body)).map fun b => (⟨some (toSrcStmts b)⟩ : Src.Routine)).foldl
      (graphStep fuel [] { labels := [] } 0) (b1, [])).2⟩ := by
    simp only [Src.Program.graph, hlabs, Src.allocLabels, List.foldl_nil, Src.B.push]
    rw [hr, hmac]
    rfl
  obtain ⟨g1, _, paths⟩ := graph_fold fuel [] { labels := [] } 0 cx.Z (p.routines.map (·.body)) hgrow (b1, [])
  obtain ⟨bj, hent, hfin⟩ := paths j r.body (by simp [hj])
  obtain ⟨its, lb, s1, ops, s2, hits, hl1, hc1, hrun, hshape⟩ := hruns j r hj
  have hgr : cgStmts lv r.body = true := hall r (List.mem_of_getElem? hj)
  have piece := cStmts_c cx fuel lv r.body lb hgr _ henv _ _ _ hrun
  refine ⟨(Src.trStmts fuel [] { labels := [] } (toSrcStmts r.body) 0 bj).2, ?_, ?_⟩
  · rw [hg]; simpa using hent
  -- the node table
  have hN : cx.N = tbl (((p.routines.map (·.body)).map fun b => (⟨some (toSrcStmts b)⟩ : Src.Routine)).foldl
      (graphStep fuel [] { labels := [] } 0) (b1, [])).1 := by
    show (toSrc p).graph.nodes.toList = _
    rw [hg]; rfl
  have hN0 : cx.N[0]? = some (.halt evReturn) := by
    rw [hN]
    have := g1.get (i := 0) (Nat.zero_le _) (by simp [b1, tbl])
    rw [this]; rfl
  have hag : AgreeOn cx.N cx.Z bj (Src.trStmts fuel [] { labels := [] } (toSrcStmts r.body) 0 bj).1 := by
    refine ⟨Nat.zero_le _, fun i _ hi => ?_⟩
    rw [hN]
    exact hfin.get (Nat.zero_le _) hi
  have hplaced : Placed cx.rs j 0 ops := by
    rcases hshape with rfl | ⟨o, rfl⟩
    · exact ⟨[], [], by simpa using hits, rfl⟩
    · exact ⟨[], [.op ⟨o, Gen.op_dummy_end, []⟩], by simpa using hits, rfl⟩
  have hall_m : ∀ m, EE cx m ⟨j, 0⟩ (Src.trStmts fuel [] { labels := [] } (toSrcStmts r.body) 0 bj).2 := by
    intro m
    have hex : ExitsOK cx m 0 s1 { labels := [] } :=
      ⟨fun cl bl rest h => (by rw [hl1] at h; cases h), fun e rest h => (by rw [hc1] at h; cases h)⟩
    refine (piece.corr j 0 hplaced rfl 0 bj hag m 0 hex (fun _ => ?_)).1
    rcases hshape with rfl | ⟨o, rfl⟩
    · exact R2.halt (lab_end hits (by simp)) (nodeStep_of hN0)
    · have hit : itemAt cx.rs ⟨j, 0 + ops.length⟩ = some (.op ⟨o, Gen.op_dummy_end, []⟩) := by
        have hp' : Placed cx.rs j 0 (ops ++ [LItem.op ⟨o, Gen.op_dummy_end, []⟩]) := ⟨[], [], by simpa using hits, rfl⟩
        exact hp'.item (d := ops.length) (by simp)
      have hac : afterCtxL cx.rs ⟨j, 0 + ops.length⟩ = false := by
        by_cases hne : ops = []
        · subst hne; rfl
        · exact afterCtxL_after hplaced hne piece.last
      have hstep := lab_op hit dummy_facts.1
      simp only [dummy_facts.2.1, hac, Bool.not_false, Bool.and_self, if_true, dummy_facts.2.2] at hstep
      exact R2.halt hstep (nodeStep_of hN0)
  have heq : Equivalent (labLTS t.ops) (nodeLTS cx.N) ⟨j, 0⟩ (Src.trStmts fuel [] { labels := [] } (toSrcStmts r.body) 0 bj).2 :=
    E_sound hall_m
  exact equivalent_of_step_eq (graph_step_eq _) heq.symm

end ESV.Comp
