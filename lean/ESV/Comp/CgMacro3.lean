import ESV.Comp.CgMacro2
/-
`codegen_correct`, macros (M2, M3): a macro call is a piece.  The expansion is a copy of the blueprint, the blueprint is the
collected code of the macro's body; so the theorem about the body (`cStmts_c`, at the context of the expansion: composed copy,
label zone of the expansion, the labels of the body) gives the agreement of the expansion with the inlined body.  The labels of
the body are private to the expansion: their agreement is an induction of its own inside the piece.  Nested calls: the same
theorem one expansion deeper (`MacOK` for the macros compiled before, by induction on their number).
-/
namespace ESV.Comp
open ESV ESV.Beh

local macro "len_omega" : tactic =>
  `(tactic| ((try simp only [List.length_append, List.length_cons, List.length_nil]) <;> (try omega)))
local macro "lst" : tactic => `(tactic| ((try simp only [List.append_assoc, List.cons_append, List.nil_append]) <;> (try rfl)))

/-- the environment of a macro body: `return` leaves to `k`, the labels of the body only, the parameters substituted -/
def macEnv (env : Src.Env) (vars : List String) (args : List Beh.Param) (k : Nat) (labs : List (String × Nat)) : Src.Env :=
  { ret := some k, labels := labs, subst := vars.zip (args.map (Src.substParam env.subst)) ++ env.subst }

/-- the context of an expansion: the copy of the expansion under the copy around the call, the label nodes of the expansion, the
label table and the labels of the macro's body, the macros compiled before the macro -/
def macCx (cx : Cx) (c1 : Copy) (rest : Macros) (named : List (String × Nat)) (defs : List String) (labs : List (String × Nat)) : Cx :=
  { cx with cp := cx.cp.comp c1, Z := labZone labs, named := named, defs := defs, cm := rest }

/-- the language semantics of a macro call: the body inlined -/
theorem tr_macroCall (f : Nat) (sm : List Src.Macro) (env : Src.Env) (name : String) (args : List Beh.Param) (M : Src.Macro)
    (hfind : sm.find? (fun m => m.name == name) = some M) (hlen : ¬ args.length < M.vars.length) (k : Nat) (b : Src.B) :
    Src.tr (f + 1) sm env (.macroCall name args) k b =
      Src.trStmts f sm (macEnv env M.vars args k (Src.allocLabels b (Src.labelsOfStmts M.body)).2) M.body k
        (Src.allocLabels b (Src.labelsOfStmts M.body)).1 := by
  rw [Src.tr]
  simp only [hfind, if_neg hlen]
  rfl

theorem getElem?_lt {α : Type} {l : List α} {i : Nat} {x : α} (h : l[i]? = some x) : i < l.length := by
  rcases Nat.lt_or_ge i l.length with h' | h'
  · exact h'
  · rw [List.getElem?_eq_none h'] at h; cases h

/-- **M2**: a macro call is a piece, if the calls inside the macro's body are -/
theorem macro_pm (lv : Nat) (cx : Cx) (f : Nat) (hms : CmOK lv cx.sm cx.cm)
    (IH : ∀ cx' : Cx, cx'.cm.length < cx.cm.length → cx'.sm = cx.sm → CmOK lv cx'.sm cx'.cm → MacOK cx' f) : MacOK cx (f + 1) := by
  intro name args env he s items s' hrun
  obtain ⟨mb, startL, endL, out, nl, hlk, rfl, hall2, hnn, hstk, _, hvars⟩ := macroStmt_shape hrun
  obtain ⟨rest, hlt, hmsr, M, lb, sM, sM', hfind, hv, hnd, hbody, hlM, hcM, hgM, hmlM⟩ := hms.lookup hlk
  have hlen : ¬ (convParams args).length < (toSrcMacro M).vars.length := by
    have := zipDict_all_len mb.vars args (hv ▸ hnd) hvars
    rw [hv] at this
    simp only [convParams, List.length_map, toSrcMacro]
    omega
  have htr := tr_macroCall f cx.sm env name (convParams args) (toSrcMacro M) hfind hlen
  refine ⟨hstk.1, hstk.2, hstk.3, lastNotCtx_snoc_label _ _ _, ((noNone_label _ _).append hnn).append (noNone_label _ _), ?_, ?_,
    fun k b => macro_grow cx.sm (f + 1) cx.Z env name (convParams args) k b, ?_⟩
  · intro h0; simp at h0
  · intro l hl
    simp only [List.singleton_append, List.cons_append, loneJump_cons_label] at hl
    cases hl
  intro r i0 hp hpre k b hag m j _ _ hcont
  have hsame : ∀ i, i < (tbl b).length →
      (tbl (Src.tr (f + 1) cx.sm env (.macroCall name (convParams args)) k b).1)[i]? = (tbl b)[i]? :=
    fun i hi => (macro_grow cx.sm (f + 1) (fun _ => False) env name (convParams args) k b).get (fun h => h) hi
  rw [htr] at hag hsame ⊢
  obtain ⟨ainv, acov⟩ := allocLabels_spec b (Src.labelsOfStmts (toSrcMacro M).body)
  generalize Src.allocLabels b (Src.labelsOfStmts (toSrcMacro M).body) = AL at hag hsame ainv acov ⊢
  -- the context of the expansion
  let cx' : Cx := macCx cx (expCopy nl (zipDict mb.vars args) endL) rest sM'.named (dfStmts M.body) AL.2
  let env' : Src.Env := macEnv env (toSrcMacro M).vars (convParams args) k AL.2
  have he' : EnvOK cx' env' := by
    refine ⟨ev_of_par ?_, rfl, fun n i h => ⟨n, h⟩⟩
    show ParOK (fun p => cx.cp.sub (substParam (zipDict mb.vars args) p))
      (M.vars.zip ((convParams args).map (Src.substParam env.subst)) ++ env.subst)
    rw [hv]
    exact par_macro he.par M.vars args hnd
  have hM' : MacOK cx' f := IH cx' hlt rfl hmsr
  have piece := cStmts_c cx' f lv hM' M.body lb hgM hmlM env' he' sM mb.bp sM' hbody
  -- positions
  have hlenO : mb.bp.length = out.length := hall2.length
  have hitS : ItemC cx.cp cx.rs ⟨r, i0⟩ (.label startL false) := hp.here' [] _ _ (by lst) (by len_omega)
  have hpO : Placed cx.cp cx.rs r (i0 + 1) out := hp.mid' [LItem.label startL false] out [LItem.label endL false] rfl (by len_omega)
  have hpB : Placed cx'.cp cx'.rs r (i0 + 1) mb.bp := hpO.comp hall2
  have hitE : ItemC cx.cp cx.rs ⟨r, i0 + 1 + out.length⟩ (.label endL false) :=
    hp.here' ([LItem.label startL false] ++ out) [] _ (by lst) (by len_omega)
  have htgE : target cx.rs (cx.cp.σ endL) = ⟨r, i0 + 1 + out.length⟩ :=
    hp.lbl' cx.hlab ([LItem.label startL false] ++ out) [] endL false (by lst) (by len_omega)
  have hpreB : afterCtxL cx'.rs ⟨r, i0 + 1⟩ = false := by
    show afterCtxL cx.rs ⟨r, i0 + 1⟩ = false
    rw [afterCtxL_itemC hitS]; rfl
  -- behind the body: the end label, at every level up to this one
  have hend0 : R2 cx m j ⟨r, i0 + 1 + out.length⟩ k := by
    refine R2.silL (lab_label hitE) ?_
    rw [LPos.next_eq r _ (i0 + ([LItem.label startL false] ++ out ++ [LItem.label endL false]).length) (by len_omega)]
    exact hcont (falls_snoc_label _ _ _)
  have hend : ∀ m' j', (m' < m ∨ (m' = m ∧ j' ≤ j)) → R2 cx' m' j' ⟨r, i0 + 1 + mb.bp.length⟩ k := by
    intro m' j' hle
    rw [hlenO]
    rcases hle with h | ⟨rfl, h⟩
    · exact hend0.down j' h
    · exact hend0.monoJ h
  -- the node table
  have hzone : ∀ i, labZone AL.2 i → i < (tbl AL.1).length := by
    intro i hz
    obtain ⟨n, hn⟩ := hz
    have := ainv.node n i hn
    rw [ainv.len]; omega
  have hag' : AgreeOn cx'.N cx'.Z AL.1 (Src.trStmts f cx'.sm env' (toSrcStmts M.body) k AL.1).1 :=
    ⟨hzone, fun i h1 h2 => hag.2 i (Nat.le_trans ainv.pushes.len h1) h2⟩
  -- the labels of the body, private to this expansion
  let C : Nat → Nat → Prop := fun m' j' => (m' < m ∨ (m' = m ∧ j' ≤ j)) → ∀ n id, n ∈ dfStmts M.body → sM'.named.lookup n = some id →
    ∃ i, AL.2.lookup n = some i ∧ R2 cx' m' j' (target cx.rs (cx'.cp.σ id)) i
  have bodyAt : ∀ m' j', (m' < m ∨ (m' = m ∧ j' ≤ j)) → C m' j' →
      R2 cx' m' j' ⟨r, i0 + 1⟩ (Src.trStmts f cx'.sm env' (toSrcStmts M.body) k AL.1).2 ∧
      LabExport cx' env' m' j' AL.1 (Src.trStmts f cx'.sm env' (toSrcStmts M.body) k AL.1).1 := by
    intro m' j' hle hC
    have hex' : ExitsOK cx' m' j' sM env' := by
      refine ⟨fun cl bl rest' h => (by rw [hlM] at h; cases h), fun e rest' h => (by rw [hcM] at h; cases h),
        fun n id hn hid => hC hle n id hn hid, fun kr e h1 h2 => ?_⟩
      have e1 : kr = k := by
        have : (some k : Option Nat) = some kr := h1
        exact (Option.some.inj this).symm
      have e2 : e = cx.cp.σ endL := by
        have : (some (cx.cp.σ endL) : Option Nat) = some e := h2
        exact (Option.some.inj this).symm
      subst e1 e2
      show R2 cx' m' j' (target cx.rs (cx.cp.σ endL)) kr
      rw [htgE, ← hlenO]
      exact hend m' j' hle
    exact piece.full r (i0 + 1) hpB hpreB k AL.1 hag' m' j' hex' (fun n id h => h) (fun _ => hend m' j' hle)
  have hC : ∀ m' j', C m' j' := by
    refine lex_ind C (fun m' j' lower lowerJ hle n id hn hid => ?_)
    have hcov := acov n (dfSStmts_sub _ n (dfs_sub M.body n hn))
    obtain ⟨i, hlki⟩ := Option.isSome_iff_exists.mp hcov
    obtain ⟨hi1, hi2, hph⟩ := ainv.node n i hlki
    have hlow : ∀ m'' j'', m'' < m' → R2 cx' m'' j'' (target cx.rs (cx'.cp.σ id)) i := by
      intro m'' j'' hlt'
      obtain ⟨i', h1, h2⟩ := lower m'' j'' hlt' (.inl (by rcases hle with h | ⟨rfl, _⟩ <;> omega)) n id hn hid
      rw [hlki] at h1; cases h1; exact h2
    cases j' with
    | zero => exact ⟨i, hlki, EE_of_lower hlow, GG_zero cx' m' _ _⟩
    | succ jj =>
      have hle' : m' < m ∨ (m' = m ∧ jj ≤ j) := by
        rcases hle with h | ⟨h1, h2⟩
        · exact .inl h
        · exact .inr ⟨h1, by omega⟩
      obtain ⟨kn, hkn⟩ := (trStmts_good' (labZone AL.2) f cx'.sm (toSrcStmts M.body) env' (fun n i h => ⟨n, h⟩) k AL.1).2 hzone n
        (dfs_sub M.body n hn) i hlki
      obtain ⟨_, hexp⟩ := bodyAt m' jj hle' (lowerJ jj (Nat.lt_succ_self jj))
      obtain ⟨n', id', P, nm, hl', hid', hitem, hR⟩ := hexp i kn (by rw [ainv.len]; exact hi2) hkn (by rw [hkn, hph]; simp [phNode])
      have hnn' : n' = n := ainv.inj n' n i hl' hlki
      subst hnn'
      have hidd : id' = id := by
        have : sM'.named.lookup n' = some id' := hid'
        rw [hid] at this; exact (Option.some.inj this).symm
      subst hidd
      have htg : target cx.rs (cx'.cp.σ id') = P := ItemC.resolve cx.hlab hitem
      have hNi : cx.N[i]? = some (.silent kn) := by
        rw [hag.2 i hi1 (getElem?_lt hkn)]; exact hkn
      refine ⟨i, hlki, EE_of_lower hlow, ?_⟩
      rw [htg]
      exact G.silB (lab_label hitem) (nodeStep_of hNi) hR.2
  obtain ⟨hentry, _⟩ := bodyAt m j (.inr ⟨rfl, Nat.le_refl j⟩) (hC m j)
  refine ⟨R2.silL (lab_label hitS) ?_, LabExport.same hsame⟩
  rw [LPos.next_eq r i0 (i0 + 1) rfl]
  exact hentry

/-- **M3**: macro calls are pieces, whatever macros the called macros call: by induction on the number of compiled macros (a macro's
body is compiled with the macros before it; the language semantics has one more level of expansion than there are macros) -/
theorem macOK_all (lv : Nat) : ∀ (L : Nat) (cx : Cx) (fuel : Nat), cx.cm.length = L → L < fuel → CmOK lv cx.sm cx.cm → MacOK cx fuel := by
  intro L
  induction L using Nat.strongRecOn with
  | ind L ih =>
    intro cx fuel hL hlt hms
    cases fuel with
    | zero => omega
    | succ f =>
      refine macro_pm lv cx f hms (fun cx' hlt' _ hms' => ih cx'.cm.length (by omega) cx' f rfl (by omega) hms')

end ESV.Comp
