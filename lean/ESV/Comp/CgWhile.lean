import ESV.Comp.CgForever
/-
`codegen_correct`, loops: `while` (the test before the block when negated, behind it otherwise).
-/
namespace ESV.Comp
open ESV ESV.Beh

local macro "len_omega" : tactic =>
  `(tactic| ((try simp only [List.length_append, List.length_cons, List.length_nil]) <;> (try omega)))
local macro "lst" : tactic => `(tactic| ((try simp only [List.append_assoc, List.cons_append, List.nil_append]) <;> (try rfl)))

theorem tr_while (fuel : Nat) (sm : List Src.Macro) (env : Src.Env) (neg : Bool) (t : Ev) (B : Src.Stmts) (k : Nat) (b : Src.B) :
    Src.tr fuel sm env (.while_ neg t B) k b =
      ((Src.trStmts fuel sm (loopEnv env (tbl b).length k) B (tbl b).length (b.push (.halt (evInvalid "loop head"))).1).1.set (tbl b).length
        (if neg then .test (Src.substEv env.subst t) k
            (Src.trStmts fuel sm (loopEnv env (tbl b).length k) B (tbl b).length (b.push (.halt (evInvalid "loop head"))).1).2
          else .test (Src.substEv env.subst t)
            (Src.trStmts fuel sm (loopEnv env (tbl b).length k) B (tbl b).length (b.push (.halt (evInvalid "loop head"))).1).2 k),
       (tbl b).length) := by
  rw [Src.tr]; rfl

/-- `while not (t) { body }` : label, test jumping to the end, block, jump back -/
theorem whileNeg_core (cx : Cx) (fuel : Nat) (env : Src.Env) (he : EnvOK cx env) (lb : Nat) (hd : Hdr) (body : Stmts)
    (ht : isTest hd.name = true) {s sa sb s' : St} {ops : List LItem} (o1 o2 sL eB : Nat)
    (hP : ∀ env', EnvOK cx env' → PieceOK cx ops sa sb (fun k b => Src.trStmts fuel cx.sm env' (toSrcStmts body) k b) env')
    (hsaL : sa.loops = (lb + 1, lb + 2) :: s.loops) (hsaC : sa.cases = s.cases) (hl : s'.loops = s.loops) (hc : s'.cases = s.cases)
    (hnA : NamedLe s sa) (hnB : NamedLe sb s') :
    PieceOK cx ([LItem.label (lb + 1) false, LItem.ljump ⟨o1, hd.name, hd.params⟩ (some (lb + 2))] ++
        ([LItem.label sL false] ++ ops ++ [LItem.label eB false]) ++
        [LItem.ljump ⟨o2, Gen.op_jump, []⟩ (some (lb + 1)), LItem.label (lb + 2) false]) s s'
      (fun k b => Src.tr fuel cx.sm env (.while_ true (hdrEv hd) (toSrcStmts body)) k b) env := by
  have hP0 := hP env he
  have htr := fun k b => tr_while fuel cx.sm env true (hdrEv hd) (toSrcStmts body) k b
  have hgrow : ∀ k b, Grow cx.Z b (Src.tr fuel cx.sm env (.while_ true (hdrEv hd) (toSrcStmts body)) k b).1 := by
    intro k b
    rw [htr]
    exact ((Grow.push b _).trans ((hP _ (plainEnv_loopEnv he _ _)).grow _ _)).set_ge (Nat.le_refl _) _
  have hfalls : falls ([LItem.label (lb + 1) false, LItem.ljump ⟨o1, hd.name, hd.params⟩ (some (lb + 2))] ++
        ([LItem.label sL false] ++ ops ++ [LItem.label eB false]) ++
        [LItem.ljump ⟨o2, Gen.op_jump, []⟩ (some (lb + 1)), LItem.label (lb + 2) false]) = true := by
    have := falls_snoc_label ([LItem.label (lb + 1) false, LItem.ljump ⟨o1, hd.name, hd.params⟩ (some (lb + 2))] ++
        ([LItem.label sL false] ++ ops ++ [LItem.label eB false]) ++ [LItem.ljump ⟨o2, Gen.op_jump, []⟩ (some (lb + 1))]) (lb + 2) false
    simpa [List.append_assoc] using this
  refine ⟨hl, hc, (hnA.trans hP0.named).trans hnB, ?_, ?_, ?_, ?_, hgrow, ?_⟩
  · have := lastNotCtx_snoc_label ([LItem.label (lb + 1) false, LItem.ljump ⟨o1, hd.name, hd.params⟩ (some (lb + 2))] ++
        ([LItem.label sL false] ++ ops ++ [LItem.label eB false]) ++ [LItem.ljump ⟨o2, Gen.op_jump, []⟩ (some (lb + 1))]) (lb + 2) false
    simpa [List.append_assoc] using this
  · exact (((noNone_label _ _).append (noNone_jump _ _)).append (((noNone_label _ _).append hP0.nonone).append (noNone_label _ _))).append
      ((noNone_jump _ _).append (noNone_label _ _))
  · intro h0; simp at h0
  · intro l hl'
    simp only [List.append_assoc, List.cons_append, List.nil_append, loneJump_two] at hl'
    cases hl'
  intro r i0 hp hpre k b hag m j hex hin hcont
  have hinB : NamedIn cx sb := hin.le hnB
  have hend := hcont hfalls
  rw [htr] at hag ⊢
  simp only [↓reduceIte] at hag ⊢
  have hPe := hP (loopEnv env (tbl b).length k) (plainEnv_loopEnv he _ _)
  obtain ⟨hNh, hagB⟩ := agree_set hag (hPe.grow _ _)
  -- positions
  have hit0 : ItemC cx.cp cx.rs ⟨r, i0⟩ (.label (lb + 1) false) := hp.here' [] _ _ (by lst) (by len_omega)
  have htgt1 : target cx.rs (cx.cp.σ (lb + 1)) = ⟨r, i0⟩ := hp.lbl' cx.hlab [] _ _ false (by lst) (by len_omega)
  have hitT : ItemC cx.cp cx.rs ⟨r, i0 + 1⟩ (.ljump ⟨o1, hd.name, hd.params⟩ (some (lb + 2))) :=
    hp.here' [LItem.label (lb + 1) false] _ _ (by lst) (by len_omega)
  have hpBlk : Placed cx.cp cx.rs r (i0 + 2) ([LItem.label sL false] ++ ops ++ [LItem.label eB false] ++
      [LItem.ljump ⟨o2, Gen.op_jump, []⟩ (some (lb + 1)), LItem.label (lb + 2) false]) :=
    hp.mid' [LItem.label (lb + 1) false, LItem.ljump ⟨o1, hd.name, hd.params⟩ (some (lb + 2))] _ [] (by lst) (by len_omega)
  have hitJ : ItemC cx.cp cx.rs ⟨r, i0 + ops.length + 4⟩ (.ljump ⟨o2, Gen.op_jump, []⟩ (some (lb + 1))) :=
    hp.here' ([LItem.label (lb + 1) false, LItem.ljump ⟨o1, hd.name, hd.params⟩ (some (lb + 2))] ++
      ([LItem.label sL false] ++ ops ++ [LItem.label eB false])) _ _ (by lst) (by len_omega)
  have hitE : ItemC cx.cp cx.rs ⟨r, i0 + ops.length + 5⟩ (.label (lb + 2) false) :=
    hp.here' ([LItem.label (lb + 1) false, LItem.ljump ⟨o1, hd.name, hd.params⟩ (some (lb + 2))] ++
      ([LItem.label sL false] ++ ops ++ [LItem.label eB false]) ++ [LItem.ljump ⟨o2, Gen.op_jump, []⟩ (some (lb + 1))]) [] _ (by lst) (by len_omega)
  have htgt2 : target cx.rs (cx.cp.σ (lb + 2)) = ⟨r, i0 + ops.length + 5⟩ :=
    hp.lbl' cx.hlab ([LItem.label (lb + 1) false, LItem.ljump ⟨o1, hd.name, hd.params⟩ (some (lb + 2))] ++
      ([LItem.label sL false] ++ ops ++ [LItem.label eB false]) ++ [LItem.ljump ⟨o2, Gen.op_jump, []⟩ (some (lb + 1))]) [] _ false (by lst) (by len_omega)
  have hlen : ([LItem.label (lb + 1) false, LItem.ljump ⟨o1, hd.name, hd.params⟩ (some (lb + 2))] ++
        ([LItem.label sL false] ++ ops ++ [LItem.label eB false]) ++
        [LItem.ljump ⟨o2, Gen.op_jump, []⟩ (some (lb + 1)), LItem.label (lb + 2) false]).length = ops.length + 6 := by
    len_omega
  rw [hlen] at hend
  have hstepT := lab_test hitT (isTest_not_jump _ ht) ht
  have hev : (⟨hd.name, convParams (hd.params.map cx.cp.sub)⟩ : Ev) = Src.substEv env.subst (hdrEv hd) := he.ev hd.name hd.params
  simp only [hev] at hstepT
  have hbrkAt : ∀ m' j', ExitsOK cx m' j' s env ∧ R2 cx m' j' ⟨r, i0 + (ops.length + 6)⟩ k → R2 cx m' j' (target cx.rs (cx.cp.σ (lb + 2))) k := by
    intro m' j' hy
    rw [htgt2]
    refine R2.silL (lab_label hitE) ?_
    rw [LPos.next_eq r _ (i0 + (ops.length + 6)) (by omega)]; exact hy.2
  -- the body, given the loop head
  have hbodyAt : ∀ m' j', ExitsOK cx m' j' s env ∧ R2 cx m' j' ⟨r, i0 + (ops.length + 6)⟩ k → R2 cx m' j' ⟨r, i0⟩ (tbl b).length →
      R2 cx m' j' ⟨r, i0 + 2⟩ (Src.trStmts fuel cx.sm (loopEnv env (tbl b).length k) (toSrcStmts body) (tbl b).length
        (b.push (.halt (evInvalid "loop head"))).1).2 ∧
      LabExport cx (loopEnv env (tbl b).length k) m' j' (b.push (.halt (evInvalid "loop head"))).1
        (Src.trStmts fuel cx.sm (loopEnv env (tbl b).length k) (toSrcStmts body) (tbl b).length
          (b.push (.halt (evInvalid "loop head"))).1).1 := by
    intro m' j' hy' hPh
    have hex' : ExitsOK cx m' j' sa (loopEnv env (tbl b).length k) :=
      exitsOK_push hy'.1 (lb + 1) (lb + 2) (by rw [htgt1]; exact hPh) (hbrkAt m' j' hy') hsaL hsaC
    have hafter : R2 cx m' j' ⟨r, i0 + 2 + ops.length + 2⟩ (tbl b).length := by
      have e : i0 + 2 + ops.length + 2 = i0 + ops.length + 4 := by omega
      rw [e]
      refine R2.silL (lab_jump hitJ jump_isJump) ?_
      rw [htgt1]; exact hPh
    exact loop_body_run cx hPe sL eB _ hpBlk (tbl b).length _ hagB m' j' hex' hinB (fun _ => hafter)
  have hhead : ∀ m j, ExitsOK cx m j s env ∧ R2 cx m j ⟨r, i0 + (ops.length + 6)⟩ k → R2 cx m j ⟨r, i0⟩ (tbl b).length := by
    refine loop_ind (fun m j => ExitsOK cx m j s env ∧ R2 cx m j ⟨r, i0 + (ops.length + 6)⟩ k)
      (fun m j m' j' h hlt => ⟨h.1.down j' hlt, h.2.down j' hlt⟩) (fun m j j' h hle => ⟨h.1.monoJ hle, h.2.monoJ hle⟩) ?_
    intro m j hyp lower _
    refine R2.silL (lab_label hit0) ?_
    rw [LPos.next_eq r _ (i0 + 1) rfl]
    refine R2.test hstepT (nodeStep_of hNh) (hbrkAt m j hyp).1 (EE_of_lower (fun m' j' hlt => ?_))
    rw [LPos.next_eq r _ (i0 + 2) rfl]
    exact (hbodyAt m' j' ⟨hyp.1.down j' hlt, hyp.2.down j' hlt⟩ (lower m' j' hlt)).1
  have hP' := hhead m j ⟨hex, hend⟩
  refine ⟨hP', ?_⟩
  have hexp := (hbodyAt m j ⟨hex, hend⟩ hP').2
  have hpush := Pushes.push b (.halt (evInvalid "loop head"))
  refine LabExport.mono hexp hpush.len (fun i hi => hpush.same hi) (fun i hi => ?_)
  rw [tbl_set, List.getElem?_set_ne (by omega)]

/-- `while (t) { body }` : jump to the test, block, test jumping back to the block -/
theorem whilePos_core (cx : Cx) (fuel : Nat) (env : Src.Env) (he : EnvOK cx env) (lb : Nat) (hd : Hdr) (body : Stmts)
    (ht : isTest hd.name = true) {s sa sb s' : St} {ops : List LItem} (o1 o2 sL eB cL bL : Nat)
    (hP : ∀ env', EnvOK cx env' → PieceOK cx ops sa sb (fun k b => Src.trStmts fuel cx.sm env' (toSrcStmts body) k b) env')
    (hsaL : sa.loops = (lb + 1, lb + 2) :: s.loops) (hsaC : sa.cases = s.cases) (hl : s'.loops = s.loops) (hc : s'.cases = s.cases)
    (hnA : NamedLe s sa) (hnB : NamedLe sb s') :
    PieceOK cx ([LItem.label (lb + 1) false, LItem.ljump ⟨o1, Gen.op_jump, []⟩ (some cL), LItem.label bL false] ++
        ([LItem.label sL false] ++ ops ++ [LItem.label eB false]) ++
        [LItem.label cL false, LItem.ljump ⟨o2, hd.name, hd.params⟩ (some bL), LItem.label (lb + 2) false]) s s'
      (fun k b => Src.tr fuel cx.sm env (.while_ false (hdrEv hd) (toSrcStmts body)) k b) env := by
  have hP0 := hP env he
  have htr := fun k b => tr_while fuel cx.sm env false (hdrEv hd) (toSrcStmts body) k b
  have hgrow : ∀ k b, Grow cx.Z b (Src.tr fuel cx.sm env (.while_ false (hdrEv hd) (toSrcStmts body)) k b).1 := by
    intro k b
    rw [htr]
    exact ((Grow.push b _).trans ((hP _ (plainEnv_loopEnv he _ _)).grow _ _)).set_ge (Nat.le_refl _) _
  have hfalls : falls ([LItem.label (lb + 1) false, LItem.ljump ⟨o1, Gen.op_jump, []⟩ (some cL), LItem.label bL false] ++
        ([LItem.label sL false] ++ ops ++ [LItem.label eB false]) ++
        [LItem.label cL false, LItem.ljump ⟨o2, hd.name, hd.params⟩ (some bL), LItem.label (lb + 2) false]) = true := by
    have := falls_snoc_label ([LItem.label (lb + 1) false, LItem.ljump ⟨o1, Gen.op_jump, []⟩ (some cL), LItem.label bL false] ++
        ([LItem.label sL false] ++ ops ++ [LItem.label eB false]) ++
        [LItem.label cL false, LItem.ljump ⟨o2, hd.name, hd.params⟩ (some bL)]) (lb + 2) false
    simpa [List.append_assoc] using this
  refine ⟨hl, hc, (hnA.trans hP0.named).trans hnB, ?_, ?_, ?_, ?_, hgrow, ?_⟩
  · have := lastNotCtx_snoc_label ([LItem.label (lb + 1) false, LItem.ljump ⟨o1, Gen.op_jump, []⟩ (some cL), LItem.label bL false] ++
        ([LItem.label sL false] ++ ops ++ [LItem.label eB false]) ++
        [LItem.label cL false, LItem.ljump ⟨o2, hd.name, hd.params⟩ (some bL)]) (lb + 2) false
    simpa [List.append_assoc] using this
  · exact ((((noNone_label _ _).append (noNone_jump _ _)).append (noNone_label _ _)).append
      (((noNone_label _ _).append hP0.nonone).append (noNone_label _ _))).append
      (((noNone_label _ _).append (noNone_jump _ _)).append (noNone_label _ _))
  · intro h0; simp at h0
  · intro l hl'
    simp only [List.append_assoc, List.cons_append, List.nil_append, loneJump_two] at hl'
    cases hl'
  intro r i0 hp hpre k b hag m j hex hin hcont
  have hinB : NamedIn cx sb := hin.le hnB
  have hend := hcont hfalls
  rw [htr] at hag ⊢
  simp only [Bool.false_eq_true, ↓reduceIte] at hag ⊢
  have hPe := hP (loopEnv env (tbl b).length k) (plainEnv_loopEnv he _ _)
  obtain ⟨hNh, hagB⟩ := agree_set hag (hPe.grow _ _)
  -- positions
  have hit0 : ItemC cx.cp cx.rs ⟨r, i0⟩ (.label (lb + 1) false) := hp.here' [] _ _ (by lst) (by len_omega)
  have htgt1 : target cx.rs (cx.cp.σ (lb + 1)) = ⟨r, i0⟩ := hp.lbl' cx.hlab [] _ _ false (by lst) (by len_omega)
  have hit1 : ItemC cx.cp cx.rs ⟨r, i0 + 1⟩ (.ljump ⟨o1, Gen.op_jump, []⟩ (some cL)) :=
    hp.here' [LItem.label (lb + 1) false] _ _ (by lst) (by len_omega)
  have hit2 : ItemC cx.cp cx.rs ⟨r, i0 + 2⟩ (.label bL false) :=
    hp.here' [LItem.label (lb + 1) false, LItem.ljump ⟨o1, Gen.op_jump, []⟩ (some cL)] _ _ (by lst) (by len_omega)
  have htgtB : target cx.rs (cx.cp.σ bL) = ⟨r, i0 + 2⟩ :=
    hp.lbl' cx.hlab [LItem.label (lb + 1) false, LItem.ljump ⟨o1, Gen.op_jump, []⟩ (some cL)] _ _ false (by lst) (by len_omega)
  have hpBlk : Placed cx.cp cx.rs r (i0 + 3) ([LItem.label sL false] ++ ops ++ [LItem.label eB false] ++
      [LItem.label cL false, LItem.ljump ⟨o2, hd.name, hd.params⟩ (some bL), LItem.label (lb + 2) false]) :=
    hp.mid' [LItem.label (lb + 1) false, LItem.ljump ⟨o1, Gen.op_jump, []⟩ (some cL), LItem.label bL false] _ [] (by lst) (by len_omega)
  have hitC : ItemC cx.cp cx.rs ⟨r, i0 + ops.length + 5⟩ (.label cL false) :=
    hp.here' ([LItem.label (lb + 1) false, LItem.ljump ⟨o1, Gen.op_jump, []⟩ (some cL), LItem.label bL false] ++
      ([LItem.label sL false] ++ ops ++ [LItem.label eB false])) _ _ (by lst) (by len_omega)
  have htgtC : target cx.rs (cx.cp.σ cL) = ⟨r, i0 + ops.length + 5⟩ :=
    hp.lbl' cx.hlab ([LItem.label (lb + 1) false, LItem.ljump ⟨o1, Gen.op_jump, []⟩ (some cL), LItem.label bL false] ++
      ([LItem.label sL false] ++ ops ++ [LItem.label eB false])) _ _ false (by lst) (by len_omega)
  have hitT : ItemC cx.cp cx.rs ⟨r, i0 + ops.length + 6⟩ (.ljump ⟨o2, hd.name, hd.params⟩ (some bL)) :=
    hp.here' ([LItem.label (lb + 1) false, LItem.ljump ⟨o1, Gen.op_jump, []⟩ (some cL), LItem.label bL false] ++
      ([LItem.label sL false] ++ ops ++ [LItem.label eB false]) ++ [LItem.label cL false]) _ _ (by lst) (by len_omega)
  have hitE : ItemC cx.cp cx.rs ⟨r, i0 + ops.length + 7⟩ (.label (lb + 2) false) :=
    hp.here' ([LItem.label (lb + 1) false, LItem.ljump ⟨o1, Gen.op_jump, []⟩ (some cL), LItem.label bL false] ++
      ([LItem.label sL false] ++ ops ++ [LItem.label eB false]) ++
      [LItem.label cL false, LItem.ljump ⟨o2, hd.name, hd.params⟩ (some bL)]) [] _ (by lst) (by len_omega)
  have htgt2 : target cx.rs (cx.cp.σ (lb + 2)) = ⟨r, i0 + ops.length + 7⟩ :=
    hp.lbl' cx.hlab ([LItem.label (lb + 1) false, LItem.ljump ⟨o1, Gen.op_jump, []⟩ (some cL), LItem.label bL false] ++
      ([LItem.label sL false] ++ ops ++ [LItem.label eB false]) ++
      [LItem.label cL false, LItem.ljump ⟨o2, hd.name, hd.params⟩ (some bL)]) [] _ false (by lst) (by len_omega)
  have hlen : ([LItem.label (lb + 1) false, LItem.ljump ⟨o1, Gen.op_jump, []⟩ (some cL), LItem.label bL false] ++
        ([LItem.label sL false] ++ ops ++ [LItem.label eB false]) ++
        [LItem.label cL false, LItem.ljump ⟨o2, hd.name, hd.params⟩ (some bL), LItem.label (lb + 2) false]).length = ops.length + 8 := by
    len_omega
  rw [hlen] at hend
  have hstepT := lab_test hitT (isTest_not_jump _ ht) ht
  have hev : (⟨hd.name, convParams (hd.params.map cx.cp.sub)⟩ : Ev) = Src.substEv env.subst (hdrEv hd) := he.ev hd.name hd.params
  simp only [hev] at hstepT
  have hbrkAt : ∀ m' j', ExitsOK cx m' j' s env ∧ R2 cx m' j' ⟨r, i0 + (ops.length + 8)⟩ k →
      R2 cx m' j' ⟨r, i0 + ops.length + 7⟩ k := by
    intro m' j' hy
    refine R2.silL (lab_label hitE) ?_
    rw [LPos.next_eq r _ (i0 + (ops.length + 8)) (by omega)]; exact hy.2
  -- the body, given the loop point (the label of the test)
  have hbodyAt : ∀ m' j', ExitsOK cx m' j' s env ∧ R2 cx m' j' ⟨r, i0 + (ops.length + 8)⟩ k →
      R2 cx m' j' ⟨r, i0 + ops.length + 5⟩ (tbl b).length →
      R2 cx m' j' ⟨r, i0 + 3⟩ (Src.trStmts fuel cx.sm (loopEnv env (tbl b).length k) (toSrcStmts body) (tbl b).length
        (b.push (.halt (evInvalid "loop head"))).1).2 ∧
      LabExport cx (loopEnv env (tbl b).length k) m' j' (b.push (.halt (evInvalid "loop head"))).1
        (Src.trStmts fuel cx.sm (loopEnv env (tbl b).length k) (toSrcStmts body) (tbl b).length
          (b.push (.halt (evInvalid "loop head"))).1).1 := by
    intro m' j' hy' hQh
    have hcontR : R2 cx m' j' (target cx.rs (cx.cp.σ (lb + 1))) (tbl b).length := by
      rw [htgt1]
      refine R2.silL (lab_label hit0) ?_
      rw [LPos.next_eq r _ (i0 + 1) rfl]
      refine R2.silL (lab_jump hit1 jump_isJump) ?_
      rw [htgtC]; exact hQh
    have hex' : ExitsOK cx m' j' sa (loopEnv env (tbl b).length k) :=
      exitsOK_push hy'.1 (lb + 1) (lb + 2) hcontR (by rw [htgt2]; exact hbrkAt m' j' hy') hsaL hsaC
    have hafter : R2 cx m' j' ⟨r, i0 + 3 + ops.length + 2⟩ (tbl b).length := by
      have e : i0 + 3 + ops.length + 2 = i0 + ops.length + 5 := by omega
      rw [e]; exact hQh
    exact loop_body_run cx hPe sL eB _ hpBlk (tbl b).length _ hagB m' j' hex' hinB (fun _ => hafter)
  have hhead : ∀ m j, ExitsOK cx m j s env ∧ R2 cx m j ⟨r, i0 + (ops.length + 8)⟩ k →
      R2 cx m j ⟨r, i0 + ops.length + 5⟩ (tbl b).length := by
    refine loop_ind (fun m j => ExitsOK cx m j s env ∧ R2 cx m j ⟨r, i0 + (ops.length + 8)⟩ k)
      (fun m j m' j' h hlt => ⟨h.1.down j' hlt, h.2.down j' hlt⟩) (fun m j j' h hle => ⟨h.1.monoJ hle, h.2.monoJ hle⟩) ?_
    intro m j hyp lower _
    refine R2.silL (lab_label hitC) ?_
    rw [LPos.next_eq r _ (i0 + ops.length + 6) rfl]
    refine R2.test hstepT (nodeStep_of hNh) ?_ (by rw [LPos.next_eq r _ (i0 + ops.length + 7) rfl]; exact (hbrkAt m j hyp).1)
    rw [htgtB]
    refine E.silL (lab_label hit2) (EE_of_lower (fun m' j' hlt => ?_))
    rw [LPos.next_eq r _ (i0 + 3) rfl]
    exact (hbodyAt m' j' ⟨hyp.1.down j' hlt, hyp.2.down j' hlt⟩ (lower m' j' hlt)).1
  have hQ := hhead m j ⟨hex, hend⟩
  refine ⟨?_, ?_⟩
  · refine R2.silL (lab_label hit0) ?_
    rw [LPos.next_eq r _ (i0 + 1) rfl]
    refine R2.silL (lab_jump hit1 jump_isJump) ?_
    rw [htgtC]; exact hQ
  have hexp := (hbodyAt m j ⟨hex, hend⟩ hQ).2
  have hpush := Pushes.push b (.halt (evInvalid "loop head"))
  refine LabExport.mono hexp hpush.len (fun i hi => hpush.same hi) (fun i hi => ?_)
  rw [tbl_set, List.getElem?_set_ne (by omega)]

/-- `WhileBlockCompileHandler.collect()` -/
theorem while_pm (cx : Cx) (fuel : Nat) (env : Src.Env) (he : EnvOK cx env) (lb : Nat) (neg : Bool) (hd : Hdr) (body : Stmts)
    (bodyM : M (List LItem)) (ht : isTest hd.name = true)
    (hBody : ∀ env', EnvOK cx env' → PM cx bodyM (fun k b => Src.trStmts fuel cx.sm env' (toSrcStmts body) k b) env') :
    PM cx (whileOf lb neg hd bodyM) (fun k b => Src.tr fuel cx.sm env (.while_ neg (hdrEv hd) (toSrcStmts body)) k b) env := by
  intro s items s' h
  cases neg with
  | true =>
    simp only [whileOf, ↓reduceIte, bind_ok, pushLoop_ok, popLoop_ok, pure_ok] at h
    obtain ⟨u1, sa, h1, res, sd, h2, u2, se, h4, h5⟩ := h
    simp only [Prod.mk.injEq] at h1 h4 h5
    obtain ⟨_, rfl⟩ := h1
    obtain ⟨_, rfl⟩ := h4
    obtain ⟨rfl, rfl⟩ := h5
    simp only [whileNeg, bind_ok, pure_ok] at h2
    obtain ⟨br, s1, b1, blk, sc, b2, jj, sd', b3, b5⟩ := h2
    simp only [Prod.mk.injEq] at b5
    obtain ⟨rfl, rfl⟩ := b5
    obtain ⟨rfl, rfl⟩ := buildFor_none (b := loopBP hd) rfl b1
    obtain ⟨e3, rfl⟩ := genJump_stk b3
    obtain ⟨ops, sb, sL, eB, hrun, e2, hitems⟩ := loop_block_shape b2
    rw [hitems]
    have hP := fun env' he' => hBody env' he' _ _ _ hrun
    have hP0 := hP env he
    refine whileNeg_core cx fuel env he lb hd body ht _ _ sL eB hP rfl rfl ?_ ?_ (NamedLe.refl _) (e2.3.trans e3.3)
    · show sd.loops.tail = s.loops
      rw [e3.1, e2.1, hP0.loops]; rfl
    · show sd.cases = s.cases
      rw [e3.2, e2.2, hP0.cases]; rfl
  | false =>
    simp only [whileOf, Bool.false_eq_true, ↓reduceIte, bind_ok, pushLoop_ok, popLoop_ok, pure_ok] at h
    obtain ⟨u1, sa, h1, res, sd, h2, u2, se, h4, h5⟩ := h
    simp only [Prod.mk.injEq] at h1 h4 h5
    obtain ⟨_, rfl⟩ := h1
    obtain ⟨_, rfl⟩ := h4
    obtain ⟨rfl, rfl⟩ := h5
    simp only [whilePos, bind_ok, pure_ok, tickLbl_ok] at h2
    obtain ⟨cL, s1, c1, bL, s2, c2, jj, s3, c3, blk, sc, c4, br, sd', c5, c6⟩ := h2
    simp only [Prod.mk.injEq] at c1 c2 c6
    obtain ⟨rfl, rfl⟩ := c1
    obtain ⟨rfl, rfl⟩ := c2
    obtain ⟨rfl, rfl⟩ := c6
    obtain ⟨e3, rfl⟩ := genJump_stk c3
    obtain ⟨rfl, rfl⟩ := buildFor_none (b := loopBP hd) rfl c5
    obtain ⟨ops, sb, sL, eB, hrun, e2, hitems⟩ := loop_block_shape c4
    rw [hitems]
    have hP := fun env' he' => hBody env' he' _ _ _ hrun
    have hP0 := hP env he
    refine whilePos_core cx fuel env he lb hd body ht _ _ sL eB _ _ hP ?_ ?_ ?_ ?_ e3.3 e2.3
    · rw [e3.1]; rfl
    · rw [e3.2]; rfl
    · show sc.loops.tail = s.loops
      rw [e2.1, hP0.loops, e3.1]; rfl
    · show sc.cases = s.cases
      rw [e2.2, hP0.cases, e3.2]; rfl

end ESV.Comp
