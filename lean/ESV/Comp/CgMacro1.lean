import ESV.Comp.CgMain
/-
`codegen_correct`, macros (M1): what `ExplorerScriptMacro.build` makes of a blueprint is a *copy* of the blueprint: labels
renamed (the same blueprint label always to the same fresh label), parameters substituted, `Return` ops turned into jumps to
the end label; copies compose (a macro called inside a macro is copied again with the blueprint of the caller).
-/
namespace ESV.Comp
open ESV ESV.Beh

/-- the copy one expansion makes: `nl` = the label table `new_labels` at the end of the expansion -/
def expCopy (nl : List (Nat × Nat)) (d : List (String × Param)) (endL : Nat) : Copy :=
  ⟨fun l => (nl.lookup l).getD 0, substParam d, some endL⟩

/-- `c1` first, then `c` -/
def Copy.comp (c c1 : Copy) : Copy :=
  ⟨fun l => c.σ (c1.σ l), fun p => c.sub (c1.sub p), match c1.ret with | some e => some (c.σ e) | none => c.ret⟩

theorem cpRel_comp {c c1 : Copy} {x y z : LItem} (h1 : cpRel c1 x y) (h2 : cpRel c y z) : cpRel (c.comp c1) x z := by
  cases x with
  | label l nm =>
    obtain ⟨nm1, rfl⟩ := h1
    obtain ⟨nm2, rfl⟩ := h2
    exact ⟨nm2, rfl⟩
  | ljump root t =>
    cases t with
    | none => exact h1.elim
    | some l =>
      obtain ⟨o1, rfl⟩ := h1
      obtain ⟨o2, rfl⟩ := h2
      exact ⟨o2, by simp [Copy.comp, List.map_map, Function.comp_def]⟩
  | op o =>
    simp only [cpRel] at h1
    by_cases hr : o.name = Gen.op_return
    · rw [if_pos hr] at h1
      cases hc1 : c1.ret with
      | some e =>
        rw [hc1] at h1
        obtain ⟨o1, rfl⟩ := h1
        obtain ⟨o2, rfl⟩ := h2
        simp only [cpRel, if_pos hr, Copy.comp, hc1]
        exact ⟨o2, by simp⟩
      | none =>
        rw [hc1] at h1
        obtain ⟨o1, rfl⟩ := h1
        simp only [cpRel, if_pos hr] at h2
        simp only [cpRel, if_pos hr, Copy.comp, hc1]
        cases hc : c.ret with
        | some e =>
          rw [hc] at h2
          obtain ⟨o2, rfl⟩ := h2
          exact ⟨o2, rfl⟩
        | none =>
          rw [hc] at h2
          obtain ⟨o2, rfl⟩ := h2
          exact ⟨o2, by simp [List.map_map, Function.comp_def]⟩
    · rw [if_neg hr] at h1
      obtain ⟨o1, rfl⟩ := h1
      simp only [cpRel, if_neg hr] at h2
      obtain ⟨o2, rfl⟩ := h2
      simp only [cpRel, if_neg hr, Copy.comp]
      exact ⟨o2, by simp [List.map_map, Function.comp_def]⟩

theorem All2.comp {α β γ : Type} {R : α → β → Prop} {S : β → γ → Prop} {T : α → γ → Prop} (h : ∀ a b c, R a b → S b c → T a c) :
    ∀ {as : List α} {bs : List β} {cs : List γ}, All2 R as bs → All2 S bs cs → All2 T as cs
  | _, _, _, .nil, .nil => .nil
  | _, _, _, .cons r rs, .cons s ss => .cons (h _ _ _ r s) (All2.comp h rs ss)

/-- a copy of a copy stands in the program as a copy of the original -/
theorem Placed.comp {c c1 : Copy} {rs : List (List LItem)} {r i0 : Nat} {bp out : List LItem} (h : Placed c rs r i0 out)
    (h1 : All2 (cpRel c1) bp out) : Placed (c.comp c1) rs r i0 bp := by
  obtain ⟨out', h2, hx⟩ := h
  exact ⟨out', All2.comp (R := cpRel c1) (S := cpRel c) (T := cpRel (c.comp c1)) (fun _ _ _ a b => cpRel_comp a b) h1 h2, hx⟩

theorem freshCopy_cp {nl : List (Nat × Nat)} {id : Nat} {s : St} {nl' : List (Nat × Nat)} {i : Nat} {s' : St}
    (h : freshCopy nl id s = .ok ((nl', i), s')) :
    SameStk s s' ∧ s'.named = s.named ∧ nl'.lookup id = some i ∧ ∀ k v, nl.lookup k = some v → nl'.lookup k = some v := by
  unfold freshCopy at h
  cases hl : nl.lookup id with
  | some j =>
    rw [hl] at h
    simp only [pure_ok, Prod.mk.injEq] at h
    obtain ⟨⟨rfl, rfl⟩, rfl⟩ := h
    exact ⟨SameStk.refl _, rfl, hl, fun _ _ h => h⟩
  | none =>
    rw [hl] at h
    simp only [bind_ok, tickLbl_ok, pure_ok] at h
    obtain ⟨i', s1, h1, h2⟩ := h
    simp only [Prod.mk.injEq] at h1 h2
    obtain ⟨rfl, rfl⟩ := h1
    obtain ⟨⟨rfl, rfl⟩, rfl⟩ := h2
    refine ⟨sameStk_tickedLbl _ _, rfl, ?_, fun k v hk => ?_⟩
    · simp [List.lookup_append, hl]
    · simp [List.lookup_append, hk]

/-- **M1**: the loop over the blueprint makes a copy of the blueprint, under the label table it ends with (or any larger one) -/
theorem buildItems_copy (d : List (String × Param)) (endL : Nat) : ∀ (bp : List LItem) (nl : List (Nat × Nat)) (s : St)
    (out : List LItem) (s' : St), buildItems d endL bp nl s = .ok (out, s') →
    SameStk s s' ∧ s'.named = s.named ∧ NoNone out ∧ ∃ nl' : List (Nat × Nat), (∀ k v, nl.lookup k = some v → nl'.lookup k = some v) ∧
      ∀ nl'', (∀ k v, nl'.lookup k = some v → nl''.lookup k = some v) → All2 (cpRel (expCopy nl'' d endL)) bp out := by
  intro bp
  induction bp with
  | nil =>
    intro nl s out s' h
    simp only [buildItems, pure_ok, Prod.mk.injEq] at h
    obtain ⟨rfl, rfl⟩ := h
    exact ⟨SameStk.refl _, rfl, fun x hx => by simp at hx, nl, fun _ _ h => h, fun _ _ => .nil⟩
  | cons x r ih =>
    intro nl s out s' h
    cases x with
    | label id nm =>
      simp only [buildItems, bind_ok, pure_ok] at h
      obtain ⟨p, s1, h1, rest, s2, h2, h3⟩ := h
      obtain ⟨nl1, i⟩ := p
      simp only [Prod.mk.injEq] at h3
      obtain ⟨rfl, rfl⟩ := h3
      obtain ⟨e1, n1, lk1, k1⟩ := freshCopy_cp h1
      obtain ⟨e2, n2, nn, nl2, k2, all⟩ := ih _ _ _ _ h2
      refine ⟨e1.trans e2, n2.trans n1, ?_, nl2, fun k v hk => k2 k v (k1 k v hk), fun nl'' hh => .cons ?_ (all nl'' hh)⟩
      · intro x hx root e
        simp only [List.mem_cons] at hx
        rcases hx with rfl | hx
        · cases e
        · exact nn x hx root e
      · exact ⟨false, by simp [expCopy, hh id i (k2 id i lk1)]⟩
    | ljump root l =>
      cases l with
      | none => simp [buildItems, fail_ok] at h
      | some l =>
        simp only [buildItems, bind_ok, pure_ok] at h
        obtain ⟨p, s1, h1, root', s2, h2, rest, s3, h3, h4⟩ := h
        obtain ⟨nl1, i⟩ := p
        simp only [Prod.mk.injEq] at h4
        obtain ⟨rfl, rfl⟩ := h4
        obtain ⟨e1, n1, lk1, k1⟩ := freshCopy_cp h1
        obtain ⟨rfl, rfl⟩ := buildOp_spec h2
        obtain ⟨e2, n2, nn, nl2, k2, all⟩ := ih _ _ _ _ h3
        refine ⟨(e1.trans (sameStk_tickedOp _ _)).trans e2, n2.trans n1, ?_, nl2, fun k v hk => k2 k v (k1 k v hk),
          fun nl'' hh => .cons ?_ (all nl'' hh)⟩
        · intro x hx root' e
          simp only [List.mem_cons] at hx
          rcases hx with rfl | hx
          · cases e
          · exact nn x hx root' e
        · exact ⟨s1.opc + 1, by simp [expCopy, hh l i (k2 l i lk1)]⟩
    | op o =>
      simp only [buildItems] at h
      split at h
      · rename_i hret
        have hname : o.name = Gen.op_return := by simpa using hret
        simp only [bind_ok, pure_ok] at h
        obtain ⟨root', s2, h2, rest, s3, h3, h4⟩ := h
        simp only [Prod.mk.injEq] at h4
        obtain ⟨rfl, rfl⟩ := h4
        obtain ⟨rfl, rfl⟩ := buildOp_spec h2
        obtain ⟨e2, n2, nn, nl2, k2, all⟩ := ih _ _ _ _ h3
        refine ⟨(sameStk_tickedOp _ _).trans e2, n2, ?_, nl2, k2, fun nl'' hh => .cons ?_ (all nl'' hh)⟩
        · intro x hx root' e
          simp only [List.mem_cons] at hx
          rcases hx with rfl | hx
          · cases e
          · exact nn x hx root' e
        · simp only [cpRel, if_pos hname, expCopy]
          exact ⟨s.opc + 1, by simp⟩
      · rename_i hret
        have hname : o.name ≠ Gen.op_return := by simpa using hret
        simp only [bind_ok, pure_ok] at h
        obtain ⟨o', s2, h2, rest, s3, h3, h4⟩ := h
        simp only [Prod.mk.injEq] at h4
        obtain ⟨rfl, rfl⟩ := h4
        obtain ⟨rfl, rfl⟩ := buildOp_spec h2
        obtain ⟨e2, n2, nn, nl2, k2, all⟩ := ih _ _ _ _ h3
        refine ⟨(sameStk_tickedOp _ _).trans e2, n2, ?_, nl2, k2, fun nl'' hh => .cons ?_ (all nl'' hh)⟩
        · intro x hx root' e
          simp only [List.mem_cons] at hx
          rcases hx with rfl | hx
          · cases e
          · exact nn x hx root' e
        · simp only [cpRel, if_neg hname, expCopy]
          exact ⟨_, rfl⟩

/-- a compiled macro call: start label, a copy of the blueprint, end label -/
theorem macroStmt_shape {cm : Macros} {name : String} {args : List Param} {s : St} {items : List LItem} {s' : St}
    (h : macroStmt cm name args s = .ok (items, s')) :
    ∃ mb startL endL out nl, cm.lookup name = some mb ∧ items = [.label startL false] ++ out ++ [.label endL false] ∧
      All2 (cpRel (expCopy nl (zipDict mb.vars args) endL)) mb.bp out ∧ NoNone out ∧ SameStk s s' ∧ s'.named = s.named ∧
      mb.vars.all (fun v => ((zipDict mb.vars args).lookup v).isSome) = true := by
  unfold macroStmt at h
  cases hl : cm.lookup name with
  | none => rw [hl] at h; simp [fail_ok] at h
  | some mb =>
    rw [hl] at h
    simp only [buildMacro] at h
    split at h
    · rename_i hall
      simp only [bind_ok, tickLbl_ok, pure_ok] at h
      obtain ⟨startL, s1, h1, endL, s2, h2, out, s3, h3, h4⟩ := h
      simp only [Prod.mk.injEq] at h1 h2 h4
      obtain ⟨rfl, rfl⟩ := h1
      obtain ⟨rfl, rfl⟩ := h2
      obtain ⟨rfl, rfl⟩ := h4
      obtain ⟨e3, n3, nn, nl', _, all⟩ := buildItems_copy _ _ _ _ _ _ _ h3
      exact ⟨mb, _, _, out, nl', rfl, rfl, all nl' (fun _ _ h => h), nn, ((sameStk_tickedLbl _ _).trans (sameStk_tickedLbl _ _)).trans e3,
        by rw [n3]; rfl, hall⟩
    · simp [fail_ok] at h

end ESV.Comp
