import ESV.Comp.CgAlloc
/-
`codegen_correct`, macros, the source side alone: the translation of a macro call only grows the node table (its label nodes
are made at the call, above everything there was), for every depth of expansion.
-/
namespace ESV.Comp
open ESV ESV.Beh

/-- a translation from a table with new nodes on top of `b` changes nothing below `b` but what the zone of `b` allows -/
theorem Grow.restrict {Z Z' : Nat → Prop} {b b1 R : Src.B} (hp : Pushes b b1) (h : Grow Z' b1 R)
    (hz : ∀ i, i < (tbl b).length → Z' i → Z i) : Grow Z b R := by
  refine ⟨Nat.le_trans hp.len h.len, fun i hi => ?_⟩
  rcases h.2 i (Nat.lt_of_lt_of_le hi hp.len) with e | ⟨z, k, e⟩
  · exact .inl (e.trans (hp.same hi))
  · exact .inr ⟨hz i hi z, k, e⟩

/-- the label zone of an expansion: the nodes of the labels allocated for it -/
def labZone (labs : List (String × Nat)) : Nat → Prop := fun i => ∃ n, labs.lookup n = some i

theorem macro_grow (sm : List Src.Macro) : ∀ (fuel : Nat) (Z : Nat → Prop) (env : Src.Env) (name : String) (args : List Beh.Param)
    (k : Nat) (b : Src.B), Grow Z b (Src.tr fuel sm env (.macroCall name args) k b).1 := by
  intro fuel
  induction fuel with
  | zero => intro Z env name args k b; rw [Src.tr]; exact (invalid_pushes _ _).grow
  | succ f ih =>
    intro Z env name args k b
    rw [Src.tr]
    simp only
    cases hf : sm.find? (fun m => m.name == name) with
    | none => exact (invalid_pushes _ _).grow
    | some m =>
      simp only
      split
      · exact (invalid_pushes _ _).grow
      · obtain ⟨ainv, _⟩ := allocLabels_spec b (Src.labelsOfStmts m.body)
        generalize Src.allocLabels b (Src.labelsOfStmts m.body) = AL at ainv
        refine Grow.restrict ainv.pushes (trStmts_good (labZone AL.2) f sm
          (fun env' name' args' k' b' _ => ih _ env' name' args' k' b') m.body _ (fun n i h => ⟨n, h⟩) k AL.1).1 (fun i hi hz => ?_)
        obtain ⟨n, hn⟩ := hz
        have := (ainv.node n i hn).1
        omega

/-- the translation of a statement list only grows the table, and sets the nodes of its labels -/
theorem trStmts_good' (Z : Nat → Prop) (fuel : Nat) (sm : List Src.Macro) (S : Src.Stmts) (env : Src.Env) (hd : Dense Z env) (k : Nat)
    (b : Src.B) : TrGood Z env (Src.trStmts fuel sm env S k b).1 b (dfSStmts S) :=
  trStmts_good Z fuel sm (fun env' name' args' k' b' _ => macro_grow sm fuel Z env' name' args' k' b') S env hd k b

end ESV.Comp
