import ESV.Comp.Front5
import ESV.Comp.BackSemFin2
/-
`frontend_wfl`, part 1: vocabulary.  What a piece of labelled code produced by the front end satisfies beyond C03's
`counter_fresh`: its label definitions are pairwise distinct (internal labels: numbers reserved while visiting or ticked
while collecting; user labels: ids of the label table), label-jump roots are jump-carrying ops, a context op is followed
by a plain op or a test.
-/
namespace ESV.Comp
open ESV ESV.Beh

/-! ### label ids of a piece -/

def LItem.intId : LItem → Option Nat
  | .label i false => some i
  | _ => none

def LItem.usrId : LItem → Option Nat
  | .label i true => some i
  | _ => none

/-- ids of the internal labels defined in a piece -/
def intIds (l : List LItem) : List Nat := l.filterMap LItem.intId
/-- ids of the user labels (`§name;`) defined in a piece -/
def usrIds (l : List LItem) : List Nat := l.filterMap LItem.usrId

@[simp] theorem intIds_nil : intIds [] = [] := rfl
@[simp] theorem usrIds_nil : usrIds [] = [] := rfl
@[simp] theorem intIds_append (a b : List LItem) : intIds (a ++ b) = intIds a ++ intIds b := by simp [intIds]
@[simp] theorem usrIds_append (a b : List LItem) : usrIds (a ++ b) = usrIds a ++ usrIds b := by simp [usrIds]
@[simp] theorem intIds_cons_op (o : Op) (l : List LItem) : intIds (.op o :: l) = intIds l := rfl
@[simp] theorem usrIds_cons_op (o : Op) (l : List LItem) : usrIds (.op o :: l) = usrIds l := rfl
@[simp] theorem intIds_cons_ljump (r : Op) (t : Option Nat) (l : List LItem) : intIds (.ljump r t :: l) = intIds l := rfl
@[simp] theorem usrIds_cons_ljump (r : Op) (t : Option Nat) (l : List LItem) : usrIds (.ljump r t :: l) = usrIds l := rfl
@[simp] theorem intIds_cons_int (i : Nat) (l : List LItem) : intIds (.label i false :: l) = i :: intIds l := rfl
@[simp] theorem usrIds_cons_int (i : Nat) (l : List LItem) : usrIds (.label i false :: l) = usrIds l := rfl
@[simp] theorem intIds_cons_usr (i : Nat) (l : List LItem) : intIds (.label i true :: l) = intIds l := rfl
@[simp] theorem usrIds_cons_usr (i : Nat) (l : List LItem) : usrIds (.label i true :: l) = i :: usrIds l := rfl

/-- the label definitions of a piece are pairwise distinct if the internal ones are, the user ones are, and no id is both -/
theorem labelIds_nodup (l : List LItem) (h1 : (intIds l).Nodup) (h2 : (usrIds l).Nodup)
    (h3 : ∀ x ∈ intIds l, x ∉ usrIds l) : (labelIds l).Nodup := by
  induction l with
  | nil => simp [labelIds]
  | cons x r ih =>
    cases x with
    | op o => simpa [labelIds] using ih (by simpa using h1) (by simpa using h2) (by simpa using h3)
    | ljump root t => simpa [labelIds] using ih (by simpa using h1) (by simpa using h2) (by simpa using h3)
    | label i nm =>
      have mem_split : ∀ j, j ∈ labelIds r → j ∈ intIds r ∨ j ∈ usrIds r := by
        intro j hj
        rw [labelIds_eq_filterMap] at hj
        obtain ⟨y, hy, he⟩ := List.mem_filterMap.mp hj
        cases y with
        | op o => simp at he
        | ljump a b => simp at he
        | label k nk =>
          simp at he; subst he
          cases nk
          · exact .inl (List.mem_filterMap.mpr ⟨_, hy, rfl⟩)
          · exact .inr (List.mem_filterMap.mpr ⟨_, hy, rfl⟩)
      cases nm with
      | false =>
        simp only [intIds_cons_int, List.nodup_cons, usrIds_cons_int, List.mem_cons, forall_eq_or_imp] at h1 h2 h3
        simp only [labelIds, List.nodup_cons]
        refine ⟨fun hm => ?_, ih h1.2 h2 h3.2⟩
        rcases mem_split i hm with h | h
        · exact h1.1 h
        · exact h3.1 h
      | true =>
        simp only [intIds_cons_usr, usrIds_cons_usr, List.nodup_cons, List.mem_cons, not_or] at h1 h2 h3
        simp only [labelIds, List.nodup_cons]
        refine ⟨fun hm => ?_, ih h1 h2.2 (fun x hx => (h3 x hx).2)⟩
        rcases mem_split i hm with h | h
        · exact (h3 i h).1 rfl
        · exact h2.1 h

/-! ### internal label ids: reserved while visiting or ticked while collecting -/

theorem nodup_of_count_le_one : ∀ {l : List Nat}, (∀ n, l.count n ≤ 1) → l.Nodup := by
  intro l
  induction l with
  | nil => intro _; exact List.nodup_nil
  | cons a r ih =>
    intro h
    have ha := h a
    simp only [List.count_cons_self] at ha
    have hnot : a ∉ r := by
      intro hm
      have := List.count_pos_iff.mpr hm
      omega
    refine List.nodup_cons.mpr ⟨hnot, ih (fun n => ?_)⟩
    have := h n
    simp only [List.count_cons] at this
    omega

/-- how often a number may occur in `l`: as often as it was allotted in `res` (the label numbers reserved while
visiting), plus once if it was ticked while the label counter went from `a` to `b` -/
def LblOK (res : List Nat) (a b : Nat) (l : List Nat) : Prop :=
  ∀ n, l.count n ≤ res.count n + (if a < n ∧ n ≤ b then 1 else 0)

theorem LblOK.nil (res : List Nat) (a b : Nat) : LblOK res a b [] := fun n => by simp

theorem LblOK.append {r1 r2 : List Nat} {a b c : Nat} {x y : List Nat} (h1 : LblOK r1 a b x) (h2 : LblOK r2 b c y)
    (hab : a ≤ b) (hbc : b ≤ c) : LblOK (r1 ++ r2) a c (x ++ y) := by
  intro n
  have a1 := h1 n
  have a2 := h2 n
  simp only [List.count_append]
  by_cases c1 : a < n ∧ n ≤ b
  · have c2 : ¬ (b < n ∧ n ≤ c) := by omega
    have c3 : a < n ∧ n ≤ c := by omega
    rw [if_pos c1] at a1
    rw [if_neg c2] at a2
    rw [if_pos c3]
    omega
  · by_cases c2 : b < n ∧ n ≤ c
    · have c3 : a < n ∧ n ≤ c := by omega
      rw [if_neg c1] at a1
      rw [if_pos c2] at a2
      rw [if_pos c3]
      omega
    · have c3 : ¬ (a < n ∧ n ≤ c) := by omega
      rw [if_neg c1] at a1
      rw [if_neg c2] at a2
      rw [if_neg c3]
      omega

theorem LblOK.of_count_le {r : List Nat} {a b : Nat} {x y : List Nat} (h : LblOK r a b x) (hc : ∀ n, y.count n ≤ x.count n) :
    LblOK r a b y := fun n => Nat.le_trans (hc n) (h n)

theorem LblOK.res_le {r r' : List Nat} {a b : Nat} {x : List Nat} (h : LblOK r a b x) (hc : ∀ n, r.count n ≤ r'.count n) :
    LblOK r' a b x := fun n => by have := h n; have := hc n; omega

theorem LblOK.mono {r : List Nat} {a a' b b' : Nat} {x : List Nat} (h : LblOK r a b x) (ha : a' ≤ a) (hb : b ≤ b') :
    LblOK r a' b' x := by
  intro n
  have := h n
  by_cases c1 : a < n ∧ n ≤ b
  · have c2 : a' < n ∧ n ≤ b' := by omega
    rw [if_pos c1] at this
    rw [if_pos c2]
    exact this
  · rw [if_neg c1] at this
    omega

theorem LblOK.tick (a : Nat) : LblOK [] a (a + 1) [a + 1] := by
  intro n
  by_cases h : n = a + 1
  · subst h; simp
  · have : ([a + 1] : List Nat).count n = 0 := by
      rw [List.count_eq_zero]; simpa using h
    simp [this]

theorem LblOK.reserved (k a b : Nat) : LblOK [k] a b [k] := fun n => by omega

/-! ### context ops -/

/-- what may stand directly after a context op in front-end output: a plain op other than `Return` (inside a macro a
`Return` becomes a `Jump`), or a test -/
def afterCtxS : LItem → Bool
  | .label _ _ => false
  | .ljump root _ => !isJump root.name
  | .op o => o.name != Gen.op_return

def ctxOKs : List LItem → Bool
  | [] => true
  | [_] => true
  | x :: y :: r => (!isCtxL x || afterCtxS y) && ctxOKs (y :: r)

def lastNotCtx (l : List LItem) : Bool :=
  match l.getLast? with
  | some x => !isCtxL x
  | none => true

/-- a piece: every context op in it has its op right after it -/
def CtxP (l : List LItem) : Prop := ctxOKs l = true ∧ lastNotCtx l = true

def headOKs (y : LItem) : List LItem → Bool
  | [] => true
  | z :: _ => !isCtxL y || afterCtxS z

theorem ctxOKs_cons (y : LItem) (L : List LItem) : ctxOKs (y :: L) = (headOKs y L && ctxOKs L) := by
  cases L <;> simp [ctxOKs, headOKs]

theorem afterCtxS_imp (x : LItem) (h : afterCtxS x = true) : afterCtxOK x = true := by
  cases x <;> simp_all [afterCtxS, afterCtxOK]

theorem ctxOKs_imp : ∀ (l : List LItem), ctxOKs l = true → ctxOK l = true
  | [], _ => rfl
  | [_], _ => rfl
  | x :: y :: r, h => by
    simp only [ctxOKs, Bool.and_eq_true, Bool.or_eq_true, Bool.not_eq_true'] at h
    simp only [ctxOK, Bool.and_eq_true, Bool.or_eq_true, Bool.not_eq_true']
    exact ⟨h.1.imp id (afterCtxS_imp y), ctxOKs_imp (y :: r) h.2⟩

theorem CtxP.nil : CtxP [] := ⟨rfl, rfl⟩

theorem lastNotCtx_append (a b : List LItem) (hb : lastNotCtx b = true) (ha : lastNotCtx a = true) : lastNotCtx (a ++ b) = true := by
  cases b with
  | nil => simpa using ha
  | cons y r =>
    simp only [lastNotCtx] at hb ⊢
    rw [List.getLast?_append]
    cases hq : (y :: r).getLast? with
    | none => simp [List.getLast?_eq_none_iff] at hq
    | some z => rw [hq] at hb; simpa using hb

theorem CtxP.append {a b : List LItem} (ha : CtxP a) (hb : CtxP b) : CtxP (a ++ b) := by
  refine ⟨?_, lastNotCtx_append a b hb.2 ha.2⟩
  obtain ⟨ha1, ha2⟩ := ha
  induction a with
  | nil => exact hb.1
  | cons x r ih =>
    rw [ctxOKs_cons, Bool.and_eq_true] at ha1
    cases r with
    | nil =>
      simp only [List.cons_append, List.nil_append, ctxOKs_cons, Bool.and_eq_true]
      refine ⟨?_, hb.1⟩
      have : isCtxL x = false := by simpa [lastNotCtx] using ha2
      cases b <;> simp [headOKs, this]
    | cons y r' =>
      have hl : lastNotCtx (y :: r') = true := by
        simp only [lastNotCtx] at ha2 ⊢
        rwa [List.getLast?_cons_cons] at ha2
      simp only [List.cons_append, ctxOKs_cons, Bool.and_eq_true]
      refine ⟨by simpa [headOKs] using ha1.1, ?_⟩
      have := ih ha1.2 hl
      simpa [ctxOKs_cons] using this

/-- a piece without context ops -/
def NoCtx (l : List LItem) : Prop := ∀ x ∈ l, isCtxL x = false

theorem NoCtx.ctxP {l : List LItem} (h : NoCtx l) : CtxP l := by
  induction l with
  | nil => exact CtxP.nil
  | cons x r ih =>
    have hx : isCtxL x = false := h x (by simp)
    have hr := ih (fun y hy => h y (List.mem_cons_of_mem _ hy))
    have h1 : CtxP [x] := ⟨rfl, by simp [lastNotCtx, hx]⟩
    exact h1.append hr

theorem NoCtx.label (i : Nat) (b : Bool) : NoCtx [.label i b] := fun x hx => by simp at hx; subst hx; rfl
theorem NoCtx.ljump (r : Op) (t : Option Nat) : NoCtx [.ljump r t] := fun x hx => by simp at hx; subst hx; rfl
theorem NoCtx.append {a b : List LItem} (ha : NoCtx a) (hb : NoCtx b) : NoCtx (a ++ b) := fun x hx => by
  rcases List.mem_append.mp hx with h | h
  · exact ha x h
  · exact hb x h

/-! ### the label table and the label counter -/

def namedIds (s : St) : List Nat := s.named.map (·.2)

/-- the interval of label numbers reserved while visiting the routine / macro being collected -/
structure LCtx where
  LB : Nat
  HB : Nat

structure StOK (c : LCtx) (s : St) : Prop where
  hb : c.HB ≤ s.lbc
  le : ∀ i ∈ namedIds s, i ≤ s.lbc
  out : ∀ i ∈ namedIds s, i ≤ c.LB ∨ c.HB < i
  inj : ∀ n m i, s.named.lookup n = some i → s.named.lookup m = some i → n = m

structure Ext (s s' : St) : Prop where
  lbc : s.lbc ≤ s'.lbc
  keep : ∀ n i, s.named.lookup n = some i → s'.named.lookup n = some i
  new : ∀ i ∈ namedIds s', i ∈ namedIds s ∨ (s.lbc < i ∧ i ≤ s'.lbc)

theorem Ext.refl (s : St) : Ext s s := ⟨Nat.le_refl _, fun _ _ h => h, fun _ h => .inl h⟩

theorem Ext.trans {a b c : St} (h1 : Ext a b) (h2 : Ext b c) : Ext a c :=
  ⟨Nat.le_trans h1.lbc h2.lbc, fun n i h => h2.keep n i (h1.keep n i h), fun i hi => by
    rcases h2.new i hi with h | h
    · rcases h1.new i h with h' | h'
      · exact .inl h'
      · have := h2.lbc; exact .inr ⟨h'.1, by omega⟩
    · have := h1.lbc; exact .inr ⟨by omega, h.2⟩⟩

/-- states that differ in the op counter and the loop / case stacks only -/
def SameL (s s' : St) : Prop := s'.lbc = s.lbc ∧ s'.named = s.named

theorem SameL.ext {s s' : St} (h : SameL s s') : Ext s s' :=
  ⟨by rw [h.1]; exact Nat.le_refl _, fun n i hn => by rw [h.2]; exact hn, fun i hi => .inl (by simpa [namedIds, h.2] using hi)⟩

theorem SameL.ok {c : LCtx} {s s' : St} (h : SameL s s') (hs : StOK c s) : StOK c s' :=
  ⟨by rw [h.1]; exact hs.hb, fun i hi => by rw [h.1]; exact hs.le i (by simpa [namedIds, h.2] using hi),
   fun i hi => hs.out i (by simpa [namedIds, h.2] using hi), fun n m i => by rw [h.2]; exact hs.inj n m i⟩

theorem SameL.refl (s : St) : SameL s s := ⟨rfl, rfl⟩
theorem SameL.trans {a b c : St} (h1 : SameL a b) (h2 : SameL b c) : SameL a c := ⟨h2.1.trans h1.1, h2.2.trans h1.2⟩

/-- a number not in the label table stays out of it if it is not above the label counter -/
theorem fresh_ext {s s' : St} (h : Ext s s') (x : Nat) (hx : x ∉ namedIds s) (hle : x ≤ s.lbc) : x ∉ namedIds s' := by
  intro hm
  rcases h.new x hm with h' | h'
  · exact hx h'
  · omega

/-- one tick of the label counter for an internal label -/
theorem tick_ok {c : LCtx} {s : St} (hs : StOK c s) : StOK c (s.tickedLbl 1) :=
  ⟨by have := hs.hb; simp [St.tickedLbl]; omega, fun i hi => by have := hs.le i hi; simp [St.tickedLbl]; omega,
   fun i hi => hs.out i hi, hs.inj⟩

theorem tick_ext (s : St) : Ext s (s.tickedLbl 1) :=
  ⟨by simp [St.tickedLbl], fun _ _ h => h, fun _ h => .inl h⟩

theorem tick_fresh {c : LCtx} {s : St} (hs : StOK c s) : s.lbc + 1 ∉ namedIds (s.tickedLbl 1) := by
  intro hm
  have := hs.le _ hm
  omega

end ESV.Comp
