import ESV.Comp.FrontW8
/-
`frontend_wfl`, part 9: a macro call (`buildMacro`), and what makes a collected body a blueprint.
-/
namespace ESV.Comp
open ESV ESV.Beh

theorem count_le_one_of_nodup : ∀ {l : List Nat}, l.Nodup → ∀ n, l.count n ≤ 1 := by
  intro l
  induction l with
  | nil => intro _ n; simp
  | cons a r ih =>
    intro h n
    rw [List.nodup_cons] at h
    simp only [List.count_cons]
    have := ih h.2 n
    by_cases e : a = n
    · subst e
      have : r.count a = 0 := List.count_eq_zero.mpr h.1
      simp [this]
    · have : (a == n) = false := by simpa using e
      simp [this]; omega

theorem LblOK.of_nodup {a b : Nat} {l : List Nat} (hn : l.Nodup) (hr : ∀ x ∈ l, a < x ∧ x ≤ b) : LblOK [] a b l := by
  intro n
  have h1 := count_le_one_of_nodup hn n
  by_cases hc : 0 < l.count n
  · have := hr n (List.count_pos_iff.mp hc)
    rw [if_pos this]; simp; exact h1
  · simp; omega

theorem filterMap_nodup_of_inj {f : Nat → Option Nat} (hf : ∀ k1 k2 v, f k1 = some v → f k2 = some v → k1 = k2) :
    ∀ {l : List Nat}, l.Nodup → (l.filterMap f).Nodup := by
  intro l
  induction l with
  | nil => intro _; simp
  | cons a r ih =>
    intro h
    rw [List.nodup_cons] at h
    simp only [List.filterMap_cons]
    cases hfa : f a with
    | none => exact ih h.2
    | some v =>
      simp only [List.nodup_cons]
      refine ⟨fun hm => ?_, ih h.2⟩
      obtain ⟨k, hk, hv⟩ := List.mem_filterMap.mp hm
      have := hf a k v hfa hv
      subst this
      exact h.1 hk

theorem buildMacro_w {c : LCtx} {m : MacroBP} (hb : BpW m.bp) (args : List Param) : WM c [] [] (buildMacro m args) := by
  intro s items s' hs h
  simp only [buildMacro] at h
  split at h
  · simp only [bind_ok, tickLbl_ok, pure_ok] at h
    obtain ⟨startL, s1, h1, endL, s2, h2, out, s3, h3, h4⟩ := h
    simp only [Prod.mk.injEq] at h1 h2 h4
    obtain ⟨rfl, rfl⟩ := h1
    obtain ⟨rfl, rfl⟩ := h2
    obtain ⟨rfl, rfl⟩ := h4
    have w2 := W.then_tick (W.tick hs)
    have hs2 := w2.ok
    generalize hS2 : (s.tickedLbl 1).tickedLbl 1 = S2 at *
    have nl0 : NL S2.lbc [] S2 := ⟨fun k v hk => by simp at hk, fun k1 k2 v hk => by simp at hk⟩
    obtain ⟨nl', n', _, nm, le, rel, ids, _⟩ := buildItems_w _ _ S2.lbc _ _ _ _ _ nl0 (Nat.le_refl _) h3
    have hids : namedIds s' = namedIds S2 := by simp [namedIds, nm]
    have hmem : ∀ x ∈ intIds out, S2.lbc < x ∧ x ≤ s'.lbc := by
      intro x hx
      rw [ids] at hx
      obtain ⟨k, _, hk⟩ := List.mem_filterMap.mp hx
      exact n'.rng k x hk
    have wout : W c [] [] S2 out s' := by
      refine ⟨⟨Nat.le_trans hs2.hb le, fun i hi => ?_, fun i hi => hs2.out i (by rwa [hids] at hi),
          fun n m i => by rw [nm]; exact hs2.inj n m i⟩,
        ⟨le, fun n i hn => by rw [nm]; exact hn, fun i hi => .inl (by rwa [hids] at hi)⟩, ?_, ?_, ?_, ?_, ?_⟩
      · have := hs2.le i (by rwa [hids] at hi); omega
      · rw [ids]
        refine LblOK.of_nodup (filterMap_nodup_of_inj n'.inj hb.labs) (fun x hx => ?_)
        obtain ⟨k, _, hk⟩ := List.mem_filterMap.mp hx
        exact n'.rng k x hk
      · intro x hx
        obtain ⟨h1, h2⟩ := hmem x hx
        refine ⟨fun hm => ?_, h2⟩
        rw [hids] at hm
        have := hs2.le x hm
        omega
      · rw [usrIds_rel rel]; simp
      · exact root_rel rel hb.root
      · exact ctxP_rel rel hb.ctx
    have w3 := w2.append wout
    refine (w3.allot (fun n => by simp) (fun n => by simp)).rearr (fun n => ?_) (fun n => ?_) ?_ ?_
    · simp only [intIds_append, intIds_cons_int, intIds_nil, List.count_append, List.count_cons, List.count_nil]
      omega
    · simp only [usrIds_append, usrIds_cons_int, usrIds_nil, List.count_append, List.count_nil]
      omega
    · intro z hz
      simp only [List.mem_append, List.mem_cons, List.not_mem_nil, or_false] at hz
      rcases hz with (rfl | hz) | rfl
      · rfl
      · exact wout.root z hz
      · rfl
    · exact ((NoCtx.label _ _).ctxP.append wout.ctx).append (NoCtx.label _ _).ctxP
  · simp [fail_ok] at h

theorem macroStmt_w {c : LCtx} {ms : Macros} (hms : MsW ms) (name : String) (args : List Param) :
    WM c [] [] (macroStmt ms name args) := by
  intro s items s' hs h
  unfold macroStmt at h
  cases hl : ms.lookup name with
  | none => rw [hl] at h; simp [fail_ok] at h
  | some m =>
    rw [hl] at h
    exact buildMacro_w (hms (name, m) (lookup_mem ms name m hl)) args _ _ _ hs h

end ESV.Comp
