import ESV.Comp.Front
/-
`counter_fresh` for the handlers' `collect()` methods, each relative to what its sub-handlers guarantee.
-/
namespace ESV.Comp
open ESV

/-- What a piece of labelled code produced while the op counter went from `lo` to `hi` satisfies: its op offsets are
pairwise distinct numbers of `(lo, hi]`, and its plain ops are not named like jump-carrying ops. -/
structure Spec (lo hi : Nat) (items : List LItem) : Prop where
  mono : lo ≤ hi
  good : Good lo hi (offs items)
  names : ∀ n ∈ plainNames items, isJumpName n = false

/-- a collecting computation whose result is always fresh -/
def SpecM (m : M (List LItem)) : Prop := ∀ s items s', m s = .ok (items, s') → Spec s.opc s'.opc items

theorem Spec.nil (lo : Nat) : Spec lo lo [] := ⟨Nat.le_refl _, Good.nil _ _, fun n hn => by simp at hn⟩

theorem Spec.append {a b c : Nat} {x y : List LItem} (h1 : Spec a b x) (h2 : Spec b c y) : Spec a c (x ++ y) :=
  ⟨Nat.le_trans h1.mono h2.mono, by simpa using h1.good.append h2.good h1.mono h2.mono, fun n hn => by
    simp only [plainNames_append, List.mem_append] at hn
    rcases hn with hn | hn
    · exact h1.names n hn
    · exact h2.names n hn⟩

theorem Spec.label (lo : Nat) (i : Nat) (b : Bool) : Spec lo lo [.label i b] :=
  ⟨Nat.le_refl _, by simpa using Good.nil lo lo, fun n hn => by simp at hn⟩

theorem Spec.opItem (lo : Nat) (name : String) (ps : List Param) (h : isJumpName name = false) :
    Spec lo (lo + 1) [.op ⟨lo + 1, name, ps⟩] :=
  ⟨Nat.le_succ _, by simpa using (Good.single (Nat.lt_succ_self lo) (Nat.le_refl _)), fun n hn => by
    simp only [plainNames_cons_op, plainNames_nil, List.mem_singleton] at hn; rw [hn]; exact h⟩

theorem Spec.jumpItem (lo : Nat) (name : String) (ps : List Param) (l : Option Nat) :
    Spec lo (lo + 1) [.ljump ⟨lo + 1, name, ps⟩ l] :=
  ⟨Nat.le_succ _, by simpa using (Good.single (Nat.lt_succ_self lo) (Nat.le_refl _)), fun n hn => by simp at hn⟩

theorem Spec.cons_label {lo hi : Nat} {x : List LItem} (i : Nat) (b : Bool) (h : Spec lo hi x) : Spec lo hi (.label i b :: x) :=
  ⟨h.mono, by simpa using h.good, fun n hn => h.names n (by simpa using hn)⟩

/-- rearranging / dropping items keeps a piece fresh -/
theorem Spec.of_le {lo hi : Nat} {x y : List LItem} (h : Spec lo hi x)
    (hc : ∀ n, (offs y).count n ≤ (offs x).count n) (hn : ∀ n ∈ plainNames y, n ∈ plainNames x) : Spec lo hi y :=
  ⟨h.mono, h.good.of_count_le hc, fun n hm => h.names n (hn n hm)⟩

/-! ### simple statements -/

theorem opStmt_spec {name : String} (ps : List Param) (hn : isJumpName name = false) : SpecM (opStmt name ps) := by
  intro s items s' h
  simp only [opStmt, bind_ok, pure_ok] at h
  obtain ⟨o, s1, h1, h2⟩ := h
  simp only [Prod.mk.injEq] at h2
  obtain ⟨rfl, rfl⟩ := h2
  obtain ⟨rfl, rfl⟩ := genOp_spec h1
  exact Spec.opItem _ _ _ hn

theorem inlStmt_spec {cname name : String} (cp : Param) (ps : List Param) (hc : isJumpName cname = false)
    (hn : isJumpName name = false) : SpecM (inlStmt cname cp name ps) := by
  intro s items s' h
  simp only [inlStmt, bind_ok, pure_ok] at h
  obtain ⟨c, s1, h1, o, s2, h2, h3⟩ := h
  simp only [Prod.mk.injEq] at h3
  obtain ⟨rfl, rfl⟩ := h3
  obtain ⟨rfl, rfl⟩ := genOp_spec h1
  obtain ⟨rfl, rfl⟩ := genOp_spec h2
  exact (Spec.opItem s.opc cname [cp] hc).append (Spec.opItem _ name ps hn)

theorem withOf_spec {cname : String} (cp : Param) {inner : M (List LItem)} (hc : isJumpName cname = false)
    (hi : SpecM inner) : SpecM (withOf cname cp inner) := by
  intro s items s' h
  simp only [withOf, bind_ok] at h
  obtain ⟨c, s1, h1, sub, s2, h2, h3⟩ := h
  obtain ⟨rfl, rfl⟩ := genOp_spec h1
  split at h3
  · simp only [pure_ok, Prod.mk.injEq] at h3
    obtain ⟨rfl, rfl⟩ := h3
    exact (Spec.opItem s.opc cname [cp] hc).append (hi _ _ _ h2)
  · simp [fail_ok] at h3

theorem labelStmt_spec (n : String) : SpecM (labelStmt n) := by
  intro s items s' h
  simp only [labelStmt, bind_ok, pure_ok] at h
  obtain ⟨i, s1, h1, h2⟩ := h
  simp only [Prod.mk.injEq] at h2
  obtain ⟨rfl, rfl⟩ := h2
  rw [userLabel_spec _ _ _ _ h1]
  exact Spec.label _ _ _

theorem jumpStmt_spec (n : String) : SpecM (jumpStmt n) := by
  intro s items s' h
  simp only [jumpStmt, bind_ok, pure_ok] at h
  obtain ⟨i, s1, h1, j, s2, h2, h3⟩ := h
  simp only [Prod.mk.injEq] at h3
  obtain ⟨rfl, rfl⟩ := h3
  obtain ⟨rfl, rfl⟩ := genJump_spec h2
  have e := userLabel_spec _ _ _ _ h1
  simp only [opc_tickedOp, e]
  rw [← e]
  exact Spec.jumpItem _ _ _ _

theorem callStmt_spec (n : String) : SpecM (callStmt n) := by
  intro s items s' h
  simp only [callStmt, bind_ok, pure_ok] at h
  obtain ⟨i, s1, h1, o, s2, h2, h3⟩ := h
  simp only [Prod.mk.injEq] at h3
  obtain ⟨rfl, rfl⟩ := h3
  obtain ⟨rfl, rfl⟩ := genOp_spec h2
  have e := userLabel_spec _ _ _ _ h1
  simp only [opc_tickedOp]
  rw [← e]
  exact Spec.jumpItem _ _ _ _

theorem brkStmt_spec : SpecM brkStmt := by
  intro s items s' h
  simp only [brkStmt, bind_ok, getSt_ok] at h
  obtain ⟨s0, s1, h1, h2⟩ := h
  simp only [Prod.mk.injEq] at h1
  obtain ⟨rfl, rfl⟩ := h1
  cases hc : s1.cases with
  | nil => rw [hc] at h2; simp [fail_ok] at h2
  | cons e r =>
    rw [hc] at h2
    simp only [bind_ok, pure_ok] at h2
    obtain ⟨j, s2, h3, h4⟩ := h2
    simp only [Prod.mk.injEq] at h4
    obtain ⟨rfl, rfl⟩ := h4
    obtain ⟨rfl, rfl⟩ := genJump_spec h3
    exact Spec.jumpItem _ _ _ _

theorem contStmt_spec : SpecM contStmt := by
  intro s items s' h
  simp only [contStmt, bind_ok, getSt_ok] at h
  obtain ⟨s0, s1, h1, h2⟩ := h
  simp only [Prod.mk.injEq] at h1
  obtain ⟨rfl, rfl⟩ := h1
  cases hc : s1.loops with
  | nil => rw [hc] at h2; simp [fail_ok] at h2
  | cons e r =>
    rw [hc] at h2
    simp only [bind_ok, pure_ok] at h2
    obtain ⟨j, s2, h3, h4⟩ := h2
    simp only [Prod.mk.injEq] at h4
    obtain ⟨rfl, rfl⟩ := h4
    obtain ⟨rfl, rfl⟩ := genJump_spec h3
    exact Spec.jumpItem _ _ _ _

theorem brkLoopStmt_spec : SpecM brkLoopStmt := by
  intro s items s' h
  simp only [brkLoopStmt, bind_ok, getSt_ok] at h
  obtain ⟨s0, s1, h1, h2⟩ := h
  simp only [Prod.mk.injEq] at h1
  obtain ⟨rfl, rfl⟩ := h1
  cases hc : s1.loops with
  | nil => rw [hc] at h2; simp [fail_ok] at h2
  | cons e r =>
    rw [hc] at h2
    simp only [bind_ok, pure_ok] at h2
    obtain ⟨j, s2, h3, h4⟩ := h2
    simp only [Prod.mk.injEq] at h4
    obtain ⟨rfl, rfl⟩ := h4
    obtain ⟨rfl, rfl⟩ := genJump_spec h3
    exact Spec.jumpItem _ _ _ _

/-- the macro table: no blueprint carries a plain op named like a jump-carrying op -/
def MsOK (ms : Macros) : Prop := ∀ p ∈ ms, ∀ n ∈ plainNames p.2.bp, isJumpName n = false

theorem lookup_mem {α β : Type} [BEq α] [LawfulBEq α] (l : List (α × β)) (k : α) (v : β) (h : l.lookup k = some v) : (k, v) ∈ l := by
  induction l with
  | nil => simp at h
  | cons p r ih =>
    obtain ⟨k', v'⟩ := p
    simp only [List.lookup_cons] at h
    split at h
    · rename_i heq
      simp only [Option.some.injEq] at h
      have : k = k' := by simpa using heq
      subst this; subst h
      simp
    · exact List.mem_cons_of_mem _ (ih h)

theorem macroStmt_spec {ms : Macros} (hms : MsOK ms) (name : String) (args : List Param) : SpecM (macroStmt ms name args) := by
  intro s items s' h
  unfold macroStmt at h
  cases hl : ms.lookup name with
  | none => rw [hl] at h; simp [fail_ok] at h
  | some m =>
    rw [hl] at h
    obtain ⟨a, b, c⟩ := buildMacro_spec h
    exact ⟨a, b, fun n hn => hms _ (lookup_mem _ _ _ hl) n (c n hn)⟩

/-! ### blocks -/

structure BlkSpec (lo hi : Nat) (hjbs : List BP) (b : Blk) : Prop where
  mono : lo ≤ hi
  hdrs : offs b.hdrs = nums hjbs
  hnames : plainNames b.hdrs = []
  good : Good lo hi (offs b.items)
  names : ∀ n ∈ plainNames b.items, isJumpName n = false

theorem blockOf_spec {hjbs : List BP} {cf ins : Bool} {stmts : M (List LItem)} (hm : SpecM stmts) (hall : AllNum hjbs)
    {s : St} {b : Blk} {s' : St} (h : blockOf hjbs cf ins stmts s = .ok (b, s')) : BlkSpec s.opc s'.opc hjbs b := by
  simp only [blockOf, bind_ok] at h
  obtain ⟨ops, s1, h1, h2⟩ := h
  have sp := hm _ _ _ h1
  obtain ⟨m, a1, a2, g, nm⟩ := processBlock_spec hall h2
  exact ⟨Nat.le_trans sp.mono m, a1, a2, g s.opc sp.mono sp.good, fun n hn => sp.names n (nm n hn)⟩

theorem elsePartOf_spec {hasElse : Bool} {els : M (List LItem)} (hm : SpecM els) : SpecM (elsePartOf hasElse els) := by
  intro s items s' h
  unfold elsePartOf at h
  split at h
  · simp only [bind_ok, pure_ok] at h
    obtain ⟨b, s1, h1, h2⟩ := h
    simp only [Prod.mk.injEq] at h2
    obtain ⟨rfl, rfl⟩ := h2
    have bs := blockOf_spec hm (fun _ hb => by simp at hb) h1
    exact ⟨bs.mono, bs.good, bs.names⟩
  · simp only [bind_ok, pure_ok] at h
    obtain ⟨j, s1, h1, h2⟩ := h
    simp only [Prod.mk.injEq] at h2
    obtain ⟨rfl, rfl⟩ := h2
    obtain ⟨rfl, rfl⟩ := genJump_spec h1
    exact Spec.jumpItem _ _ _ _

/-! ### loops -/

theorem foreverOf_spec (lb : Nat) {body : M (List LItem)} (hm : SpecM body) : SpecM (foreverOf lb body) := by
  intro s items s' h
  simp only [foreverOf, bind_ok, pushLoop_ok, popLoop_ok, pure_ok] at h
  obtain ⟨u, s1, h1, b, s2, h2, j, s3, h3, u2, s4, h4, h5⟩ := h
  simp only [Prod.mk.injEq] at h1 h4 h5
  obtain ⟨_, rfl⟩ := h1
  obtain ⟨_, rfl⟩ := h4
  obtain ⟨rfl, rfl⟩ := h5
  obtain ⟨rfl, rfl⟩ := genJump_spec h3
  have bs := blockOf_spec hm (fun _ hb => by simp at hb) h2
  simp only [opc_pushLoop] at bs
  simp only [opc_popLoop, opc_tickedOp]
  have sp1 : Spec s.opc s2.opc b.items := ⟨bs.mono, bs.good, bs.names⟩
  have := (sp1.append (Spec.jumpItem s2.opc Gen.op_jump [] (some (lb + 1)))).append (Spec.label (s2.opc + 1) (lb + 2) false)
  exact (this.cons_label (lb + 1) false).of_le (fun n => by simp) (fun n hn => by simpa using hn)

theorem whileNeg_spec (lb : Nat) (h : Hdr) {body : M (List LItem)} (hm : SpecM body) : SpecM (whileNeg lb h body) := by
  intro s items s' hh
  simp only [whileNeg, bind_ok, pure_ok] at hh
  obtain ⟨br, s1, h1, b, s2, h2, j, s3, h3, h5⟩ := hh
  simp only [Prod.mk.injEq] at h5
  obtain ⟨rfl, rfl⟩ := h5
  obtain ⟨rfl, rfl⟩ := buildFor_none (b := loopBP h) rfl h1
  obtain ⟨rfl, rfl⟩ := genJump_spec h3
  have bs := blockOf_spec hm (fun _ hb => by simp at hb) h2
  simp only [opc_tickedOp] at bs ⊢
  have sp1 : Spec (s.opc + 1) s2.opc b.items := ⟨bs.mono, bs.good, bs.names⟩
  have := (((Spec.jumpItem s.opc (loopBP h).name (loopBP h).params (some (lb + 2))).append sp1).append
    (Spec.jumpItem s2.opc Gen.op_jump [] (some (lb + 1)))).append (Spec.label (s2.opc + 1) (lb + 2) false)
  exact (this.cons_label (lb + 1) false).of_le (fun n => by simp) (fun n hn => by simpa using hn)

theorem whilePos_spec (lb : Nat) (h : Hdr) {body : M (List LItem)} (hm : SpecM body) : SpecM (whilePos lb h body) := by
  intro s items s' hh
  simp only [whilePos, bind_ok, pure_ok, tickLbl_ok] at hh
  obtain ⟨c, s0, h0, bl, s0', h0', j, s1, h1, b, s2, h2, br, s3, h3, h5⟩ := hh
  simp only [Prod.mk.injEq] at h0 h0' h5
  obtain ⟨rfl, rfl⟩ := h0
  obtain ⟨rfl, rfl⟩ := h0'
  obtain ⟨rfl, rfl⟩ := h5
  obtain ⟨rfl, rfl⟩ := genJump_spec h1
  obtain ⟨rfl, rfl⟩ := buildFor_none (b := loopBP h) rfl h3
  have bs := blockOf_spec hm (fun _ hb => by simp at hb) h2
  simp only [opc_tickedOp, opc_tickedLbl] at bs ⊢
  have sp1 : Spec (s.opc + 1) s2.opc b.items := ⟨bs.mono, bs.good, bs.names⟩
  have := (((Spec.jumpItem s.opc Gen.op_jump [] (some (s.lbc + 1))).append sp1).append
    (Spec.jumpItem s2.opc (loopBP h).name (loopBP h).params (some (s.lbc + 1 + 1)))).append (Spec.label (s2.opc + 1) (lb + 2) false)
  exact this.of_le (fun n => by simp) (fun n hn => by simpa using hn)

theorem whileOf_spec (lb : Nat) (neg : Bool) (h : Hdr) {body : M (List LItem)} (hm : SpecM body) : SpecM (whileOf lb neg h body) := by
  intro s items s' hh
  cases neg with
  | true =>
    simp only [whileOf, bind_ok, pushLoop_ok, popLoop_ok, pure_ok, ↓reduceIte] at hh
    obtain ⟨u, s1, h1, r, s2, h2, u2, s3, h3, h4⟩ := hh
    simp only [Prod.mk.injEq] at h1 h3 h4
    obtain ⟨_, rfl⟩ := h1
    obtain ⟨_, rfl⟩ := h3
    obtain ⟨rfl, rfl⟩ := h4
    simpa using whileNeg_spec lb h hm _ _ _ h2
  | false =>
    simp only [whileOf, bind_ok, pushLoop_ok, popLoop_ok, pure_ok, Bool.false_eq_true, ↓reduceIte] at hh
    obtain ⟨u, s1, h1, r, s2, h2, u2, s3, h3, h4⟩ := hh
    simp only [Prod.mk.injEq] at h1 h3 h4
    obtain ⟨_, rfl⟩ := h1
    obtain ⟨_, rfl⟩ := h3
    obtain ⟨rfl, rfl⟩ := h4
    simpa using whilePos_spec lb h hm _ _ _ h2

theorem forOf_spec (lb : Nat) (h : Hdr) {init inc body : M (List LItem)} (hi : SpecM init) (hc : SpecM inc) (hm : SpecM body) :
    SpecM (forOf lb h init inc body) := by
  intro s items s' hh
  simp only [forOf, bind_ok, pushLoop_ok, popLoop_ok, pure_ok] at hh
  obtain ⟨u, s1, h1, i, s2, h2, j, s3, h3, b, s4, h4, e, s5, h5, br, s6, h6, u2, s7, h7, h8⟩ := hh
  simp only [Prod.mk.injEq] at h1 h7 h8
  obtain ⟨_, rfl⟩ := h1
  obtain ⟨_, rfl⟩ := h7
  obtain ⟨rfl, rfl⟩ := h8
  obtain ⟨rfl, rfl⟩ := genJump_spec h3
  obtain ⟨rfl, rfl⟩ := buildFor_none (b := loopBP h) rfl h6
  have si := hi _ _ _ h2
  have se := hc _ _ _ h5
  have bs := blockOf_spec hm (fun _ hb => by simp at hb) h4
  simp only [opc_tickedOp, opc_pushLoop] at bs si ⊢
  simp only [opc_popLoop, opc_tickedOp]
  have sp1 : Spec (s2.opc + 1) s4.opc b.items := ⟨bs.mono, bs.good, bs.names⟩
  have := (((si.append (Spec.jumpItem s2.opc Gen.op_jump [] (some (lb + 5)))).append sp1).append se).append
    (Spec.jumpItem s5.opc (loopBP h).name (loopBP h).params (some (lb + 3)))
  exact this.of_le (fun n => by simp) (fun n hn => by simpa using hn)

/-! ### if / elseif / else -/

/-- numbers an elseif holds after step 2: its header numbers and, if it was output early, its block -/
def earlyOffs (a : ElifA) : List Nat :=
  match a.early with
  | some b => offs b.items
  | none => []

def frontA : List ElifA → List Nat
  | [] => []
  | a :: r => nums a.bps ++ earlyOffs a ++ frontA r

structure WFa (a : ElifA) : Prop where
  alln : AllNum a.bps
  early_neg : a.neg = true → ∃ b, a.early = some b ∧ offs b.hdrs = nums a.bps ∧ plainNames b.hdrs = [] ∧
    ∀ n ∈ plainNames b.items, isJumpName n = false
  early_pos : a.neg = false → a.early = none

theorem earlyBlock_spec {neg : Bool} {hjbs : List BP} {block : M Blk}
    (hb : ∀ s b s', block s = .ok (b, s') → BlkSpec s.opc s'.opc hjbs b)
    {s : St} {e : Option Blk} {s' : St} (h : earlyBlock neg block s = .ok (e, s')) :
    (neg = true → ∃ b, e = some b ∧ BlkSpec s.opc s'.opc hjbs b) ∧ (neg = false → e = none ∧ s' = s) := by
  unfold earlyBlock at h
  cases neg with
  | true =>
    simp only [↓reduceIte, bind_ok, pure_ok] at h
    obtain ⟨b, s1, h1, h2⟩ := h
    simp only [Prod.mk.injEq] at h2
    obtain ⟨rfl, rfl⟩ := h2
    exact ⟨fun _ => ⟨b, rfl, hb _ _ _ h1⟩, fun hc => (by cases hc)⟩
  | false =>
    simp only [Bool.false_eq_true, ↓reduceIte, pure_ok, Prod.mk.injEq] at h
    obtain ⟨rfl, rfl⟩ := h
    exact ⟨fun hc => (by cases hc), fun _ => ⟨rfl, rfl⟩⟩

theorem elifAOf_spec (neg : Bool) (hdrs : List Hdr) {body : M (List LItem)} (hm : SpecM body)
    {s : St} {a : ElifA} {s' : St} (h : elifAOf neg hdrs body s = .ok (a, s')) :
    s.opc ≤ s'.opc ∧ Good s.opc s'.opc (nums a.bps ++ earlyOffs a) ∧ WFa a := by
  simp only [elifAOf, bind_ok, pure_ok] at h
  obtain ⟨bps0, s1, h1, bps, s2, h2, e, s3, h3, h4⟩ := h
  simp only [Prod.mk.injEq] at h4
  obtain ⟨rfl, rfl⟩ := h4
  have m1 := collectHdrs_spec _ _ _ _ _ h1
  obtain ⟨m2, alln, g2⟩ := allocateAll_spec _ _ _ _ h2
  obtain ⟨en, ep⟩ := earlyBlock_spec (fun s b s' hb => blockOf_spec hm alln hb) h3
  cases neg with
  | true =>
    obtain ⟨b, rfl, bs⟩ := en rfl
    refine ⟨by have := bs.mono; omega, ?_, ⟨alln, fun _ => ⟨b, rfl, bs.hdrs, bs.hnames, bs.names⟩, fun hc => (by cases hc)⟩⟩
    exact ((g2.mono m1 (Nat.le_refl _)).append bs.good (by omega) bs.mono)
  | false =>
    obtain ⟨rfl, rfl⟩ := ep rfl
    refine ⟨by omega, ?_, ⟨alln, fun hc => (by cases hc), fun _ => rfl⟩⟩
    simpa [earlyOffs] using g2.mono m1 (Nat.le_refl _)

theorem elifBOf_spec {a : ElifA} (wf : WFa a) {body : M (List LItem)} (hm : SpecM body)
    {s : St} {b : Blk} {s' : St} (h : elifBOf a body s = .ok (b, s')) :
    offs (b.hdrs ++ (if a.neg then b.items else [])) = nums a.bps ++ earlyOffs a ∧
    (∀ n ∈ plainNames (b.hdrs ++ (if a.neg then b.items else [])), isJumpName n = false) ∧
    Spec s.opc s'.opc (if a.neg then [] else b.items) := by
  unfold elifBOf lateBlock at h
  cases hneg : a.neg with
  | true =>
    obtain ⟨b0, he, e1, e2, e3⟩ := wf.early_neg hneg
    rw [he] at h
    simp only [pure_ok, Prod.mk.injEq] at h
    obtain ⟨rfl, rfl⟩ := h
    refine ⟨by simp [earlyOffs, he, e1], fun n hn => ?_, by simpa using Spec.nil _⟩
    simp only [↓reduceIte, plainNames_append, e2, List.nil_append] at hn
    exact e3 n hn
  | false =>
    have he := wf.early_pos hneg
    rw [he] at h
    have bs := blockOf_spec hm wf.alln h
    refine ⟨by simp [earlyOffs, he, bs.hdrs], fun n hn => ?_, ?_⟩
    · simp [bs.hnames] at hn
    · simpa using (⟨bs.mono, bs.good, bs.names⟩ : Spec s.opc s'.opc b.items)

theorem lateBlock_spec {hjbs : List BP} {block : M Blk}
    (hb : ∀ s b s', block s = .ok (b, s') → BlkSpec s.opc s'.opc hjbs b)
    {early : Option Blk} {s : St} {b : Blk} {s' : St} (h : lateBlock early block s = .ok (b, s')) :
    (∀ b0, early = some b0 → b = b0 ∧ s' = s) ∧ (early = none → BlkSpec s.opc s'.opc hjbs b) := by
  unfold lateBlock at h
  cases early with
  | some b0 =>
    simp only [pure_ok, Prod.mk.injEq] at h
    obtain ⟨rfl, rfl⟩ := h
    exact ⟨fun b1 hb1 => by simp only [Option.some.injEq] at hb1; exact ⟨hb1, rfl⟩, fun hc => (by cases hc)⟩
  | none => exact ⟨fun b0 hc => (by cases hc), fun _ => hb _ _ _ h⟩

/-- what steps 2 and 5 of `IfBlock.collect` guarantee for the list of elseifs -/
def ElifsASpec (k : Nat) (elifsA : M (List ElifA)) : Prop :=
  ∀ s as s', elifsA s = .ok (as, s') → as.length = k ∧ s.opc ≤ s'.opc ∧ Good s.opc s'.opc (frontA as) ∧ ∀ a ∈ as, WFa a

def ElifsBSpec (k : Nat) (elifsB : List ElifA → M (List Blk)) : Prop :=
  ∀ as, as.length = k → (∀ a ∈ as, WFa a) → ∀ s late s', elifsB as s = .ok (late, s') →
    offs (elifsFront as late) = frontA as ∧ (∀ n ∈ plainNames (elifsFront as late), isJumpName n = false) ∧
    Spec s.opc s'.opc (elifsBack as late)

theorem iteOf_spec (neg : Bool) (hdrs : List Hdr) {body els : M (List LItem)} {elifsA : M (List ElifA)} (hasElse : Bool)
    {elifsB : List ElifA → M (List Blk)} {k : Nat} (hm : SpecM body) (he : SpecM els) (hA : ElifsASpec k elifsA) (hB : ElifsBSpec k elifsB) :
    SpecM (iteOf neg hdrs body elifsA hasElse els elifsB) := by
  intro s items s' h
  simp only [iteOf, bind_ok, tickLbl_ok, pure_ok] at h
  obtain ⟨endL, s0, h0, bps, s1, h1, early, s2, h2, as, s3, h3, ep, s4, h4, ifBlk, s5, h5, late, s6, h6, h7⟩ := h
  simp only [Prod.mk.injEq] at h0 h7
  obtain ⟨rfl, rfl⟩ := h0
  obtain ⟨rfl, rfl⟩ := h7
  obtain ⟨m1, alln, g1⟩ := collectIfHdrs_spec _ _ _ _ _ h1
  simp only [opc_tickedLbl] at m1 g1
  have hblk : ∀ s b s', blockOf bps true true body s = .ok (b, s') → BlkSpec s.opc s'.opc bps b :=
    fun s b s' hb => blockOf_spec hm alln hb
  obtain ⟨en, ep'⟩ := earlyBlock_spec hblk h2
  obtain ⟨lk, m3, g3, wfs⟩ := hA _ _ _ h3
  have se := elsePartOf_spec he _ _ _ h4
  obtain ⟨l1, l2⟩ := lateBlock_spec hblk h5
  obtain ⟨f1, f2, sb⟩ := hB as lk wfs _ _ _ h6
  cases neg with
  | true =>
    obtain ⟨b, rfl, bs⟩ := en rfl
    obtain ⟨rfl, rfl⟩ := l1 b rfl
    refine ⟨by have := bs.mono; have := se.mono; have := sb.mono; omega, ?_, ?_⟩
    · simp only [offs_append, offs_patchNone, ↓reduceIte, offs_nil, List.append_nil, offs_cons_label, bs.hdrs, f1]
      have := ((((g1.append bs.good m1 bs.mono).append g3 (by have := bs.mono; omega) m3).append se.good
        (by have := bs.mono; omega) se.mono).append sb.good (by have := bs.mono; have := se.mono; omega) sb.mono)
      simpa [List.append_assoc] using this
    · intro n hn
      simp only [plainNames_append, plainNames_patchNone, ↓reduceIte, plainNames_nil, List.append_nil, plainNames_cons_label,
        bs.hnames, List.nil_append, List.mem_append] at hn
      rcases hn with ((hn | hn) | hn) | hn
      · exact bs.names n hn
      · exact f2 n hn
      · exact se.names n hn
      · exact sb.names n hn
  | false =>
    obtain ⟨rfl, rfl⟩ := ep' rfl
    have bs := l2 rfl
    refine ⟨by have := bs.mono; have := se.mono; have := sb.mono; omega, ?_, ?_⟩
    · simp only [offs_append, offs_patchNone, Bool.false_eq_true, ↓reduceIte, offs_nil, List.append_nil, offs_cons_label, bs.hdrs, f1]
      have := ((((g1.append g3 m1 m3).append se.good (by omega) se.mono).append bs.good
        (by have := se.mono; omega) bs.mono).append sb.good (by have := bs.mono; have := se.mono; omega) sb.mono)
      simpa [List.append_assoc] using this
    · intro n hn
      simp only [plainNames_append, plainNames_patchNone, Bool.false_eq_true, ↓reduceIte, plainNames_nil, List.append_nil,
        plainNames_cons_label, bs.hnames, List.nil_append, List.mem_append] at hn
      rcases hn with ((hn | hn) | hn) | hn
      · exact f2 n hn
      · exact se.names n hn
      · exact bs.names n hn
      · exact sb.names n hn

end ESV.Comp
