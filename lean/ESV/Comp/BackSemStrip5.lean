import ESV.Comp.BackSemStrip4
/-
Back-end correctness, first pass (strip_last_label), part 5: all rounds of all routines (`strip_preserves`).
-/
namespace ESV.Comp
open ESV ESV.Beh

section
variable {all : List Nat}

theorem mem_flatten_mid {A B : List (List LItem)} {c : List LItem} {x : LItem} :
    x ∈ (A ++ c :: B).flatten ↔ x ∈ A.flatten ∨ x ∈ c ∨ x ∈ B.flatten := by
  simp [List.mem_append]

theorem rawOK_dummy (root : Op) : rawOK (dummyAt root) = true := by
  simp only [dummyAt, rawOK]; decide

/-- one round keeps the invariant -/
theorem round_sinv (lbl : Nat) (nm : Bool) (A : List (List LItem)) (body : List LItem) (B : List (List LItem))
    (H : SInv all (A ++ (body ++ [LItem.label lbl nm]) :: B)) :
    SInv all (A ++ stripScan all lbl false false body :: B) := by
  have hcur : CondInv (body ++ [LItem.label lbl nm]) := H.cond _ (by simp)
  have hcond := condInv_lbl body nm hcur
  have hmem : ∀ x, x ∈ (A ++ stripScan all lbl false false body :: B).flatten →
      x ∈ (A ++ (body ++ [LItem.label lbl nm]) :: B).flatten ∨ ∃ root, x = dummyAt root := by
    intro x hx
    rw [mem_flatten_mid] at hx
    rcases hx with hx | hx | hx
    · exact .inl (mem_flatten_mid.mpr (.inl hx))
    · rcases stripScan_mem body _ _ x hx with h | ⟨root, h, _⟩
      · exact .inl (mem_flatten_mid.mpr (.inr (.inl (List.mem_append_left _ h))))
      · exact .inr ⟨root, h⟩
    · exact .inl (mem_flatten_mid.mpr (.inr (.inr hx)))
  have hjmem : ∀ root l, LItem.ljump root (some l) ∈ (A ++ stripScan all lbl false false body :: B).flatten →
      LItem.ljump root (some l) ∈ (A ++ (body ++ [LItem.label lbl nm]) :: B).flatten := by
    intro root l hx
    rcases hmem _ hx with h | ⟨root', h⟩
    · exact h
    · simp [dummyAt] at h
  refine ⟨?_, ?_, ?_, ?_, ?_, ?_, ?_⟩
  · -- distinct offsets
    have hd : (offs (A ++ (body ++ [LItem.label lbl nm]) :: B).flatten).Nodup := H.distinct
    show (offs (A ++ stripScan all lbl false false body :: B).flatten).Nodup
    simp only [List.flatten_append, List.flatten_cons, offs_append] at hd ⊢
    refine List.Sublist.nodup ?_ hd
    refine (List.Sublist.refl _).append (List.Sublist.append ?_ (List.Sublist.refl _))
    refine (stripScan_offs all lbl body _ _).trans ?_
    simp
  · have hn := H.labels
    simp only [labelIds_flatten_append, labelIds_flatten_cons, labelIds_append, labelIds_stripScan] at hn ⊢
    refine List.Sublist.nodup ?_ hn
    refine (List.Sublist.refl _).append (List.Sublist.append ?_ (List.Sublist.refl _))
    exact List.sublist_append_left _ _
  · rw [List.all_eq_true]
    intro x hx
    rcases hmem x hx with h | ⟨root, rfl⟩
    · exact List.all_eq_true.mp H.raw x h
    · exact rawOK_dummy root
  · rw [List.all_eq_true]
    intro x hx
    rcases hmem x hx with h | ⟨root, rfl⟩
    · exact List.all_eq_true.mp H.root x h
    · rfl
  · have hc := H.ctx
    simp only [List.all_append, List.all_cons, Bool.and_eq_true] at hc ⊢
    exact ⟨hc.1, ctxOK_scan body nm hc.2.1 hcond, hc.2.2⟩
  · intro root l hx
    exact H.jumps root l (hjmem root l hx)
  · intro its hits
    simp only [List.mem_append, List.mem_cons] at hits
    rcases hits with h | rfl | h
    · exact H.cond its (by simp [h])
    · refine condInv_scan body nm hcur (fun root l hin => H.jumps root l ?_)
      exact mem_flatten_mid.mpr (.inr (.inl (List.mem_append_left _ hin)))
    · exact H.cond its (by simp [h])

/-- if every jump target of the new code is defined, so is every jump target of the old code -/
theorem round_defined (lbl : Nat) (nm : Bool) (A : List (List LItem)) (body : List LItem) (B : List (List LItem))
    (h : jumpTargetsDefined (A ++ stripScan all lbl false false body :: B)) :
    jumpTargetsDefined (A ++ (body ++ [LItem.label lbl nm]) :: B) := by
  have hsub : ∀ l, l ∈ labelIds (A ++ stripScan all lbl false false body :: B).flatten →
      l ∈ labelIds (A ++ (body ++ [LItem.label lbl nm]) :: B).flatten := by
    intro l hl
    simp only [labelIds_flatten_append, labelIds_flatten_cons, labelIds_append, labelIds_stripScan, List.mem_append] at hl ⊢
    rcases hl with hl | hl | hl
    · exact .inl hl
    · exact .inr (.inl (.inl hl))
    · exact .inr (.inr hl)
  intro root l hx
  rw [mem_flatten_mid] at hx
  rcases hx with hx | hx | hx
  · exact hsub l (h root l (mem_flatten_mid.mpr (.inl hx)))
  · simp only [List.mem_append, List.mem_singleton] at hx
    rcases hx with hx | hx
    · by_cases hl : l = lbl
      · subst hl
        simp only [labelIds_flatten_append, labelIds_flatten_cons, labelIds_append, List.mem_append]
        exact .inr (.inl (.inr (by simp [labelIds])))
      · exact hsub l (h root l (mem_flatten_mid.mpr (.inr (.inl (stripScan_keeps body root l hl _ _ hx)))))
    · cases hx
  · exact hsub l (h root l (mem_flatten_mid.mpr (.inr (.inr hx))))

theorem roundHyp_of (lbl : Nat) (nm : Bool) (A : List (List LItem)) (body : List LItem) (B : List (List LItem))
    (H : SInv all (A ++ (body ++ [LItem.label lbl nm]) :: B))
    (hd : jumpTargetsDefined (A ++ stripScan all lbl false false body :: B)) : RoundHyp all lbl nm A body B :=
  ⟨H.labels, H.ctx, H.raw, H.root, H.jumps, condInv_lbl body nm (H.cond _ (by simp)), hd⟩

/-- the loop over the trailing labels of one routine -/
theorem stripLoop_sem (A B : List (List LItem)) : ∀ (fuel : Nat) (cur out : List LItem), stripLoop all fuel cur = .ok out →
    SInv all (A ++ cur :: B) →
    (SInv all (A ++ out :: B) ∧ noTrail out = true) ∧
    (jumpTargetsDefined (A ++ out :: B) →
      jumpTargetsDefined (A ++ cur :: B) ∧
      ∀ r, Equivalent (labLTS (A ++ cur :: B)) (labLTS (A ++ out :: B)) (labEntry (A ++ cur :: B) r) (labEntry (A ++ out :: B) r)) := by
  intro fuel
  induction fuel with
  | zero => intro cur out h; simp [stripLoop] at h
  | succ k ih =>
    intro cur out h hinv
    simp only [stripLoop] at h
    cases hl : cur.getLast? with
    | none =>
      simp only [hl, Except.ok.injEq] at h; subst h
      exact ⟨⟨hinv, by simp [noTrail, hl]⟩, fun hd => ⟨hd, fun r => Equivalent.refl _ _⟩⟩
    | some x =>
      cases x with
      | label lbl nm =>
        simp only [hl] at h
        obtain ⟨body, rfl⟩ := List.getLast?_eq_some_iff.mp hl
        rw [List.dropLast_concat] at h
        have hinv' := round_sinv lbl nm A body B hinv
        obtain ⟨⟨i1, i2⟩, i3⟩ := ih _ out h hinv'
        refine ⟨⟨i1, i2⟩, fun hd => ?_⟩
        obtain ⟨d1, e1⟩ := i3 hd
        refine ⟨round_defined lbl nm A body B d1, fun r => ?_⟩
        exact (round_preserves (roundHyp_of lbl nm A body B hinv d1) r).trans (e1 r)
      | op o =>
        simp only [hl, Except.ok.injEq] at h; subst h
        exact ⟨⟨hinv, by simp [noTrail, hl]⟩, fun hd => ⟨hd, fun r => Equivalent.refl _ _⟩⟩
      | ljump root t =>
        simp only [hl, Except.ok.injEq] at h; subst h
        exact ⟨⟨hinv, by simp [noTrail, hl]⟩, fun hd => ⟨hd, fun r => Equivalent.refl _ _⟩⟩

theorem stripRoutine_spec' (A B : List (List LItem)) (cur out : List LItem) (h : stripRoutine all cur = .ok out)
    (hinv : SInv all (A ++ cur :: B)) :
    (SInv all (A ++ out :: B) ∧ noTrail out = true) ∧
    (jumpTargetsDefined (A ++ out :: B) →
      jumpTargetsDefined (A ++ cur :: B) ∧
      ∀ r, Equivalent (labLTS (A ++ cur :: B)) (labLTS (A ++ out :: B)) (labEntry (A ++ cur :: B) r) (labEntry (A ++ out :: B) r)) := by
  unfold stripRoutine at h
  split at h
  · rename_i he
    simp only [Except.ok.injEq] at h; subst h
    have : cur = [] := by simpa using he
    subst this
    exact ⟨⟨hinv, rfl⟩, fun hd => ⟨hd, fun r => Equivalent.refl _ _⟩⟩
  · exact stripLoop_sem A B _ cur out h hinv

/-- all routines -/
theorem stripAll_spec : ∀ (todo done outs : List (List LItem)), mapE (stripRoutine all) todo = .ok outs →
    SInv all (done ++ todo) →
    (SInv all (done ++ outs) ∧ outs.all noTrail = true) ∧
    (jumpTargetsDefined (done ++ outs) →
      jumpTargetsDefined (done ++ todo) ∧
      ∀ r, Equivalent (labLTS (done ++ todo)) (labLTS (done ++ outs)) (labEntry (done ++ todo) r) (labEntry (done ++ outs) r)) := by
  intro todo
  induction todo with
  | nil =>
    intro done outs h hinv
    simp [mapE] at h; subst h
    exact ⟨⟨hinv, rfl⟩, fun hd => ⟨hd, fun r => Equivalent.refl _ _⟩⟩
  | cons cur rest ih =>
    intro done outs h hinv
    obtain ⟨out, outs', h1, h2, rfl⟩ := mapE_ok_cons h
    obtain ⟨⟨a1, a2⟩, a3⟩ := stripRoutine_spec' done rest cur out h1 hinv
    have hinv2 : SInv all ((done ++ [out]) ++ rest) := by simpa using a1
    obtain ⟨⟨b1, b2⟩, b3⟩ := ih (done ++ [out]) outs' h2 hinv2
    refine ⟨⟨by simpa using b1, by simp [a2, b2]⟩, fun hd => ?_⟩
    have hd' : jumpTargetsDefined ((done ++ [out]) ++ outs') := by simpa using hd
    obtain ⟨c1, c2⟩ := b3 hd'
    have c1' : jumpTargetsDefined (done ++ out :: rest) := by simpa using c1
    obtain ⟨d1, d2⟩ := a3 c1'
    refine ⟨d1, fun r => ?_⟩
    have e2 := c2 r
    rw [show done ++ [out] ++ rest = done ++ out :: rest by simp,
      show done ++ [out] ++ outs' = done ++ out :: outs' by simp] at e2
    exact (d2 r).trans e2

end

end ESV.Comp
