import ESV.Comp.FrontW7
/-
`frontend_wfl`, part 8: macro expansion (`ExplorerScriptMacro.build`).
-/
namespace ESV.Comp
open ESV ESV.Beh

/-- what a macro blueprint satisfies -/
structure BpW (bp : List LItem) : Prop where
  labs : (labelIds bp).Nodup
  root : ∀ x ∈ bp, rootOK x = true
  ctx : CtxP bp

def MsW (ms : Macros) : Prop := ∀ p ∈ ms, BpW p.2.bp

/-- an expanded item against its blueprint item -/
def ItemRel (x x' : LItem) : Prop :=
  isCtxL x' = isCtxL x ∧ (afterCtxS x = true → afterCtxS x' = true) ∧ (rootOK x = true → rootOK x' = true) ∧ x'.usrId = none

inductive Rel2 : List LItem → List LItem → Prop where
  | nil : Rel2 [] []
  | cons {x x' : LItem} {r r' : List LItem} : ItemRel x x' → Rel2 r r' → Rel2 (x :: r) (x' :: r')

theorem headOKs_rel {x x' : LItem} {L L' : List LItem} (hx : ItemRel x x') (hL : Rel2 L L')
    (h : headOKs x L = true) : headOKs x' L' = true := by
  cases hL with
  | nil => rfl
  | cons hy _ =>
    simp only [headOKs, Bool.or_eq_true, Bool.not_eq_true'] at h ⊢
    rcases h with h | h
    · exact .inl (by rw [hx.1]; exact h)
    · exact .inr (hy.2.1 h)

theorem ctxOKs_rel {L L' : List LItem} (hL : Rel2 L L') (h : ctxOKs L = true) : ctxOKs L' = true := by
  induction hL with
  | nil => rfl
  | cons hx hr ih =>
    rw [ctxOKs_cons, Bool.and_eq_true] at h ⊢
    exact ⟨headOKs_rel hx hr h.1, ih h.2⟩

theorem lastNotCtx_rel {L L' : List LItem} (hL : Rel2 L L') (h : lastNotCtx L = true) : lastNotCtx L' = true := by
  induction hL with
  | nil => rfl
  | @cons x x' r r' hx hr ih =>
    cases hr with
    | nil => simpa [lastNotCtx, hx.1] using h
    | cons hy hr' =>
      simp only [lastNotCtx, List.getLast?_cons_cons] at h ih ⊢
      exact ih h

theorem ctxP_rel {L L' : List LItem} (hL : Rel2 L L') (h : CtxP L) : CtxP L' :=
  ⟨ctxOKs_rel hL h.1, lastNotCtx_rel hL h.2⟩

theorem root_rel {L L' : List LItem} (hL : Rel2 L L') (h : ∀ x ∈ L, rootOK x = true) : ∀ x ∈ L', rootOK x = true := by
  induction hL with
  | nil => intro x hx; simp at hx
  | cons hx _ ih =>
    intro z hz
    simp only [List.mem_cons] at hz
    rcases hz with rfl | hz
    · exact hx.2.2.1 (h _ (by simp))
    · exact ih (fun y hy => h y (List.mem_cons_of_mem _ hy)) z hz

theorem usrIds_rel {L L' : List LItem} (hL : Rel2 L L') : usrIds L' = [] := by
  induction hL with
  | nil => rfl
  | cons hx _ ih => simp only [usrIds, List.filterMap_cons, hx.2.2.2] at ih ⊢; exact ih

/-! ### the copies of the labels -/

/-- the label copies made so far: copies are label numbers ticked after `a`, different labels have different copies -/
structure NL (a : Nat) (nl : List (Nat × Nat)) (s : St) : Prop where
  rng : ∀ k v, nl.lookup k = some v → a < v ∧ v ≤ s.lbc
  inj : ∀ k1 k2 v, nl.lookup k1 = some v → nl.lookup k2 = some v → k1 = k2

theorem freshCopy_w {a : Nat} {nl : List (Nat × Nat)} {id : Nat} {s : St} {nl' : List (Nat × Nat)} {i : Nat} {s' : St}
    (hn : NL a nl s) (ha : a ≤ s.lbc) (h : freshCopy nl id s = .ok ((nl', i), s')) :
    NL a nl' s' ∧ (∀ k v, nl.lookup k = some v → nl'.lookup k = some v) ∧ nl'.lookup id = some i ∧
    s'.named = s.named ∧ s.lbc ≤ s'.lbc ∧ s'.lbc ≤ s.lbc + 1 := by
  unfold freshCopy at h
  cases hl : nl.lookup id with
  | some j =>
    simp only [hl, pure_ok, Prod.mk.injEq] at h
    obtain ⟨⟨rfl, rfl⟩, rfl⟩ := h
    exact ⟨hn, fun _ _ h => h, hl, rfl, Nat.le_refl _, Nat.le_succ _⟩
  | none =>
    simp only [hl, bind_ok, tickLbl_ok, pure_ok] at h
    obtain ⟨t, s1, h1, h2⟩ := h
    simp only [Prod.mk.injEq] at h1 h2
    obtain ⟨rfl, rfl⟩ := h1
    obtain ⟨⟨rfl, rfl⟩, rfl⟩ := h2
    have hlk : ∀ k, (nl ++ [(id, s.lbc + 1)]).lookup k = (nl.lookup k).or (if k == id then some (s.lbc + 1) else none) := by
      intro k
      simp only [List.lookup_append, List.lookup_cons, List.lookup_nil]
      cases k == id <;> rfl
    refine ⟨⟨fun k v hk => ?_, fun k1 k2 v h1 h2 => ?_⟩, fun k v hk => by rw [hlk, hk]; rfl, by rw [hlk, hl]; simp, rfl,
      by simp [St.tickedLbl], by simp [St.tickedLbl]⟩
    · rw [hlk] at hk
      simp only [St.tickedLbl]
      cases h0 : nl.lookup k with
      | some v0 => rw [h0] at hk; simp at hk; subst hk; have := hn.rng k _ h0; omega
      | none =>
        rw [h0] at hk
        simp only [Option.none_or] at hk
        split at hk
        · simp at hk; omega
        · cases hk
    · rw [hlk] at h1 h2
      cases ha1 : nl.lookup k1 with
      | some v1 =>
        rw [ha1] at h1; simp at h1; subst h1
        cases hb1 : nl.lookup k2 with
        | some v2 => rw [hb1] at h2; simp at h2; subst h2; exact hn.inj k1 k2 _ ha1 hb1
        | none =>
          rw [hb1] at h2
          simp only [Option.none_or] at h2
          split at h2
          · simp at h2; have := hn.rng k1 _ ha1; omega
          · cases h2
      | none =>
        rw [ha1] at h1
        simp only [Option.none_or] at h1
        split at h1
        · rename_i e1
          simp at h1; subst h1
          cases hb1 : nl.lookup k2 with
          | some v2 => rw [hb1] at h2; simp at h2; subst h2; have := hn.rng k2 _ hb1; omega
          | none =>
            rw [hb1] at h2
            simp only [Option.none_or] at h2
            split at h2
            · rename_i e2
              have x1 : k1 = id := by simpa using e1
              have x2 : k2 = id := by simpa using e2
              rw [x1, x2]
            · cases h2
        · cases h1

theorem return_not_ctx : isCtx Gen.op_return = false := by decide

/-- the loop over the blueprint -/
theorem buildItems_w (d : List (String × Param)) (endL : Nat) (a : Nat) : ∀ (bp : List LItem) (nl : List (Nat × Nat)) (s : St)
    (out : List LItem) (s' : St), NL a nl s → a ≤ s.lbc → buildItems d endL bp nl s = .ok (out, s') →
    ∃ nl', NL a nl' s' ∧ (∀ k v, nl.lookup k = some v → nl'.lookup k = some v) ∧ s'.named = s.named ∧ s.lbc ≤ s'.lbc ∧
      Rel2 bp out ∧ intIds out = (labelIds bp).filterMap (fun k => nl'.lookup k) ∧
      (labelIds bp).length = (intIds out).length := by
  intro bp
  induction bp with
  | nil =>
    intro nl s out s' hn ha h
    simp only [buildItems, pure_ok, Prod.mk.injEq] at h
    obtain ⟨rfl, rfl⟩ := h
    exact ⟨nl, hn, fun _ _ h => h, rfl, Nat.le_refl _, .nil, rfl, rfl⟩
  | cons x r ih =>
    intro nl s out s' hn ha h
    cases x with
    | label id nm =>
      simp only [buildItems, bind_ok, pure_ok] at h
      obtain ⟨p, s1, h1, rest, s2, h2, h3⟩ := h
      obtain ⟨nl1, i⟩ := p
      simp only [Prod.mk.injEq] at h3
      obtain ⟨rfl, rfl⟩ := h3
      obtain ⟨n1, k1, lk1, nm1, le1, _⟩ := freshCopy_w hn ha h1
      obtain ⟨nl2, n2, k2, nm2, le2, rel, ids, len⟩ := ih _ _ _ _ n1 (by omega) h2
      refine ⟨nl2, n2, fun k v hk => k2 k v (k1 k v hk), by rw [nm2, nm1], by omega, .cons ⟨rfl, fun hh => by simp [afterCtxS] at hh,
        fun _ => rfl, rfl⟩ rel, ?_, ?_⟩
      · simp only [intIds_cons_int, labelIds, List.filterMap_cons, k2 id i lk1, ids]
      · simp only [intIds_cons_int, labelIds, List.length_cons, len]
    | ljump root l =>
      cases l with
      | none => simp [buildItems, fail_ok] at h
      | some l =>
        simp only [buildItems, bind_ok, pure_ok] at h
        obtain ⟨p, s1, h1, root', s2, h2, rest, s3, h3, h4⟩ := h
        obtain ⟨nl1, i⟩ := p
        simp only [Prod.mk.injEq] at h4
        obtain ⟨rfl, rfl⟩ := h4
        obtain ⟨n1, k1, lk1, nm1, le1, _⟩ := freshCopy_w hn ha h1
        obtain ⟨rfl, rfl⟩ := buildOp_spec h2
        have n1' : NL a nl1 (s1.tickedOp 1) := ⟨n1.rng, n1.inj⟩
        obtain ⟨nl2, n2, k2, nm2, le2, rel, ids, len⟩ := ih _ _ _ _ n1' (by simp [St.tickedOp]; omega) h3
        refine ⟨nl2, n2, fun k v hk => k2 k v (k1 k v hk), by rw [nm2]; exact nm1, by simp [St.tickedOp] at le2; omega,
          .cons ⟨rfl, fun hh => by simpa [afterCtxS] using hh, fun hh => by simpa [rootOK] using hh, rfl⟩ rel, ?_, ?_⟩
        · simpa [labelIds] using ids
        · simpa [labelIds] using len
    | op o =>
      simp only [buildItems] at h
      split at h
      · rename_i hret
        simp only [bind_ok, pure_ok] at h
        obtain ⟨root', s2, h2, rest, s3, h3, h4⟩ := h
        simp only [Prod.mk.injEq] at h4
        obtain ⟨rfl, rfl⟩ := h4
        obtain ⟨rfl, rfl⟩ := buildOp_spec h2
        have hn' : NL a nl (s.tickedOp 1) := ⟨hn.rng, hn.inj⟩
        obtain ⟨nl2, n2, k2, nm2, le2, rel, ids, len⟩ := ih _ _ _ _ hn' ha h3
        have hname : o.name = Gen.op_return := by simpa using hret
        refine ⟨nl2, n2, k2, nm2, le2, .cons ⟨?_, fun hh => ?_, fun _ => by simp [rootOK, jump_isJump], rfl⟩ rel, ?_, ?_⟩
        · simp [isCtxL, hname, return_not_ctx]
        · simp [afterCtxS, hname] at hh
        · simpa [labelIds] using ids
        · simpa [labelIds] using len
      · simp only [bind_ok, pure_ok] at h
        obtain ⟨o', s2, h2, rest, s3, h3, h4⟩ := h
        simp only [Prod.mk.injEq] at h4
        obtain ⟨rfl, rfl⟩ := h4
        obtain ⟨rfl, rfl⟩ := buildOp_spec h2
        have hn' : NL a nl (s.tickedOp 1) := ⟨hn.rng, hn.inj⟩
        obtain ⟨nl2, n2, k2, nm2, le2, rel, ids, len⟩ := ih _ _ _ _ hn' ha h3
        refine ⟨nl2, n2, k2, nm2, le2, .cons ⟨rfl, fun hh => by simpa [afterCtxS] using hh, fun _ => rfl, rfl⟩ rel, ?_, ?_⟩
        · simpa [labelIds] using ids
        · simpa [labelIds] using len

end ESV.Comp
