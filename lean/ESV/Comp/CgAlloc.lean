import ESV.Comp.CgSrc
/-
`codegen_correct`, user labels: the label nodes `allocLabels` makes, and which labels get one.
-/
namespace ESV.Comp
open ESV ESV.Beh

/-! ### labels translated are labels allocated -/

mutual
theorem dfS_sub : ∀ (S : Src.Stmt) (n : String), n ∈ dfS S → n ∈ Src.labelsOf S
  | .label m, n, h => by simpa [dfS, Src.labelsOf] using h
  | .ite bs hasElse els, n, h => by
    simp only [dfS, List.mem_append] at h
    simp only [Src.labelsOf, List.mem_append]
    rcases h with h | h
    · exact .inl (dfSBranches_sub bs n h)
    · cases hasElse with
      | true => exact .inr (dfSStmts_sub els n (by simpa using h))
      | false => simp at h
  | .switch _ cs, n, h => by
    simp only [dfS] at h; simp only [Src.labelsOf]; exact dfSCases_sub cs n h
  | .forever body, n, h => by
    simp only [dfS] at h; simp only [Src.labelsOf]; exact dfSStmts_sub body n h
  | .while_ _ _ body, n, h => by
    simp only [dfS] at h; simp only [Src.labelsOf]; exact dfSStmts_sub body n h
  | .for_ init _ inc body, n, h => by
    simp only [dfS, List.mem_append] at h
    simp only [Src.labelsOf, List.mem_append]
    rcases h with (h | h) | h
    · exact .inl (.inl (dfS_sub init n h))
    · exact .inl (.inr (dfS_sub inc n h))
    · exact .inr (dfSStmts_sub body n h)
  | .op .., n, h => by simp [dfS] at h
  | .ctx .., n, h => by simp [dfS] at h
  | .jump _, n, h => by simp [dfS] at h
  | .call _, n, h => by simp [dfS] at h
  | .ret, n, h => by simp [dfS] at h
  | .end_, n, h => by simp [dfS] at h
  | .hold, n, h => by simp [dfS] at h
  | .brk, n, h => by simp [dfS] at h
  | .cont, n, h => by simp [dfS] at h
  | .brkLoop, n, h => by simp [dfS] at h
  | .macroCall .., n, h => by simp [dfS] at h
theorem dfSStmts_sub : ∀ (S : Src.Stmts) (n : String), n ∈ dfSStmts S → n ∈ Src.labelsOfStmts S
  | .nil, n, h => by simp [dfSStmts] at h
  | .cons s r, n, h => by
    simp only [dfSStmts, List.mem_append] at h
    simp only [Src.labelsOfStmts, List.mem_append]
    exact h.imp (dfS_sub s n) (dfSStmts_sub r n)
theorem dfSBranches_sub : ∀ (S : Src.Branches) (n : String), n ∈ dfSBranches S → n ∈ Src.labelsOfBranches S
  | .nil, n, h => by simp [dfSBranches] at h
  | .cons _ _ body r, n, h => by
    simp only [dfSBranches, List.mem_append] at h
    simp only [Src.labelsOfBranches, List.mem_append]
    exact h.imp (dfSStmts_sub body n) (dfSBranches_sub r n)
theorem dfSCases_sub : ∀ (S : Src.Cases) (n : String), n ∈ dfSCases S → n ∈ Src.labelsOfCases S
  | .nil, n, h => by simp [dfSCases] at h
  | .cons _ _ body r, n, h => by
    simp only [dfSCases, List.mem_append] at h
    simp only [Src.labelsOfCases, List.mem_append]
    exact h.imp (dfSStmts_sub body n) (dfSCases_sub r n)
end

/-! ### `allocLabels` -/

def phNode (n : String) : Src.Node := .halt (evInvalid ("undefined label " ++ n))

/-- what `allocLabels` has made so far -/
structure AllocInv (b0 : Src.B) (acc : Src.B × List (String × Nat)) : Prop where
  pushes : Pushes b0 acc.1
  len : (tbl acc.1).length = (tbl b0).length + acc.2.length
  node : ∀ n i, acc.2.lookup n = some i → (tbl b0).length ≤ i ∧ i < (tbl b0).length + acc.2.length ∧ (tbl acc.1)[i]? = some (phNode n)
  inj : ∀ n n' i, acc.2.lookup n = some i → acc.2.lookup n' = some i → n = n'

theorem lookup_snoc (l : List (String × Nat)) (n m : String) (i : Nat) :
    (l ++ [(n, i)]).lookup m = (l.lookup m).or (if m == n then some i else none) := by
  simp only [List.lookup_append, List.lookup_cons, List.lookup_nil]
  cases m == n <;> rfl

def allocStep (acc : Src.B × List (String × Nat)) (n : String) : Src.B × List (String × Nat) :=
  if (acc.2.lookup n).isSome then acc
  else ((acc.1.push (.halt (evInvalid ("undefined label " ++ n)))).1, acc.2 ++ [(n, (acc.1.push (.halt (evInvalid ("undefined label " ++ n)))).2)])

theorem allocLabels_eq (b : Src.B) (names : List String) : Src.allocLabels b names = names.foldl allocStep (b, []) := by
  simp only [Src.allocLabels]
  congr 1

theorem allocStep_inv {b0 : Src.B} {acc : Src.B × List (String × Nat)} (h : AllocInv b0 acc) (n : String) :
    AllocInv b0 (allocStep acc n) ∧ ((allocStep acc n).2.lookup n).isSome ∧
    (∀ m, (acc.2.lookup m).isSome → ((allocStep acc n).2.lookup m).isSome) := by
  unfold allocStep
  by_cases hs : (acc.2.lookup n).isSome = true
  · rw [if_pos hs]
    exact ⟨h, hs, fun _ hm => hm⟩
  · rw [if_neg hs]
    have hnone : acc.2.lookup n = none := by
      cases hq : acc.2.lookup n with
      | none => rfl
      | some x => rw [hq] at hs; simp at hs
    obtain ⟨a1, a2⟩ := tbl_push acc.1 (.halt (evInvalid ("undefined label " ++ n)))
    refine ⟨⟨h.pushes.trans (Pushes.push _ _), ?_, ?_, ?_⟩, ?_, ?_⟩
    · rw [a1]; simp [h.len]; omega
    · intro m i hm
      rw [lookup_snoc, a2] at hm
      cases hq : acc.2.lookup m with
      | some j =>
        rw [hq] at hm
        simp only [Option.some_or, Option.some.injEq] at hm
        subst hm
        obtain ⟨c1, c2, c3⟩ := h.node m j hq
        refine ⟨c1, by simp; omega, ?_⟩
        rw [a1, List.getElem?_append_left (by rw [h.len]; omega)]
        exact c3
      | none =>
        rw [hq] at hm
        simp only [Option.none_or] at hm
        by_cases hmn : (m == n) = true
        · simp only [hmn, if_true, Option.some.injEq] at hm
          subst hm
          have : m = n := by simpa using hmn
          subst this
          refine ⟨by rw [h.len]; omega, by rw [h.len]; simp, ?_⟩
          rw [a1]; simp [phNode]
        · simp [hmn] at hm
    · intro m m' i hm hm'
      rw [lookup_snoc, a2] at hm hm'
      cases hq : acc.2.lookup m with
      | some j =>
        rw [hq] at hm
        simp only [Option.some_or, Option.some.injEq] at hm
        subst hm
        cases hq' : acc.2.lookup m' with
        | some j' =>
          rw [hq'] at hm'
          simp only [Option.some_or, Option.some.injEq] at hm'
          subst hm'
          exact h.inj m m' _ hq hq'
        | none =>
          rw [hq'] at hm'
          simp only [Option.none_or] at hm'
          by_cases hmn : (m' == n) = true
          · simp only [hmn, if_true, Option.some.injEq] at hm'
            have := (h.node m j hq).2.1
            rw [h.len] at hm'
            omega
          · simp [hmn] at hm'
      | none =>
        rw [hq] at hm
        simp only [Option.none_or] at hm
        by_cases hmn : (m == n) = true
        · simp only [hmn, if_true, Option.some.injEq] at hm
          have e1 : m = n := by simpa using hmn
          cases hq' : acc.2.lookup m' with
          | some j' =>
            rw [hq'] at hm'
            simp only [Option.some_or, Option.some.injEq] at hm'
            have := (h.node m' j' hq').2.1
            rw [h.len] at hm
            omega
          | none =>
            rw [hq'] at hm'
            simp only [Option.none_or] at hm'
            by_cases hmn' : (m' == n) = true
            · have e2 : m' = n := by simpa using hmn'
              rw [e1, e2]
            · simp [hmn'] at hm'
        · simp [hmn] at hm
    · rw [lookup_snoc, hnone]; simp
    · intro m hm
      rw [lookup_snoc]
      cases hq : acc.2.lookup m with
      | some j => simp
      | none => rw [hq] at hm; simp at hm

theorem alloc_fold_inv {b0 : Src.B} : ∀ (names : List String) (acc : Src.B × List (String × Nat)), AllocInv b0 acc →
    AllocInv b0 (names.foldl allocStep acc) ∧ (∀ m, (acc.2.lookup m).isSome → ((names.foldl allocStep acc).2.lookup m).isSome) ∧
    ∀ n ∈ names, ((names.foldl allocStep acc).2.lookup n).isSome
  | [], acc, h => ⟨h, fun _ hm => hm, fun n hn => by simp at hn⟩
  | x :: r, acc, h => by
    obtain ⟨h1, h2, h3⟩ := allocStep_inv h x
    obtain ⟨g1, g2, g3⟩ := alloc_fold_inv r (allocStep acc x) h1
    simp only [List.foldl_cons]
    refine ⟨g1, fun m hm => g2 m (h3 m hm), fun n hn => ?_⟩
    simp only [List.mem_cons] at hn
    rcases hn with rfl | hn
    · exact g2 _ h2
    · exact g3 n hn

/-- the table and the label table after `allocLabels` -/
theorem allocLabels_spec (b : Src.B) (names : List String) :
    AllocInv b (Src.allocLabels b names) ∧ ∀ n ∈ names, ((Src.allocLabels b names).2.lookup n).isSome := by
  rw [allocLabels_eq]
  obtain ⟨g1, _, g3⟩ := alloc_fold_inv names (b, []) ⟨Pushes.refl b, by simp, fun n i h => by simp at h, fun n n' i h => by simp at h⟩
  exact ⟨g1, g3⟩

end ESV.Comp
