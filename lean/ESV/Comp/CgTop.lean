import ESV.Comp.CgMain
import ESV.Comp.CgAlloc
/-
`codegen_correct`: from pieces to routines — the guards the fragment implies, the graph of the program, the tables of the
front end.
-/
namespace ESV.Comp
open ESV ESV.Beh

/-! ### what the fragment implies -/

structure StmtFacts (s : Stmt) : Prop where
  ok : okStmt s = true
  w : wStmt s = true

structure StmtsFacts (ss : Stmts) : Prop where
  ok : okStmts ss = true
  w : wStmts ss = true

structure ElifsFacts (es : Elifs) : Prop where
  ok : okElifs es = true
  w : wElifs es = true

structure CasesFacts (cs : Cases) : Prop where
  ok : okCases cs = true
  w : wCases cs = true

theorem f0_inner_facts (c : String) (cp : ESV.Param) (inner : Stmt) (hc : isCtx c = true) (h : f0Inner inner = true) :
    StmtFacts (.with_ c cp inner) := by
  cases inner with
  | op n ps =>
    simp only [f0Inner, Bool.and_eq_true] at h
    obtain ⟨a, b⟩ := nameOK_split n h.1
    exact ⟨by simp [okStmt, b, ctx_notJump c hc], by simp [wStmt, innerOK, a, h.2]⟩
  | end_ => exact ⟨by simp [okStmt, ctx_notJump c hc], by simp [wStmt, innerOK]⟩
  | hold => exact ⟨by simp [okStmt, ctx_notJump c hc], by simp [wStmt, innerOK]⟩
  | _ => simp [f0Inner] at h

theorem simple_facts : ∀ (s : Stmt), cgSimple s = true → StmtFacts s ∧ simpleStmt s = true
  | .op n ps, h => by
    simp only [cgSimple, Bool.and_eq_true] at h
    obtain ⟨a, b⟩ := nameOK_split n h.1
    exact ⟨⟨by simp [okStmt, b], by simp [wStmt, a]⟩, rfl⟩
  | .inl c cp n ps, h => by
    simp only [cgSimple, Bool.and_eq_true] at h
    obtain ⟨a, b⟩ := nameOK_split n h.1.2
    exact ⟨⟨by simp [okStmt, b, ctx_notJump c h.1.1], by simp [wStmt, a, h.2]⟩, rfl⟩
  | .with_ c cp inner, h => by
    simp only [cgSimple, Bool.and_eq_true] at h
    exact ⟨f0_inner_facts c cp inner h.1 h.2, rfl⟩
  | .ret, h => by simp [cgSimple] at h
  | .end_, _ => ⟨⟨by simp [okStmt], by simp [wStmt]⟩, rfl⟩
  | .hold, _ => ⟨⟨by simp [okStmt], by simp [wStmt]⟩, rfl⟩
  | .ite .., h => by simp [cgSimple] at h
  | .label _, h => by simp [cgSimple] at h
  | .jump _, h => by simp [cgSimple] at h
  | .call _, h => by simp [cgSimple] at h
  | .brk, h => by simp [cgSimple] at h
  | .cont, h => by simp [cgSimple] at h
  | .brkLoop, h => by simp [cgSimple] at h
  | .switch .., h => by simp [cgSimple] at h
  | .forever .., h => by simp [cgSimple] at h
  | .while_ .., h => by simp [cgSimple] at h
  | .for_ .., h => by simp [cgSimple] at h
  | .macroCall .., h => by simp [cgSimple] at h

mutual
theorem cg_stmt_facts (lv : Nat) : ∀ (s : Stmt), cgStmt lv s = true → StmtFacts s
  | .op n ps, h => (simple_facts _ (by simpa [cgStmt] using h)).1
  | .inl c cp n ps, h => (simple_facts _ (by simpa [cgStmt] using h)).1
  | .with_ c cp inner, h => (simple_facts _ (by simpa [cgStmt] using h)).1
  | .ret, _ => ⟨by simp [okStmt], by simp [wStmt]⟩
  | .end_, _ => (simple_facts _ rfl).1
  | .hold, _ => (simple_facts _ rfl).1
  | .ite neg hdrs body elifs hasElse els, h => by
    simp only [cgStmt, Bool.and_eq_true] at h
    have f1 := cg_stmts_facts lv body h.1.1.2
    have f2 := cg_elifs_facts lv elifs h.1.2
    have f3 := cg_stmts_facts lv els h.2
    exact ⟨by simp [okStmt, f1.ok, f2.ok, f3.ok], by simp [wStmt, h.1.1.1, f1.w, f2.w, f3.w]⟩
  | .cont, _ => ⟨rfl, rfl⟩
  | .brkLoop, _ => ⟨rfl, rfl⟩
  | .forever body, h => by
    simp only [cgStmt, Bool.and_eq_true] at h
    have f1 := cg_stmts_facts lv body h.2
    exact ⟨by simp [okStmt, f1.ok], by simp [wStmt, f1.w]⟩
  | .while_ neg hd body, h => by
    simp only [cgStmt, Bool.and_eq_true] at h
    have f1 := cg_stmts_facts lv body h.2
    exact ⟨by simp [okStmt, f1.ok], by simp [wStmt, f1.w, h.1.2]⟩
  | .for_ init hd inc body, h => by
    simp only [cgStmt, Bool.and_eq_true] at h
    have f1 := cg_stmts_facts lv body h.2
    obtain ⟨fi, si⟩ := simple_facts init h.1.1.2
    obtain ⟨fe, se⟩ := simple_facts inc h.1.2
    exact ⟨by simp [okStmt, f1.ok, fi.ok, fe.ok], by simp [wStmt, f1.w, h.1.1.1.2, si, se, fi.w, fe.w]⟩
  | .label _, _ => ⟨rfl, rfl⟩
  | .jump _, _ => ⟨rfl, rfl⟩
  | .call _, _ => ⟨rfl, rfl⟩
  | .brk, _ => ⟨rfl, rfl⟩
  | .switch hdr cs, h => by
    simp only [cgStmt, Bool.and_eq_true] at h
    have f1 := cg_cases_facts lv hdr.name cs true h.2
    obtain ⟨a, b⟩ := nameOK_split hdr.name h.1.1.1.2
    exact ⟨by simp [okStmt, b, f1.ok], by simp [wStmt, a, f1.w]⟩
  | .macroCall .., _ => ⟨by simp [okStmt], by simp [wStmt]⟩
theorem cg_stmts_facts (lv : Nat) : ∀ (ss : Stmts), cgStmts lv ss = true → StmtsFacts ss
  | .nil, _ => ⟨rfl, rfl⟩
  | .cons s r, h => by
    simp only [cgStmts, Bool.and_eq_true] at h
    have f1 := cg_stmt_facts lv s h.1
    have f2 := cg_stmts_facts lv r h.2
    exact ⟨by simp [okStmts, f1.ok, f2.ok], by simp [wStmts, f1.w, f2.w]⟩
theorem cg_elifs_facts (lv : Nat) : ∀ (es : Elifs), cgElifs lv es = true → ElifsFacts es
  | .nil, _ => ⟨rfl, rfl⟩
  | .cons neg hdrs body r, h => by
    simp only [cgElifs, Bool.and_eq_true] at h
    have f1 := cg_stmts_facts lv body h.1.2
    have f2 := cg_elifs_facts lv r h.2
    exact ⟨by simp [okElifs, f1.ok, f2.ok], by simp [wElifs, h.1.1, f1.w, f2.w]⟩
theorem cg_cases_facts (lv : Nat) (sw : String) : ∀ (cs : Cases) (nf : Bool), cgCases lv sw nf cs = true → CasesFacts cs
  | .nil, _, _ => ⟨rfl, rfl⟩
  | .cons d n ps body r, nf, h => by
    obtain ⟨hnm, _, hgb, hgr⟩ := cgCases_cons h
    have f1 := cg_stmts_facts lv body hgb
    have f2 := cg_cases_facts lv sw r _ hgr
    refine ⟨by simp [okCases, f1.ok, f2.ok], ?_⟩
    rcases hnm with rfl | hnm
    · simp [wCases, f1.w, f2.w]
    · simp [wCases, f1.w, f2.w, hnm.1]
end

/-! ### the labels a statement defines are labels the source semantics translates -/

mutual
theorem df_sub : ∀ (s : Stmt) (n : String), n ∈ dfStmt s → n ∈ dfS (toSrcStmt s)
  | .label m, n, h => by simpa [dfStmt, toSrcStmt, dfS] using h
  | .ite neg hdrs body elifs hasElse els, n, h => by
    simp only [dfStmt, List.mem_append] at h
    simp only [toSrcStmt, dfS, dfSBranches, List.mem_append]
    rcases h with ((h | h) | h) | h
    · exact .inl (.inl (dfs_sub body n h))
    · exact .inl (.inr (dfA_sub elifs n h))
    · cases hasElse with
      | true => exact .inr (by simpa using dfs_sub els n (by simpa using h))
      | false => simp at h
    · exact .inl (.inr (dfB_sub elifs n h))
  | .switch hdr cs, n, h => by
    simp only [dfStmt] at h; simp only [toSrcStmt, dfS]; exact dfc_sub hdr.name cs n h
  | .forever body, n, h => by
    simp only [dfStmt] at h; simp only [toSrcStmt, dfS]; exact dfs_sub body n h
  | .while_ _ _ body, n, h => by
    simp only [dfStmt] at h; simp only [toSrcStmt, dfS]; exact dfs_sub body n h
  | .for_ init _ inc body, n, h => by
    simp only [dfStmt, List.mem_append] at h
    simp only [toSrcStmt, dfS, List.mem_append]
    rcases h with (h | h) | h
    · exact .inl (.inl (df_sub init n h))
    · exact .inr (dfs_sub body n h)
    · exact .inl (.inr (df_sub inc n h))
  | .op .., n, h => by simp [dfStmt] at h
  | .inl .., n, h => by simp [dfStmt] at h
  | .with_ .., n, h => by simp [dfStmt] at h
  | .jump _, n, h => by simp [dfStmt] at h
  | .call _, n, h => by simp [dfStmt] at h
  | .ret, n, h => by simp [dfStmt] at h
  | .end_, n, h => by simp [dfStmt] at h
  | .hold, n, h => by simp [dfStmt] at h
  | .brk, n, h => by simp [dfStmt] at h
  | .cont, n, h => by simp [dfStmt] at h
  | .brkLoop, n, h => by simp [dfStmt] at h
  | .macroCall .., n, h => by simp [dfStmt] at h
theorem dfs_sub : ∀ (ss : Stmts) (n : String), n ∈ dfStmts ss → n ∈ dfSStmts (toSrcStmts ss)
  | .nil, n, h => by simp [dfStmts] at h
  | .cons s r, n, h => by
    simp only [dfStmts, List.mem_append] at h
    simp only [toSrcStmts, dfSStmts, List.mem_append]
    exact h.imp (df_sub s n) (dfs_sub r n)
theorem dfA_sub : ∀ (es : Elifs) (n : String), n ∈ dfElifsA es → n ∈ dfSBranches (toSrcElifs es)
  | .nil, n, h => by simp [dfElifsA] at h
  | .cons neg hs body r, n, h => by
    simp only [dfElifsA, List.mem_append] at h
    simp only [toSrcElifs, dfSBranches, List.mem_append]
    rcases h with h | h
    · cases neg with
      | true => exact .inl (dfs_sub body n (by simpa using h))
      | false => simp at h
    · exact .inr (dfA_sub r n h)
theorem dfB_sub : ∀ (es : Elifs) (n : String), n ∈ dfElifsB es → n ∈ dfSBranches (toSrcElifs es)
  | .nil, n, h => by simp [dfElifsB] at h
  | .cons neg hs body r, n, h => by
    simp only [dfElifsB, List.mem_append] at h
    simp only [toSrcElifs, dfSBranches, List.mem_append]
    rcases h with h | h
    · cases neg with
      | false => exact .inl (dfs_sub body n (by simpa using h))
      | true => simp at h
    · exact .inr (dfB_sub r n h)
theorem dfc_sub (sw : String) : ∀ (cs : Cases) (n : String), n ∈ dfCases cs → n ∈ dfSCases (toSrcCases sw cs)
  | .nil, n, h => by simp [dfCases] at h
  | .cons true nm ps body r, n, h => by
    simp only [dfCases, List.mem_append] at h
    simp only [toSrcCases, dfSCases, List.mem_append]
    rcases h with h | h
    · split at h
      · simp at h
      · exact .inl (dfs_sub body n h)
    · exact .inr (dfc_sub sw r n h)
  | .cons false nm ps body r, n, h => by
    simp only [dfCases, List.mem_append] at h
    simp only [toSrcCases, dfSCases, List.mem_append]
    rcases h with h | h
    · split at h
      · simp at h
      · exact .inl (dfs_sub body n h)
    · exact .inr (dfc_sub sw r n h)
end

theorem frontGuard_of_cg (lv : Nat) (p : Program) (h : CgProg lv p) : FrontGuard p := by
  obtain ⟨hm, _, hall, hnd, _⟩ := h
  exact ⟨⟨by rw [hm]; simp, fun r hr => (cg_stmts_facts lv r.body (hall r hr)).ok⟩, by rw [hm]; simp,
    fun r hr => (cg_stmts_facts lv r.body (hall r hr)).w, hnd⟩

/-! ### the graph of the program -/

theorem graph_fold (fuel : Nat) (ms : List Src.Macro) (env : Src.Env) (fell : Nat) (Z : Nat → Prop) : ∀ (bodies : List Stmts),
    (∀ body ∈ bodies, ∀ k b, Grow Z b (Src.trStmts fuel ms env (toSrcStmts body) k b).1) → ∀ (acc : Src.B × List (Option Nat)),
    Grow Z acc.1 ((bodies.map fun b => (⟨some (toSrcStmts b)⟩ : Src.Routine)).foldl (graphStep fuel ms env fell) acc).1 ∧
    (∀ j, j < acc.2.length →
      ((bodies.map fun b => (⟨some (toSrcStmts b)⟩ : Src.Routine)).foldl (graphStep fuel ms env fell) acc).2[j]? = acc.2[j]?) ∧
    ∀ j body, bodies[j]? = some body → ∃ bj,
      ((bodies.map fun b => (⟨some (toSrcStmts b)⟩ : Src.Routine)).foldl (graphStep fuel ms env fell) acc).2[acc.2.length + j]? =
        some (some (Src.trStmts fuel ms env (toSrcStmts body) fell bj).2) ∧
      Grow Z (Src.trStmts fuel ms env (toSrcStmts body) fell bj).1
        ((bodies.map fun b => (⟨some (toSrcStmts b)⟩ : Src.Routine)).foldl (graphStep fuel ms env fell) acc).1 ∧
      Grow Z acc.1 bj := by
  intro bodies
  induction bodies with
  | nil => intro _ acc; exact ⟨Grow.refl _, fun _ _ => rfl, fun j body h => by simp at h⟩
  | cons b0 rest ih =>
    intro hall acc
    simp only [List.map_cons, List.foldl_cons]
    have g0 := hall b0 (by simp) fell acc.1
    have hstep : graphStep fuel ms env fell acc ⟨some (toSrcStmts b0)⟩ =
        ((Src.trStmts fuel ms env (toSrcStmts b0) fell acc.1).1, acc.2 ++ [some (Src.trStmts fuel ms env (toSrcStmts b0) fell acc.1).2]) := rfl
    rw [hstep]
    obtain ⟨g1, keep, paths⟩ := ih (fun b hb => hall b (by simp [hb]))
      ((Src.trStmts fuel ms env (toSrcStmts b0) fell acc.1).1, acc.2 ++ [some (Src.trStmts fuel ms env (toSrcStmts b0) fell acc.1).2])
    simp only at g1 keep paths
    refine ⟨g0.trans g1, fun j hj => ?_, fun j body hj => ?_⟩
    · rw [keep j (by simp; omega)]
      exact List.getElem?_append_left hj
    · cases j with
      | zero =>
        simp only [List.getElem?_cons_zero, Option.some.injEq] at hj
        subst hj
        refine ⟨acc.1, ?_, g1, Grow.refl _⟩
        rw [Nat.add_zero, keep acc.2.length (by simp)]
        simp
      | succ j =>
        simp only [List.getElem?_cons_succ] at hj
        obtain ⟨bj, h1, h2, h3⟩ := paths j body hj
        refine ⟨bj, ?_, h2, g0.trans h3⟩
        rw [← h1]
        congr 1
        simp; omega

/-- a node that changed while the routines were translated was changed last by one of them -/
theorem graph_changer (fuel : Nat) (ms : List Src.Macro) (env : Src.Env) (fell : Nat) (Z : Nat → Prop) : ∀ (bodies : List Stmts),
    (∀ body ∈ bodies, ∀ k b, Grow Z b (Src.trStmts fuel ms env (toSrcStmts body) k b).1) → ∀ (acc : Src.B × List (Option Nat)) (i : Nat),
    i < (tbl acc.1).length →
    (tbl ((bodies.map fun b => (⟨some (toSrcStmts b)⟩ : Src.Routine)).foldl (graphStep fuel ms env fell) acc).1)[i]? ≠ (tbl acc.1)[i]? →
    ∃ (j : Nat) (body : Stmts) (bj : Src.B), bodies[j]? = some body ∧ Grow Z acc.1 bj ∧
      Grow Z (Src.trStmts fuel ms env (toSrcStmts body) fell bj).1
        ((bodies.map fun b => (⟨some (toSrcStmts b)⟩ : Src.Routine)).foldl (graphStep fuel ms env fell) acc).1 ∧
      (tbl (Src.trStmts fuel ms env (toSrcStmts body) fell bj).1)[i]? =
        (tbl ((bodies.map fun b => (⟨some (toSrcStmts b)⟩ : Src.Routine)).foldl (graphStep fuel ms env fell) acc).1)[i]? ∧
      (tbl (Src.trStmts fuel ms env (toSrcStmts body) fell bj).1)[i]? ≠ (tbl bj)[i]? := by
  intro bodies
  induction bodies with
  | nil => intro _ acc i _ h; exact absurd rfl h
  | cons b0 rest ih =>
    intro hall acc i hi hne
    simp only [List.map_cons, List.foldl_cons] at hne ⊢
    have g0 := hall b0 (by simp) fell acc.1
    have hstep : graphStep fuel ms env fell acc ⟨some (toSrcStmts b0)⟩ =
        ((Src.trStmts fuel ms env (toSrcStmts b0) fell acc.1).1, acc.2 ++ [some (Src.trStmts fuel ms env (toSrcStmts b0) fell acc.1).2]) := rfl
    rw [hstep] at hne ⊢
    obtain ⟨g1, _, _⟩ := graph_fold fuel ms env fell Z rest (fun b hb => hall b (by simp [hb]))
      ((Src.trStmts fuel ms env (toSrcStmts b0) fell acc.1).1, acc.2 ++ [some (Src.trStmts fuel ms env (toSrcStmts b0) fell acc.1).2])
    simp only at g1
    by_cases hc : (tbl ((rest.map fun b => (⟨some (toSrcStmts b)⟩ : Src.Routine)).foldl (graphStep fuel ms env fell)
        ((Src.trStmts fuel ms env (toSrcStmts b0) fell acc.1).1, acc.2 ++ [some (Src.trStmts fuel ms env (toSrcStmts b0) fell acc.1).2])).1)[i]? =
        (tbl (Src.trStmts fuel ms env (toSrcStmts b0) fell acc.1).1)[i]?
    · exact ⟨0, b0, acc.1, rfl, Grow.refl _, g1, hc.symm, by rw [← hc]; exact hne⟩
    · obtain ⟨j, body, bj, h1, h2, h3, h4, h5⟩ := ih (fun b hb => hall b (by simp [hb]))
        ((Src.trStmts fuel ms env (toSrcStmts b0) fell acc.1).1, acc.2 ++ [some (Src.trStmts fuel ms env (toSrcStmts b0) fell acc.1).2]) i
        (Nat.lt_of_lt_of_le hi g0.len) hc
      exact ⟨j + 1, body, bj, by simpa using h1, g0.trans h2, h3, h4, h5⟩

/-! ### the tables of the front end -/

theorem compileBody_cg (cm : Macros) (term : Bool) (body : Stmts)
    (hstk : ∀ lb s ops s2, cStmts cm lb body s = .ok (ops, s2) → SameStk s s2) {s : St} {its : List LItem} {s' : St}
    (hl : s.loops = []) (hc : s.cases = []) (h : compileBody cm term body s = .ok (its, s')) :
    s'.loops = [] ∧ s'.cases = [] ∧ NamedLe s s' ∧ ∃ lb s1 ops s2, s1.loops = [] ∧ s1.cases = [] ∧ cStmts cm lb body s1 = .ok (ops, s2) ∧
      NamedLe s2 s' ∧ (its = ops ∨ (term = true ∧ ∃ o, its = ops ++ [.op ⟨o, Gen.op_dummy_end, []⟩])) := by
  unfold compileBody at h
  cases hv : vbadStmts body with
  | true => rw [hv] at h; simp [fail_ok] at h
  | false =>
  rw [hv] at h
  simp only [Bool.false_eq_true, if_false, bind_ok, visitTicks_ok] at h
  obtain ⟨lb, s1, h1, ops, s2, h2, h3⟩ := h
  simp only [Prod.mk.injEq] at h1
  obtain ⟨rfl, rfl⟩ := h1
  have hp := hstk _ _ _ _ h2
  have l2 : s2.loops = [] := by rw [hp.loops]; exact hl
  have c2 : s2.cases = [] := by rw [hp.cases]; exact hc
  split at h3
  · rename_i ht
    simp only [bind_ok, pure_ok] at h3
    obtain ⟨o, s3, h4, h5⟩ := h3
    simp only [Prod.mk.injEq] at h5
    obtain ⟨rfl, rfl⟩ := h5
    obtain ⟨rfl, rfl⟩ := genOp_spec h4
    exact ⟨l2, c2, hp.named, s.lbc, (s.tickedLbl (vlStmts body)).tickedOp (voStmts body), ops, s2, hl, hc, h2, NamedLe.refl _,
      .inr ⟨by simp only [Bool.and_eq_true] at ht; exact ht.1, _, rfl⟩⟩
  · simp only [pure_ok, Prod.mk.injEq] at h3
    obtain ⟨rfl, rfl⟩ := h3
    exact ⟨l2, c2, hp.named, s.lbc, (s.tickedLbl (vlStmts body)).tickedOp (voStmts body), its, s', hl, hc, h2, NamedLe.refl _, .inl rfl⟩

theorem compileRoutines_cg (cm : Macros) : ∀ (rs : List Routine) (a : Nat) (t : Tables) (s : St) (t' : Tables) (s' : St),
    seqFrom rs a = true → t.ops.length = a → t.infos.length = a →
    (∀ r ∈ rs, ∀ lb s ops s2, cStmts cm lb r.body s = .ok (ops, s2) → SameStk s s2) → s.loops = [] → s.cases = [] →
    compileRoutines cm rs a t s = .ok (t', s') →
    (∀ i, i < a → t'.ops[i]? = t.ops[i]?) ∧ NamedLe s s' ∧
    ∀ j r, rs[j]? = some r → ∃ its lb s1 ops s2, t'.ops[a + j]? = some its ∧ s1.loops = [] ∧ s1.cases = [] ∧
      cStmts cm lb r.body s1 = .ok (ops, s2) ∧ NamedLe s2 s' ∧ (its = ops ∨ ∃ o, its = ops ++ [.op ⟨o, Gen.op_dummy_end, []⟩]) := by
  intro rs
  induction rs with
  | nil =>
    intro a t s t' s' _ _ _ _ _ _ h
    simp only [compileRoutines, pure_ok, Prod.mk.injEq] at h
    obtain ⟨rfl, rfl⟩ := h
    exact ⟨fun _ _ => rfl, NamedLe.refl _, fun j r hj => by simp at hj⟩
  | cons r0 rs ih =>
    intro a t s t' s' hseq hlo hli hall hl hc h
    simp only [seqFrom, Bool.and_eq_true] at hseq
    have hid := routineId_seq r0 a hseq.1
    simp only [compileRoutines, hid] at h
    split at h
    · simp [fail_ok] at h
    · simp only [bind_ok] at h
      obtain ⟨its, s1, h1, h2⟩ := h
      obtain ⟨l1, c1, n1, lb, sa, ops, sb, la, ca, hcs, nb, hits⟩ := compileBody_cg cm true r0.body (hall r0 (by simp)) hl hc h1
      have hits : its = ops ∨ ∃ o, its = ops ++ [.op ⟨o, Gen.op_dummy_end, []⟩] := hits.imp id (fun h => h.2)
      have e1 : ((t.enlarge a).put a r0.info r0.coro its).ops = t.ops ++ [its] := by
        have : ((t.enlarge a).put a r0.info r0.coro its).ops = (t.enlarge a).ops.set a its := by cases r0.coro <;> rfl
        rw [this]
        simp only [Tables.enlarge, hli, Nat.add_sub_cancel_left]
        rw [← hlo]; simp
      have e2 : ((t.enlarge a).put a r0.info r0.coro its).infos.length = a + 1 := by
        simp [Tables.put, Tables.enlarge, hli]
      obtain ⟨keep, nrest, rest⟩ := ih (a + 1) _ _ _ _ hseq.2 (by rw [e1]; simp [hlo]) e2 (fun x hx => hall x (by simp [hx])) l1 c1 h2
      refine ⟨fun i hi => ?_, n1.trans nrest, fun j r hj => ?_⟩
      · rw [keep i (by omega), e1]
        exact List.getElem?_append_left (by omega)
      · cases j with
        | zero =>
          simp only [List.getElem?_cons_zero, Option.some.injEq] at hj
          subst hj
          refine ⟨its, lb, sa, ops, sb, ?_, la, ca, hcs, nb.trans nrest, hits⟩
          rw [Nat.add_zero, keep a (by omega), e1, ← hlo]
          simp
        | succ j =>
          simp only [List.getElem?_cons_succ] at hj
          obtain ⟨its', lb', s1', ops', s2', g1, g2⟩ := rest j r hj
          exact ⟨its', lb', s1', ops', s2', by rw [← g1]; congr 1; omega, g2⟩

end ESV.Comp
