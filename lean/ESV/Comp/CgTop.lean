import ESV.Comp.CgMain
/-
`codegen_correct`: from pieces to routines — the guards the fragment implies, the graph of the program, the tables of the
front end.
-/
namespace ESV.Comp
open ESV ESV.Beh

/-! ### what the fragment implies -/

structure StmtFacts (s : Stmt) : Prop where
  ok : okStmt s = true
  w : wStmt s = true
  df : dfStmt s = []
  labs : Src.labelsOf (toSrcStmt s) = []

structure StmtsFacts (ss : Stmts) : Prop where
  ok : okStmts ss = true
  w : wStmts ss = true
  df : dfStmts ss = []
  labs : Src.labelsOfStmts (toSrcStmts ss) = []

structure ElifsFacts (es : Elifs) : Prop where
  ok : okElifs es = true
  w : wElifs es = true
  dfA : dfElifsA es = []
  dfB : dfElifsB es = []
  labs : Src.labelsOfBranches (toSrcElifs es) = []

structure CasesFacts (sw : String) (cs : Cases) : Prop where
  ok : okCases cs = true
  w : wCases cs = true
  df : dfCases cs = []
  labs : Src.labelsOfCases (toSrcCases sw cs) = []

theorem f0_inner_facts (c : String) (cp : ESV.Param) (inner : Stmt) (hc : isCtx c = true) (h : f0Inner inner = true) :
    StmtFacts (.with_ c cp inner) := by
  cases inner with
  | op n ps =>
    simp only [f0Inner, Bool.and_eq_true] at h
    obtain ⟨a, b⟩ := nameOK_split n h.1
    exact ⟨by simp [okStmt, a, b, ctx_notJump c hc], by simp [wStmt, innerOK, a, h.2], rfl, by simp [toSrcStmt, Src.labelsOf]⟩
  | end_ => exact ⟨by simp [okStmt, ctx_notJump c hc], by simp [wStmt, innerOK], rfl, by simp [toSrcStmt, Src.labelsOf]⟩
  | hold => exact ⟨by simp [okStmt, ctx_notJump c hc], by simp [wStmt, innerOK], rfl, by simp [toSrcStmt, Src.labelsOf]⟩
  | _ => simp [f0Inner] at h

theorem simple_facts : ∀ (s : Stmt), cgSimple s = true → StmtFacts s ∧ simpleStmt s = true
  | .op n ps, h => by
    obtain ⟨a, b⟩ := nameOK_split n (by simpa [cgSimple] using h)
    exact ⟨⟨by simp [okStmt, b], by simp [wStmt, a], rfl, by simp [toSrcStmt, Src.labelsOf]⟩, rfl⟩
  | .inl c cp n ps, h => by
    simp only [cgSimple, Bool.and_eq_true] at h
    obtain ⟨a, b⟩ := nameOK_split n h.1.2
    exact ⟨⟨by simp [okStmt, b, ctx_notJump c h.1.1], by simp [wStmt, a, h.2], rfl, by simp [toSrcStmt, Src.labelsOf]⟩, rfl⟩
  | .with_ c cp inner, h => by
    simp only [cgSimple, Bool.and_eq_true] at h
    exact ⟨f0_inner_facts c cp inner h.1 h.2, rfl⟩
  | .ret, _ => ⟨⟨by simp [okStmt], by simp [wStmt], rfl, by simp [toSrcStmt, Src.labelsOf]⟩, rfl⟩
  | .end_, _ => ⟨⟨by simp [okStmt], by simp [wStmt], rfl, by simp [toSrcStmt, Src.labelsOf]⟩, rfl⟩
  | .hold, _ => ⟨⟨by simp [okStmt], by simp [wStmt], rfl, by simp [toSrcStmt, Src.labelsOf]⟩, rfl⟩
  | .ite .., h => by simp [cgSimple] at h
  | .label _, h => by simp [cgSimple] at h
  | .jump _, h => by simp [cgSimple] at h
  | .call _, h => by simp [cgSimple] at h
  | .brk, h => by simp [cgSimple] at h
  | .cont, h => by simp [cgSimple] at h
  | .brkLoop, h => by simp [cgSimple] at h
  | .switch .., h => by simp [cgSimple] at h
  | .forever .., h => by simp [cgSimple] at h
  | .while_ .., h => by simp [cgSimple] at h
  | .for_ .., h => by simp [cgSimple] at h
  | .macroCall .., h => by simp [cgSimple] at h

mutual
theorem cg_stmt_facts (lv : Nat) : ∀ (s : Stmt), cgStmt lv s = true → StmtFacts s
  | .op n ps, h => (simple_facts _ (by simpa [cgStmt] using h)).1
  | .inl c cp n ps, h => (simple_facts _ (by simpa [cgStmt] using h)).1
  | .with_ c cp inner, h => (simple_facts _ (by simpa [cgStmt] using h)).1
  | .ret, _ => (simple_facts _ rfl).1
  | .end_, _ => (simple_facts _ rfl).1
  | .hold, _ => (simple_facts _ rfl).1
  | .ite neg hdrs body elifs hasElse els, h => by
    simp only [cgStmt, Bool.and_eq_true] at h
    have f1 := cg_stmts_facts lv body h.1.1.2
    have f2 := cg_elifs_facts lv elifs h.1.2
    have f3 := cg_stmts_facts lv els h.2
    refine ⟨by simp [okStmt, f1.ok, f2.ok, f3.ok], by simp [wStmt, h.1.1.1, f1.w, f2.w, f3.w], ?_, ?_⟩
    · simp only [dfStmt, f1.df, f2.dfA, f2.dfB, f3.df]; cases hasElse <;> rfl
    · simp [toSrcStmt, Src.labelsOf, Src.labelsOfBranches, f1.labs, f2.labs, f3.labs]
  | .cont, _ => ⟨rfl, rfl, rfl, by simp [toSrcStmt, Src.labelsOf]⟩
  | .brkLoop, _ => ⟨rfl, rfl, rfl, by simp [toSrcStmt, Src.labelsOf]⟩
  | .forever body, h => by
    simp only [cgStmt, Bool.and_eq_true] at h
    have f1 := cg_stmts_facts lv body h.2
    exact ⟨by simp [okStmt, f1.ok], by simp [wStmt, f1.w], by simp [dfStmt, f1.df], by simp [toSrcStmt, Src.labelsOf, f1.labs]⟩
  | .while_ neg hd body, h => by
    simp only [cgStmt, Bool.and_eq_true] at h
    have f1 := cg_stmts_facts lv body h.2
    exact ⟨by simp [okStmt, f1.ok], by simp [wStmt, f1.w, h.1.2], by simp [dfStmt, f1.df], by simp [toSrcStmt, Src.labelsOf, f1.labs]⟩
  | .for_ init hd inc body, h => by
    simp only [cgStmt, Bool.and_eq_true] at h
    have f1 := cg_stmts_facts lv body h.2
    obtain ⟨fi, si⟩ := simple_facts init h.1.1.2
    obtain ⟨fe, se⟩ := simple_facts inc h.1.2
    exact ⟨by simp [okStmt, f1.ok, fi.ok, fe.ok], by simp [wStmt, f1.w, h.1.1.1.2, si, se, fi.w, fe.w], by simp [dfStmt, f1.df, fi.df, fe.df],
      by simp [toSrcStmt, Src.labelsOf, f1.labs, fi.labs, fe.labs]⟩
  | .label _, h => by simp [cgStmt] at h
  | .jump _, h => by simp [cgStmt] at h
  | .call _, h => by simp [cgStmt] at h
  | .brk, _ => ⟨rfl, rfl, rfl, by simp [toSrcStmt, Src.labelsOf]⟩
  | .switch hdr cs, h => by
    simp only [cgStmt, Bool.and_eq_true] at h
    have f1 := cg_cases_facts lv hdr.name cs h.2
    obtain ⟨a, b⟩ := nameOK_split hdr.name h.1.1.1.1.2
    exact ⟨by simp [okStmt, b, f1.ok], by simp [wStmt, a, f1.w], by simp [dfStmt, f1.df], by simp [toSrcStmt, Src.labelsOf, f1.labs]⟩
  | .macroCall .., h => by simp [cgStmt] at h
theorem cg_stmts_facts (lv : Nat) : ∀ (ss : Stmts), cgStmts lv ss = true → StmtsFacts ss
  | .nil, _ => ⟨rfl, rfl, rfl, by simp [toSrcStmts, Src.labelsOfStmts]⟩
  | .cons s r, h => by
    simp only [cgStmts, Bool.and_eq_true] at h
    have f1 := cg_stmt_facts lv s h.1
    have f2 := cg_stmts_facts lv r h.2
    exact ⟨by simp [okStmts, f1.ok, f2.ok], by simp [wStmts, f1.w, f2.w], by simp [dfStmts, f1.df, f2.df],
      by simp [toSrcStmts, Src.labelsOfStmts, f1.labs, f2.labs]⟩
theorem cg_elifs_facts (lv : Nat) : ∀ (es : Elifs), cgElifs lv es = true → ElifsFacts es
  | .nil, _ => ⟨rfl, rfl, rfl, rfl, by simp [toSrcElifs, Src.labelsOfBranches]⟩
  | .cons neg hdrs body r, h => by
    simp only [cgElifs, Bool.and_eq_true] at h
    have f1 := cg_stmts_facts lv body h.1.2
    have f2 := cg_elifs_facts lv r h.2
    refine ⟨by simp [okElifs, f1.ok, f2.ok], by simp [wElifs, h.1.1, f1.w, f2.w], ?_, ?_,
      by simp [toSrcElifs, Src.labelsOfBranches, f1.labs, f2.labs]⟩
    · simp only [dfElifsA, f1.df, f2.dfA]; cases neg <;> rfl
    · simp only [dfElifsB, f1.df, f2.dfB]; cases neg <;> rfl
theorem cg_cases_facts (lv : Nat) (sw : String) : ∀ (cs : Cases), cgCases lv sw cs = true → CasesFacts sw cs
  | .nil, _ => ⟨rfl, rfl, rfl, by simp [toSrcCases, Src.labelsOfCases]⟩
  | .cons true n ps body r, h => by
    simp only [cgCases, Bool.and_eq_true] at h
    have f1 := cg_stmts_facts lv body h.1.2
    have f2 := cg_cases_facts lv sw r h.2
    refine ⟨by simp [okCases, f1.ok, f2.ok], by simp [wCases, f1.w, f2.w], ?_, by simp [toSrcCases, Src.labelsOfCases, f1.labs, f2.labs]⟩
    simp only [dfCases, f1.df, f2.df]; split <;> rfl
  | .cons false n ps body r, h => by
    simp only [cgCases, Bool.false_or, Bool.and_eq_true] at h
    have f1 := cg_stmts_facts lv body h.1.2
    have f2 := cg_cases_facts lv sw r h.2
    refine ⟨by simp [okCases, f1.ok, f2.ok], by simp [wCases, f1.w, f2.w, h.1.1.1.1], ?_, by simp [toSrcCases, Src.labelsOfCases, f1.labs, f2.labs]⟩
    simp only [dfCases, f1.df, f2.df]; split <;> rfl
end

/-- programs of the fragment: no macros, routines numbered 0, 1, 2, … in source order, bodies in the fragment -/
def CgProg (lv : Nat) (p : Program) : Prop :=
  p.macros = [] ∧ seqFrom p.routines 0 = true ∧ ∀ r ∈ p.routines, cgStmts lv r.body = true

instance (lv : Nat) (p : Program) : Decidable (CgProg lv p) := by unfold CgProg; infer_instance

theorem frontGuard_of_cg (lv : Nat) (p : Program) (h : CgProg lv p) : FrontGuard p := by
  obtain ⟨hm, _, hall⟩ := h
  refine ⟨⟨by rw [hm]; simp, fun r hr => (cg_stmts_facts lv r.body (hall r hr)).ok⟩, by rw [hm]; simp,
    fun r hr => (cg_stmts_facts lv r.body (hall r hr)).w, ?_⟩
  have : (p.routines.flatMap fun r => dfStmts r.body) = [] := by
    simp only [List.flatMap_eq_nil_iff]
    intro r hr
    exact (cg_stmts_facts lv r.body (hall r hr)).df
  rw [this]; exact List.nodup_nil

/-! ### the graph of the program -/

theorem graph_fold (fuel : Nat) (ms : List Src.Macro) (env : Src.Env) (fell : Nat) (Z : Nat) : ∀ (bodies : List Stmts),
    (∀ body ∈ bodies, ∀ k b, Grow Z b (Src.trStmts fuel ms env (toSrcStmts body) k b).1) → ∀ (acc : Src.B × List (Option Nat)),
    Grow Z acc.1 ((bodies.map fun b => (⟨some (toSrcStmts b)⟩ : Src.Routine)).foldl (graphStep fuel ms env fell) acc).1 ∧
    (∀ j, j < acc.2.length →
      ((bodies.map fun b => (⟨some (toSrcStmts b)⟩ : Src.Routine)).foldl (graphStep fuel ms env fell) acc).2[j]? = acc.2[j]?) ∧
    ∀ j body, bodies[j]? = some body → ∃ bj,
      ((bodies.map fun b => (⟨some (toSrcStmts b)⟩ : Src.Routine)).foldl (graphStep fuel ms env fell) acc).2[acc.2.length + j]? =
        some (some (Src.trStmts fuel ms env (toSrcStmts body) fell bj).2) ∧
      Grow Z (Src.trStmts fuel ms env (toSrcStmts body) fell bj).1
        ((bodies.map fun b => (⟨some (toSrcStmts b)⟩ : Src.Routine)).foldl (graphStep fuel ms env fell) acc).1 := by
  intro bodies
  induction bodies with
  | nil => intro _ acc; exact ⟨Grow.refl _, fun _ _ => rfl, fun j body h => by simp at h⟩
  | cons b0 rest ih =>
    intro hall acc
    simp only [List.map_cons, List.foldl_cons]
    have g0 := hall b0 (by simp) fell acc.1
    have hstep : graphStep fuel ms env fell acc ⟨some (toSrcStmts b0)⟩ =
        ((Src.trStmts fuel ms env (toSrcStmts b0) fell acc.1).1, acc.2 ++ [some (Src.trStmts fuel ms env (toSrcStmts b0) fell acc.1).2]) := rfl
    rw [hstep]
    obtain ⟨g1, keep, paths⟩ := ih (fun b hb => hall b (by simp [hb]))
      ((Src.trStmts fuel ms env (toSrcStmts b0) fell acc.1).1, acc.2 ++ [some (Src.trStmts fuel ms env (toSrcStmts b0) fell acc.1).2])
    simp only at g1 keep paths
    refine ⟨g0.trans g1, fun j hj => ?_, fun j body hj => ?_⟩
    · rw [keep j (by simp; omega)]
      exact List.getElem?_append_left hj
    · cases j with
      | zero =>
        simp only [List.getElem?_cons_zero, Option.some.injEq] at hj
        subst hj
        refine ⟨acc.1, ?_, g1⟩
        rw [Nat.add_zero, keep acc.2.length (by simp)]
        simp
      | succ j =>
        simp only [List.getElem?_cons_succ] at hj
        obtain ⟨bj, h1, h2⟩ := paths j body hj
        refine ⟨bj, ?_, h2⟩
        rw [← h1]
        congr 1
        simp; omega

/-! ### the tables of the front end -/

theorem compileBody_cg (cx : Cx) (fuel : Nat) (lv : Nat) (body : Stmts) (hg : cgStmts lv body = true) {s : St} {its : List LItem} {s' : St}
    (hl : s.loops = []) (hc : s.cases = []) (h : compileBody [] true body s = .ok (its, s')) :
    s'.loops = [] ∧ s'.cases = [] ∧ ∃ lb s1 ops s2, s1.loops = [] ∧ s1.cases = [] ∧ cStmts [] lb body s1 = .ok (ops, s2) ∧
      (its = ops ∨ ∃ o, its = ops ++ [.op ⟨o, Gen.op_dummy_end, []⟩]) := by
  unfold compileBody at h
  cases hv : vbadStmts body with
  | true => rw [hv] at h; simp [fail_ok] at h
  | false =>
  rw [hv] at h
  simp only [Bool.false_eq_true, if_false, bind_ok, visitTicks_ok] at h
  obtain ⟨lb, s1, h1, ops, s2, h2, h3⟩ := h
  simp only [Prod.mk.injEq] at h1
  obtain ⟨rfl, rfl⟩ := h1
  have hp := cStmts_c cx fuel lv body s.lbc hg { } (envOK_empty cx) _ _ _ h2
  have l2 : s2.loops = [] := by rw [hp.loops]; exact hl
  have c2 : s2.cases = [] := by rw [hp.cases]; exact hc
  split at h3
  · simp only [bind_ok, pure_ok] at h3
    obtain ⟨o, s3, h4, h5⟩ := h3
    simp only [Prod.mk.injEq] at h5
    obtain ⟨rfl, rfl⟩ := h5
    obtain ⟨rfl, rfl⟩ := genOp_spec h4
    exact ⟨l2, c2, s.lbc, (s.tickedLbl (vlStmts body)).tickedOp (voStmts body), ops, s2, hl, hc, h2, .inr ⟨_, rfl⟩⟩
  · simp only [pure_ok, Prod.mk.injEq] at h3
    obtain ⟨rfl, rfl⟩ := h3
    exact ⟨l2, c2, s.lbc, (s.tickedLbl (vlStmts body)).tickedOp (voStmts body), its, s', hl, hc, h2, .inl rfl⟩

theorem compileRoutines_cg (cx : Cx) (fuel : Nat) (lv : Nat) : ∀ (rs : List Routine) (a : Nat) (t : Tables) (s : St) (t' : Tables) (s' : St),
    seqFrom rs a = true → t.ops.length = a → t.infos.length = a → (∀ r ∈ rs, cgStmts lv r.body = true) → s.loops = [] → s.cases = [] →
    compileRoutines [] rs a t s = .ok (t', s') →
    (∀ i, i < a → t'.ops[i]? = t.ops[i]?) ∧
    ∀ j r, rs[j]? = some r → ∃ its lb s1 ops s2, t'.ops[a + j]? = some its ∧ s1.loops = [] ∧ s1.cases = [] ∧
      cStmts [] lb r.body s1 = .ok (ops, s2) ∧ (its = ops ∨ ∃ o, its = ops ++ [.op ⟨o, Gen.op_dummy_end, []⟩]) := by
  intro rs
  induction rs with
  | nil =>
    intro a t s t' s' _ _ _ _ _ _ h
    simp only [compileRoutines, pure_ok, Prod.mk.injEq] at h
    obtain ⟨rfl, rfl⟩ := h
    exact ⟨fun _ _ => rfl, fun j r hj => by simp at hj⟩
  | cons r0 rs ih =>
    intro a t s t' s' hseq hlo hli hall hl hc h
    simp only [seqFrom, Bool.and_eq_true] at hseq
    have hid := routineId_seq r0 a hseq.1
    simp only [compileRoutines, hid] at h
    split at h
    · simp [fail_ok] at h
    · simp only [bind_ok] at h
      obtain ⟨its, s1, h1, h2⟩ := h
      obtain ⟨l1, c1, lb, sa, ops, sb, la, ca, hcs, hits⟩ := compileBody_cg cx fuel lv r0.body (hall r0 (by simp)) hl hc h1
      have e1 : ((t.enlarge a).put a r0.info r0.coro its).ops = t.ops ++ [its] := by
        have : ((t.enlarge a).put a r0.info r0.coro its).ops = (t.enlarge a).ops.set a its := by cases r0.coro <;> rfl
        rw [this]
        simp only [Tables.enlarge, hli, Nat.add_sub_cancel_left]
        rw [← hlo]; simp
      have e2 : ((t.enlarge a).put a r0.info r0.coro its).infos.length = a + 1 := by
        simp [Tables.put, Tables.enlarge, hli]
      obtain ⟨keep, rest⟩ := ih (a + 1) _ _ _ _ hseq.2 (by rw [e1]; simp [hlo]) e2 (fun x hx => hall x (by simp [hx])) l1 c1 h2
      refine ⟨fun i hi => ?_, fun j r hj => ?_⟩
      · rw [keep i (by omega), e1]
        exact List.getElem?_append_left (by omega)
      · cases j with
        | zero =>
          simp only [List.getElem?_cons_zero, Option.some.injEq] at hj
          subst hj
          refine ⟨its, lb, sa, ops, sb, ?_, la, ca, hcs, hits⟩
          rw [Nat.add_zero, keep a (by omega), e1, ← hlo]
          simp
        | succ j =>
          simp only [List.getElem?_cons_succ] at hj
          obtain ⟨its', lb', s1', ops', s2', g1, g2⟩ := rest j r hj
          exact ⟨its', lb', s1', ops', s2', by rw [← g1]; congr 1; omega, g2⟩

end ESV.Comp
