import ESV.Comp.CgCore
/-
`codegen_correct` beyond straight-line code: plain operations, operations under a context, sequences, as pieces.
-/
namespace ESV.Comp
open ESV ESV.Beh

theorem agree_last {N : List Src.Node} {Z : Nat → Prop} {b b' : Src.B} {n : Src.Node} (ha : AgreeOn N Z b b') (hb : tbl b' = tbl b ++ [n]) :
    N[(tbl b).length]? = some n := by
  rw [ha.2 _ (Nat.le_refl _) (by rw [hb]; simp), hb]
  simp

theorem gen_ends_eq (n : String) (hj : isJump n = false) : Gen.opsEndFlow.contains n = Beh.endsFlow n := by
  simp [Beh.endsFlow, hj, ESV.TableTie.opsEndFlow_eq]

/-- a piece that never looks at the exits (plain operations, operations under a context) -/
structure SimpleOK (cx : Cx) (items : List LItem) (trf : Nat → Src.B → Src.B × Nat) : Prop where
  last : lastNotCtx items = true
  nonone : NoNone items
  ne : items ≠ []
  nolone : loneJump items = none
  pushes : ∀ k b, Pushes b (trf k b).1
  corr : ∀ r i0, Placed cx.cp cx.rs r i0 items → afterCtxL cx.rs ⟨r, i0⟩ = false → ∀ k b, AgreeOn cx.N cx.Z b (trf k b).1 →
    ∀ m j, (falls items = true → R2 cx m j ⟨r, i0 + items.length⟩ k) → R2 cx m j ⟨r, i0⟩ (trf k b).2

theorem SimpleOK.grow {cx : Cx} {items : List LItem} {trf : Nat → Src.B → Src.B × Nat} (h : SimpleOK cx items trf) (k : Nat) (b : Src.B) :
    Grow cx.Z b (trf k b).1 := (h.pushes k b).grow

theorem SimpleOK.piece {cx : Cx} {items : List LItem} {trf : Nat → Src.B → Src.B × Nat} (h : SimpleOK cx items trf) {s s' : St}
    (hs : SameStk s s') (env : Src.Env) : PieceOK cx items s s' trf env :=
  ⟨hs.1, hs.2, hs.3, h.last, h.nonone, fun h0 => absurd h0 h.ne, fun l hl' => (by rw [h.nolone] at hl'; cases hl'), h.grow,
   fun r i0 hp hpre k b hag m j _ _ hcont =>
     ⟨h.corr r i0 hp hpre k b hag m j hcont, LabExport.same (fun i hi => (h.pushes k b).same hi)⟩⟩

/-- a plain operation -/
theorem op_simple (cx : Cx) (fuel : Nat) (n : String) (ps : List ESV.Param) (hn : nameOK n = true) (hnr : n ≠ Gen.op_return ∨ cx.cp.ret = none)
    {s : St} {items : List LItem} {s' : St}
    (h : opStmt n ps s = .ok (items, s')) (env : Src.Env) (he : EnvOK cx env) :
    SimpleOK cx items (fun k b => Src.tr fuel cx.sm env (.op n (convParams ps)) k b) ∧ SameStk s s' := by
  simp only [opStmt, bind_ok, pure_ok] at h
  obtain ⟨o, s1, h1, h2⟩ := h
  simp only [Prod.mk.injEq] at h2
  obtain ⟨rfl, rfl⟩ := h2
  obtain ⟨rfl, rfl⟩ := genOp_spec h1
  simp only [nameOK, Bool.and_eq_true, Bool.not_eq_true'] at hn
  have htr : ∀ k b, Src.tr fuel cx.sm env (.op n (convParams ps)) k b =
      if Beh.endsFlow n then b.push (.halt (Src.substEv env.subst ⟨n, convParams ps⟩))
      else b.push (.emit (Src.substEv env.subst ⟨n, convParams ps⟩) k) := by
    intro k b; rw [Src.tr]
  refine ⟨⟨?_, ?_, ?_, ?_, ?_, ?_⟩, sameStk_tickedOp _ _⟩
  · simp [lastNotCtx, isCtxL, hn.1]
  · intro x hx root e
    simp at hx; subst hx; cases e
  · simp
  · rfl
  · intro k b
    simp only [htr]; split <;> exact Pushes.push _ _
  intro r i0 hp hpre k b
  have hit : ItemC cx.cp cx.rs ⟨r, i0⟩ (.op ⟨s.opc + 1, n, ps⟩) := by simpa using hp.item (d := 0) rfl
  have hstep := lab_op hit hn.2 hnr
  simp only [hpre, Bool.not_false, Bool.and_true, he.ev] at hstep
  simp only [htr]
  by_cases hf : Beh.endsFlow n = true
  · simp only [hf, if_true] at hstep ⊢
    obtain ⟨a1, a2⟩ := tbl_push b (.halt (Src.substEv env.subst ⟨n, convParams ps⟩))
    intro hag m j _
    rw [a2]
    exact R2.halt hstep (nodeStep_of (agree_last hag a1))
  · simp only [hf, Bool.false_eq_true, if_false] at hstep ⊢
    obtain ⟨a1, a2⟩ := tbl_push b (.emit (Src.substEv env.subst ⟨n, convParams ps⟩) k)
    intro hag m j hcont
    rw [a2]
    have hfalls : falls [LItem.op ⟨s.opc + 1, n, ps⟩] = true := by
      have hj : isJump n = false := by
        have := hn.2; simp only [Bool.or_eq_false_iff] at this; exact this.1
      have : Gen.opsEndFlow.contains n = false := by rw [gen_ends_eq n hj]; simpa using hf
      have h2 : ¬ n ∈ Gen.opsEndFlow := by simpa using this
      simp [falls, needsEndJump, Comp.endsFlow, endsName, h2]
    exact R2.emit hstep (nodeStep_of (agree_last hag a1)) (by simpa [LPos.next] using (hcont hfalls).1)

theorem op_piece (cx : Cx) (fuel : Nat) (n : String) (ps : List ESV.Param) (hn : nameOK n = true) (hnr : n ≠ Gen.op_return ∨ cx.cp.ret = none)
    {s : St} {items : List LItem} {s' : St}
    (h : opStmt n ps s = .ok (items, s')) (env : Src.Env) (he : EnvOK cx env) :
    PieceOK cx items s s' (fun k b => Src.tr fuel cx.sm env (.op n (convParams ps)) k b) env := by
  obtain ⟨h1, h2⟩ := op_simple cx fuel n ps hn hnr h env he
  exact h1.piece h2 env

/-- a context op and the op under it -/
theorem ctx_simple (cx : Cx) (c : String) (cp : ESV.Param) (n : String) (ps : List ESV.Param) (hc : isCtx c = true)
    (hn : nameOK n = true) (hnr : n ≠ Gen.op_return) (oc oo : Nat) (en ec : Ev)
    (hen : (⟨n, convParams (ps.map cx.cp.sub)⟩ : Ev) = en) (hec : (⟨c, convParams ([cp].map cx.cp.sub)⟩ : Ev) = ec)
    (trf : Nat → Src.B → Src.B × Nat)
    (htr : ∀ k b, trf k b = ((b.push (.emit en k)).1.push (.emit ec (b.push (.emit en k)).2))) :
    SimpleOK cx [.op ⟨oc, c, [cp]⟩, .op ⟨oo, n, ps⟩] trf := by
  simp only [nameOK, Bool.and_eq_true, Bool.not_eq_true'] at hn
  have hgrow : ∀ k b, Pushes b (trf k b).1 := by
    intro k b
    rw [htr]
    exact (Pushes.push _ _).trans (Pushes.push _ _)
  refine ⟨?_, ?_, ?_, ?_, hgrow, ?_⟩
  · simp [lastNotCtx, isCtxL, hn.1]
  · intro x hx root e
    simp at hx; rcases hx with rfl | rfl <;> cases e
  · simp
  · rfl
  intro r i0 hp hpre k b
  have hit0 : ItemC cx.cp cx.rs ⟨r, i0⟩ (.op ⟨oc, c, [cp]⟩) := by simpa using hp.item (d := 0) rfl
  have hit1 : ItemC cx.cp cx.rs ⟨r, i0 + 1⟩ (.op ⟨oo, n, ps⟩) := hp.item (d := 1) rfl
  have hcj : (isJump c || isTest c) = false := by
    cases hj : (isJump c || isTest c) with
    | false => rfl
    | true => have := jt_not_ctx c hj; rw [hc] at this; cases this
  have hcr : c ≠ Gen.op_return := by
    intro e; rw [e] at hc; revert hc; decide
  have hs0 := lab_op hit0 hcj (.inl hcr)
  rw [ctx_not_ends c hc] at hs0
  simp only [Bool.false_and, Bool.false_eq_true, if_false, hec] at hs0
  have hs1 := lab_op hit1 hn.2 (.inl hnr)
  have hac : afterCtxL cx.rs ⟨r, i0 + 1⟩ = true := by
    rw [afterCtxL_itemC hit0]; simpa [isCtxL] using hc
  simp only [hac, Bool.not_true, Bool.and_false, Bool.false_eq_true, if_false, hen] at hs1
  rw [htr]
  obtain ⟨a1, a2⟩ := tbl_push b (.emit en k)
  generalize b.push (Step.emit en k) = B1 at a1 a2 ⊢
  obtain ⟨b1, i1⟩ := B1
  simp only at a1 a2
  subst a2
  obtain ⟨c1, c2⟩ := tbl_push b1 (.emit ec (tbl b).length)
  intro hag m j hcont
  simp only
  rw [c2, a1]
  have hN1 : cx.N[(tbl b).length]? = some (.emit en k) := by
    rw [hag.2 _ (Nat.le_refl _) (by rw [c1, a1]; simp), c1, a1]
    simp
  have hN2 : cx.N[(tbl b).length + 1]? = some (.emit ec (tbl b).length) := by
    rw [hag.2 _ (by omega) (by rw [c1, a1]; simp), c1, a1]
    simp
  have hfalls : falls [LItem.op ⟨oc, c, [cp]⟩, LItem.op ⟨oo, n, ps⟩] = true := by
    have : isCtxItem (LItem.op ⟨oc, c, [cp]⟩) = true := by rw [ctx_item_tie]; simpa [isCtxL] using hc
    simp [falls, needsEndJump, Comp.endsFlow, this]
  have hk := (hcont hfalls).1
  have e1 : R2 cx m j ⟨r, i0 + 1⟩ (tbl b).length :=
    R2.emit hs1 (nodeStep_of hN1) (by simpa [LPos.next, Nat.add_assoc] using hk)
  have hlen : (tbl b ++ [Step.emit en k]).length = (tbl b).length + 1 := by simp
  rw [hlen]
  exact R2.emit (j := j) hs0 (nodeStep_of hN2) (by simpa [LPos.next] using e1.1)

/-- nothing -/
theorem nil_piece (cx : Cx) (s : St) (env : Src.Env) : PieceOK cx [] s s (fun k b => (b, k)) env := by
  refine ⟨rfl, rfl, NamedLe.refl s, rfl, ?_, fun _ k b => rfl, ?_, fun k b => Grow.refl b, ?_⟩
  · intro x hx; simp at hx
  · intro l hl; simp [loneJump] at hl
  intro r i0 _ _ k b _ m j _ _ hcont
  exact ⟨by simpa using hcont rfl, LabExport.same (fun _ _ => rfl)⟩

/-- one piece after the other; the source semantics translates the second first -/
theorem seq_piece (cx : Cx) {a bb : List LItem} {s s1 s2 : St} {trA trB : Nat → Src.B → Src.B × Nat} {env : Src.Env}
    (hA : PieceOK cx a s s1 trA env) (hB : PieceOK cx bb s1 s2 trB env) :
    PieceOK cx (a ++ bb) s s2 (fun k b => trA (trB k b).2 (trB k b).1) env := by
  have hgrow : ∀ k b, Grow cx.Z b (trA (trB k b).2 (trB k b).1).1 := fun k b => (hB.grow k b).trans (hA.grow _ _)
  refine ⟨?_, ?_, hA.named.trans hB.named, lastNotCtx_append' a bb hA.last hB.last, ?_, ?_, ?_, hgrow, ?_⟩
  · rw [hB.loops, hA.loops]
  · rw [hB.cases, hA.cases]
  rotate_right
  · intro r i0 hp hpre k b hag m j hex hin hcont
    have hpreB : afterCtxL cx.rs ⟨r, i0 + a.length⟩ = false := by
      by_cases ha : a = []
      · subst ha; simpa using hpre
      · exact afterCtxL_after hp.left ha hA.last
    have gB := hB.grow k b
    have gA := hA.grow (trB k b).2 (trB k b).1
    have agB : AgreeOn cx.N cx.Z b (trB k b).1 := hag.sub_grow (Grow.refl b) gA
    have agA : AgreeOn cx.N cx.Z (trB k b).1 (trA (trB k b).2 (trB k b).1).1 := hag.sub_grow gB (Grow.refl _)
    by_cases hb : bb = []
    · subst hb
      have e := hB.empty rfl k b
      have hfull := hA.full r i0 hp.left hpre _ _ agA m j hex (hin.le hB.named) (fun hfa => by
        rw [e]
        have := hcont (by simpa using hfa)
        simpa using this)
      refine ⟨hfull.1, ?_⟩
      have h2 := hfull.2
      rw [e] at h2 ⊢
      exact h2
    · have hcB : falls bb = true → R2 cx m j ⟨r, i0 + a.length + bb.length⟩ k := fun hfb => by
        have := hcont (by rw [falls_append a bb hb hA.last]; exact hfb)
        simpa [Nat.add_assoc] using this
      have fB := hB.full r (i0 + a.length) hp.right hpreB k b agB m j (hex.same hA.loops hA.cases) hin hcB
      have fA := hA.full r i0 hp.left hpre _ _ agA m j hex (hin.le hB.named) (fun _ => fB.1)
      exact ⟨fA.1, LabExport.comp gB.len fB.2 fA.2⟩
  · intro x hx
    rcases List.mem_append.mp hx with h | h
    · exact hA.nonone x h
    · exact hB.nonone x h
  · intro h0 k b
    have ha : a = [] := (List.append_eq_nil_iff.mp h0).1
    have hb : bb = [] := (List.append_eq_nil_iff.mp h0).2
    simp only [hB.empty hb k b, hA.empty ha]
  · intro l hl m j hex hin
    by_cases ha : a = []
    · subst ha
      simp only [List.nil_append] at hl
      obtain ⟨n, h1, h2⟩ := hB.lone l hl m j (hex.same hA.loops hA.cases) hin
      exact ⟨n, fun k b => by simp only [h1 k b, hA.empty rfl], h2⟩
    · by_cases hb : bb = []
      · subst hb
        simp only [List.append_nil] at hl
        obtain ⟨n, h1, h2⟩ := hA.lone l hl m j hex (hin.le hB.named)
        exact ⟨n, fun k b => by simp only [hB.empty rfl k b, h1], h2⟩
      · exfalso
        cases a with
        | nil => exact ha rfl
        | cons x xs =>
          cases bb with
          | nil => exact hb rfl
          | cons y ys => cases xs <;> simp [loneJump] at hl

end ESV.Comp
