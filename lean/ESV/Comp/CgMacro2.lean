import ESV.Comp.CgMacro1
import ESV.Comp.CgFinal
/-
`codegen_correct`, macros: parameter substitution (the dictionary of `build` against the substitution of the language
semantics, through nested expansions), and the invariant of the compiled macros (`CmOK`: every blueprint is the collected code
of the macro's body, compiled with the macros before it).
-/
namespace ESV.Comp
open ESV ESV.Beh

/-! ### parameters -/

/-- copying parameters is substituting them -/
def ParOK (sub : Param → Param) (sb : List (String × Beh.Param)) : Prop := ∀ p, convParam (sub p) = Src.substParam sb (convParam p)

theorem EnvOK.par {cx : Cx} {env : Src.Env} (h : EnvOK cx env) : ParOK cx.cp.sub env.subst := by
  intro p
  have := h.ev "" [p]
  simp only [Src.substEv, convParams, List.map_cons, List.map_nil, Ev.mk.injEq, true_and, List.cons.injEq, and_true] at this
  exact this

theorem ev_of_par {sub : Param → Param} {sb : List (String × Beh.Param)} (h : ParOK sub sb) (n : String) (ps : List Param) :
    (⟨n, convParams (ps.map sub)⟩ : Ev) = Src.substEv sb ⟨n, convParams ps⟩ := by
  simp only [Src.substEv, convParams, List.map_map, Ev.mk.injEq, true_and]
  exact List.map_congr_left (fun p _ => h p)

theorem zipDict_keys : ∀ (vars : List String) (args : List Param) (n : String) (v : Param), (zipDict vars args).lookup n = some v → n ∈ vars
  | [], _, n, v, h => by simp [zipDict] at h
  | _ :: _, [], n, v, h => by simp [zipDict] at h
  | x :: vs, a :: as, n, v, h => by
    simp only [zipDict, lookup_snoc'] at h
    cases h1 : (zipDict vs as).lookup n with
    | some w => exact List.mem_cons_of_mem _ (zipDict_keys vs as n w h1)
    | none =>
      rw [h1] at h
      simp only [Option.none_or] at h
      split at h
      · rename_i e; simp at e; simp [e]
      · cases h
where
  lookup_snoc' : ∀ (l : List (String × Param)) (n m : String) (i : Param),
      (l ++ [(n, i)]).lookup m = (l.lookup m).or (if m == n then some i else none) := by
    intro l n m i
    simp only [List.lookup_append, List.lookup_cons, List.lookup_nil]
    cases m == n <;> rfl

/-- with distinct variables `dict(zip(...))` is looked up like the zipped list -/
theorem zipDict_lookup : ∀ (vars : List String) (args : List Param), vars.Nodup → ∀ n, (zipDict vars args).lookup n = (vars.zip args).lookup n
  | [], _, _, n => by simp [zipDict]
  | _ :: _, [], _, n => by simp [zipDict]
  | x :: vs, a :: as, hnd, n => by
    rw [List.nodup_cons] at hnd
    simp only [zipDict, zipDict_keys.lookup_snoc', List.zip_cons_cons, List.lookup_cons]
    by_cases e : n = x
    · subst e
      have : (zipDict vs as).lookup n = none := by
        cases h : (zipDict vs as).lookup n with
        | none => rfl
        | some w => exact absurd (zipDict_keys vs as n w h) hnd.1
      simp [this]
    · have e' : (n == x) = false := by simpa using e
      simp only [e', Bool.false_eq_true, if_false, Option.or_none]
      exact zipDict_lookup vs as hnd.2 n

/-- `build` got a value for every variable: there are enough arguments -/
theorem zipDict_all_len : ∀ (vars : List String) (args : List Param), vars.Nodup →
    vars.all (fun v => ((zipDict vars args).lookup v).isSome) = true → vars.length ≤ args.length
  | [], _, _, _ => by simp
  | x :: vs, [], _, h => by simp [zipDict] at h
  | x :: vs, a :: as, hnd, h => by
    have hnd' := hnd
    rw [List.nodup_cons] at hnd'
    simp only [List.length_cons, Nat.add_le_add_iff_right]
    refine zipDict_all_len vs as hnd'.2 ?_
    rw [List.all_eq_true] at h ⊢
    intro v hv
    have h1 := h v (List.mem_cons_of_mem _ hv)
    rw [zipDict_lookup (x :: vs) (a :: as) hnd] at h1
    rw [zipDict_lookup vs as hnd'.2]
    have e : (v == x) = false := by
      have : v ≠ x := fun e => hnd'.1 (e ▸ hv)
      simpa using this
    simpa [List.lookup_cons, e] using h1

theorem lookup_zip_map {β γ : Type} (f : β → γ) : ∀ (vars : List String) (args : List β) (n : String),
    (vars.zip (args.map f)).lookup n = ((vars.zip args).lookup n).map f
  | [], _, n => by simp
  | _ :: _, [], n => by simp
  | x :: vs, a :: as, n => by
    simp only [List.map_cons, List.zip_cons_cons, List.lookup_cons]
    split
    · rfl
    · exact lookup_zip_map f vs as n

/-- the parameters of a macro body: first the dictionary of the expansion, then what the copy around the call does -/
theorem par_macro {sub : Param → Param} {sb : List (String × Beh.Param)} (h : ParOK sub sb) (vars : List String) (args : List Param)
    (hnd : vars.Nodup) :
    ParOK (fun p => sub (substParam (zipDict vars args) p)) (vars.zip ((convParams args).map (Src.substParam sb)) ++ sb) := by
  intro p
  have hnc : ∀ q : Param, (∀ n, q ≠ .const n) → convParam (sub (substParam (zipDict vars args) q)) =
      Src.substParam (vars.zip ((convParams args).map (Src.substParam sb)) ++ sb) (convParam q) := by
    intro q hq
    have e1 : substParam (zipDict vars args) q = q := by
      cases q <;> first | rfl | exact absurd rfl (hq _)
    rw [e1, h q]
    cases q <;> first | rfl | exact absurd rfl (hq _)
  cases p with
  | const n =>
    simp only [substParam, zipDict_lookup vars args hnd]
    have hz : (vars.zip ((convParams args).map (Src.substParam sb))).lookup n =
        ((vars.zip args).lookup n).map (fun v => Src.substParam sb (convParam v)) := by
      simp only [convParams, List.map_map]
      exact lookup_zip_map _ vars args n
    cases hl : (vars.zip args).lookup n with
    | some v =>
      simp only [convParam, Src.substParam, List.lookup_append, hz, hl, Option.map_some, Option.some_or]
      exact h v
    | none =>
      simp only [convParam, Src.substParam, List.lookup_append, hz, hl, Option.map_none, Option.none_or]
      exact h (.const n)
  | int i => exact hnc _ (fun n e => by cases e)
  | fixed v => exact hnc _ (fun n e => by cases e)
  | constString s => exact hnc _ (fun n e => by cases e)
  | langString kv => exact hnc _ (fun n e => by cases e)
  | posMark n a b c d => exact hnc _ (fun n e => by cases e)

/-! ### the compiled macros -/

/-- where a compiled macro came from: its blueprint is the collected code of the body of a macro of the program (the one the
language semantics finds under the name), compiled with the macros `rest` before it, from a state without open loops or
switches; the body is in the fragment and only mentions its own labels; the variables are distinct -/
def EntryOK (lv : Nat) (sm : List Src.Macro) (rest : Macros) (nm : String) (mb : MacroBP) : Prop :=
  ∃ (M : Macro) (lb : Nat) (sM sM' : St), sm.find? (fun m => m.name == nm) = some (toSrcMacro M) ∧ mb.vars = M.vars ∧ M.vars.Nodup ∧
    cStmts rest lb M.body sM = .ok (mb.bp, sM') ∧ sM.loops = [] ∧ sM.cases = [] ∧ cgStmts lv M.body = true ∧
    (∀ n ∈ mlStmts M.body, n ∈ dfStmts M.body)

/-- every compiled macro is as `EntryOK` says, with the macros compiled before it -/
def CmOK (lv : Nat) (sm : List Src.Macro) : Macros → Prop
  | [] => True
  | (nm, mb) :: rest => CmOK lv sm rest ∧ EntryOK lv sm rest nm mb

theorem CmOK.lookup {lv : Nat} {sm : List Src.Macro} : ∀ {cm : Macros}, CmOK lv sm cm → ∀ {name : String} {mb : MacroBP},
    cm.lookup name = some mb → ∃ rest, rest.length < cm.length ∧ CmOK lv sm rest ∧ EntryOK lv sm rest name mb
  | [], _, name, mb, h => by simp at h
  | (nm, mb0) :: rest, hms, name, mb, h => by
    simp only [List.lookup_cons] at h
    split at h
    · rename_i e
      have e' : name = nm := by simpa using e
      simp only [Option.some.injEq] at h
      subst h e'
      exact ⟨rest, by simp, hms.1, hms.2⟩
    · obtain ⟨r2, h1, h2, h3⟩ := CmOK.lookup hms.1 h
      exact ⟨r2, by simp only [List.length_cons]; omega, h2, h3⟩

end ESV.Comp
