import ESV.Comp.FrontW11
/-
`frontend_wfl`, part 12: the reserved label numbers of a body are pairwise distinct; a collected body.
-/
namespace ESV.Comp
open ESV ESV.Beh

/-! ### the label numbers reserved while visiting are pairwise distinct -/

theorem Good.ite_if {lo hi : Nat} {x : List Nat} (b : Bool) (h : Good lo hi x) : Good lo hi (if b then x else []) := by
  cases b
  · exact Good.nil _ _
  · exact h

mutual
theorem rsStmt_good : ∀ (st : Stmt) (lb : Nat), Good lb (lb + vlStmt st) (rsStmt lb st)
  | .ite neg hdrs body elifs hasElse els, lb => by
    simp only [rsStmt, vlStmt]
    have g1 := rsStmts_good body lb
    have g2 := rsElifs_good elifs (lb + vlStmts body)
    have g3 : Good (lb + vlStmts body + vlElifs elifs) (lb + vlStmts body + vlElifs elifs + vlStmts els)
        (if hasElse then rsStmts (lb + vlStmts body + vlElifs elifs) els else []) := (rsStmts_good els _).ite_if hasElse
    have g := (g1.append g2 (by omega) (by omega)).append g3 (by omega) (by omega)
    have e : lb + vlStmts body + vlElifs elifs + vlStmts els = lb + (vlStmts body + vlElifs elifs + vlStmts els) := by omega
    rw [e] at g
    exact g.of_count_le (fun n => by simp only [List.count_append]; omega)
  | .switch hdr cs, lb => by simp only [rsStmt, vlStmt]; exact rsCases_good cs lb
  | .forever body, lb => by
    simp only [rsStmt, vlStmt]
    have g1 : Good lb (lb + 2) [lb + 1, lb + 2] := by
      simpa using (Good.single (lo := lb) (hi := lb + 1) (by omega) (by omega)).append
        (Good.single (lo := lb + 1) (hi := lb + 2) (a := lb + 2) (by omega) (by omega)) (by omega) (by omega)
    have g := g1.append (rsStmts_good body (lb + 2)) (by omega) (by omega)
    have e : lb + 2 + vlStmts body = lb + (2 + vlStmts body) := by omega
    rw [e] at g; exact g
  | .while_ neg h body, lb => by
    simp only [rsStmt, vlStmt]
    have g1 : Good lb (lb + 2) [lb + 1, lb + 2] := by
      simpa using (Good.single (lo := lb) (hi := lb + 1) (by omega) (by omega)).append
        (Good.single (lo := lb + 1) (hi := lb + 2) (a := lb + 2) (by omega) (by omega)) (by omega) (by omega)
    have g := g1.append (rsStmts_good body (lb + 2)) (by omega) (by omega)
    have e : lb + 2 + vlStmts body = lb + (2 + vlStmts body) := by omega
    rw [e] at g; exact g
  | .for_ init h inc body, lb => by
    simp only [rsStmt, vlStmt]
    have s1 : ∀ k, Good (lb + k) (lb + k + 1) [lb + k + 1] := fun k => Good.single (by omega) (by omega)
    have g1 : Good lb (lb + 5) [lb + 1, lb + 2, lb + 3, lb + 4, lb + 5] := by
      have := ((((s1 0).append (s1 1) (by omega) (by omega)).append (s1 2) (by omega) (by omega)).append (s1 3) (by omega)
        (by omega)).append (s1 4) (by omega) (by omega)
      simpa using this
    have g := g1.append (rsStmts_good body (lb + 5)) (by omega) (by omega)
    have e : lb + 5 + vlStmts body = lb + (5 + vlStmts body) := by omega
    rw [e] at g; exact g
  | .op _ _, lb => by simpa [rsStmt, vlStmt] using Good.nil lb lb
  | .inl _ _ _ _, lb => by simpa [rsStmt, vlStmt] using Good.nil lb lb
  | .with_ _ _ _, lb => by simpa [rsStmt, vlStmt] using Good.nil lb lb
  | .label _, lb => by simpa [rsStmt, vlStmt] using Good.nil lb lb
  | .jump _, lb => by simpa [rsStmt, vlStmt] using Good.nil lb lb
  | .call _, lb => by simpa [rsStmt, vlStmt] using Good.nil lb lb
  | .ret, lb => by simpa [rsStmt, vlStmt] using Good.nil lb lb
  | .end_, lb => by simpa [rsStmt, vlStmt] using Good.nil lb lb
  | .hold, lb => by simpa [rsStmt, vlStmt] using Good.nil lb lb
  | .brk, lb => by simpa [rsStmt, vlStmt] using Good.nil lb lb
  | .cont, lb => by simpa [rsStmt, vlStmt] using Good.nil lb lb
  | .brkLoop, lb => by simpa [rsStmt, vlStmt] using Good.nil lb lb
  | .macroCall _ _, lb => by simpa [rsStmt, vlStmt] using Good.nil lb lb

theorem rsStmts_good : ∀ (ss : Stmts) (lb : Nat), Good lb (lb + vlStmts ss) (rsStmts lb ss)
  | .nil, lb => by simpa [rsStmts, vlStmts] using Good.nil lb lb
  | .cons s r, lb => by
    simp only [rsStmts, vlStmts]
    have g := (rsStmt_good s lb).append (rsStmts_good r (lb + vlStmt s)) (by omega) (by omega)
    have e : lb + vlStmt s + vlStmts r = lb + (vlStmt s + vlStmts r) := by omega
    rw [e] at g; exact g

theorem rsElifs_good : ∀ (es : Elifs) (lb : Nat), Good lb (lb + vlElifs es) (rsElifsA lb es ++ rsElifsB lb es)
  | .nil, lb => by simpa [rsElifsA, rsElifsB, vlElifs] using Good.nil lb lb
  | .cons neg hdrs body r, lb => by
    simp only [rsElifsA, rsElifsB, vlElifs]
    have g := (rsStmts_good body lb).append (rsElifs_good r (lb + vlStmts body)) (by omega) (by omega)
    have e : lb + vlStmts body + vlElifs r = lb + (vlStmts body + vlElifs r) := by omega
    rw [e] at g
    refine g.of_count_le (fun n => ?_)
    cases neg <;> simp only [List.count_append, Bool.false_eq_true, ↓reduceIte, List.count_nil] <;> omega

theorem rsCases_good : ∀ (cs : Cases) (lb : Nat), Good lb (lb + vlCases cs) (rsCases lb cs)
  | .nil, lb => by simpa [rsCases, vlCases] using Good.nil lb lb
  | .cons d nm ps body r, lb => by
    simp only [rsCases, vlCases]
    have g := (rsStmts_good body lb).append (rsCases_good r (lb + vlStmts body)) (by omega) (by omega)
    have e : lb + vlStmts body + vlCases r = lb + (vlStmts body + vlCases r) := by omega
    rw [e] at g
    refine g.of_count_le (fun n => ?_)
    cases body.isNil <;> simp only [List.count_append, Bool.false_eq_true, ↓reduceIte, List.count_nil] <;> omega
end

/-! ### `_trailing_labels_need_an_op` -/

theorem jump_eq : Gen.op_jump = ESV.Spec.op_jump := by decide

theorem condOK_of_not_need (ops : List LItem) (h : trailingNeedOp ops = false) : condOK ops = true := by
  simp only [trailingNeedOp, Bool.or_eq_false_iff] at h
  simp only [condOK, List.all_eq_true]
  intro x hx
  have h2 := h.2
  rw [List.any_eq_false] at h2
  have := h2 x hx
  cases x with
  | op o => rfl
  | label i b => rfl
  | ljump root l =>
    cases l with
    | none => rfl
    | some l =>
      simp only [Bool.and_eq_true, bne_iff_ne, ne_eq, List.any_eq_true, beq_iff_eq, not_and, not_exists] at this
      simp only [Bool.or_eq_true, Bool.not_eq_true', isJump, beq_iff_eq]
      by_cases hj : root.name = ESV.Spec.op_jump
      · exact .inl hj
      · right
        have hj' : ¬ root.name = Gen.op_jump := by rw [jump_eq]; exact hj
        have h3 := this hj'
        simp only [List.contains_eq_mem, decide_eq_false_iff_not, List.mem_map, not_exists, not_and]
        intro p hp e
        exact h3 p hp e

theorem condOK_snoc_op (ops : List LItem) (o : Op) : condOK (ops ++ [.op o]) = true := by
  simp only [condOK, List.reverse_append, List.reverse_cons, List.reverse_nil, List.nil_append, List.singleton_append, trailingLabels,
    List.map_nil, List.all_eq_true]
  intro x _
  cases x with
  | op o => rfl
  | label i b => rfl
  | ljump root l => cases l <;> simp

/-! ### a collected body -/

/-- the label table: ids are below the label counter, different names have different ids -/
structure GInv (s : St) : Prop where
  le : ∀ i ∈ namedIds s, i ≤ s.lbc
  inj : ∀ n m i, s.named.lookup n = some i → s.named.lookup m = some i → n = m

/-- what a collected routine / macro body satisfies -/
structure BodyW (s s' : St) (defs : List String) (items : List LItem) : Prop where
  ginv : GInv s'
  ext : Ext s s'
  intN : ∀ n, (intIds items).count n ≤ 1
  intR : ∀ x ∈ intIds items, s.lbc < x ∧ x ≤ s'.lbc ∧ x ∉ namedIds s'
  usr : ∀ i, (usrIds items).count i ≤ (defs.filterMap fun n => s'.named.lookup n).count i
  root : ∀ x ∈ items, rootOK x = true
  ctx : CtxP items

theorem dummy_not_ctx' : isCtx Gen.op_dummy_end = false := by decide

theorem compileBody_w {ms : Macros} (hms : MsW ms) (terminate : Bool) {body : Stmts} (hw : wStmts body = true)
    {s : St} {items : List LItem} {s' : St} (hg : GInv s) (h : compileBody ms terminate body s = .ok (items, s')) :
    BodyW s s' (dfStmts body) items ∧ (terminate = true → condOK items = true) := by
  unfold compileBody at h
  split at h
  · simp [fail_ok] at h
  · simp only [bind_ok, visitTicks_ok] at h
    obtain ⟨lb, s1, h1, ops, s2, h2, h3⟩ := h
    simp only [Prod.mk.injEq] at h1
    obtain ⟨rfl, rfl⟩ := h1
    let c : LCtx := ⟨s.lbc, s.lbc + vlStmts body⟩
    have hs1 : StOK c ((s.tickedLbl (vlStmts body)).tickedOp (voStmts body)) :=
      ⟨by simp [c, St.tickedLbl, St.tickedOp], fun i hi => by have := hg.le i hi; simp [St.tickedLbl, St.tickedOp]; omega,
       fun i hi => .inl (hg.le i hi), hg.inj⟩
    have w := cStmts_w ms hms c body s.lbc hw ⟨Nat.le_refl _, Nat.le_refl _⟩ _ _ _ hs1 h2
    have e1 : Ext s ((s.tickedLbl (vlStmts body)).tickedOp (voStmts body)) :=
      ⟨by simp [St.tickedLbl, St.tickedOp], fun _ _ h => h, fun _ h => .inl h⟩
    have rg := rsStmts_good body s.lbc
    have lbc1 : ((s.tickedLbl (vlStmts body)).tickedOp (voStmts body)).lbc = s.lbc + vlStmts body := rfl
    have l2 := w.ext.lbc
    rw [lbc1] at l2
    have hcount : ∀ n, (intIds ops).count n ≤ 1 ∧ (0 < (intIds ops).count n → s.lbc < n) := by
      intro n
      have a := w.lab n
      rw [lbc1] at a
      have b := rg n
      by_cases hc : s.lbc + vlStmts body < n ∧ n ≤ s2.lbc
      · rw [if_pos hc] at a
        have : (rsStmts s.lbc body).count n = 0 := by
          rcases Nat.eq_zero_or_pos ((rsStmts s.lbc body).count n) with h0 | h0
          · exact h0
          · have := b.2 h0; omega
        exact ⟨by omega, fun _ => by omega⟩
      · rw [if_neg hc] at a
        exact ⟨by omega, fun hp => (b.2 (by omega)).1⟩
    have base : BodyW s s2 (dfStmts body) ops :=
      ⟨⟨w.ok.le, w.ok.inj⟩, e1.trans w.ext, fun n => (hcount n).1, fun x hx => by
        obtain ⟨f1, f2⟩ := w.fresh x hx
        exact ⟨(hcount x).2 (List.count_pos_iff.mpr hx), f2, f1⟩, w.usr, w.root, w.ctx⟩
    split at h3
    · rename_i hcnd
      simp only [bind_ok, pure_ok] at h3
      obtain ⟨o, s3, h4, h5⟩ := h3
      simp only [Prod.mk.injEq] at h5
      obtain ⟨rfl, rfl⟩ := h5
      obtain ⟨rfl, rfl⟩ := genOp_spec h4
      have e3 := sameL_tickedOp s2 1
      refine ⟨⟨⟨by simpa [namedIds, e3.2, e3.1] using base.ginv.le, by rw [e3.2]; exact base.ginv.inj⟩, base.ext.trans e3.ext,
        by simpa using base.intN, fun x hx => ?_, by simpa [e3.2] using base.usr, fun x hx => ?_,
        base.ctx.append (ctxP_op _ dummy_not_ctx')⟩, fun _ => condOK_snoc_op _ _⟩
      · have := base.intR x (by simpa using hx)
        simpa [namedIds, e3.2, e3.1] using this
      · simp only [List.mem_append, List.mem_singleton] at hx
        rcases hx with hx | rfl
        · exact base.root x hx
        · rfl
    · rename_i hcnd
      simp only [pure_ok, Prod.mk.injEq] at h3
      obtain ⟨rfl, rfl⟩ := h3
      refine ⟨base, fun ht => condOK_of_not_need _ ?_⟩
      subst ht
      simpa using hcnd

end ESV.Comp
