import ESV.Comp.Backend
/-
Definitions only (no proofs; imported by the Lean driver through ESV/Comp/LabSem.lean): the vocabulary of the theorems about the
back end of the compiler model — op offsets of labelled code, `DistinctOffsets`, `ClosedOps` (C03), with their `Decidable`
instances.  The lemmas are in ESV/Comp/Lemmas.lean.
-/
namespace ESV.Comp
open ESV

/-! ### vocabulary -/

/-- offsets of the real ops (plain ops and label jumps) of a labelled op list, in order -/
def offs (l : List LItem) : List Nat := l.filterMap LItem.offsetOf

/-- names of the plain (non-jump) ops -/
def LItem.plainName : LItem → Option String
  | .op o => some o.name
  | _ => none

def plainNames (l : List LItem) : List String := l.filterMap LItem.plainName

/-- `name in OPS_WITH_JUMP_TO_MEM_OFFSET` -/
def isJumpName (n : String) : Bool := (jumpIdx n).isSome

/-- hypothesis of the back-end theorem: op offsets pairwise distinct across all routines -/
def DistinctOffsets (rs : List (List LItem)) : Prop := (offs rs.flatten).Nodup

instance (rs : List (List LItem)) : Decidable (DistinctOffsets rs) := by unfold DistinctOffsets; infer_instance

/-- no plain op (one that reaches the result unchanged) is named like a jump-carrying op -/
def NoRawJumpOps (rs : List (List LItem)) : Prop := ∀ n ∈ plainNames rs.flatten, isJumpName n = false

instance (rs : List (List LItem)) : Decidable (NoRawJumpOps rs) := by unfold NoRawJumpOps; infer_instance

/-- the last parameter is an int and the offset of an op of `all` -/
def lastIntIn (all : List Nat) (params : List Param) : Bool :=
  match params.getLast? with
  | some (.int t) => all.any fun n => (n : Int) == t
  | _ => false

def jumpOK (all : List Nat) (o : Op) : Bool := !isJumpName o.name || lastIntIn all o.params

def flatOffsets (ops : List (List Op)) : List Nat := ops.flatten.map (·.offset)

/-- the op tables of a compile result: offsets pairwise distinct across routines, every jump-carrying op has an
int last parameter that is the offset of an op of the result -/
def ClosedOps (ops : List (List Op)) : Prop :=
  (flatOffsets ops).Nodup ∧ ∀ o ∈ ops.flatten, jumpOK (flatOffsets ops) o = true

instance (ops : List (List Op)) : Decidable (ClosedOps ops) := by unfold ClosedOps; infer_instance

end ESV.Comp
